(* Tree.v — syntax trees and the tree-level meanings: the documented left-to-right short-circuit
   semantics `sem`, the tree-level meaning of TryEval `trysem`, and strong Kleene evaluation `kleene`.
   Definitions only. *)
Require Import Base Opcode Tables Ops.
Open Scope Z_scope.
Open Scope list_scope.

Inductive tree :=
  | TConst (v : value)
  | TVar (name : str) (key : Z)
  | TOp (name : str) (fast : bool) (cs : list tree)     (* operator / fastOperator astNode *)
  | TIf (c t f : tree).                                 (* cond node "if" (its fourth child "fi" is implicit) *)

Inductive effect :=
  | EGet (name : str) (key : Z)                                  (* VariableFetcher.Get *)
  | ECall (name : str) (fast : bool) (args : list value) (r : res value).  (* one operator application *)

Definition can_be_last (t : tree) : bool := match t with TIf _ _ _ => false | _ => true end.
Definition pre {A} (tr : list effect) (x : list effect * A) : list effect * A := (tr ++ fst x, snd x).

(* and is decided by false, or by true *)
Definition op_kind (name : str) : option bool :=
  if is_and name then Some false else if is_or name then Some true else None.

Definition is_leaf (t : tree) : bool := match t with TConst _ | TVar _ _ => true | _ => false end.
Definition fast_shape (fast : bool) (cs : list tree) : bool :=
  fast && match cs with [a; b] => is_leaf a && is_leaf b | _ => false end.

Section Sem.
  Variable fetch : str -> Z -> res value.              (* VariableFetcher.Get: any function *)
  Variable custom : str -> list value -> res value.    (* registered operators: any function *)

  (* getOperator: built-in table first, then the config's OperatorMap *)
  Definition apply_op (name : str) (args : list value) : res value :=
    match builtin name with Some o => apply_opcode o args | None => custom name args end.

  Definition leaf_val (t : tree) : list effect * res value :=
    match t with
    | TConst v => ([], Ok v)
    | TVar n k => ([EGet n k], fetch n k)
    | _ => ([], Ok VNil)
    end.

  (* fast operator: both leaves are fetched, then the operator is applied *)
  Definition sem_fast (name : str) (a b : tree) : list effect * res value :=
    match leaf_val a with
    | (tr1, Err e) => (tr1, Err e)
    | (tr1, Ok va) =>
      match leaf_val b with
      | (tr2, Err e) => (tr1 ++ tr2, Err e)
      | (tr2, Ok vb) =>
        let r := apply_op name [va; vb] in
        (tr1 ++ tr2 ++ [ECall name true [va; vb] r], r)
      end
    end.

  (* what the value v of an operand of an operator of kind k does: Some v' = it is the operator's result
     (a deciding boolean, or — for the last of two or more operands, unless that operand is an `if` — any
     boolean: the engine then does not apply the operator, whose result would be that same boolean when all
     operands are booleans); None = it becomes an argument *)
  Definition operand_result (k : option bool) (lastc : bool) (v : value) : bool :=
    match k, v with
    | Some d, VBool b => Bool.eqb b d || lastc
    | _, _ => false
    end.

  Fixpoint sem (t : tree) : list effect * res value :=
    match t with
    | TConst v => ([], Ok v)
    | TVar n k => ([EGet n k], fetch n k)
    | TOp name fast cs =>
      match fast_shape fast cs, cs with
      | true, [a; b] => sem_fast name a b
      | _, _ =>
        (fix args (cs : list tree) (acc : list value) : list effect * res value :=
           match cs with
           | [] => let r := apply_op name (rev acc) in ([ECall name false (rev acc) r], r)
           | c :: cs' =>
             match sem c with
             | (tr, Ok v) =>
               let lastc := match cs' with [] => can_be_last c && (2 <=? lenZ cs + lenZ acc) | _ => false end in
               if operand_result (op_kind name) lastc v then (tr, Ok v) else pre tr (args cs' (v :: acc))
             | (tr, Err e) => (tr, Err e)
             end
           end) cs []
      end
    | TIf c t f =>
      match sem c with
      | (tr, Ok (VBool true)) => pre tr (sem t)
      | (tr, Ok (VBool false)) => pre tr (sem f)
      | (tr, Ok _) => (tr, Err ECondNotBool)
      | (tr, Err e) => (tr, Err e)
      end
    end.

  Fixpoint sem_args (name : str) (cs : list tree) (acc : list value) : list effect * res value :=
    match cs with
    | [] => let r := apply_op name (rev acc) in ([ECall name false (rev acc) r], r)
    | c :: cs' =>
      match sem c with
      | (tr, Ok v) =>
        let lastc := match cs' with [] => can_be_last c && (2 <=? lenZ cs + lenZ acc) | _ => false end in
        if operand_result (op_kind name) lastc v then (tr, Ok v) else pre tr (sem_args name cs' (v :: acc))
      | (tr, Err e) => (tr, Err e)
      end
    end.

  (* ---------- TryEval at tree level ---------- *)
  Variable cached : str -> Z -> bool.                  (* VariableFetcher.Cached *)

  Definition is_false (v : value) : bool := match v with VBool false => true | _ => false end.
  Definition is_true (v : value) : bool := match v with VBool true => true | _ => false end.
  Definition is_dne (v : value) : bool := match v with VDNE => true | _ => false end.

  (* matchesShortCircuit for a node whose (if-transparent) parent has kind k *)
  Definition tmatches (k : option bool) (v : value) : bool :=
    match k with Some false => is_false v | Some true => is_true v | None => is_dne v end.

  (* executeOperatorProxy *)
  Definition proxy (name : str) (fast : bool) (args : list value) : list effect * res value :=
    if is_and name && existsb is_false args then ([], Ok (VBool false))
    else if is_or name && existsb is_true args then ([], Ok (VBool true))
    else if existsb is_dne args then ([], Ok VDNE)
    else let r := apply_op name args in ([ECall name fast args r], r).

  (* fetchVariableValueProxy / getNodeValueProxy *)
  Definition tleaf_val (t : tree) : list effect * res value :=
    match t with
    | TConst v => ([], Ok v)
    | TVar n k => if cached n k then ([EGet n k], fetch n k) else ([], Ok VDNE)
    | _ => ([], Ok VNil)
    end.

  Definition preR {A} (tr : list effect) (x : list effect * A) := (tr ++ fst x, snd x).

  Fixpoint trysem (t : tree) : list effect * res value :=
    match t with
    | TConst _ | TVar _ _ => tleaf_val t
    | TOp name fast cs =>
      match fast_shape fast cs, cs with
      | true, [a; b] =>
        match tleaf_val a with
        | (tr1, Err e) => (tr1, Err e)
        | (tr1, Ok va) =>
          match tleaf_val b with
          | (tr2, Err e) => (tr1 ++ tr2, Err e)
          | (tr2, Ok vb) => preR (tr1 ++ tr2) (proxy name true [va; vb])
          end
        end
      | _, _ =>
        (fix args (cs : list tree) (acc : list value) : list effect * res value :=
           match cs with
           | [] => proxy name false (rev acc)
           | c :: cs' =>
             match trysem c with
             | (tr, Ok v) => if tmatches (op_kind name) v then (tr, Ok v) else preR tr (args cs' (v :: acc))
             | (tr, Err e) => (tr, Err e)
             end
           end) cs []
      end
    | TIf c t f =>
      match trysem c with
      | (tr, Ok VDNE) => (tr, Ok VDNE)
      | (tr, Ok (VBool true)) => preR tr (trysem t)
      | (tr, Ok (VBool false)) => preR tr (trysem f)
      | (tr, Ok _) => (tr, Err ECondNotBool)
      | (tr, Err e) => (tr, Err e)
      end
    end.

  Fixpoint trysem_args (name : str) (cs : list tree) (acc : list value) : list effect * res value :=
    match cs with
    | [] => proxy name false (rev acc)
    | c :: cs' =>
      match trysem c with
      | (tr, Ok v) => if tmatches (op_kind name) v then (tr, Ok v) else preR tr (trysem_args name cs' (v :: acc))
      | (tr, Err e) => (tr, Err e)
      end
    end.

  (* ---------- strong Kleene evaluation (VDNE = unknown) ---------- *)

  Fixpoint all_ok (rs : list (res value)) : res (list value) :=
    match rs with
    | [] => Ok []
    | Ok v :: rs' => bind (all_ok rs') (fun vs => Ok (v :: vs))
    | Err e :: _ => Err e
    end.

  Fixpoint kleene (t : tree) : res value :=
    match t with
    | TConst v => Ok v
    | TVar n k => if cached n k then fetch n k else Ok VDNE
    | TOp name fast cs =>
      bind (all_ok (map kleene cs)) (fun vs =>
        match op_kind name with
        | Some false => if existsb is_false vs then Ok (VBool false) else if existsb is_dne vs then Ok VDNE else apply_op name vs
        | Some true => if existsb is_true vs then Ok (VBool true) else if existsb is_dne vs then Ok VDNE else apply_op name vs
        | None => if existsb is_dne vs then Ok VDNE else apply_op name vs
        end)
    | TIf c t f =>
      bind (kleene c) (fun vc =>
        match vc with
        | VDNE => Ok VDNE
        | VBool true => kleene t
        | VBool false => kleene f
        | _ => Err ECondNotBool
        end)
    end.
End Sem.

(* ---------- sizes as the compiler counts them ---------- *)

Fixpoint size (t : tree) : nat :=
  match t with
  | TConst _ | TVar _ _ => 1
  | TOp _ _ cs => S (fold_right (fun c a => (size c + a)%nat) 0%nat cs)
  | TIf c t f => (size c + size t + size f + 2)%nat
  end.
Definition sizes (cs : list tree) : nat := fold_right (fun c a => (size c + a)%nat) 0%nat cs.

(* induction principle with the operand list *)
Section tree_ind2.
  Variable P : tree -> Prop.
  Hypothesis HC : forall v, P (TConst v).
  Hypothesis HV : forall n k, P (TVar n k).
  Hypothesis HO : forall name fast cs, Forall P cs -> P (TOp name fast cs).
  Hypothesis HI : forall c t f, P c -> P t -> P f -> P (TIf c t f).
  Fixpoint tree_ind2 (t : tree) : P t :=
    match t with
    | TConst v => HC v
    | TVar n k => HV n k
    | TOp name fast cs =>
      HO name fast cs ((fix F (l : list tree) : Forall P l :=
        match l with [] => Forall_nil _ | c :: l' => Forall_cons _ (tree_ind2 c) (F l') end) cs)
    | TIf c t f => HI c t f (tree_ind2 c) (tree_ind2 t) (tree_ind2 f)
    end.
End tree_ind2.
