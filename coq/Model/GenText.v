(* GenText.v — the text GenerateRandomExpr returns for the tree it builds: `(op a b c)`, `(if c a b)`, decimal
   literals, variable names; one space between the pieces. Definitions only. *)
Require Import Base Opcode Tables Ops Tree Print.
Open Scope Z_scope.
Open Scope list_scope.

Fixpoint gtext (t : tree) : str :=
  match t with
  | TConst (VInt z) => show_Z z
  | TConst _ => []
  | TVar n _ => n
  | TOp name _ cs => 40%N :: name ++ concat (map (fun c => 32%N :: gtext c) cs) ++ [41%N]
  | TIf a b d => ss "(if " ++ gtext a ++ 32%N :: gtext b ++ 32%N :: gtext d ++ [41%N]
  end.
