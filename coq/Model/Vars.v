(* Vars.v — variable.go: key registration (GetOrRegisterKey), fetcher selection and the two fetchers
   (NewCtxFromVars, SliceVarFetcher, MapVarFetcher), value normalisation (unifyType). Definitions only. *)
Require Import Base Tables.
Open Scope Z_scope.
Open Scope list_scope.

(* Config.VariableKeyMap as an association list without duplicate names *)
Definition keymap := list (str * Z).

Fixpoint km_find (name : str) (km : keymap) : option Z :=
  match km with [] => None | (n, k) :: km' => if str_eqb name n then Some k else km_find name km' end.

Definition km_keys (km : keymap) : list Z := map snd km.

(* the first i in from..from+fuel-1 that is not a key *)
Fixpoint first_free (keys : list Z) (from : Z) (fuel : nat) : option Z :=
  match fuel with
  | O => None
  | S f => if mem_Z from keys then first_free keys (from + 1) f else Some from
  end.

(* GetOrRegisterKey *)
Definition get_or_register (km : keymap) (name : str) : keymap * Z :=
  match km_find name km with
  | Some k => (km, k)
  | None =>
    let size := lenZ km in
    let k := match first_free (km_keys km) 1 (length km) with Some i => i | None => size + 1 end in
    (km ++ [(name, k)], k)
  end.

Definition register_all (km : keymap) (names : list str) : keymap * list Z :=
  fold_left (fun st n => let r := get_or_register (fst st) n in (fst r, snd st ++ [snd r])) names (km, []).

(* ---------- values as Go hands them in, and unifyType ---------- *)

Inductive goval :=
  | GInt64 (z : Z) | GInt (z : Z) | GInt32 (z : Z) | GInt16 (z : Z) | GInt8 (z : Z)
  | GUint64 (z : Z) | GUint32 (z : Z) | GUint16 (z : Z) | GUint8 (z : Z)
  | GBool (b : bool) | GStr (s : str)
  | GInt64s (l : list Z) | GInts (l : list Z) | GInt32s (l : list Z) | GStrs (l : list str)
  | GTime (unix : Z)                 (* time.Time, given by its Unix seconds *)
  | GDuration (ns : Z)               (* time.Duration in nanoseconds *)
  | GNil.

Definition unify (g : goval) : value :=
  match g with
  | GInt64 z | GInt z | GInt32 z | GInt16 z | GInt8 z | GUint32 z | GUint16 z | GUint8 z => VInt z
  | GUint64 z => VInt (wrap64 z)              (* int64(v): two's complement reinterpretation *)
  | GBool b => VBool b
  | GStr s => VStr s
  | GInt64s l | GInts l | GInt32s l => VIntL l
  | GStrs l => VStrL l
  | GTime u => VInt u
  | GDuration ns => VInt (Z.quot ns 1000000000)
  | GNil => VNil
  end.

Definition bindings := list (str * goval).
Fixpoint b_find (name : str) (b : bindings) : option goval :=
  match b with [] => None | (n, g) :: b' => if str_eqb name n then Some g else b_find name b' end.

(* ---------- fetchers ---------- *)

Inductive fetcher := FSlice (arr : list (Z * value)) (len : Z) | FMap (b : bindings).

Definition key_min (km : keymap) : Z := fold_left Z.min (km_keys km) 32767.
Definition key_max (km : keymap) : Z := fold_left Z.max (km_keys km) (-32768).

(* NewSliceVarFetcher: for every (name, key) of the key map whose name is bound: fetcher[key] = unify(value).
   (Go iterates the map in random order; later writes win. The list order here is one such order.) *)
Definition slice_of (km : keymap) (b : bindings) : list (Z * value) :=
  fold_left (fun arr nk => match b_find (fst nk) b with Some g => (snd nk, unify g) :: arr | None => arr end) km [].

Fixpoint arr_get (k : Z) (arr : list (Z * value)) : value :=
  match arr with [] => VNil | (k', v) :: arr' => if k =? k' then v else arr_get k arr' end.

(* NewCtxFromVars *)
Definition new_ctx (undefined : bool) (km : keymap) (b : bindings) : fetcher :=
  if undefined then FMap b else
  let mn := key_min km in let mx := key_max km in
  if (mn <=? mx) && (0 <=? mn) && (mx <? slice_fetcher_limit) then FSlice (slice_of km b) (mx + 1) else FMap b.

(* VariableFetcher.Get *)
Definition fget (f : fetcher) (key : Z) (name : str) : res value :=
  match f with
  | FSlice arr len => if len <=? key then Err (EUnbound name) else Ok (arr_get key arr)
  | FMap b => match b_find name b with Some g => Ok (unify g) | None => Err (EUnbound name) end
  end.

Definition injective (km : keymap) : Prop := NoDup (km_keys km).
Definition names_distinct (km : keymap) : Prop := NoDup (map fst km).
