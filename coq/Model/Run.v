(* Run.v — the evaluators of engine.go on flat programs: `run` (Expr.Eval) and `tryrun` (Expr.TryEval).
   The operand stack is the live prefix os[0..osTop] as a list (bottom first); every access the Go code
   makes outside the live prefix is an explicit MPanic. Definitions only. *)
Require Import Base Opcode Tables Ops Tree Opt Flat.
Open Scope Z_scope.
Open Scope list_scope.

Inductive mres := MVal (v : value) | MErr (e : err) | MPanic (site : N) | MFuel.

(* what an observer of one evaluation can see, in order *)
Inductive obs :=
  | OGet (name : str) (key : Z)                                           (* VariableFetcher.Get *)
  | OCall (name : str) (fast : bool) (args : list value) (r : res value)  (* operator application (= OP_EXEC event) *)
  | OLoop (pos : Z) (of : nkind) (stack : list value).                    (* LOOP event *)

(* the observations of a run without its LOOP events *)
Definition drop_loops (tr : list obs) : list obs :=
  filter (fun o => match o with OLoop _ _ _ => false | _ => true end) tr.

Definition firstnZ {A} (n : Z) (l : list A) : list A := firstn (Z.to_nat n) l.
Definition preM {A} (tr : list obs) (x : list obs * A) : list obs * A := (tr ++ fst x, snd x).

Inductive landing := LRet | LAt (j : Z) (nd : node) | LStuck.

Section Run.
  Variable fetch : str -> Z -> res value.
  Variable custom : str -> list value -> res value.
  Variable cached : str -> Z -> bool.
  Variable P : prog.

  Definition getn (i : Z) : option node := nthZ (nodes P) i.
  Definition psize : Z := lenZ (nodes P).

  (* os := make([]Value, 8 | 16 | size) *)
  Definition alloc : Z :=
    if maxStack P <=? stack_small then stack_small
    else if maxStack P <=? stack_mid then stack_mid else psize.

  Definition matches (nd : node) (b : bool) : bool := if b then scT nd else scF nd.

  (* the short-circuit loop, entered after the first jump: follow scIdx links while the flag matches *)
  Fixpoint chain (fuel : nat) (j : Z) (b : bool) : landing :=
    match fuel with
    | O => LStuck
    | S f =>
      if j =? -1 then LRet else
      match getn j with
      | None => LStuck
      | Some nd => if matches nd b then chain f (scIdx nd) b else LAt j nd
      end
    end.

  Definition push (stk : list value) (v : value) : option (list value) :=
    if lenZ stk <? alloc then Some (stk ++ [v]) else None.

  (* what happens to the value v produced at node nd (short-circuit test, store, advance) *)
  Definition after (k : Z -> list value -> list obs * mres) (next : Z) (nd : node) (v : value) (stk : list value)
    : list obs * mres :=
    let store_next := match push stk v with Some s => k next s | None => ([], MPanic 10) end in
    match v with
    | VBool b =>
      if matches nd b then
        match chain (length (nodes P)) (scIdx nd) b with
        | LRet => ([], MVal v)
        | LStuck => ([], MPanic 11)
        | LAt j nd' =>
          (* osTop = nd'.osTop - 1; os[osTop+1] = res *)
          if (osTop nd' <? 0) || (lenZ stk <? osTop nd') then ([], MPanic 12) else
          match push (firstnZ (osTop nd') stk) v with Some s => k (j + 1) s | None => ([], MPanic 10) end
        end
      else store_next
    | _ => store_next
    end.

  (* value of a leaf child of a fast operator *)
  Definition fast_leaf (nd : node) : list obs * res value :=
    match kind nd with
    | KVar n k => ([OGet n k], fetch n k)
    | KConst v => ([], Ok v)
    | _ => ([], Ok VNil)
    end.

  Definition apply_named := apply_op custom.

  Fixpoint run (fuel : nat) (i : Z) (stk : list value) : list obs * mres :=
    match fuel with
    | O => ([], MFuel)
    | S f =>
      if psize <=? i then ([], match stk with v :: _ => MVal v | [] => MPanic 1 end) else
      match getn i with
      | None => ([], MPanic 2)
      | Some nd =>
        match kind nd with
        | KFast name =>
          match getn (i + 1), getn (i + 2) with
          | Some a, Some b =>
            match fast_leaf a with
            | (t1, Err e) => (t1, MErr e)
            | (t1, Ok va) =>
              match fast_leaf b with
              | (t2, Err e) => (t1 ++ t2, MErr e)
              | (t2, Ok vb) =>
                let r := apply_named name [va; vb] in
                preM (t1 ++ t2 ++ [OCall name true [va; vb] r])
                  match r with
                  | Err e => ([], MErr e)
                  | Ok v => after (run f) (i + 3) nd v stk
                  end
              end
            end
          | _, _ => ([], MPanic 3)
          end
        | KVar n k =>
          preM [OGet n k] match fetch n k with Err e => ([], MErr e) | Ok v => after (run f) (i + 1) nd v stk end
        | KConst v => after (run f) (i + 1) nd v stk
        | KOp name =>
          let cnt := childCnt nd in
          if (cnt <? 0) || (lenZ stk <? cnt) then ([], MPanic 4) else
          let keep := Z.to_nat (lenZ stk - cnt) in
          let args := skipn keep stk in
          let r := apply_named name args in
          preM [OCall name false args r]
            match r with
            | Err e => ([], MErr e)
            | Ok v => after (run f) (i + 1) nd v (firstn keep stk)
            end
        | KIf =>
          match rev stk with
          | [] => ([], MPanic 5)
          | c :: below =>
            match c with
            | VBool true => run f (i + 1) (rev below)
            | VBool false =>
              (* osTop = curt.osTop; i = curt.scIdx; continue (then i++) *)
              if (osTop nd + 1 <? 0) || (lenZ below <? osTop nd + 1) then ([], MPanic 6)
              else run f (scIdx nd + 1) (firstnZ (osTop nd + 1) (rev below))
            | _ => ([], MErr ECondNotBool)
            end
          end
        | KFi =>
          match stk with
          | [] => ([], MPanic 7)
          | _ =>
            if (osTop nd + 1 <? 0) || (lenZ stk <? osTop nd + 1) then ([], MPanic 8)
            else run f (scIdx nd + 1) (firstnZ (osTop nd + 1) stk)
          end
        | KEvent pos of => preM [OLoop pos of stk] (run f (i + 1) stk)
        end
      end
    end.

  Definition eval : list obs * mres := run (S (length (nodes P))) 0 [].

  (* ---------- TryEval ---------- *)

  Definition tflag (nd : node) : option bool :=
    match pAnd nd, pOr nd with true, false => Some false | false, true => Some true | _, _ => None end.
  Definition tmatch (nd : node) (v : value) : bool := tmatches (tflag nd) v.

  Definition parent_of (i : Z) : option Z := nthZ (parents P) i.

  Definition tleaf (nd : node) : list obs * res value :=
    match kind nd with
    | KConst v => ([], Ok v)
    | KVar n k => if cached n k then ([OGet n k], fetch n k) else ([], Ok VDNE)
    | _ => ([], Ok VNil)
    end.

  Definition is_boolname_and (k : nkind) : bool := match k with KOp n | KFast n => is_and n | _ => false end.
  Definition is_boolname_or (k : nkind) : bool := match k with KOp n | KFast n => is_or n | _ => false end.

  Definition tproxy (nd : node) (name : str) (fast : bool) (args : list value) : list obs * res value :=
    if is_boolname_and (kind nd) && existsb is_false args then ([], Ok (VBool false))
    else if is_boolname_or (kind nd) && existsb is_true args then ([], Ok (VBool true))
    else if existsb is_dne args then ([], Ok VDNE)
    else let r := apply_named name args in ([OCall name fast args r], r).

  (* the `for matchesShortCircuit(res, curt)` loop; top is the Go variable osTop (it may pass through values
     below -1 while climbing through an `if` node; the stack is only touched by the final store) *)
  Definition store_at (k : Z -> list value -> list obs * mres) (next : Z) (top : Z) (v : value) (stk : list value)
    : list obs * mres :=
    if (top + 1 <? 0) || (lenZ stk <? top + 1) then ([], MPanic 24) else
    match push (firstnZ (top + 1) stk) v with Some s => k next s | None => ([], MPanic 10) end.

  Fixpoint tclimb (fuel : nat) (k : Z -> list value -> list obs * mres) (i : Z) (curt : node) (v : value)
                  (top : Z) (stk : list value) : list obs * mres :=
    if tmatch curt v then
      match fuel with
      | O => ([], MFuel)
      | S f =>
        match parent_of i with
        | None => ([], MPanic 20)
        | Some pi =>
          if pi =? -1 then ([], MVal v) else
          match getn pi with
          | None => ([], MPanic 21)
          | Some p =>
            if is_cond_kind (kind p) && negb (tmatch p v) then
              match getn (scIdx p) with
              | None => ([], MPanic 22)
              | Some fi =>
                let j := scIdx fi in
                match getn j with
                | None => ([], MPanic 23)
                | Some e => store_at k (j + 1) (osTop e - 1) v stk
                end
              end
            else tclimb f k pi p v (osTop p - 1) stk
          end
        end
      end
    else store_at k (i + 1) top v stk.

  Fixpoint tryrun (fuel : nat) (i : Z) (stk : list value) : list obs * mres :=
    match fuel with
    | O => ([], MFuel)
    | S f =>
      if psize <=? i then ([], match stk with v :: _ => MVal v | [] => MPanic 1 end) else
      match getn i with
      | None => ([], MPanic 2)
      | Some nd =>
        let go := tclimb (length (nodes P)) (tryrun f) in
        match kind nd with
        | KFast name =>
          match getn (i + 1), getn (i + 2) with
          | Some a, Some b =>
            match tleaf a with
            | (t1, Err e) => (t1, MErr e)
            | (t1, Ok va) =>
              match tleaf b with
              | (t2, Err e) => (t1 ++ t2, MErr e)
              | (t2, Ok vb) =>
                match tproxy nd name true [va; vb] with
                | (t3, Err e) => (t1 ++ t2 ++ t3, MErr e)
                | (t3, Ok v) => preM (t1 ++ t2 ++ t3) (go (i + 2) nd v (lenZ stk - 1) stk)
                end
              end
            end
          | _, _ => ([], MPanic 3)
          end
        | KVar _ _ =>
          match tleaf nd with
          | (t1, Err e) => (t1, MErr e)
          | (t1, Ok v) => preM t1 (go i nd v (lenZ stk - 1) stk)
          end
        | KConst v => go i nd v (lenZ stk - 1) stk
        | KOp name =>
          let cnt := childCnt nd in
          if (cnt <? 0) || (lenZ stk <? cnt) then ([], MPanic 4) else
          let keep := Z.to_nat (lenZ stk - cnt) in
          match tproxy nd name false (skipn keep stk) with
          | (t1, Err e) => (t1, MErr e)
          | (t1, Ok v) => preM t1 (go i nd v (Z.of_nat keep - 1) (firstn keep stk))
          end
        | KIf =>
          match rev stk with
          | [] => ([], MPanic 5)
          | c :: below =>
            match c with
            | VBool true => tryrun f (i + 1) (rev below)
            | VBool false =>
              if (osTop nd + 1 <? 0) || (lenZ below <? osTop nd + 1) then ([], MPanic 6)
              else tryrun f (scIdx nd + 1) (firstnZ (osTop nd + 1) (rev below))
            | _ => ([], MErr ECondNotBool)
            end
          end
        | KFi =>
          match stk with
          | [] => ([], MPanic 7)
          | _ =>
            if (osTop nd + 1 <? 0) || (lenZ stk <? osTop nd + 1) then ([], MPanic 8)
            else tryrun f (scIdx nd + 1) (firstnZ (osTop nd + 1) stk)
          end
        | KEvent pos of => preM [OLoop pos of stk] (tryrun f (i + 1) stk)
        end
      end
    end.

  Definition tryeval : list obs * mres := tryrun (S (length (nodes P))) 0 [].
End Run.
