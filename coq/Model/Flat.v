(* Flat.v — the flat program (engine.go `node`, `Expr`) and the compiler back end of compiler.go:
   calAndSetNodes, calAndSetParentIndex, calAndSetStackSize, calAndSetShortCircuit,
   calAndSetShortCircuitForRCO as ONE structural recursion, and calAndSetEventNode. Definitions only. *)
Require Import Base Opcode Tables Ops Tree Opt.
Open Scope Z_scope.
Open Scope list_scope.

Inductive nkind :=
  | KConst (v : value)
  | KVar (name : str) (key : Z)
  | KOp (name : str)
  | KFast (name : str)
  | KIf
  | KFi
  | KEvent (curt : Z) (of : nkind).     (* LoopEventData{CurtIdx, NodeType/NodeValue of the real node} *)

Record node := {
  kind : nkind;
  childCnt : Z;
  scF : bool; scT : bool;      (* scIfFalse / scIfTrue *)
  scIdx : Z;
  osTop : Z;
  pAnd : bool; pOr : bool      (* parent bool op flag (RCO) *)
}.

Record prog := { nodes : list node; parents : list Z; maxStack : Z }.

Definition flags := (bool * bool)%type.    (* (scIfFalse, scIfTrue) *)
Definition fnone : flags := (false, false).
Definition fsub (a b : flags) : bool := implb (fst a) (fst b) && implb (snd a) (snd b).
Definition feq (a b : flags) : bool := Bool.eqb (fst a) (fst b) && Bool.eqb (snd a) (snd b).
Definition fhas (f : flags) (b : bool) : bool := if b then snd f else fst f.
Definition fany (f : flags) : bool := fst f || snd f.

(* the `for p.flag&flag == flag` loop of calAndSetShortCircuit over the ancestors' first-pass decorations *)
Fixpoint climb (fl : flags) (anc : list (flags * Z)) (cur : Z) : Z :=
  match anc with
  | [] => cur
  | (pf, pt) :: rest => if fsub fl pf then (if feq pf fl then pt else climb fl rest pt) else cur
  end.

Definition rco := option bool.   (* Some false: parent is and; Some true: parent is or *)

Definition is_cond_kind (k : nkind) : bool := match k with KIf | KFi => true | _ => false end.

Section Comp.
  Variable last : Z.      (* size - 1: a target equal to it is stored as -1 *)

  Definition mk (k : nkind) (cnt : Z) (mf : flags) (tg : Z) (h : Z) (r : rco) : node :=
    {| kind := k; childCnt := cnt; scF := fst mf; scT := snd mf;
       scIdx := if is_cond_kind k then tg else if tg =? last then -1 else tg;
       osTop := h;
       pAnd := match r with Some false => true | _ => false end;
       pOr := match r with Some true => true | _ => false end |}.

  (* index of the node that stands for the subtree (astNode.idx) *)
  Definition root_idx (t : tree) (base : Z) : Z :=
    match t with
    | TConst _ | TVar _ _ => base
    | TOp _ fast cs => if fast_shape fast cs then base else base + Z.of_nat (size t) - 1
    | TIf c _ _ => base + Z.of_nat (size c)
    end.

  (* isLastChild looks only at index arithmetic: an `if` operand is never "last" (Tree.can_be_last) *)

  Definition leaf_kind (t : tree) : nkind :=
    match t with TConst v => KConst v | TVar n k => KVar n k | _ => KConst VNil end.

  (* flag of an operand of an operator of kind k *)
  Definition child_flags (k : option bool) (lastc : bool) : flags :=
    match k with
    | Some false => (true, lastc)
    | Some true => (lastc, true)
    | None => fnone
    end.

  (* comp t base h inh anc mf mt pidx r:
       base  absolute index of the first node of the subtree      h  number of operands below it
       (mf, mt) decoration (flags, target) of the subtree's root node
       inh   the decoration was inherited from an enclosing `if` (second pass) — descendants do not climb through it
       anc   first-pass decorations of the ancestors (for climb)
       pidx  parentIdx of the root node      r  RCO flag of the root node
     result: nodes with their parentIdx *)
  Fixpoint comp (t : tree) (base h : Z) (inh : bool) (anc : list (flags * Z)) (mf : flags) (mt : Z)
                (pidx : Z) (r : rco) : list (node * Z) :=
    match t with
    | TConst v => [ (mk (KConst v) 0 mf mt h r, pidx) ]
    | TVar n k => [ (mk (KVar n k) 0 mf mt h r, pidx) ]
    | TOp name fast cs =>
      match fast_shape fast cs, cs with
      | true, [a; b] =>
        let k := op_kind name in
        let fl := child_flags k false in
        [ (mk (KFast name) 2 mf mt h r, pidx);
          (mk (leaf_kind a) 0 fl (if fany fl then base else base + 1) h k, base);
          (mk (leaf_kind b) 0 fl (if fany fl then base else base + 2) h k, base) ]
      | _, _ =>
        let ridx := base + Z.of_nat (size t) - 1 in
        let anc' := if inh then [] else (mf, mt) :: anc in
        let k := op_kind name in
        let n := lenZ cs in
        (fix go (cs : list tree) (b hh : Z) : list (node * Z) :=
           match cs with
           | [] => []
           | c :: cs' =>
             let lastc := match cs' with [] => can_be_last c && (2 <=? n) | _ => false end in
             let fl := child_flags k lastc in
             let tg := if fany fl then climb fl anc' ridx else root_idx c b in
             comp c b hh false anc' fl tg ridx k ++ go cs' (b + Z.of_nat (size c)) (hh + 1)
           end) cs base h
        ++ [ (mk (KOp name) n mf mt h r, pidx) ]
      end
    | TIf c t f =>
      let ifidx := base + Z.of_nat (size c) in
      let tb := ifidx + 1 in
      let fiidx := tb + Z.of_nat (size t) in
      let fb := fiidx + 1 in
      let endidx := fb + Z.of_nat (size f) - 1 in
      let inherit := negb (mt =? ifidx) in
      comp c base h false [] fnone (root_idx c base) ifidx None
      ++ [ (mk KIf 4 mf fiidx (h - 1) r, pidx) ]
      ++ comp t tb h true [] (if inherit then mf else fnone) (if inherit then mt else root_idx t tb) ifidx r
      ++ [ (mk KFi 0 (if inherit then mf else fnone) endidx h r, ifidx) ]
      ++ comp f fb h true [] (if inherit then mf else fnone) (if inherit then mt else root_idx f fb) ifidx r
    end.

  Fixpoint comp_args (k : option bool) (n : Z) (ridx : Z) (anc' : list (flags * Z)) (cs : list tree) (b hh : Z)
    : list (node * Z) :=
    match cs with
    | [] => []
    | c :: cs' =>
      let lastc := match cs' with [] => can_be_last c && (2 <=? n) | _ => false end in
      let fl := child_flags k lastc in
      let tg := if fany fl then climb fl anc' ridx else root_idx c b in
      comp c b hh false anc' fl tg ridx k ++ comp_args k n ridx anc' cs' (b + Z.of_nat (size c)) (hh + 1)
    end.
End Comp.

Definition max_list (l : list Z) (d : Z) : Z := fold_left Z.max l d.

Definition compile (t : tree) : prog :=
  let code := comp (Z.of_nat (size t) - 1) t 0 0 false [] fnone (root_idx t 0) (-1) None in
  {| nodes := map fst code;
     parents := map snd code;
     maxStack := max_list (map (fun nd => osTop (fst nd) + 1) code) 1 |}.

(* ---------- calAndSetEventNode ---------- *)

Definition event_node (pos : Z) (nd : node) : node :=
  {| kind := KEvent pos (kind nd); childCnt := childCnt nd; scF := false; scT := false;
     scIdx := scIdx nd; osTop := osTop nd; pAnd := false; pOr := false |}.

(* first pass: interleave; returns (new nodes with OLD scIdx/parents, realIdx of each old node, eventIdx of each old node) *)
Fixpoint ev_layout (code : list (node * Z)) (skip : nat) (len : Z)
  : list (node * Z * bool) * list Z * list Z :=
  match code with
  | [] => ([], [], [])
  | (nd, p) :: code' =>
    match skip with
    | S k =>
      let '(res, real, ev) := ev_layout code' k (len + 1) in
      ((nd, p, false) :: res, len :: real, 0 :: ev)
    | O =>
      let skip' := match kind nd with KFast _ => 2%nat | _ => 0%nat end in
      let '(res, real, ev) := ev_layout code' skip' (len + 2) in
      ((event_node (len + 1) nd, p, true) :: (nd, p, false) :: res, (len + 1) :: real, len :: ev)
    end
  end.

Definition remap (m : list Z) (i : Z) : Z := match nthZ m i with Some j => j | None => i end.

Definition eventize (P : prog) : prog :=
  let '(res, real, ev) := ev_layout (combine (nodes P) (parents P)) 0 0 in
  {| nodes := map (fun x => let '(nd, _, _) := x in
                   {| kind := kind nd; childCnt := childCnt nd; scF := scF nd; scT := scT nd;
                      scIdx := if scIdx nd =? -1 then -1 else remap real (scIdx nd);
                      osTop := osTop nd; pAnd := pAnd nd; pOr := pOr nd |}) res;
     parents := map (fun x => let '(_, p, isev) := x in
                     if p =? -1 then -1 else if isev : bool then remap ev p else remap real p) res;
     maxStack := maxStack P |}.
