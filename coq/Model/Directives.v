(* Directives.v — parser.parseConfig: the `;;;;` compile directives in leading comments, and CopyConfig as the
   model sees it (C08, C02). Definitions only. *)
Require Import Base Tables Ops Tree Opt.
Open Scope Z_scope.
Open Scope list_scope.

(* unicode.IsSpace *)
Definition is_space (c : N) : bool :=
  ((9 <=? c) && (c <=? 13) || (c =? 32) || (c =? 133) || (c =? 160) || (c =? 5760)
   || (8192 <=? c) && (c <=? 8202) || (c =? 8232) || (c =? 8233) || (c =? 8239) || (c =? 8287) || (c =? 12288))%N.

Fixpoint trim_left (s : str) : str := match s with c :: s' => if is_space c then trim_left s' else s | [] => [] end.
Definition trim (s : str) : str := rev (trim_left (rev (trim_left s))).

Fixpoint strip_prefix (p s : str) : option str :=
  match p, s with
  | [], _ => Some s
  | a :: p', b :: s' => if N.eqb a b then strip_prefix p' s' else None
  | _ :: _, [] => None
  end.

(* strconv.ParseBool *)
Definition parse_bool (s : str) : option bool :=
  if existsb (str_eqb s) [ss "1"; ss "t"; ss "T"; ss "TRUE"; ss "true"; ss "True"] then Some true
  else if existsb (str_eqb s) [ss "0"; ss "f"; ss "F"; ss "FALSE"; ss "false"; ss "False"] then Some false
  else None.

Fixpoint str_to_string (s : str) : string :=
  match s with [] => EmptyString | c :: s' => String (ascii_of_N c) (str_to_string s') end.

Definition set_opt (opts : list (string * bool)) (name : string) (b : bool) : list (string * bool) := (name, b) :: opts.

(* one `name : bool` item *)
Definition apply_item (opts : list (string * bool)) (item : str) : option (list (string * bool)) :=
  match split 58 item with       (* ':' *)
  | [k; v] =>
    match parse_bool (trim v) with
    | None => None
    | Some b =>
      let name := trim k in
      if str_eqb name (ss opt_all_switch) then Some (fold_left (fun o n => set_opt o n b) optimizations_order opts)
      else if existsb (fun n => str_eqb name (ss n)) optimizations_order then Some (set_opt opts (str_to_string name) b)
      else None
    end
  | _ => None
  end.

(* one comment token (text from ';' to the end of the line) *)
Definition apply_comment (opts : list (string * bool)) (cmt : str) : option (list (string * bool)) :=
  match strip_prefix (ss ";;;;") (trim cmt) with
  | None => Some opts                                   (* an ordinary comment *)
  | Some rest =>
    fold_left (fun acc item => match acc with Some o => apply_item o item | None => None end) (split 44 rest) (Some opts)  (* ',' *)
  end.

(* parseConfig over the comment tokens that precede the first other token *)
Definition apply_directives (opts : list (string * bool)) (comments : list str) : option (list (string * bool)) :=
  fold_left (fun acc c => match acc with Some o => apply_comment o c | None => None end) comments (Some opts).

(* the effective switch of a pass: true or absent = enabled *)
Definition switch (opts : list (string * bool)) (name : string) : bool :=
  match assoc_s name opts with Some b => b | None => true end.

Definition with_opts (cfg : config) (opts : list (string * bool)) : config :=
  {| enabled := opts; stateless := stateless cfg; registered := registered cfg; costs := costs cfg; events := events cfg |}.
