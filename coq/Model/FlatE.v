(* FlatE.v — the program with event nodes (ReportEvent / Debug) as ONE structural recursion: every node except the
   leaf operands of a fast operator is preceded by its event node; indices, short-circuit targets and parents are
   those of the interleaved program. `compileE t` is compared with `eventize (compile t)` (the transliteration of
   calAndSetEventNode) and with Go's program on every correspondence case. Definitions only. *)
Require Import Base Opcode Tables Ops Tree Opt Flat.
Open Scope Z_scope.
Open Scope list_scope.

Fixpoint esize (t : tree) : nat :=
  match t with
  | TConst _ | TVar _ _ => 2
  | TOp _ fast cs => if fast_shape fast cs then 4 else S (S (fold_right (fun c a => (esize c + a)%nat) 0%nat cs))
  | TIf c t f => (esize c + esize t + esize f + 4)%nat
  end.
Definition esizes (cs : list tree) : nat := fold_right (fun c a => (esize c + a)%nat) 0%nat cs.

(* index of the real node that stands for the subtree *)
Definition root_idxE (t : tree) (base : Z) : Z :=
  match t with
  | TConst _ | TVar _ _ => base + 1
  | TOp _ fast cs => if fast_shape fast cs then base + 1 else base + Z.of_nat (esize t) - 1
  | TIf c _ _ => base + Z.of_nat (esize c) + 1
  end.

Definition evp (p : Z) : Z := if p =? -1 then -1 else p - 1.

Section CompE.
  Variable last : Z.

  Definition with_event (pos : Z) (nd : node) (pidx : Z) : list (node * Z) :=
    [ (event_node pos nd, evp pidx); (nd, pidx) ].

  Fixpoint compE (t : tree) (base h : Z) (inh : bool) (anc : list (flags * Z)) (mf : flags) (mt : Z)
                 (pidx : Z) (r : rco) : list (node * Z) :=
    match t with
    | TConst v => with_event (base + 1) (mk last (KConst v) 0 mf mt h r) pidx
    | TVar n k => with_event (base + 1) (mk last (KVar n k) 0 mf mt h r) pidx
    | TOp name fast cs =>
      match fast_shape fast cs, cs with
      | true, [a; b] =>
        let k := op_kind name in
        let fl := child_flags k false in
        with_event (base + 1) (mk last (KFast name) 2 mf mt h r) pidx ++
        [ (mk last (leaf_kind a) 0 fl (if fany fl then base + 1 else base + 2) h k, base + 1);
          (mk last (leaf_kind b) 0 fl (if fany fl then base + 1 else base + 3) h k, base + 1) ]
      | _, _ =>
        let ridx := base + Z.of_nat (esize t) - 1 in
        let anc' := if inh then [] else (mf, mt) :: anc in
        let k := op_kind name in
        let n := lenZ cs in
        (fix go (cs : list tree) (b hh : Z) : list (node * Z) :=
           match cs with
           | [] => []
           | c :: cs' =>
             let lastc := match cs' with [] => can_be_last c && (2 <=? n) | _ => false end in
             let fl := child_flags k lastc in
             let tg := if fany fl then climb fl anc' ridx else root_idxE c b in
             compE c b hh false anc' fl tg ridx k ++ go cs' (b + Z.of_nat (esize c)) (hh + 1)
           end) cs base h
        ++ with_event ridx (mk last (KOp name) n mf mt h r) pidx
      end
    | TIf c t f =>
      let ifidx := base + Z.of_nat (esize c) + 1 in
      let tb := ifidx + 1 in
      let fiidx := tb + Z.of_nat (esize t) + 1 in
      let fb := fiidx + 1 in
      let endidx := fb + Z.of_nat (esize f) - 1 in
      let inherit := negb (mt =? ifidx) in
      compE c base h false [] fnone (root_idxE c base) ifidx None
      ++ with_event ifidx (mk last KIf 4 mf fiidx (h - 1) r) pidx
      ++ compE t tb h true [] (if inherit then mf else fnone) (if inherit then mt else root_idxE t tb) ifidx r
      ++ with_event fiidx (mk last KFi 0 (if inherit then mf else fnone) endidx h r) ifidx
      ++ compE f fb h true [] (if inherit then mf else fnone) (if inherit then mt else root_idxE f fb) ifidx r
    end.

  Fixpoint compE_args (k : option bool) (n : Z) (ridx : Z) (anc' : list (flags * Z)) (cs : list tree) (b hh : Z)
    : list (node * Z) :=
    match cs with
    | [] => []
    | c :: cs' =>
      let lastc := match cs' with [] => can_be_last c && (2 <=? n) | _ => false end in
      let fl := child_flags k lastc in
      let tg := if fany fl then climb fl anc' ridx else root_idxE c b in
      compE c b hh false anc' fl tg ridx k ++ compE_args k n ridx anc' cs' (b + Z.of_nat (esize c)) (hh + 1)
    end.
End CompE.

Definition compileE (t : tree) : prog :=
  let code := compE (Z.of_nat (esize t) - 1) t 0 0 false [] fnone (root_idxE t 0) (-1) None in
  {| nodes := map fst code; parents := map snd code; maxStack := maxStack (compile t) |}.

(* Compile's back end: the plain program, or the event-mode program under ReportEvent / Debug. The event-mode program
   is the structural `compileE` (the one the C12 theorems are about; compared with Go's program field by field on every
   case); `eventize (compile t)`, the transliteration of calAndSetEventNode, is kept as a cross-check (code 10). *)
Definition compile_cfg (cfg : config) (t : tree) : prog :=
  if events cfg then compileE t else compile t.

(* Compile after optimisation: the capacity checks, then the program *)
Definition compile_checked (cfg : config) (t : tree) : cerr + prog :=
  match check t with
  | inl e => inl e
  | inr _ =>
    let P := compile_cfg cfg t in
    if event_max_nodes <? lenZ (nodes P) then inl (CTooManyEventNodes (lenZ (nodes P))) else inr P
  end.
