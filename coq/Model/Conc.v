(* Conc.v — one iteration of the Expr.Eval loop as a step function on the call's private state, and systems of
   concurrent calls over one shared program (C07). Definitions only. *)
Require Import Base Opcode Tables Ops Tree Opt Flat Run.
Open Scope Z_scope.
Open Scope list_scope.

(* what one loop iteration does to the private state (program counter, operand stack): continue or finish *)
Inductive stepres := SNext (i : Z) (stk : list value) (tr : list obs) | SDone (tr : list obs) (r : mres).

Definition preS (t : list obs) (s : stepres) : stepres :=
  match s with SNext i stk tr => SNext i stk (t ++ tr) | SDone tr r => SDone (t ++ tr) r end.

Section Step.
  Variable fetch : str -> Z -> res value.
  Variable custom : str -> list value -> res value.
  Variable P : prog.

  (* `after`, first order *)
  Definition afterS (next : Z) (nd : node) (v : value) (stk : list value) : stepres :=
    let store_next := match push P stk v with Some s => SNext next s [] | None => SDone [] (MPanic 10) end in
    match v with
    | VBool b =>
      if matches nd b then
        match chain P (length (nodes P)) (scIdx nd) b with
        | LRet => SDone [] (MVal v)
        | LStuck => SDone [] (MPanic 11)
        | LAt j nd' =>
          if (osTop nd' <? 0) || (lenZ stk <? osTop nd') then SDone [] (MPanic 12) else
          match push P (firstnZ (osTop nd') stk) v with Some s => SNext (j + 1) s [] | None => SDone [] (MPanic 10) end
        end
      else store_next
    | _ => store_next
    end.

  Definition istep (i : Z) (stk : list value) : stepres :=
    if psize P <=? i then SDone [] (match stk with v :: _ => MVal v | [] => MPanic 1 end) else
    match getn P i with
    | None => SDone [] (MPanic 2)
    | Some nd =>
      match kind nd with
      | KFast name =>
        match getn P (i + 1), getn P (i + 2) with
        | Some a, Some b =>
          match fast_leaf fetch a with
          | (t1, Err e) => SDone t1 (MErr e)
          | (t1, Ok va) =>
            match fast_leaf fetch b with
            | (t2, Err e) => SDone (t1 ++ t2) (MErr e)
            | (t2, Ok vb) =>
              let r := apply_named custom name [va; vb] in
              preS (t1 ++ t2 ++ [OCall name true [va; vb] r])
                match r with
                | Err e => SDone [] (MErr e)
                | Ok v => afterS (i + 3) nd v stk
                end
            end
          end
        | _, _ => SDone [] (MPanic 3)
        end
      | KVar n k =>
        preS [OGet n k] match fetch n k with Err e => SDone [] (MErr e) | Ok v => afterS (i + 1) nd v stk end
      | KConst v => afterS (i + 1) nd v stk
      | KOp name =>
        let cnt := childCnt nd in
        if (cnt <? 0) || (lenZ stk <? cnt) then SDone [] (MPanic 4) else
        let keep := Z.to_nat (lenZ stk - cnt) in
        let args := skipn keep stk in
        let r := apply_named custom name args in
        preS [OCall name false args r]
          match r with
          | Err e => SDone [] (MErr e)
          | Ok v => afterS (i + 1) nd v (firstn keep stk)
          end
      | KIf =>
        match rev stk with
        | [] => SDone [] (MPanic 5)
        | c :: below =>
          match c with
          | VBool true => SNext (i + 1) (rev below) []
          | VBool false =>
            if (osTop nd + 1 <? 0) || (lenZ below <? osTop nd + 1) then SDone [] (MPanic 6)
            else SNext (scIdx nd + 1) (firstnZ (osTop nd + 1) (rev below)) []
          | _ => SDone [] (MErr ECondNotBool)
          end
        end
      | KFi =>
        match stk with
        | [] => SDone [] (MPanic 7)
        | _ =>
          if (osTop nd + 1 <? 0) || (lenZ stk <? osTop nd + 1) then SDone [] (MPanic 8)
          else SNext (scIdx nd + 1) (firstnZ (osTop nd + 1) stk) []
        end
      | KEvent pos of => SNext (i + 1) stk [OLoop pos of stk]
      end
    end.
End Step.

(* ---------- systems of calls over ONE program ---------- *)

(* a call: its own fetcher (context), and its private state *)
Inductive cstate := Running (i : Z) (stk : list value) (tr : list obs) | Finished (tr : list obs) (r : mres).

Record call := { c_fetch : str -> Z -> res value; c_state : cstate }.

Definition call_step (custom : str -> list value -> res value) (P : prog) (c : call) : call :=
  match c_state c with
  | Finished _ _ => c
  | Running i stk tr =>
    {| c_fetch := c_fetch c;
       c_state := match istep (c_fetch c) custom P i stk with
                  | SNext i' stk' t => Running i' stk' (tr ++ t)
                  | SDone t r => Finished (tr ++ t) r
                  end |}
  end.

Fixpoint update {A} (l : list A) (n : nat) (f : A -> A) : list A :=
  match l, n with
  | [], _ => []
  | x :: l', O => f x :: l'
  | x :: l', S n' => x :: update l' n' f
  end.

(* a schedule is any list of call numbers; each entry lets that call run one loop iteration *)
Definition sys_run (custom : str -> list value -> res value) (P : prog) (calls : list call) (sched : list nat) : list call :=
  fold_left (fun cs n => update cs n (call_step custom P)) sched calls.

Definition new_call (f : str -> Z -> res value) : call := {| c_fetch := f; c_state := Running 0 [] [] |}.

Fixpoint iter_call (custom : str -> list value -> res value) (P : prog) (k : nat) (c : call) : call :=
  match k with O => c | S k' => iter_call custom P k' (call_step custom P c) end.
