(* Opt.v — the optimiser passes of compiler.go (constant folding, nesting reduction, fast-evaluation
   marking, cost-directed reordering), the cost model, and the capacity check. Definitions only. *)
Require Import Base Opcode Tables Ops Tree.
Open Scope Z_scope.
Open Scope list_scope.

Record config := {
  enabled : list (string * bool);     (* CompileOptions restricted to the optimisation switches: absent = enabled *)
  stateless : list str;               (* Config.StatelessOperators *)
  registered : list str;              (* names present in Config.OperatorMap *)
  costs : list (str * Z);             (* Config.CostsMap (integer-valued costs; see DESIGN: floats) *)
  events : bool                       (* ReportEvent or Debug *)
}.

Fixpoint assoc_str {A} (k : str) (l : list (str * A)) : option A :=
  match l with [] => None | (k', v) :: l' => if str_eqb k k' then Some v else assoc_str k l' end.

(* enabled || !exist *)
Definition pass_on (cfg : config) (name : string) : bool :=
  match assoc_s name (enabled cfg) with Some b => b | None => true end.

Section Opt.
  Variable custom : str -> list value -> res value.
  Variable cfg : config.

  (* isStatelessOp: built-in stateless list first, then the config's list (needs a registered function) *)
  Definition stateless_fn (name : str) : option (list value -> res value) :=
    if in_names name builtin_stateless then
      match builtin name with Some o => Some (apply_opcode o) | None => None end
    else if mem_str name (stateless cfg) && mem_str name (registered cfg) then Some (custom name)
    else None.

  Definition const_val (t : tree) : option value := match t with TConst v => Some v | _ => None end.

  Fixpoint all_consts (cs : list tree) : option (list value) :=
    match cs with
    | [] => Some []
    | TConst v :: cs' => match all_consts cs' with Some vs => Some (v :: vs) | None => None end
    | _ :: _ => None
    end.

  (* the scan over the operands of a stateless and/or: None = give up on this node (a non-boolean constant),
     Some (Some b) = a deciding constant, Some None = nothing decides *)
  Fixpoint bool_scan (d : bool) (cs : list tree) : option (option bool) :=
    match cs with
    | [] => Some None
    | TConst (VBool b) :: cs' => if Bool.eqb b d then Some (Some b) else bool_scan d cs'
    | TConst _ :: _ => None
    | _ :: cs' => bool_scan d cs'
    end.

  Definition call := (str * list value)%type.

  (* one node of optimizeConstantFolding, children already folded; returns the calls made at compile time *)
  Definition fold_node (name : str) (fast : bool) (cs : list tree) : tree * list call :=
    let keep := TOp name fast cs in
    match stateless_fn name with
    | None => (keep, [])
    | Some fn =>
      let continue_ (_ : unit) :=
        match all_consts cs with
        | None => (keep, [])
        | Some vs => match fn vs with Ok r => (TConst r, [(name, vs)]) | Err _ => (keep, [(name, vs)]) end
        end in
      match op_kind name with
      | Some d =>
        match bool_scan d cs with
        | None => (keep, [])
        | Some (Some b) => (TConst (VBool b), [])
        | Some None => continue_ tt
        end
      | None => continue_ tt
      end
    end.

  Fixpoint cfold (t : tree) : tree * list call :=
    match t with
    | TOp name fast cs =>
      let rs := map cfold cs in
      let r := fold_node name fast (map fst rs) in
      (fst r, concat (map snd rs) ++ snd r)
    | TIf c t f =>
      let rc := cfold c in let rt := cfold t in let rf := cfold f in
      (TIf (fst rc) (fst rt) (fst rf), snd rc ++ snd rt ++ snd rf)
    | _ => (t, [])
    end.

  (* optimizeReduceNesting *)
  Fixpoint flatten (root_and : bool) (cs : list tree) : option (list tree) :=
    match cs with
    | [] => Some []
    | c :: cs' =>
      match c with
      | TConst _ | TVar _ _ => match flatten root_and cs' with Some l => Some (c :: l) | None => None end
      | TOp n _ gcs =>
        if is_boolop n && Bool.eqb (is_and n) root_and
        then match flatten root_and cs' with Some l => Some (gcs ++ l) | None => None end
        else None
      | TIf _ _ _ => None
      end
    end.

  Fixpoint nest (t : tree) : tree :=
    match t with
    | TOp name fast cs =>
      let cs' := map nest cs in
      if is_boolop name then
        match flatten (is_and name) cs' with Some l => TOp name fast l | None => TOp name fast cs' end
      else TOp name fast cs'
    | TIf c t f => TIf (nest c) (nest t) (nest f)
    | _ => t
    end.

  (* optimizeFastEvaluation *)
  Fixpoint fastp (t : tree) : tree :=
    match t with
    | TOp name fast cs =>
      let cs' := map fastp cs in
      TOp name (fast || match cs' with [a; b] => is_leaf a && is_leaf b | _ => false end) cs'
    | TIf c t f => TIf (fastp c) (fastp t) (fastp f)
    | _ => t
    end.

  (* getCosts *)
  Definition name_cost (is_var : bool) (name : str) : Z :=
    match assoc_str name (costs cfg) with
    | Some v => v
    | None =>
      if is_var then match assoc_str (ss cost_variable_key) (costs cfg) with Some v => v | None => cost_variable end
      else match assoc_str (ss cost_operator_key) (costs cfg) with Some v => v | None => cost_operator end
    end.

  Definition sumZ (l : list Z) : Z := fold_right Z.add 0 l.

  (* calculateNodeCosts *)
  Fixpoint cost (t : tree) : Z :=
    match t with
    | TConst _ => cost_inlined
    | TVar n _ => cost_funccall + name_cost true n
    | TOp name fast cs =>
      (if fast then cost_funccall else cost_loops * (lenZ cs + 1) + cost_funccall)
      + name_cost false name + sumZ (map cost cs)
    | TIf c t f => cost_loops * cost_cond_loops + (cost c + Z.max (cost t) (cost f))
    end.

  (* sort.SliceStable(children, cost_i < cost_j): stable insertion sort *)
  Fixpoint insert_by (key : tree -> Z) (x : tree) (l : list tree) : list tree :=
    match l with
    | [] => [x]
    | y :: l' => if key y <? key x then y :: insert_by key x l' else x :: l
    end.
  Definition sort_by (key : tree -> Z) (l : list tree) : list tree := fold_right (insert_by key) [] l.

  (* optimizeReordering, parameterised by the sorting function (theorems hold for any permutation) *)
  Fixpoint reorder_with (sorter : list tree -> list tree) (t : tree) : tree :=
    match t with
    | TOp name fast cs =>
      let cs' := map (reorder_with sorter) cs in
      TOp name fast (if is_boolop name then sorter cs' else cs')
    | TIf c t f => TIf (reorder_with sorter c) (reorder_with sorter t) (reorder_with sorter f)
    | _ => t
    end.
  Definition reorder : tree -> tree := reorder_with (sort_by cost).

  (* optimize: the passes in the generated order, each enabled iff its switch is true or absent *)
  Definition run_pass (name : string) (t : tree) : tree :=
    if String.eqb name "constant_folding" then fst (cfold t)
    else if String.eqb name "reduce_nesting" then nest t
    else if String.eqb name "fast_evaluation" then fastp t
    else if String.eqb name "reordering" then reorder t
    else t.

  Definition optimize (t : tree) : tree :=
    fold_left (fun t name => if pass_on cfg name then run_pass name t else t) optimizations_order t.

  (* operators invoked during Compile (C10) *)
  Definition compile_time_calls (t : tree) : list call :=
    snd (fold_left (fun (st : tree * list call) name =>
           if pass_on cfg name then
             if String.eqb name "constant_folding" then let r := cfold (fst st) in (fst r, snd st ++ snd r)
             else (run_pass name (fst st), snd st)
           else st) optimizations_order (t, [])).
End Opt.

(* ---------- check: the capacity limits ---------- *)

Inductive cerr := CTooManyParams (n : Z) | CTooManyNodes (n : Z) | CTooManyEventNodes (n : Z).

Fixpoint check (t : tree) : cerr + Z :=
  match t with
  | TConst _ | TVar _ _ => inr 1
  | TOp _ _ cs =>
    if max_children <? lenZ cs then inl (CTooManyParams (lenZ cs)) else
    (fix go (cs : list tree) (acc : Z) : cerr + Z :=
       match cs with
       | [] => let s := acc + 1 in if max_nodes <? s then inl (CTooManyNodes s) else inr s
       | c :: cs' => match check c with inl e => inl e | inr n => go cs' (acc + n) end
       end) cs 0
  | TIf c t f =>
    match check c with inl e => inl e | inr nc =>
    match check t with inl e => inl e | inr nt =>
    match check f with inl e => inl e | inr nf =>
      (* the fi node is checked as a child of size 1 *)
      let s := nc + nt + nf + 1 + 1 in if max_nodes <? s then inl (CTooManyNodes s) else inr s
    end end end
  end.
