(* Print.v — util.go Dump (decompilation of a flat program to prefix text) and IndentByParentheses.
   Definitions only. *)
Require Import Base Opcode Tables Ops Tree Opt Flat Run Directives.
Open Scope Z_scope.
Open Scope list_scope.

(* strconv.FormatInt(z, 10) *)
Fixpoint show_digits (fuel : nat) (n : Z) (acc : str) : str :=
  match fuel with
  | O => acc
  | S f => if n <? 10 then Z.to_N (48 + n) :: acc else show_digits f (n / 10) (Z.to_N (48 + n mod 10) :: acc)
  end.
Definition show_Z (z : Z) : str := if z <? 0 then 45%N :: show_digits 25 (- z) [] else show_digits 25 z [].

Definition quote (s : str) : str := 34%N :: s ++ [34%N].

Fixpoint join_sp (l : list str) : str :=
  match l with [] => [] | [a] => a | a :: l' => a ++ 32%N :: join_sp l' end.

(* dumpLeafNode for constants: fmt.Sprint / the list and string cases *)
Definition show_value (v : value) : str :=
  match v with
  | VInt z => show_Z z
  | VBool true => ss "true" | VBool false => ss "false"
  | VStr s => quote s
  | VIntL l => 40%N :: join_sp (map show_Z l) ++ [41%N]
  | VStrL l => 40%N :: join_sp (map quote l) ++ [41%N]
  | VNil => ss "<nil>"
  | VDNE => ss "DNE"
  | VOpaque id => 123%N :: show_Z (Z.of_N id) ++ [125%N]
  | VIntSet _ | VStrSet _ => ss "map[]"
  end.

Fixpoint spaces (n : nat) : str := match n with O => [] | S n' => 32%N :: spaces n' end.

Section Dump.
  Variable P : prog.

  Definition is_event (nd : node) : bool := match kind nd with KEvent _ _ => true | _ => false end.

  (* getChildIdxes *)
  Definition child_idxes (idx : Z) : option (list Z) :=
    let all := map fst (filter (fun ip => (snd ip =? idx) &&
                 match nthZ (nodes P) (fst ip) with Some nd => negb (is_event nd) | None => false end)
                (combine (map Z.of_nat (seq 0 (length (parents P)))) (parents P))) in
    match nthZ (nodes P) idx with
    | Some nd =>
      if is_cond_kind (kind nd) then
        match all with
        | a :: b :: _ :: d :: _ => Some [a; b; d]
        | _ => None                      (* res[3] out of range: a panic in Go *)
        end
      else Some all
    | None => None
    end.

  Definition node_head (k : nkind) : str :=
    match k with KOp n | KFast n => n | KIf => ss "if" | KFi => ss "fi" | KVar n _ => n | KConst v => show_value v | KEvent _ _ => ss "{}" end.

  (* (text, isLeaf) *)
  Fixpoint dump_node (fuel : nat) (idx : Z) (depth : nat) : option (str * bool) :=
    match fuel with
    | O => None
    | S f =>
      match nthZ (nodes P) idx with
      | None => None
      | Some nd =>
        if childCnt nd =? 0 then
          match kind nd with
          | KEvent _ _ => Some (ss "eventNode", false)
          | KVar n _ => Some (n, true)
          | KOp n | KFast n => Some (40%N :: n ++ [41%N], false)
          | KConst v => Some (show_value v, true)
          | KIf => Some (ss "if", true)
          | KFi => Some (ss "fi", true)
          end
        else
          match child_idxes idx with
          | None => None
          | Some cs =>
            match (fix go (cs : list Z) : option str :=
                     match cs with
                     | [] => Some []
                     | ci :: cs' =>
                       match dump_node f ci (S depth), go cs' with
                       | Some (cc, true), Some rest => Some (32%N :: cc ++ rest)
                       | Some (cc, false), Some rest => Some (10%N :: spaces (2 * S depth) ++ cc ++ rest)
                       | _, _ => None
                       end
                     end) cs with
            | Some body => Some (40%N :: node_head (kind nd) ++ body ++ [41%N], false)
            | None => None
            end
          end
      end
    end.

  Definition root_index : Z :=
    fold_left (fun acc ip => if snd ip =? -1 then fst ip else acc)
              (combine (map Z.of_nat (seq 0 (length (parents P)))) (parents P)) 0.

  Definition dump : option str :=
    match dump_node (S (length (nodes P))) root_index 0 with Some (s, _) => Some s | None => None end.
End Dump.

(* ---------- IndentByParentheses ---------- *)

Inductive syn := SLeft | SRight | SSpace | SComment | SNormal.

Definition is_left (c : N) : bool := ((c =? 91) || (c =? 40))%N.
Definition is_right (c : N) : bool := ((c =? 93) || (c =? 41))%N.
Definition syn_eqb (a b : syn) : bool :=
  match a, b with SLeft, SLeft | SRight, SRight | SSpace, SSpace | SComment, SComment | SNormal, SNormal => true | _, _ => false end.

Definition indent_str (n : Z) : str := spaces (Z.to_nat (2 * n)).    (* appendIndent: negative counts write nothing *)

(* the look-back of the `;` case: scan A[i-1], A[i-2], ... (given reversed) *)
Fixpoint look_back (before_rev : str) (indent : Z) : str :=
  match before_rev with
  | [] => []
  | c :: rest =>
    if negb (is_space c) then [32%N]
    else if (c =? 10)%N then 10%N :: indent_str indent
    else look_back rest indent
  end.

(* copy up to and including the first occurrence of `stop`; returns (copied, rest) *)
Fixpoint copy_through (stop : N) (s : str) : str * str :=
  match s with
  | [] => ([], [])
  | c :: s' => if (c =? stop)%N then ([c], s') else let (a, b) := copy_through stop s' in (c :: a, b)
  end.

(* state: reversed consumed input (for tokenStart and the look-back), output (reversed chunks), indent, prev *)
Fixpoint indent_loop (fuel : nat) (s : str) (before_rev : str) (out : str) (indent : Z) (prev : syn) : str :=
  match fuel with
  | O => out
  | S f =>
    match s with
    | [] => out
    | c :: s' =>
      let token_start := match before_rev with
                         | [] => true
                         | p :: _ => negb (syn_eqb prev SNormal) || (p =? 44)%N || (p =? 34)%N
                         end in
      let pre_rune := (if syn_eqb prev SComment then indent_str indent else []) ++
                      (if syn_eqb prev SSpace || syn_eqb prev SRight then [32%N] else []) in
      if (c =? 34)%N && token_start then
        let (lit, rest) := copy_through 34 s' in
        indent_loop f rest (rev lit ++ c :: before_rev) (out ++ pre_rune ++ c :: lit) indent SNormal
      else if is_left c then
        indent_loop f s' (c :: before_rev)
          (out ++ (if syn_eqb prev SComment then indent_str indent else 10%N :: indent_str indent) ++ [c]) (indent + 1) SLeft
      else if is_right c then
        indent_loop f s' (c :: before_rev)
          (out ++ (if syn_eqb prev SComment then indent_str (indent - 1) else []) ++ [c]) (indent - 1) SRight
      else if is_space c then
        indent_loop f s' (c :: before_rev) out indent (if syn_eqb prev SComment then SComment else SSpace)
      else if (c =? 59)%N then
        let lead := if syn_eqb prev SComment then indent_str indent else look_back before_rev indent in
        let (cm, rest) := copy_through 10 s in
        indent_loop f rest (rev cm ++ before_rev) (out ++ lead ++ cm) indent SComment
      else
        indent_loop f s' (c :: before_rev) (out ++ pre_rune ++ [c]) indent SNormal
    end
  end.

Definition indent_by_parens (s : str) : str := trim (indent_loop (S (length s)) s [] [] 0 SNormal).
