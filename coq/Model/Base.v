(* Base.v — values, errors, outcomes, strings as code-point lists.
   Definitions only (no proofs beyond trivial helpers). *)
From Coq Require Export String Ascii.
From Coq Require Export List ZArith Bool Lia NArith.
Export ListNotations.
Open Scope Z_scope.

(* A Go string is modelled by its []rune conversion: a list of code points. *)
Definition str := list N.

Fixpoint list_eqb {A} (eqb : A -> A -> bool) (a b : list A) : bool :=
  match a, b with
  | [], [] => true
  | x :: a', y :: b' => eqb x y && list_eqb eqb a' b'
  | _, _ => false
  end.

Definition str_eqb : str -> str -> bool := list_eqb N.eqb.

(* ASCII literal -> str *)
Definition ss (s : string) : str := map N_of_ascii (list_ascii_of_string s).

Definition mem_str (x : str) (l : list str) : bool := existsb (str_eqb x) l.
Definition mem_Z (x : Z) (l : list Z) : bool := existsb (Z.eqb x) l.

(* int64 *)
Definition two63 : Z := 9223372036854775808.
Definition two64 : Z := 18446744073709551616.
Definition wrap64 (z : Z) : Z := ((z + two63) mod two64) - two63.
Definition in_i64 (z : Z) : bool := (- two63 <=? z) && (z <? two63).
Definition wrap16 (z : Z) : Z := ((z + 32768) mod 65536) - 32768.
Definition wrap8 (z : Z) : Z := ((z + 128) mod 256) - 128.

Inductive value :=
  | VInt (z : Z)                 (* int64; invariant in_i64 *)
  | VBool (b : bool)
  | VStr (s : str)
  | VIntL (l : list Z)           (* []int64 *)
  | VStrL (l : list str)         (* []string *)
  | VIntSet (l : list Z)         (* map[int64]struct{} *)
  | VStrSet (l : list str)       (* map[string]struct{} *)
  | VNil
  | VDNE
  | VOpaque (id : N).            (* any other value a custom operator returns *)

Definition value_eqb (a b : value) : bool :=
  match a, b with
  | VInt x, VInt y => Z.eqb x y
  | VBool x, VBool y => Bool.eqb x y
  | VStr x, VStr y => str_eqb x y
  | VIntL x, VIntL y => list_eqb Z.eqb x y
  | VStrL x, VStrL y => list_eqb str_eqb x y
  | VIntSet x, VIntSet y => list_eqb Z.eqb x y
  | VStrSet x, VStrSet y => list_eqb str_eqb x y
  | VNil, VNil => true
  | VDNE, VDNE => true
  | VOpaque x, VOpaque y => N.eqb x y
  | _, _ => false
  end.

(* reflect.TypeOf(v).Comparable(), nil included *)
Definition comparable (v : value) : bool :=
  match v with
  | VIntL _ | VStrL _ | VIntSet _ | VStrSet _ => false
  | _ => true
  end.

(* Go == on two interface values holding comparable dynamic types *)
Definition go_eq (a b : value) : bool := value_eqb a b.

(* Errors, canonicalised to what the properties distinguish. *)
Inductive err :=
  | ECount (op : str)        (* ParamsCountError, operator name as reported *)
  | EType (op : str)         (* ParamTypeError *)
  | EExec (op : str)         (* OpExecError (divide by zero, bad layout ...) *)
  | ECondNotBool             (* if condition is not a boolean *)
  | EUser (id : N)           (* whatever a fetcher / custom operator returned *)
  | EUnbound (name : str)    (* variable not bound (map fetcher) *)
  | EOther (k : N).

Definition err_eqb (a b : err) : bool :=
  match a, b with
  | ECount x, ECount y | EType x, EType y | EExec x, EExec y
  | EUnbound x, EUnbound y => str_eqb x y
  | ECondNotBool, ECondNotBool => true
  | EUser x, EUser y | EOther x, EOther y => N.eqb x y
  | _, _ => false
  end.

Inductive res (A : Type) := Ok (a : A) | Err (e : err).
Arguments Ok {A} a.
Arguments Err {A} e.

Definition res_eqb {A} (eqb : A -> A -> bool) (a b : res A) : bool :=
  match a, b with
  | Ok x, Ok y => eqb x y
  | Err x, Err y => err_eqb x y
  | _, _ => false
  end.

Definition bind {A B} (r : res A) (f : A -> res B) : res B :=
  match r with Ok a => f a | Err e => Err e end.

(* generic helpers *)
Definition nthZ {A} (l : list A) (i : Z) : option A :=
  if i <? 0 then None else nth_error l (Z.to_nat i).

Fixpoint set_nth {A} (l : list A) (n : nat) (x : A) : option (list A) :=
  match l, n with
  | [], _ => None
  | _ :: l', O => Some (x :: l')
  | y :: l', S n' => match set_nth l' n' x with Some r => Some (y :: r) | None => None end
  end.

Definition setZ {A} (l : list A) (i : Z) (x : A) : option (list A) :=
  if i <? 0 then None else set_nth l (Z.to_nat i) x.

Definition lenZ {A} (l : list A) : Z := Z.of_nat (length l).
