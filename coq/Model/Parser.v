(* Parser.v — parser.go: token check, prefix parser (parseExpression), infix parser (parseInfixExpression,
   a shunting-yard with recorded output heights), leaf parsers. Definitions only. *)
Require Import Base Opcode Tables Ops Tree Directives Lexer.
Open Scope Z_scope.
Open Scope list_scope.

Record pconf := {
  p_consts : list (str * value);      (* Config.ConstantMap *)
  p_vars : list (str * Z);            (* Config.VariableKeyMap *)
  p_ops : list str;                   (* names in Config.OperatorMap *)
  p_undefined : bool                  (* AllowUndefinedVariable *)
}.

Fixpoint assoc {A} (k : str) (l : list (str * A)) : option A :=
  match l with [] => None | (k', v) :: l' => if str_eqb k k' then Some v else assoc k l' end.

Definition is_keyword (s : str) : bool := existsb (fun k => str_eqb s (ss k)) keywords.
Definition is_operator (c : pconf) (s : str) : bool :=
  match builtin s with Some _ => true | None => mem_str s (p_ops c) end.

Definition builtin_const (s : str) : option value :=
  match find (fun kv => str_eqb s (ss (fst kv))) builtin_constants with Some (_, b) => Some (VBool b) | None => None end.

(* ---------- parser.check ---------- *)

Fixpoint check_loop (prefix : bool) (ts : list tok) (cnt : Z) (in_bracket : bool) (is_first : bool) : bool :=
  match ts with
  | [] => cnt =? 0
  | t :: ts' =>
    let last := match ts' with [] => true | _ => false end in
    let step (cnt' : Z) (closes opens : bool) :=
      if cnt' <? 0 then false
      else if prefix && (cnt' =? 0) && negb last then false
      else if in_bracket && negb closes then false
      else check_loop prefix ts' cnt' (if opens then true else if closes then false else in_bracket) false in
    match t with
    | KLParen => step (cnt + 1) false false
    | KRParen => step (cnt - 1) false false
    | KComma => if prefix then false else step cnt false false
    | KLBracket => if prefix then false else step cnt false true
    | KRBracket => if prefix then false else step cnt true false
    | _ => check_loop prefix ts' cnt in_bracket false
    end
  end.

Definition check_tokens (infix : bool) (ts : list tok) : bool :=
  match ts with
  | [] => false
  | t0 :: _ =>
    let lastt := last ts t0 in
    (if infix then true else match t0, lastt with KLParen, KRParen => true | _, _ => false end)
    && check_loop (negb infix) ts 0 false true
  end.

(* ---------- leaf parsers (buildLeafNode), in order ---------- *)

Inductive leafres := LNone | LErr | LOk (t : tree) (rest : list tok).

(* parseList(left, right): the token list starts at the left delimiter *)
Definition tok_is_int (t : tok) := match t with KInt _ => true | _ => false end.
Definition tok_is_str (t : tok) := match t with KStr _ => true | _ => false end.

Fixpoint collect_list (ints : bool) (right : tok -> bool) (ts : list tok) (acc : list str) : option (list str * option (list tok)) :=
  match ts with
  | [] => Some (rev acc, None)      (* no closing delimiter: Go leaves p.idx just behind the opening one *)
  | t :: ts' =>
    if right t then Some (rev acc, Some ts')
    else match t with
         | KInt s => if ints then collect_list ints right ts' (s :: acc) else None
         | KStr s => if ints then None else collect_list ints right ts' (s :: acc)
         | _ => None
         end
  end.

Fixpoint all_parse_int (l : list str) : option (list Z) :=
  match l with [] => Some [] | s :: l' => match parse_int s, all_parse_int l' with Some z, Some r => Some (z :: r) | _, _ => None end end.

Definition parse_list (left right : tok -> bool) (ts : list tok) : leafres :=
  match ts with
  | t0 :: (t1 :: _) as ts' =>
    let close (r : option (list tok)) := match r with Some rest => rest | None => ts' end in
    if left t0 then
      if right t1 then match collect_list false right ts' [] with Some (l, r) => LOk (TConst (VStrL l)) (close r) | None => LErr end
      else if tok_is_int t1 then
        match collect_list true right ts' [] with
        | Some (l, r) => match all_parse_int l with Some zs => LOk (TConst (VIntL zs)) (close r) | None => LErr end
        | None => LErr end
      else if tok_is_str t1 then
        match collect_list false right ts' [] with Some (l, r) => LOk (TConst (VStrL l)) (close r) | None => LErr end
      else LNone
    else LNone
  | _ => LNone
  end.

Section P.
  Variable c : pconf.
  Variable infix : bool.

  Definition is_lparen t := match t with KLParen => true | _ => false end.
  Definition is_rparen t := match t with KRParen => true | _ => false end.
  Definition is_lbracket t := match t with KLBracket => true | _ => false end.
  Definition is_rbracket t := match t with KRBracket => true | _ => false end.

  Definition leaf (ts : list tok) : leafres :=
    match ts with
    | [] => LErr                          (* peek: no next token *)
    | KInt s :: rest => match parse_int s with Some z => LOk (TConst (VInt z)) rest | None => LErr end
    | KStr s :: rest => LOk (TConst (VStr s)) rest
    | KIdent s :: rest =>
      match builtin_const s with
      | Some v => LOk (TConst v) rest
      | None =>
        match assoc s (p_consts c) with
        | Some v => LOk (TConst v) rest
        | None =>
          match assoc s (p_vars c) with
          | Some k => LOk (TVar s k) rest
          | None =>
            if p_undefined c && negb (is_keyword s) && negb (is_operator c s) then LOk (TVar s undefined_var_key) rest
            else LNone
          end
        end
      end
    | _ => if infix then parse_list is_lbracket is_rbracket ts else parse_list is_lparen is_rparen ts
    end.

  (* buildParentNode *)
  Definition build_parent (name : str) (children : list tree) : option tree :=
    if is_keyword name then
      if str_eqb name (ss keyword_if) then
        match children with [a; b; d] => Some (TIf a b d) | _ => None end
      else None
    else if is_operator c name then Some (TOp name false children) else None.

  (* parseExpression *)
  Fixpoint parse_expr (fuel : nat) (ts : list tok) : option (tree * list tok) :=
    match fuel with
    | O => None
    | S f =>
      match leaf ts with
      | LOk t rest => Some (t, rest)
      | LErr => None
      | LNone =>
        match ts with
        | KLParen :: KIdent car :: rest =>
          (fix children (k : nat) (ts : list tok) (acc : list tree) : option (tree * list tok) :=
             match k with
             | O => None
             | S k' =>
               match ts with
               | [] => None
               | KRParen :: rest' => match build_parent car (rev acc) with Some t => Some (t, rest') | None => None end
               | _ => match parse_expr f ts with
                      | Some (ch, rest') => children k' rest' (ch :: acc)
                      | None => None
                      end
               end
             end) (S (length rest)) rest []
        | _ => None
        end
      end
    end.

  Definition parse_prefix (ts : list tok) : option tree :=
    match parse_expr (S (length ts)) ts with
    | Some (t, []) => Some t
    | _ => None
    end.
End P.

(* ---------- infix: parseInfixExpression ---------- *)

Definition tok_val (t : option tok) : str :=
  match t with
  | Some (KIdent s) => s | Some KLParen => ss "(" | Some KRParen => ss ")" | Some KComma => ss ","
  | Some (KInt s) | Some (KStr s) | Some (KComment s) => s
  | Some KLBracket => ss "[" | Some KRBracket => ss "]"
  | None => []                 (* token{}: the end marker *)
  end.

Definition infix_info (v : str) : Z * Z :=
  match find (fun e => str_eqb v (ss (fst e))) infix_table with Some (_, pc) => pc | None => infix_default end.
Definition prec (v : str) : Z := fst (infix_info v).
Definition arity (v : str) : Z := snd (infix_info v).

Section PI.
  Variable c : pconf.

  (* comparePrecedence(car, top) > 0 *)
  Definition stays (car top : option tok) : bool :=
    let p1 := prec (tok_val car) in let p2 := prec (tok_val top) in
    if p1 =? func_precedence then true else 0 <? p1 - p2.

  (* buildTopOperators(car): ops = operator stack (top first) with the recorded output heights; out = output stack (top first) *)
  Fixpoint build_top (fuel : nat) (car : option tok) (ops : list (tok * Z)) (out : list tree)
    : option (list (tok * Z) * list tree) :=
    match fuel with
    | O => None
    | S f =>
      match ops with
      | [] => Some ([], out)
      | (top, l) :: ops' =>
        match car, top with
        | Some KRParen, KLParen => Some (ops', out)
        | _, _ =>
          if stays car (Some top) then Some (ops, out) else
          let cnt := let a := arity (tok_val (Some top)) in if a =? -1 then lenZ out - l else a in
          if (cnt <? 0) || (lenZ out <? cnt) then None else
          let children := rev (firstn (Z.to_nat cnt) out) in
          match build_parent c (tok_val (Some top)) children with
          | None => None
          | Some t => build_top f car ops' (t :: skipn (Z.to_nat cnt) out)
          end
        end
      end
    end.

  Fixpoint infix_loop (fuel : nat) (ts : list tok) (ops : list (tok * Z)) (out : list tree) : option tree :=
    match fuel with
    | O => None
    | S f =>
      match ts with
      | [] =>
        match build_top (S (length ops)) None ops out with
        | Some (_, [t]) => Some t
        | _ => None
        end
      | _ =>
        match leaf c true ts with
        | LErr => None
        | LOk t rest => infix_loop f rest ops (t :: out)
        | LNone =>
          match ts with
          | [] => None
          | car :: rest =>
            match car with
            | KIdent _ =>
              match build_top (S (length ops)) (Some car) ops out with
              | Some (ops', out') => infix_loop f rest ((car, lenZ out') :: ops') out'
              | None => None
              end
            | KLParen => infix_loop f rest ((car, lenZ out) :: ops) out
            | KRParen | KComma =>
              match build_top (S (length ops)) (Some car) ops out with
              | Some (ops', out') => infix_loop f rest ops' out'
              | None => None
              end
            | _ => None
            end
          end
        end
      end
    end.

  Definition parse_infix (ts : list tok) : option tree := infix_loop (S (length ts)) ts [] [].
End PI.

(* the whole front end: lex, drop comments, check, parse *)
Definition parse_source (c : pconf) (infix : bool) (s : str) : option tree :=
  match lex_tab infix s with
  | None => None
  | Some toks =>
    let ts := drop_comments toks in
    if check_tokens infix ts then (if infix then parse_infix c ts else parse_prefix c false ts) else None
  end.
