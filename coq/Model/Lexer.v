(* Lexer.v — parser.lex: rune cursor, comments, string literals, delimiters, the `!ident` split of infix
   notation, token classification. Definitions only. *)
Require Import Base Tables Ops Directives.
Open Scope Z_scope.
Open Scope list_scope.

Inductive tok :=
  | KInt (s : str) | KStr (s : str) | KIdent (s : str)
  | KLParen | KRParen | KLBracket | KRBracket | KComma
  | KComment (s : str).

(* unicode.IsLetter / unicode.IsNumber on the alphabet the correspondence uses (ASCII plus a fixed set of
   non-ASCII code points, each checked against the Go functions by the harness on every run); theorems take the
   classification as a parameter *)
Definition is_letter_tab (c : N) : bool :=
  ((65 <=? c) && (c <=? 90) || (97 <=? c) && (c <=? 122)
   || (c =? 233) || (c =? 955) || (c =? 1046) || (c =? 20013) || (c =? 223) || (c =? 170))%N.   (* é λ Ж 中 ß ª *)
Definition is_number_tab (c : N) : bool :=
  ((48 <=? c) && (c <=? 57) || (c =? 1635) || (c =? 178) || (c =? 189) || (c =? 8547))%N.       (* ٣ ² ½ Ⅳ *)

Definition is_delim (c : N) : bool := ((c =? 40) || (c =? 41) || (c =? 91) || (c =? 93) || (c =? 59) || (c =? 44))%N.  (* ()[];, *)

Section Lex.
  Variable is_letter is_number : N -> bool.

  Definition is_builtin_name (s : str) : bool := match builtin s with Some _ => true | None => false end.

  (* isValidIdent *)
  Fixpoint ident_scan (whole : str) (s : str) (idx prev_dot last : Z) : bool :=
    match s with
    | [] => true
    | r :: s' =>
      if is_letter r then ident_scan whole s' (idx + 1) prev_dot last
      else if (r =? 95)%N then ident_scan whole s' (idx + 1) prev_dot last
      else if is_number r && negb (idx =? 0) then ident_scan whole s' (idx + 1) prev_dot last
      else if (r =? 46)%N then
        if (idx =? prev_dot + 1) || (idx =? 0) || (idx =? last) then false
        else ident_scan whole s' (idx + 1) idx last
      else is_builtin_name whole
    end.
  Definition valid_ident (s : str) : bool := ident_scan s s 0 (-1) (lenZ s - 1).

  Definition valid_int (s : str) : bool := match parse_int s with Some _ => true | None => false end.

  (* the text of a comment: up to, not including, the line break *)
  Fixpoint take_line (s : str) : str * str :=
    match s with
    | [] => ([], [])
    | c :: s' => if (c =? 10)%N then ([], s) else let (a, b) := take_line s' in (c :: a, b)
    end.

  (* a string literal: s starts after the opening quote; returns (content, rest after the closing quote) *)
  Fixpoint take_string (s : str) : option (str * str) :=
    match s with
    | [] => None
    | c :: s' => if (c =? 34)%N then Some ([], s') else
                 match take_string s' with Some (a, b) => Some (c :: a, b) | None => None end
    end.

  (* an ordinary token: up to white space or a delimiter *)
  Fixpoint take_word (s : str) : str * str :=
    match s with
    | [] => ([], [])
    | c :: s' => if is_space c || is_delim c then ([], s) else let (a, b) := take_word s' in (c :: a, b)
    end.

  Inductive raw := RComment (s : str) | RString (s : str) | RWord (s : str) | REnd | RUnclosed.

  (* nextToken *)
  Definition next_raw (s : str) : raw * str :=
    let s := trim_left s in
    match s with
    | [] => (REnd, [])
    | c :: s' =>
      if (c =? 59)%N then let (a, b) := take_line s in (RComment a, b)
      else if (c =? 34)%N then match take_string s' with Some (a, b) => (RString a, b) | None => (RUnclosed, []) end
      else if is_delim c then (RWord [c], s')
      else let (a, b) := take_word s in (RWord a, b)
    end.

  Definition classify (infix : bool) (w : str) : option (list tok) :=
    let plain :=
      if str_eqb w (ss "(") then Some [KLParen] else if str_eqb w (ss ")") then Some [KRParen]
      else if str_eqb w (ss "[") then Some [KLBracket] else if str_eqb w (ss "]") then Some [KRBracket]
      else if str_eqb w (ss ",") then Some [KComma]
      else if valid_int w then Some [KInt w]
      else if valid_ident w then Some [KIdent w]
      else None in
    match w with
    | c :: rest =>
      if (c =? 33)%N && infix then          (* '!' *)
        if valid_ident w then Some [KIdent w]
        else if valid_ident rest then Some [KIdent (ss "!"); KIdent rest]
        else plain
      else plain
    | [] => plain
    end.

  Fixpoint lex_loop (fuel : nat) (infix : bool) (s : str) : option (list tok) :=
    match fuel with
    | O => None
    | S f =>
      match next_raw s with
      | (REnd, _) => Some []
      | (RUnclosed, _) => None
      | (RComment c, rest) => match lex_loop f infix rest with Some l => Some (KComment c :: l) | None => None end
      | (RString c, rest) => match lex_loop f infix rest with Some l => Some (KStr c :: l) | None => None end
      | (RWord w, rest) =>
        match classify infix w with
        | None => None
        | Some ts => match lex_loop f infix rest with Some l => Some (ts ++ l) | None => None end
        end
      end
    end.

  Definition lex (infix : bool) (s : str) : option (list tok) := lex_loop (S (length s)) infix s.
End Lex.

Definition lex_tab := lex is_letter_tab is_number_tab.

Definition is_comment (t : tok) : bool := match t with KComment _ => true | _ => false end.
Definition drop_comments (l : list tok) : list tok := filter (fun t => negb (is_comment t)) l.
Fixpoint leading_comments (l : list tok) : list str :=
  match l with KComment c :: l' => c :: leading_comments l' | _ => [] end.
