(* Ops.v — the built-in operators (operator.go), one function per Go function,
   checks in the order the Go code performs them. Definitions only. *)
Require Import Base Opcode Tables.
Open Scope Z_scope.

Fixpoint assoc_s {A} (k : string) (l : list (string * A)) : option A :=
  match l with
  | [] => None
  | (k', v) :: l' => if String.eqb k k' then Some v else assoc_s k l'
  end.

(* modeNames[mode] *)
Definition mname (k : string) : str :=
  match assoc_s k mode_names with Some s => ss s | None => ss "?" end.

Definition amode_key (m : amode) : string :=
  match m with AAdd => "add" | ASub => "sub" | AMul => "mul" | ADiv => "div" | AMod => "mod" end.
Definition lmode_key (m : lmode) : string :=
  match m with LAnd => "and" | LOr => "or" | LXor => "xor" end.
Definition cmode_key (m : cmode) : string :=
  match m with CGt => "greater" | CLt => "less" | CGe => "greaterEquals" | CLe => "lessEquals" end.
Definition tmode_key (m : tmode) : string :=
  match m with TDate => "date" | TDatetime => "datetime" | TToTime => "toTime" | TToDate => "toDate"
  | TToDefaultTime => "toDefaultTime" | TToDefaultDate => "toDefaultDate" end.
Definition vmode_key (m : vmode) : string :=
  match m with VVersion => "version" | VToVersion => "toVersion" end.

(* ---------- arithmetic ---------- *)

Definition arith_step (m : amode) (acc v : Z) : res Z :=
  match m with
  | AAdd => Ok (wrap64 (acc + v))
  | ASub => Ok (wrap64 (acc - v))
  | AMul => Ok (wrap64 (acc * v))
  | ADiv => if v =? 0 then Err (EExec (ss "div")) else Ok (wrap64 (Z.quot acc v))
  | AMod => if v =? 0 then Err (EExec (ss "mod")) else Ok (wrap64 (Z.rem acc v))
  end.

Fixpoint arith_loop (m : amode) (acc : Z) (ps : list value) : res value :=
  match ps with
  | [] => Ok (VInt acc)
  | VInt v :: ps' => bind (arith_step m acc v) (fun a => arith_loop m a ps')
  | _ :: _ => Err (EType (mname (amode_key m)))
  end.

Definition arith (m : amode) (ps : list value) : res value :=
  if (length ps <? 2)%nat then Err (ECount (mname (amode_key m))) else
  match ps with
  | VInt v :: ps' => arith_loop m v ps'
  | _ => Err (EType (mname (amode_key m)))
  end.

(* ---------- logic ---------- *)

Definition logic_step (m : lmode) (acc v : bool) : bool :=
  match m with LAnd => acc && v | LOr => acc || v | LXor => xorb acc v end.

Fixpoint logic_loop (m : lmode) (acc : bool) (ps : list value) : res value :=
  match ps with
  | [] => Ok (VBool acc)
  | VBool v :: ps' => logic_loop m (logic_step m acc v) ps'
  | _ :: _ => Err (EType (mname (lmode_key m)))
  end.

Definition logic (m : lmode) (ps : list value) : res value :=
  if (length ps <? 2)%nat then Err (ECount (mname (lmode_key m))) else
  match ps with
  | VBool v :: ps' => logic_loop m v ps'
  | _ => Err (EType (mname (lmode_key m)))
  end.

Definition logic_not (ps : list value) : res value :=
  match ps with
  | [VBool b] => Ok (VBool (negb b))
  | [_] => Err (EType (ss "not"))
  | _ => Err (ECount (ss "not"))
  end.

(* ---------- comparison ---------- *)

Definition cmp_fn (m : cmode) (i j : Z) : bool :=
  match m with CGt => i >? j | CLt => i <? j | CGe => i >=? j | CLe => i <=? j end.

Definition cmp (m : cmode) (ps : list value) : res value :=
  match ps with
  | [VInt i; VInt j] => Ok (VBool (cmp_fn m i j))
  | [_; _] => Err (EType (mname (cmode_key m)))
  | _ => Err (ECount (mname (cmode_key m)))
  end.

Definition cmp_eq (ps : list value) : res value :=
  if (length ps <? 2)%nat then Err (ECount (mname "equals")) else
  if negb (forallb comparable ps) then Err (EType (mname "equals")) else
  match ps with
  | [a; b] => Ok (VBool (go_eq a b))
  | a :: _ => Ok (VBool (forallb (go_eq a) ps))
  | [] => Err (ECount (mname "equals"))
  end.

Definition cmp_ne (ps : list value) : res value :=
  match ps with
  | [a; b] => if comparable a && comparable b then Ok (VBool (negb (go_eq a b)))
              else Err (EType (mname "notEquals"))
  | _ => Err (ECount (mname "notEquals"))
  end.

Definition cmp_between (ps : list value) : res value :=
  match ps with
  | [VInt v; VInt a; VInt b] => Ok (VBool ((a <=? v) && (v <=? b)))
  | [_; _; _] => Err (EType (mname "between"))
  | _ => Err (ECount (ss "between"))
  end.

(* ---------- lists ---------- *)

Definition list_in (ps : list value) : res value :=
  match ps with
  | [p0; p1] =>
    match p0 with
    | VStr v =>
      match p1 with
      | VStrL l => Ok (VBool (mem_str v l))
      | VStrSet l => Ok (VBool (mem_str v l))
      | _ => Err (EType (ss "in"))
      end
    | VInt v =>
      match p1 with
      | VIntL l => Ok (VBool (mem_Z v l))
      | VStrL [] => Ok (VBool false)      (* the empty list literal is a string list *)
      | VIntSet l => Ok (VBool (mem_Z v l))
      | _ => Err (EType (ss "in"))
      end
    | _ => Err (EExec (ss "in"))
    end
  | _ => Err (ECount (mname "in"))
  end.

Section Overlap.
  Context {A : Type} (eqb : A -> A -> bool).
  Definition ov_scan (a b : list A) : bool :=
    existsb (fun i => existsb (fun j => eqb i j) b) a.
  Definition ov_hash (a b : list A) : bool :=
    let '(a', b') := if (length b <? length a)%nat then (b, a) else (a, b) in
    existsb (fun i => existsb (fun s => eqb s i) a') b'.
  Definition ov (a b : list A) : bool :=
    if lenZ a + lenZ b <? overlap_threshold then ov_scan a b else ov_hash a b.
End Overlap.

Definition list_overlap (ps : list value) : res value :=
  match ps with
  | [p0; p1] =>
    match p0 with
    | VStrL a =>
      match p1 with
      | VStrL b => Ok (VBool (ov str_eqb a b))
      | VIntL _ => match a with [] => Ok (VBool false) | _ => Err (EType (ss "overlap")) end
      | _ => Err (EType (ss "overlap"))
      end
    | VIntL a =>
      match p1 with
      | VIntL b => Ok (VBool (ov Z.eqb a b))
      | VStrL [] => Ok (VBool false)
      | _ => Err (EType (ss "overlap"))
      end
    | _ => Err (EType (ss "overlap"))
    end
  | _ => Err (ECount (mname "overlap"))
  end.

(* ---------- strings helpers (strconv.ParseInt base 10, strings.Split) ---------- *)

Definition is_digit (c : N) : bool := (48 <=? c)%N && (c <=? 57)%N.
Definition digit_val (c : N) : Z := Z.of_N c - 48.

Fixpoint digits_val (acc : Z) (s : str) : option Z :=
  match s with
  | [] => Some acc
  | c :: s' => if is_digit c then digits_val (acc * 10 + digit_val c) s' else None
  end.

(* strconv.ParseInt(s, 10, 64): optional sign, at least one digit, in range *)
Definition parse_int (s : str) : option Z :=
  let '(neg, body) :=
    match s with
    | 43%N :: r => (false, r)
    | 45%N :: r => (true, r)
    | _ => (false, s)
    end in
  match body with
  | [] => None
  | _ => match digits_val 0 body with
         | Some v => let v' := if neg then - v else v in
                     if in_i64 v' then Some v' else None
         | None => None
         end
  end.

(* strings.Split(s, sep) for a one-rune separator *)
Fixpoint split_on (sep : N) (cur : str) (s : str) : list str :=
  match s with
  | [] => [rev cur]
  | c :: s' => if N.eqb c sep then rev cur :: split_on sep [] s' else split_on sep (c :: cur) s'
  end.
Definition split (sep : N) (s : str) : list str := split_on sep [] s.

(* ---------- version ---------- *)

Fixpoint version_loop (name : str) (n : nat) (arr : list str) (acc : Z) : res value :=
  match n with
  | O => Ok (VInt acc)
  | S n' =>
    match arr with
    | [] => version_loop name n' [] (wrap64 (acc * version_base))
    | a :: arr' =>
      match parse_int a with
      | None => Err (EExec name)
      | Some v => if v >=? version_limit then Err (EExec name)
                  else version_loop name n' arr' (wrap64 (wrap64 (acc * version_base) + v))
      end
    end
  end.

Definition version_conv (m : vmode) (validLen : Z) (ps : list value) : res value :=
  let name := mname (vmode_key m) in
  let len :=
    match ps with
    | [_] => Ok validLen
    | [_; VInt t] => if (t >? version_max_len) || (t <? version_min_len) then Err (EExec name) else Ok t
    | [_; _] => Err (EType name)
    | _ => Err (ECount name)
    end in
  bind len (fun n =>
    match ps with
    | VStr s :: _ => version_loop name (Z.to_nat n) (split 46 s) 0
    | _ => Err (EType name)
    end).

(* ---------- time ---------- *)

(* Strict model of time.Parse for layouts built from the chunks 2006 01 02 15 04 05
   and literal text; UTC; result Unix seconds. *)
Inductive chunk := CYear | CMonth | CDay | CHour | CMin | CSec | CLit (c : N).

Definition starts (p : string) (s : str) : option str :=
  (fix go (p : list N) (s : str) : option str :=
     match p, s with
     | [], _ => Some s
     | a :: p', b :: s' => if N.eqb a b then go p' s' else None
     | _, [] => None
     end) (ss p) s.

Fixpoint layout_chunks (fuel : nat) (l : str) : list chunk :=
  match fuel with
  | O => []
  | S f =>
    match l with
    | [] => []
    | c :: l' =>
      match starts "2006" l with Some r => CYear :: layout_chunks f r | None =>
      match starts "01" l with Some r => CMonth :: layout_chunks f r | None =>
      match starts "02" l with Some r => CDay :: layout_chunks f r | None =>
      match starts "15" l with Some r => CHour :: layout_chunks f r | None =>
      match starts "04" l with Some r => CMin :: layout_chunks f r | None =>
      match starts "05" l with Some r => CSec :: layout_chunks f r | None =>
      CLit c :: layout_chunks f l'
      end end end end end end
    end
  end.

(* getnum(s, fixed) *)
Definition getnum (fixed : bool) (s : str) : option (Z * str) :=
  match s with
  | a :: r =>
    if is_digit a then
      match r with
      | b :: r' => if is_digit b then Some (digit_val a * 10 + digit_val b, r')
                   else if fixed then None else Some (digit_val a, r)
      | [] => if fixed then None else Some (digit_val a, r)
      end
    else None
  | [] => None
  end.

Definition get4 (s : str) : option (Z * str) :=
  match s with
  | a :: b :: c :: d :: r =>
    if is_digit a && is_digit b && is_digit c && is_digit d
    then Some (((digit_val a * 10 + digit_val b) * 10 + digit_val c) * 10 + digit_val d, r)
    else None
  | _ => None
  end.

Fixpoint cutspace (s : str) : str :=
  match s with 32%N :: r => cutspace r | _ => s end.
Fixpoint drop_digits (s : str) : str :=
  match s with c :: r => if is_digit c then drop_digits r else s | [] => [] end.

Record tm := { t_y : Z; t_mo : Z; t_d : Z; t_h : Z; t_mi : Z; t_s : Z }.

Definition is_leap (y : Z) : bool :=
  ((y mod 4 =? 0) && negb (y mod 100 =? 0)) || (y mod 400 =? 0).
Definition days_in (m y : Z) : Z :=
  if m =? 2 then (if is_leap y then 29 else 28)
  else if (m =? 4) || (m =? 6) || (m =? 9) || (m =? 11) then 30 else 31.

(* days since 1970-01-01 of the proleptic Gregorian date y-m-d *)
Definition days_from_civil (y m d : Z) : Z :=
  let y' := if m <=? 2 then y - 1 else y in
  let mp := if m <=? 2 then m + 9 else m - 3 in
  365 * y' + y' / 4 - y' / 100 + y' / 400 + (153 * mp + 2) / 5 + d - 1 - 719468.

Definition unix_of (t : tm) : Z :=
  days_from_civil (t_y t) (t_mo t) (t_d t) * 86400 + t_h t * 3600 + t_mi t * 60 + t_s t.

(* insp: the previous layout chunk was a literal space (Go's skip() treats a run
   of spaces in the layout as one and matches a run of spaces in the value) *)
Definition set_y (t : tm) n := {| t_y := n; t_mo := t_mo t; t_d := t_d t; t_h := t_h t; t_mi := t_mi t; t_s := t_s t |}.
Definition set_mo (t : tm) n := {| t_y := t_y t; t_mo := n; t_d := t_d t; t_h := t_h t; t_mi := t_mi t; t_s := t_s t |}.
Definition set_d (t : tm) n := {| t_y := t_y t; t_mo := t_mo t; t_d := n; t_h := t_h t; t_mi := t_mi t; t_s := t_s t |}.
Definition set_h (t : tm) n := {| t_y := t_y t; t_mo := t_mo t; t_d := t_d t; t_h := n; t_mi := t_mi t; t_s := t_s t |}.
Definition set_mi (t : tm) n := {| t_y := t_y t; t_mo := t_mo t; t_d := t_d t; t_h := t_h t; t_mi := n; t_s := t_s t |}.
Definition set_s (t : tm) n := {| t_y := t_y t; t_mo := t_mo t; t_d := t_d t; t_h := t_h t; t_mi := t_mi t; t_s := n |}.

Fixpoint parse_chunks (cs : list chunk) (v : str) (t : tm) (insp : bool) : option (tm * str) :=
  match cs with
  | [] => Some (t, v)
  | CYear :: cs' =>
    match get4 v with Some (n, r) => parse_chunks cs' r (set_y t n) false | None => None end
  | CMonth :: cs' =>
    match getnum true v with
    | Some (n, r) => if (n <? 1) || (12 <? n) then None else parse_chunks cs' r (set_mo t n) false
    | None => None end
  | CDay :: cs' =>
    match getnum true v with
    | Some (n, r) => parse_chunks cs' r (set_d t n) false
    | None => None end
  | CHour :: cs' =>
    match getnum false v with
    | Some (n, r) => if 24 <=? n then None else parse_chunks cs' r (set_h t n) false
    | None => None end
  | CMin :: cs' =>
    match getnum true v with
    | Some (n, r) => if 60 <=? n then None else parse_chunks cs' r (set_mi t n) false
    | None => None end
  | CSec :: cs' =>
    match getnum true v with
    | Some (n, r) => if 60 <=? n then None else
        (* fractional seconds in the value although the layout has none *)
        let r' := match r with
                  | p :: d :: r2 => if ((p =? 46) || (p =? 44))%N && is_digit d then drop_digits r2 else r
                  | _ => r end in
        parse_chunks cs' r' (set_s t n) false
    | None => None end
  | CLit c :: cs' =>
    if (c =? 32)%N then
      if insp then parse_chunks cs' v t true else
      match v with
      | x :: _ => if (x =? 32)%N then parse_chunks cs' (cutspace v) t true else None
      | [] => parse_chunks cs' v t true
      end
    else
      match v with
      | x :: r => if N.eqb x c then parse_chunks cs' r t false else None
      | [] => None
      end
  end.

(* time.Parse(layout, v).Unix() for the modelled layout fragment *)
Definition parse_time (layout v : str) : option Z :=
  let cs := layout_chunks (S (length layout)) layout in
  match parse_chunks cs v {| t_y := 0; t_mo := -1; t_d := -1; t_h := 0; t_mi := 0; t_s := 0 |} false with
  | Some (t, []) =>
    let mo := if t_mo t <? 0 then 1 else t_mo t in
    let d := if t_d t <? 0 then 1 else t_d t in
    if (d <? 1) || (days_in mo (t_y t) <? d) then None
    else Some (unix_of (set_d (set_mo t mo) d))
  | _ => None
  end.

Definition time_conv (m : tmode) (deflayout : string) (ps : list value) : res value :=
  let name := mname (tmode_key m) in
  let layout : res str :=
    match m with
    | TDatetime | TDate =>
      match ps with
      | [_] => Ok (ss deflayout)
      | [_; VStr l] => Ok l
      | [_; _] => Err (EType name)
      | _ => Err (ECount name)
      end
    | TToTime | TToDate =>
      match ps with
      | [_; VStr l] => Ok l
      | [_; _] => Err (EType name)
      | _ => Err (ECount name)
      end
    | TToDefaultTime | TToDefaultDate =>
      match ps with
      | [_] => Ok (ss deflayout)
      | _ => Err (ECount name)
      end
    end in
  bind layout (fun l =>
    match ps with
    | VStr v :: _ => match parse_time l v with Some z => Ok (VInt z) | None => Err (EExec name) end
    | _ => Err (EType name)
    end).

(* ---------- dispatch ---------- *)

Definition apply_opcode (o : opcode) (ps : list value) : res value :=
  match o with
  | OArith m => arith m ps
  | OLogic m => logic m ps
  | ONot => logic_not ps
  | OEq => cmp_eq ps
  | ONe => cmp_ne ps
  | OCmp m => cmp m ps
  | OBetween => cmp_between ps
  | OIn => list_in ps
  | OOverlap => list_overlap ps
  | OTime m l => time_conv m l ps
  | OVersion m n => version_conv m n ps
  end.

Fixpoint lookup_builtin (name : str) (tbl : list (string * opcode)) : option opcode :=
  match tbl with
  | [] => None
  | (k, o) :: tbl' => if str_eqb name (ss k) then Some o else lookup_builtin name tbl'
  end.

Definition builtin (name : str) : option opcode := lookup_builtin name builtin_table.

Definition in_names (name : str) (l : list string) : bool := existsb (fun k => str_eqb name (ss k)) l.
Definition is_and (name : str) : bool := in_names name and_aliases.
Definition is_or (name : str) : bool := in_names name or_aliases.
Definition is_boolop (name : str) : bool := is_and name || is_or name.
