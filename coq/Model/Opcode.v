(* Opcode.v — names of the built-in operator implementations.
   Generated/Tables.v maps operator names to these. *)
From Coq Require Import String ZArith.

Inductive amode := AAdd | ASub | AMul | ADiv | AMod.
Inductive lmode := LAnd | LOr | LXor.
Inductive cmode := CGt | CLt | CGe | CLe.
Inductive tmode := TDate | TDatetime | TToTime | TToDate | TToDefaultTime | TToDefaultDate.
Inductive vmode := VVersion | VToVersion.

Inductive opcode :=
  | OArith (m : amode)
  | OLogic (m : lmode)
  | ONot
  | OEq | ONe
  | OCmp (m : cmode)
  | OBetween
  | OIn | OOverlap
  | OTime (m : tmode) (layout : string)
  | OVersion (m : vmode) (validLen : Z).

Definition amode_eqb (a b : amode) : bool :=
  match a, b with AAdd, AAdd | ASub, ASub | AMul, AMul | ADiv, ADiv | AMod, AMod => true | _, _ => false end.
Definition lmode_eqb (a b : lmode) : bool :=
  match a, b with LAnd, LAnd | LOr, LOr | LXor, LXor => true | _, _ => false end.
Definition cmode_eqb (a b : cmode) : bool :=
  match a, b with CGt, CGt | CLt, CLt | CGe, CGe | CLe, CLe => true | _, _ => false end.
Definition tmode_eqb (a b : tmode) : bool :=
  match a, b with TDate, TDate | TDatetime, TDatetime | TToTime, TToTime | TToDate, TToDate
  | TToDefaultTime, TToDefaultTime | TToDefaultDate, TToDefaultDate => true | _, _ => false end.
Definition vmode_eqb (a b : vmode) : bool :=
  match a, b with VVersion, VVersion | VToVersion, VToVersion => true | _, _ => false end.

Definition opcode_eqb (a b : opcode) : bool :=
  match a, b with
  | OArith x, OArith y => amode_eqb x y
  | OLogic x, OLogic y => lmode_eqb x y
  | ONot, ONot | OEq, OEq | ONe, ONe | OBetween, OBetween | OIn, OIn | OOverlap, OOverlap => true
  | OCmp x, OCmp y => cmode_eqb x y
  | OTime x lx, OTime y ly => andb (tmode_eqb x y) (String.eqb lx ly)
  | OVersion x nx, OVersion y ny => andb (vmode_eqb x y) (Z.eqb nx ny)
  | _, _ => false
  end.
