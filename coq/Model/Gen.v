(* Gen.v — util.go GenerateRandomExpr as a function of the stream of raw random draws
   (rand.Intn(n) = draw mod n under the harness's scripted rand.Source). Definitions only. *)
Require Import Base Opcode Tables Ops Tree.
Open Scope Z_scope.
Open Scope list_scope.

Record gencfg := {
  g_var : bool;                    (* EnableVariable *)
  g_cond : bool;                   (* EnableCondition *)
  g_try : bool;                    (* EnableTryEval *)
  g_nums : list (str * value);     (* NumVariables: (name, recorded value) *)
  g_bools : list (str * value);    (* BoolVariables *)
  g_dnes : list (str * value)      (* DneVariables *)
}.

Definition draw (s : list Z) (n : Z) : Z * list Z :=
  match s with [] => (0, []) | v :: s' => (v mod n, s') end.

Definition no_custom (name : str) (args : list value) : res value := Err (EOther 0).

(* execOp: the generator's own evaluation of an operator on recorded results *)
Definition exec (op : str) (vals : list value) : value :=
  if str_eqb op (ss "and") && existsb is_false vals then VBool false
  else if str_eqb op (ss "or") && existsb is_true vals then VBool true
  else if existsb is_dne vals then VDNE
  else match apply_op no_custom op vals with Ok r => r | Err _ => VNil end.

Definition var_leaf (l : list (str * value)) (v : Z) : tree * value :=
  match nth_error l (Z.to_nat (v mod lenZ l)) with
  | Some (name, res) => (TVar name 0, res)
  | None => (TConst VNil, VNil)
  end.

Definition nonempty {A} (l : list A) : bool := match l with [] => false | _ => true end.

Section G.
  Variable c : gencfg.

  Definition leaf (isb : bool) (r v : Z) : tree * value :=
    if (r =? 1) && g_try c && nonempty (g_dnes c) then var_leaf (g_dnes c) v
    else if isb then
      if (r <? 4) && g_var c && nonempty (g_bools c) then var_leaf (g_bools c) v
      else if v <? 50 then (TOp (ss "=") false [TConst (VInt 0); TConst (VInt 0)], VBool true)
      else (TOp (ss "!=") false [TConst (VInt 0); TConst (VInt 0)], VBool false)
    else
      if (r <? 4) && g_var c && nonempty (g_nums c) then var_leaf (g_nums c) v
      else (TConst (VInt (v - 50)), VInt (v - 50)).

  Definition nth_name (l : list string) (i : Z) : str :=
    match nth_error l (Z.to_nat i) with Some s => ss s | None => [] end.

  (* the operand loop: k operands, each of a level drawn below n *)
  Fixpoint children (h : nat -> list Z -> (tree * value) * list Z) (n : nat) (k : nat) (s : list Z)
    : list (tree * value) * list Z :=
    match k with
    | O => ([], s)
    | S k' =>
      let (kk, s) := draw s (Z.of_nat n) in
      let '(tv, s) := h (Z.to_nat kk) s in
      let '(rest, s) := children h n k' s in
      (tv :: rest, s)
    end.

  Definition pick_op (isb : bool) (r : Z) (vals : list value) : str :=
    if isb then nth_name ["and"; "or"; "eq"]%string (r mod 3)
    else if existsb (fun v => match v with VInt 0 => true | _ => false end) (tl vals)
         then nth_name ["+"; "-"; "*"]%string (r mod 3)
         else nth_name ["+"; "-"; "*"; "/"; "%"]%string (r mod 5).

  Fixpoint helper (fuel : nat) (isb : bool) (n : nat) (s : list Z) : (tree * value) * list Z :=
    match fuel with
    | O => ((TConst VNil, VNil), s)
    | S f =>
      let (r, s) := draw s 10 in
      match n with
      | O => let (v, s) := draw s 100 in (leaf isb r v, s)
      | S n' =>
        if isb && (r <? 3) then
          let '((t, res), s) := helper f isb n' s in
          ((TOp (ss "not") false [t], exec (ss "not") [res]), s)
        else if g_cond c && (r =? 3) then
          let (k1, s) := draw s (Z.of_nat n) in
          let '((ct, cr), s) := helper f true (Z.to_nat k1) s in
          let (k2, s) := draw s (Z.of_nat n) in
          let '((tbt, tr), s) := helper f isb (Z.to_nat k2) s in
          let (k3, s) := draw s (Z.of_nat n) in
          let '((ft, fr), s) := helper f isb (Z.to_nat k3) s in
          let res := match cr with VBool true => tr | VBool false => fr | VDNE => VDNE | _ => VNil end in
          ((TIf ct tbt ft, res), s)
        else
          let (l0, s) := draw s 3 in
          let l := Z.to_nat (l0 + 2) in
          let '(chs, s) := children (helper f isb) n l s in
          let vals := map snd chs in
          let op := pick_op isb r vals in
          ((TOp op false (map fst chs), exec op vals), s)
      end
    end.

  Definition generate (isb : bool) (level : nat) (s : list Z) : tree * value :=
    fst (helper (S level) isb level s).
End G.
