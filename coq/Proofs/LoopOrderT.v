(* LoopOrderT.v — C12: the LOOP events of one TryEval report strictly increasing positions (same statement as
   LoopOrder.v for Eval; same induction as TryCorrectE). *)
Require Import Base Opcode Tables Ops Tree Opt Flat FlatE Run CompFacts CompFactsE TryFacts EvalDefs EvalTop EvalCorrectE EvalTopE TryCorrect TryCorrectE LoopOrder.
From Coq Require Import ZifyBool.
Open Scope Z_scope.
Open Scope list_scope.

Section M.
  Variable fetch : str -> Z -> res value.
  Variable custom : str -> list value -> res value.
  Variable cached : str -> Z -> bool.
  Variable P : prog.

  Notation L := (lenZ (nodes P)).
  Notation getn := (getn P).
  Notation tryrun := (tryrun fetch custom cached P).
  Notation tclimb := (tclimb P).
  Notation lastI := (lastI P).
  Notation need := (need P).
  Notation afterT := (afterT P).
  Notation climbP := (climbP P).
  Notation tclimb_S := (TryCorrect.tclimb_S P).
  Notation tryrun_S := (TryCorrect.tryrun_S fetch custom cached P).
  Notation tleaf_leaf := (TryCorrect.tleaf_leaf fetch cached P).
  Notation tproxy_proxy := (TryCorrect.tproxy_proxy custom).
  Notation go_afterT := (TryCorrect.go_afterT fetch custom cached P).
  Notation need_mono := (EvalDefs.need_mono P).
  Notation store_ok := (TryCorrect.store_ok P).
  Notation with_event_placed := (EvalCorrectE.with_event_placed P).
  Notation with_event_placedZ := (TryCorrectE.with_event_placedZ P).
  Notation tmatches_dne_bool := (TryCorrect.tmatches_dne_bool).

  Hypothesis SA : forall i nd, getn i = Some nd -> osTop nd < alloc P.

  Definition mono_try (t : tree) : Prop :=
    forall base h inh anc mf mt pidx r stk (cb : nat),
      placed (nodes P) base (map fst (compE lastI t base h inh anc mf mt pidx r)) ->
      placedZ (parents P) base (map snd (compE lastI t base h inh anc mf mt pidx r)) ->
      0 <= h -> lenZ stk = h -> (cb + esize t <= length (nodes P))%nat ->
      (forall v cf f x, (cb <= cf)%nat -> (need (base + Z.of_nat (esize t)) <= f)%nat ->
         lbb (base + Z.of_nat (esize t)) (afterT cf (tryrun f) (base + Z.of_nat (esize t)) r pidx v h (stk ++ x)) = true) ->
      forall f, (need base <= f)%nat -> lbb base (tryrun f base stk) = true.

  Lemma tevent_run f i pos nd stk : nthZ (nodes P) i = Some (event_node pos nd) ->
    tryrun (S f) i stk = preM [OLoop pos (kind nd) stk] (tryrun f (i + 1) stk).
  Proof.
    intros G. pose proof (nthZ_range _ _ _ G) as R. rewrite tryrun_S. unfold psize. replace (L <=? i) with false by lia.
    unfold Run.getn. rewrite G. reflexivity.
  Qed.

  Lemma loops_tleaf nd : loops (fst (tleaf fetch cached nd)) = [].
  Proof. unfold tleaf. destruct (kind nd); try reflexivity. destruct (cached name key); reflexivity. Qed.

  Lemma loops_tproxy nd name fast args : loops (fst (tproxy custom nd name fast args)) = [].
  Proof.
    unfold tproxy. destruct (is_boolname_and (kind nd) && existsb is_false args); [reflexivity|].
    destruct (is_boolname_or (kind nd) && existsb is_true args); [reflexivity|]. destruct (existsb is_dne args); reflexivity.
  Qed.

  (* ---------- leaves ---------- *)

  Lemma leaf_monoT t : is_leaf t = true -> mono_try t.
  Proof.
    intros Hl base h inh anc mf mt pidx r stk cb Hpl Hpp Hh Hs Hcb Hroot f Hf.
    assert (Hsz : esize t = 2%nat) by (destruct t; try discriminate; reflexivity). rewrite Hsz in *.
    assert (Hn1 : (1 <= length (nodes P))%nat) by lia.
    destruct t as [v|n k| |]; try discriminate; cbn [compE] in Hpl, Hpp;
      rewrite <- (app_nil_r (with_event _ _ _)) in Hpl, Hpp;
      apply with_event_placed in Hpl; destruct Hpl as (G0 & G & _); apply with_event_placedZ in Hpp; destruct Hpp as [Gp _];
      pose proof (nthZ_range _ _ _ G) as R;
      (destruct f as [|[|f']]; [unfold EvalDefs.need in Hf; lia|unfold EvalDefs.need in Hf; lia|]);
      rewrite (tevent_run _ _ _ _ _ G0), lbb_loop; replace (base <? base + 1) with true by lia; cbn [andb];
      rewrite tryrun_S; unfold psize; replace (L <=? base + 1) with false by lia;
      unfold Run.getn; rewrite G; cbn [kind mk]; cbv zeta.
    - rewrite Hs. rewrite (go_afterT f' (base + 1) _ v h stk r pidx (tflag_mk _ _ _ _ _ _ _) Gp Hn1).
      rewrite <- (app_nil_r stk) at 1. replace (base + 1 + 1) with (base + Z.of_nat 2) by lia.
      eapply lbb_weaken; [|apply Hroot; [lia|unfold EvalDefs.need in *; lia]]. lia.
    - unfold tleaf. cbn [kind mk]. destruct (cached n k).
      + destruct (fetch n k) as [v|e]; [|reflexivity]. rewrite lbb_preM_quiet by reflexivity.
        rewrite Hs. rewrite (go_afterT f' (base + 1) _ v h stk r pidx (tflag_mk _ _ _ _ _ _ _) Gp Hn1).
        rewrite <- (app_nil_r stk) at 1. replace (base + 1 + 1) with (base + Z.of_nat 2) by lia.
        eapply lbb_weaken; [|apply Hroot; [lia|unfold EvalDefs.need in *; lia]]. lia.
      + rewrite preM_nil.
        rewrite Hs. rewrite (go_afterT f' (base + 1) _ VDNE h stk r pidx (tflag_mk _ _ _ _ _ _ _) Gp Hn1).
        rewrite <- (app_nil_r stk) at 1. replace (base + 1 + 1) with (base + Z.of_nat 2) by lia.
        eapply lbb_weaken; [|apply Hroot; [lia|unfold EvalDefs.need in *; lia]]. lia.
  Qed.

  (* ---------- fast operators ---------- *)

  Lemma fast_monoT name a b : fast_shape true [a; b] = true -> mono_try (TOp name true [a; b]).
  Proof.
    intros Hfs base h inh anc mf mt pidx r stk cb Hpl Hpp Hh Hs Hcb Hroot f Hf.
    destruct (fast_shape_inv _ _ Hfs) as (a' & b' & E & Ha & Hb & _). inversion E; subst a' b'. clear E.
    rewrite compE_fast_unfold in Hpl, Hpp by exact Hfs. cbv zeta in Hpl, Hpp.
    apply with_event_placed in Hpl. destruct Hpl as (G0 & G1 & Hpl). cbn [map fst] in Hpl.
    apply placed_cons in Hpl. destruct Hpl as [G2 Hpl]. apply placed_cons in Hpl. destruct Hpl as [G3 _].
    apply with_event_placedZ in Hpp. destruct Hpp as (Q1 & Hpp). cbn [map snd] in Hpp.
    apply placedZ_cons in Hpp. destruct Hpp as [_ Hpp]. apply placedZ_cons in Hpp. destruct Hpp as [Q3 _].
    replace (base + 2 + 1) with (base + 3) in * by lia.
    pose proof (nthZ_range _ _ _ G0) as R0. pose proof (nthZ_range _ _ _ G3) as R3.
    rewrite (esize_fast name true [a; b] Hfs) in *.
    destruct f as [|[|f']]; [unfold EvalDefs.need in Hf; lia|unfold EvalDefs.need in Hf; lia|].
    rewrite (tevent_run _ _ _ _ _ G0), lbb_loop. replace (base <? base + 1) with true by lia. cbn [andb].
    rewrite tryrun_S. unfold psize. replace (L <=? base + 1) with false by lia.
    unfold Run.getn. rewrite G1. cbn [kind mk]. cbv zeta.
    replace (base + 1 + 1) with (base + 2) by lia. replace (base + 1 + 2) with (base + 3) by lia. rewrite G2, G3.
    match goal with |- context [tleaf fetch cached ?x] => pose proof (loops_tleaf x) as La; destruct (tleaf fetch cached x) as [t1 [va|e1]] end;
      cbn [fst] in La; [|apply lbb_quiet; exact La].
    match goal with |- context [tleaf fetch cached ?x] => pose proof (loops_tleaf x) as Lb; destruct (tleaf fetch cached x) as [t2 [vb|e2]] end;
      cbn [fst] in Lb; [|apply lbb_quiet; rewrite loops_app, La, Lb; reflexivity].
    match goal with |- context [tproxy custom ?nd ?nm ?fa ?ar] => pose proof (loops_tproxy nd nm fa ar) as Lp; destruct (tproxy custom nd nm fa ar) as [t3 [v|e]] end;
      cbn [fst] in Lp; [|apply lbb_quiet; rewrite !loops_app, La, Lb, Lp; reflexivity].
    rewrite lbb_preM_quiet by (rewrite !loops_app, La, Lb, Lp; reflexivity).
    rewrite Hs. assert (HN : (2 <= length (nodes P))%nat) by (unfold lenZ in R3; lia).
    destruct (length (nodes P)) as [|[|n]] eqn:En; try lia.
    rewrite <- (app_nil_r stk).
    pose proof (Hroot v n f' [] ltac:(lia) ltac:(unfold EvalDefs.need in *; lia)) as HR.
    eapply lbb_weaken; [|]. 2:{
      rewrite tclimb_S. unfold TryCorrect.afterT, tmatch in *. rewrite tflag_mk. destruct (tmatches r v) eqn:Em.
      - unfold TryCorrect.climbP at 1. unfold parent_of. rewrite Q3. replace (base + 1 =? -1) with false by lia. unfold Run.getn. rewrite G1.
        cbn [kind mk is_cond_kind andb osTop]. rewrite tclimb_S. unfold tmatch. rewrite tflag_mk, Em. unfold parent_of. rewrite Q1. exact HR.
      - replace (base + 3 + 1) with (base + Z.of_nat 4) by lia. exact HR. }
    lia.
  Qed.

  (* ---------- operators ---------- *)

  Lemma args_monoT name n ridx h_p pn r_p pidx_p stk0 (cb_p : nat) :
    nthZ (nodes P) (ridx - 1) = Some (event_node ridx pn) ->
    getn ridx = Some pn -> kind pn = KOp name -> childCnt pn = n -> tflag pn = r_p -> osTop pn = h_p ->
    parent_of P ridx = Some pidx_p -> 0 <= h_p -> lenZ stk0 = h_p ->
    (forall v cf f x, (cb_p <= cf)%nat -> (need (ridx + 1) <= f)%nat ->
       lbb (ridx + 1) (afterT cf (tryrun f) (ridx + 1) r_p pidx_p v h_p (stk0 ++ x)) = true) ->
    forall anc' cs, Forall mono_try cs ->
    forall acc b f,
      placed (nodes P) b (map fst (compE_args lastI (op_kind name) n ridx anc' cs b (h_p + lenZ acc))) ->
      placedZ (parents P) b (map snd (compE_args lastI (op_kind name) n ridx anc' cs b (h_p + lenZ acc))) ->
      b + Z.of_nat (esizes cs) = ridx - 1 -> 0 <= b -> lenZ acc + lenZ cs = n ->
      (S cb_p + esizes cs + 1 <= length (nodes P))%nat ->
      (need b <= f)%nat ->
      lbb b (tryrun f b (stk0 ++ rev acc)) = true.
  Proof.
    intros Gev Gp Kp Cp Fp OSp Pp Hh Hs0 Hroot anc' cs HF.
    pose proof (nthZ_range _ _ _ Gp) as Rp.
    induction HF as [|c cs' Hc _ IH]; intros acc b f Hpl Hpp Hb Hb0 Hlen Hcb Hf.
    - cbn [esizes fold_right] in Hb. replace b with (ridx - 1) in * by lia.
      destruct f as [|[|f']]; [unfold EvalDefs.need in Hf; lia|unfold EvalDefs.need in Hf; lia|].
      rewrite (tevent_run _ _ _ _ _ Gev), lbb_loop. replace (ridx - 1 <? ridx) with true by lia. cbn [andb].
      replace (ridx - 1 + 1) with ridx by lia.
      rewrite tryrun_S. unfold psize. replace (L <=? ridx) with false by lia.
      rewrite Gp, Kp. cbv zeta. rewrite Cp.
      assert (Hn : n = lenZ acc) by (unfold lenZ in *; cbn [length] in Hlen; lia).
      rewrite lenZ_app. assert (Hra : lenZ (rev acc) = lenZ acc) by (unfold lenZ; rewrite rev_length; reflexivity).
      rewrite Hra. pose proof (lenZ_nonneg acc).
      replace ((n <? 0) || (lenZ stk0 + lenZ acc <? n)) with false by lia.
      replace (Z.to_nat (lenZ stk0 + lenZ acc - n)) with (length stk0) by (unfold lenZ in *; lia).
      rewrite skipn_app, skipn_all, Nat.sub_diag, firstn_app, firstn_all, Nat.sub_diag. cbn [skipn firstn app]. rewrite app_nil_r.
      match goal with |- context [tproxy custom ?nd ?nm ?fa ?ar] => pose proof (loops_tproxy nd nm fa ar) as Lp; destruct (tproxy custom nd nm fa ar) as [t3 [v|e]] end;
        cbn [fst] in Lp; [|apply lbb_quiet; exact Lp].
      rewrite lbb_preM_quiet by exact Lp. replace (Z.of_nat (length stk0) - 1) with (h_p - 1) by (unfold lenZ in Hs0; lia).
      assert (Hn1 : (1 <= length (nodes P))%nat) by (unfold lenZ in Rp; lia).
      rewrite (go_afterT f' ridx pn v h_p stk0 r_p pidx_p Fp Pp Hn1).
      rewrite <- (app_nil_r stk0) at 1. eapply lbb_weaken; [|apply Hroot; [lia|unfold EvalDefs.need in *; lia]]. lia.
    - cbn [compE_args] in Hpl, Hpp. cbv zeta in Hpl, Hpp. rewrite map_app in Hpl, Hpp.
      cbn [esizes fold_right] in Hb, Hcb. fold (esizes cs') in Hb, Hcb.
      apply placed_app in Hpl. destruct Hpl as [Hpc Hprest].
      apply placedZ_app in Hpp. destruct Hpp as [Hqc Hqrest].
      unfold lenZ in Hprest at 1. rewrite map_length, compE_length in Hprest.
      unfold lenZ in Hqrest at 1. rewrite map_length, compE_length in Hqrest.
      pose proof (esize_pos c) as Hsz.
      assert (Hlenstk : lenZ (stk0 ++ rev acc) = h_p + lenZ acc).
      { rewrite lenZ_app. unfold lenZ. rewrite rev_length. unfold lenZ in Hs0. lia. }
      assert (Hal : h_p + lenZ acc < alloc P).
      { match type of Hpc with placed _ _ (map fst (compE ?l ?c0 ?b0 ?h0 ?i0 ?a0 ?f0 ?t0 ?p0 ?r0)) =>
          destruct (compE_first_os l c0 b0 h0 i0 a0 f0 t0 p0 r0) as (nd0 & p0' & rest0 & E0 & Ho) end.
        rewrite E0 in Hpc. cbn [map fst] in Hpc. apply placed_cons in Hpc. destruct Hpc as [G _]. apply SA in G. lia. }
      eapply (Hc b (h_p + lenZ acc) false anc' _ _ ridx (op_kind name) (stk0 ++ rev acc) (S cb_p) Hpc Hqc).
      + pose proof (lenZ_nonneg acc). lia.
      + exact Hlenstk.
      + lia.
      + intros v cf f0 x Hcf Hf0. unfold TryCorrect.afterT. destruct (tmatches (op_kind name) v) eqn:Em.
        * unfold TryCorrect.climbP. replace (ridx =? -1) with false by lia. rewrite Gp, Kp. cbn [is_cond_kind andb].
          destruct cf as [|cf']; [lia|]. rewrite tclimb_S. unfold tmatch. rewrite Fp, Pp, OSp.
          rewrite <- app_assoc.
          pose proof (Hroot v cf' f0 (rev acc ++ x) ltac:(lia) ltac:(eapply Nat.le_trans; [|exact Hf0]; apply need_mono; lia)) as HR.
          unfold TryCorrect.afterT in HR. unfold TryCorrect.climbP in HR at 1.
          eapply lbb_weaken; [|exact HR]. lia.
        * rewrite (store_ok _ _ (h_p + lenZ acc) v (stk0 ++ rev acc) x Hlenstk ltac:(pose proof (lenZ_nonneg acc); lia) Hal).
          replace ((stk0 ++ rev acc) ++ [v]) with (stk0 ++ rev (v :: acc)) by (cbn [rev]; now rewrite app_assoc).
          apply IH.
          -- rewrite lenZ_cons. replace (h_p + (lenZ acc + 1)) with (h_p + lenZ acc + 1) by lia. exact Hprest.
          -- rewrite lenZ_cons. replace (h_p + (lenZ acc + 1)) with (h_p + lenZ acc + 1) by lia. exact Hqrest.
          -- lia.
          -- lia.
          -- rewrite lenZ_cons in *. rewrite lenZ_cons in Hlen. lia.
          -- lia.
          -- exact Hf0.
      + exact Hf.
  Qed.

  Lemma op_monoT name fast cs : fast_shape fast cs = false -> Forall mono_try cs -> mono_try (TOp name fast cs).
  Proof.
    intros Hfs IH base h inh anc mf mt pidx r stk cb Hpl Hpp Hh Hs Hcb Hroot f Hf.
    rewrite compE_op_unfold in Hpl, Hpp by exact Hfs. rewrite map_app in Hpl, Hpp.
    set (ridx := base + Z.of_nat (esize (TOp name fast cs)) - 1) in *.
    assert (Hsz : esize (TOp name fast cs) = S (S (esizes cs))) by (apply esize_op; exact Hfs).
    pose proof (placed_app _ _ _ _ Hpl) as [Hpa Hpr]. pose proof (placedZ_app _ _ _ _ Hpp) as [Hqa Hqr].
    unfold lenZ in Hpr at 1. rewrite map_length, compE_args_length in Hpr.
    unfold lenZ in Hqr at 1. rewrite map_length, compE_args_length in Hqr.
    rewrite <- (app_nil_r (with_event _ _ _)) in Hpr, Hqr.
    apply with_event_placed in Hpr. destruct Hpr as (Gev & Gr & _). apply with_event_placedZ in Hqr. destruct Hqr as (Qr & _).
    replace (base + Z.of_nat (esizes cs)) with (ridx - 1) in Gev by (unfold ridx; lia).
    replace (base + Z.of_nat (esizes cs) + 1) with ridx in Gr, Qr by (unfold ridx; lia).
    replace (base + Z.of_nat (esize (TOp name fast cs))) with (ridx + 1) in * by (unfold ridx; lia).
    pose proof (args_monoT name (lenZ cs) ridx h (mk lastI (KOp name) (lenZ cs) mf mt h r) r pidx stk cb
                  Gev Gr eq_refl eq_refl (tflag_mk _ _ _ _ _ _ _) eq_refl Qr Hh Hs Hroot (if inh then [] else (mf, mt) :: anc) cs IH [] base f) as A.
    cbn [rev] in A. rewrite app_nil_r in A. apply A.
    - change (lenZ (@nil value)) with 0. rewrite Z.add_0_r. exact Hpa.
    - change (lenZ (@nil value)) with 0. rewrite Z.add_0_r. exact Hqa.
    - unfold ridx. lia.
    - apply placed_bound in Hpl. lia.
    - reflexivity.
    - lia.
    - exact Hf.
  Qed.

  (* ---------- if ---------- *)

  Lemma if_monoT c t f : mono_try c -> mono_try t -> mono_try f -> mono_try (TIf c t f).
  Proof.
    intros IHc IHt IHf base h inh anc mf mt pidx r stk cb Hpl Hpp Hh Hs Hcb Hroot fu Hfu.
    cbn [compE] in Hpl, Hpp. cbv zeta in Hpl, Hpp. cbn [esize] in Hcb.
    set (ifidx := base + Z.of_nat (esize c) + 1) in *.
    set (tb := ifidx + 1) in *.
    set (fiidx := tb + Z.of_nat (esize t) + 1) in *.
    set (fb := fiidx + 1) in *.
    set (endidx := fb + Z.of_nat (esize f) - 1) in *.
    assert (Hnext : base + Z.of_nat (esize (TIf c t f)) = fb + Z.of_nat (esize f)).
    { cbn [esize]. unfold fb, fiidx, tb, ifidx. lia. }
    rewrite Hnext in *.
    rewrite map_app in Hpl, Hpp.
    apply placed_app in Hpl. destruct Hpl as [Hpc Hpl]. unfold lenZ in Hpl at 1. rewrite map_length, compE_length in Hpl.
    apply with_event_placed in Hpl. destruct Hpl as (Gife & Gif & Hpl).
    apply placedZ_app in Hpp. destruct Hpp as [Hqc Hpp]. unfold lenZ in Hpp at 1. rewrite map_length, compE_length in Hpp.
    apply with_event_placedZ in Hpp. destruct Hpp as (Qif & Hpp).
    replace (base + Z.of_nat (esize c) + 1) with ifidx in Gif, Qif by (unfold ifidx; lia).
    replace (base + Z.of_nat (esize c) + 2) with tb in Hpl, Hpp by (unfold tb, ifidx; lia).
    replace (base + Z.of_nat (esize c)) with (ifidx - 1) in Gife by (unfold ifidx; lia).
    rewrite map_app in Hpl, Hpp.
    apply placed_app in Hpl. destruct Hpl as [Hpt Hpl]. unfold lenZ in Hpl at 1. rewrite map_length, compE_length in Hpl.
    apply with_event_placed in Hpl. destruct Hpl as (Gfie & Gfi & Hpf).
    apply placedZ_app in Hpp. destruct Hpp as [Hqt Hpp]. unfold lenZ in Hpp at 1. rewrite map_length, compE_length in Hpp.
    apply with_event_placedZ in Hpp. destruct Hpp as (Qfi & Hqf).
    replace (tb + Z.of_nat (esize t) + 1) with fiidx in Gfi, Qfi by (unfold fiidx; lia).
    replace (tb + Z.of_nat (esize t) + 2) with fb in Hpf, Hqf by (unfold fb, fiidx; lia).
    replace (tb + Z.of_nat (esize t)) with (fiidx - 1) in Gfie by (unfold fiidx; lia).
    pose proof (nthZ_range _ _ _ Gif) as Rif. pose proof (nthZ_range _ _ _ Gfi) as Rfi.
    pose proof (esize_pos c). pose proof (esize_pos t). pose proof (esize_pos f).
    pose proof (placed_bound _ _ _ Hpc) as [Hb0 _].
    match type of Gif with nthZ _ _ = Some ?x => set (IFN := x) in * end.
    match type of Gfi with nthZ _ _ = Some ?x => set (FIN := x) in * end.
    assert (KI : kind IFN = KIf) by reflexivity. assert (TI : tflag IFN = r) by apply tflag_mk.
    assert (OI : osTop IFN = h - 1) by reflexivity. assert (SI : scIdx IFN = fiidx) by reflexivity.
    assert (KF : kind FIN = KFi) by reflexivity. assert (OF : osTop FIN = h) by reflexivity. assert (SF : scIdx FIN = endidx) by reflexivity.
    assert (Hal : h < alloc P) by (pose proof (SA _ _ Gfi) as A; rewrite OF in A; exact A).
    assert (Ge : exists e, nthZ (nodes P) endidx = Some e /\ osTop e = h).
    { match type of Hpf with placed _ _ (map fst (compE ?l ?c0 ?b0 ?h0 ?i0 ?a0 ?f0 ?t0 ?p0 ?r0)) =>
        destruct (compE_last_os l c0 b0 h0 i0 a0 f0 t0 p0 r0) as (front & e & pe & Ee & Ho);
        pose proof (compE_length l c0 b0 h0 i0 a0 f0 t0 p0 r0) as Lf end.
      rewrite Ee in Hpf, Lf. rewrite map_app in Hpf. apply placed_app in Hpf. destruct Hpf as [_ Hpe].
      cbn [map fst] in Hpe. apply placed_cons in Hpe. destruct Hpe as [Ge _]. exists e. split; [|exact Ho].
      rewrite app_length in Lf. cbn [length] in Lf. unfold lenZ in Ge. rewrite map_length in Ge.
      replace (fb + Z.of_nat (length front)) with endidx in Ge by (unfold endidx; lia). exact Ge. }
    destruct Ge as (e & Ge & Hoe).
    assert (HM : forall cf k v' s, tmatches r v' = true ->
              climbP (S cf) k (Some ifidx) v' s = climbP cf k (Some pidx) v' s).
    { intros cf k v' s Hm. unfold TryCorrect.climbP at 1. replace (ifidx =? -1) with false by lia. unfold Run.getn. rewrite Gif.
      rewrite KI. cbn [is_cond_kind]. unfold tmatch. rewrite TI, Hm. cbn [negb andb].
      rewrite tclimb_S. unfold tmatch. rewrite TI, Hm. unfold parent_of. rewrite Qif. reflexivity. }
    assert (HrootM : forall v' cf f0 x, tmatches r v' = true -> (S cb <= cf)%nat -> (need (fb + Z.of_nat (esize f)) <= f0)%nat ->
              lbb (fb + Z.of_nat (esize f)) (climbP cf (tryrun f0) (Some ifidx) v' (stk ++ x)) = true).
    { intros v' cf f0 x Hm Hcf Hf0. destruct cf as [|cf']; [lia|]. rewrite HM by exact Hm.
      pose proof (Hroot v' cf' f0 x ltac:(lia) Hf0) as HR. unfold TryCorrect.afterT in HR. rewrite Hm in HR. exact HR. }
    assert (HrootN : forall v' f0, tmatches r v' = false -> (need (fb + Z.of_nat (esize f)) <= f0)%nat ->
              lbb (fb + Z.of_nat (esize f)) (tryrun f0 (fb + Z.of_nat (esize f)) (stk ++ [v'])) = true).
    { intros v' f0 Hm Hf0. pose proof (Hroot v' cb f0 [] ltac:(lia) Hf0) as HR. unfold TryCorrect.afterT in HR. rewrite Hm in HR.
      rewrite (store_ok _ _ h v' stk [] Hs Hh Hal) in HR. exact HR. }
    eapply (IHc base h false [] fnone (root_idxE c base) ifidx None stk (S cb) Hpc Hqc Hh Hs).
    - lia.
    - replace (base + Z.of_nat (esize c)) with (ifidx - 1) by (unfold ifidx; lia).
      intros v cf f0 x Hcf Hf0. unfold TryCorrect.afterT. cbn [tmatches].
      destruct (is_dne v) eqn:Ed.
      + destruct v; try discriminate.
        destruct r as [bb|].
        * unfold TryCorrect.climbP. replace (ifidx =? -1) with false by lia. unfold Run.getn. rewrite Gif.
          rewrite KI. cbn [is_cond_kind]. unfold tmatch. rewrite TI, tmatches_dne_bool. cbn [negb andb].
          rewrite SI, Gfi. cbv zeta. rewrite SF, Ge, Hoe.
          replace (endidx + 1) with (fb + Z.of_nat (esize f)) by (unfold endidx; lia).
          pose proof (Hroot VDNE cf f0 x ltac:(lia) ltac:(eapply Nat.le_trans; [|exact Hf0]; apply need_mono; unfold fb, fiidx, tb; lia)) as HR.
          unfold TryCorrect.afterT in HR. rewrite tmatches_dne_bool in HR. eapply lbb_weaken; [|exact HR]. unfold fb, fiidx, tb. lia.
        * eapply lbb_weaken; [|apply HrootM; [reflexivity|exact Hcf|]]; [unfold fb, fiidx, tb; lia|].
          eapply Nat.le_trans; [|exact Hf0]. apply need_mono. unfold fb, fiidx, tb. lia.
      + rewrite (store_ok _ _ h v stk x Hs Hh Hal).
        destruct f0 as [|[|f1]]; [unfold EvalDefs.need in Hf0; lia|unfold EvalDefs.need in Hf0; lia|].
        rewrite (tevent_run _ _ _ _ _ Gife), lbb_loop. replace (ifidx - 1 <? ifidx) with true by lia. cbn [andb].
        replace (ifidx - 1 + 1) with ifidx by lia.
        rewrite tryrun_S. unfold psize. replace (L <=? ifidx) with false by lia.
        unfold Run.getn. rewrite Gif, KI. rewrite rev_app_distr. cbn [rev app].
        destruct v as [z|[]|s|li|ls|si|ss'| | |o]; try reflexivity; try discriminate.
        * rewrite rev_involutive. fold tb. apply (lbb_weaken ifidx tb); [unfold tb; lia|].
          eapply (IHt tb h true [] _ _ ifidx r stk (S cb) Hpt Hqt Hh Hs).
          -- lia.
          -- replace (tb + Z.of_nat (esize t)) with (fiidx - 1) by (unfold fiidx; lia).
             intros v' cf' f2 x' Hcf' Hf2. unfold TryCorrect.afterT. destruct (tmatches r v') eqn:Em.
             ++ eapply lbb_weaken; [|apply HrootM; [exact Em|exact Hcf'|]]; [unfold fb; lia|].
                eapply Nat.le_trans; [|exact Hf2]. apply need_mono. unfold fb. lia.
             ++ rewrite (store_ok _ _ h v' stk x' Hs Hh Hal).
                destruct f2 as [|[|f3]]; [unfold EvalDefs.need in Hf2; lia|unfold EvalDefs.need in Hf2; lia|].
                rewrite (tevent_run _ _ _ _ _ Gfie), lbb_loop. replace (fiidx - 1 <? fiidx) with true by lia. cbn [andb].
                replace (fiidx - 1 + 1) with fiidx by lia.
                rewrite tryrun_S. unfold psize. replace (L <=? fiidx) with false by lia.
                unfold Run.getn. rewrite Gfi, KF, OF, SF.
                destruct (stk ++ [v']) eqn:Es'; [destruct stk; discriminate|]. rewrite <- Es'.
                rewrite lenZ_app. change (lenZ [v']) with 1.
                replace ((h + 1 <? 0) || (lenZ stk + 1 <? h + 1)) with false by lia.
                replace (h + 1) with (lenZ (stk ++ [v'])) by (rewrite lenZ_app; change (lenZ [v']) with 1; lia).
                rewrite firstnZ_all. replace (endidx + 1) with (fb + Z.of_nat (esize f)) by (unfold endidx; lia).
                eapply lbb_weaken; [|apply (HrootN v' f3); [exact Em|]]; [unfold fb; lia|]. unfold EvalDefs.need in *. unfold fb in *. lia.
          -- unfold EvalDefs.need in *. unfold tb. lia.
        * rewrite OI, SI. rewrite rev_involutive.
          assert (Hlr : lenZ (rev stk) = h) by (unfold lenZ in *; rewrite rev_length; exact Hs).
          replace ((h - 1 + 1 <? 0) || (lenZ (rev stk) <? h - 1 + 1)) with false by lia.
          replace (h - 1 + 1) with (lenZ stk) by lia. rewrite firstnZ_all. fold fb.
          apply (lbb_weaken ifidx fb); [unfold fb, fiidx, tb; lia|].
          eapply (IHf fb h true [] _ _ ifidx r stk (S cb) Hpf Hqf Hh Hs).
          -- lia.
          -- intros v' cf' f2 x' Hcf' Hf2. unfold TryCorrect.afterT. destruct (tmatches r v') eqn:Em.
             ++ apply HrootM; [exact Em|exact Hcf'|exact Hf2].
             ++ rewrite (store_ok _ _ h v' stk x' Hs Hh Hal). apply (HrootN v' f2); [exact Em|exact Hf2].
          -- unfold EvalDefs.need in *. unfold fb, fiidx, tb in *. lia.
    - exact Hfu.
  Qed.

  Theorem mono_try_all : forall t, mono_try t.
  Proof.
    induction t as [v|n k|name fast cs IH|c t f IHc IHt IHf] using tree_ind2.
    - apply leaf_monoT. reflexivity.
    - apply leaf_monoT. reflexivity.
    - destruct (fast_shape fast cs) eqn:Hfs.
      + destruct (fast_shape_inv _ _ Hfs) as (a & b & -> & Ha & Hb & ->). apply fast_monoT. exact Hfs.
      + apply op_monoT; assumption.
    - apply if_monoT; assumption.
  Qed.
End M.

Theorem try_loops_increasing fetch custom cached t :
  incr_from 0 (loops (fst (tryeval fetch custom cached (compileE t)))) = true.
Proof.
  set (P := compileE t).
  pose proof (mono_try_all fetch custom cached P (compileE_alloc t) t 0 0 false [] fnone (root_idxE t 0) (-1) None [] 0%nat) as H.
  unfold tryeval. apply H.
  - exists [], []. split; [|reflexivity]. rewrite app_nil_r. cbn [app].
    unfold lastI. unfold P. rewrite compileE_len. apply compileE_nodes.
  - exists [], []. split; [|reflexivity]. rewrite app_nil_r. cbn [app].
    unfold lastI. unfold P. rewrite compileE_len. reflexivity.
  - lia.
  - reflexivity.
  - unfold P. rewrite compileE_nodes, map_length, compE_length. lia.
  - intros v cf f x _ Hf. rewrite Z.add_0_l. unfold afterT. cbn [tmatches]. destruct (is_dne v) eqn:Ed.
    + reflexivity.
    + pose proof (allocE_pos t) as Ha. fold P in Ha.
      rewrite (store_ok P _ _ 0 v [] x eq_refl ltac:(lia) ltac:(lia)). cbn [app].
      destruct f as [|f']; [unfold need in Hf; lia|].
      rewrite tryrun_S. unfold psize, P. rewrite compileE_len. replace (Z.of_nat (esize t) <=? Z.of_nat (esize t)) with true by lia.
      reflexivity.
  - unfold need, P. rewrite compileE_len. unfold lenZ. fold P.
    assert (length (nodes P) = esize t) by (unfold P; rewrite compileE_nodes, map_length, compE_length; reflexivity). lia.
Qed.

Print Assumptions try_loops_increasing.

(* in the usual vocabulary: 0 followed by the reported positions is a strictly increasing sequence *)
From Coq Require Import Sorted.
Lemma incr_from_sorted : forall l lo, incr_from lo l = true -> LocallySorted Z.lt (lo :: l).
Proof.
  induction l as [|p l IH]; intros lo H; [constructor|]. cbn [incr_from] in H. apply andb_prop in H. destruct H as [A B].
  constructor; [apply IH; exact B|lia].
Qed.

Theorem loops_sorted fetch custom t : LocallySorted Z.lt (0 :: loops (fst (eval fetch custom (compileE t)))).
Proof. apply incr_from_sorted, loops_increasing. Qed.
Theorem try_loops_sorted fetch custom cached t : LocallySorted Z.lt (0 :: loops (fst (tryeval fetch custom cached (compileE t)))).
Proof. apply incr_from_sorted, try_loops_increasing. Qed.
