(* InfixProofs.v — C15: the shunting-yard parser (parseInfixExpression: operator stack with recorded output heights,
   left-associative reduction by precedence, calls, unary not, parentheses) builds, from the infix rendering of an
   expression, the tree its prefix form denotes. Redundant parentheses do not change the tree. *)
Require Import Base Opcode Tables Ops Tree Opt Flat Run CompFacts Directives Lexer Parser.
From Coq Require Import ZifyBool.
Open Scope Z_scope.
Open Scope list_scope.

(* ---------- infix expressions: what a rendering looks like ---------- *)

Inductive iexp :=
  | IAtom (ts : list tok) (t : tree)       (* a leaf: literal, variable, constant, [..] list *)
  | IParen (e : iexp)                      (* ( e ) — needed or redundant *)
  | INot (e : iexp)                        (* ! e *)
  | IBin (op : str) (l r : iexp)           (* l op r *)
  | ICall (f : str) (args : list iexp).    (* f(a, b, ...), if(c, a, b) *)

Section iexp_ind2.
  Variable P : iexp -> Prop.
  Hypothesis HA : forall ts t, P (IAtom ts t).
  Hypothesis HP : forall e, P e -> P (IParen e).
  Hypothesis HN : forall e, P e -> P (INot e).
  Hypothesis HB : forall op l r, P l -> P r -> P (IBin op l r).
  Hypothesis HC : forall f args, Forall P args -> P (ICall f args).
  Fixpoint iexp_ind2 (e : iexp) : P e :=
    match e with
    | IAtom ts t => HA ts t
    | IParen e => HP e (iexp_ind2 e)
    | INot e => HN e (iexp_ind2 e)
    | IBin op l r => HB op l r (iexp_ind2 l) (iexp_ind2 r)
    | ICall f args => HC f args ((fix F (l : list iexp) : Forall P l :=
        match l with [] => Forall_nil _ | c :: l' => Forall_cons _ (iexp_ind2 c) (F l') end) args)
    end.
End iexp_ind2.

Definition bang : str := ss "!".

Fixpoint itoks (e : iexp) : list tok :=
  match e with
  | IAtom ts _ => ts
  | IParen e => KLParen :: itoks e ++ [KRParen]
  | INot e => KIdent bang :: itoks e
  | IBin op l r => itoks l ++ KIdent op :: itoks r
  | ICall f args =>
    KIdent f :: KLParen ::
      (fix sep (l : list iexp) : list tok :=
         match l with [] => [] | [a] => itoks a | a :: l' => itoks a ++ KComma :: sep l' end) args ++ [KRParen]
  end.

Fixpoint isep (l : list iexp) : list tok :=
  match l with [] => [] | [a] => itoks a | a :: l' => itoks a ++ KComma :: isep l' end.

Lemma itoks_call f args : itoks (ICall f args) = KIdent f :: KLParen :: isep args ++ [KRParen].
Proof. reflexivity. Qed.

(* binding strength of the outermost construct *)
Definition ilevel (e : iexp) : Z :=
  match e with
  | IAtom _ _ | IParen _ | ICall _ _ => 99
  | INot _ => prec bang
  | IBin op _ _ => prec op
  end.

Section C.
  Variable c : pconf.

  Definition parent (name : str) (children : list tree) : tree :=
    match build_parent c name children with Some t => t | None => TConst VNil end.

  (* the tree of the equivalent prefix expression *)
  Fixpoint itree (e : iexp) : tree :=
    match e with
    | IAtom _ t => t
    | IParen e => itree e
    | INot e => parent bang [itree e]
    | IBin op l r => parent op [itree l; itree r]
    | ICall f args => parent f (map itree args)
    end.

  (* the name is not read as a constant or a variable *)
  Definition not_leaf (s : str) : Prop := forall rest, leaf c true (KIdent s :: rest) = LNone.

  Fixpoint iwf (e : iexp) : Prop :=
    match e with
    | IAtom ts t => ts <> [] /\ forall rest, leaf c true (ts ++ rest) = LOk t rest
    | IParen e => iwf e
    | INot e => iwf e /\ prec bang < ilevel e /\ not_leaf bang /\ build_parent c bang [itree e] <> None
    | IBin op l r =>
      iwf l /\ iwf r /\ arity op = 2 /\ 3 <= prec op <= 8 /\ prec op <= ilevel l /\ prec op < ilevel r /\
      not_leaf op /\ build_parent c op [itree l; itree r] <> None
    | ICall f args =>
      (fix all (l : list iexp) : Prop := match l with [] => True | a :: l' => iwf a /\ all l' end) args /\
      infix_info f = infix_default /\ not_leaf f /\ build_parent c f (map itree args) <> None
    end.

  Lemma iwf_call f args : iwf (ICall f args) <->
    Forall iwf args /\ infix_info f = infix_default /\ not_leaf f /\ build_parent c f (map itree args) <> None.
  Proof.
    cbn [iwf]. assert (E : forall l, (fix all (l : list iexp) : Prop := match l with [] => True | a :: l' => iwf a /\ all l' end) l <-> Forall iwf l).
    { induction l as [|a l IH]; [split; auto|]. rewrite IH. split; [intros [H1 H2]; constructor; assumption|intros H; inversion H; auto]. }
    rewrite E. tauto.
  Qed.

  Lemma parent_some name cs : build_parent c name cs <> None -> build_parent c name cs = Some (parent name cs).
  Proof. unfold parent. destruct (build_parent c name cs); [reflexivity|congruence]. Qed.

  Lemma prec_bang : prec bang = 6 /\ arity bang = 1.
  Proof. split; reflexivity. Qed.

  Lemma ilevel_ge e : iwf e -> 3 <= ilevel e.
  Proof. destruct e; cbn [ilevel iwf]; intros H; try lia; try (destruct prec_bang as [-> _]; lia); tauto. Qed.

  (* ---------- buildTopOperators without fuel ---------- *)

  Fixpoint bt (car : option tok) (ops : list (tok * Z)) (out : list tree) : option (list (tok * Z) * list tree) :=
    match ops with
    | [] => Some ([], out)
    | (top, l) :: ops' =>
      match car, top with
      | Some KRParen, KLParen => Some (ops', out)
      | _, _ =>
        if stays car (Some top) then Some (ops, out) else
        let cnt := let a := arity (tok_val (Some top)) in if a =? -1 then lenZ out - l else a in
        if (cnt <? 0) || (lenZ out <? cnt) then None else
        let children := rev (firstn (Z.to_nat cnt) out) in
        match build_parent c (tok_val (Some top)) children with
        | None => None
        | Some t => bt car ops' (t :: skipn (Z.to_nat cnt) out)
        end
      end
    end.

  Lemma build_top_bt : forall fuel car ops out, (length ops < fuel)%nat -> build_top c fuel car ops out = bt car ops out.
  Proof.
    induction fuel as [|f IH]; intros car ops out Hf; [lia|].
    destruct ops as [|[top l] ops']; [reflexivity|]. cbn [build_top bt]. cbn [length] in Hf.
    destruct car as [[]|], top; try reflexivity;
      (destruct (stays _ _); [reflexivity|]; cbv zeta;
       match goal with |- (if ?b then _ else _) = _ => destruct b; [reflexivity|] end;
       match goal with |- match ?x with _ => _ end = _ => destruct x; [|reflexivity] end; apply IH; lia).
  Qed.

  (* ---------- single steps of the main loop ---------- *)

  Lemma loop_leaf f ts t rest ops out : ts <> [] -> leaf c true ts = LOk t rest ->
    infix_loop c (S f) ts ops out = infix_loop c f rest ops (t :: out).
  Proof. intros Hn Hl. cbn [infix_loop]. destruct ts; [congruence|]. rewrite Hl. reflexivity. Qed.

  Lemma loop_ident f s rest ops out : leaf c true (KIdent s :: rest) = LNone ->
    infix_loop c (S f) (KIdent s :: rest) ops out =
      match bt (Some (KIdent s)) ops out with
      | Some (ops', out') => infix_loop c f rest ((KIdent s, lenZ out') :: ops') out'
      | None => None
      end.
  Proof. intros Hl. cbn [infix_loop]. rewrite Hl. rewrite build_top_bt by lia. reflexivity. Qed.

  Lemma leaf_delim t rest : t = KLParen \/ t = KRParen \/ t = KComma -> leaf c true (t :: rest) = LNone.
  Proof.
    intros [E|[E|E]]; rewrite E; cbn [leaf]; unfold parse_list; destruct rest; reflexivity.
  Qed.

  Lemma loop_lparen f rest ops out :
    infix_loop c (S f) (KLParen :: rest) ops out = infix_loop c f rest ((KLParen, lenZ out) :: ops) out.
  Proof. cbn [infix_loop]. rewrite leaf_delim by auto. reflexivity. Qed.

  Lemma loop_close f t rest ops out : t = KRParen \/ t = KComma ->
    infix_loop c (S f) (t :: rest) ops out =
      match bt (Some t) ops out with Some (ops', out') => infix_loop c f rest ops' out' | None => None end.
  Proof.
    intros H. cbn [infix_loop]. rewrite leaf_delim by tauto. rewrite build_top_bt by lia.
    destruct H as [E|E]; rewrite E; reflexivity.
  Qed.

  (* ---------- what is left pending after an expression has been read ---------- *)

  Definition cprec (car : option tok) : Z := prec (tok_val car).

  (* reading e on top of a stack whose output has height h leaves operators pe / operands oe; any later token that
     binds no tighter than e reduces them to e's tree *)
  Definition Pend (e : iexp) (pe : list (tok * Z)) (oe : list tree) (h : Z) : Prop :=
    forall car ops out, lenZ out = h -> cprec car <= ilevel e -> cprec car <= 99 ->
      bt car (pe ++ ops) (oe ++ out) = bt car ops (itree e :: out).

  Definition low (ops : list (tok * Z)) (lvl : Z) : Prop :=
    match ops with [] => True | (top, _) :: _ => prec (tok_val (Some top)) < lvl end.

  Lemma stays_low car top l ops lvl : low ((top, l) :: ops) lvl -> lvl <= cprec car -> stays car (Some top) = true.
  Proof.
    unfold low, stays, cprec. intros H1 H2. destruct (prec (tok_val car) =? func_precedence); [reflexivity|]. lia.
  Qed.

  Lemma bt_stays car ops out lvl : low ops lvl -> lvl <= cprec car -> (forall t, car = Some t -> t <> KRParen) ->
    bt car ops out = Some (ops, out).
  Proof.
    intros Hl Hc Hr. destruct ops as [|[top l] ops']; [reflexivity|]. cbn [bt].
    rewrite (stays_low car top l ops' lvl Hl Hc).
    destruct car as [[]|]; try reflexivity. exfalso. eapply Hr; reflexivity.
  Qed.

  Definition reads (e : iexp) : Prop :=
    forall f rest ops out, low ops (ilevel e) -> (length (itoks e ++ rest) < f)%nat ->
      exists f' pe oe, (length rest < f')%nat /\
        infix_loop c f (itoks e ++ rest) ops out = infix_loop c f' rest (pe ++ ops) (oe ++ out) /\
        Pend e pe oe (lenZ out).

  Lemma reads_atom ts t : iwf (IAtom ts t) -> reads (IAtom ts t).
  Proof.
    intros [Hn Hl] f rest ops out Hlow Hf. cbn [itoks] in *.
    destruct f as [|f]; [lia|]. exists f, [], [t]. split.
    - rewrite app_length in Hf. destruct ts; [congruence|]. cbn [length] in Hf. lia.
    - split; [|intros car ops' out' _ _ _; reflexivity].
      apply loop_leaf; [destruct ts; [congruence|discriminate]|apply Hl].
  Qed.

  Lemma prec_paren : prec (ss "(") = 1 /\ prec (ss ")") = 1 /\ prec (ss ",") = 2 /\ prec [] = -1.
  Proof. repeat split; reflexivity. Qed.

  Lemma reads_paren e : iwf e -> reads e -> reads (IParen e).
  Proof.
    intros Hw IH f rest ops out Hlow Hf. cbn [itoks app] in *. rewrite <- app_assoc in *. cbn [app] in *.
    destruct f as [|f]; [lia|]. cbn [length] in Hf. rewrite loop_lparen.
    destruct (IH f (KRParen :: rest) ((KLParen, lenZ out) :: ops) out) as (f1 & pe & oe & Hf1 & E & HP).
    { unfold low. cbn [tok_val]. destruct prec_paren as [-> _]. pose proof (ilevel_ge e Hw). lia. }
    { lia. }
    rewrite E. destruct f1 as [|f1]; [lia|]. rewrite loop_close by auto.
    rewrite (HP (Some KRParen) ((KLParen, lenZ out) :: ops) out eq_refl).
    - cbn [bt]. exists f1, [], [itree e]. split; [cbn [length] in Hf1; lia|]. split; [reflexivity|].
      intros car ops' out' _ _ _. reflexivity.
    - unfold cprec. cbn [tok_val]. destruct prec_paren as (_ & -> & _). pose proof (ilevel_ge e Hw). lia.
    - unfold cprec. cbn [tok_val]. destruct prec_paren as (_ & -> & _). lia.
  Qed.

  (* reducing one pending operator with a fixed number of operands *)
  Lemma bt_reduce car top l ops out kids n :
    (forall t, car = Some t -> t = KRParen -> top <> KLParen) ->
    stays car (Some top) = false ->
    (let a := arity (tok_val (Some top)) in if a =? -1 then lenZ (rev kids ++ out) - l else a) = Z.of_nat n ->
    length kids = n -> build_parent c (tok_val (Some top)) kids <> None ->
    bt car ((top, l) :: ops) (rev kids ++ out) = bt car ops (parent (tok_val (Some top)) kids :: out).
  Proof.
    intros Hr Hs Hc Hk Hb. cbn [bt]. rewrite Hs. cbv zeta in *. rewrite Hc.
    assert (Hlen : lenZ (rev kids ++ out) = Z.of_nat n + lenZ out) by (rewrite lenZ_app; unfold lenZ; rewrite rev_length; lia).
    pose proof (lenZ_nonneg out). rewrite Hlen. replace ((Z.of_nat n <? 0) || (Z.of_nat n + lenZ out <? Z.of_nat n)) with false by lia.
    rewrite Nat2Z.id. subst n. rewrite <- (rev_length kids).
    rewrite firstn_app, firstn_all, Nat.sub_diag. cbn [firstn]. rewrite app_nil_r, rev_involutive.
    rewrite skipn_app, skipn_all, Nat.sub_diag. cbn [skipn app].
    rewrite (parent_some _ _ Hb).
    destruct car as [[]|], top; try reflexivity. exfalso. eapply Hr; reflexivity.
  Qed.

  Lemma stays_false car top : cprec car <= prec (tok_val (Some top)) -> cprec car <= 99 -> stays car (Some top) = false.
  Proof. unfold stays, cprec, func_precedence. intros H1 H2. replace (prec (tok_val car) =? 100) with false by lia. lia. Qed.

  Lemma reads_not e : iwf (INot e) -> reads e -> reads (INot e).
  Proof.
    intros (Hw & Hlv & Hnl & Hb) IH f rest ops out Hlow Hf. cbn [itoks ilevel] in *. cbn [app] in *.
    destruct prec_bang as [Pb Ab].
    destruct f as [|f]; [lia|]. cbn [length] in Hf. rewrite loop_ident by apply Hnl.
    rewrite (bt_stays (Some (KIdent bang)) ops out (prec bang) Hlow) by (unfold cprec; cbn [tok_val]; try lia; intros t [= <-]; discriminate).
    destruct (IH f rest ((KIdent bang, lenZ out) :: ops) out) as (f1 & pe & oe & Hf1 & E & HP).
    { unfold low. cbn [tok_val]. lia. }
    { lia. }
    rewrite E. exists f1, (pe ++ [(KIdent bang, lenZ out)]), oe. split; [exact Hf1|]. split; [rewrite <- app_assoc; reflexivity|].
    intros car ops' out' Hh Hc1 Hc2. cbn [ilevel] in Hc1. rewrite <- app_assoc. cbn [app].
    rewrite (HP car _ out' Hh) by lia.
    change (itree e :: out') with (rev [itree e] ++ out').
    rewrite (bt_reduce car (KIdent bang) (lenZ out) ops' out' [itree e] 1); [reflexivity| | | |reflexivity|exact Hb].
    - intros t _ _. discriminate.
    - apply stays_false; [cbn [tok_val]; lia|exact Hc2].
    - cbn [tok_val]. rewrite Ab. reflexivity.
  Qed.

  Lemma reads_bin op l r : iwf (IBin op l r) -> reads l -> reads r -> reads (IBin op l r).
  Proof.
    intros (Hwl & Hwr & Har & Hp & Hll & Hlr & Hnl & Hb) IHl IHr f rest ops out Hlow Hf. cbn [itoks ilevel] in *.
    rewrite <- app_assoc in *. cbn [app] in *.
    destruct (IHl f (KIdent op :: itoks r ++ rest) ops out) as (f1 & pl & ol & Hf1 & El & HPl).
    { destruct ops as [|[top l0] ops']; [exact I|]. unfold low in *. lia. }
    { exact Hf. }
    rewrite El. destruct f1 as [|f1]; [lia|]. cbn [length] in Hf1. rewrite loop_ident by apply Hnl.
    rewrite (HPl (Some (KIdent op)) ops out eq_refl) by (unfold cprec; cbn [tok_val]; lia).
    rewrite (bt_stays (Some (KIdent op)) ops (itree l :: out) (prec op) Hlow) by (unfold cprec; cbn [tok_val]; try lia; intros t [= <-]; discriminate).
    destruct (IHr f1 rest ((KIdent op, lenZ (itree l :: out)) :: ops) (itree l :: out)) as (f2 & pr & or & Hf2 & Er & HPr).
    { unfold low. cbn [tok_val]. lia. }
    { lia. }
    rewrite Er. exists f2, (pr ++ [(KIdent op, lenZ (itree l :: out))]), (or ++ [itree l]). split; [exact Hf2|].
    split; [rewrite <- !app_assoc; reflexivity|].
    intros car ops' out' Hh Hc1 Hc2. cbn [ilevel] in Hc1. rewrite <- !app_assoc. cbn [app].
    rewrite (HPr car _ (itree l :: out')) by (try lia; rewrite !lenZ_cons; lia).
    change (itree r :: itree l :: out') with (rev [itree l; itree r] ++ out').
    rewrite (bt_reduce car (KIdent op) (lenZ (itree l :: out)) ops' out' [itree l; itree r] 2); [reflexivity| | | |reflexivity|exact Hb].
    - intros t _ _. discriminate.
    - apply stays_false; [cbn [tok_val]; lia|exact Hc2].
    - cbn [tok_val]. rewrite Har. reflexivity.
  Qed.

  (* the operands of a call, each closed by `,` or by the `)` of the call *)
  Lemma reads_args fname : forall args, Forall iwf args -> Forall reads args ->
    forall done f rest ops out h, (length (isep args ++ KRParen :: rest) < f)%nat ->
      (args = [] -> done = []) ->
      exists f', (length rest < f')%nat /\
        infix_loop c f (isep args ++ KRParen :: rest) ((KLParen, h) :: (KIdent fname, lenZ out) :: ops) (rev (map itree done) ++ out) =
        infix_loop c f' rest ((KIdent fname, lenZ out) :: ops) (rev (map itree (done ++ args)) ++ out).
  Proof.
    intros args Hw HR. induction HR as [|a args Ha _ IH]; intros done f rest ops out h Hf Hd.
    - cbn [isep app] in *. rewrite (Hd eq_refl). destruct f as [|f]; [lia|]. cbn [length] in Hf.
      rewrite loop_close by auto. cbn [bt map rev app]. exists f. split; [lia|reflexivity].
    - inversion Hw as [|? ? Hwa Hwargs]; subst.
      assert (Hone : forall f rest' ops0, (length (itoks a ++ rest') < f)%nat ->
                exists f1 pe oe, (length rest' < f1)%nat /\
                  infix_loop c f (itoks a ++ rest') ((KLParen, h) :: ops0) (rev (map itree done) ++ out)
                  = infix_loop c f1 rest' (pe ++ (KLParen, h) :: ops0) (oe ++ rev (map itree done) ++ out) /\
                  Pend a pe oe (lenZ (rev (map itree done) ++ out))).
      { intros f0 rest' ops0 Hf0. apply Ha; [|exact Hf0]. unfold low. cbn [tok_val]. destruct prec_paren as [-> _]. pose proof (ilevel_ge a Hwa). lia. }
      destruct args as [|b args'].
      + (* last operand *)
        cbn [isep] in *. destruct (Hone f (KRParen :: rest) ((KIdent fname, lenZ out) :: ops) Hf) as (f1 & pe & oe & Hf1 & E & HP).
        rewrite E. destruct f1 as [|f1]; [lia|]. cbn [length] in Hf1. rewrite loop_close by auto.
        rewrite (HP (Some KRParen) _ _ eq_refl) by (unfold cprec; cbn [tok_val]; destruct prec_paren as (_ & -> & _); pose proof (ilevel_ge a Hwa); lia).
        cbn [bt]. exists f1. split; [lia|]. rewrite map_app, rev_app_distr. cbn [map rev app]. reflexivity.
      + change (isep (a :: b :: args')) with (itoks a ++ KComma :: isep (b :: args')) in *. rewrite <- app_assoc in *. cbn [app] in *.
        destruct (Hone f (KComma :: isep (b :: args') ++ KRParen :: rest) ((KIdent fname, lenZ out) :: ops) Hf) as (f1 & pe & oe & Hf1 & E & HP).
        rewrite E. destruct f1 as [|f1]; [lia|]. cbn [length] in Hf1. rewrite loop_close by auto.
        rewrite (HP (Some KComma) _ _ eq_refl) by (unfold cprec; cbn [tok_val]; destruct prec_paren as (_ & _ & -> & _); pose proof (ilevel_ge a Hwa); lia).
        assert (Est : bt (Some KComma) ((KLParen, h) :: (KIdent fname, lenZ out) :: ops) (itree a :: rev (map itree done) ++ out)
                      = Some ((KLParen, h) :: (KIdent fname, lenZ out) :: ops, itree a :: rev (map itree done) ++ out)).
        { cbn [bt]. unfold stays. cbn [tok_val]. destruct prec_paren as (-> & _ & -> & _). reflexivity. }
        rewrite Est.
        destruct (IH Hwargs (done ++ [a]) f1 rest ops out h) as (f2 & Hf2 & E2).
        { lia. }
        { discriminate. }
        exists f2. split; [exact Hf2|].
        rewrite map_app, rev_app_distr in E2. cbn [map rev app] in E2. rewrite E2. rewrite <- app_assoc. reflexivity.
  Qed.

  Lemma reads_call fname args : iwf (ICall fname args) -> Forall reads args -> reads (ICall fname args).
  Proof.
    intros Hw HR f rest ops out Hlow Hf. apply iwf_call in Hw. destruct Hw as (Hwa & Hinfo & Hnl & Hb).
    rewrite itoks_call in *. cbn [app] in *. rewrite <- app_assoc in *. cbn [app] in *.
    destruct f as [|f]; [lia|]. cbn [length] in Hf. rewrite loop_ident by apply Hnl.
    assert (Hprec : prec fname = 100 /\ arity fname = -1) by (unfold prec, arity; rewrite Hinfo; split; reflexivity).
    destruct Hprec as [Pf Af].
    assert (Est : bt (Some (KIdent fname)) ops out = Some (ops, out)).
    { destruct ops as [|[top l] ops']; [reflexivity|]. cbn [bt]. unfold stays. cbn [tok_val]. rewrite Pf. reflexivity. }
    rewrite Est. destruct f as [|f]; [lia|]. rewrite loop_lparen.
    destruct (reads_args fname args Hwa HR [] f rest ops out (lenZ out)) as (f1 & Hf1 & E); [lia|reflexivity|].
    cbn [map rev app] in E. rewrite E.
    exists f1, [(KIdent fname, lenZ out)], (rev (map itree args)). split; [exact Hf1|]. split; [reflexivity|].
    intros car ops' out' Hh Hc1 Hc2. cbn [app].
    rewrite (bt_reduce car (KIdent fname) (lenZ out) ops' out' (map itree args) (length args)); [reflexivity| | | | |exact Hb].
    - intros t _ _. discriminate.
    - apply stays_false; [cbn [tok_val]; lia|exact Hc2].
    - cbn [tok_val]. rewrite Af. cbv zeta. change (-1 =? -1) with true. cbv iota.
      rewrite lenZ_app. unfold lenZ at 1. rewrite rev_length, map_length. lia.
    - apply map_length.
  Qed.

  Theorem reads_all : forall e, iwf e -> reads e.
  Proof.
    induction e as [ts t|e IH|e IH|op l r IHl IHr|fname args IH] using iexp_ind2; intros Hw.
    - apply reads_atom. exact Hw.
    - apply reads_paren; [exact Hw|apply IH; exact Hw].
    - apply reads_not; [exact Hw|]. apply IH. apply Hw.
    - apply reads_bin; [exact Hw|apply IHl; apply Hw|apply IHr; apply Hw].
    - apply reads_call; [exact Hw|]. apply iwf_call in Hw. destruct Hw as [Hwa _].
      clear -IH Hwa. induction IH as [|a args Ha _ IHa]; [constructor|]. inversion Hwa; subst. constructor; auto.
  Qed.

  (* ---------- the parser ---------- *)

  Theorem parse_infix_correct e : iwf e -> parse_infix c (itoks e) = Some (itree e).
  Proof.
    intros Hw. unfold parse_infix.
    destruct (reads_all e Hw (S (length (itoks e))) [] [] [] I) as (f' & pe & oe & Hf' & E & HP).
    { rewrite app_nil_r. lia. }
    rewrite app_nil_r in E. rewrite E. destruct f' as [|f']; [lia|]. cbn [infix_loop].
    rewrite build_top_bt by lia.
    rewrite (HP None [] [] eq_refl).
    - reflexivity.
    - unfold cprec. cbn [tok_val]. destruct prec_paren as (_ & _ & _ & ->). pose proof (ilevel_ge e Hw). lia.
    - unfold cprec. cbn [tok_val]. destruct prec_paren as (_ & _ & _ & ->). lia.
  Qed.

  (* redundant parentheses anywhere do not change the tree *)
  Fixpoint strip_parens (e : iexp) : iexp :=
    match e with
    | IAtom ts t => IAtom ts t
    | IParen e => strip_parens e
    | INot e => INot (strip_parens e)
    | IBin op l r => IBin op (strip_parens l) (strip_parens r)
    | ICall f args => ICall f (map strip_parens args)
    end.

  Lemma itree_strip : forall e, itree (strip_parens e) = itree e.
  Proof.
    induction e as [ts t|e IH|e IH|op l r IHl IHr|fname args IH] using iexp_ind2; cbn [strip_parens itree]; try congruence.
    f_equal. rewrite map_map. induction IH as [|a args Ha _ IHa]; [reflexivity|]. cbn [map]. rewrite Ha, IHa. reflexivity.
  Qed.

  Corollary parens_irrelevant e1 e2 : iwf e1 -> iwf e2 -> strip_parens e1 = strip_parens e2 ->
    parse_infix c (itoks e1) = parse_infix c (itoks e2).
  Proof.
    intros H1 H2 E. rewrite !parse_infix_correct by assumption. rewrite <- (itree_strip e1), <- (itree_strip e2), E. reflexivity.
  Qed.
End C.
