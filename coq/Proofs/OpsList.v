(* OpsList.v — `in` / `overlap` are membership / non-empty intersection (C17). *)
Require Import Base Opcode Tables Ops.
From Coq Require Import ZifyBool.
Open Scope Z_scope.

Lemma list_eqb_N_eq (a b : str) : str_eqb a b = true <-> a = b.
Proof.
  unfold str_eqb. revert b. induction a as [|x a IH]; intros [|y b]; cbn; split; intros H; try discriminate; try reflexivity.
  - apply andb_prop in H. destruct H as [H1 H2]. apply N.eqb_eq in H1. apply IH in H2. subst. reflexivity.
  - inversion H; subst. rewrite N.eqb_refl. apply IH. reflexivity.
Qed.

Lemma mem_Z_In x l : mem_Z x l = true <-> In x l.
Proof.
  unfold mem_Z. rewrite existsb_exists. split.
  - intros [y [Hy He]]. apply Z.eqb_eq in He. subst. exact Hy.
  - intros H. exists x. split; [exact H|apply Z.eqb_refl].
Qed.

Lemma mem_str_In x l : mem_str x l = true <-> In x l.
Proof.
  unfold mem_str. rewrite existsb_exists. split.
  - intros [y [Hy He]]. apply list_eqb_N_eq in He. subst. exact Hy.
  - intros H. exists x. split; [exact H|apply list_eqb_N_eq; reflexivity].
Qed.

(* ---------- in ---------- *)

Theorem in_int_list x l : exists b, list_in [VInt x; VIntL l] = Ok (VBool b) /\ (b = true <-> In x l).
Proof. exists (mem_Z x l). split; [reflexivity|apply mem_Z_In]. Qed.
Theorem in_str_list x l : exists b, list_in [VStr x; VStrL l] = Ok (VBool b) /\ (b = true <-> In x l).
Proof. exists (mem_str x l). split; [reflexivity|apply mem_str_In]. Qed.
(* pre-built sets are accepted *)
Theorem in_int_set x l : exists b, list_in [VInt x; VIntSet l] = Ok (VBool b) /\ (b = true <-> In x l).
Proof. exists (mem_Z x l). split; [reflexivity|apply mem_Z_In]. Qed.
Theorem in_str_set x l : exists b, list_in [VStr x; VStrSet l] = Ok (VBool b) /\ (b = true <-> In x l).
Proof. exists (mem_str x l). split; [reflexivity|apply mem_str_In]. Qed.
(* the empty list literal (a string list) is an empty list of either type *)
Theorem in_empty_literal p : (exists x, p = VInt x) \/ (exists s, p = VStr s) -> list_in [p; VStrL []] = Ok (VBool false).
Proof. intros [[x ->] | [s ->]]; reflexivity. Qed.
(* element-type mismatches are errors, not false *)
Theorem in_type_mismatch :
  (forall x s l, list_in [VInt x; VStrL (s :: l)] = Err (EType (ss "in"))) /\
  (forall x l, list_in [VStr x; VIntL l] = Err (EType (ss "in"))) /\
  (forall x l, list_in [VInt x; VStrSet l] = Err (EType (ss "in"))) /\
  (forall x l, list_in [VStr x; VIntSet l] = Err (EType (ss "in"))).
Proof. repeat split; reflexivity. Qed.

(* ---------- overlap ---------- *)

Section Ov.
  Context {A : Type} (eqb : A -> A -> bool) (eqb_eq : forall x y, eqb x y = true <-> x = y).

  Lemma ov_scan_spec a b : ov_scan eqb a b = true <-> exists x, In x a /\ In x b.
  Proof.
    unfold ov_scan. rewrite existsb_exists. split.
    - intros [x [Hx H]]. rewrite existsb_exists in H. destruct H as [y [Hy He]]. apply eqb_eq in He. subst. eauto.
    - intros [x [Ha Hb]]. exists x. split; [exact Ha|]. rewrite existsb_exists. exists x. split; [exact Hb|apply eqb_eq; reflexivity].
  Qed.

  Lemma ov_hash_spec a b : ov_hash eqb a b = true <-> exists x, In x a /\ In x b.
  Proof.
    unfold ov_hash. destruct (length b <? length a)%nat.
    - rewrite existsb_exists. split.
      + intros [x [Hx H]]. rewrite existsb_exists in H. destruct H as [y [Hy He]]. apply eqb_eq in He. subst. eauto.
      + intros [x [Ha Hb]]. exists x. split; [exact Ha|]. rewrite existsb_exists. exists x. split; [exact Hb|apply eqb_eq; reflexivity].
    - rewrite existsb_exists. split.
      + intros [x [Hx H]]. rewrite existsb_exists in H. destruct H as [y [Hy He]]. apply eqb_eq in He. subst. eauto.
      + intros [x [Ha Hb]]. exists x. split; [exact Hb|]. rewrite existsb_exists. exists x. split; [exact Ha|apply eqb_eq; reflexivity].
  Qed.

  (* both sides of the 100-element switch compute the same thing *)
  Lemma ov_spec a b : ov eqb a b = true <-> exists x, In x a /\ In x b.
  Proof. unfold ov. destruct (lenZ a + lenZ b <? overlap_threshold); [apply ov_scan_spec|apply ov_hash_spec]. Qed.

  Lemma scan_eq_hash a b : ov_scan eqb a b = ov_hash eqb a b.
  Proof.
    apply eq_true_iff_eq. rewrite ov_scan_spec, ov_hash_spec. reflexivity.
  Qed.

  Lemma ov_sym a b : ov eqb a b = ov eqb b a.
  Proof.
    apply eq_true_iff_eq. rewrite !ov_spec. split; intros [x [H1 H2]]; eauto.
  Qed.
End Ov.

Theorem overlap_int a b : exists r, list_overlap [VIntL a; VIntL b] = Ok (VBool r) /\ (r = true <-> exists x, In x a /\ In x b).
Proof. exists (ov Z.eqb a b). split; [reflexivity|apply ov_spec; apply Z.eqb_eq]. Qed.
Theorem overlap_str a b : exists r, list_overlap [VStrL a; VStrL b] = Ok (VBool r) /\ (r = true <-> exists x, In x a /\ In x b).
Proof. exists (ov str_eqb a b). split; [reflexivity|apply ov_spec; apply list_eqb_N_eq]. Qed.

Definition is_list (v : value) : bool := match v with VIntL _ | VStrL _ => true | _ => false end.

Theorem overlap_symmetric p q : is_list p = true -> is_list q = true -> list_overlap [p; q] = list_overlap [q; p].
Proof.
  destruct p, q; cbn [is_list]; try discriminate; intros _ _; cbn [list_overlap].
  - rewrite (ov_sym Z.eqb Z.eqb_eq). reflexivity.
  - destruct l0; reflexivity.
  - destruct l; reflexivity.
  - rewrite (ov_sym str_eqb list_eqb_N_eq). reflexivity.
Qed.

(* the empty list literal is neutral on either side, for either element type *)
Theorem overlap_empty_literal q : is_list q = true ->
  list_overlap [VStrL []; q] = Ok (VBool false) /\ list_overlap [q; VStrL []] = Ok (VBool false).
Proof.
  intros Hq. assert (H : list_overlap [VStrL []; q] = Ok (VBool false)).
  { destruct q; try discriminate; cbn [list_overlap]; [reflexivity|].
    replace (ov str_eqb [] l) with false; [reflexivity|]. symmetry. apply not_true_is_false. intros H.
    apply (ov_spec str_eqb list_eqb_N_eq) in H. destruct H as [x [[] _]]. }
  split; [exact H|]. rewrite <- overlap_symmetric; auto.
Qed.

Theorem overlap_type_mismatch :
  (forall s a b, list_overlap [VStrL (s :: a); VIntL b] = Err (EType (ss "overlap"))) /\
  (forall s a b, list_overlap [VIntL b; VStrL (s :: a)] = Err (EType (ss "overlap"))) /\
  (forall p q, is_list p = false -> list_overlap [p; q] = Err (EType (ss "overlap"))) /\
  (forall p q, is_list p = true -> is_list q = false -> list_overlap [p; q] = Err (EType (ss "overlap"))).
Proof.
  repeat split; try reflexivity.
  - intros p q H. destruct p; try discriminate; reflexivity.
  - intros p q Hp Hq. destruct p; try discriminate; destruct q; try discriminate; reflexivity.
Qed.

Theorem overlap_count ps : length ps <> 2%nat -> list_overlap ps = Err (ECount (mname "overlap")).
Proof. intros H. destruct ps as [|a [|b [|c ps]]]; try reflexivity. cbn in H. congruence. Qed.
Theorem in_count ps : length ps <> 2%nat -> list_in ps = Err (ECount (mname "in")).
Proof. intros H. destruct ps as [|a [|b [|c ps]]]; try reflexivity. cbn in H. congruence. Qed.
