(* OptSound.v — C02: every optimisation pass preserves an order-insensitive denotation `den`, and
   left-to-right evaluation refines it on expressions whose and/or operands are boolean; hence any two
   configurations that both return a value return the same one. *)
Require Import Base Opcode Tables Ops Tree Opt OpsArith OpsList SemFacts CompFacts TryFacts Flat Run EvalCorrect Reorder.
From Coq Require Import ZifyBool Permutation.
Open Scope Z_scope.
Open Scope list_scope.

Definition is_some_bool (d : bool) (o : option value) : bool :=
  match o with Some (VBool b) => Bool.eqb b d | _ => false end.

Fixpoint all_some {A} (l : list (option A)) : option (list A) :=
  match l with
  | [] => Some []
  | Some x :: l' => match all_some l' with Some r => Some (x :: r) | None => None end
  | None :: _ => None
  end.

Section D.
  Variable fetch : str -> Z -> res value.
  Variable custom : str -> list value -> res value.
  Notation apply_op := (apply_op custom).
  Notation sem := (sem fetch custom).
  Notation sem_args := (sem_args fetch custom).

  Definition comb_den (name : str) (ds : list (option value)) : option value :=
    match op_kind name with
    | Some d => if existsb (is_some_bool d) ds then Some (VBool d)
                else if forallb (is_some_bool (negb d)) ds then Some (VBool (negb d)) else None
    | None => match all_some ds with
              | Some vs => match apply_op name vs with Ok r => Some r | Err _ => None end
              | None => None
              end
    end.

  (* the order-insensitive denotation: and/or are decided by any deciding operand, "fails" is undefined *)
  Fixpoint den (t : tree) : option value :=
    match t with
    | TConst v => Some v
    | TVar n k => match fetch n k with Ok v => Some v | Err _ => None end
    | TOp name _ cs => comb_den name (map den cs)
    | TIf c t f => match den c with Some (VBool true) => den t | Some (VBool false) => den f | _ => None end
    end.

  (* ---------- comb_den is symmetric for and/or ---------- *)

  Lemma existsb_perm {A} (f : A -> bool) l l' : Permutation l l' -> existsb f l = existsb f l'.
  Proof. induction 1; cbn; try congruence; [destruct (f x), (f y); reflexivity]. Qed.
  Lemma forallb_perm {A} (f : A -> bool) l l' : Permutation l l' -> forallb f l = forallb f l'.
  Proof. induction 1; cbn; try congruence; [destruct (f x), (f y); reflexivity]. Qed.

  Lemma comb_den_perm name ds ds' : is_boolop name = true -> Permutation ds ds' -> comb_den name ds = comb_den name ds'.
  Proof.
    intros Hb Hp. unfold comb_den. destruct (op_kind name) as [d|] eqn:Hk.
    - rewrite (existsb_perm _ _ _ Hp), (forallb_perm _ _ _ Hp). reflexivity.
    - unfold is_boolop, op_kind in *. destruct (is_and name); [discriminate|]. destruct (is_or name); discriminate.
  Qed.

  Lemma op_kind_boolop name d : op_kind name = Some d -> is_boolop name = true.
  Proof. unfold op_kind, is_boolop. destruct (is_and name); [reflexivity|]. destruct (is_or name); [reflexivity|discriminate]. Qed.
  Lemma op_kind_none name : op_kind name = None -> is_boolop name = false.
  Proof. unfold op_kind, is_boolop. destruct (is_and name); [discriminate|]. destruct (is_or name); [discriminate|reflexivity]. Qed.

  (* ---------- reordering ---------- *)
  Section R.
    Variable sorter : list tree -> list tree.
    Hypothesis sorter_perm : forall l, Permutation (sorter l) l.

    Theorem den_reorder : forall t, den (reorder_with sorter t) = den t.
    Proof.
      induction t as [v|n k|name fast cs IH|c t f IHc IHt IHf] using tree_ind2; try reflexivity.
      - cbn [reorder_with den].
        assert (E : map den (map (reorder_with sorter) cs) = map den cs).
        { rewrite map_map. induction IH as [|c0 cs0 H0 _ IHl]; cbn [map]; [reflexivity|]. rewrite H0, IHl. reflexivity. }
        destruct (is_boolop name) eqn:Hb.
        + rewrite <- E. apply comb_den_perm; [exact Hb|]. apply Permutation_map. apply sorter_perm.
        + rewrite E. reflexivity.
      - cbn [reorder_with den]. rewrite IHc, IHt, IHf. reflexivity.
    Qed.
  End R.

  (* ---------- fast marking ---------- *)
  Theorem den_fastp : forall t, den (fastp t) = den t.
  Proof.
    induction t as [v|n k|name fast cs IH|c t f IHc IHt IHf] using tree_ind2; try reflexivity.
    - cbn [fastp den]. f_equal. rewrite map_map. induction IH as [|c0 cs0 H0 _ IHl]; cbn [map]; [reflexivity|]. rewrite H0, IHl. reflexivity.
    - cbn [fastp den]. rewrite IHc, IHt, IHf. reflexivity.
  Qed.

  (* ---------- nesting reduction ---------- *)

  Lemma comb_den_bool name d ds : op_kind name = Some d ->
    comb_den name ds = if existsb (is_some_bool d) ds then Some (VBool d)
                       else if forallb (is_some_bool (negb d)) ds then Some (VBool (negb d)) else None.
  Proof. intros H. unfold comb_den. rewrite H. reflexivity. Qed.

  Lemma is_some_bool_comb d name ds : op_kind name = Some d ->
    is_some_bool d (comb_den name ds) = existsb (is_some_bool d) ds /\
    is_some_bool (negb d) (comb_den name ds) = negb (existsb (is_some_bool d) ds) && forallb (is_some_bool (negb d)) ds.
  Proof.
    intros Hk. rewrite (comb_den_bool _ _ _ Hk). destruct (existsb (is_some_bool d) ds).
    - cbn. rewrite Bool.eqb_reflx. destruct d; split; reflexivity.
    - destruct (forallb (is_some_bool (negb d)) ds); cbn; [rewrite Bool.eqb_reflx; destruct d; split; reflexivity|split; reflexivity].
  Qed.

  (* splicing the operands of a same-kind inner and/or into the outer one does not change the combination *)
  Lemma flatten_den ra : forall cs l, flatten ra cs = Some l ->
    forall d, (forall n, is_boolop n = true -> Bool.eqb (is_and n) ra = true -> op_kind n = Some d) ->
    existsb (is_some_bool d) (map den l) = existsb (is_some_bool d) (map den cs) /\
    forallb (is_some_bool (negb d)) (map den l) = forallb (is_some_bool (negb d)) (map den cs).
  Proof.
    induction cs as [|c cs IH]; intros l Hf d Hd; cbn [flatten] in Hf.
    - inversion Hf; subst. split; reflexivity.
    - destruct c as [v|n k|n fast gcs|c1 c2 c3].
      + destruct (flatten ra cs) as [l'|] eqn:E; [|discriminate]. inversion Hf; subst. destruct (IH l' eq_refl d Hd) as [H1 H2].
        cbn [map existsb forallb]. rewrite H1, H2. split; reflexivity.
      + destruct (flatten ra cs) as [l'|] eqn:E; [|discriminate]. inversion Hf; subst. destruct (IH l' eq_refl d Hd) as [H1 H2].
        cbn [map existsb forallb]. rewrite H1, H2. split; reflexivity.
      + destruct (is_boolop n && Bool.eqb (is_and n) ra) eqn:Eb; [|discriminate]. apply andb_prop in Eb. destruct Eb as [Eb1 Eb2].
        destruct (flatten ra cs) as [l'|] eqn:E; [|discriminate]. inversion Hf; subst. destruct (IH l' eq_refl d Hd) as [H1 H2].
        pose proof (Hd n Eb1 Eb2) as Hk. destruct (is_some_bool_comb d n (map den gcs) Hk) as [G1 G2].
        rewrite map_app, existsb_app, forallb_app. cbn [map existsb forallb den]. rewrite H1, H2, G1, G2.
        split; [reflexivity|].
        destruct (existsb (is_some_bool d) (map den gcs)) eqn:Ex; cbn [negb andb]; [|reflexivity].
        (* an operand equal to d is not equal to negb d *)
        assert (forallb (is_some_bool (negb d)) (map den gcs) = false).
        { apply existsb_exists in Ex. destruct Ex as [o [Ho Hd']]. apply not_true_is_false. intros Hall.
          rewrite forallb_forall in Hall. specialize (Hall o Ho). destruct o as [[| b | | | | | | | |]|]; try discriminate.
          cbn in *. apply Bool.eqb_prop in Hd'. apply Bool.eqb_prop in Hall. subst. destruct d; discriminate. }
        rewrite H. reflexivity.
      + discriminate.
  Qed.

  Lemma boolop_kind n ra : is_boolop n = true -> Bool.eqb (is_and n) ra = true -> op_kind n = Some (negb ra).
  Proof.
    intros Hb He. apply Bool.eqb_prop in He. subst ra. unfold op_kind, is_boolop in *.
    destruct (is_and n); [reflexivity|]. destruct (is_or n); [reflexivity|discriminate].
  Qed.

  Theorem den_nest : forall t, den (nest t) = den t.
  Proof.
    induction t as [v|n k|name fast cs IH|c t f IHc IHt IHf] using tree_ind2; try reflexivity.
    - cbn [nest].
      assert (E : map den (map nest cs) = map den cs).
      { rewrite map_map. induction IH as [|c0 cs0 H0 _ IHl]; cbn [map]; [reflexivity|]. rewrite H0, IHl. reflexivity. }
      destruct (is_boolop name) eqn:Hb; [|cbn [den]; rewrite E; reflexivity].
      destruct (flatten (is_and name) (map nest cs)) as [l|] eqn:Ef; [|cbn [den]; rewrite E; reflexivity].
      cbn [den]. rewrite <- E.
      assert (Hk : op_kind name = Some (negb (is_and name))) by (apply boolop_kind; [exact Hb|apply Bool.eqb_reflx]).
      rewrite !(comb_den_bool _ _ _ Hk).
      destruct (flatten_den _ _ _ Ef (negb (is_and name)) (fun n Hn He => boolop_kind n _ Hn He)) as [H1 H2].
      rewrite H1, H2. reflexivity.
    - cbn [nest den]. rewrite IHc, IHt, IHf. reflexivity.
  Qed.

  (* ---------- constant folding ---------- *)
  Variable cfg : config.

  Definition builtin_names_stateless : bool :=
    forallb (fun e => existsb (String.eqb (fst e)) builtin_stateless) builtin_table.
  Lemma builtin_names_stateless_ok : builtin_names_stateless = true.
  Proof. vm_compute. reflexivity. Qed.

  Lemma lookup_builtin_in name tbl o : lookup_builtin name tbl = Some o -> exists k, In (k, o) tbl /\ name = ss k.
  Proof.
    induction tbl as [|[k o'] tbl IH]; cbn [lookup_builtin]; [discriminate|].
    destruct (str_eqb name (ss k)) eqn:E.
    - intros H. inversion H; subst. exists k. split; [left; reflexivity|apply list_eqb_N_eq; exact E].
    - intros H. destruct (IH H) as [k' [Hin Hn]]. exists k'. split; [right; exact Hin|exact Hn].
  Qed.

  Lemma builtin_is_stateless name o : builtin name = Some o -> in_names name builtin_stateless = true.
  Proof.
    intros H. destruct (lookup_builtin_in _ _ _ H) as [k [Hin ->]].
    pose proof builtin_names_stateless_ok as Hs. unfold builtin_names_stateless in Hs. rewrite forallb_forall in Hs.
    specialize (Hs _ Hin). cbn [fst] in Hs. apply existsb_exists in Hs. destruct Hs as [k' [Hk' He]]. apply String.eqb_eq in He. subst k'.
    unfold in_names. apply existsb_exists. exists k. split; [exact Hk'|apply list_eqb_N_eq; reflexivity].
  Qed.

  (* the function the folder calls is the function the evaluator calls *)
  Lemma stateless_fn_apply name fn : stateless_fn custom cfg name = Some fn -> forall vs, fn vs = apply_op name vs.
  Proof.
    unfold stateless_fn, Tree.apply_op. intros H vs. destruct (in_names name builtin_stateless) eqn:Es.
    - destruct (builtin name); inversion H; reflexivity.
    - destruct (mem_str name (stateless cfg) && mem_str name (registered cfg)); [|discriminate]. inversion H; subst.
      destruct (builtin name) eqn:Eb; [|reflexivity]. rewrite (builtin_is_stateless _ _ Eb) in Es. discriminate.
  Qed.

  Lemma all_consts_den cs vs : all_consts cs = Some vs -> map den cs = map Some vs.
  Proof.
    revert vs. induction cs as [|c cs IH]; intros vs H; cbn [all_consts] in H; [inversion H; reflexivity|].
    destruct c; try discriminate. destruct (all_consts cs) eqn:E; [|discriminate]. inversion H; subst. cbn [map den]. rewrite (IH l eq_refl). reflexivity.
  Qed.

  Lemma all_some_map {A} (vs : list A) : all_some (map Some vs) = Some vs.
  Proof. induction vs; cbn; [reflexivity|]. rewrite IHvs. reflexivity. Qed.

  Lemma bool_scan_den d cs b : bool_scan d cs = Some (Some b) -> existsb (is_some_bool d) (map den cs) = true /\ b = d.
  Proof.
    induction cs as [|c cs IH]; cbn [bool_scan]; [discriminate|].
    destruct c as [v| | |]; try (intros H; destruct (IH H) as [H1 H2]; split; [cbn [map existsb]; rewrite H1; apply orb_true_r|exact H2]).
    destruct v as [|b0| | | | | | | |]; try discriminate. destruct (Bool.eqb b0 d) eqn:E.
    - intros H. inversion H; subst. apply Bool.eqb_prop in E. subst. split; [cbn; rewrite Bool.eqb_reflx; reflexivity|reflexivity].
    - intros H. destruct (IH H) as [H1 H2]. split; [cbn [map existsb]; rewrite H1; apply orb_true_r|exact H2].
  Qed.

  (* a successful application of an and/or to constant operands is the combination of their denotations *)
  Lemma boolop_apply_den name d vs r : op_kind name = Some d -> apply_op name vs = Ok r ->
    comb_den name (map Some vs) = Some r.
  Proof.
    intros Hk Ha. rewrite (comb_den_bool _ _ _ Hk). rewrite (boolop_result custom _ _ _ _ Hk Ha).
    assert (Hb : exists bs, vs = bools bs).
    { unfold Tree.apply_op in Ha. destruct d.
      - destruct (op_kind_or _ Hk) as [Ho _]. rewrite (is_or_builtin _ Ho) in Ha. cbn [apply_opcode] in Ha. destruct (logic_ok_inv _ _ _ Ha) as [bs [E _]]. exists bs. exact E.
      - rewrite (is_and_builtin _ (op_kind_and _ Hk)) in Ha. cbn [apply_opcode] in Ha. destruct (logic_ok_inv _ _ _ Ha) as [bs [E _]]. exists bs. exact E. }
    destruct Hb as [bs ->].
    assert (E1 : existsb (is_some_bool d) (map Some (bools bs)) = existsb (fun v => value_eqb v (VBool d)) (bools bs)).
    { clear. induction bs as [|b bs IHb]; [reflexivity|]. cbn [bools map existsb is_some_bool value_eqb]. fold (bools bs). rewrite IHb. reflexivity. }
    rewrite E1. destruct (existsb (fun v => value_eqb v (VBool d)) (bools bs)) eqn:Ex; [reflexivity|].
    assert (E2 : forallb (is_some_bool (negb d)) (map Some (bools bs)) = true).
    { clear -Ex. induction bs as [|b bs IHb]; [reflexivity|]. cbn [bools map existsb forallb is_some_bool value_eqb] in *. fold (bools bs) in *.
      apply orb_false_iff in Ex. destruct Ex as [E1 E2]. rewrite (IHb E2). destruct b, d; cbn in *; congruence. }
    rewrite E2. reflexivity.
  Qed.

  Lemma den_fold_node name fast cs : den (fst (fold_node custom cfg name fast cs)) = den (TOp name fast cs).
  Proof.
    unfold fold_node. destruct (stateless_fn custom cfg name) as [fn|] eqn:Es; [|reflexivity].
    assert (G : den (fst (match all_consts cs with
               | Some vs => match fn vs with Ok r => (TConst r, [(name, vs)]) | Err _ => (TOp name fast cs, [(name, vs)]) end
               | None => (TOp name fast cs, []) end)) = den (TOp name fast cs)).
    { destruct (all_consts cs) as [vs|] eqn:Ec; [|reflexivity]. destruct (fn vs) as [r|e] eqn:Ef; [|reflexivity].
      cbn [fst den]. rewrite (all_consts_den _ _ Ec). rewrite (stateless_fn_apply _ _ Es) in Ef.
      destruct (op_kind name) as [d|] eqn:Hk.
      - symmetry. eapply boolop_apply_den; eauto.
      - unfold comb_den. rewrite Hk, all_some_map, Ef. reflexivity. }
    destruct (op_kind name) as [d|] eqn:Hk; [|exact G].
    destruct (bool_scan d cs) as [[b|]|] eqn:Eb; [|exact G|reflexivity].
    destruct (bool_scan_den _ _ _ Eb) as [Hex ->]. cbn [fst den]. rewrite (comb_den_bool _ _ _ Hk), Hex. reflexivity.
  Qed.

  Theorem den_cfold : forall t, den (fst (cfold custom cfg t)) = den t.
  Proof.
    induction t as [v|n k|name fast cs IH|c t f IHc IHt IHf] using tree_ind2; try reflexivity.
    - cbn [cfold fst]. rewrite den_fold_node. cbn [den]. f_equal. rewrite !map_map.
      induction IH as [|c0 cs0 H0 _ IHl]; cbn [map]; [reflexivity|]. rewrite H0, IHl. reflexivity.
    - cbn [cfold fst den]. rewrite IHc, IHt, IHf. reflexivity.
  Qed.

  (* ---------- all passes, any order, any subset ---------- *)

  Lemma den_run_pass name t : den (run_pass custom cfg name t) = den t.
  Proof.
    unfold run_pass. destruct (String.eqb name "constant_folding"); [apply den_cfold|].
    destruct (String.eqb name "reduce_nesting"); [apply den_nest|].
    destruct (String.eqb name "fast_evaluation"); [apply den_fastp|].
    destruct (String.eqb name "reordering"); [|reflexivity].
    apply den_reorder. intros l. apply Reorder.sort_perm.
  Qed.

  Theorem den_optimize t : den (optimize custom cfg t) = den t.
  Proof.
    unfold optimize. generalize optimizations_order as ps. intros ps. revert t.
    induction ps as [|p ps IH]; intros t; cbn [fold_left]; [reflexivity|].
    rewrite IH. destruct (pass_on cfg p); [apply den_run_pass|reflexivity].
  Qed.
End D.

(* ================= left-to-right evaluation refines the denotation ================= *)
Section Refine.
  Variable fetch : str -> Z -> res value.
  Variable custom : str -> list value -> res value.
  Notation den := (den fetch custom).
  Notation comb_den := (comb_den custom).
  Notation sem := (sem fetch custom).
  Notation sem_args := (sem_args fetch custom).

  Definition boolish (c : tree) : Prop := den c = None \/ exists b, den c = Some (VBool b).

  (* the property's domain, semantically: every operand of an and/or is boolean-valued or undefined *)
  Fixpoint wt (t : tree) : Prop :=
    match t with
    | TConst _ | TVar _ _ => True
    | TOp name _ cs =>
      (fix all (l : list tree) : Prop := match l with [] => True | c :: l' => wt c /\ all l' end) cs /\
      (forall d, op_kind name = Some d -> Forall boolish cs)
    | TIf c t f => wt c /\ wt t /\ wt f
    end.

  Lemma wt_op name fast cs : wt (TOp name fast cs) <-> Forall wt cs /\ (forall d, op_kind name = Some d -> Forall boolish cs).
  Proof.
    cbn [wt]. split; intros [H1 H2]; (split; [|exact H2]); clear H2.
    - induction cs as [|c cs IH]; [constructor|]. destruct H1. constructor; auto.
    - induction H1 as [|c cs Hc _ IH]; [exact I|]. split; assumption.
  Qed.

  Definition refines (t : tree) : Prop := forall v, snd (sem t) = Ok v -> den t = Some v.

  Lemma leaf_refines t : is_leaf t = true -> forall v, snd (leaf_val fetch t) = Ok v -> den t = Some v.
  Proof. destruct t as [c|n k| |]; try discriminate; intros _ w H; cbn in *; [congruence|]. destruct (fetch n k); [congruence|discriminate]. Qed.

  Lemma comb_den_snoc name acc v ds : comb_den name (map Some (rev acc) ++ Some v :: ds) = comb_den name (map Some (rev (v :: acc)) ++ ds).
  Proof. cbn [rev]. rewrite map_app, <- app_assoc. reflexivity. Qed.

  Lemma args_refine name : forall cs, Forall refines cs -> (forall d, op_kind name = Some d -> Forall boolish cs) ->
    forall acc v, (forall d, op_kind name = Some d -> Forall (fun a => a = VBool (negb d)) acc) ->
    snd (sem_args name cs acc) = Ok v -> comb_den name (map Some (rev acc) ++ map den cs) = Some v.
  Proof.
    induction 1 as [|c cs' Hc _ IH]; intros Hb acc v Hacc H.
    - cbn [Tree.sem_args snd map] in *. rewrite app_nil_r. destruct (op_kind name) as [d|] eqn:Hk.
      + eapply boolop_apply_den; eauto.
      + unfold OptSound.comb_den. rewrite Hk, all_some_map, H. reflexivity.
    - cbn [Tree.sem_args] in H. destruct (sem c) as [tr [vc|e]] eqn:Ec; [|discriminate]. cbv zeta in H.
      assert (Hd : den c = Some vc) by (apply Hc; rewrite Ec; reflexivity).
      cbn [map]. rewrite Hd.
      assert (Hb' : forall d, op_kind name = Some d -> Forall boolish cs') by (intros d Hk; specialize (Hb d Hk); inversion Hb; assumption).
      destruct (op_kind name) as [d|] eqn:Hk.
      + assert (Hbool : exists b, vc = VBool b).
        { specialize (Hb d eq_refl). inversion Hb as [|? ? [Hn|[b Hsb]] _]; subst; [congruence|]. exists b. congruence. }
        destruct Hbool as [b ->]. cbn [operand_result] in H.
        destruct (Bool.eqb b d) eqn:Ebd.
        * cbn [orb snd] in H. inversion H; subst. apply Bool.eqb_prop in Ebd. subst b.
          rewrite (comb_den_bool custom _ _ _ Hk). rewrite existsb_app. cbn [existsb is_some_bool]. rewrite Bool.eqb_reflx, orb_true_r. reflexivity.
        * cbn [orb] in H.
          assert (Eb : b = negb d) by (destruct b, d; cbn in *; congruence).
          destruct (match cs' with [] => can_be_last c && (2 <=? lenZ (c :: cs') + lenZ acc) | _ :: _ => false end) eqn:El.
          -- cbn [snd] in H. inversion H; subst v. destruct cs' as [|c2 cs'']; [|discriminate]. cbn [map].
             rewrite (comb_den_bool custom _ _ _ Hk).
             assert (E1 : existsb (is_some_bool d) (map Some (rev acc) ++ [Some (VBool b)]) = false).
             { rewrite existsb_app. cbn [existsb is_some_bool]. rewrite Ebd. cbn [orb]. rewrite orb_false_r.
               apply not_true_is_false. intros Hex. apply existsb_exists in Hex. destruct Hex as [o [Ho Hod]].
               apply in_map_iff in Ho. destruct Ho as [a [<- Ha]]. apply in_rev in Ha.
               specialize (Hacc d eq_refl). rewrite Forall_forall in Hacc. rewrite (Hacc a Ha) in Hod. cbn in Hod. destruct d; discriminate. }
             assert (E2 : forallb (is_some_bool (negb d)) (map Some (rev acc) ++ [Some (VBool b)]) = true).
             { rewrite forallb_app. cbn [forallb is_some_bool]. subst b. rewrite Bool.eqb_reflx. cbn [andb]. rewrite andb_true_r.
               apply forallb_forall. intros o Ho. apply in_map_iff in Ho. destruct Ho as [a [<- Ha]]. apply in_rev in Ha.
               specialize (Hacc d eq_refl). rewrite Forall_forall in Hacc. rewrite (Hacc a Ha). cbn. apply Bool.eqb_reflx. }
             rewrite E1, E2. subst b. reflexivity.
          -- unfold pre in H. cbn [snd] in H. rewrite comb_den_snoc. apply IH; [exact Hb'| |exact H].
             intros d' Hd'. inversion Hd'; subst d'. constructor; [rewrite Eb; reflexivity|apply Hacc; reflexivity].
      + cbn [operand_result] in H. unfold pre in H. cbn [snd] in H. rewrite comb_den_snoc. apply IH; [exact Hb'|discriminate|exact H].
  Qed.

  Theorem sem_refines_den : forall t, wt t -> refines t.
  Proof.
    induction t as [v|n k|name fast cs IH|c t f IHc IHt IHf] using tree_ind2; intros Hw v0 H.
    - cbn in *. congruence.
    - cbn in *. destruct (fetch n k); [congruence|discriminate].
    - apply wt_op in Hw. destruct Hw as [Hw1 Hw2]. destruct (fast_shape fast cs) eqn:Hfs.
      + destruct (fast_shape_inv _ _ Hfs) as (a & b & -> & Ha & Hb & ->).
        rewrite (sem_fast_eq _ _ _ _ _ Hfs) in H. unfold sem_fast in H.
        destruct (leaf_val fetch a) as [t1 [va|e1]] eqn:Ea; [|discriminate].
        destruct (leaf_val fetch b) as [t2 [vb|e2]] eqn:Eb; [|discriminate]. cbn [snd] in H.
        cbn [OptSound.den map]. rewrite (leaf_refines a Ha va), (leaf_refines b Hb vb) by (rewrite ?Ea, ?Eb; reflexivity).
        destruct (op_kind name) as [d|] eqn:Hk.
        * apply (boolop_apply_den custom name d [va; vb] v0 Hk H).
        * unfold OptSound.comb_den. rewrite Hk. cbn [all_some]. rewrite H. reflexivity.
      + rewrite (sem_op _ _ _ _ _ Hfs) in H. cbn [OptSound.den].
        assert (Hr : Forall refines cs).
        { clear Hfs H Hw2. induction IH as [|c0 cs0 H0 _ IHl]; [constructor|]. inversion Hw1; subst. constructor; auto. }
        pose proof (args_refine name cs Hr Hw2 [] v0 ltac:(intros; constructor) H) as G. cbn [rev map app] in G. exact G.
    - destruct Hw as (Hwc & Hwt & Hwf). cbn [Tree.sem] in H. cbn [OptSound.den].
      destruct (sem c) as [tr [vc|e]] eqn:Ec; [|discriminate].
      rewrite (IHc Hwc vc) by (rewrite Ec; reflexivity).
      destruct vc as [z|[]|s|li|ls|si|ss'| | |o]; try discriminate; unfold pre in H; cbn [snd] in H; [apply IHt|apply IHf]; assumption.
  Qed.

  (* ---------- two configurations that both return a value return the same one ---------- *)
  Theorem optimized_values_agree cfgA cfgB t a b :
    wt (optimize custom cfgA t) -> wt (optimize custom cfgB t) ->
    snd (sem (optimize custom cfgA t)) = Ok a -> snd (sem (optimize custom cfgB t)) = Ok b -> a = b.
  Proof.
    intros WA WB HA HB.
    pose proof (sem_refines_den _ WA _ HA) as DA. pose proof (sem_refines_den _ WB _ HB) as DB.
    rewrite den_optimize in DA, DB. congruence.
  Qed.
End Refine.

(* ================= the domain is preserved by every pass ================= *)
Section WtPreserved.
  Variable fetch : str -> Z -> res value.
  Variable custom : str -> list value -> res value.
  Variable cfg : config.
  Notation den := (den fetch custom).
  Notation wt := (wt fetch custom).
  Notation boolish := (boolish fetch custom).

  Lemma boolish_den c c' : den c' = den c -> boolish c -> boolish c'.
  Proof. unfold OptSound.boolish. intros ->. auto. Qed.

  Lemma Forall_map_boolish (g : tree -> tree) cs : (forall c, den (g c) = den c) -> Forall boolish cs -> Forall boolish (map g cs).
  Proof. intros Hg H. induction H; cbn [map]; constructor; [eapply boolish_den; eauto|assumption]. Qed.

  Lemma Forall_map_wt (g : tree -> tree) cs : Forall (fun c => wt c -> wt (g c)) cs -> Forall wt cs -> Forall wt (map g cs).
  Proof. intros Hg H. induction Hg; inversion H; subst; cbn [map]; constructor; auto. Qed.

  Lemma wt_fastp : forall t, wt t -> wt (fastp t).
  Proof.
    induction t as [v|n k|name fast cs IH|c t f IHc IHt IHf] using tree_ind2; intros Hw; try exact I.
    - cbn [fastp]. apply wt_op in Hw. destruct Hw as [H1 H2]. apply wt_op. split.
      + apply Forall_map_wt; assumption.
      + intros d Hk. apply Forall_map_boolish; [apply den_fastp|eauto].
    - destruct Hw as (?&?&?). cbn [fastp OptSound.wt]. auto.
  Qed.

  Lemma wt_reorder sorter : (forall l, Permutation (sorter l) l) -> forall t, wt t -> wt (reorder_with sorter t).
  Proof.
    intros Hp. induction t as [v|n k|name fast cs IH|c t f IHc IHt IHf] using tree_ind2; intros Hw; try exact I.
    - cbn [reorder_with]. apply wt_op in Hw. destruct Hw as [H1 H2].
      assert (W : Forall wt (map (reorder_with sorter) cs)) by (apply Forall_map_wt; assumption).
      assert (Bh : forall d, op_kind name = Some d -> Forall boolish (map (reorder_with sorter) cs))
        by (intros d Hk; apply Forall_map_boolish; [apply den_reorder; exact Hp|eauto]).
      apply wt_op. destruct (is_boolop name).
      + split; [|intros d Hk]; (apply Forall_forall; intros x Hx; apply (Permutation_in _ (Hp _)) in Hx).
        * rewrite Forall_forall in W. auto.
        * specialize (Bh d Hk). rewrite Forall_forall in Bh. auto.
      + split; assumption.
    - destruct Hw as (?&?&?). cbn [reorder_with OptSound.wt]. auto.
  Qed.

  Lemma flatten_wt ra : forall cs l, flatten ra cs = Some l ->
    (forall n, is_boolop n = true -> Bool.eqb (is_and n) ra = true -> exists d, op_kind n = Some d) ->
    Forall wt cs -> Forall boolish cs -> Forall wt l /\ Forall boolish l.
  Proof.
    induction cs as [|c cs IH]; intros l Hf Hk Hw Hb; cbn [flatten] in Hf.
    - inversion Hf; subst. split; constructor.
    - inversion Hw as [|? ? Hwc Hw']; subst. inversion Hb as [|? ? Hbc Hb']; subst.
      destruct c as [v|n k|n fast gcs|c1 c2 c3].
      + destruct (flatten ra cs) as [l'|] eqn:E; [|discriminate]. inversion Hf; subst. destruct (IH l' eq_refl Hk Hw' Hb'). split; constructor; assumption.
      + destruct (flatten ra cs) as [l'|] eqn:E; [|discriminate]. inversion Hf; subst. destruct (IH l' eq_refl Hk Hw' Hb'). split; constructor; assumption.
      + destruct (is_boolop n && Bool.eqb (is_and n) ra) eqn:Eb; [|discriminate]. apply andb_prop in Eb. destruct Eb as [Eb1 Eb2].
        destruct (flatten ra cs) as [l'|] eqn:E; [|discriminate]. inversion Hf; subst. destruct (IH l' eq_refl Hk Hw' Hb') as [G1 G2].
        apply wt_op in Hwc. destruct Hwc as [Hg1 Hg2]. destruct (Hk n Eb1 Eb2) as [d Hd].
        split; apply Forall_app; split; auto. eapply Hg2; eauto.
      + discriminate.
  Qed.

  Lemma wt_nest : forall t, wt t -> wt (nest t).
  Proof.
    induction t as [v|n k|name fast cs IH|c t f IHc IHt IHf] using tree_ind2; intros Hw; try exact I.
    - cbn [nest]. apply wt_op in Hw. destruct Hw as [H1 H2].
      assert (W : Forall wt (map nest cs)) by (apply Forall_map_wt; assumption).
      assert (Bh : forall d, op_kind name = Some d -> Forall boolish (map nest cs))
        by (intros d Hk; apply Forall_map_boolish; [apply den_nest|eauto]).
      destruct (is_boolop name) eqn:Hb; [|apply wt_op; split; assumption].
      destruct (flatten (is_and name) (map nest cs)) as [l|] eqn:Ef; [|apply wt_op; split; assumption].
      assert (Hk : op_kind name = Some (negb (is_and name))) by (apply boolop_kind; [exact Hb|apply Bool.eqb_reflx]).
      destruct (flatten_wt _ _ _ Ef (fun n Hn He => ex_intro _ _ (boolop_kind n _ Hn He)) W (Bh _ Hk)) as [G1 G2].
      apply wt_op. split; [exact G1|intros; exact G2].
    - destruct Hw as (?&?&?). cbn [nest OptSound.wt]. auto.
  Qed.

  Lemma wt_cfold : forall t, wt t -> wt (fst (cfold custom cfg t)).
  Proof.
    induction t as [v|n k|name fast cs IH|c t f IHc IHt IHf] using tree_ind2; intros Hw; try exact I.
    - cbn [cfold fst]. apply wt_op in Hw. destruct Hw as [H1 H2].
      assert (Wn : wt (TOp name fast (map fst (map (cfold custom cfg) cs)))).
      { rewrite map_map. apply wt_op. split.
        - apply Forall_map_wt; assumption.
        - intros d Hk. apply Forall_map_boolish; [intros; apply den_cfold|eauto]. }
      revert Wn. generalize (map fst (map (cfold custom cfg) cs)) as cs'. intros cs' Wn.
      unfold fold_node. destruct (stateless_fn custom cfg name) as [fn|]; [|exact Wn].
      assert (G : wt (fst (match all_consts cs' with
                 | Some vs => match fn vs with Ok r => (TConst r, [(name, vs)]) | Err _ => (TOp name fast cs', [(name, vs)]) end
                 | None => (TOp name fast cs', []) end))).
      { destruct (all_consts cs'); [|exact Wn]. destruct (fn l); [exact I|exact Wn]. }
      destruct (op_kind name) as [d|]; [|exact G]. destruct (bool_scan d cs') as [[b|]|]; [exact I|exact G|exact Wn].
    - destruct Hw as (?&?&?). cbn [cfold fst OptSound.wt]. auto.
  Qed.

  Theorem wt_optimize t : wt t -> wt (optimize custom cfg t).
  Proof.
    unfold optimize. generalize optimizations_order as ps. intros ps. revert t.
    induction ps as [|p ps IH]; intros t Hw; cbn [fold_left]; [exact Hw|].
    apply IH. destruct (pass_on cfg p); [|exact Hw]. unfold run_pass.
    destruct (String.eqb p "constant_folding"); [apply wt_cfold; exact Hw|].
    destruct (String.eqb p "reduce_nesting"); [apply wt_nest; exact Hw|].
    destruct (String.eqb p "fast_evaluation"); [apply wt_fastp; exact Hw|].
    destruct (String.eqb p "reordering"); [|exact Hw].
    apply wt_reorder; [intros l; apply Reorder.sort_perm|exact Hw].
  Qed.
End WtPreserved.

(* C02, first sentence: any two configurations (option subsets, cost maps, stateless declarations) that both
   return a value for a binding return the same value — on expressions whose and/or operands are boolean *)
Theorem configurations_agree fetch custom cfgA cfgB t a b : wt fetch custom t ->
  snd (sem fetch custom (optimize custom cfgA t)) = Ok a ->
  snd (sem fetch custom (optimize custom cfgB t)) = Ok b -> a = b.
Proof.
  intros W. apply optimized_values_agree; apply wt_optimize; exact W.
Qed.
