(* PrefixProofs.v — the prefix parser (parseExpression with its leaf parsers) inverts the token-level printing of a
   tree: what Dump prints (operator heads, variables by name, literals, lists in parentheses) reads back as the same
   tree with the fast marks cleared. Used by C13 (Dump round trip) and C15 (the prefix form of an infix expression). *)
Require Import Base Opcode Tables Ops Tree Opt Flat Run CompFacts Directives Lexer Parser.
From Coq Require Import ZifyBool.
Open Scope Z_scope.
Open Scope list_scope.

(* the parsed tree never carries fast marks *)
Fixpoint strip (t : tree) : tree :=
  match t with
  | TOp name _ cs => TOp name false (map strip cs)
  | TIf c t f => TIf (strip c) (strip t) (strip f)
  | _ => t
  end.

Section P.
  Variable c : pconf.
  (* the decimal text of an integer: any printer that strconv.ParseInt inverts (Print.show_Z is compared with
     Go's on every Dump) *)
  Variable show : Z -> str.
  Hypothesis show_ok : forall z, in_i64 z = true -> parse_int (show z) = Some z.

  Definition vtoks (v : value) : list tok :=
    match v with
    | VInt z => [KInt (show z)]
    | VBool true => [KIdent (ss "true")]
    | VBool false => [KIdent (ss "false")]
    | VStr s => [KStr s]
    | VIntL l => KLParen :: map (fun z => KInt (show z)) l ++ [KRParen]
    | VStrL l => KLParen :: map KStr l ++ [KRParen]
    | _ => []
    end.

  Fixpoint ttoks (t : tree) : list tok :=
    match t with
    | TConst v => vtoks v
    | TVar n _ => [KIdent n]
    | TOp name _ cs => KLParen :: KIdent name :: flat_map ttoks cs ++ [KRParen]
    | TIf a b d => KLParen :: KIdent (ss keyword_if) :: ttoks a ++ ttoks b ++ ttoks d ++ [KRParen]
    end.

  Definition vwf (v : value) : Prop :=
    match v with
    | VInt z => in_i64 z = true
    | VBool _ | VStr _ | VStrL _ => True
    | VIntL l => l <> [] /\ Forall (fun z => in_i64 z = true) l
    | _ => False
    end.

  Fixpoint twf (t : tree) : Prop :=
    match t with
    | TConst v => vwf v
    | TVar n k => builtin_const n = None /\ assoc n (p_consts c) = None /\ assoc n (p_vars c) = Some k
    | TOp name _ cs =>
      is_keyword name = false /\ is_operator c name = true /\
      (fix all (l : list tree) : Prop := match l with [] => True | a :: l' => twf a /\ all l' end) cs
    | TIf a b d => twf a /\ twf b /\ twf d
    end.

  Lemma twf_op name fast cs : twf (TOp name fast cs) <-> is_keyword name = false /\ is_operator c name = true /\ Forall twf cs.
  Proof.
    cbn [twf]. assert (E : forall l, (fix all (l : list tree) : Prop := match l with [] => True | a :: l' => twf a /\ all l' end) l <-> Forall twf l).
    { induction l as [|a l IH]; [split; auto|]. rewrite IH. split; [intros [H1 H2]; constructor; assumption|intros H; inversion H; auto]. }
    rewrite E. tauto.
  Qed.

  (* ---------- leaves ---------- *)

  Lemma collect_ints l : forall rest acc, Forall (fun z => in_i64 z = true) l ->
    collect_list true is_rparen (map (fun z => KInt (show z)) l ++ KRParen :: rest) acc
      = Some (rev acc ++ map show l, Some rest).
  Proof.
    induction l as [|z l IH]; intros rest acc H; cbn [map app collect_list is_rparen].
    - rewrite app_nil_r. reflexivity.
    - inversion H; subst. rewrite IH by assumption. cbn [rev]. rewrite <- app_assoc. reflexivity.
  Qed.

  Lemma collect_strs l : forall rest acc,
    collect_list false is_rparen (map KStr l ++ KRParen :: rest) acc = Some (rev acc ++ l, Some rest).
  Proof.
    induction l as [|z l IH]; intros rest acc; cbn [map app collect_list is_rparen].
    - rewrite app_nil_r. reflexivity.
    - rewrite IH. cbn [rev]. rewrite <- app_assoc. reflexivity.
  Qed.

  Lemma all_parse_show l : Forall (fun z => in_i64 z = true) l -> all_parse_int (map show l) = Some l.
  Proof.
    induction 1 as [|z l Hz _ IH]; cbn [map all_parse_int]; [reflexivity|]. rewrite (show_ok z Hz), IH. reflexivity.
  Qed.

  Lemma leaf_const v rest : vwf v -> vtoks v <> [] /\ leaf c false (vtoks v ++ rest) = LOk (TConst v) rest.
  Proof.
    destruct v as [z|b|s|li|ls|si|ss'| | |o]; cbn [vwf]; intros H; try contradiction.
    - split; [discriminate|]. cbn [vtoks app leaf]. rewrite (show_ok z H). reflexivity.
    - split; [destruct b; discriminate|]. destruct b; reflexivity.
    - split; [discriminate|]. reflexivity.
    - destruct H as [Hn Hl]. split; [discriminate|]. destruct li as [|z li]; [congruence|].
      cbn [vtoks map app leaf parse_list is_lparen is_rparen tok_is_int].
      rewrite <- app_assoc. cbn [app].
      change (KInt (show z) :: map (fun z0 => KInt (show z0)) li ++ KRParen :: rest)
        with (map (fun z0 => KInt (show z0)) (z :: li) ++ KRParen :: rest).
      rewrite (collect_ints (z :: li) rest [] Hl). cbn [rev app]. rewrite (all_parse_show _ Hl). reflexivity.
    - split; [discriminate|]. destruct ls as [|s ls].
      + reflexivity.
      + cbn [vtoks map app leaf parse_list is_lparen is_rparen tok_is_int tok_is_str].
        rewrite <- app_assoc. cbn [app].
        change (KStr s :: map KStr ls ++ KRParen :: rest) with (map KStr (s :: ls) ++ KRParen :: rest).
        rewrite (collect_strs (s :: ls) rest []). reflexivity.
  Qed.

  Lemma leaf_var n k rest : twf (TVar n k) -> leaf c false (KIdent n :: rest) = LOk (TVar n k) rest.
  Proof. intros (H1 & H2 & H3). cbn [leaf]. rewrite H1, H2, H3. reflexivity. Qed.

  Lemma leaf_open name rest : leaf c false (KLParen :: KIdent name :: rest) = LNone.
  Proof. reflexivity. Qed.

  (* no leaf starts with a closing parenthesis *)
  Lemma ttoks_head t : twf t -> exists t0 more, ttoks t = t0 :: more /\ t0 <> KRParen.
  Proof.
    destruct t as [v|n k|name fast cs|a b d]; intros H.
    - destruct v as [z|[]|s|li|ls|si|ss'| | |o]; cbn [twf vwf] in H; try contradiction; cbn [ttoks vtoks]; eexists _, _; (split; [reflexivity|discriminate]).
    - eexists _, _. split; [reflexivity|discriminate].
    - eexists _, _. split; [reflexivity|discriminate].
    - eexists _, _. split; [reflexivity|discriminate].
  Qed.

  (* ---------- parseExpression ---------- *)

  Definition children_loop (f : nat) (car : str) :=
    fix children (k : nat) (ts : list tok) (acc : list tree) : option (tree * list tok) :=
      match k with
      | O => None
      | S k' =>
        match ts with
        | [] => None
        | KRParen :: rest' => match build_parent c car (rev acc) with Some t => Some (t, rest') | None => None end
        | _ => match parse_expr c false f ts with
               | Some (ch, rest') => children k' rest' (ch :: acc)
               | None => None
               end
        end
      end.

  Lemma parse_expr_open f car rest :
    parse_expr c false (S f) (KLParen :: KIdent car :: rest) = children_loop f car (S (length rest)) rest [].
  Proof. reflexivity. Qed.

  Definition parses (t : tree) : Prop :=
    forall f rest, (length (ttoks t) < f)%nat -> parse_expr c false f (ttoks t ++ rest) = Some (strip t, rest).

  Lemma children_ok f car cs : Forall twf cs -> Forall parses cs -> (length (flat_map ttoks cs) < f)%nat ->
    forall k acc rest t, (length cs < k)%nat -> build_parent c car (rev acc ++ map strip cs) = Some t ->
      children_loop f car k (flat_map ttoks cs ++ KRParen :: rest) acc = Some (t, rest).
  Proof.
    intros Hw HP. revert Hw. induction HP as [|a cs Ha _ IH]; intros Hw Hf k acc rest t Hk Hb.
    - cbn [flat_map app map] in *. rewrite app_nil_r in Hb. destruct k; [cbn in Hk; lia|]. cbn [children_loop]. rewrite Hb. reflexivity.
    - inversion Hw as [|? ? Hwa Hwcs]; subst. cbn [flat_map] in *. rewrite <- app_assoc. rewrite app_length in Hf.
      destruct k as [|k]; [lia|]. cbn [length] in Hk.
      destruct (ttoks_head a Hwa) as (t0 & more & E0 & Hne).
      assert (Hstep : children_loop f car (S k) (ttoks a ++ flat_map ttoks cs ++ KRParen :: rest) acc
                      = children_loop f car k (flat_map ttoks cs ++ KRParen :: rest) (strip a :: acc)).
      { cbn [children_loop]. rewrite (Ha f (flat_map ttoks cs ++ KRParen :: rest)) by lia.
        rewrite E0. cbn [app]. destruct t0; try reflexivity. congruence. }
      rewrite Hstep. apply IH; [exact Hwcs|lia|lia|].
      cbn [rev map] in *. rewrite <- app_assoc. exact Hb.
  Qed.

  Lemma flat_len (cs : list tree) : (length cs <= length (flat_map ttoks cs) + 0)%nat -> True.
  Proof. trivial. Qed.

  Lemma flat_map_len cs : Forall twf cs -> (length cs <= length (flat_map ttoks cs))%nat.
  Proof.
    induction 1 as [|a cs Ha _ IH]; [cbn; lia|]. cbn [flat_map length]. rewrite app_length.
    destruct (ttoks_head a Ha) as (t0 & more & E0 & _). rewrite E0. cbn [length]. lia.
  Qed.

  Theorem parses_all : forall t, twf t -> parses t.
  Proof.
    induction t as [v|n k|name fast cs IH|a b d IHa IHb IHd] using tree_ind2; intros Hw f rest Hf.
    - destruct f as [|f]; [lia|]. cbn [parse_expr ttoks strip]. destruct (leaf_const v rest Hw) as [_ ->]. reflexivity.
    - destruct f as [|f]; [lia|]. cbn [parse_expr ttoks strip app]. rewrite (leaf_var n k rest Hw). reflexivity.
    - apply twf_op in Hw. destruct Hw as (Hk & Ho & Hcs). cbn [ttoks strip] in *. cbn [app length] in *.
      destruct f as [|f]; [lia|]. rewrite <- app_assoc. cbn [app]. rewrite parse_expr_open.
      rewrite app_length in Hf. cbn [length] in Hf.
      assert (HP : Forall parses cs).
      { clear -IH Hcs. induction IH as [|x l Hx _ IHl]; [constructor|]. inversion Hcs; subst. constructor; auto. }
      apply (children_ok f name cs Hcs HP); [lia| |].
      + pose proof (flat_map_len cs Hcs). rewrite app_length. cbn [length]. lia.
      + cbn [rev app]. unfold build_parent. rewrite Hk, Ho. reflexivity.
    - destruct Hw as (Hwa & Hwb & Hwd). cbn [ttoks strip] in *. cbn [app length] in *.
      destruct f as [|f]; [lia|]. rewrite <- !app_assoc. cbn [app]. rewrite parse_expr_open.
      rewrite !app_length in Hf. cbn [length] in Hf.
      change (ttoks a ++ ttoks b ++ ttoks d ++ KRParen :: rest) with (ttoks a ++ ttoks b ++ ttoks d ++ [] ++ KRParen :: rest).
      replace (ttoks a ++ ttoks b ++ ttoks d ++ [] ++ KRParen :: rest) with (flat_map ttoks [a; b; d] ++ KRParen :: rest)
        by (cbn [flat_map]; rewrite <- !app_assoc; reflexivity).
      apply (children_ok f (ss keyword_if) [a; b; d]).
      + repeat constructor; assumption.
      + repeat constructor; [apply IHa|apply IHb|apply IHd]; assumption.
      + cbn [flat_map]. rewrite !app_length. cbn [length]. lia.
      + assert (H3 : Forall twf [a; b; d]) by (repeat constructor; assumption).
        pose proof (flat_map_len [a; b; d] H3) as Hl. rewrite app_length. cbn [length] in *. lia.
      + reflexivity.
  Qed.

  (* printed trees contain no comment token *)
  Lemma drop_comments_app a b : drop_comments (a ++ b) = drop_comments a ++ drop_comments b.
  Proof. unfold drop_comments. apply filter_app. Qed.

  Lemma ttoks_nocomment : forall t, drop_comments (ttoks t) = ttoks t.
  Proof.
    assert (Hm : forall (A : Type) (g : A -> tok) l, (forall x, is_comment (g x) = false) -> drop_comments (map g l) = map g l).
    { intros A g l Hg. induction l as [|x l IH]; [reflexivity|]. cbn [map]. unfold drop_comments in *. cbn [filter]. rewrite Hg. cbn [negb]. rewrite IH. reflexivity. }
    induction t as [v|n k|name fast cs IH|a b d IHa IHb IHd] using tree_ind2.
    - destruct v as [z|[]|s|li|ls|si|ss'| | |o]; try reflexivity; cbn [ttoks vtoks].
      + change (KLParen :: map (fun z => KInt (show z)) li ++ [KRParen]) with ([KLParen] ++ map (fun z => KInt (show z)) li ++ [KRParen]).
        rewrite !drop_comments_app, Hm by reflexivity. reflexivity.
      + change (KLParen :: map KStr ls ++ [KRParen]) with ([KLParen] ++ map KStr ls ++ [KRParen]).
        rewrite !drop_comments_app, Hm by reflexivity. reflexivity.
    - reflexivity.
    - cbn [ttoks]. change (KLParen :: KIdent name :: flat_map ttoks cs ++ [KRParen]) with ([KLParen; KIdent name] ++ flat_map ttoks cs ++ [KRParen]).
      rewrite !drop_comments_app. f_equal. f_equal.
      induction IH as [|c0 cs' Hc _ IHl]; [reflexivity|]. cbn [flat_map]. rewrite drop_comments_app, Hc, IHl. reflexivity.
    - cbn [ttoks]. change (KLParen :: KIdent (ss keyword_if) :: ttoks a ++ ttoks b ++ ttoks d ++ [KRParen])
        with ([KLParen; KIdent (ss keyword_if)] ++ ttoks a ++ ttoks b ++ ttoks d ++ [KRParen]).
      rewrite !drop_comments_app, IHa, IHb, IHd. reflexivity.
  Qed.

  Theorem parse_prefix_correct t : twf t -> parse_prefix c false (ttoks t) = Some (strip t).
  Proof.
    intros Hw. unfold parse_prefix. pose proof (parses_all t Hw (S (length (ttoks t))) [] ltac:(lia)) as H.
    rewrite app_nil_r in H. rewrite H. reflexivity.
  Qed.
End P.
