(* OpsDate.v — civil date/time -> Unix seconds is strictly monotone (C19, date half). *)
Require Import Base Opcode Tables Ops.
From Coq Require Import ZifyBool.
Open Scope Z_scope.
Ltac Zify.zify_post_hook ::= Z.div_mod_to_equations.

Definition valid_date (y m d : Z) : Prop := 1 <= m <= 12 /\ 1 <= d <= days_in m y.

Definition date_lt (y1 m1 d1 y2 m2 d2 : Z) : Prop :=
  y1 < y2 \/ (y1 = y2 /\ (m1 < m2 \/ (m1 = m2 /\ d1 < d2))).

Definition gdays (y : Z) : Z := 365 * y + y / 4 - y / 100 + y / 400.

Lemma dfc_janfeb y m d : m <= 2 -> days_from_civil y m d = gdays (y - 1) + (153 * (m + 9) + 2) / 5 + d - 1 - 719468.
Proof. intros H. unfold days_from_civil, gdays. destruct (Z.leb_spec m 2); lia. Qed.
Lemma dfc_march y m d : 2 < m -> days_from_civil y m d = gdays y + (153 * (m - 3) + 2) / 5 + d - 1 - 719468.
Proof. intros H. unfold days_from_civil, gdays. destruct (Z.leb_spec m 2); lia. Qed.

Lemma days_in_feb y : days_in 2 y = if is_leap y then 29 else 28.
Proof. reflexivity. Qed.
Lemma days_in_other m y : m <> 2 -> days_in m y <= 31 /\ (m = 4 \/ m = 6 \/ m = 9 \/ m = 11 -> days_in m y = 30).
Proof.
  intros H. unfold days_in. destruct (Z.eqb_spec m 2); [contradiction|].
  destruct (Z.eqb_spec m 4), (Z.eqb_spec m 6), (Z.eqb_spec m 9), (Z.eqb_spec m 11); cbn [orb]; lia.
Qed.
Lemma days_in_le31 m y : days_in m y <= 31.
Proof. unfold days_in. destruct (m =? 2); [destruct (is_leap y); lia|]. destruct ((m =? 4) || (m =? 6) || (m =? 9) || (m =? 11)); lia. Qed.

Lemma gdays_step y : gdays (y - 1) + 365 <= gdays y /\ (is_leap y = true -> gdays (y - 1) + 366 = gdays y).
Proof. unfold gdays, is_leap. split; [lia|]. intros E. lia. Qed.

(* same year, consecutive months *)
Lemma month_step y m d : 1 <= m < 12 -> 1 <= d <= days_in m y -> days_from_civil y m d < days_from_civil y (m + 1) 1.
Proof.
  intros Hm Hd.
  assert (Hc : m = 1 \/ m = 2 \/ m = 3 \/ m = 4 \/ m = 5 \/ m = 6 \/ m = 7 \/ m = 8 \/ m = 9 \/ m = 10 \/ m = 11) by lia.
  pose proof (gdays_step y) as [G1 G2].
  destruct (Z.eq_dec m 2) as [->|H2].
  - rewrite days_in_feb in Hd. rewrite dfc_janfeb, dfc_march by lia.
    destruct (is_leap y); [specialize (G2 eq_refl)|]; lia.
  - pose proof (days_in_other m y H2) as [D1 D2].
    destruct Hc as [->|[->|[->|[->|[->|[->|[->|[->|[->|[->| ->]]]]]]]]]]; try contradiction;
    rewrite ?dfc_janfeb, ?dfc_march by lia; try (rewrite (dfc_janfeb y (1 + 1)) by lia); lia.
Qed.

Lemma day_mono y m d1 d2 : d1 < d2 -> days_from_civil y m d1 < days_from_civil y m d2.
Proof. unfold days_from_civil. lia. Qed.

Lemma month_mono y m1 m2 d1 d2 : 1 <= m1 -> m2 <= 12 -> m1 < m2 -> 1 <= d1 <= days_in m1 y -> 1 <= d2 ->
  days_from_civil y m1 d1 < days_from_civil y m2 d2.
Proof.
  intros H1 H2 Hlt Hd1 Hd2.
  assert (Hle : days_from_civil y m2 1 <= days_from_civil y m2 d2) by (unfold days_from_civil; lia).
  apply Z.lt_le_trans with (days_from_civil y m2 1); [|exact Hle]. clear Hle Hd2 d2.
  (* induction on the month gap *)
  remember (Z.to_nat (m2 - m1 - 1)) as k eqn:Hk. revert m1 d1 H1 Hlt Hd1 Hk.
  induction k as [|k IH]; intros m1 d1 H1 Hlt Hd1 Hk.
  - assert (m2 = m1 + 1) by lia. subst m2. apply month_step; [lia|exact Hd1].
  - apply Z.lt_trans with (days_from_civil y (m1 + 1) 1).
    + apply month_step; [lia|exact Hd1].
    + apply IH; try lia. split; [lia|]. unfold days_in. destruct (m1 + 1 =? 2); [destruct (is_leap y); lia|].
      destruct ((m1 + 1 =? 4) || (m1 + 1 =? 6) || (m1 + 1 =? 9) || (m1 + 1 =? 11)); lia.
Qed.

Lemma year_step y d : 1 <= d <= 31 -> days_from_civil y 12 d < days_from_civil (y + 1) 1 1.
Proof. intros Hd. rewrite dfc_march, dfc_janfeb by lia. replace (y + 1 - 1) with y by lia. lia. Qed.

Lemma jan1_mono y1 y2 : y1 <= y2 -> days_from_civil y1 1 1 <= days_from_civil y2 1 1.
Proof. intros H. rewrite !dfc_janfeb by lia. unfold gdays. lia. Qed.

Theorem civil_monotone y1 m1 d1 y2 m2 d2 :
  valid_date y1 m1 d1 -> valid_date y2 m2 d2 -> date_lt y1 m1 d1 y2 m2 d2 ->
  days_from_civil y1 m1 d1 < days_from_civil y2 m2 d2.
Proof.
  intros [Hm1 Hd1] [Hm2 Hd2] [Hy | [-> [Hm | [-> Hd]]]].
  - (* earlier year: up to Dec of y1, then Jan 1 of y1+1, then Jan 1 of y2, then the date *)
    assert (A : days_from_civil y1 m1 d1 < days_from_civil (y1 + 1) 1 1).
    { destruct (Z.eq_dec m1 12) as [->|Hne].
      - apply year_step. pose proof (days_in_le31 12 y1). lia.
      - apply Z.lt_trans with (days_from_civil y1 12 1); [apply month_mono; lia|apply year_step; lia]. }
    assert (Bq : days_from_civil (y1 + 1) 1 1 <= days_from_civil y2 1 1) by (apply jan1_mono; lia).
    assert (C : days_from_civil y2 1 1 <= days_from_civil y2 m2 d2).
    { destruct (Z.eq_dec m2 1) as [->|Hne].
      - unfold days_from_civil. lia.
      - apply Z.lt_le_incl. apply month_mono; try lia. change (days_in 1 y2) with 31. lia. }
    lia.
  - apply month_mono; lia.
  - apply day_mono; exact Hd.
Qed.

(* ---------- with the time of day ---------- *)

Definition valid_tm (t : tm) : Prop :=
  valid_date (t_y t) (t_mo t) (t_d t) /\ 0 <= t_h t < 24 /\ 0 <= t_mi t < 60 /\ 0 <= t_s t < 60.

Definition secs (t : tm) : Z := t_h t * 3600 + t_mi t * 60 + t_s t.

Definition tm_lt (a b : tm) : Prop :=
  date_lt (t_y a) (t_mo a) (t_d a) (t_y b) (t_mo b) (t_d b) \/
  ((t_y a, t_mo a, t_d a) = (t_y b, t_mo b, t_d b) /\
   (t_h a < t_h b \/ (t_h a = t_h b /\ (t_mi a < t_mi b \/ (t_mi a = t_mi b /\ t_s a < t_s b))))).

(* chronological order of valid civil times = order of the encoded Unix seconds *)
Theorem unix_monotone a b : valid_tm a -> valid_tm b -> tm_lt a b -> unix_of a < unix_of b.
Proof.
  intros [Hda [Hha [Hma Hsa]]] [Hdb [Hhb [Hmb Hsb]]] [Hlt | [Heq Ht]]; unfold unix_of.
  - pose proof (civil_monotone _ _ _ _ _ _ Hda Hdb Hlt). lia.
  - inversion Heq as [[E1 E2 E3]]. rewrite E1, E2, E3. lia.
Qed.

(* a date-only value is midnight: the date encoding is the datetime encoding of 00:00:00 *)
Theorem date_is_midnight y m d :
  unix_of {| t_y := y; t_mo := m; t_d := d; t_h := 0; t_mi := 0; t_s := 0 |} = days_from_civil y m d * 86400.
Proof. unfold unix_of. cbn. lia. Qed.

(* anchor: the epoch and a known date *)
Example epoch : days_from_civil 1970 1 1 = 0. Proof. reflexivity. Qed.
Example y2k : days_from_civil 2000 3 1 = 11017. Proof. reflexivity. Qed.
