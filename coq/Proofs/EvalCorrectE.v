(* EvalCorrectE.v — C12: the program with event nodes, run by the model of Expr.Eval, returns what `sem` says and
   performs exactly its fetches and operator applications; LOOP events are the only addition. *)
Require Import Base Opcode Tables Ops Tree Opt Flat FlatE Run CompFacts CompFactsE EvalDefs EvalInv EvalCorrect.
From Coq Require Import ZifyBool.
Open Scope Z_scope.
Open Scope list_scope.

Definition dl (x : list obs * mres) : list obs * mres := (drop_loops (fst x), snd x).

Lemma drop_loops_app a b : drop_loops (a ++ b) = drop_loops a ++ drop_loops b.
Proof. unfold drop_loops. apply filter_app. Qed.

Lemma dl_preM tr x : dl (preM tr x) = preM (drop_loops tr) (dl x).
Proof. destruct x. unfold dl, preM. cbn [fst snd]. rewrite drop_loops_app. reflexivity. Qed.

Lemma drop_loops_e2o tr : drop_loops (map e2o tr) = map e2o tr.
Proof. induction tr as [|e tr IH]; [reflexivity|]. cbn [map]. destruct e; cbn; rewrite <- IH at 2; reflexivity. Qed.

Lemma dl_bindT x K : dl (bindT x K) = bindT x (fun v => dl (K v)).
Proof. destruct x as [tr [v|e]]; cbn [bindT]; [rewrite dl_preM, drop_loops_e2o; reflexivity|]. unfold dl. cbn [fst snd]. rewrite drop_loops_e2o. reflexivity. Qed.

Section M.
  Variable fetch : str -> Z -> res value.
  Variable custom : str -> list value -> res value.
  Variable P : prog.

  Notation L := (lenZ (nodes P)).
  Notation getn := (getn P).
  Notation run := (run fetch custom P).
  Notation fin := (fin P).
  Notation lastI := (lastI P).
  Notation need := (need P).
  Notation afterD := (afterD P).
  Notation RootInv := (RootInv P).
  Notation AncInv := (AncInv P).
  Notation sem := (sem fetch custom).
  Notation sem_args := (sem_args fetch custom).

  Notation mk_fin := (EvalCorrect.mk_fin P).
  Notation mk_flags := (EvalCorrect.mk_flags P).
  Notation afterD_unflagged := (EvalCorrect.afterD_unflagged P).
  Notation afterD_cases := (EvalCorrect.afterD_cases P).
  Notation fast_leaf_val := (EvalCorrect.fast_leaf_val fetch P).
  Notation cond_cont := (EvalCorrect.cond_cont fetch custom).
  Notation after_afterD := (EvalDefs.after_afterD P).
  Notation run_S := (EvalDefs.run_S fetch custom P).
  Notation need_mono := (EvalDefs.need_mono P).
  Notation AncInv_weaken := (EvalInv.AncInv_weaken P).

  Hypothesis SA : forall i nd, getn i = Some nd -> osTop nd < alloc P.

  Definition sub_stmtE (t : tree) : Prop :=
    forall base h inh anc aidx mf mt pidx r a0 KR stk,
      placed (nodes P) base (map fst (compE lastI t base h inh anc mf mt pidx r)) ->
      0 <= h ->
      (base + Z.of_nat (esize t) = L -> h = 0) ->
      RootInv (base + Z.of_nat (esize t)) h mf mt a0 ->
      AncInv (base + Z.of_nat (esize t)) anc aidx ->
      (fany mf = true -> inh = false -> exists rest, aidx = a0 :: rest) ->
      lenZ stk = h ->
      (forall v f, (need (base + Z.of_nat (esize t)) <= f)%nat ->
                   dl (afterD (run f) (base + Z.of_nat (esize t)) mf (fin mt) v stk) = KR v) ->
      forall f, (need base <= f)%nat -> dl (run f base stk) = bindT (sem t) KR.

  (* an event node only reports *)
  Lemma event_step f i pos nd stk : nthZ (nodes P) i = Some (event_node pos nd) ->
    dl (run (S f) i stk) = dl (run f (i + 1) stk).
  Proof.
    intros G. pose proof (nthZ_range _ _ _ G) as R. rewrite run_S. unfold psize. replace (L <=? i) with false by lia.
    unfold Run.getn. rewrite G. cbn [kind event_node]. rewrite dl_preM. cbn [drop_loops filter]. rewrite preM_nil. reflexivity.
  Qed.

  Lemma with_event_placed base pos nd pidx rest :
    placed (nodes P) base (map fst (with_event pos nd pidx ++ rest)) ->
    nthZ (nodes P) base = Some (event_node pos nd) /\ nthZ (nodes P) (base + 1) = Some nd /\
    placed (nodes P) (base + 2) (map fst rest).
  Proof.
    intros H. unfold with_event in H. cbn [app map fst] in H.
    apply placed_cons in H. destruct H as [G0 H]. apply placed_cons in H. destruct H as [G1 H].
    replace (base + 1 + 1) with (base + 2) in H by lia. auto.
  Qed.

  (* ---------- leaves ---------- *)

  Lemma leaf_okE t : is_leaf t = true -> sub_stmtE t.
  Proof.
    intros Hl base h inh anc aidx mf mt pidx r a0 KR stk Hpl Hh HE RI HA Hai Hs Hroot f Hf.
    destruct t as [v|n k| |]; try discriminate; cbn [compE] in Hpl;
    rewrite <- (app_nil_r (with_event _ _ _)) in Hpl; apply with_event_placed in Hpl; destruct Hpl as (G0 & G1 & _);
    pose proof (nthZ_range _ _ _ G1) as R; cbn [esize] in *;
    (destruct f as [|[|f']]; [unfold EvalDefs.need in Hf; lia|unfold EvalDefs.need in Hf; lia|]);
    rewrite (event_step _ _ _ _ _ G0); rewrite run_S; unfold psize; replace (L <=? base + 1) with false by lia;
    unfold Run.getn; rewrite G1; cbn [kind mk].
    - cbn [Tree.sem bindT map]. rewrite preM_nil. rewrite after_afterD, mk_flags, mk_fin by reflexivity.
      replace (base + 1 + 1) with (base + Z.of_nat 2) by lia. apply Hroot. unfold EvalDefs.need in *. lia.
    - cbn [Tree.sem]. rewrite dl_preM. cbn [drop_loops filter]. destruct (fetch n k) as [v|e]; cbn [bindT map e2o]; [|reflexivity].
      f_equal. rewrite after_afterD, mk_flags, mk_fin by reflexivity.
      replace (base + 1 + 1) with (base + Z.of_nat 2) by lia. apply Hroot. unfold EvalDefs.need in *. lia.
  Qed.

  (* ---------- fast operators ---------- *)

  Lemma fast_okE name a b : fast_shape true [a; b] = true -> sub_stmtE (TOp name true [a; b]).
  Proof.
    intros Hfs base h inh anc aidx mf mt pidx r a0 KR stk Hpl Hh HE RI HA Hai Hs Hroot f Hf.
    destruct (fast_shape_inv _ _ Hfs) as (a' & b' & E & Ha & Hb & _). inversion E; subst a' b'. clear E.
    rewrite compE_fast_unfold in Hpl by exact Hfs. cbv zeta in Hpl.
    apply with_event_placed in Hpl. destruct Hpl as (G0 & G1 & Hpl). cbn [map fst] in Hpl.
    apply placed_cons in Hpl. destruct Hpl as [G2 Hpl]. apply placed_cons in Hpl. destruct Hpl as [G3 _].
    pose proof (nthZ_range _ _ _ G3) as R3.
    rewrite (esize_fast name true [a; b] Hfs) in *.
    destruct f as [|[|f']]; [unfold EvalDefs.need in Hf; lia|unfold EvalDefs.need in Hf; lia|].
    rewrite (event_step _ _ _ _ _ G0). rewrite run_S. unfold psize. replace (L <=? base + 1) with false by lia.
    unfold Run.getn. rewrite G1. cbn [kind mk].
    replace (base + 1 + 1) with (base + 2) by lia. replace (base + 1 + 2) with (base + 2 + 1) by lia. rewrite G2, G3.
    rewrite !fast_leaf_val by assumption.
    rewrite sem_fast_eq by exact Hfs. unfold sem_fast.
    destruct (leaf_val fetch a) as [tr1 [va|e1]]; cbn [fst snd]; [|unfold dl; cbn [fst snd bindT]; rewrite drop_loops_e2o; reflexivity].
    destruct (leaf_val fetch b) as [tr2 [vb|e2]]; cbn [fst snd]; [|unfold dl; cbn [fst snd bindT]; rewrite <- map_app, drop_loops_e2o; reflexivity].
    unfold apply_named. rewrite dl_preM.
    assert (Edl : drop_loops (map e2o tr1 ++ map e2o tr2 ++ [OCall name true [va; vb] (apply_op custom name [va; vb])])
                  = map e2o (tr1 ++ tr2 ++ [ECall name true [va; vb] (apply_op custom name [va; vb])])).
    { rewrite !map_app. cbn [map e2o]. rewrite !drop_loops_app, !drop_loops_e2o. reflexivity. }
    rewrite Edl. destruct (apply_op custom name [va; vb]) as [v|e] eqn:Er; cbn [bindT].
    - f_equal. rewrite after_afterD, mk_flags, mk_fin by reflexivity.
      replace (base + 1 + 3) with (base + Z.of_nat 4) by lia. apply Hroot. unfold EvalDefs.need in *. lia.
    - unfold preM, dl. cbn [fst snd]. rewrite app_nil_r. reflexivity.
  Qed.

  (* ---------- operators ---------- *)

  Lemma args_okE name n ridx h_p pn mf_p mt_p a0p KR_p stk0 (inh : bool) anc aidx pos :
    nthZ (nodes P) (ridx - 1) = Some (event_node pos pn) ->
    getn ridx = Some pn -> kind pn = KOp name -> childCnt pn = n ->
    nflags pn = mf_p -> scIdx pn = fin mt_p -> osTop pn = h_p ->
    0 <= h_p -> lenZ stk0 = h_p ->
    RootInv (ridx + 1) h_p mf_p mt_p a0p ->
    (ridx + 1 = L -> h_p = 0) ->
    (forall v f, (need (ridx + 1) <= f)%nat -> dl (afterD (run f) (ridx + 1) mf_p (fin mt_p) v stk0) = KR_p v) ->
    AncInv (ridx + 1) anc aidx ->
    (fany mf_p = true -> inh = false -> exists rest, aidx = a0p :: rest) ->
    let anc' := if inh then [] else (mf_p, mt_p) :: anc in
    forall cs, Forall sub_stmtE cs ->
    forall acc b f,
      placed (nodes P) b (map fst (compE_args lastI (op_kind name) n ridx anc' cs b (h_p + lenZ acc))) ->
      b + Z.of_nat (esizes cs) = ridx - 1 -> 0 <= b ->
      lenZ acc + lenZ cs = n ->
      (need b <= f)%nat ->
      dl (run f b (stk0 ++ rev acc)) = bindT (sem_args name cs acc) KR_p.
  Proof.
    intros Gev Gp Kp Cp NFp STp OSp Hh Hs0 RIp EndH Hroot HA Hai anc' cs HF.
    pose proof (nthZ_range _ _ _ Gp) as Rp.
    induction HF as [|c cs' Hc _ IH]; intros acc b f Hpl Hb Hb0 Hlen Hf.
    - (* the event node of the operator, then the operator *)
      cbn [esizes fold_right] in Hb. replace b with (ridx - 1) in * by lia. cbn [Tree.sem_args].
      destruct f as [|[|f']]; [unfold EvalDefs.need in Hf; lia|unfold EvalDefs.need in Hf; lia|].
      rewrite (event_step _ _ _ _ _ Gev). replace (ridx - 1 + 1) with ridx by lia.
      rewrite run_S. unfold psize. replace (L <=? ridx) with false by lia.
      rewrite Gp, Kp, Cp.
      assert (Hn : n = lenZ acc) by (unfold lenZ in *; cbn [length] in Hlen; lia).
      rewrite lenZ_app. assert (Hra : lenZ (rev acc) = lenZ acc) by (unfold lenZ; rewrite rev_length; reflexivity).
      rewrite Hra. pose proof (lenZ_nonneg acc).
      replace ((n <? 0) || (lenZ stk0 + lenZ acc <? n)) with false by lia.
      replace (Z.to_nat (lenZ stk0 + lenZ acc - n)) with (length stk0) by (unfold lenZ in *; lia).
      rewrite skipn_app, skipn_all, Nat.sub_diag, firstn_app, firstn_all, Nat.sub_diag. cbn [skipn firstn app].
      rewrite app_nil_r. unfold apply_named. rewrite dl_preM. cbn [drop_loops filter].
      destruct (apply_op custom name (rev acc)) as [v|e]; cbn [bindT map e2o]; [|reflexivity].
      f_equal. rewrite after_afterD, NFp, STp. apply Hroot. unfold EvalDefs.need in *. lia.
    - cbn [compE_args] in Hpl. cbv zeta in Hpl. rewrite map_app in Hpl.
      cbn [esizes fold_right] in Hb. fold (esizes cs') in Hb.
      apply placed_app in Hpl. destruct Hpl as [Hpc Hprest].
      unfold lenZ in Hprest at 1. rewrite map_length, compE_length in Hprest.
      set (lastc := match cs' with [] => can_be_last c && (2 <=? n) | _ :: _ => false end) in *.
      set (fl := child_flags (op_kind name) lastc) in *.
      set (tg := if fany fl then climb fl anc' ridx else root_idxE c b) in *.
      pose proof (esize_pos c) as Hsz.
      rewrite bindT_args_cons. cbv zeta.
      assert (Elast : match cs' with [] => can_be_last c && (2 <=? lenZ (c :: cs') + lenZ acc) | _ :: _ => false end = lastc).
      { unfold lastc. destruct cs'; [|reflexivity]. f_equal. f_equal. lia. }
      rewrite Elast.
      destruct (child_jump fetch custom P SA ridx h_p pn mf_p mt_p a0p KR_p stk0 dl Gp NFp STp OSp Hh Hs0 RIp EndH Hroot
                  (ridx + 1) anc aidx inh fl (b + Z.of_nat (esize c)) (h_p + lenZ acc) HA Hai ltac:(lia) ltac:(lia)
                  ltac:(pose proof (lenZ_nonneg acc); lia)) as [RIc Hjump].
      fold anc' in RIc, Hjump.
      assert (RIc' : RootInv (b + Z.of_nat (esize c)) (h_p + lenZ acc) fl tg ridx).
      { unfold tg. destruct (fany fl) eqn:Hfl; [exact RIc|].
        intros bb Hbb. destruct fl as [[] []], bb; cbn in *; discriminate. }
      assert (Hlenstk : lenZ (stk0 ++ rev acc) = h_p + lenZ acc).
      { rewrite lenZ_app. unfold lenZ. rewrite rev_length. unfold lenZ in Hs0. lia. }
      eapply (Hc b (h_p + lenZ acc) false anc' (ridx :: aidx) fl tg ridx (op_kind name) ridx _ (stk0 ++ rev acc) Hpc).
      + pose proof (lenZ_nonneg acc). lia.
      + intros E. lia.
      + exact RIc'.
      + unfold anc'. destruct inh; [exact I|].
        cbn [EvalInv.AncInv]. split; [lia|]. split; [exists pn; auto|]. split.
        * intros b' Hb'. destruct (RIp b' Hb') as ((Hr1 & Hr2) & Hiff & _). split; [lia|].
          destruct (Hai ltac:(unfold fany; destruct mf_p as [[] []], b'; cbn in *; congruence) eq_refl) as [rest ->].
          exact Hiff.
        * eapply AncInv_weaken; [|exact HA]. lia.
      + intros _ _. eauto.
      + exact Hlenstk.
      + intros v f0 Hf0.
        assert (NEXT : dl (store_next P (run f0) (b + Z.of_nat (esize c)) v (stk0 ++ rev acc))
                       = bindT (sem_args name cs' (v :: acc)) KR_p).
        { unfold store_next, push.
          assert (Hal : h_p + lenZ acc < alloc P).
          { destruct (compE_first_os lastI c b (h_p + lenZ acc) false anc' fl tg ridx (op_kind name)) as (nd0 & p0 & rest0 & E0 & Ho).
            rewrite E0 in Hpc. cbn [map fst] in Hpc. apply placed_cons in Hpc. destruct Hpc as [G _]. apply SA in G. lia. }
          rewrite Hlenstk. replace (h_p + lenZ acc <? alloc P) with true by lia.
          replace ((stk0 ++ rev acc) ++ [v]) with (stk0 ++ rev (v :: acc)) by (cbn [rev]; now rewrite app_assoc).
          apply IH.
          - rewrite lenZ_cons. replace (h_p + (lenZ acc + 1)) with (h_p + lenZ acc + 1) by lia. exact Hprest.
          - lia.
          - lia.
          - rewrite lenZ_cons in *. rewrite lenZ_cons in Hlen. lia.
          - exact Hf0. }
        unfold EvalDefs.afterD. destruct v as [z|bb|s|li|ls|si|ss'| | |o];
          try (replace (operand_result (op_kind name) lastc _) with false by (destruct (op_kind name) as [[]|]; reflexivity); exact NEXT).
        rewrite operand_result_flags. fold fl. destruct (fhas fl bb) eqn:Hbb; [|exact NEXT].
        assert (Hfl : fany fl = true) by (destruct fl as [[] []], bb; cbn in *; congruence).
        unfold tg. rewrite Hfl. apply Hjump; [exact Hbb|].
        eapply Nat.le_trans; [|exact Hf0]. apply need_mono. lia.
      + exact Hf.
  Qed.

  Lemma op_okE name fast cs : fast_shape fast cs = false -> Forall sub_stmtE cs -> sub_stmtE (TOp name fast cs).
  Proof.
    intros Hfs IH base h inh anc aidx mf mt pidx r a0 KR stk Hpl Hh HE RI HA Hai Hs Hroot f Hf.
    rewrite sem_op by exact Hfs. rewrite compE_op_unfold in Hpl by exact Hfs. rewrite map_app in Hpl.
    set (ridx := base + Z.of_nat (esize (TOp name fast cs)) - 1) in *.
    assert (Hsz : Z.of_nat (esize (TOp name fast cs)) = Z.of_nat (esizes cs) + 2) by (rewrite esize_op by exact Hfs; lia).
    pose proof (placed_app _ _ _ _ Hpl) as [Hpa Hpr].
    unfold lenZ in Hpr at 1. rewrite map_length, compE_args_length in Hpr.
    rewrite <- (app_nil_r (with_event _ _ _)) in Hpr. apply with_event_placed in Hpr. destruct Hpr as (Gev & Gr & _).
    replace (base + Z.of_nat (esizes cs)) with (ridx - 1) in Gev by (unfold ridx; lia).
    replace (base + Z.of_nat (esizes cs) + 1) with ridx in Gr by (unfold ridx; lia).
    replace (base + Z.of_nat (esize (TOp name fast cs))) with (ridx + 1) in * by (unfold ridx; lia).
    pose proof (args_okE name (lenZ cs) ridx h (mk lastI (KOp name) (lenZ cs) mf mt h r) mf mt a0 KR stk inh anc aidx ridx
                  Gev Gr eq_refl eq_refl (mk_flags _ _ _ _ _ _) (mk_fin (KOp name) _ _ _ _ _ eq_refl) eq_refl Hh Hs RI HE Hroot HA Hai cs IH [] base f) as A.
    cbn [rev] in A. rewrite app_nil_r in A. apply A.
    - change (lenZ (@nil value)) with 0. rewrite Z.add_0_r. exact Hpa.
    - unfold ridx. lia.
    - apply placed_bound in Hpl. lia.
    - reflexivity.
    - exact Hf.
  Qed.

  (* ---------- if ---------- *)

  Lemma if_okE c t f : sub_stmtE c -> sub_stmtE t -> sub_stmtE f -> sub_stmtE (TIf c t f).
  Proof.
    intros IHc IHt IHf base h inh anc aidx mf mt pidx r a0 KR stk Hpl Hh HE RI HA Hai Hs Hroot fu Hfu.
    cbn [compE] in Hpl. cbv zeta in Hpl.
    set (ifidx := base + Z.of_nat (esize c) + 1) in *.
    set (tb := ifidx + 1) in *.
    set (fiidx := tb + Z.of_nat (esize t) + 1) in *.
    set (fb := fiidx + 1) in *.
    set (endidx := fb + Z.of_nat (esize f) - 1) in *.
    assert (Hnext : base + Z.of_nat (esize (TIf c t f)) = fb + Z.of_nat (esize f)).
    { cbn [esize]. unfold fb, fiidx, tb, ifidx. lia. }
    rewrite Hnext in *.
    rewrite map_app in Hpl.
    apply placed_app in Hpl. destruct Hpl as [Hpc Hpl]. unfold lenZ in Hpl at 1. rewrite map_length, compE_length in Hpl.
    apply with_event_placed in Hpl. destruct Hpl as (Gife & Gif & Hpl).
    replace (base + Z.of_nat (esize c) + 1) with ifidx in Gif by (unfold ifidx; lia).
    replace (base + Z.of_nat (esize c) + 2) with tb in Hpl by (unfold tb, ifidx; lia).
    rewrite map_app in Hpl.
    apply placed_app in Hpl. destruct Hpl as [Hpt Hpl]. unfold lenZ in Hpl at 1. rewrite map_length, compE_length in Hpl.
    apply with_event_placed in Hpl. destruct Hpl as (Gfie & Gfi & Hpf).
    replace (tb + Z.of_nat (esize t) + 1) with fiidx in Gfi by (unfold fiidx; lia).
    replace (tb + Z.of_nat (esize t) + 2) with fb in Hpf by (unfold fb, fiidx; lia).
    replace (tb + Z.of_nat (esize t)) with (fiidx - 1) in Gfie by (unfold fiidx; lia).
    replace (base + Z.of_nat (esize c)) with (ifidx - 1) in Gife by (unfold ifidx; lia).
    pose proof (nthZ_range _ _ _ Gif) as Rif. pose proof (nthZ_range _ _ _ Gfi) as Rfi.
    pose proof (esize_pos c). pose proof (esize_pos t). pose proof (esize_pos f).
    pose proof (placed_bound _ _ _ Hpc) as [Hb0 _].
    destruct (dec_inherit P (fb + Z.of_nat (esize f)) (fiidx - 1) h mf mt a0 ifidx (root_idxE t tb) RI ltac:(unfold fb; lia) ltac:(unfold fb, fiidx, tb; lia))
      as [RIt Eat].
    destruct (dec_inherit P (fb + Z.of_nat (esize f)) (fb + Z.of_nat (esize f)) h mf mt a0 ifidx (root_idxE f fb) RI ltac:(lia) ltac:(unfold fb, fiidx, tb; lia))
      as [RIf Eaf].
    cbv zeta in RIt, Eat, RIf, Eaf.
    set (inherit := negb (mt =? ifidx)) in *.
    set (mf' := if inherit then mf else fnone) in *.
    assert (Hpush : forall v, push P stk v = Some (stk ++ [v])).
    { intros v. apply (push_ok P SA stk v fiidx _ Gfi). cbn [osTop mk]. exact Hs. }
    rewrite bindT_if.
    eapply (IHc base h false [] [] fnone (root_idxE c base) ifidx None 0 _ stk Hpc Hh).
    - lia.
    - intros b Hb. destruct b; discriminate.
    - exact I.
    - intros Hfa. discriminate.
    - exact Hs.
    - replace (base + Z.of_nat (esize c)) with (ifidx - 1) by (unfold ifidx; lia). intros v f0 Hf0.
      rewrite (afterD_unflagged _ _ fnone fnone _ 0 v stk eq_refl eq_refl).
      assert (Es : afterD (run f0) (ifidx - 1) fnone 0 v stk = run f0 (ifidx - 1) (stk ++ [v])).
      { rewrite afterD_cases. unfold store_next. rewrite Hpush. destruct v; try reflexivity. cbn [fhas fnone fst snd]. destruct b; reflexivity. }
      rewrite Es. destruct f0 as [|[|f1]]; [unfold EvalDefs.need in Hf0; lia|unfold EvalDefs.need in Hf0; lia|].
      rewrite (event_step _ _ _ _ _ Gife). replace (ifidx - 1 + 1) with ifidx by lia.
      rewrite run_S. unfold psize. replace (L <=? ifidx) with false by lia.
      unfold Run.getn. rewrite Gif. cbn [kind mk]. rewrite rev_app_distr. cbn [rev app].
      assert (Hneed1 : (need (ifidx + 1) <= f1)%nat) by (unfold EvalDefs.need in *; lia).
      destruct v as [z|[]|s|li|ls|si|ss'| | |o]; cbn [EvalCorrect.cond_cont]; try reflexivity.
      + rewrite rev_involutive. fold tb.
        eapply (IHt tb h true [] [] mf' _ ifidx r a0 KR stk Hpt Hh).
        * lia.
        * replace (tb + Z.of_nat (esize t)) with (fiidx - 1) by (unfold fiidx; lia). exact RIt.
        * exact I.
        * intros _ Hc. discriminate.
        * exact Hs.
        * replace (tb + Z.of_nat (esize t)) with (fiidx - 1) by (unfold fiidx; lia). intros v f2 Hf2. rewrite Eat.
          destruct f2 as [|[|f3]]; [unfold EvalDefs.need in Hf2; lia|unfold EvalDefs.need in Hf2; lia|].
          assert (Hn3 : (need (fb + Z.of_nat (esize f)) <= f3)%nat) by (unfold EvalDefs.need in *; unfold fb in *; lia).
          assert (Hn2 : (need (fb + Z.of_nat (esize f)) <= S (S f3))%nat) by lia.
          assert (Est : dl (store_next P (run (S (S f3))) (fiidx - 1) v stk) = dl (store_next P (run f3) (fb + Z.of_nat (esize f)) v stk)).
          { unfold store_next. rewrite Hpush. rewrite (event_step _ _ _ _ _ Gfie). replace (fiidx - 1 + 1) with fiidx by lia.
            rewrite run_S. unfold psize. replace (L <=? fiidx) with false by lia.
            unfold Run.getn. rewrite Gfi. cbn [kind mk osTop scIdx is_cond_kind].
            destruct (stk ++ [v]) eqn:Es'; [destruct stk; discriminate|]. rewrite <- Es'.
            rewrite lenZ_app. change (lenZ [v]) with 1.
            replace ((h + 1 <? 0) || (lenZ stk + 1 <? h + 1)) with false by lia.
            replace (h + 1) with (lenZ (stk ++ [v])) by (rewrite lenZ_app; change (lenZ [v]) with 1; lia).
            rewrite firstnZ_all. unfold endidx. replace (fb + Z.of_nat (esize f) - 1 + 1) with (fb + Z.of_nat (esize f)) by lia.
            reflexivity. }
          rewrite afterD_cases. destruct v as [z|bb|s|li|ls|si|ss'| | |o];
            try (rewrite Est; rewrite <- (Hroot _ f3 Hn3); reflexivity).
          destruct (fhas mf bb) eqn:Hbb.
          -- rewrite <- (Hroot (VBool bb) (S (S f3)) Hn2). rewrite afterD_cases, Hbb. reflexivity.
          -- rewrite Est. rewrite <- (Hroot (VBool bb) f3 Hn3). rewrite afterD_cases, Hbb. reflexivity.
        * unfold EvalDefs.need in *. unfold tb. lia.
      + cbn [osTop mk scIdx is_cond_kind]. rewrite rev_involutive.
        assert (Hlr : lenZ (rev stk) = h) by (unfold lenZ in *; rewrite rev_length; exact Hs).
        replace ((h - 1 + 1 <? 0) || (lenZ (rev stk) <? h - 1 + 1)) with false by lia.
        replace (h - 1 + 1) with (lenZ stk) by lia. rewrite firstnZ_all. fold fb.
        eapply (IHf fb h true [] [] mf' _ ifidx r a0 KR stk Hpf Hh).
        * exact HE.
        * exact RIf.
        * exact I.
        * intros _ Hc. discriminate.
        * exact Hs.
        * intros v f2 Hf2. rewrite Eaf. apply Hroot. exact Hf2.
        * unfold EvalDefs.need in *. unfold fb, fiidx, tb in *. lia.
    - exact Hfu.
  Qed.

  Theorem sub_okE : forall t, sub_stmtE t.
  Proof.
    induction t as [v|n k|name fast cs IH|c t f IHc IHt IHf] using tree_ind2.
    - apply leaf_okE. reflexivity.
    - apply leaf_okE. reflexivity.
    - destruct (fast_shape fast cs) eqn:Hfs.
      + destruct (fast_shape_inv _ _ Hfs) as (a & b & -> & Ha & Hb & ->). apply fast_okE. exact Hfs.
      + apply op_okE; assumption.
    - apply if_okE; assumption.
  Qed.
End M.
