(* TryCorrect.v — T-TRY at machine level: the model of Expr.TryEval run on the compiled program computes `trysem`,
   the tree-level meaning of TryEval, for every tree, fetcher, operator table and availability predicate: same value
   or error, same fetches and operator applications, no panic, no fuel exhaustion. *)
Require Import Base Opcode Tables Ops Tree Opt Flat Run CompFacts TryFacts EvalDefs EvalTop.
From Coq Require Import ZifyBool.
Open Scope Z_scope.
Open Scope list_scope.

(* placement of parent entries *)
Definition placedZ (P : list Z) (base : Z) (code : list Z) : Prop :=
  exists pre post, P = pre ++ code ++ post /\ lenZ pre = base.

Lemma placedZ_get P base code k p :
  placedZ P base code -> nth_error code k = Some p -> nthZ P (base + Z.of_nat k) = Some p.
Proof.
  intros (pre & post & -> & <-) H. unfold nthZ, lenZ.
  replace (Z.of_nat (length pre) + Z.of_nat k <? 0) with false by lia.
  replace (Z.to_nat (Z.of_nat (length pre) + Z.of_nat k)) with (length pre + k)%nat by lia.
  rewrite nth_error_app2 by lia. replace (length pre + k - length pre)%nat with k by lia.
  rewrite nth_error_app1; [assumption|]. apply nth_error_Some. congruence.
Qed.

Lemma placedZ_app P base a b : placedZ P base (a ++ b) -> placedZ P base a /\ placedZ P (base + lenZ a) b.
Proof.
  intros (pre & post & -> & <-). split.
  - exists pre, (b ++ post). now rewrite <- app_assoc.
  - exists (pre ++ a), post. rewrite lenZ_app, <- !app_assoc. split; reflexivity.
Qed.

Lemma placedZ_cons P base x l : placedZ P base (x :: l) -> nthZ P base = Some x /\ placedZ P (base + 1) l.
Proof.
  intros H. change (x :: l) with ([x] ++ l) in H. apply placedZ_app in H. destruct H as [H1 H2]. split.
  - replace base with (base + Z.of_nat 0) by lia. eapply placedZ_get; [exact H1|reflexivity].
  - exact H2.
Qed.

Lemma lenZ_map' {A B} (f : A -> B) l : lenZ (map f l) = lenZ l.
Proof. unfold lenZ. rewrite map_length. reflexivity. Qed.

(* the first node of a subtree's code writes the subtree's own slot *)
Lemma comp_first_os last t : forall base h inh anc mf mt pidx r,
  exists nd p rest, comp last t base h inh anc mf mt pidx r = (nd, p) :: rest /\ osTop nd = h.
Proof.
  induction t as [v|n k|name fast cs IH|c t f IHc IHt IHf] using tree_ind2; intros.
  - cbn [comp]. eexists _, _, _. split; reflexivity.
  - cbn [comp]. eexists _, _, _. split; reflexivity.
  - destruct (fast_shape fast cs) eqn:Hf.
    + destruct (fast_shape_inv _ _ Hf) as (a & b & -> & Ha & Hb & ->).
      rewrite comp_fast_unfold by exact Hf. cbv zeta. eexists _, _, _. split; reflexivity.
    + rewrite comp_op_unfold by exact Hf. destruct cs as [|c cs].
      * cbn [comp_args app]. eexists _, _, _. split; reflexivity.
      * cbn [comp_args]. cbv zeta. inversion IH as [|? ? Hc _]; subst.
        match goal with |- context [comp last c ?b ?hh ?i ?an ?f ?tg ?pp ?rr] => destruct (Hc b hh i an f tg pp rr) as (nd & p & rest & E & Ho) end.
        rewrite E. cbn [app]. eexists _, _, _. split; [reflexivity|exact Ho].
  - cbn [comp]. cbv zeta.
    match goal with |- context [comp last c ?b ?hh ?i ?an ?f0 ?tg ?pp ?rr] => destruct (IHc b hh i an f0 tg pp rr) as (nd & p & rest & E & Ho) end.
    rewrite E. cbn [app]. eexists _, _, _. split; [reflexivity|exact Ho].
Qed.

(* the last node of a subtree's code writes the subtree's own slot *)
Lemma comp_last_os last t : forall base h inh anc mf mt pidx r,
  exists front nd p, comp last t base h inh anc mf mt pidx r = front ++ [(nd, p)] /\ osTop nd = h.
Proof.
  induction t as [v|n k|name fast cs IH|c t f IHc IHt IHf] using tree_ind2; intros.
  - cbn [comp]. exists [], (mk last (KConst v) 0 mf mt h r), pidx. split; reflexivity.
  - cbn [comp]. exists [], (mk last (KVar n k) 0 mf mt h r), pidx. split; reflexivity.
  - destruct (fast_shape fast cs) eqn:Hf.
    + destruct (fast_shape_inv _ _ Hf) as (a & b & -> & Ha & Hb & ->).
      rewrite comp_fast_unfold by exact Hf. cbv zeta. eexists [_; _], _, _. split; reflexivity.
    + rewrite comp_op_unfold by exact Hf. eexists _, _, _. split; reflexivity.
  - cbn [comp]. cbv zeta.
    match goal with |- context [comp last f ?b ?hh ?i ?an ?f0 ?tg ?pp ?rr] => destruct (IHf b hh i an f0 tg pp rr) as (front & nd & p & E & Ho) end.
    rewrite E. eexists _, nd, p. split; [|exact Ho]. rewrite !app_assoc. reflexivity.
Qed.

Lemma tflag_mk last k cnt mf mt h r : tflag (mk last k cnt mf mt h r) = r.
Proof. destruct r as [[]|]; reflexivity. Qed.

Section M.
  Variable fetch : str -> Z -> res value.
  Variable custom : str -> list value -> res value.
  Variable cached : str -> Z -> bool.
  Variable P : prog.

  Notation L := (lenZ (nodes P)).
  Notation getn := (getn P).
  Notation tryrun := (tryrun fetch custom cached P).
  Notation tclimb := (tclimb P).
  Notation lastI := (lastI P).
  Notation need := (need P).
  Notation trysem := (trysem fetch custom cached).
  Notation trysem_args := (trysem_args fetch custom cached).

  Hypothesis SA : forall i nd, getn i = Some nd -> osTop nd < alloc P.

  (* the step from a node to its parent in the `for matchesShortCircuit` loop *)
  Definition climbP (cf : nat) (k : Z -> list value -> list obs * mres) (pi : option Z) (v : value) (stk : list value)
    : list obs * mres :=
    match pi with
    | None => ([], MPanic 20)
    | Some pi =>
      if pi =? -1 then ([], MVal v) else
      match getn pi with
      | None => ([], MPanic 21)
      | Some p =>
        if is_cond_kind (kind p) && negb (tmatch p v) then
          match getn (scIdx p) with
          | None => ([], MPanic 22)
          | Some fi =>
            let j := scIdx fi in
            match getn j with
            | None => ([], MPanic 23)
            | Some e => store_at P k (j + 1) (osTop e - 1) v stk
            end
          end
        else tclimb cf k pi p v (osTop p - 1) stk
      end
    end.

  Lemma tclimb_S cf k i nd v top stk : tclimb (S cf) k i nd v top stk =
    if tmatch nd v then climbP cf k (parent_of P i) v stk else store_at P k (i + 1) top v stk.
  Proof. reflexivity. Qed.

  (* what happens to the value v of a subtree whose root has parent flag r and parent index pidx, the subtree's
     slot being h and the next instruction `next` *)
  Definition afterT (cf : nat) (k : Z -> list value -> list obs * mres) (next : Z) (r : rco) (pidx : Z) (v : value)
                    (h : Z) (stk : list value) : list obs * mres :=
    if tmatches r v then climbP cf k (Some pidx) v stk else store_at P k next (h - 1) v stk.

  Notation afterT' := afterT.

  Lemma store_ok k next h v s x : lenZ s = h -> 0 <= h -> h < alloc P ->
    store_at P k next (h - 1) v (s ++ x) = k next (s ++ [v]).
  Proof.
    intros Hs Hh Ha. unfold store_at. rewrite lenZ_app. pose proof (lenZ_nonneg x).
    replace ((h - 1 + 1 <? 0) || (lenZ s + lenZ x <? h - 1 + 1)) with false by lia.
    replace (h - 1 + 1) with (lenZ s) by lia. rewrite firstnZ_app_all. unfold push. replace (lenZ s <? alloc P) with true by lia. reflexivity.
  Qed.

  Definition sub_try (t : tree) : Prop :=
    forall base h inh anc mf mt pidx r KR stk (cb : nat),
      placed (nodes P) base (map fst (comp lastI t base h inh anc mf mt pidx r)) ->
      placedZ (parents P) base (map snd (comp lastI t base h inh anc mf mt pidx r)) ->
      0 <= h -> lenZ stk = h -> (cb + size t <= length (nodes P))%nat ->
      (forall v cf f x, (cb <= cf)%nat -> (need (base + Z.of_nat (size t)) <= f)%nat ->
         afterT cf (tryrun f) (base + Z.of_nat (size t)) r pidx v h (stk ++ x) = KR v) ->
      forall f, (need base <= f)%nat -> tryrun f base stk = bindT (trysem t) KR.

  Lemma tryrun_S f i stk : tryrun (S f) i stk =
    if psize P <=? i then ([], match stk with v :: _ => MVal v | [] => MPanic 1 end) else
    match getn i with
    | None => ([], MPanic 2)
    | Some nd =>
      let go := tclimb (length (nodes P)) (tryrun f) in
      match kind nd with
      | KFast name =>
        match getn (i + 1), getn (i + 2) with
        | Some a, Some b =>
          match tleaf fetch cached a with
          | (t1, Err e) => (t1, MErr e)
          | (t1, Ok va) =>
            match tleaf fetch cached b with
            | (t2, Err e) => (t1 ++ t2, MErr e)
            | (t2, Ok vb) =>
              match tproxy custom nd name true [va; vb] with
              | (t3, Err e) => (t1 ++ t2 ++ t3, MErr e)
              | (t3, Ok v) => preM (t1 ++ t2 ++ t3) (go (i + 2) nd v (lenZ stk - 1) stk)
              end
            end
          end
        | _, _ => ([], MPanic 3)
        end
      | KVar _ _ =>
        match tleaf fetch cached nd with
        | (t1, Err e) => (t1, MErr e)
        | (t1, Ok v) => preM t1 (go i nd v (lenZ stk - 1) stk)
        end
      | KConst v => go i nd v (lenZ stk - 1) stk
      | KOp name =>
        let cnt := childCnt nd in
        if (cnt <? 0) || (lenZ stk <? cnt) then ([], MPanic 4) else
        let keep := Z.to_nat (lenZ stk - cnt) in
        match tproxy custom nd name false (skipn keep stk) with
        | (t1, Err e) => (t1, MErr e)
        | (t1, Ok v) => preM t1 (go i nd v (Z.of_nat keep - 1) (firstn keep stk))
        end
      | KIf =>
        match rev stk with
        | [] => ([], MPanic 5)
        | c :: below =>
          match c with
          | VBool true => tryrun f (i + 1) (rev below)
          | VBool false =>
            if (osTop nd + 1 <? 0) || (lenZ below <? osTop nd + 1) then ([], MPanic 6)
            else tryrun f (scIdx nd + 1) (firstnZ (osTop nd + 1) (rev below))
          | _ => ([], MErr ECondNotBool)
          end
        end
      | KFi =>
        match stk with
        | [] => ([], MPanic 7)
        | _ =>
          if (osTop nd + 1 <? 0) || (lenZ stk <? osTop nd + 1) then ([], MPanic 8)
          else tryrun f (scIdx nd + 1) (firstnZ (osTop nd + 1) stk)
        end
      | KEvent pos of => preM [OLoop pos of stk] (tryrun f (i + 1) stk)
      end
    end.
  Proof. reflexivity. Qed.

  Lemma tleaf_leaf t cnt fl tg h r : is_leaf t = true ->
    tleaf fetch cached (mk lastI (leaf_kind t) cnt fl tg h r) =
      (map e2o (fst (tleaf_val fetch cached t)), snd (tleaf_val fetch cached t)).
  Proof. destruct t as [v|n k| |]; try discriminate; intros _; cbn [leaf_kind tleaf kind mk tleaf_val]; [reflexivity|]. destruct (cached n k); reflexivity. Qed.

  Lemma tproxy_proxy nd name fast args : (kind nd = KOp name \/ kind nd = KFast name) ->
    tproxy custom nd name fast args = (map e2o (fst (proxy custom name fast args)), snd (proxy custom name fast args)).
  Proof.
    intros Hk. unfold tproxy, proxy.
    assert (E1 : is_boolname_and (kind nd) = is_and name) by (destruct Hk as [-> | ->]; reflexivity).
    assert (E2 : is_boolname_or (kind nd) = is_or name) by (destruct Hk as [-> | ->]; reflexivity).
    rewrite E1, E2. destruct (is_and name && existsb is_false args); [reflexivity|].
    destruct (is_or name && existsb is_true args); [reflexivity|]. destruct (existsb is_dne args); reflexivity.
  Qed.

  (* a root node that has produced v: one step of the loop is the decoration-indexed continuation *)
  Lemma go_afterT f i nd v h stk r pidx : tflag nd = r -> parent_of P i = Some pidx -> (1 <= length (nodes P))%nat ->
    tclimb (length (nodes P)) (tryrun f) i nd v (h - 1) stk = afterT (length (nodes P) - 1) (tryrun f) (i + 1) r pidx v h stk.
  Proof.
    intros Hr Hp Hn. destruct (length (nodes P)) as [|n] eqn:E; [lia|]. rewrite tclimb_S.
    unfold afterT, tmatch. rewrite Hr, Hp. replace (S n - 1)%nat with n by lia. reflexivity.
  Qed.

  Lemma nodes_pos base code : placed (nodes P) base code -> code <> [] -> (1 <= length (nodes P))%nat.
  Proof. intros (pre & post & E & _) Hn. rewrite E, !app_length. destruct code; [congruence|]. cbn [length]. lia. Qed.

  (* ---------- leaves ---------- *)

  Lemma leaf_try t : is_leaf t = true -> sub_try t.
  Proof.
    intros Hl base h inh anc mf mt pidx r KR stk cb Hpl Hpp Hh Hs Hcb Hroot f Hf.
    assert (Hsz : size t = 1%nat) by (apply leaf_size; exact Hl). rewrite Hsz in *.
    assert (Hn1 : (1 <= length (nodes P))%nat) by lia.
    destruct t as [v|n k| |]; try discriminate; cbn [comp map fst snd] in Hpl, Hpp;
      apply placed_cons in Hpl; destruct Hpl as [G _]; apply placedZ_cons in Hpp; destruct Hpp as [Gp _];
      pose proof (nthZ_range _ _ _ G) as R;
      (destruct f as [|f']; [unfold EvalDefs.need in Hf; lia|]);
      rewrite tryrun_S; unfold psize; replace (L <=? base) with false by lia;
      unfold Run.getn; rewrite G; cbn [kind mk]; cbv zeta.
    - rewrite Hs. rewrite (go_afterT f' base _ v h stk r pidx (tflag_mk _ _ _ _ _ _ _) Gp Hn1).
      cbn [Tree.trysem tleaf_val bindT map]. rewrite preM_nil.
      rewrite <- (app_nil_r stk) at 1. replace (base + 1) with (base + Z.of_nat 1) by lia.
      apply Hroot; [lia|unfold EvalDefs.need in *; lia].
    - cbn [Tree.trysem tleaf_val]. unfold tleaf. cbn [kind mk]. destruct (cached n k).
      + destruct (fetch n k) as [v|e]; cbn [bindT map e2o]; [|reflexivity]. f_equal.
        rewrite Hs. rewrite (go_afterT f' base _ v h stk r pidx (tflag_mk _ _ _ _ _ _ _) Gp Hn1).
        rewrite <- (app_nil_r stk) at 1. replace (base + 1) with (base + Z.of_nat 1) by lia.
        apply Hroot; [lia|unfold EvalDefs.need in *; lia].
      + cbn [bindT map]. f_equal.
        rewrite Hs. rewrite (go_afterT f' base _ VDNE h stk r pidx (tflag_mk _ _ _ _ _ _ _) Gp Hn1).
        rewrite <- (app_nil_r stk) at 1. replace (base + 1) with (base + Z.of_nat 1) by lia.
        apply Hroot; [lia|unfold EvalDefs.need in *; lia].
  Qed.

  Lemma bindT_preR tr x K : bindT (preR tr x) K = preM (map e2o tr) (bindT x K).
  Proof.
    destruct x as [tr2 [v|e]]; unfold preR, bindT; cbn [fst snd]; rewrite map_app.
    - rewrite preM_app. reflexivity.
    - unfold preM. reflexivity.
  Qed.

  (* ---------- fast operators ---------- *)

  Lemma fast_try name a b : fast_shape true [a; b] = true -> sub_try (TOp name true [a; b]).
  Proof.
    intros Hfs base h inh anc mf mt pidx r KR stk cb Hpl Hpp Hh Hs Hcb Hroot f Hf.
    destruct (fast_shape_inv _ _ Hfs) as (a' & b' & E & Ha & Hb & _). inversion E; subst a' b'. clear E.
    rewrite comp_fast_unfold in Hpl, Hpp by exact Hfs. cbv zeta in Hpl, Hpp. cbn [map fst snd] in Hpl, Hpp.
    apply placed_cons in Hpl. destruct Hpl as [G0 Hpl]. apply placed_cons in Hpl. destruct Hpl as [G1 Hpl]. apply placed_cons in Hpl. destruct Hpl as [G2 _].
    apply placedZ_cons in Hpp. destruct Hpp as [Q0 Hpp]. apply placedZ_cons in Hpp. destruct Hpp as [_ Hpp]. apply placedZ_cons in Hpp. destruct Hpp as [Q2 _].
    replace (base + 1 + 1) with (base + 2) in * by lia.
    pose proof (nthZ_range _ _ _ G0) as R0. pose proof (nthZ_range _ _ _ G2) as R2.
    assert (Hsz : size (TOp name true [a; b]) = 3%nat) by (cbn [size fold_right]; rewrite (leaf_size a Ha), (leaf_size b Hb); reflexivity).
    rewrite Hsz in *.
    destruct f as [|f']; [unfold EvalDefs.need in Hf; lia|].
    rewrite tryrun_S. unfold psize. replace (L <=? base) with false by lia.
    unfold Run.getn. rewrite G0. cbn [kind mk]. cbv zeta. rewrite G1, G2.
    rewrite !tleaf_leaf by assumption.
    cbn [Tree.trysem]. rewrite Hfs.
    destruct (tleaf_val fetch cached a) as [tr1 [va|e1]]; cbn [fst snd]; [|reflexivity].
    destruct (tleaf_val fetch cached b) as [tr2 [vb|e2]]; cbn [fst snd]; [|cbn [bindT]; rewrite map_app; reflexivity].
    rewrite tproxy_proxy by (right; reflexivity). rewrite bindT_preR.
    destruct (proxy custom name true [va; vb]) as [tr3 [v|e]]; cbn [fst snd bindT].
    - assert (Hgo : tclimb (length (nodes P)) (tryrun f') (base + 2) (mk lastI (KFast name) 2 mf mt h r) v (lenZ stk - 1) stk = KR v).
      { rewrite Hs. unfold lenZ in R2. destruct (length (nodes P)) as [|[|n]] eqn:En; try lia.
        rewrite <- (app_nil_r stk). rewrite <- (Hroot v n f' [] ltac:(lia) ltac:(unfold EvalDefs.need in *; lia)).
        rewrite tclimb_S. unfold afterT, tmatch. rewrite tflag_mk. destruct (tmatches r v) eqn:Em.
        - unfold climbP at 1. unfold parent_of. rewrite Q2. replace (base =? -1) with false by lia. unfold Run.getn. rewrite G0.
          cbn [kind mk is_cond_kind andb osTop]. rewrite tclimb_S. unfold tmatch. rewrite tflag_mk, Em. unfold parent_of. rewrite Q0. reflexivity.
        - replace (base + 2 + 1) with (base + Z.of_nat 3) by lia. reflexivity. }
      rewrite Hgo, preM_app, !map_app, <- app_assoc. reflexivity.
    - rewrite !map_app. unfold preM. cbn [fst snd]. rewrite <- app_assoc. reflexivity.
  Qed.

  (* ---------- operators ---------- *)

  Lemma bindT_targs_cons name c cs' acc K :
    bindT (trysem_args name (c :: cs') acc) K =
    bindT (trysem c) (fun v => if tmatches (op_kind name) v then K v else bindT (trysem_args name cs' (v :: acc)) K).
  Proof.
    cbn [Tree.trysem_args]. destruct (trysem c) as [tr [v|e]]; [|reflexivity].
    unfold bindT at 2. cbv beta. destruct (tmatches (op_kind name) v).
    - reflexivity.
    - rewrite bindT_preR. reflexivity.
  Qed.

  Lemma args_try name n ridx h_p pn r_p pidx_p KR_p stk0 (cb_p : nat) :
    getn ridx = Some pn -> kind pn = KOp name -> childCnt pn = n -> tflag pn = r_p -> osTop pn = h_p ->
    parent_of P ridx = Some pidx_p -> 0 <= h_p -> lenZ stk0 = h_p ->
    (forall v cf f x, (cb_p <= cf)%nat -> (need (ridx + 1) <= f)%nat ->
       afterT cf (tryrun f) (ridx + 1) r_p pidx_p v h_p (stk0 ++ x) = KR_p v) ->
    forall anc' cs, Forall sub_try cs ->
    forall acc b f,
      placed (nodes P) b (map fst (comp_args lastI (op_kind name) n ridx anc' cs b (h_p + lenZ acc))) ->
      placedZ (parents P) b (map snd (comp_args lastI (op_kind name) n ridx anc' cs b (h_p + lenZ acc))) ->
      b + Z.of_nat (sizes cs) = ridx -> 0 <= b -> lenZ acc + lenZ cs = n ->
      (S cb_p + sizes cs <= length (nodes P))%nat ->
      (need b <= f)%nat ->
      tryrun f b (stk0 ++ rev acc) = bindT (trysem_args name cs acc) KR_p.
  Proof.
    intros Gp Kp Cp Fp OSp Pp Hh Hs0 Hroot anc' cs HF.
    pose proof (nthZ_range _ _ _ Gp) as Rp.
    induction HF as [|c cs' Hc _ IH]; intros acc b f Hpl Hpp Hb Hb0 Hlen Hcb Hf.
    - cbn [sizes fold_right] in Hb. replace b with ridx in * by lia. cbn [Tree.trysem_args].
      destruct f as [|f']; [unfold EvalDefs.need in Hf; lia|].
      rewrite tryrun_S. unfold psize. replace (L <=? ridx) with false by lia.
      rewrite Gp, Kp. cbv zeta. rewrite Cp.
      assert (Hn : n = lenZ acc) by (unfold lenZ in *; cbn [length] in Hlen; lia).
      rewrite lenZ_app. assert (Hra : lenZ (rev acc) = lenZ acc) by (unfold lenZ; rewrite rev_length; reflexivity).
      rewrite Hra. pose proof (lenZ_nonneg acc).
      replace ((n <? 0) || (lenZ stk0 + lenZ acc <? n)) with false by lia.
      replace (Z.to_nat (lenZ stk0 + lenZ acc - n)) with (length stk0) by (unfold lenZ in *; lia).
      rewrite skipn_app, skipn_all, Nat.sub_diag, firstn_app, firstn_all, Nat.sub_diag. cbn [skipn firstn app]. rewrite app_nil_r.
      rewrite tproxy_proxy by (left; exact Kp).
      destruct (proxy custom name false (rev acc)) as [tr [v|e]]; cbn [fst snd bindT]; [|reflexivity].
      f_equal. replace (Z.of_nat (length stk0) - 1) with (h_p - 1) by (unfold lenZ in Hs0; lia).
      assert (Hn1 : (1 <= length (nodes P))%nat) by (unfold lenZ in Rp; lia).
      rewrite (go_afterT f' ridx pn v h_p stk0 r_p pidx_p Fp Pp Hn1).
      rewrite <- (app_nil_r stk0) at 1. apply Hroot; [lia|unfold EvalDefs.need in *; lia].
    - cbn [comp_args] in Hpl, Hpp. cbv zeta in Hpl, Hpp. rewrite map_app in Hpl, Hpp.
      cbn [sizes fold_right] in Hb, Hcb. fold (sizes cs') in Hb, Hcb.
      apply placed_app in Hpl. destruct Hpl as [Hpc Hprest]. rewrite lenZ_map', CompFacts.lenZ_app in Hprest || idtac.
      apply placedZ_app in Hpp. destruct Hpp as [Hqc Hqrest].
      unfold lenZ in Hprest at 1. rewrite map_length, comp_length in Hprest.
      unfold lenZ in Hqrest at 1. rewrite map_length, comp_length in Hqrest.
      pose proof (size_pos c) as Hsz.
      rewrite bindT_targs_cons.
      assert (Hlenstk : lenZ (stk0 ++ rev acc) = h_p + lenZ acc).
      { rewrite lenZ_app. unfold lenZ. rewrite rev_length. unfold lenZ in Hs0. lia. }
      assert (Hal : h_p + lenZ acc < alloc P).
      { match type of Hpc with placed _ _ (map fst (comp ?l ?c0 ?b0 ?h0 ?i0 ?a0 ?f0 ?t0 ?p0 ?r0)) =>
          destruct (comp_first_os l c0 b0 h0 i0 a0 f0 t0 p0 r0) as (nd0 & p0' & rest0 & E0 & Ho) end.
        rewrite E0 in Hpc. cbn [map fst] in Hpc. apply placed_cons in Hpc. destruct Hpc as [G _]. apply SA in G. lia. }
      eapply (Hc b (h_p + lenZ acc) false anc' _ _ ridx (op_kind name) _ (stk0 ++ rev acc) (S cb_p) Hpc Hqc).
      + pose proof (lenZ_nonneg acc). lia.
      + exact Hlenstk.
      + lia.
      + intros v cf f0 x Hcf Hf0. unfold afterT. destruct (tmatches (op_kind name) v) eqn:Em.
        * (* the operand decides: the value is the operator's value *)
          unfold climbP. replace (ridx =? -1) with false by lia. rewrite Gp, Kp. cbn [is_cond_kind andb].
          destruct cf as [|cf']; [lia|]. rewrite tclimb_S. unfold tmatch. rewrite Fp, Pp, OSp.
          rewrite <- app_assoc.
          pose proof (Hroot v cf' f0 (rev acc ++ x) ltac:(lia)) as HR. unfold afterT in HR. unfold climbP in HR at 1.
          apply HR. eapply Nat.le_trans; [|exact Hf0]. apply need_mono. lia.
        * rewrite (store_ok _ _ (h_p + lenZ acc) v (stk0 ++ rev acc) x Hlenstk ltac:(pose proof (lenZ_nonneg acc); lia) Hal).
          replace ((stk0 ++ rev acc) ++ [v]) with (stk0 ++ rev (v :: acc)) by (cbn [rev]; now rewrite app_assoc).
          apply IH.
          -- rewrite lenZ_cons. replace (h_p + (lenZ acc + 1)) with (h_p + lenZ acc + 1) by lia. exact Hprest.
          -- rewrite lenZ_cons. replace (h_p + (lenZ acc + 1)) with (h_p + lenZ acc + 1) by lia. exact Hqrest.
          -- lia.
          -- lia.
          -- rewrite lenZ_cons in *. rewrite lenZ_cons in Hlen. lia.
          -- lia.
          -- exact Hf0.
      + exact Hf.
  Qed.

  Lemma op_try name fast cs : fast_shape fast cs = false -> Forall sub_try cs -> sub_try (TOp name fast cs).
  Proof.
    intros Hfs IH base h inh anc mf mt pidx r KR stk cb Hpl Hpp Hh Hs Hcb Hroot f Hf.
    rewrite trysem_op by exact Hfs. rewrite comp_op_unfold in Hpl, Hpp by exact Hfs. rewrite map_app in Hpl, Hpp.
    set (ridx := base + Z.of_nat (size (TOp name fast cs)) - 1) in *.
    assert (Hsz : size (TOp name fast cs) = S (sizes cs)) by reflexivity.
    pose proof (placed_app _ _ _ _ Hpl) as [Hpa Hpr]. pose proof (placedZ_app _ _ _ _ Hpp) as [Hqa Hqr].
    unfold lenZ in Hpr at 1. rewrite map_length, comp_args_length in Hpr. cbn [map fst] in Hpr.
    unfold lenZ in Hqr at 1. rewrite map_length, comp_args_length in Hqr. cbn [map snd] in Hqr.
    apply placed_cons in Hpr. destruct Hpr as [Gr _]. apply placedZ_cons in Hqr. destruct Hqr as [Qr _].
    replace (base + Z.of_nat (sizes cs)) with ridx in Gr, Qr by (unfold ridx; lia).
    replace (base + Z.of_nat (size (TOp name fast cs))) with (ridx + 1) in * by (unfold ridx; lia).
    pose proof (args_try name (lenZ cs) ridx h (mk lastI (KOp name) (lenZ cs) mf mt h r) r pidx KR stk cb
                  Gr eq_refl eq_refl (tflag_mk _ _ _ _ _ _ _) eq_refl Qr Hh Hs Hroot (if inh then [] else (mf, mt) :: anc) cs IH [] base f) as A.
    cbn [rev] in A. rewrite app_nil_r in A. apply A.
    - change (lenZ (@nil value)) with 0. rewrite Z.add_0_r. exact Hpa.
    - change (lenZ (@nil value)) with 0. rewrite Z.add_0_r. exact Hqa.
    - unfold ridx. lia.
    - apply placed_bound in Hpl. lia.
    - reflexivity.
    - lia.
    - exact Hf.
  Qed.

  (* ---------- if ---------- *)

  Definition tcond_cont (t f : tree) (KR : value -> list obs * mres) (v : value) : list obs * mres :=
    match v with
    | VDNE => KR VDNE
    | VBool true => bindT (trysem t) KR
    | VBool false => bindT (trysem f) KR
    | _ => ([], MErr ECondNotBool)
    end.

  Lemma bindT_tif c t f KR : bindT (trysem (TIf c t f)) KR = bindT (trysem c) (tcond_cont t f KR).
  Proof.
    cbn [Tree.trysem]. destruct (trysem c) as [tr [v|e]]; [|reflexivity].
    destruct v as [z|[]|s|li|ls|si|ss'| | |o]; cbn [bindT tcond_cont]; try (unfold preM; cbn; rewrite app_nil_r; reflexivity);
      try (rewrite bindT_preR; reflexivity); reflexivity.
  Qed.

  Lemma tmatches_dne_bool b : tmatches (Some b) VDNE = false.
  Proof. destruct b; reflexivity. Qed.

  Lemma if_try c t f : sub_try c -> sub_try t -> sub_try f -> sub_try (TIf c t f).
  Proof.
    intros IHc IHt IHf base h inh anc mf mt pidx r KR stk cb Hpl Hpp Hh Hs Hcb Hroot fu Hfu.
    cbn [comp] in Hpl, Hpp. cbv zeta in Hpl, Hpp. cbn [size] in Hcb.
    set (ifidx := base + Z.of_nat (size c)) in *.
    set (tb := ifidx + 1) in *.
    set (fiidx := tb + Z.of_nat (size t)) in *.
    set (fb := fiidx + 1) in *.
    set (endidx := fb + Z.of_nat (size f) - 1) in *.
    assert (Hnext : base + Z.of_nat (size (TIf c t f)) = fb + Z.of_nat (size f)).
    { cbn [size]. unfold fb, fiidx, tb, ifidx. lia. }
    rewrite Hnext in *.
    rewrite !map_app in Hpl, Hpp. cbn [map fst snd] in Hpl, Hpp.
    apply placed_app in Hpl. destruct Hpl as [Hpc Hpl]. unfold lenZ in Hpl at 1. rewrite map_length, comp_length in Hpl. fold ifidx in Hpl.
    apply placed_cons in Hpl. destruct Hpl as [Gif Hpl]. fold tb in Hpl.
    apply placed_app in Hpl. destruct Hpl as [Hpt Hpl]. unfold lenZ in Hpl at 1. rewrite map_length, comp_length in Hpl. fold fiidx in Hpl.
    apply placed_cons in Hpl. destruct Hpl as [Gfi Hpf]. fold fb in Hpf.
    apply placedZ_app in Hpp. destruct Hpp as [Hqc Hpp]. unfold lenZ in Hpp at 1. rewrite map_length, comp_length in Hpp. fold ifidx in Hpp.
    apply placedZ_cons in Hpp. destruct Hpp as [Qif Hpp]. fold tb in Hpp.
    apply placedZ_app in Hpp. destruct Hpp as [Hqt Hpp]. unfold lenZ in Hpp at 1. rewrite map_length, comp_length in Hpp. fold fiidx in Hpp.
    apply placedZ_cons in Hpp. destruct Hpp as [Qfi Hqf]. fold fb in Hqf.
    pose proof (nthZ_range _ _ _ Gif) as Rif. pose proof (nthZ_range _ _ _ Gfi) as Rfi.
    pose proof (size_pos c). pose proof (size_pos t). pose proof (size_pos f).
    pose proof (placed_bound _ _ _ Hpc) as [Hb0 _].
    set (IFN := mk lastI KIf 4 mf fiidx (h - 1) r) in *.
    match type of Gfi with nthZ _ _ = Some ?x => set (FIN := x) in * end.
    assert (KI : kind IFN = KIf) by reflexivity. assert (TI : tflag IFN = r) by apply tflag_mk.
    assert (OI : osTop IFN = h - 1) by reflexivity. assert (SI : scIdx IFN = fiidx) by reflexivity.
    assert (KF : kind FIN = KFi) by reflexivity. assert (OF : osTop FIN = h) by reflexivity. assert (SF : scIdx FIN = endidx) by reflexivity.
    assert (Hal : h < alloc P) by (pose proof (SA _ _ Gfi) as A; rewrite OF in A; exact A).
    (* the last node of the false branch *)
    assert (Ge : exists e, getn endidx = Some e /\ osTop e = h).
    { match type of Hpf with placed _ _ (map fst (comp ?l ?c0 ?b0 ?h0 ?i0 ?a0 ?f0 ?t0 ?p0 ?r0)) =>
        destruct (comp_last_os l c0 b0 h0 i0 a0 f0 t0 p0 r0) as (front & e & pe & Ee & Ho);
        pose proof (comp_length l c0 b0 h0 i0 a0 f0 t0 p0 r0) as Lf end.
      rewrite Ee in Hpf, Lf. rewrite map_app in Hpf. apply placed_app in Hpf. destruct Hpf as [_ Hpe].
      cbn [map fst] in Hpe. apply placed_cons in Hpe. destruct Hpe as [Ge _]. exists e. split; [|exact Ho].
      rewrite app_length in Lf. cbn [length] in Lf. unfold lenZ in Ge. rewrite map_length in Ge.
      replace (fb + Z.of_nat (length front)) with endidx in Ge by (unfold endidx; lia). exact Ge. }
    destruct Ge as (e & Ge & Hoe). unfold Run.getn in Ge.
    (* a deciding value of a branch climbs through the if node to the if's parent *)
    assert (HM : forall cf k v' s, tmatches r v' = true ->
              climbP (S cf) k (Some ifidx) v' s = climbP cf k (Some pidx) v' s).
    { intros cf k v' s Hm. unfold climbP at 1. replace (ifidx =? -1) with false by lia. unfold Run.getn. rewrite Gif.
      rewrite KI. cbn [is_cond_kind]. unfold tmatch. rewrite TI, Hm. cbn [negb andb].
      rewrite tclimb_S. unfold tmatch. rewrite TI, Hm. unfold parent_of. rewrite Qif. reflexivity. }
    assert (HrootM : forall v' cf f0 x, tmatches r v' = true -> (S cb <= cf)%nat -> (need (fb + Z.of_nat (size f)) <= f0)%nat ->
              climbP cf (tryrun f0) (Some ifidx) v' (stk ++ x) = KR v').
    { intros v' cf f0 x Hm Hcf Hf0. destruct cf as [|cf']; [lia|]. rewrite HM by exact Hm.
      rewrite <- (Hroot v' cf' f0 x ltac:(lia) Hf0). unfold afterT. rewrite Hm. reflexivity. }
    assert (HrootN : forall v' f0, tmatches r v' = false -> (need (fb + Z.of_nat (size f)) <= f0)%nat ->
              tryrun f0 (fb + Z.of_nat (size f)) (stk ++ [v']) = KR v').
    { intros v' f0 Hm Hf0. rewrite <- (Hroot v' cb f0 [] ltac:(lia) Hf0). unfold afterT. rewrite Hm.
      rewrite (store_ok _ _ h v' stk [] Hs Hh Hal). reflexivity. }
    rewrite bindT_tif.
    eapply (IHc base h false [] fnone (root_idx c base) ifidx None _ stk (S cb) Hpc Hqc Hh Hs).
    - lia.
    - fold ifidx. intros v cf f0 x Hcf Hf0. unfold afterT. cbn [tmatches].
      destruct (is_dne v) eqn:Ed.
      + (* the condition is unknown: so is the if *)
        destruct v; try discriminate. cbn [tcond_cont].
        destruct r as [bb|].
        * unfold climbP. replace (ifidx =? -1) with false by lia. unfold Run.getn. rewrite Gif.
          rewrite KI. cbn [is_cond_kind]. unfold tmatch. rewrite TI, tmatches_dne_bool. cbn [negb andb].
          rewrite SI, Gfi. cbv zeta. rewrite SF, Ge, Hoe.
          replace (endidx + 1) with (fb + Z.of_nat (size f)) by (unfold endidx; lia).
          rewrite <- (Hroot VDNE cf f0 x ltac:(lia) ltac:(eapply Nat.le_trans; [|exact Hf0]; apply need_mono; unfold fb, fiidx, tb; lia)).
          unfold afterT. rewrite tmatches_dne_bool. reflexivity.
        * apply HrootM; [reflexivity|exact Hcf|]. eapply Nat.le_trans; [|exact Hf0]. apply need_mono. unfold fb, fiidx, tb. lia.
      + rewrite (store_ok _ _ h v stk x Hs Hh Hal).
        destruct f0 as [|f1]; [unfold EvalDefs.need in Hf0; lia|].
        rewrite tryrun_S. unfold psize. replace (L <=? ifidx) with false by lia.
        unfold Run.getn. rewrite Gif, KI. rewrite rev_app_distr. cbn [rev app].
        destruct v as [z|[]|s|li|ls|si|ss'| | |o]; cbn [tcond_cont]; try reflexivity; try discriminate.
        * (* true *)
          rewrite rev_involutive. fold tb.
          eapply (IHt tb h true [] _ _ ifidx r KR stk (S cb) Hpt Hqt Hh Hs).
          -- lia.
          -- fold fiidx. intros v' cf' f2 x' Hcf' Hf2. unfold afterT. destruct (tmatches r v') eqn:Em.
             ++ apply HrootM; [exact Em|exact Hcf'|]. eapply Nat.le_trans; [|exact Hf2]. apply need_mono. unfold fb. lia.
             ++ rewrite (store_ok _ _ h v' stk x' Hs Hh Hal).
                destruct f2 as [|f3]; [unfold EvalDefs.need in Hf2; lia|].
                rewrite tryrun_S. unfold psize. replace (L <=? fiidx) with false by lia.
                unfold Run.getn. rewrite Gfi, KF, OF, SF.
                destruct (stk ++ [v']) eqn:Es'; [destruct stk; discriminate|]. rewrite <- Es'.
                rewrite lenZ_app. change (lenZ [v']) with 1.
                replace ((h + 1 <? 0) || (lenZ stk + 1 <? h + 1)) with false by lia.
                replace (h + 1) with (lenZ (stk ++ [v'])) by (rewrite lenZ_app; change (lenZ [v']) with 1; lia).
                rewrite firstnZ_all. replace (endidx + 1) with (fb + Z.of_nat (size f)) by (unfold endidx; lia).
                apply (HrootN v' f3); [exact Em|]. unfold EvalDefs.need in *. unfold fb in *. lia.
          -- unfold EvalDefs.need in *. unfold tb. lia.
        * (* false *)
          rewrite OI, SI. rewrite rev_involutive.
          assert (Hlr : lenZ (rev stk) = h) by (unfold lenZ in *; rewrite rev_length; exact Hs).
          replace ((h - 1 + 1 <? 0) || (lenZ (rev stk) <? h - 1 + 1)) with false by lia.
          replace (h - 1 + 1) with (lenZ stk) by lia. rewrite firstnZ_all. fold fb.
          eapply (IHf fb h true [] _ _ ifidx r KR stk (S cb) Hpf Hqf Hh Hs).
          -- lia.
          -- intros v' cf' f2 x' Hcf' Hf2. unfold afterT. destruct (tmatches r v') eqn:Em.
             ++ apply HrootM; [exact Em|exact Hcf'|exact Hf2].
             ++ rewrite (store_ok _ _ h v' stk x' Hs Hh Hal). apply (HrootN v' f2); [exact Em|exact Hf2].
          -- unfold EvalDefs.need in *. unfold fb, fiidx, tb in *. lia.
    - exact Hfu.
  Qed.

  Theorem try_all : forall t, sub_try t.
  Proof.
    induction t as [v|n k|name fast cs IH|c t f IHc IHt IHf] using tree_ind2.
    - apply leaf_try. reflexivity.
    - apply leaf_try. reflexivity.
    - destruct (fast_shape fast cs) eqn:Hfs.
      + destruct (fast_shape_inv _ _ Hfs) as (a & b & -> & Ha & Hb & ->). apply fast_try. exact Hfs.
      + apply op_try; assumption.
    - apply if_try; assumption.
  Qed.
End M.

(* ---------- T-TRY, machine level ---------- *)

Theorem tryrun_compile_correct fetch custom cached t :
  tryeval fetch custom cached (compile t) = sem_obs (trysem fetch custom cached t).
Proof.
  set (P := compile t).
  pose proof (try_all fetch custom cached P (compile_alloc t) t 0 0 false [] fnone (root_idx t 0) (-1) None
                (fun v => ([], MVal v)) [] 0%nat) as H.
  unfold tryeval. rewrite H.
  - unfold sem_obs, bindT. destruct (trysem fetch custom cached t) as [tr [v|e]]; cbn [fst snd]; [|reflexivity].
    unfold preM. cbn [fst snd]. rewrite app_nil_r. reflexivity.
  - exists [], []. split; [|reflexivity]. rewrite app_nil_r. cbn [app].
    unfold lastI. unfold P. rewrite compile_len. apply compile_nodes.
  - exists [], []. split; [|reflexivity]. rewrite app_nil_r. cbn [app].
    unfold lastI. unfold P. rewrite compile_len. reflexivity.
  - lia.
  - reflexivity.
  - unfold P. rewrite compile_nodes, map_length, comp_length. lia.
  - intros v cf f x _ Hf. rewrite Z.add_0_l. unfold afterT. cbn [tmatches]. destruct (is_dne v) eqn:Ed.
    + reflexivity.
    + pose proof (alloc_pos t) as Ha. fold P in Ha.
      rewrite (store_ok P _ _ 0 v [] x eq_refl ltac:(lia) ltac:(lia)). cbn [app].
      destruct f as [|f']; [unfold need in Hf; lia|].
      rewrite tryrun_S. unfold psize, P. rewrite compile_len. replace (Z.of_nat (size t) <=? Z.of_nat (size t)) with true by lia.
      reflexivity.
  - unfold need, P. rewrite compile_len. unfold lenZ. fold P.
    assert (length (nodes P) = size t) by (unfold P; rewrite compile_nodes, map_length, comp_length; reflexivity). lia.
Qed.

Print Assumptions tryrun_compile_correct.
