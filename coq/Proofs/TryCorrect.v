(* TryCorrect.v — T-TRY at machine level: the model of Expr.TryEval run on the compiled program computes `trysem`,
   the tree-level meaning of TryEval, for every tree, fetcher, operator table and availability predicate: same value
   or error, same fetches and operator applications, no panic, no fuel exhaustion. *)
Require Import Base Opcode Tables Ops Tree Opt Flat Run CompFacts TryFacts EvalDefs EvalTop.
From Coq Require Import ZifyBool.
Open Scope Z_scope.
Open Scope list_scope.

(* placement of parent entries *)
Definition placedZ (P : list Z) (base : Z) (code : list Z) : Prop :=
  exists pre post, P = pre ++ code ++ post /\ lenZ pre = base.

Lemma placedZ_get P base code k p :
  placedZ P base code -> nth_error code k = Some p -> nthZ P (base + Z.of_nat k) = Some p.
Proof.
  intros (pre & post & -> & <-) H. unfold nthZ, lenZ.
  replace (Z.of_nat (length pre) + Z.of_nat k <? 0) with false by lia.
  replace (Z.to_nat (Z.of_nat (length pre) + Z.of_nat k)) with (length pre + k)%nat by lia.
  rewrite nth_error_app2 by lia. replace (length pre + k - length pre)%nat with k by lia.
  rewrite nth_error_app1; [assumption|]. apply nth_error_Some. congruence.
Qed.

Lemma placedZ_app P base a b : placedZ P base (a ++ b) -> placedZ P base a /\ placedZ P (base + lenZ a) b.
Proof.
  intros (pre & post & -> & <-). split.
  - exists pre, (b ++ post). now rewrite <- app_assoc.
  - exists (pre ++ a), post. rewrite lenZ_app, <- !app_assoc. split; reflexivity.
Qed.

Lemma placedZ_cons P base x l : placedZ P base (x :: l) -> nthZ P base = Some x /\ placedZ P (base + 1) l.
Proof.
  intros H. change (x :: l) with ([x] ++ l) in H. apply placedZ_app in H. destruct H as [H1 H2]. split.
  - replace base with (base + Z.of_nat 0) by lia. eapply placedZ_get; [exact H1|reflexivity].
  - exact H2.
Qed.

Lemma lenZ_map' {A B} (f : A -> B) l : lenZ (map f l) = lenZ l.
Proof. unfold lenZ. rewrite map_length. reflexivity. Qed.

(* the first node of a subtree's code writes the subtree's own slot *)
Lemma comp_first_os last t : forall base h inh anc mf mt pidx r,
  exists nd p rest, comp last t base h inh anc mf mt pidx r = (nd, p) :: rest /\ osTop nd = h.
Proof.
  induction t as [v|n k|name fast cs IH|c t f IHc IHt IHf] using tree_ind2; intros.
  - cbn [comp]. eexists _, _, _. split; reflexivity.
  - cbn [comp]. eexists _, _, _. split; reflexivity.
  - destruct (fast_shape fast cs) eqn:Hf.
    + destruct (fast_shape_inv _ _ Hf) as (a & b & -> & Ha & Hb & ->).
      rewrite comp_fast_unfold by exact Hf. cbv zeta. eexists _, _, _. split; reflexivity.
    + rewrite comp_op_unfold by exact Hf. destruct cs as [|c cs].
      * cbn [comp_args app]. eexists _, _, _. split; reflexivity.
      * cbn [comp_args]. cbv zeta. inversion IH as [|? ? Hc _]; subst.
        match goal with |- context [comp last c ?b ?hh ?i ?an ?f ?tg ?pp ?rr] => destruct (Hc b hh i an f tg pp rr) as (nd & p & rest & E & Ho) end.
        rewrite E. cbn [app]. eexists _, _, _. split; [reflexivity|exact Ho].
  - cbn [comp]. cbv zeta.
    match goal with |- context [comp last c ?b ?hh ?i ?an ?f0 ?tg ?pp ?rr] => destruct (IHc b hh i an f0 tg pp rr) as (nd & p & rest & E & Ho) end.
    rewrite E. cbn [app]. eexists _, _, _. split; [reflexivity|exact Ho].
Qed.

(* the last node of a subtree's code writes the subtree's own slot *)
Lemma comp_last_os last t : forall base h inh anc mf mt pidx r,
  exists front nd p, comp last t base h inh anc mf mt pidx r = front ++ [(nd, p)] /\ osTop nd = h.
Proof.
  induction t as [v|n k|name fast cs IH|c t f IHc IHt IHf] using tree_ind2; intros.
  - cbn [comp]. exists [], (mk last (KConst v) 0 mf mt h r), pidx. split; reflexivity.
  - cbn [comp]. exists [], (mk last (KVar n k) 0 mf mt h r), pidx. split; reflexivity.
  - destruct (fast_shape fast cs) eqn:Hf.
    + destruct (fast_shape_inv _ _ Hf) as (a & b & -> & Ha & Hb & ->).
      rewrite comp_fast_unfold by exact Hf. cbv zeta. eexists [_; _], _, _. split; reflexivity.
    + rewrite comp_op_unfold by exact Hf. eexists _, _, _. split; reflexivity.
  - cbn [comp]. cbv zeta.
    match goal with |- context [comp last f ?b ?hh ?i ?an ?f0 ?tg ?pp ?rr] => destruct (IHf b hh i an f0 tg pp rr) as (front & nd & p & E & Ho) end.
    rewrite E. eexists _, nd, p. split; [|exact Ho]. rewrite !app_assoc. reflexivity.
Qed.

Lemma tflag_mk last k cnt mf mt h r : tflag (mk last k cnt mf mt h r) = r.
Proof. destruct r as [[]|]; reflexivity. Qed.

Section M.
  Variable fetch : str -> Z -> res value.
  Variable custom : str -> list value -> res value.
  Variable cached : str -> Z -> bool.
  Variable P : prog.

  Notation L := (lenZ (nodes P)).
  Notation getn := (getn P).
  Notation tryrun := (tryrun fetch custom cached P).
  Notation tclimb := (tclimb P).
  Notation lastI := (lastI P).
  Notation need := (need P).
  Notation trysem := (trysem fetch custom cached).
  Notation trysem_args := (trysem_args fetch custom cached).

  Hypothesis SA : forall i nd, getn i = Some nd -> osTop nd < alloc P.

  (* the step from a node to its parent in the `for matchesShortCircuit` loop *)
  Definition climbP (cf : nat) (k : Z -> list value -> list obs * mres) (pi : option Z) (v : value) (stk : list value)
    : list obs * mres :=
    match pi with
    | None => ([], MPanic 20)
    | Some pi =>
      if pi =? -1 then ([], MVal v) else
      match getn pi with
      | None => ([], MPanic 21)
      | Some p =>
        if is_cond_kind (kind p) && negb (tmatch p v) then
          match getn (scIdx p) with
          | None => ([], MPanic 22)
          | Some fi =>
            let j := scIdx fi in
            match getn j with
            | None => ([], MPanic 23)
            | Some e => store_at P k (j + 1) (osTop e - 1) v stk
            end
          end
        else tclimb cf k pi p v (osTop p - 1) stk
      end
    end.

  Lemma tclimb_S cf k i nd v top stk : tclimb (S cf) k i nd v top stk =
    if tmatch nd v then climbP cf k (parent_of P i) v stk else store_at P k (i + 1) top v stk.
  Proof. reflexivity. Qed.

  (* what happens to the value v of a subtree whose root has parent flag r and parent index pidx, the subtree's
     slot being h and the next instruction `next` *)
  Definition afterT (cf : nat) (k : Z -> list value -> list obs * mres) (next : Z) (r : rco) (pidx : Z) (v : value)
                    (h : Z) (stk : list value) : list obs * mres :=
    if tmatches r v then climbP cf k (Some pidx) v stk else store_at P k next (h - 1) v stk.
End M.
