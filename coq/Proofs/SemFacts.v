(* SemFacts.v — facts about the reference semantics used by several properties:
   the last-operand rule of and/or is the operator's own result on boolean operands; what a deciding operand
   and an untaken branch contribute (nothing); optimisations switched off leave the tree alone. *)
Require Import Base Opcode Tables Ops Tree Opt OpsArith OpsList.
From Coq Require Import ZifyBool.
Open Scope Z_scope.
Open Scope list_scope.

(* ---------- the generated alias sets name the boolean folds ---------- *)

Definition and_table_ok : bool :=
  forallb (fun k => match builtin (ss k) with Some (OLogic LAnd) => true | _ => false end) and_aliases.
Definition or_table_ok : bool :=
  forallb (fun k => match builtin (ss k) with Some (OLogic LOr) => true | _ => false end) or_aliases.
Definition bool_aliases_disjoint : bool :=
  forallb (fun k => negb (existsb (String.eqb k) or_aliases)) and_aliases.

Lemma alias_tables_ok : and_table_ok = true /\ or_table_ok = true /\ bool_aliases_disjoint = true.
Proof. vm_compute. repeat split. Qed.

Lemma in_names_inv name l : in_names name l = true -> exists k, In k l /\ name = ss k.
Proof.
  unfold in_names. rewrite existsb_exists. intros [k [Hk He]]. exists k. split; [exact Hk|].
  apply list_eqb_N_eq. exact He.
Qed.

Lemma is_and_builtin name : is_and name = true -> builtin name = Some (OLogic LAnd).
Proof.
  intros H. destruct (in_names_inv _ _ H) as [k [Hk ->]].
  destruct alias_tables_ok as [Ha _]. unfold and_table_ok in Ha. rewrite forallb_forall in Ha. specialize (Ha k Hk).
  destruct (builtin (ss k)) as [[| [] | | | | | | | | |]|]; try discriminate. reflexivity.
Qed.

Lemma is_or_builtin name : is_or name = true -> builtin name = Some (OLogic LOr).
Proof.
  intros H. destruct (in_names_inv _ _ H) as [k [Hk ->]].
  destruct alias_tables_ok as [_ [Ho _]]. unfold or_table_ok in Ho. rewrite forallb_forall in Ho. specialize (Ho k Hk).
  destruct (builtin (ss k)) as [[| [] | | | | | | | | |]|]; try discriminate. reflexivity.
Qed.

Lemma op_kind_and name : op_kind name = Some false -> is_and name = true.
Proof. unfold op_kind. destruct (is_and name); [reflexivity|]. destruct (is_or name); discriminate. Qed.
Lemma op_kind_or name : op_kind name = Some true -> is_or name = true /\ is_and name = false.
Proof. unfold op_kind. destruct (is_and name); [discriminate|]. destruct (is_or name); [auto|discriminate]. Qed.

Lemma map_repeat' {A B} (f : A -> B) x n : map f (repeat x n) = repeat (f x) n.
Proof. induction n; cbn; [reflexivity|]. f_equal. assumption. Qed.

Lemma existsb_repeat_false n b : existsb (fun x : bool => x) (repeat false n ++ [b]) = b.
Proof. induction n; cbn; [destruct b; reflexivity|assumption]. Qed.
Lemma forallb_repeat_true n b : forallb (fun x : bool => x) (repeat true n ++ [b]) = b.
Proof. induction n; cbn; [destruct b; reflexivity|assumption]. Qed.

Lemma or_repeat n b : logic LOr (bools (repeat false (S n) ++ [b])) = Ok (VBool b).
Proof.
  destruct n as [|n]; cbn [repeat app].
  - rewrite logic_or_any. cbn. destruct b; reflexivity.
  - rewrite logic_or_any. cbn [existsb orb]. rewrite existsb_repeat_false. reflexivity.
Qed.
Lemma and_repeat n b : logic LAnd (bools (repeat true (S n) ++ [b])) = Ok (VBool b).
Proof.
  destruct n as [|n]; cbn [repeat app].
  - rewrite logic_and_all. cbn. destruct b; reflexivity.
  - rewrite logic_and_all. cbn [forallb andb]. rewrite forallb_repeat_true. reflexivity.
Qed.

Section S.
  Variable fetch : str -> Z -> res value.
  Variable custom : str -> list value -> res value.

  (* ---------- the last-operand rule ---------- *)
  (* when every earlier operand was a non-deciding boolean, applying the operator to all operands yields the
     last operand's value: returning it directly (what the engine does) is the operator's own result *)
  Theorem last_operand_rule name d b acc :
    op_kind name = Some d -> acc <> [] -> Forall (fun v => v = VBool (negb d)) acc ->
    apply_op custom name (rev (VBool b :: acc)) = Ok (VBool b).
  Proof.
    intros Hk Hne Hacc. unfold apply_op.
    assert (Hrev : rev (VBool b :: acc) = bools (repeat (negb d) (length acc) ++ [b])).
    { cbn [rev]. unfold bools. rewrite map_app, map_repeat'. cbn [map]. f_equal.
      clear Hne. induction Hacc as [|v acc Hv _ IH]; [reflexivity|]. subst v. cbn [rev length].
      rewrite IH. rewrite <- repeat_cons. reflexivity. }
    rewrite Hrev. destruct acc as [|a0 acc']; [congruence|]. cbn [length].
    destruct d.
    - destruct (op_kind_or _ Hk) as [Ho _]. rewrite (is_or_builtin _ Ho). cbn [apply_opcode negb]. apply or_repeat.
    - rewrite (is_and_builtin _ (op_kind_and _ Hk)). cbn [apply_opcode negb]. apply and_repeat.
  Qed.

  (* ---------- what is not evaluated ---------- *)

  (* a deciding operand ends the operator: nothing of the later operands is evaluated *)
  Theorem deciding_operand_stops name d c cs' acc tr :
    op_kind name = Some d -> sem fetch custom c = (tr, Ok (VBool d)) ->
    sem_args fetch custom name (c :: cs') acc = (tr, Ok (VBool d)).
  Proof.
    intros Hk Hc. cbn [sem_args]. rewrite Hc, Hk. cbn [operand_result]. rewrite Bool.eqb_reflx. reflexivity.
  Qed.

  (* a failing operand ends the operator with that very error *)
  Theorem failing_operand_stops name c cs' acc tr e :
    sem fetch custom c = (tr, Err e) -> sem_args fetch custom name (c :: cs') acc = (tr, Err e).
  Proof. intros Hc. cbn [sem_args]. rewrite Hc. reflexivity. Qed.

  (* exactly one branch of an `if` is evaluated *)
  Theorem if_true_branch c t f tr : sem fetch custom c = (tr, Ok (VBool true)) ->
    sem fetch custom (TIf c t f) = pre tr (sem fetch custom t).
  Proof. intros H. cbn [sem]. rewrite H. reflexivity. Qed.
  Theorem if_false_branch c t f tr : sem fetch custom c = (tr, Ok (VBool false)) ->
    sem fetch custom (TIf c t f) = pre tr (sem fetch custom f).
  Proof. intros H. cbn [sem]. rewrite H. reflexivity. Qed.
  Theorem if_cond_not_bool c t f tr v : sem fetch custom c = (tr, Ok v) -> (forall b, v <> VBool b) ->
    sem fetch custom (TIf c t f) = (tr, Err ECondNotBool).
  Proof. intros H Hv. cbn [sem]. rewrite H. destruct v; try reflexivity. exfalso. eapply Hv; reflexivity. Qed.
  Theorem if_cond_fails c t f tr e : sem fetch custom c = (tr, Err e) ->
    sem fetch custom (TIf c t f) = (tr, Err e).
  Proof. intros H. cbn [sem]. rewrite H. reflexivity. Qed.

  (* the one liberty of FastEvaluation: both leaves are fetched (in order), then the operator is applied *)
  Theorem fast_meaning name a b : fast_shape true [a; b] = true ->
    sem fetch custom (TOp name true [a; b]) = sem_fast fetch custom name a b.
  Proof. intros H. cbn [sem]. rewrite H. reflexivity. Qed.

  (* ---------- optimisations switched off ---------- *)

  Theorem optimize_off cfg t :
    (forall name, In name optimizations_order -> pass_on cfg name = false) -> optimize custom cfg t = t.
  Proof.
    intros H. unfold optimize. induction optimizations_order as [|n l IH]; [reflexivity|].
    cbn [fold_left]. rewrite (H n (or_introl eq_refl)). apply IH. intros m Hm. apply H. right. exact Hm.
  Qed.
End S.
