(* OptTotal.v — C02, second clause: when evaluating every reachable operand succeeds, ALL configurations (any subset
   of the four optimisations, Reordering included, any cost map, any stateless declarations) return that value.
   "Every reachable operand succeeds" is `rok t = Some v`: the strict evaluation — all operands of every operator,
   whatever their order, and the taken branch of every `if` — succeeds with v. Every pass preserves it, and it
   implies that left-to-right short-circuit evaluation returns v. *)
Require Import Base Opcode Tables Ops Tree Opt Flat Run CompFacts OpsArith SemFacts Reorder Fold TryFacts EvalDefs EvalCorrect OptSound OptValue.
From Coq Require Import ZifyBool Permutation.
Open Scope Z_scope.
Open Scope list_scope.

Section R.
  Variable fetch : str -> Z -> res value.
  Variable custom : str -> list value -> res value.
  Notation apply_op := (apply_op custom).
  Notation val := (val fetch custom).
  Notation vargs := (vargs fetch custom).

  Definition ro (r : res value) : option value := match r with Ok v => Some v | Err _ => None end.

  Fixpoint rok (t : tree) : option value :=
    match t with
    | TConst v => Some v
    | TVar n k => ro (fetch n k)
    | TOp name _ cs => match all_some (map rok cs) with Some vs => ro (apply_op name vs) | None => None end
    | TIf c t f => match rok c with Some (VBool true) => rok t | Some (VBool false) => rok f | _ => None end
    end.

  (* ---------- and/or applied to a list ---------- *)

  Definition bval (d : bool) (bs : list bool) : bool := if existsb (Bool.eqb d) bs then d else negb d.

  Lemma boolop_bools name d bs : op_kind name = Some d -> (2 <= length bs)%nat ->
    apply_op name (bools bs) = Ok (VBool (bval d bs)).
  Proof.
    intros Hk Hl. destruct bs as [|a [|b bs]]; cbn [length] in Hl; try lia. unfold Tree.apply_op, bval. destruct d.
    - destruct (op_kind_or _ Hk) as [Ho _]. rewrite (is_or_builtin _ Ho). cbn [apply_opcode]. rewrite logic_or_any. do 2 f_equal.
      generalize (a :: b :: bs). intros l. induction l as [|x l IH]; [reflexivity|]. cbn [existsb]. rewrite IH.
      destruct x; cbn; [reflexivity|]. destruct (existsb (Bool.eqb true) l); reflexivity.
    - rewrite (is_and_builtin _ (op_kind_and _ Hk)). cbn [apply_opcode]. rewrite logic_and_all. do 2 f_equal.
      generalize (a :: b :: bs). intros l. induction l as [|x l IH]; [reflexivity|]. cbn [forallb existsb]. rewrite IH.
      destruct x; cbn; [|reflexivity]. destruct (existsb (Bool.eqb false) l); reflexivity.
  Qed.

  Lemma boolop_inv name d ps r : op_kind name = Some d -> apply_op name ps = Ok r ->
    exists bs, ps = bools bs /\ (2 <= length bs)%nat /\ r = VBool (bval d bs).
  Proof.
    intros Hk H.
    assert (Hl : exists m, builtin name = Some (OLogic m)).
    { destruct d; [destruct (op_kind_or _ Hk) as [Ho _]; rewrite (is_or_builtin _ Ho); eauto|rewrite (is_and_builtin _ (op_kind_and _ Hk)); eauto]. }
    destruct Hl as [m Hm]. pose proof H as H'. unfold Tree.apply_op in H'. rewrite Hm in H'. cbn [apply_opcode] in H'.
    destruct (logic_ok_inv _ _ _ H') as (bs & -> & Hl). exists bs. split; [reflexivity|]. split; [exact Hl|].
    rewrite (boolop_bools name d bs Hk Hl) in H. inversion H. reflexivity.
  Qed.

  Lemma bval_perm d bs bs' : Permutation bs bs' -> bval d bs = bval d bs'.
  Proof. intros H. unfold bval. rewrite (existsb_perm _ _ _ H). reflexivity. Qed.

  Lemma bval_splice d xs g ys : bval d (xs ++ bval d g :: ys) = bval d (xs ++ g ++ ys).
  Proof.
    unfold bval. rewrite !existsb_app. cbn [existsb].
    destruct (existsb (Bool.eqb d) xs); [reflexivity|]. cbn [orb].
    destruct (existsb (Bool.eqb d) g); [rewrite Bool.eqb_reflx; reflexivity|].
    replace (Bool.eqb d (negb d)) with false by (destruct d; reflexivity). reflexivity.
  Qed.

  (* ---------- lists of strict results ---------- *)

  Lemma all_some_app {A} (a b : list (option A)) :
    all_some (a ++ b) = match all_some a, all_some b with Some x, Some y => Some (x ++ y) | _, _ => None end.
  Proof.
    induction a as [|[x|] a IH]; cbn [app all_some].
    - destruct (all_some b); reflexivity.
    - rewrite IH. destruct (all_some a), (all_some b); reflexivity.
    - reflexivity.
  Qed.

  Lemma all_some_perm {A} (l l' : list (option A)) : Permutation l l' -> forall vs, all_some l = Some vs ->
    exists vs', all_some l' = Some vs' /\ Permutation vs vs'.
  Proof.
    induction 1 as [|x l l' Hp IH|x y l|l l' l'' H1 IH1 H2 IH2]; intros vs Hs.
    - cbn in Hs. inversion Hs. exists []. split; [reflexivity|constructor].
    - destruct x as [x|]; cbn [all_some] in *; [|discriminate]. destruct (all_some l) as [r|] eqn:E; [|discriminate]. inversion Hs; subst.
      destruct (IH r eq_refl) as (r' & E' & Hr). rewrite E'. exists (x :: r'). split; [reflexivity|constructor; exact Hr].
    - destruct x as [x|], y as [y|]; cbn [all_some] in *; try discriminate; try (destruct (all_some l); discriminate).
      destruct (all_some l) as [r|] eqn:E; [|discriminate]. inversion Hs; subst. exists (x :: y :: r). split; [reflexivity|constructor].
    - destruct (IH1 vs Hs) as (v1 & E1 & P1). destruct (IH2 v1 E1) as (v2 & E2 & P2). exists v2. split; [exact E2|eapply Permutation_trans; eauto].
  Qed.

  Lemma rok_children (g : tree -> tree) cs : Forall (fun c => forall v, rok c = Some v -> rok (g c) = Some v) cs ->
    forall vs, all_some (map rok cs) = Some vs -> all_some (map rok (map g cs)) = Some vs.
  Proof.
    induction 1 as [|c cs Hc _ IH]; intros vs H; [exact H|]. cbn [map all_some] in *.
    destruct (rok c) as [v|] eqn:Ec; [|discriminate]. rewrite (Hc v eq_refl).
    destruct (all_some (map rok cs)) as [r|] eqn:E; [|discriminate]. rewrite (IH r eq_refl). exact H.
  Qed.

  (* ---------- fast marking ---------- *)
  Lemma rok_fastp : forall t, rok (fastp t) = rok t.
  Proof.
    induction t as [v|n k|name fast cs IH|c t f IHc IHt IHf] using tree_ind2; try reflexivity.
    - cbn [fastp rok]. rewrite map_map. replace (map (fun x => rok (fastp x)) cs) with (map rok cs); [reflexivity|].
      induction IH as [|c cs' Hc _ IHl]; [reflexivity|]. cbn [map]. rewrite Hc, IHl. reflexivity.
    - cbn [fastp rok]. rewrite IHc, IHt, IHf. reflexivity.
  Qed.

  (* ---------- reordering, for any permutation-returning sorter ---------- *)
  Section Re.
    Variable sorter : list tree -> list tree.
    Hypothesis sorter_perm : forall l, Permutation (sorter l) l.

    Lemma rok_reorder : forall t v, rok t = Some v -> rok (reorder_with sorter t) = Some v.
    Proof.
      induction t as [v0|n k|name fast cs IH|c t f IHc IHt IHf] using tree_ind2; intros v H; try exact H.
      - cbn [reorder_with rok] in *. destruct (all_some (map rok cs)) as [vs|] eqn:E; [|discriminate].
        pose proof (rok_children (reorder_with sorter) cs IH vs E) as E'.
        destruct (is_boolop name) eqn:Hb; [|rewrite E'; exact H].
        assert (Hk : op_kind name = Some (negb (is_and name))) by (apply boolop_kind; [exact Hb|apply Bool.eqb_reflx]).
        set (d := negb (is_and name)) in *.
        destruct (apply_op name vs) as [r|e] eqn:Ea; [|discriminate]. cbn [ro] in H. inversion H; subst r.
        destruct (boolop_inv name d vs v Hk Ea) as (bs & -> & Hl & ->).
        assert (Hp : Permutation (map rok (map (reorder_with sorter) cs)) (map rok (sorter (map (reorder_with sorter) cs)))).
        { apply Permutation_map. apply Permutation_sym. apply sorter_perm. }
        destruct (all_some_perm _ _ Hp _ E') as (vs' & Es' & Pv). rewrite Es'.
        unfold bools in Pv. destruct (Permutation_map_inv _ _ (Permutation_sym Pv)) as (bs' & -> & Pb).
        fold (bools bs'). rewrite (boolop_bools name d bs' Hk) by (rewrite <- (Permutation_length Pb); exact Hl).
        cbn [ro]. rewrite (bval_perm d bs' bs (Permutation_sym Pb)). reflexivity.
      - cbn [reorder_with rok] in *. destruct (rok c) as [vc|] eqn:Ec; [|discriminate]. rewrite (IHc vc eq_refl).
        destruct vc as [z|[]|s|li|ls|si|ss'| | |o]; try discriminate; [apply IHt|apply IHf]; exact H.
    Qed.
  End Re.

  (* ---------- nesting reduction ---------- *)

  Lemma flatten_rok ra d : (forall n, is_boolop n = true -> Bool.eqb (is_and n) ra = true -> op_kind n = Some d) ->
    forall cs l, flatten ra cs = Some l -> forall bs, all_some (map rok cs) = Some (bools bs) ->
    exists bl, all_some (map rok l) = Some (bools bl) /\ (length bs <= length bl)%nat /\
               forall pre, bval d (pre ++ bl) = bval d (pre ++ bs).
  Proof.
    intros Hd. induction cs as [|c cs IH]; intros l Hf bs Hs; cbn [flatten] in Hf.
    - inversion Hf; subst. cbn [map all_some] in Hs. inversion Hs as [Hb]. destruct bs; [|discriminate].
      exists []. split; [reflexivity|]. split; [lia|reflexivity].
    - cbn [map all_some] in Hs. destruct (rok c) as [vc|] eqn:Ec; [|discriminate].
      destruct (all_some (map rok cs)) as [vr|] eqn:Er; [|discriminate]. inversion Hs as [Hb]. destruct bs as [|b0 bs']; [discriminate|].
      cbn [bools map] in Hb. inversion Hb; subst vc vr. clear Hb Hs.
      assert (Leaf : forall l', flatten ra cs = Some l' -> l = c :: l' ->
                exists bl, all_some (map rok l) = Some (bools bl) /\ (length (b0 :: bs') <= length bl)%nat /\
                           forall pre, bval d (pre ++ bl) = bval d (pre ++ b0 :: bs')).
      { intros l' E ->. destruct (IH l' E bs' eq_refl) as (bl & E1 & L1 & B1). exists (b0 :: bl).
        cbn [map all_some]. rewrite Ec, E1. split; [reflexivity|]. split; [cbn [length]; lia|].
        intros pre. replace (pre ++ b0 :: bl) with ((pre ++ [b0]) ++ bl) by (rewrite <- app_assoc; reflexivity).
        rewrite B1, <- app_assoc. reflexivity. }
      destruct c as [v|n k|n fast gcs|c1 c2 c3].
      + destruct (flatten ra cs) as [l'|] eqn:E; [|discriminate]. inversion Hf; subst. apply (Leaf l' eq_refl eq_refl).
      + destruct (flatten ra cs) as [l'|] eqn:E; [|discriminate]. inversion Hf; subst. apply (Leaf l' eq_refl eq_refl).
      + destruct (is_boolop n && Bool.eqb (is_and n) ra) eqn:Eb; [|discriminate]. apply andb_prop in Eb. destruct Eb as [Eb1 Eb2].
        destruct (flatten ra cs) as [l'|] eqn:E; [|discriminate]. inversion Hf; subst. clear Leaf.
        pose proof (Hd n Eb1 Eb2) as Hk. cbn [rok] in Ec.
        destruct (all_some (map rok gcs)) as [gv|] eqn:Eg; [|discriminate].
        destruct (apply_op n gv) as [r|e] eqn:Ea; [|discriminate]. cbn [ro] in Ec. inversion Ec; subst r.
        destruct (boolop_inv n d gv _ Hk Ea) as (gb & -> & Lg & Hv). inversion Hv; subst b0.
        destruct (IH l' eq_refl bs' eq_refl) as (bl & E1 & L1 & B1).
        exists (gb ++ bl). rewrite map_app, all_some_app, Eg, E1. unfold bools. rewrite map_app. split; [reflexivity|].
        split; [rewrite app_length; cbn [length]; lia|].
        intros pre. rewrite <- bval_splice.
        replace (pre ++ bval d gb :: bl) with ((pre ++ [bval d gb]) ++ bl) by (rewrite <- app_assoc; reflexivity).
        rewrite B1, <- app_assoc. reflexivity.
      + discriminate.
  Qed.

  Lemma rok_nest : forall t v, rok t = Some v -> rok (nest t) = Some v.
  Proof.
    induction t as [v0|n k|name fast cs IH|c t f IHc IHt IHf] using tree_ind2; intros v H; try exact H.
    - cbn [nest rok] in *. destruct (all_some (map rok cs)) as [vs|] eqn:E; [|discriminate].
      pose proof (rok_children nest cs IH vs E) as E'.
      destruct (is_boolop name) eqn:Hb; [|cbn [rok]; rewrite E'; exact H].
      destruct (flatten (is_and name) (map nest cs)) as [l|] eqn:Ef; [|cbn [rok]; rewrite E'; exact H].
      assert (Hk : op_kind name = Some (negb (is_and name))) by (apply boolop_kind; [exact Hb|apply Bool.eqb_reflx]).
      set (d := negb (is_and name)) in *.
      destruct (apply_op name vs) as [r|e] eqn:Ea; [|discriminate]. cbn [ro] in H. inversion H; subst r.
      destruct (boolop_inv name d vs v Hk Ea) as (bs & -> & Hl & ->).
      destruct (flatten_rok (is_and name) d (fun n Hn He => boolop_kind n _ Hn He) _ l Ef bs E') as (bl & E1 & L1 & B1).
      cbn [rok]. rewrite E1, (boolop_bools name d bl Hk) by lia. cbn [ro]. pose proof (B1 []) as B0. cbn [app] in B0. rewrite B0. reflexivity.
    - cbn [nest rok] in *. destruct (rok c) as [vc|] eqn:Ec; [|discriminate]. rewrite (IHc vc eq_refl).
      destruct vc as [z|[]|s|li|ls|si|ss'| | |o]; try discriminate; [apply IHt|apply IHf]; exact H.
  Qed.

  (* ---------- constant folding ---------- *)
  Variable cfg : config.

  Lemma all_consts_rok cs vs : all_consts cs = Some vs -> all_some (map rok cs) = Some vs.
  Proof.
    revert vs. induction cs as [|c cs IH]; intros vs H; cbn [all_consts] in H; [inversion H; reflexivity|].
    destruct c as [v| | |]; try discriminate. destruct (all_consts cs) as [r|]; [|discriminate]. inversion H; subst.
    cbn [map all_some rok]. rewrite (IH r eq_refl). reflexivity.
  Qed.

  Lemma in_all_some {A} (l : list (option A)) vs x : all_some l = Some vs -> In (Some x) l -> In x vs.
  Proof.
    revert vs. induction l as [|[y|] l IH]; intros vs H Hin; cbn [all_some] in H; [destruct Hin| |discriminate].
    destruct (all_some l) as [r|]; [|discriminate]. inversion H; subst. destruct Hin as [E|Hin]; [inversion E; left; reflexivity|right; apply IH; auto].
  Qed.

  Lemma rok_cfold : forall t v, rok t = Some v -> rok (fst (cfold custom cfg t)) = Some v.
  Proof.
    induction t as [v0|n k|name fast cs IH|c t f IHc IHt IHf] using tree_ind2; intros v H; try exact H.
    - cbn [cfold fst]. rewrite map_map. cbn [rok] in H. destruct (all_some (map rok cs)) as [vs|] eqn:E; [|discriminate].
      pose proof (rok_children (fun c => fst (cfold custom cfg c)) cs IH vs E) as E'.
      set (cs' := map (fun c => fst (cfold custom cfg c)) cs) in *.
      assert (Hkeep : rok (TOp name fast cs') = Some v) by (cbn [rok]; rewrite E'; exact H).
      destruct (apply_op name vs) as [r|e] eqn:Ea; [|discriminate]. cbn [ro] in H. inversion H; subst r. clear H.
      unfold fold_node. destruct (stateless_fn custom cfg name) as [fn|] eqn:Es; [|exact Hkeep].
      assert (Hconst : forall vs', all_consts cs' = Some vs' -> forall r, fn vs' = Ok r -> rok (TConst r) = Some v).
      { intros vs' Ha r Hf. rewrite (all_consts_rok _ _ Ha) in E'. inversion E'; subst vs'.
        rewrite (stateless_fn_apply custom cfg name fn Es) in Hf. rewrite Ea in Hf. inversion Hf. reflexivity. }
      destruct (op_kind name) as [d|] eqn:Hk.
      + destruct (bool_scan d cs') as [[b|]|] eqn:Eb; [| |exact Hkeep].
        * destruct (bool_scan_decides _ _ _ Eb) as [-> Hin]. cbn [fst rok]. f_equal.
          destruct (boolop_inv name d vs v Hk Ea) as (bs & -> & Hl & ->). f_equal. unfold bval.
          assert (Hd : In (VBool d) (bools bs)).
          { apply (in_all_some _ _ _ E'). apply in_map_iff. exists (TConst (VBool d)). split; [reflexivity|exact Hin]. }
          unfold bools in Hd. apply in_map_iff in Hd. destruct Hd as (x & Hx & Hinx). inversion Hx; subst x.
          replace (existsb (Bool.eqb d) bs) with true; [reflexivity|]. symmetry. apply existsb_exists. exists d. split; [exact Hinx|apply Bool.eqb_reflx].
        * destruct (all_consts cs') as [vs'|] eqn:Ha; [|exact Hkeep]. destruct (fn vs') as [r|e] eqn:Ef; [|exact Hkeep].
          cbn [fst]. apply (Hconst vs' eq_refl r Ef).
      + destruct (all_consts cs') as [vs'|] eqn:Ha; [|exact Hkeep]. destruct (fn vs') as [r|e] eqn:Ef; [|exact Hkeep].
        cbn [fst]. apply (Hconst vs' eq_refl r Ef).
    - cbn [cfold fst rok] in *. destruct (rok c) as [vc|] eqn:Ec; [|discriminate]. rewrite (IHc vc eq_refl).
      destruct vc as [z|[]|s|li|ls|si|ss'| | |o]; try discriminate; [apply IHt|apply IHf]; exact H.
  Qed.

  (* ---------- strict success implies left-to-right success with the same value ---------- *)

  Lemma bval_cons_nd d b bs : Bool.eqb b d = false -> bval d (b :: bs) = bval d bs.
  Proof. intros H. unfold bval. cbn [existsb]. replace (Bool.eqb d b) with false by (destruct d, b; try reflexivity; discriminate). reflexivity. Qed.

  Lemma vargs_bools name d : op_kind name = Some d -> forall cs bs, Forall2 (fun c b => val c = Ok (VBool b)) cs bs ->
    forall acc, all_nd d acc -> (2 <= length acc + length bs)%nat -> vargs name cs acc = Ok (VBool (bval d bs)).
  Proof.
    intros Hk. induction 1 as [|c b cs bs Hc HF IH]; intros acc Ha Hl.
    - rewrite vargs_nil. cbn [length] in Hl. rewrite (apply_all_nd custom name d acc Hk Ha) by lia. reflexivity.
    - rewrite vargs_cons, Hc, Hk. cbn [operand_result]. destruct (Bool.eqb b d) eqn:Eb.
      + apply Bool.eqb_prop in Eb. subst b. cbn [orb]. unfold bval. cbn [existsb]. rewrite Bool.eqb_reflx. reflexivity.
      + cbn [orb]. rewrite (bval_cons_nd d b bs Eb).
        assert (Hb : b = negb d) by (destruct b, d; try reflexivity; discriminate).
        destruct (lastflag c cs acc) eqn:El.
        * unfold lastflag in El. destruct cs; [|discriminate]. inversion HF. unfold bval. cbn [existsb]. f_equal. f_equal. exact Hb.
        * apply IH; [constructor; [rewrite Hb; reflexivity|exact Ha]|cbn [length] in *; lia].
  Qed.

  Lemma vargs_none name : op_kind name = None -> forall cs vs, Forall2 (fun c x => val c = Ok x) cs vs ->
    forall acc, vargs name cs acc = apply_op name (rev acc ++ vs).
  Proof.
    intros Hk. induction 1 as [|c x cs vs Hc HF IH]; intros acc.
    - rewrite vargs_nil, app_nil_r. reflexivity.
    - rewrite vargs_cons, Hc, Hk. cbn [operand_result]. rewrite IH. cbn [rev]. rewrite <- app_assoc. reflexivity.
  Qed.

  Lemma all_some_Forall2 (cs : list tree) vs : all_some (map rok cs) = Some vs -> Forall2 (fun c x => rok c = Some x) cs vs.
  Proof.
    revert vs. induction cs as [|c cs IH]; intros vs H; cbn [map all_some] in H; [inversion H; constructor|].
    destruct (rok c) as [x|] eqn:Ec; [|discriminate]. destruct (all_some (map rok cs)) as [r|]; [|discriminate]. inversion H; subst.
    constructor; [exact Ec|apply IH; reflexivity].
  Qed.

  Theorem rok_val : forall t v, rok t = Some v -> val t = Ok v.
  Proof.
    induction t as [v0|n k|name fast cs IH|c t f IHc IHt IHf] using tree_ind2; intros v H.
    - cbn in H. inversion H. reflexivity.
    - cbn [rok] in H. unfold OptValue.val. cbn [sem snd]. destruct (fetch n k); [inversion H; reflexivity|discriminate].
    - cbn [rok] in H. destruct (all_some (map rok cs)) as [vs|] eqn:E; [|discriminate].
      destruct (apply_op name vs) as [r|e] eqn:Ea; [|discriminate]. cbn [ro] in H. inversion H; subst r. clear H.
      assert (HF : Forall2 (fun c x => val c = Ok x) cs vs).
      { pose proof (all_some_Forall2 cs vs E) as F. clear E Ea. induction F as [|c x cs' vs' Hc _ IHF]; [constructor|].
        inversion IH; subst. constructor; [auto|apply IHF; assumption]. }
      destruct (fast_shape fast cs) eqn:Hfs.
      + destruct (fast_shape_inv _ _ Hfs) as (a & b & -> & Ha & Hb & ->).
        rewrite (val_fast fetch custom name a b Hfs).
        inversion HF as [|? va ? vr Hva HF']; subst. inversion HF' as [|? vb ? vr' Hvb HF'']; subst. inversion HF''; subst.
        rewrite Hva, Hvb. exact Ea.
      + rewrite (val_op fetch custom name fast cs Hfs). destruct (op_kind name) as [d|] eqn:Hk.
        * destruct (boolop_inv name d vs v Hk Ea) as (bs & -> & Hl & ->).
          apply (vargs_bools name d Hk cs bs); [|constructor|cbn [length]; lia].
          clear -HF. unfold bools in HF. revert HF. generalize bs. induction cs as [|c cs IHc]; intros bs0 HF; destruct bs0; inversion HF; subst; constructor; auto.
        * rewrite (vargs_none name Hk cs vs HF []). exact Ea.
    - cbn [rok] in H. rewrite val_if. destruct (rok c) as [vc|] eqn:Ec; [|discriminate]. rewrite (IHc vc eq_refl).
      destruct vc as [z|[]|s|li|ls|si|ss'| | |o]; try discriminate; [apply IHt|apply IHf]; exact H.
  Qed.

  (* ---------- C02, second clause ---------- *)

  Lemma rok_optimize t v : rok t = Some v -> rok (optimize custom cfg t) = Some v.
  Proof.
    intros H. unfold optimize. revert t H. induction optimizations_order as [|n l IH]; intros t H; [exact H|].
    cbn [fold_left]. apply IH. destruct (pass_on cfg n); [|exact H]. unfold run_pass.
    destruct (String.eqb n "constant_folding"); [apply rok_cfold; exact H|].
    destruct (String.eqb n "reduce_nesting"); [apply rok_nest; exact H|].
    destruct (String.eqb n "fast_evaluation"); [rewrite rok_fastp; exact H|].
    destruct (String.eqb n "reordering"); [|exact H]. apply rok_reorder; [intros l0; apply sort_perm|exact H].
  Qed.

  (* when evaluating every reachable operand succeeds (with v), every configuration returns v *)
  Theorem all_configurations_return t v : rok t = Some v -> val (optimize custom cfg t) = Ok v.
  Proof. intros H. apply rok_val. apply rok_optimize. exact H. Qed.
End R.

Print Assumptions all_configurations_return.
