(* OpsArith.v — proofs about the scalar operators of Model/Ops.v (C18). *)
Require Import Base Opcode Tables Ops.
From Coq Require Import ZifyBool.
Open Scope Z_scope.

(* ---------- wrap64 is reduction modulo 2^64 into [-2^63, 2^63) ---------- *)

Lemma wrap64_range z : - two63 <= wrap64 z < two63.
Proof. unfold wrap64, two63, two64. pose proof (Z.mod_pos_bound (z + 9223372036854775808) 18446744073709551616). lia. Qed.

Lemma wrap64_id z : - two63 <= z < two63 -> wrap64 z = z.
Proof. unfold wrap64, two63, two64. intros H. rewrite Z.mod_small; lia. Qed.

Lemma wrap64_in z : in_i64 (wrap64 z) = true.
Proof. unfold in_i64. pose proof (wrap64_range z). lia. Qed.

Lemma wrap64_mod z : wrap64 z mod two64 = z mod two64.
Proof.
  unfold wrap64. rewrite Zminus_mod_idemp_l.
  replace (z + two63 - two63) with z by lia. reflexivity.
Qed.

Lemma wrap64_congr a b : a mod two64 = b mod two64 -> wrap64 a = wrap64 b.
Proof.
  unfold wrap64. intros H.
  rewrite <- (Zplus_mod_idemp_l a), <- (Zplus_mod_idemp_l b), H. reflexivity.
Qed.

Lemma wrap64_add_l a b : wrap64 (wrap64 a + b) = wrap64 (a + b).
Proof. apply wrap64_congr. rewrite <- Zplus_mod_idemp_l, wrap64_mod, Zplus_mod_idemp_l. reflexivity. Qed.

Lemma wrap64_sub_l a b : wrap64 (wrap64 a - b) = wrap64 (a - b).
Proof. apply wrap64_congr. rewrite <- Zminus_mod_idemp_l, wrap64_mod, Zminus_mod_idemp_l. reflexivity. Qed.

Lemma wrap64_mul_l a b : wrap64 (wrap64 a * b) = wrap64 (a * b).
Proof. apply wrap64_congr. rewrite <- Zmult_mod_idemp_l, wrap64_mod, Zmult_mod_idemp_l. reflexivity. Qed.

(* ---------- arithmetic: left fold with wrap-around ---------- *)

Definition ints (l : list Z) : list value := map VInt l.

(* the specification: exact (unbounded) left fold, wrapped once at the end *)
Definition sumZ (l : list Z) : Z := fold_left Z.add l 0.

Lemma arith_loop_add acc vs : arith_loop AAdd (wrap64 acc) (ints vs) = Ok (VInt (wrap64 (fold_left Z.add vs acc))).
Proof.
  revert acc. induction vs as [|v vs IH]; intros acc; cbn [ints map arith_loop fold_left].
  - reflexivity.
  - cbn [arith_step bind]. rewrite wrap64_add_l. apply IH.
Qed.

Lemma arith_loop_sub acc vs : arith_loop ASub (wrap64 acc) (ints vs) = Ok (VInt (wrap64 (fold_left Z.sub vs acc))).
Proof.
  revert acc. induction vs as [|v vs IH]; intros acc; cbn [ints map arith_loop fold_left].
  - reflexivity.
  - cbn [arith_step bind]. rewrite wrap64_sub_l. apply IH.
Qed.

Lemma arith_loop_mul acc vs : arith_loop AMul (wrap64 acc) (ints vs) = Ok (VInt (wrap64 (fold_left Z.mul vs acc))).
Proof.
  revert acc. induction vs as [|v vs IH]; intros acc; cbn [ints map arith_loop fold_left].
  - reflexivity.
  - cbn [arith_step bind]. rewrite wrap64_mul_l. apply IH.
Qed.

Lemma ints_length l : length (ints l) = length l.
Proof. apply map_length. Qed.

Definition zop (m : amode) : Z -> Z -> Z :=
  match m with AAdd => Z.add | ASub => Z.sub | AMul => Z.mul | ADiv => Z.quot | AMod => Z.rem end.

(* add, sub, mul on two or more int64 operands: the exact left fold over Z, wrapped into int64 *)
Lemma ints_cons v l : ints (v :: l) = VInt v :: ints l.
Proof. reflexivity. Qed.

Theorem arith_ring_fold m v w vs :
  m = AAdd \/ m = ASub \/ m = AMul ->
  in_i64 v = true ->
  arith m (ints (v :: w :: vs)) = Ok (VInt (wrap64 (fold_left (zop m) (w :: vs) v))).
Proof.
  intros Hm Hv. unfold arith. rewrite ints_length. cbn [length Nat.ltb Nat.leb].
  rewrite ints_cons.
  assert (Hw : v = wrap64 v) by (symmetry; apply wrap64_id; unfold in_i64 in Hv; lia).
  rewrite Hw at 1.
  destruct Hm as [-> | [-> | ->]]; cbn [zop].
  - apply arith_loop_add.
  - apply arith_loop_sub.
  - apply arith_loop_mul.
Qed.

(* division / modulo: truncated, wrapped at every step (MinInt64 / -1 = MinInt64), error at the first zero divisor *)
Fixpoint divfold (m : amode) (acc : Z) (vs : list Z) : Z :=
  match vs with [] => acc | v :: vs' => divfold m (wrap64 (zop m acc v)) vs' end.

Definition div_name (m : amode) : str := match m with ADiv => ss "div" | _ => ss "mod" end.

Lemma arith_loop_div m acc vs :
  m = ADiv \/ m = AMod ->
  arith_loop m acc (ints vs) =
    if existsb (Z.eqb 0) vs then Err (EExec (div_name m)) else Ok (VInt (divfold m acc vs)).
Proof.
  intros Hm. revert acc. induction vs as [|v vs IH]; intros acc; cbn [ints map arith_loop existsb divfold].
  - reflexivity.
  - destruct Hm as [-> | ->]; cbn [arith_step zop div_name];
    (destruct (Z.eqb_spec v 0) as [->|Hne];
     [ reflexivity
     | replace (0 =? v) with false by lia; cbn [orb bind];
       change (map VInt vs) with (ints vs); rewrite IH by auto; reflexivity ]).
Qed.

Theorem arith_div_fold m v w vs :
  m = ADiv \/ m = AMod ->
  arith m (ints (v :: w :: vs)) =
    if existsb (Z.eqb 0) (w :: vs) then Err (EExec (div_name m)) else Ok (VInt (divfold m v (w :: vs))).
Proof.
  intros Hm. unfold arith. rewrite ints_length. cbn [length Nat.ltb Nat.leb].
  rewrite ints_cons. apply arith_loop_div; exact Hm.
Qed.

(* a zero divisor anywhere after the first operand is an error, wherever it appears *)
Corollary arith_div_zero_anywhere m v pre post :
  m = ADiv \/ m = AMod ->
  arith m (ints (v :: pre ++ 0 :: post)) = Err (EExec (div_name m)).
Proof.
  intros Hm. destruct pre as [|w pre]; cbn [app].
  - rewrite arith_div_fold by exact Hm. reflexivity.
  - rewrite arith_div_fold by exact Hm.
    replace (existsb (Z.eqb 0) (w :: pre ++ 0 :: post)) with true; [reflexivity|].
    symmetry. apply existsb_exists. exists 0. split; [|reflexivity]. right. apply in_or_app. right. left. reflexivity.
Qed.

Lemma divfold_range m acc vs : vs <> [] -> - two63 <= divfold m acc vs < two63.
Proof.
  revert acc. induction vs as [|v vs IH]; intros acc Hne; [congruence|].
  cbn [divfold]. destruct vs as [|v' vs'].
  - cbn [divfold]. apply wrap64_range.
  - apply IH. congruence.
Qed.

(* every arithmetic result is an int64 *)

Lemma arith_loop_range m acc vs z :
  in_i64 acc = true -> arith_loop m acc (ints vs) = Ok (VInt z) -> in_i64 z = true.
Proof.
  revert acc. induction vs as [|v vs IH]; intros acc Hacc H; cbn [ints map arith_loop] in H.
  - inversion H; subst; exact Hacc.
  - destruct (arith_step m acc v) as [a|e] eqn:Hs; cbn [bind] in H; [|discriminate].
    apply (IH a); [|exact H].
    destruct m; cbn [arith_step] in Hs; try (inversion Hs; subst; apply wrap64_in);
    destruct (v =? 0); try discriminate; inversion Hs; subst; apply wrap64_in.
Qed.

Theorem arith_result_in_range m v vs z :
  in_i64 v = true -> arith m (ints (v :: vs)) = Ok (VInt z) -> in_i64 z = true.
Proof.
  intros Hv H. unfold arith in H. destruct (length (ints (v :: vs)) <? 2)%nat; [discriminate|].
  cbn [ints map] in H. eapply arith_loop_range; eauto.
Qed.

(* errors: operand count below two; a non-int operand (reported before any later zero divisor is looked at,
   and after an earlier one) *)
Theorem arith_count_error m ps : (length ps < 2)%nat -> arith m ps = Err (ECount (mname (amode_key m))).
Proof. intros H. unfold arith. replace (length ps <? 2)%nat with true by (symmetry; apply Nat.ltb_lt; exact H). reflexivity. Qed.

Definition is_int (v : value) : bool := match v with VInt _ => true | _ => false end.

Lemma arith_loop_ok_ints m acc ps r : arith_loop m acc ps = Ok r -> forallb is_int ps = true.
Proof.
  revert acc. induction ps as [|p ps IH]; intros acc H; [reflexivity|].
  cbn [arith_loop] in H. destruct p; try discriminate H.
  destruct (arith_step m acc z); cbn [bind] in H; [|discriminate]. cbn [forallb is_int]. eapply IH; eauto.
Qed.

Theorem arith_ok_needs_ints m ps r : arith m ps = Ok r -> (2 <= length ps)%nat /\ forallb is_int ps = true.
Proof.
  unfold arith. destruct (Nat.ltb_spec (length ps) 2) as [|Hl]; [discriminate|].
  intros H. split; [exact Hl|]. destruct ps as [|p ps]; [discriminate|]. destruct p; try discriminate H.
  cbn [forallb is_int]. eapply arith_loop_ok_ints; eauto.
Qed.

Theorem arith_never_other_error m ps e : arith m ps = Err e ->
  e = ECount (mname (amode_key m)) \/ e = EType (mname (amode_key m)) \/ e = EExec (div_name m).
Proof.
  unfold arith. destruct (length ps <? 2)%nat; [intros H; inversion H; auto|].
  destruct ps as [|p ps]; [intros H; inversion H; auto|]. destruct p; try (intros H; inversion H; subst; auto; fail).
  revert z. induction ps as [|q ps IH]; intros acc H; cbn [arith_loop] in H; [discriminate|].
  destruct q; try (inversion H; subst; auto; fail).
  destruct (arith_step m acc z) as [a|e'] eqn:Hs; cbn [bind] in *.
  - eapply IH; eauto.
  - inversion H; subst. destruct m; cbn [arith_step] in Hs; try discriminate;
    destruct (z =? 0); try discriminate; inversion Hs; auto.
Qed.

(* ---------- logic ---------- *)

Definition bools (l : list bool) : list value := map VBool l.

Lemma logic_loop_fold m acc bs : logic_loop m acc (bools bs) = Ok (VBool (fold_left (logic_step m) bs acc)).
Proof. revert acc. induction bs as [|b bs IH]; intros acc; cbn [bools map logic_loop fold_left]; [reflexivity|apply IH]. Qed.

Theorem logic_fold m a b bs : logic m (bools (a :: b :: bs)) = Ok (VBool (fold_left (logic_step m) (b :: bs) a)).
Proof.
  unfold logic, bools. rewrite map_length. cbn [length Nat.ltb Nat.leb map].
  change (VBool b :: map VBool bs) with (bools (b :: bs)). apply logic_loop_fold.
Qed.

Lemma fold_and bs acc : fold_left (logic_step LAnd) bs acc = acc && forallb (fun x => x) bs.
Proof. revert acc. induction bs as [|b bs IH]; intros acc; cbn [fold_left forallb logic_step]; [destruct acc; reflexivity|]. rewrite IH. destruct acc, b; reflexivity. Qed.
Lemma fold_or bs acc : fold_left (logic_step LOr) bs acc = acc || existsb (fun x => x) bs.
Proof. revert acc. induction bs as [|b bs IH]; intros acc; cbn [fold_left existsb logic_step]; [destruct acc; reflexivity|]. rewrite IH. destruct acc, b; reflexivity. Qed.

(* and = all operands true, or = some operand true, xor = parity *)
Theorem logic_and_all a b bs : logic LAnd (bools (a :: b :: bs)) = Ok (VBool (forallb (fun x => x) (a :: b :: bs))).
Proof. rewrite logic_fold, fold_and. reflexivity. Qed.
Theorem logic_or_any a b bs : logic LOr (bools (a :: b :: bs)) = Ok (VBool (existsb (fun x => x) (a :: b :: bs))).
Proof. rewrite logic_fold, fold_or. reflexivity. Qed.
Theorem logic_xor_parity a b bs : logic LXor (bools (a :: b :: bs)) = Ok (VBool (fold_left xorb (b :: bs) a)).
Proof. rewrite logic_fold. reflexivity. Qed.

Theorem logic_count_error m ps : (length ps < 2)%nat -> logic m ps = Err (ECount (mname (lmode_key m))).
Proof. intros H. unfold logic. replace (length ps <? 2)%nat with true by (symmetry; apply Nat.ltb_lt; exact H). reflexivity. Qed.

Definition is_bool (v : value) : bool := match v with VBool _ => true | _ => false end.

Lemma logic_loop_type m acc ps : forallb is_bool ps = false -> logic_loop m acc ps = Err (EType (mname (lmode_key m))).
Proof.
  revert acc. induction ps as [|p ps IH]; intros acc H; [discriminate|].
  cbn [logic_loop]. destruct p; try reflexivity. cbn [forallb is_bool andb] in H. apply IH; exact H.
Qed.

Theorem logic_type_error m ps : (2 <= length ps)%nat -> forallb is_bool ps = false ->
  logic m ps = Err (EType (mname (lmode_key m))).
Proof.
  intros Hl H. unfold logic. replace (length ps <? 2)%nat with false by (symmetry; apply Nat.ltb_ge; exact Hl).
  destruct ps as [|p ps]; [discriminate|]. destruct p; try reflexivity. cbn [forallb is_bool andb] in H. apply logic_loop_type; exact H.
Qed.

Theorem not_spec ps : logic_not ps =
  match ps with [VBool b] => Ok (VBool (negb b)) | [_] => Err (EType (ss "not")) | _ => Err (ECount (ss "not")) end.
Proof. reflexivity. Qed.

(* ---------- comparisons ---------- *)

Theorem cmp_order m i j : cmp m [VInt i; VInt j] = Ok (VBool (
  match m with CGt => Z.gtb i j | CLt => Z.ltb i j | CGe => Z.geb i j | CLe => Z.leb i j end)).
Proof. destruct m; reflexivity. Qed.

Theorem cmp_le_not_gt i j : cmp CLe [VInt i; VInt j] = Ok (VBool (negb (i >? j))).
Proof. cbn. f_equal. f_equal. lia. Qed.
Theorem cmp_ge_not_lt i j : cmp CGe [VInt i; VInt j] = Ok (VBool (negb (i <? j))).
Proof. cbn. f_equal. f_equal. lia. Qed.
Theorem cmp_gt_flip i j : cmp CGt [VInt i; VInt j] = cmp CLt [VInt j; VInt i].
Proof. cbn. f_equal. f_equal. lia. Qed.

Theorem cmp_errors m ps :
  match ps with
  | [VInt _; VInt _] => True
  | [_; _] => cmp m ps = Err (EType (mname (cmode_key m)))
  | _ => cmp m ps = Err (ECount (mname (cmode_key m)))
  end.
Proof. destruct ps as [|a [|b [|c ps]]]; try reflexivity; destruct a; try reflexivity; destruct b; try reflexivity; exact I. Qed.

Lemma value_eqb_refl_int i j : value_eqb (VInt i) (VInt j) = (i =? j).
Proof. reflexivity. Qed.

Theorem eq_int_spec i j : cmp_eq [VInt i; VInt j] = Ok (VBool (i =? j)).
Proof. reflexivity. Qed.

Theorem ne_is_not_eq a b : comparable a = true -> comparable b = true ->
  exists r, cmp_eq [a; b] = Ok (VBool r) /\ cmp_ne [a; b] = Ok (VBool (negb r)).
Proof.
  intros Ha Hb. exists (go_eq a b). unfold cmp_eq, cmp_ne. cbn [length Nat.ltb Nat.leb forallb].
  rewrite Ha, Hb. cbn. split; reflexivity.
Qed.

(* n-ary eq: all operands equal to the first *)
Theorem eq_nary a ps : (1 <= length ps)%nat -> forallb comparable (a :: ps) = true ->
  cmp_eq (a :: ps) = Ok (VBool (forallb (go_eq a) ps)).
Proof.
  intros Hl Hc. unfold cmp_eq. destruct ps as [|b ps]; [cbn in Hl; lia|].
  cbn [length Nat.ltb Nat.leb]. rewrite Hc. cbn [negb].
  assert (Hrefl : go_eq a a = true).
  { unfold go_eq. cbn [forallb] in Hc. apply andb_prop in Hc. destruct Hc as [Ha _].
    destruct a; cbn in *; try discriminate; try reflexivity; try apply Z.eqb_refl; try apply N.eqb_refl.
    - destruct b0; reflexivity.
    - induction s as [|c s IHs]; cbn; [reflexivity|]. rewrite N.eqb_refl. exact IHs. }
  destruct ps as [|c ps].
  - cbn [forallb]. rewrite andb_true_r. reflexivity.
  - cbn [forallb]. rewrite Hrefl. reflexivity.
Qed.

Theorem eq_count_error ps : (length ps < 2)%nat -> cmp_eq ps = Err (ECount (mname "equals")).
Proof. intros H. unfold cmp_eq. replace (length ps <? 2)%nat with true by (symmetry; apply Nat.ltb_lt; exact H). reflexivity. Qed.

Theorem ne_count_error ps : length ps <> 2%nat -> cmp_ne ps = Err (ECount (mname "notEquals")).
Proof. intros H. destruct ps as [|a [|b [|c ps]]]; try reflexivity. cbn in H. congruence. Qed.

Theorem between_spec v a b :
  cmp_between [VInt v; VInt a; VInt b] = Ok (VBool ((a <=? v) && (v <=? b))) /\
  (exists x y, cmp CGe [VInt v; VInt a] = Ok (VBool x) /\ cmp CLe [VInt v; VInt b] = Ok (VBool y) /\
               cmp_between [VInt v; VInt a; VInt b] = Ok (VBool (x && y))).
Proof.
  split; [reflexivity|]. exists (v >=? a), (v <=? b). repeat split. cbn. f_equal. f_equal. f_equal. lia.
Qed.

Theorem between_errors ps :
  match ps with
  | [VInt _; VInt _; VInt _] => True
  | [_; _; _] => cmp_between ps = Err (EType (mname "between"))
  | _ => cmp_between ps = Err (ECount (ss "between"))
  end.
Proof.
  destruct ps as [|a [|b [|c [|d ps]]]]; try reflexivity;
  destruct a; try reflexivity; destruct b; try reflexivity; destruct c; try reflexivity; exact I.
Qed.

(* ---------- aliases: over the generated table ---------- *)

(* the alias groups the property names; each alias must have the opcode of its named form *)
Definition alias_groups : list (string * list string) := [
  ("add", ["+"]); ("sub", ["-"]); ("mul", ["*"]); ("div", ["/"]); ("mod", ["%"]);
  ("and", ["&"; "&&"]); ("or", ["|"; "||"]); ("not", ["!"]);
  ("eq", ["="; "=="]); ("ne", ["!="]); ("gt", [">"]); ("lt", ["<"]); ("ge", [">="]); ("le", ["<="]);
  ("date", ["to_date"]); ("datetime", ["to_datetime"]); ("version", ["to_version"])
]%string.

Definition canonical : list (string * opcode) := [
  ("add", OArith AAdd); ("sub", OArith ASub); ("mul", OArith AMul); ("div", OArith ADiv); ("mod", OArith AMod);
  ("and", OLogic LAnd); ("or", OLogic LOr); ("xor", OLogic LXor); ("not", ONot);
  ("eq", OEq); ("ne", ONe); ("gt", OCmp CGt); ("lt", OCmp CLt); ("ge", OCmp CGe); ("le", OCmp CLe);
  ("between", OBetween); ("in", OIn); ("overlap", OOverlap)
]%string.

Definition opt_opcode_eqb (a b : option opcode) : bool :=
  match a, b with Some x, Some y => opcode_eqb x y | _, _ => false end.

Definition aliases_ok : bool :=
  forallb (fun g => forallb (fun al => opt_opcode_eqb (assoc_s al builtin_table) (assoc_s (fst g) builtin_table)) (snd g)) alias_groups.
Definition canonical_ok : bool :=
  forallb (fun c => opt_opcode_eqb (assoc_s (fst c) builtin_table) (Some (snd c))) canonical.
(* no name is listed twice with different opcodes (Go map literal: duplicate keys do not compile; the translator keeps source order) *)
Definition table_functional : bool :=
  forallb (fun e => opt_opcode_eqb (assoc_s (fst e) builtin_table) (Some (snd e))) builtin_table.
(* every built-in name is either a canonical name, one of its aliases, or one of the conversion operators *)
Definition conversion_names : list string :=
  ["date"; "datetime"; "to_date"; "to_datetime"; "t_time"; "t_date"; "td_time"; "td_date"; "version"; "t_version"; "to_version"]%string.
Definition known_names : list string :=
  map fst canonical ++ flat_map snd alias_groups ++ conversion_names.
Definition no_other_names : bool :=
  forallb (fun e => existsb (String.eqb (fst e)) known_names) builtin_table.

Lemma opcode_eqb_eq a b : opcode_eqb a b = true -> a = b.
Proof.
  destruct a, b; cbn; try discriminate; try reflexivity.
  - destruct m, m0; cbn; try discriminate; reflexivity.
  - destruct m, m0; cbn; try discriminate; reflexivity.
  - destruct m, m0; cbn; try discriminate; reflexivity.
  - intros H. apply andb_prop in H. destruct H as [H1 H2]. apply String.eqb_eq in H2. subst.
    destruct m, m0; cbn in H1; try discriminate; reflexivity.
  - intros H. apply andb_prop in H. destruct H as [H1 H2]. apply Z.eqb_eq in H2. subst.
    destruct m, m0; cbn in H1; try discriminate; reflexivity.
Qed.

Theorem alias_same : aliases_ok = true /\ canonical_ok = true /\ table_functional = true /\ no_other_names = true.
Proof. vm_compute. repeat split. Qed.

(* consequence in usable form: an alias and its named form are the same function *)
Theorem alias_apply g al : In (g, al) (flat_map (fun p => map (fun a => (fst p, a)) (snd p)) alias_groups) ->
  exists o, assoc_s al builtin_table = Some o /\ assoc_s g builtin_table = Some o.
Proof.
  intros H. pose proof alias_same as [Ha _]. unfold aliases_ok in Ha.
  apply in_flat_map in H. destruct H as [p [Hp Hin]]. apply in_map_iff in Hin. destruct Hin as [a [Heq Hina]].
  inversion Heq; subst. rewrite forallb_forall in Ha. specialize (Ha p Hp). rewrite forallb_forall in Ha. specialize (Ha al Hina).
  unfold opt_opcode_eqb in Ha. destruct (assoc_s al builtin_table) as [x|]; [|discriminate].
  destruct (assoc_s (fst p) builtin_table) as [y|]; [|discriminate]. apply opcode_eqb_eq in Ha. subst. eauto.
Qed.
