(* FormatReject.v — C14, the formatter on sources the lexer REJECTS: the formatted text is rejected too. A rejected
   source is white space, a well-formed rendering of the tokens read so far, and a tail that starts with the offending
   token: a word that does not classify, or a string literal that is never closed. The formatter treats the good
   part as in FormatProofs.v (same simulation, carried with a tail) and leaves the offending token in place. *)
Require Import Base Opcode Tables Ops Tree Opt Flat Run Directives Lexer Print OpsList LexProofs FormatProofs.
From Coq Require Import ZifyBool.
Open Scope Z_scope.
Open Scope list_scope.

(* a string literal (or a stray quote) at the head of `next` is met at a token start *)
Definition Jt (next : str) (b : str) (p : syn) : Prop :=
  match next with c :: _ => if (c =? 34)%N then tstart b p = true else True | [] => True end.

(* the formatter's state after the items *)
Fixpoint fstate (items : list (tok * str)) (b : str) (i : Z) (p : syn) : str * Z * syn :=
  match items with
  | [] => (b, i, p)
  | (t, sep) :: rest => fstate rest (rev (tok_text t ++ sep) ++ b) (tok_indent t i) (sp_prev sep (tok_prev t))
  end.

Section R.
  Variable is_letter is_number : N -> bool.
  Notation wf_tok := (wf_tok is_letter is_number).
  Notation wf_items := (wf_items is_letter is_number).
  Notation lex_loop := (lex_loop is_letter is_number).
  Notation classify := (classify is_letter is_number).

  (* well-formed items followed by more text *)
  Fixpoint wf_items_t (infix : bool) (tail : str) (items : list (tok * str)) : Prop :=
    match items with
    | [] => True
    | (t, sep) :: rest => wf_tok infix t /\ sep_ok t sep (render rest ++ tail) /\ wf_items_t infix tail rest
    end.

  Lemma J_next_t infix t sep next b : wf_tok infix t -> sep_ok t sep next ->
    Jt next (rev (tok_text t ++ sep) ++ b) (sp_prev sep (tok_prev t)).
  Proof.
    intros Ht (Hsp & Hfuse & Hcmt). destruct next as [|c0 next']; [exact I|]. cbn [Jt].
    destruct (c0 =? 34)%N eqn:E0; [|exact I]. apply N.eqb_eq in E0. subst c0.
    destruct sep as [|c sep].
    - rewrite app_nil_r. cbn [sp_prev].
      destruct t as [s0|s0|s0| | | | | |s0]; cbn [tok_text tok_prev rev app tstart syn_eqb negb orb];
        try (destruct (rev _ ++ b); reflexivity); try reflexivity.
      + exfalso. specialize (Hfuse eq_refl eq_refl). cbn in Hfuse. discriminate.
      + rewrite rev_app_distr. cbn [rev app tstart]. rewrite N.eqb_refl. apply orb_true_r.
      + exfalso. specialize (Hfuse eq_refl eq_refl). cbn in Hfuse. discriminate.
    - cbn [sp_prev]. unfold tstart. destruct (rev (tok_text t ++ c :: sep) ++ b); [reflexivity|].
      destruct (tok_prev t); reflexivity.
  Qed.

  Lemma Jt_str s more b p : Jt (34%N :: s ++ more) b p -> tstart b p = true.
  Proof. intros H. exact H. Qed.

  (* the simulation of FormatProofs.sim, carried with a non-empty tail *)
  Theorem sim_t infix tail : tail <> [] -> forall items b out i p, wf_items_t infix tail items -> noq items ->
    Jt (render items ++ tail) b p ->
    fmt (render items ++ tail) b out i p =
      (let '(bE, iE, pE) := fstate items b i p in
       fmt tail bE (out ++ pre_of items b i p ++ render (fitems items b i p)) iE pE) /\
    (let '(bE, iE, pE) := fstate items b i p in Jt tail bE pE).
  Proof.
    intros Hne. induction items as [|[t sep] rest IH]; intros b out i p Hwf Hq HJ.
    - cbn [render pre_of fitems fstate app] in *. rewrite !app_nil_r. split; [reflexivity|exact HJ].
    - cbn [wf_items_t] in Hwf. destruct Hwf as (Ht & Hsep & Hrest). inversion Hq as [|? ? Hq1 Hq2]; subst.
      pose proof (J_next_t infix t sep (render rest ++ tail) b Ht Hsep) as HJ'.
      destruct Hsep as (Hsp & Hfuse & Hcmt).
      cbn [render pre_of fitems fstate fst] in *.
      set (b' := rev (tok_text t ++ sep) ++ b) in *. set (p' := sp_prev sep (tok_prev t)) in *.
      assert (Hb' : b' = rev sep ++ rev (tok_text t) ++ b) by (unfold b'; rewrite rev_app_distr, <- app_assoc; reflexivity).
      assert (FIN : forall out1 i1, fmt (render rest ++ tail) b' out1 i1 p' =
                (let '(bE, iE, pE) := fstate rest b' i1 p' in
                 fmt tail bE (out1 ++ pre_of rest b' i1 p' ++ render (fitems rest b' i1 p')) iE pE) /\
                (let '(bE, iE, pE) := fstate rest b' i1 p' in Jt tail bE pE))
        by (intros; apply IH; assumption).
      assert (GOAL : forall out1 i1, i1 = tok_indent t i ->
                fmt ((tok_text t ++ sep ++ render rest) ++ tail) b out i p = fmt (render rest ++ tail) b' out1 i1 p' ->
                out1 = out ++ prefix t b i p ++ tok_text t ++ suffix t sep ->
                fmt ((tok_text t ++ sep ++ render rest) ++ tail) b out i p =
                  (let '(bE, iE, pE) := fstate rest b' (tok_indent t i) p' in
                   fmt tail bE (out ++ prefix t b i p ++
                                render ((t, suffix t sep ++ pre_of rest b' (tok_indent t i) p') :: fitems rest b' (tok_indent t i) p')) iE pE) /\
                  (let '(bE, iE, pE) := fstate rest b' (tok_indent t i) p' in Jt tail bE pE)).
      { intros out1 i1 -> E ->. destruct (FIN (out ++ prefix t b i p ++ tok_text t ++ suffix t sep) (tok_indent t i)) as [F1 F2].
        split; [|exact F2]. rewrite E, F1. destruct (fstate rest b' (tok_indent t i) p') as [[bE iE] pE].
        cbn [render]. rewrite <- !app_assoc. reflexivity. }
      rewrite <- !app_assoc in HJ.
      destruct t as [s|s|s| | | | | |s]; cbn [tok_text LexProofs.wf_tok prefix tok_indent tok_prev suffix is_comment] in *.
      + destruct Ht as [(c & w & -> & Hc & H1 & H2 & Hw) _].
        eapply GOAL; [reflexivity| |rewrite app_nil_r; reflexivity].
        rewrite <- !app_assoc. cbn [app]. rewrite fmt_word_first by assumption.
        rewrite fmt_word_run by (try assumption; intros Hin; apply Hq1; right; exact Hin).
        rewrite fmt_spaces by exact Hsp.
        replace (rev sep ++ rev w ++ c :: b) with b' by (rewrite Hb'; cbn [rev]; rewrite <- !app_assoc; reflexivity).
        fold p'. rewrite <- !app_assoc. reflexivity.
      + eapply GOAL; [reflexivity| |rewrite app_nil_r; reflexivity].
        replace (((34%N :: s ++ [34%N]) ++ sep ++ render rest) ++ tail) with (34%N :: s ++ 34%N :: (sep ++ render rest ++ tail))
          by (cbn [app]; rewrite <- !app_assoc; reflexivity).
        rewrite fmt_string; [|exact Ht|exact HJ]. rewrite fmt_spaces by exact Hsp. rewrite <- Hb'. fold p'. reflexivity.
      + destruct Ht as [(c & w & -> & Hc & H1 & H2 & Hw) _].
        eapply GOAL; [reflexivity| |rewrite app_nil_r; reflexivity].
        rewrite <- !app_assoc. cbn [app]. rewrite fmt_word_first by assumption.
        rewrite fmt_word_run by (try assumption; intros Hin; apply Hq1; right; exact Hin).
        rewrite fmt_spaces by exact Hsp.
        replace (rev sep ++ rev w ++ c :: b) with b' by (rewrite Hb'; cbn [rev]; rewrite <- !app_assoc; reflexivity).
        fold p'. rewrite <- !app_assoc. reflexivity.
      + eapply GOAL; [reflexivity| |rewrite app_nil_r; reflexivity].
        rewrite <- !app_assoc. cbn [app]. rewrite fmt_left by auto. rewrite fmt_spaces by exact Hsp.
        match goal with |- context [fmt _ ?x _ _ _] => replace x with b' by (rewrite Hb'; reflexivity) end. fold p'. reflexivity.
      + eapply GOAL; [reflexivity| |rewrite app_nil_r; reflexivity].
        rewrite <- !app_assoc. cbn [app]. rewrite fmt_right by auto. rewrite fmt_spaces by exact Hsp.
        match goal with |- context [fmt _ ?x _ _ _] => replace x with b' by (rewrite Hb'; reflexivity) end. fold p'. reflexivity.
      + eapply GOAL; [reflexivity| |rewrite app_nil_r; reflexivity].
        rewrite <- !app_assoc. cbn [app]. rewrite fmt_left by auto. rewrite fmt_spaces by exact Hsp.
        match goal with |- context [fmt _ ?x _ _ _] => replace x with b' by (rewrite Hb'; reflexivity) end. fold p'. reflexivity.
      + eapply GOAL; [reflexivity| |rewrite app_nil_r; reflexivity].
        rewrite <- !app_assoc. cbn [app]. rewrite fmt_right by auto. rewrite fmt_spaces by exact Hsp.
        match goal with |- context [fmt _ ?x _ _ _] => replace x with b' by (rewrite Hb'; reflexivity) end. fold p'. reflexivity.
      + eapply GOAL; [reflexivity| |rewrite app_nil_r; reflexivity].
        rewrite <- !app_assoc. cbn [app]. rewrite fmt_comma. rewrite fmt_spaces by exact Hsp.
        match goal with |- context [fmt _ ?x _ _ _] => replace x with b' by (rewrite Hb'; reflexivity) end. fold p'. reflexivity.
      + destruct Ht as (text & -> & Hnl). destruct (Hcmt eq_refl) as [[sep' Es]|[Es Er]].
        * subst sep. refine (GOAL _ _ eq_refl _ eq_refl).
          replace (((59%N :: text) ++ (10%N :: sep') ++ render rest) ++ tail) with (59%N :: text ++ 10%N :: (sep' ++ render rest ++ tail))
            by (cbn [app]; rewrite <- !app_assoc; cbn [app]; rewrite <- !app_assoc; reflexivity).
          rewrite fmt_comment_nl by exact Hnl. inversion Hsp as [|? ? _ Hsp']; subst.
          rewrite (fmt_spaces sep' Hsp').
          replace (rev sep' ++ rev (59%N :: text ++ [10%N]) ++ b) with b'
            by (rewrite Hb'; cbn [rev]; rewrite !rev_app_distr; cbn [rev app]; rewrite <- !app_assoc; reflexivity).
          replace (sp_prev sep' SComment) with p' by (unfold p'; destruct sep'; reflexivity).
          reflexivity.
        * exfalso. apply app_eq_nil in Er. destruct Er as [_ Er]. exact (Hne Er).
  Qed.

  (* ---------- the formatted items when more text follows: the last separator also holds what the formatter writes
     before the first character of the tail (a word character or a quote: `pre_rune`) ---------- *)

  Definition pre_of_t (rest : list (tok * str)) (b : str) (i : Z) (p : syn) : str :=
    match rest with [] => pre_rune i p | (u, _) :: _ => prefix u b i p end.

  Fixpoint fitems_t (items : list (tok * str)) (b : str) (i : Z) (p : syn) : list (tok * str) :=
    match items with
    | [] => []
    | (t, sep) :: rest =>
      let b' := rev (tok_text t ++ sep) ++ b in
      let i' := tok_indent t i in
      let p' := sp_prev sep (tok_prev t) in
      (t, suffix t sep ++ pre_of_t rest b' i' p') :: fitems_t rest b' i' p'
    end.

  Lemma fitems_t_toks items : forall b i p, map fst (fitems_t items b i p) = map fst items.
  Proof. induction items as [|[t sep] rest IH]; intros b i p; cbn [fitems_t map fst]; [reflexivity|]. rewrite IH. reflexivity. Qed.

  Lemma regroup items : forall b i p,
    pre_of items b i p ++ render (fitems items b i p) ++ (let '(_, iE, pE) := fstate items b i p in pre_rune iE pE) =
    pre_of_t items b i p ++ render (fitems_t items b i p).
  Proof.
    induction items as [|[t sep] rest IH]; intros b i p.
    - cbn [pre_of pre_of_t render fitems fitems_t fstate app]. rewrite app_nil_r. reflexivity.
    - cbn [pre_of pre_of_t render fitems fitems_t fstate]. f_equal. rewrite <- !app_assoc. do 2 f_equal.
      apply IH.
  Qed.

  Lemma stops_head a x y : stops (a :: x) -> stops (a :: y).
  Proof. exact (fun H => H). Qed.

  (* the output items are well formed in front of any text T that starts with a word character (as the tail does) *)
  Theorem wf_out_t infix tail T : (exists c0 r, tail = c0 :: r /\ wordc c0 = true) -> (exists c1 r, T = c1 :: r /\ wordc c1 = true) ->
    forall items b i p, wf_items_t infix tail items -> wf_items_t infix T (fitems_t items b i p).
  Proof.
    intros (c0 & r0 & -> & Hc0) (c1 & r1 & -> & Hc1).
    induction items as [|[t sep] rest IH]; intros b i p Hwf; [exact I|].
    cbn [wf_items_t] in Hwf. destruct Hwf as (Ht & (Hsp & Hfuse & Hcmt) & Hrest).
    cbn [fitems_t wf_items_t].
    set (b' := rev (tok_text t ++ sep) ++ b). set (i' := tok_indent t i). set (p' := sp_prev sep (tok_prev t)).
    split; [exact Ht|]. split; [|apply IH; exact Hrest].
    split; [|split].
    - apply all_space_app.
      + unfold suffix. destruct (is_comment t); [|constructor]. destruct sep; [constructor|repeat constructor].
      + destruct rest as [|[u su] r]; [apply pre_rune_space|apply prefix_space].
    - intros Enew Hword.
      assert (Esuf : suffix t sep = []) by (destruct t; try discriminate; reflexivity).
      rewrite Esuf in Enew. cbn [app] in Enew.
      assert (Ep : sep <> [] -> p' = SSpace) by (intros Hs; unfold p'; destruct t; try discriminate; (destruct sep; [contradiction|reflexivity])).
      destruct rest as [|[u su] r].
      + (* last item: the tail's first character is a word character, so the input had a separator *)
        cbn [pre_of_t] in Enew. exfalso. destruct sep as [|c sep].
        * specialize (Hfuse eq_refl Hword). cbn [render app stops] in Hfuse. congruence.
        * rewrite (Ep ltac:(discriminate)) in Enew. discriminate.
      + cbn [pre_of_t] in Enew. cbn [fitems_t render]. cbn [wf_items_t] in Hrest. destruct Hrest as (Hu & _ & _).
        destruct (tok_head is_letter is_number infix u Hu) as (cu & ru & Eu & _).
        destruct sep as [|c sep].
        * specialize (Hfuse eq_refl Hword). cbn [render] in Hfuse. rewrite Eu in *. cbn [app] in *. exact Hfuse.
        * rewrite (Ep ltac:(discriminate)) in Enew.
          destruct u as [s|s|s| | | | | |s]; cbn [prefix pre_rune syn_eqb orb app] in Enew; try discriminate; try exact eq_refl.
          cbn [LexProofs.wf_tok] in Hu. destruct Hu as (text & -> & _). exact eq_refl.
    - intros Hc. destruct (Hcmt Hc) as [[sep' ->]|[_ Er]].
      + left. unfold suffix. rewrite Hc. eexists. reflexivity.
      + exfalso. apply app_eq_nil in Er. destruct Er as [_ Er]. discriminate.
  Qed.

  (* ---------- lexing: if the lexer rejects the tail (after any white space), it rejects the whole ---------- *)

  Theorem lex_render_none infix tail : (forall lead0 fuel, all_space lead0 -> lex_loop fuel infix (lead0 ++ tail) = None) ->
    forall items fuel lead, wf_items_t infix tail items -> all_space lead ->
    lex_loop fuel infix (lead ++ render items ++ tail) = None.
  Proof.
    intros Htail. induction items as [|[t sep] rest IH]; intros fuel lead Hwf Hlead.
    - cbn [render app]. apply Htail. exact Hlead.
    - cbn [render wf_items_t] in *. destruct Hwf as (Ht & (Hsp & Hfuse & Hcmt) & Hrest).
      destruct fuel; [reflexivity|]. cbn [Lexer.lex_loop]. rewrite next_raw_spaces by exact Hlead.
      assert (REC : forall f, lex_loop f infix (sep ++ render rest ++ tail) = None) by (intros; apply IH; assumption).
      rewrite <- !app_assoc.
      destruct t as [s|s|s| | | | | |s]; cbn [tok_text LexProofs.wf_tok is_word_tok] in *.
      + destruct Ht as [(c & w & -> & Hc & H1 & H2 & Hw) Hcl]. cbn [app].
        rewrite next_raw_word; try assumption.
        * rewrite Hcl, REC. reflexivity.
        * apply stops_after_sep; [exact Hsp|intros E; apply Hfuse; [exact E|reflexivity]|].
          destruct sep; [right; apply Hfuse; reflexivity|left; discriminate].
      + replace ((34%N :: s ++ [34%N]) ++ sep ++ render rest ++ tail) with (34%N :: s ++ 34%N :: (sep ++ render rest ++ tail)) by (cbn [app]; rewrite <- app_assoc; reflexivity).
        rewrite next_raw_string by exact Ht. rewrite REC. reflexivity.
      + destruct Ht as [(c & w & -> & Hc & H1 & H2 & Hw) Hcl]. cbn [app].
        rewrite next_raw_word; try assumption.
        * rewrite Hcl, REC. reflexivity.
        * apply stops_after_sep; [exact Hsp|intros E; apply Hfuse; [exact E|reflexivity]|].
          destruct sep; [right; apply Hfuse; reflexivity|left; discriminate].
      + cbn [app]. rewrite next_raw_delim by (try reflexivity; discriminate). rewrite (delim_classify is_letter is_number infix 40%N KLParen) by (cbn; auto). rewrite REC. reflexivity.
      + cbn [app]. rewrite next_raw_delim by (try reflexivity; discriminate). rewrite (delim_classify is_letter is_number infix 41%N KRParen) by (cbn; auto). rewrite REC. reflexivity.
      + cbn [app]. rewrite next_raw_delim by (try reflexivity; discriminate). rewrite (delim_classify is_letter is_number infix 91%N KLBracket) by (cbn; auto 10). rewrite REC. reflexivity.
      + cbn [app]. rewrite next_raw_delim by (try reflexivity; discriminate). rewrite (delim_classify is_letter is_number infix 93%N KRBracket) by (cbn; auto 10). rewrite REC. reflexivity.
      + cbn [app]. rewrite next_raw_delim by (try reflexivity; discriminate). rewrite (delim_classify is_letter is_number infix 44%N KComma) by (cbn; auto 10). rewrite REC. reflexivity.
      + destruct Ht as (text & -> & Hnl). destruct (Hcmt eq_refl) as [[sep' ->]|[-> Er]].
        * replace ((59%N :: text) ++ (10%N :: sep') ++ render rest ++ tail) with (59%N :: text ++ 10%N :: (sep' ++ render rest ++ tail)) by reflexivity.
          rewrite next_raw_comment by exact Hnl.
          change (10%N :: sep' ++ render rest ++ tail) with ((10%N :: sep') ++ render rest ++ tail). rewrite REC. reflexivity.
        * exfalso. apply app_eq_nil in Er. destruct Er as [_ Er]. specialize (Htail [] 1%nat (Forall_nil _)). rewrite Er in Htail. discriminate.
  Qed.
End R.

(* ---------- what the formatter does with the offending token ---------- *)

Lemma loop_extends : forall fuel s b out i p, exists Y, indent_loop fuel s b out i p = out ++ Y.
Proof.
  induction fuel as [|f IH]; intros s b out i p; [exists []; cbn; rewrite app_nil_r; reflexivity|].
  destruct s as [|c s']; [exists []; cbn; rewrite app_nil_r; reflexivity|]. rewrite loop_body. unfold body.
  assert (K : forall s1 b1 X i1 p1, exists Y, indent_loop f s1 b1 (out ++ X) i1 p1 = out ++ Y).
  { intros. destruct (IH s1 b1 (out ++ X) i1 p1) as [Y E]. exists (X ++ Y). rewrite E, app_assoc. reflexivity. }
  destruct ((c =? 34)%N && tstart b p).
  { destruct (copy_through 34 s') as [lit rest]. apply K. }
  destruct (is_left c); [apply K|]. destruct (is_right c); [apply K|]. destruct (is_space c); [apply IH|].
  destruct (c =? 59)%N; [|apply K]. destruct (copy_through 10 (c :: s')) as [cm rest]. rewrite app_assoc. rewrite <- app_assoc. apply K.
Qed.

Lemma fmt_extends s b out i p : exists Y, fmt s b out i p = out ++ Y.
Proof. apply loop_extends. Qed.

(* an unclosed literal at a token start: copied to the end of the text *)
Lemma fmt_unclosed rest b out i p : ~ In 34%N rest -> tstart b p = true ->
  fmt (34%N :: rest) b out i p = out ++ pre_rune i p ++ 34%N :: rest.
Proof.
  intros Hq Ht. rewrite fmt_cons. unfold body. rewrite Ht. change ((34 =? 34)%N && true) with true. cbv iota.
  rewrite copy_through_end by exact Hq. rewrite fmt_nil. reflexivity.
Qed.

(* a quote inside a word (not at a token start) is an ordinary character *)
Lemma fmt_quote_mid more d b out i : d <> 44%N -> d <> 34%N ->
  fmt (34%N :: more) (d :: b) out i SNormal = fmt more (34%N :: d :: b) (out ++ [34%N]) i SNormal.
Proof.
  intros H1 H2. rewrite fmt_cons. unfold body. cbn [tstart syn_eqb negb orb].
  replace (d =? 44)%N with false by (symmetry; apply N.eqb_neq; exact H1).
  replace (d =? 34)%N with false by (symmetry; apply N.eqb_neq; exact H2). reflexivity.
Qed.

Lemma look_back_head ws d b0 i : all_space ws -> is_space d = false ->
  exists y Y, look_back (ws ++ d :: b0) i = y :: Y /\ is_space y = true.
Proof.
  induction 1 as [|c ws Hc _ IH]; intros Hd; cbn [app look_back].
  - rewrite Hd. cbn [negb]. exists 32%N, []. split; reflexivity.
  - rewrite Hc. cbn [negb]. destruct (c =? 10)%N; [exists 10%N, (indent_str i); split; reflexivity|apply IH; exact Hd].
Qed.

Lemma space_not_word y : is_space y = true -> wordc y = false.
Proof. intros H. unfold wordc. rewrite H. reflexivity. Qed.

(* after a word: the next thing the formatter writes, if any, does not start with a word character *)
Lemma fmt_after_word more d b0 out i : stops more -> is_space d = false ->
  exists Y, fmt more (d :: b0) out i SNormal = out ++ Y /\ (Y = [] \/ exists y Y', Y = y :: Y' /\ wordc y = false).
Proof.
  intros Hst Hd.
  assert (EXT : forall s b X i1 p1 y, wordc y = false -> (exists X', X = y :: X') ->
            exists Y, fmt s b (out ++ X) i1 p1 = out ++ Y /\ (Y = [] \/ exists y Y', Y = y :: Y' /\ wordc y = false)).
  { intros s b X i1 p1 y Hy [X' ->]. destruct (fmt_extends s b (out ++ y :: X') i1 p1) as [Y E]. exists ((y :: X') ++ Y).
    split; [rewrite E, app_assoc; reflexivity|right; exists y, (X' ++ Y); split; [reflexivity|exact Hy]]. }
  destruct (trim_left_split more) as (ws & Em & Hws). destruct (trim_left_head more) as [Et|(e & r & Et & He)]; rewrite Et in Em.
  - (* only white space follows *)
    rewrite app_nil_r in Em. subst more. replace ws with (ws ++ []) by apply app_nil_r. rewrite (fmt_spaces ws Hws). rewrite fmt_nil.
    exists []. split; [rewrite app_nil_r; reflexivity|left; reflexivity].
  - subst more. rewrite (fmt_spaces ws Hws). set (bb := rev ws ++ d :: b0). set (pp := sp_prev ws SNormal).
    assert (Hpp : ws <> [] -> pp = SSpace) by (intros H; unfold pp; destruct ws; [contradiction|reflexivity]).
    assert (Hws0 : ws = [] -> wordc e = false) by (intros ->; exact Hst).
    rewrite fmt_cons. unfold body.
    destruct ((e =? 34)%N && tstart bb pp) eqn:Eq.
    { (* a literal: possible only after white space (a quote is a word character) *)
      apply andb_prop in Eq. destruct Eq as [Eq _]. apply N.eqb_eq in Eq. subst e.
      destruct ws as [|c ws']; [specialize (Hws0 eq_refl); discriminate|]. rewrite (Hpp ltac:(discriminate)).
      destruct (copy_through 34 r) as [lit rest]. cbn [pre_rune syn_eqb orb app]. eapply EXT; [|eexists; reflexivity]. reflexivity. }
    destruct (is_left e) eqn:El.
    { destruct (syn_eqb pp SComment) eqn:Ec.
      - exfalso. unfold pp in Ec. destruct ws; discriminate.
      - eapply EXT; [|eexists; reflexivity]. reflexivity. }
    destruct (is_right e) eqn:Er.
    { replace (syn_eqb pp SComment) with false by (unfold pp; destruct ws; reflexivity). cbn [app].
      eapply EXT; [|eexists; reflexivity]. unfold is_right in Er. unfold wordc, is_delim.
      destruct (N.eqb_spec e 93); [subst; reflexivity|]. destruct (N.eqb_spec e 41); [subst; reflexivity|]. discriminate. }
    rewrite He.
    destruct (e =? 59)%N eqn:E59.
    { replace (syn_eqb pp SComment) with false by (unfold pp; destruct ws; reflexivity).
      destruct (look_back_head (rev ws) d b0 i (all_space_rev ws Hws) Hd) as (y & Y0 & Ey & Hy). fold bb in Ey. rewrite Ey.
      destruct (copy_through 10 (e :: r)) as [cm rest]. cbn [app]. eapply EXT; [|eexists; reflexivity]. apply space_not_word. exact Hy. }
    (* an ordinary character: after white space a blank is written first; without white space it is a delimiter *)
    destruct ws as [|c ws'].
    + specialize (Hws0 eq_refl). cbn [pre_rune] in *. unfold pp. cbn [sp_prev syn_eqb orb app].
      eapply EXT; [exact Hws0|eexists; reflexivity].
    + rewrite (Hpp ltac:(discriminate)). cbn [pre_rune syn_eqb orb app]. eapply EXT; [|eexists; reflexivity]. reflexivity.
Qed.

(* ---------- the lexer rejects the offending tokens ---------- *)

Lemma take_string_none s : ~ In 34%N s -> take_string s = None.
Proof.
  induction s as [|c s IH]; intros H; cbn [take_string]; [reflexivity|].
  replace (c =? 34)%N with false by (symmetry; apply N.eqb_neq; intros ->; apply H; left; reflexivity).
  rewrite IH by (intros Hin; apply H; right; exact Hin). reflexivity.
Qed.
Lemma take_string_none_inv s : take_string s = None -> ~ In 34%N s.
Proof.
  induction s as [|c s IH]; intros H; [intros []|]. cbn [take_string] in H. destruct (c =? 34)%N eqn:E; [discriminate|].
  destruct (take_string s) as [[a b]|]; [discriminate|]. intros [Hc|Hin]; [subst c; discriminate|exact (IH eq_refl Hin)].
Qed.

Lemma take_word_quote u Z : Forall (fun c => wordc c = true) u ->
  take_word (u ++ 34%N :: Z) = (u ++ 34%N :: fst (take_word Z), snd (take_word Z)).
Proof.
  induction 1 as [|c u Hc _ IH]; cbn [app take_word].
  - change (is_space 34%N || is_delim 34%N) with false. cbv iota. destruct (take_word Z); reflexivity.
  - unfold wordc in Hc. apply negb_true_iff in Hc. rewrite Hc, IH. reflexivity.
Qed.

Section RL.
  Variable is_letter is_number : N -> bool.
  Hypothesis letter_q : is_letter 34%N = false.
  Hypothesis number_q : is_number 34%N = false.
  Notation wf_tok := (wf_tok is_letter is_number).
  Notation wf_items_t := (wf_items_t is_letter is_number).
  Notation lex_loop := (lex_loop is_letter is_number).
  Notation classify := (classify is_letter is_number).

  Lemma lex_unclosed infix rest lead0 fuel : ~ In 34%N rest -> all_space lead0 ->
    lex_loop fuel infix (lead0 ++ 34%N :: rest) = None.
  Proof.
    intros Hq Hl. destruct fuel; [reflexivity|]. cbn [Lexer.lex_loop]. rewrite next_raw_spaces by exact Hl.
    unfold Lexer.next_raw. cbn [trim_left]. change (is_space 34%N) with false. cbv iota.
    change (34 =? 59)%N with false. change (34 =? 34)%N with true. cbv iota. rewrite take_string_none by exact Hq. reflexivity.
  Qed.

  Lemma lex_badword infix c w Z lead0 fuel : wordc c = true -> c <> 59%N -> c <> 34%N -> Forall (fun c => wordc c = true) w ->
    stops Z -> classify infix (c :: w) = None -> all_space lead0 -> lex_loop fuel infix (lead0 ++ (c :: w) ++ Z) = None.
  Proof.
    intros Hc H1 H2 Hw Hz Hcl Hl. destruct fuel; [reflexivity|]. cbn [Lexer.lex_loop]. rewrite next_raw_spaces by exact Hl.
    cbn [app]. rewrite next_raw_word by assumption. rewrite Hcl. reflexivity.
  Qed.

  (* a word with a double quote in it never classifies *)
  Lemma classify_quote_none c w : wordc c = true -> In 34%N (c :: w) -> classify false (c :: w) = None.
  Proof.
    intros Hc Hin. destruct (classify false (c :: w)) as [ts|] eqn:E; [|reflexivity]. exfalso.
    destruct (classify_plain_word is_letter is_number c w ts Hc E) as [-> | ->].
    - destruct (classify_word is_letter is_number false (c :: w) _ E (or_introl eq_refl)) as [V|V];
        [exact (valid_int_noq _ V Hin)|exact (valid_ident_noq is_letter is_number letter_q number_q _ V Hin)].
    - destruct (classify_word is_letter is_number false (c :: w) _ E (or_intror eq_refl)) as [V|V];
        [exact (valid_int_noq _ V Hin)|exact (valid_ident_noq is_letter is_number letter_q number_q _ V Hin)].
  Qed.

  Lemma lex_badword_q c u Z lead0 fuel : wordc c = true -> c <> 59%N -> c <> 34%N -> Forall (fun c => wordc c = true) u ->
    all_space lead0 -> lex_loop fuel false (lead0 ++ (c :: u) ++ 34%N :: Z) = None.
  Proof.
    intros Hc H1 H2 Hu Hl. destruct fuel; [reflexivity|]. cbn [Lexer.lex_loop]. rewrite next_raw_spaces by exact Hl.
    unfold Lexer.next_raw. cbn [app trim_left].
    destruct (wordc_class c Hc) as (_ & _ & Hsp & E59 & _). rewrite Hsp, E59.
    replace (c =? 34)%N with false by (symmetry; apply N.eqb_neq; exact H2).
    assert (Hd : is_delim c = false) by (unfold wordc in Hc; apply negb_true_iff in Hc; apply orb_false_iff in Hc; tauto). rewrite Hd.
    change (c :: u ++ 34%N :: Z) with ((c :: u) ++ 34%N :: Z). rewrite take_word_quote by (constructor; assumption).
    cbn [app]. rewrite classify_quote_none; [reflexivity|exact Hc|]. right. apply in_or_app. right. left. reflexivity.
  Qed.

  (* ---------- every rejected source: white space, a well-formed rendering, the offending token ---------- *)

  Definition bad_tail (tail : str) : Prop :=
    (exists rest, tail = 34%N :: rest /\ ~ In 34%N rest) \/
    (exists c w Z, tail = (c :: w) ++ Z /\ wordc c = true /\ c <> 59%N /\ c <> 34%N /\ Forall (fun c => wordc c = true) w /\
                   stops Z /\ classify false (c :: w) = None).

  Lemma bad_tail_head tail : bad_tail tail -> exists c0 r, tail = c0 :: r /\ wordc c0 = true.
  Proof.
    intros [(rest & -> & _)|(c & w & Z & -> & Hc & _)]; [exists 34%N, rest; split; reflexivity|].
    exists c, (w ++ Z). split; [reflexivity|exact Hc].
  Qed.

  Lemma head_nonspace items tail : wf_items_t false tail items -> (exists c0 r, tail = c0 :: r /\ wordc c0 = true) ->
    exists x r, render items ++ tail = x :: r /\ is_space x = false.
  Proof.
    intros Hwf (c0 & r0 & -> & Hc0). destruct items as [|[t sep] rest].
    - exists c0, r0. split; [reflexivity|]. apply wordc_class in Hc0. tauto.
    - cbn [FormatReject.wf_items_t render] in *. destruct Hwf as (Ht & _).
      destruct (tok_head is_letter is_number false t Ht) as (c & r & E & Hc). rewrite E. exists c. eexists. split; [reflexivity|exact Hc].
  Qed.

  Theorem lex_none_decomp : forall fuel s, (length s < fuel)%nat -> lex_loop fuel false s = None ->
    exists lead items tail, s = lead ++ render items ++ tail /\ all_space lead /\ wf_items_t false tail items /\ bad_tail tail.
  Proof.
    induction fuel as [|f IH]; intros s Hlen H; [lia|]. cbn [Lexer.lex_loop] in H. unfold Lexer.next_raw in H.
    destruct (trim_left_split s) as (ws & Es & Hws). destruct (trim_left_head s) as [Et|(c & s' & Et & Hc)]; rewrite Et in *; [discriminate|].
    assert (Ls : (length s = length ws + S (length s'))%nat) by (rewrite Es at 1; rewrite app_length; reflexivity).
    (* the recursive call, prepending one item *)
    assert (REC : forall t text rest, wf_tok false t -> tok_text t = text -> c :: s' = text ++ rest -> text <> [] ->
              lex_loop f false rest = None ->
              (forall lead_r next, all_space lead_r -> rest = lead_r ++ next -> (exists x r, next = x :: r /\ is_space x = false) -> sep_ok t lead_r next) ->
              exists lead items tail, s = lead ++ render items ++ tail /\ all_space lead /\ wf_items_t false tail items /\ bad_tail tail).
    { intros t text rest Ht Ett Ecs Hne Hr Hsep.
      assert (Lr : (length rest < f)%nat).
      { apply (f_equal (@length N)) in Ecs. rewrite app_length in Ecs. cbn [length] in Ecs. destruct text; [contradiction|]. cbn [length] in Ecs. lia. }
      destruct (IH rest Lr Hr) as (lead_r & items_r & tail & Er & Hl & Hwf & Hb).
      exists ws, ((t, lead_r) :: items_r), tail. split; [|split; [exact Hws|split; [|exact Hb]]].
      - rewrite Es, Ecs, Er. cbn [render]. rewrite Ett, <- !app_assoc. reflexivity.
      - cbn [FormatReject.wf_items_t]. split; [exact Ht|split; [|exact Hwf]].
        apply (Hsep lead_r (render items_r ++ tail) Hl Er). apply head_nonspace; [exact Hwf|apply bad_tail_head; exact Hb]. }
    destruct (c =? 59)%N eqn:E59.
    { apply N.eqb_eq in E59. subst c. destruct (take_line (59%N :: s')) as [a b] eqn:Etl.
      destruct (lex_loop f false b) as [l|] eqn:El; [discriminate|].
      destruct (take_line_split _ _ _ Etl) as (E1 & E2 & E3).
      cbn [take_line] in Etl. change (59 =? 10)%N with false in Etl. destruct (take_line s') as [a' b'] eqn:Etl'. inversion Etl; subst a b'. clear Etl.
      apply (REC (KComment (59%N :: a')) (59%N :: a') b); [|reflexivity|exact E1|discriminate|exact El|].
      - cbn [LexProofs.wf_tok]. exists a'. split; [reflexivity|]. intros Hin. apply E2. right. exact Hin.
      - intros lead_r next Hl Er (x & r & En & Hx). split; [exact Hl|split; [intros _ Hw; discriminate|]]. intros _. left.
        destruct E3 as [->|[b' ->]].
        + exfalso. symmetry in Er. apply app_eq_nil in Er. destruct Er as [_ Er]. rewrite En in Er. discriminate.
        + destruct lead_r as [|y lead_r]; [|cbn [app] in Er; inversion Er; subst; eexists; reflexivity].
          exfalso. cbn [app] in Er. rewrite En in Er. inversion Er; subst x. discriminate. }
    destruct (c =? 34)%N eqn:E34.
    { apply N.eqb_eq in E34. subst c. destruct (take_string s') as [[a b]|] eqn:Ets.
      - destruct (lex_loop f false b) as [l|] eqn:El; [discriminate|].
        destruct (take_string_split _ _ _ Ets) as (E1 & E2).
        apply (REC (KStr a) (34%N :: a ++ [34%N]) b); [exact E2|reflexivity| |discriminate|exact El|].
        + rewrite E1. cbn [app]. rewrite <- app_assoc. reflexivity.
        + intros lead_r next Hl _ _. split; [exact Hl|split; [intros _ Hw; discriminate|intros Hc'; discriminate]].
      - (* the literal is never closed *)
        exists ws, [], (34%N :: s'). split; [exact Es|split; [exact Hws|split; [exact I|]]].
        left. exists s'. split; [reflexivity|apply take_string_none_inv; exact Ets]. }
    destruct (is_delim c) eqn:Ed.
    { destruct (classify false [c]) as [ts|] eqn:Ecl.
      - destruct (lex_loop f false s') as [l|] eqn:El; [discriminate|].
        destruct (delim_token is_letter is_number c ts Ed E59 Ecl) as (t & -> & Ett & Hwt & Hnw & Hnc).
        apply (REC t [c] s'); [exact Hwt|exact Ett|reflexivity|discriminate|exact El|].
        intros lead_r next Hl _ _. split; [exact Hl|split; [intros _ Hw; congruence|intros Hc'; congruence]].
      - exfalso. unfold is_delim in Ed. rewrite E59 in Ed.
        assert (Hcc : c = 40%N \/ c = 41%N \/ c = 91%N \/ c = 93%N \/ c = 44%N) by lia.
        destruct Hcc as [->|[->|[->|[->| ->]]]]; cbn in Ecl; discriminate. }
    (* an ordinary word *)
    destruct (take_word (c :: s')) as [a b] eqn:Etw.
    destruct (take_word_split _ _ _ Etw) as (E1 & E2 & E3).
    assert (Hwc : wordc c = true) by (unfold wordc; rewrite Hc, Ed; reflexivity).
    cbn [take_word] in Etw. rewrite Hc, Ed in Etw. cbn [orb] in Etw. destruct (take_word s') as [w b'] eqn:Etw'. inversion Etw; subst a b'. clear Etw.
    pose proof (Forall_inv_tail E2) as Hw.
    destruct (classify false (c :: w)) as [ts|] eqn:Ecl.
    - destruct (lex_loop f false b) as [l|] eqn:El; [discriminate|].
      assert (Hshape : exists c0 w0, c :: w = c0 :: w0 /\ wordc c0 = true /\ c0 <> 59%N /\ c0 <> 34%N /\ Forall (fun c => wordc c = true) w0).
      { exists c, w. split; [reflexivity|split; [exact Hwc|split; [apply N.eqb_neq; exact E59|split; [apply N.eqb_neq; exact E34|exact Hw]]]]. }
      assert (Hsep : forall t, is_word_tok t = true -> is_comment t = false -> forall lead_r next, all_space lead_r -> b = lead_r ++ next ->
                (exists x r, next = x :: r /\ is_space x = false) -> sep_ok t lead_r next).
      { intros t Hw1 Hc1 lead_r next Hl Er _. split; [exact Hl|split; [|intros Hc'; congruence]]. intros -> _. cbn [app] in Er. rewrite <- Er. exact E3. }
      destruct (classify_plain_word is_letter is_number c w ts Hwc Ecl) as [-> | ->].
      + apply (REC (KInt (c :: w)) (c :: w) b); [split; [exact Hshape|exact Ecl]|reflexivity|exact E1|discriminate|exact El|apply Hsep; reflexivity].
      + apply (REC (KIdent (c :: w)) (c :: w) b); [split; [exact Hshape|exact Ecl]|reflexivity|exact E1|discriminate|exact El|apply Hsep; reflexivity].
    - (* the word does not classify *)
      exists ws, [], ((c :: w) ++ b). split; [rewrite Es, E1; reflexivity|split; [exact Hws|split; [exact I|]]].
      right. exists c, w, b. split; [reflexivity|split; [exact Hwc|split; [apply N.eqb_neq; exact E59|split; [apply N.eqb_neq; exact E34|split; [exact Hw|split; [exact E3|exact Ecl]]]]]].
  Qed.
End RL.

(* ---------- assembly ---------- *)

Lemma first_quote w : In 34%N w -> exists u v, w = u ++ 34%N :: v /\ ~ In 34%N u.
Proof.
  induction w as [|x w IH]; intros H; [destruct H|]. destruct (N.eq_dec x 34) as [->|Hx].
  - exists [], w. split; [reflexivity|intros []].
  - destruct H as [H|H]; [contradiction|]. destruct (IH H) as (u & v & -> & Hu). exists (x :: u), v. split; [reflexivity|].
    intros [E|Hin]; [exact (Hx E)|exact (Hu Hin)].
Qed.

Lemma rev_head_in (w : str) c b : exists d b0, rev w ++ c :: b = d :: b0 /\ In d (c :: w).
Proof.
  destruct (rev w) as [|d r] eqn:E; [exists c, b; split; [reflexivity|left; reflexivity]|].
  exists d, (r ++ c :: b). split; [reflexivity|]. right. apply in_rev. rewrite E. left. reflexivity.
Qed.

Lemma rtrim_stops Y : (Y = [] \/ exists y Y', Y = y :: Y' /\ wordc y = false) -> stops (rtrim Y).
Proof.
  intros H. destruct (rtrim_split Y) as (ws & E & _). destruct (rtrim Y) as [|y2 r2]; [exact I|].
  destruct H as [->|(y & Y' & -> & Hy)]; [discriminate|]. cbn [app] in E. inversion E; subst. exact Hy.
Qed.

Lemma rtrim_word_tail w Y : Forall (fun c => wordc c = true) w -> (Y = [] \/ exists y Y', Y = y :: Y' /\ wordc y = false) ->
  exists Z2, rtrim (w ++ Y) = w ++ Z2 /\ stops Z2.
Proof.
  intros Hw HY. destruct w as [|x w'] eqn:Ew.
  - exists (rtrim Y). split; [reflexivity|apply rtrim_stops; exact HY].
  - rewrite <- Ew in *. destruct (@exists_last _ w ltac:(rewrite Ew; discriminate)) as (w0 & d & E). rewrite E in *.
    apply Forall_app in Hw. destruct Hw as [_ Hd]. inversion Hd as [|? ? Hd1 _]; subst.
    rewrite <- app_assoc. cbn [app]. rewrite rtrim_keep by (apply wordc_class in Hd1; tauto).
    exists (rtrim Y). split; [rewrite <- app_assoc; reflexivity|apply rtrim_stops; exact HY].
Qed.

Lemma regroup_app (A B C T P R : str) : A ++ B ++ C = P ++ R -> (A ++ B) ++ C ++ T = P ++ R ++ T.
Proof. intros E. rewrite (app_assoc P R T), <- E, <- !app_assoc. reflexivity. Qed.

Section RA.
  Variable is_letter is_number : N -> bool.
  Hypothesis letter_q : is_letter 34%N = false.
  Hypothesis number_q : is_number 34%N = false.
  Notation wf_items_t := (wf_items_t is_letter is_number).
  Notation lex_loop := (lex_loop is_letter is_number).
  Notation lex := (lex is_letter is_number).

  Lemma wf_noq_t infix tail items : wf_items_t infix tail items -> noq items.
  Proof.
    induction items as [|[t sep] rest IH]; cbn [FormatReject.wf_items_t]; intros H; [constructor|]. destruct H as (Ht & _ & Hr).
    constructor; [|apply IH; exact Hr]. cbn [fst].
    destruct t as [s|s|s| | | | | |s]; try exact I; cbn [LexProofs.wf_tok] in Ht; destruct Ht as [_ Hc].
    - destruct (classify_word is_letter is_number infix s _ Hc (or_introl eq_refl)) as [V|V]; [apply valid_int_noq|apply (valid_ident_noq is_letter is_number letter_q number_q)]; exact V.
    - destruct (classify_word is_letter is_number infix s _ Hc (or_intror eq_refl)) as [V|V]; [apply valid_int_noq|apply (valid_ident_noq is_letter is_number letter_q number_q)]; exact V.
  Qed.

  Lemma Jt_start x lead : Jt x (rev lead ++ []) (sp_prev lead SNormal).
  Proof.
    destruct x as [|c x]; [exact I|]. cbn [Jt]. destruct (c =? 34)%N; [|exact I].
    destruct lead as [|l0 lead]; [reflexivity|]. cbn [sp_prev syn_eqb]. unfold tstart. destruct (rev (l0 :: lead) ++ []); reflexivity.
  Qed.

  Lemma pre_of_t_space items b i p : all_space (pre_of_t items b i p).
  Proof. destruct items as [|[u su] r]; [apply pre_rune_space|apply prefix_space]. Qed.

  (* the formatted text ends with the offending token; after the final trim the lexer still rejects it *)
  Lemma finish P its c1 r : all_space P -> wf_items_t false (c1 :: rtrim r) its -> wordc c1 = true ->
    (forall lead0 fuel, all_space lead0 -> lex_loop fuel false (lead0 ++ c1 :: rtrim r) = None) ->
    lex false (trim (P ++ render its ++ c1 :: r)) = None.
  Proof.
    intros HP Hwf Hc1 Hbad.
    assert (Hns : is_space c1 = false) by (apply wordc_class in Hc1; tauto).
    assert (E : trim (P ++ render its ++ c1 :: r) = render its ++ c1 :: rtrim r).
    { rewrite trim_rtrim, (trim_left_spaces P _ HP).
      assert (Etl : trim_left (render its ++ c1 :: r) = render its ++ c1 :: r).
      { destruct its as [|[t sep] rest]; [cbn [render app trim_left]; rewrite Hns; reflexivity|].
        cbn [FormatReject.wf_items_t render] in *. destruct Hwf as (Ht & _).
        destruct (tok_head is_letter is_number false t Ht) as (c & r0 & Et & Hc). rewrite Et. cbn [app trim_left]. rewrite Hc. reflexivity. }
      rewrite Etl. rewrite rtrim_keep by exact Hns. reflexivity. }
    rewrite E. unfold Lexer.lex.
    exact (lex_render_none is_letter is_number false (c1 :: rtrim r) Hbad its _ [] Hwf (Forall_nil _)).
  Qed.

  Theorem indent_rejected s : lex false s = None -> lex false (indent_by_parens s) = None.
  Proof.
    intros H. unfold Lexer.lex in H.
    destruct (lex_none_decomp is_letter is_number letter_q number_q (S (length s)) s ltac:(lia) H) as (lead & items & tail & -> & Hl & Hwf & Hb).
    destruct (bad_tail_head is_letter is_number tail Hb) as (c0 & r0 & Etail & Hc0).
    assert (Hne : tail <> []) by (rewrite Etail; discriminate).
    rewrite indent_by_parens_fmt, (fmt_spaces lead Hl).
    set (b0 := rev lead ++ []). set (p0 := sp_prev lead SNormal).
    destruct (sim_t is_letter is_number false tail Hne items b0 [] 0 p0 Hwf (wf_noq_t false tail items Hwf) (Jt_start _ lead)) as [S1 S2].
    pose proof (regroup items b0 0 p0) as RG.
    destruct (fstate items b0 0 p0) as [[bE iE] pE] eqn:Ef. rewrite S1. cbn [app].
    set (P := pre_of_t items b0 0 p0) in *. set (its := fitems_t items b0 0 p0) in *.
    assert (HP : all_space P) by apply pre_of_t_space.
    assert (WF : forall T, (exists c1 r, T = c1 :: r /\ wordc c1 = true) -> wf_items_t false T its).
    { intros T HT. apply (wf_out_t is_letter is_number false tail T); [exists c0, r0; split; assumption|exact HT|exact Hwf]. }
    destruct Hb as [(rest & -> & Hq)|(c & w & Z & -> & Hc & H59 & H34 & Hw & HZ & Hcl)].
    - (* an unclosed literal *)
      rewrite fmt_unclosed; [|exact Hq|exact S2].
      rewrite (regroup_app _ _ _ (34%N :: rest) _ _ RG).
      apply finish; [exact HP|apply WF; eexists _, _; split; reflexivity|reflexivity|].
      intros lead0 fuel Hl0. apply lex_unclosed; [|exact Hl0]. intros Hin. apply Hq. apply rtrim_in. exact Hin.
    - destruct (in_dec N.eq_dec 34%N w) as [Hin|Hnq].
      + (* the word has a quote in it: the formatter leaves word character and quote side by side *)
        destruct (first_quote w Hin) as (u & v & -> & Hu).
        apply Forall_app in Hw. destruct Hw as [Hwu _].
        cbn [app]. rewrite <- ?app_assoc. cbn [app]. rewrite fmt_word_first by assumption.
        rewrite fmt_word_run by assumption.
        destruct (rev_head_in u c bE) as (d & bb & Eb & Hd). rewrite Eb.
        assert (Hdw : wordc d = true) by (destruct Hd as [<-|Hd]; [exact Hc|rewrite Forall_forall in Hwu; apply Hwu; exact Hd]).
        assert (Hd34 : d <> 34%N) by (destruct Hd as [<-|Hd]; [exact H34|intros ->; exact (Hu Hd)]).
        assert (Hd44 : d <> 44%N) by (intros ->; discriminate).
        cbn [app]. rewrite fmt_quote_mid by assumption.
        match goal with |- context [fmt ?s ?b ?o ?i ?p] => destruct (fmt_extends s b o i p) as [Y EY]; rewrite EY end.
        replace (((((pre_of items b0 0 p0 ++ render (fitems items b0 0 p0)) ++ pre_rune iE pE ++ [c]) ++ u) ++ [34%N]) ++ Y)
          with ((pre_of items b0 0 p0 ++ render (fitems items b0 0 p0)) ++ pre_rune iE pE ++ c :: (u ++ 34%N :: Y))
          by (rewrite <- !app_assoc; cbn [app]; rewrite <- ?app_assoc; reflexivity).
        rewrite (regroup_app _ _ _ (c :: (u ++ 34%N :: Y)) _ _ RG).
        apply finish; [exact HP|apply WF; eexists _, _; split; [reflexivity|exact Hc]|exact Hc|].
        intros lead0 fuel Hl0. rewrite rtrim_keep by reflexivity.
        exact (lex_badword_q is_letter is_number letter_q number_q c u (rtrim Y) lead0 fuel Hc H59 H34 Hwu Hl0).
      + (* no quote: the word is copied, and nothing that could extend it is written after it *)
        cbn [app]. rewrite <- ?app_assoc. cbn [app]. rewrite fmt_word_first by assumption.
        rewrite fmt_word_run by assumption.
        destruct (rev_head_in w c bE) as (d & bb & Eb & Hd). rewrite Eb.
        assert (Hds : is_space d = false).
        { assert (Hdw : wordc d = true) by (destruct Hd as [<-|Hd]; [exact Hc|rewrite Forall_forall in Hw; apply Hw; exact Hd]).
          apply wordc_class in Hdw. tauto. }
        match goal with |- context [fmt Z (d :: bb) ?o ?i SNormal] => destruct (fmt_after_word Z d bb o i HZ Hds) as (Y & EY & HY); rewrite EY end.
        replace ((((pre_of items b0 0 p0 ++ render (fitems items b0 0 p0)) ++ pre_rune iE pE ++ [c]) ++ w) ++ Y)
          with ((pre_of items b0 0 p0 ++ render (fitems items b0 0 p0)) ++ pre_rune iE pE ++ c :: (w ++ Y))
          by (rewrite <- !app_assoc; cbn [app]; rewrite <- ?app_assoc; reflexivity).
        rewrite (regroup_app _ _ _ (c :: (w ++ Y)) _ _ RG).
        apply finish; [exact HP|apply WF; eexists _, _; split; [reflexivity|exact Hc]|exact Hc|].
        intros lead0 fuel Hl0. destruct (rtrim_word_tail w Y Hw HY) as (Z2 & E2 & HZ2). rewrite E2.
        exact (lex_badword is_letter is_number false c w Z2 lead0 fuel Hc H59 H34 Hw HZ2 Hcl Hl0).
  Qed.

  (* the formatter clause of C14 for EVERY text: what the parser is given is unchanged *)
  Theorem indent_meaning_all s :
    option_map drop_comments (lex false (indent_by_parens s)) = option_map drop_comments (lex false s).
  Proof.
    destruct (lex false s) as [toks|] eqn:E.
    - pose proof (indent_meaning_lexable is_letter is_number letter_q number_q s toks E) as M. rewrite E in M. exact M.
    - rewrite (indent_rejected s E). reflexivity.
  Qed.
End RA.



Print Assumptions indent_meaning_all.
