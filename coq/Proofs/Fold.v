(* Fold.v — C10: constant folding respects operator purity and defers failures to run time. *)
Require Import Base Opcode Tables Ops Tree Opt OpsList SemFacts.
From Coq Require Import ZifyBool.
Open Scope Z_scope.
Open Scope list_scope.

Section F.
  Variable custom : str -> list value -> res value.
  Variable cfg : config.

  Notation stateless_fn := (stateless_fn custom cfg).
  Notation fold_node := (fold_node custom cfg).
  Notation cfold := (cfold custom cfg).

  (* what `stateless` means: a built-in of the generated stateless list, or a name the config lists AND registers *)
  Definition is_stateless (name : str) : Prop :=
    in_names name builtin_stateless = true \/ (mem_str name (stateless cfg) = true /\ mem_str name (registered cfg) = true).

  Lemma stateless_fn_some name fn : stateless_fn name = Some fn -> is_stateless name.
  Proof.
    unfold Opt.stateless_fn, is_stateless. destruct (in_names name builtin_stateless); [auto|].
    destruct (mem_str name (stateless cfg) && mem_str name (registered cfg)) eqn:E; [|discriminate].
    apply andb_prop in E. auto.
  Qed.

  (* (a) only stateless operators are ever invoked at compile time *)
  Lemma fold_node_calls name fast cs c : In c (snd (fold_node name fast cs)) -> fst c = name /\ is_stateless name.
  Proof.
    unfold Opt.fold_node. destruct (stateless_fn name) as [fn|] eqn:Es; [|intros []].
    pose proof (stateless_fn_some _ _ Es) as Hs.
    assert (G : forall c0, In c0 (snd (match all_consts cs with
               | Some vs => match fn vs with Ok r => (TConst r, [(name, vs)]) | Err _ => (TOp name fast cs, [(name, vs)]) end
               | None => (TOp name fast cs, []) end)) -> fst c0 = name /\ is_stateless name).
    { intros c0. destruct (all_consts cs) as [vs|]; [|intros []]. destruct (fn vs); cbn; intros [<-|[]]; auto. }
    destruct (op_kind name) as [d|]; [|apply G].
    destruct (bool_scan d cs) as [[b|]|]; [intros []|apply G|intros []].
  Qed.

  Theorem cfold_calls_stateless : forall t c, In c (snd (cfold t)) -> is_stateless (fst c).
  Proof.
    induction t as [v|n k|name fast cs IH|c t f IHc IHt IHf] using tree_ind2; intros c0 Hin; cbn [Opt.cfold snd] in Hin.
    - destruct Hin.
    - destruct Hin.
    - apply in_app_or in Hin. destruct Hin as [Hin|Hin].
      + apply in_concat in Hin. destruct Hin as [l [Hl Hc]]. apply in_map_iff in Hl. destruct Hl as [r [<- Hr]].
        apply in_map_iff in Hr. destruct Hr as [ch [<- Hch]]. rewrite Forall_forall in IH. apply (IH ch Hch). exact Hc.
      + apply fold_node_calls in Hin. destruct Hin as [-> Hs]. exact Hs.
    - apply in_app_or in Hin. destruct Hin as [Hin|Hin]; [apply IHc; exact Hin|].
      apply in_app_or in Hin. destruct Hin as [Hin|Hin]; [apply IHt|apply IHf]; exact Hin.
  Qed.

  (* (b) a failing constant sub-expression is left in place (Compile does not fail; the error surfaces from Eval,
     by run_compile_correct exactly when `sem` reaches it) *)
  Theorem fold_failure_kept name fast cs fn vs e :
    stateless_fn name = Some fn -> all_consts cs = Some vs -> fn vs = Err e ->
    (forall d, op_kind name = Some d -> bool_scan d cs = Some None) ->
    fst (fold_node name fast cs) = TOp name fast cs.
  Proof.
    intros Hs Hc He Hb. unfold Opt.fold_node. rewrite Hs. destruct (op_kind name) as [d|].
    - rewrite (Hb d eq_refl), Hc, He. reflexivity.
    - rewrite Hc, He. reflexivity.
  Qed.

  (* (c) an operator that is not stateless is never folded: its call node stays a call node *)
  Theorem impure_never_folded name fast cs : stateless_fn name = None ->
    fold_node name fast cs = (TOp name fast cs, []).
  Proof. intros H. unfold Opt.fold_node. rewrite H. reflexivity. Qed.

  Theorem cfold_impure_node name fast cs : stateless_fn name = None ->
    fst (cfold (TOp name fast cs)) = TOp name fast (map (fun c => fst (cfold c)) cs).
  Proof. intros H. cbn [Opt.cfold fst]. rewrite impure_never_folded by exact H. cbn [fst]. rewrite map_map. reflexivity. Qed.

  (* (d) a node with a non-constant operand becomes a constant only when a constant operand of and/or decides it *)
  Lemma all_consts_some cs vs : all_consts cs = Some vs -> Forall (fun c => exists v, c = TConst v) cs.
  Proof.
    revert vs. induction cs as [|c cs IH]; intros vs H; [constructor|]. cbn [all_consts] in H.
    destruct c; try discriminate. destruct (all_consts cs) eqn:E; [|discriminate]. constructor; [eauto|eapply IH; eauto].
  Qed.

  Lemma bool_scan_decides d cs b : bool_scan d cs = Some (Some b) -> b = d /\ In (TConst (VBool d)) cs.
  Proof.
    induction cs as [|c cs IH]; cbn [bool_scan]; [discriminate|]. destruct c as [v| | |]; try (intros H; destruct (IH H); split; [assumption|right; assumption]).
    destruct v as [|b0| | | | | | | |]; try discriminate. destruct (Bool.eqb b0 d) eqn:E.
    - intros H. inversion H; subst. apply Bool.eqb_prop in E. subst. split; [reflexivity|left; reflexivity].
    - intros H. destruct (IH H). split; [assumption|right; assumption].
  Qed.

  Theorem fold_var_only_if_decided name fast cs v :
    fst (fold_node name fast cs) = TConst v -> ~ Forall (fun c => exists w, c = TConst w) cs ->
    exists d, op_kind name = Some d /\ v = VBool d /\ In (TConst (VBool d)) cs.
  Proof.
    intros H Hn. unfold Opt.fold_node in H. destruct (stateless_fn name) as [fn|]; [|discriminate].
    assert (G : fst (match all_consts cs with
               | Some vs => match fn vs with Ok r => (TConst r, [(name, vs)]) | Err _ => (TOp name fast cs, [(name, vs)]) end
               | None => (TOp name fast cs, []) end) = TConst v -> False).
    { destruct (all_consts cs) as [vs|] eqn:E; [|discriminate]. intros _. apply Hn. eapply all_consts_some; eauto. }
    destruct (op_kind name) as [d|]; [|destruct (G H)].
    destruct (bool_scan d cs) as [[b|]|] eqn:Eb; [|destruct (G H)|discriminate].
    cbn [fst] in H. inversion H; subst. destruct (bool_scan_decides _ _ _ Eb) as [-> Hin]. eauto.
  Qed.
End F.
