(* CompFactsE.v — structure of the event-mode compiler output. *)
Require Import Base Opcode Tables Ops Tree Opt Flat FlatE Run CompFacts.
From Coq Require Import ZifyBool.
Open Scope Z_scope.
Open Scope list_scope.

Lemma esize_pos t : (2 <= esize t)%nat.
Proof. destruct t; cbn [esize]; try lia. destruct (fast_shape fast cs); lia. Qed.

Section C.
  Variable last : Z.

  Lemma compE_op_unfold name fast cs base h inh anc mf mt pidx r :
    fast_shape fast cs = false ->
    compE last (TOp name fast cs) base h inh anc mf mt pidx r =
      compE_args last (op_kind name) (lenZ cs) (base + Z.of_nat (esize (TOp name fast cs)) - 1)
                 (if inh then [] else (mf, mt) :: anc) cs base h
      ++ with_event (base + Z.of_nat (esize (TOp name fast cs)) - 1) (mk last (KOp name) (lenZ cs) mf mt h r) pidx.
  Proof.
    intros Hf. cbn [compE]. rewrite Hf. f_equal.
    generalize (base + Z.of_nat (esize (TOp name fast cs)) - 1) as ridx.
    generalize (if inh then [] else (mf, mt) :: anc) as anc'.
    generalize (lenZ cs) as n. intros n anc' ridx. clear Hf. revert base h.
    induction cs as [|c cs IH]; intros b hh; cbn [compE_args]; cbv zeta; [reflexivity|].
    f_equal. apply IH.
  Qed.

  Lemma compE_fast_unfold name fast a b base h inh anc mf mt pidx r :
    fast_shape fast [a; b] = true ->
    compE last (TOp name fast [a; b]) base h inh anc mf mt pidx r =
      let k := op_kind name in
      let fl := child_flags k false in
      with_event (base + 1) (mk last (KFast name) 2 mf mt h r) pidx ++
      [ (mk last (leaf_kind a) 0 fl (if fany fl then base + 1 else base + 2) h k, base + 1);
        (mk last (leaf_kind b) 0 fl (if fany fl then base + 1 else base + 3) h k, base + 1) ].
  Proof. intros Hf. cbn [compE]. rewrite Hf. reflexivity. Qed.

  Lemma esize_op name fast cs : fast_shape fast cs = false -> esize (TOp name fast cs) = S (S (esizes cs)).
  Proof. intros H. cbn [esize]. rewrite H. reflexivity. Qed.
  Lemma esize_fast name fast cs : fast_shape fast cs = true -> esize (TOp name fast cs) = 4%nat.
  Proof. intros H. cbn [esize]. rewrite H. reflexivity. Qed.

  Lemma compE_length t : forall base h inh anc mf mt pidx r,
    length (compE last t base h inh anc mf mt pidx r) = esize t.
  Proof.
    induction t as [v|n k|name fast cs IH|c t f IHc IHt IHf] using tree_ind2; intros.
    - reflexivity.
    - reflexivity.
    - destruct (fast_shape fast cs) eqn:Hf.
      + destruct (fast_shape_inv _ _ Hf) as (a & b & -> & Ha & Hb & ->).
        rewrite compE_fast_unfold by exact Hf. rewrite esize_fast by exact Hf. reflexivity.
      + rewrite compE_op_unfold by exact Hf. rewrite app_length. cbn [length with_event]. rewrite esize_op by exact Hf. clear Hf.
        assert (E : forall k n ridx anc' b hh, length (compE_args last k n ridx anc' cs b hh) = esizes cs).
        { intros k n ridx anc'. induction IH as [|c cs0 Hc _ IHcs]; intros b hh; cbn [compE_args esizes fold_right]; [reflexivity|].
          rewrite app_length, Hc. fold (esizes cs0). rewrite IHcs. reflexivity. }
        rewrite E. lia.
    - cbn [compE]. repeat (rewrite app_length; cbn [length with_event]). rewrite IHc, IHt, IHf. cbn [esize]. lia.
  Qed.

  Lemma compE_args_length k n ridx anc' cs b hh : length (compE_args last k n ridx anc' cs b hh) = esizes cs.
  Proof.
    revert b hh. induction cs as [|c cs IH]; intros b hh; cbn [compE_args esizes fold_right]; [reflexivity|].
    rewrite app_length, compE_length. fold (esizes cs). rewrite IH. reflexivity.
  Qed.

  (* the first node of a subtree's code writes (or announces) the subtree's own slot *)
  Lemma compE_first_os t : forall base h inh anc mf mt pidx r,
    exists nd p rest, compE last t base h inh anc mf mt pidx r = (nd, p) :: rest /\ osTop nd = h.
  Proof.
    induction t as [v|n k|name fast cs IH|c t f IHc IHt IHf] using tree_ind2; intros.
    - cbn [compE with_event]. eexists _, _, _. split; reflexivity.
    - cbn [compE with_event]. eexists _, _, _. split; reflexivity.
    - destruct (fast_shape fast cs) eqn:Hf.
      + destruct (fast_shape_inv _ _ Hf) as (a & b & -> & Ha & Hb & ->).
        rewrite compE_fast_unfold by exact Hf. cbv zeta. cbn [with_event app]. eexists _, _, _. split; reflexivity.
      + rewrite compE_op_unfold by exact Hf. destruct cs as [|c cs].
        * cbn [compE_args app with_event]. eexists _, _, _. split; reflexivity.
        * cbn [compE_args]. cbv zeta. inversion IH as [|? ? Hc _]; subst.
          match goal with |- context [compE last c ?b ?hh ?i ?an ?f ?tg ?pp ?rr] => destruct (Hc b hh i an f tg pp rr) as (nd & p & rest & E & Ho) end.
          rewrite E. cbn [app]. eexists _, _, _. split; [reflexivity|exact Ho].
    - cbn [compE]. cbv zeta.
      match goal with |- context [compE last c ?b ?hh ?i ?an ?f0 ?tg ?pp ?rr] => destruct (IHc b hh i an f0 tg pp rr) as (nd & p & rest & E & Ho) end.
      rewrite E. cbn [app]. eexists _, _, _. split; [reflexivity|exact Ho].
  Qed.
End C.
