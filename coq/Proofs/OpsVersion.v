(* OpsVersion.v — the positional version encoding preserves order and never wraps (C19, version half). *)
Require Import Base Opcode Tables Ops OpsArith.
From Coq Require Import ZifyBool.
Open Scope Z_scope.
Open Scope list_scope.

Definition B : Z := version_base.

Definition step (a v : Z) : Z := a * B + v.
Definition pad (n : nat) (vs : list Z) : list Z := firstn n (vs ++ repeat 0 n).
Definition value_of (l : list Z) (acc : Z) : Z := fold_left step l acc.

Definition digit (v : Z) : Prop := 0 <= v < B.

Fixpoint lexcmp (a b : list Z) : comparison :=
  match a, b with
  | x :: a', y :: b' => match x ?= y with Eq => lexcmp a' b' | c => c end
  | _, _ => Eq
  end.

Lemma pad_length n vs : length (pad n vs) = n.
Proof. unfold pad. rewrite firstn_length, app_length, repeat_length. lia. Qed.

Lemma pad_nil n : pad (S n) [] = 0 :: pad n [].
Proof. unfold pad. cbn [app repeat firstn]. f_equal. Qed.
Lemma pad_cons n v vs : pad (S n) (v :: vs) = v :: pad n vs.
Proof.
  unfold pad. cbn [app firstn]. f_equal.
  replace (repeat 0 (S n)) with (repeat 0 n ++ [0]) by (rewrite <- repeat_cons; reflexivity).
  rewrite app_assoc. rewrite firstn_app.
  replace (n - length (vs ++ repeat 0%Z n))%nat with 0%nat by (rewrite app_length, repeat_length; lia).
  cbn [firstn]. rewrite app_nil_r. reflexivity.
Qed.

Lemma pad_digits n vs : Forall digit vs -> Forall digit (pad n vs).
Proof.
  revert vs. induction n as [|n IH]; intros vs H; [constructor|].
  destruct vs as [|v vs].
  - rewrite pad_nil. constructor; [unfold digit, B, version_base; lia|apply IH; constructor].
  - rewrite pad_cons. inversion H; subst. constructor; auto.
Qed.

(* ---------- base-B numerals compare lexicographically ---------- *)

Lemma value_lt a b acc1 acc2 : length a = length b -> Forall digit a -> Forall digit b ->
  acc1 < acc2 -> value_of a acc1 < value_of b acc2.
Proof.
  revert b acc1 acc2. induction a as [|x a IH]; intros [|y b] acc1 acc2 Hl Ha Hb Hlt; try discriminate Hl; cbn [value_of fold_left].
  - exact Hlt.
  - inversion Ha; subst. inversion Hb; subst. apply IH; auto. unfold step, digit, B, version_base in *. lia.
Qed.

Lemma value_lex a b acc : length a = length b -> Forall digit a -> Forall digit b ->
  (value_of a acc ?= value_of b acc) = lexcmp a b.
Proof.
  revert b acc. induction a as [|x a IH]; intros [|y b] acc Hl Ha Hb; try discriminate Hl; cbn [value_of fold_left lexcmp].
  - apply Z.compare_refl.
  - inversion Ha; subst. inversion Hb; subst. injection Hl as Hl.
    destruct (Z.compare_spec x y) as [->|Hlt|Hgt].
    + apply IH; auto.
    + apply Z.compare_lt_iff. apply value_lt; auto. unfold step. lia.
    + apply Z.compare_gt_iff. apply value_lt; auto. unfold step. lia.
Qed.

Lemma value_bound l acc k : Forall digit l -> 0 <= acc < B ^ Z.of_nat k -> 0 <= value_of l acc < B ^ Z.of_nat (k + length l).
Proof.
  revert acc k. induction l as [|x l IH]; intros acc k Hd Hacc; cbn [value_of fold_left length].
  - rewrite Nat.add_0_r. exact Hacc.
  - inversion Hd; subst. replace (k + S (length l))%nat with (S k + length l)%nat by lia.
    apply IH; auto. unfold step. rewrite Nat2Z.inj_succ, Z.pow_succ_r by lia. unfold digit in *.
    assert (0 < B) by (unfold B, version_base; lia). nia.
Qed.

(* ---------- the loop computes value_of (pad n components) without wrapping ---------- *)

Definition parses (arr : list str) (vs : list Z) : Prop := Forall2 (fun s v => parse_int s = Some v) arr vs.

Lemma version_loop_ok name n : forall arr vs acc k,
  parses arr vs -> Forall digit vs -> (k + n <= 4)%nat -> 0 <= acc < B ^ Z.of_nat k ->
  version_loop name n arr acc = Ok (VInt (value_of (pad n vs) acc)).
Proof.
  induction n as [|n IH]; intros arr vs acc k Hp Hd Hk Hacc.
  - reflexivity.
  - assert (HB : B ^ Z.of_nat (S k) <= B ^ 4) by (apply Z.pow_le_mono_r; unfold B, version_base; lia).
    assert (HB4 : B ^ 4 < two63) by (unfold B, version_base, two63; reflexivity || lia).
    assert (HBS : B ^ Z.of_nat (S k) = B ^ Z.of_nat k * B) by (rewrite Nat2Z.inj_succ, Z.pow_succ_r by lia; lia).
    assert (HBpos : 0 < B) by (unfold B, version_base; lia).
    cbn [version_loop]. inversion Hp as [|s v arr' vs' Hs Hp']; subst.
    + rewrite pad_nil. cbn [value_of fold_left]. fold (value_of (pad n []) (step acc 0)).
      replace (wrap64 (acc * version_base)) with (step acc 0).
      * apply (IH [] [] _ (S k)); [constructor|constructor|lia|].
        unfold step. rewrite HBS. nia.
      * unfold step. fold B. rewrite Z.add_0_r. symmetry. apply wrap64_id. unfold two63 in *. nia.
    + rewrite Hs. inversion Hd; subst. unfold digit in H1. fold B.
      replace (v >=? version_limit) with false by (unfold B, version_base, version_limit in *; lia).
      rewrite pad_cons. cbn [value_of fold_left]. fold (value_of (pad n vs') (step acc v)).
      replace (wrap64 (wrap64 (acc * B) + v)) with (step acc v).
      * apply (IH arr' vs' _ (S k)); [assumption|assumption|lia|].
        unfold step. rewrite HBS. nia.
      * unfold step. symmetry. rewrite (wrap64_id (acc * B)) by (unfold two63 in *; nia). apply wrap64_id. unfold two63 in *. nia.
Qed.

Definition valid_len (n : Z) : Prop := version_min_len <= n <= version_max_len.

(* the encoding of a version string whose dot-separated components parse to vs (each 0..9999),
   under the default length (one operand) or an explicit valid length *)
Theorem version_encodes m dl s vs n :
  parses (split 46 s) vs -> Forall digit vs -> valid_len n ->
  version_conv m dl [VStr s; VInt n] = Ok (VInt (value_of (pad (Z.to_nat n) vs) 0)) /\
  (valid_len dl -> version_conv m dl [VStr s] = Ok (VInt (value_of (pad (Z.to_nat dl) vs) 0))).
Proof.
  intros Hp Hd Hn. unfold valid_len, version_min_len, version_max_len in *. unfold version_conv. split.
  - replace ((n >? version_max_len) || (n <? version_min_len)) with false by (unfold version_min_len, version_max_len; lia).
    cbn [bind]. apply (version_loop_ok _ _ _ vs 0 0%nat); auto; [lia|unfold B, version_base; lia].
  - intros Hdl. cbn [bind]. apply (version_loop_ok _ _ _ vs 0 0%nat); auto; [lia|unfold B, version_base; lia].
Qed.

(* order preservation and absence of wrap-around *)
Theorem version_order n va vb : (n <= 4)%nat -> Forall digit va -> Forall digit vb ->
  (value_of (pad n va) 0 ?= value_of (pad n vb) 0) = lexcmp (pad n va) (pad n vb) /\
  0 <= value_of (pad n va) 0 < B ^ Z.of_nat n /\ B ^ Z.of_nat n <= B ^ 4 /\ B ^ 4 < two63.
Proof.
  intros Hn Ha Hb. split; [|split; [|split]].
  - apply value_lex; [rewrite !pad_length; reflexivity|apply pad_digits; auto|apply pad_digits; auto].
  - pose proof (value_bound (pad n va) 0 0%nat (pad_digits n va Ha)) as H. rewrite pad_length in H. apply H. cbn. lia.
  - apply Z.pow_le_mono_r; unfold B, version_base; lia.
  - reflexivity.
Qed.

(* lexcmp on padded lists is component-wise comparison with missing components read as 0 *)
Lemma lexcmp_pad_spec n va vb : lexcmp (pad n va) (pad n vb) = Eq <-> pad n va = pad n vb.
Proof.
  assert (Hl : length (pad n va) = length (pad n vb)) by (rewrite !pad_length; reflexivity).
  revert Hl. generalize (pad n va) (pad n vb). induction l as [|x l IH]; intros [|y l'] Hl; try discriminate Hl; cbn [lexcmp].
  - split; reflexivity.
  - injection Hl as Hl. destruct (Z.compare_spec x y) as [->|H|H].
    + rewrite IH by auto. split; intros E; [f_equal; auto|inversion E; auto].
    + split; [discriminate|]. intros E. inversion E. lia.
    + split; [discriminate|]. intros E. inversion E. lia.
Qed.

(* ---------- rejections ---------- *)

Definition bad_component (s : str) : Prop :=
  parse_int s = None \/ exists v, parse_int s = Some v /\ version_limit <= v.

Lemma version_loop_rejects name n : forall arr acc,
  Exists bad_component (firstn n arr) -> version_loop name n arr acc = Err (EExec name).
Proof.
  induction n as [|n IH]; intros arr acc H; [cbn in H; inversion H|].
  destruct arr as [|a arr]; [cbn in H; inversion H|].
  cbn [firstn] in H. cbn [version_loop]. inversion H as [x l Hbad|x l Hrest]; subst.
  - destruct Hbad as [-> | [v [-> Hv]]]; [reflexivity|]. replace (v >=? version_limit) with true by lia. reflexivity.
  - destruct (parse_int a) as [v|]; [|reflexivity]. destruct (v >=? version_limit); [reflexivity|]. apply IH; exact Hrest.
Qed.

Theorem version_rejects m dl s n :
  (valid_len n -> Exists bad_component (firstn (Z.to_nat n) (split 46 s)) ->
     version_conv m dl [VStr s; VInt n] = Err (EExec (mname (vmode_key m)))) /\
  (~ valid_len n -> version_conv m dl [VStr s; VInt n] = Err (EExec (mname (vmode_key m)))) /\
  (forall ps, length ps <> 1%nat -> length ps <> 2%nat -> version_conv m dl ps = Err (ECount (mname (vmode_key m)))).
Proof.
  unfold valid_len, version_min_len, version_max_len. repeat split.
  - intros Hn Hbad. unfold version_conv.
    replace ((n >? version_max_len) || (n <? version_min_len)) with false by (unfold version_min_len, version_max_len; lia).
    cbn [bind]. apply version_loop_rejects; exact Hbad.
  - intros Hn. unfold version_conv.
    replace ((n >? version_max_len) || (n <? version_min_len)) with true by (unfold version_min_len, version_max_len; lia).
    reflexivity.
  - intros ps H1 H2. destruct ps as [|a [|b [|c ps]]]; cbn [length] in *; try congruence; try reflexivity.
    unfold version_conv. destruct b; reflexivity.
Qed.

(* ---------- strings.Split on '.' inverts joining dot-free components ---------- *)

Fixpoint join (sep : N) (l : list str) : str :=
  match l with [] => [] | [a] => a | a :: l' => a ++ sep :: join sep l' end.

Lemma split_on_nosep sep cur a : ~ In sep a -> split_on sep cur a = [rev cur ++ a].
Proof.
  revert cur. induction a as [|c a IH]; intros cur H; cbn [split_on].
  - rewrite app_nil_r. reflexivity.
  - destruct (N.eqb_spec c sep) as [->|Hne]; [exfalso; apply H; left; reflexivity|].
    rewrite IH by (intros Hin; apply H; right; exact Hin). cbn [rev]. rewrite <- app_assoc. reflexivity.
Qed.

Lemma split_on_app sep cur a s : ~ In sep a -> split_on sep cur (a ++ sep :: s) = (rev cur ++ a) :: split_on sep [] s.
Proof.
  revert cur. induction a as [|c a IH]; intros cur H; cbn [app split_on].
  - rewrite N.eqb_refl, app_nil_r. reflexivity.
  - destruct (N.eqb_spec c sep) as [->|Hne]; [exfalso; apply H; left; reflexivity|].
    rewrite IH by (intros Hin; apply H; right; exact Hin). cbn [rev]. rewrite <- app_assoc. reflexivity.
Qed.

Theorem split_join sep l : l <> [] -> Forall (fun a => ~ In sep a) l -> split sep (join sep l) = l.
Proof.
  unfold split. induction l as [|a l IH]; intros Hne Hf; [congruence|].
  inversion Hf; subst. destruct l as [|b l].
  - cbn [join]. rewrite split_on_nosep by auto. reflexivity.
  - change (join sep (a :: b :: l)) with (a ++ sep :: join sep (b :: l)).
    rewrite split_on_app by auto. cbn [rev app]. f_equal. apply IH; [congruence|auto].
Qed.
