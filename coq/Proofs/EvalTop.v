(* EvalTop.v — the stack-allocation fact for compiled programs and the top-level theorem
   eval (compile t) = sem t. *)
Require Import Base Opcode Tables Ops Tree Opt Flat Run CompFacts EvalDefs EvalInv EvalCorrect.
From Coq Require Import ZifyBool.
Open Scope Z_scope.
Open Scope list_scope.

(* ---------- every slot is below the node's position ---------- *)

Definition os_ok (code : list (node * Z)) (h : Z) : Prop :=
  forall k nd p, nth_error code k = Some (nd, p) -> osTop nd <= h + Z.of_nat k.

Lemma os_ok_nil h : os_ok [] h.
Proof. intros k nd p H. destruct k; discriminate. Qed.

Lemma os_ok_app a b h h' : os_ok a h -> os_ok b h' -> h' <= h + Z.of_nat (length a) -> os_ok (a ++ b) h.
Proof.
  intros Ha Hb Hh k nd p H. destruct (Nat.lt_ge_cases k (length a)) as [Hk|Hk].
  - rewrite nth_error_app1 in H by exact Hk. eapply Ha; eauto.
  - rewrite nth_error_app2 in H by exact Hk. apply Hb in H. lia.
Qed.

Lemma os_ok_one nd p h : osTop nd <= h -> os_ok [(nd, p)] h.
Proof. intros H k nd' p' Hk. destruct k as [|[|k]]; cbn in Hk; try discriminate. inversion Hk; subst. lia. Qed.

Lemma os_ok_weaken code h h' : os_ok code h -> h <= h' -> os_ok code h'.
Proof. intros H Hh k nd p Hk. apply H in Hk. lia. Qed.

Lemma comp_os_ok last t : forall base h inh anc mf mt pidx r, os_ok (comp last t base h inh anc mf mt pidx r) h.
Proof.
  induction t as [v|n k|name fast cs IH|c t f IHc IHt IHf] using tree_ind2; intros.
  - apply os_ok_one. cbn. lia.
  - apply os_ok_one. cbn. lia.
  - destruct (fast_shape fast cs) eqn:Hfs.
    + destruct (fast_shape_inv _ _ Hfs) as (a & b & -> & Ha & Hb & ->).
      rewrite comp_fast_unfold by exact Hfs. cbv zeta.
      intros k nd p Hk. destruct k as [|[|[|k]]]; cbn [nth_error] in Hk; try (destruct k; discriminate); inversion Hk; subst; cbn [osTop mk]; lia.
    + rewrite comp_op_unfold by exact Hfs. clear Hfs.
      assert (E : forall kk n ridx anc' b hh, os_ok (comp_args last kk n ridx anc' cs b hh) hh).
      { intros kk n ridx anc'. induction IH as [|c0 cs0 Hc _ IHcs]; intros b hh; cbn [comp_args]; [apply os_ok_nil|].
        cbv zeta. apply (os_ok_app _ _ hh (hh + 1)); [apply Hc|apply IHcs|]. rewrite comp_length. pose proof (size_pos c0). lia. }
      eapply os_ok_app; [apply E|apply os_ok_one; cbn; reflexivity|]. lia.
  - cbn [comp]. cbv zeta. pose proof (size_pos c). pose proof (size_pos t).
    apply (os_ok_app _ _ h h); [apply IHc| |rewrite comp_length; lia].
    apply (os_ok_app _ _ h h); [apply os_ok_one; cbn [osTop mk]; lia| |cbn [length]; lia].
    apply (os_ok_app _ _ h h); [apply IHt| |rewrite comp_length; lia].
    apply (os_ok_app _ _ h h); [apply os_ok_one; cbn [osTop mk]; lia|apply IHf|cbn [length]; lia].
Qed.

Lemma max_list_le l : forall d, d <= max_list l d.
Proof. unfold max_list. induction l as [|x l IH]; intros d; cbn [fold_left]; [lia|]. specialize (IH (Z.max d x)). lia. Qed.

Lemma max_list_ge l : forall d x, In x l -> x <= max_list l d.
Proof.
  unfold max_list. induction l as [|y l IH]; intros d x H; [destruct H|]. cbn [fold_left]. destruct H as [->|H].
  - pose proof (max_list_le l (Z.max d x)). unfold max_list in *. lia.
  - apply IH. exact H.
Qed.

Lemma compile_nodes t : nodes (compile t) =
  map fst (comp (Z.of_nat (size t) - 1) t 0 0 false [] fnone (root_idx t 0) (-1) None).
Proof. reflexivity. Qed.

Lemma compile_len t : lenZ (nodes (compile t)) = Z.of_nat (size t).
Proof. rewrite compile_nodes. unfold lenZ. rewrite map_length, comp_length. reflexivity. Qed.

(* the operand stack the evaluator allocates is large enough for every node's slot (C09, stack clause) *)
Theorem compile_alloc t : forall i nd, getn (compile t) i = Some nd -> osTop nd < alloc (compile t).
Proof.
  intros i nd G. pose proof (nthZ_range _ _ _ G) as R.
  unfold getn, nthZ in G. replace (i <? 0) with false in G by lia.
  rewrite compile_nodes in G. rewrite nth_error_map in G.
  destruct (nth_error (comp _ t 0 0 false [] fnone (root_idx t 0) (-1) None) (Z.to_nat i)) as [[nd' p]|] eqn:E; [|discriminate].
  cbn in G. inversion G; subst nd'. clear G.
  pose proof (comp_os_ok _ _ _ _ _ _ _ _ _ _ _ _ _ E) as Hos.
  assert (Hmax : osTop nd + 1 <= maxStack (compile t)).
  { unfold compile. cbn [maxStack]. apply max_list_ge. apply in_map_iff. exists (nd, p). split; [reflexivity|].
    eapply nth_error_In; eauto. }
  unfold alloc. destruct (maxStack (compile t) <=? stack_small) eqn:E8; [lia|].
  destruct (maxStack (compile t) <=? stack_mid) eqn:E16; [lia|].
  unfold psize. lia.
Qed.

Lemma alloc_pos t : 1 <= alloc (compile t).
Proof.
  unfold alloc. destruct (_ <=? stack_small); [unfold stack_small; lia|].
  destruct (_ <=? stack_mid); [unfold stack_mid; lia|].
  unfold psize. rewrite compile_len. pose proof (size_pos t). lia.
Qed.

(* ---------- T-EVAL ---------- *)

Definition sem_obs (x : list effect * res value) : list obs * mres :=
  (map e2o (fst x), match snd x with Ok v => MVal v | Err e => MErr e end).

Theorem run_compile_correct fetch custom t :
  eval fetch custom (compile t) = sem_obs (sem fetch custom t).
Proof.
  set (P := compile t).
  pose proof (sub_ok fetch custom P (compile_alloc t) t 0 0 false [] [] fnone (root_idx t 0) (-1) None 0
                (fun v => ([], MVal v)) []) as H.
  unfold eval. rewrite H.
  - unfold sem_obs, bindT. destruct (sem fetch custom t) as [tr [v|e]]; cbn [fst snd]; [|reflexivity].
    unfold preM. cbn [fst snd]. rewrite app_nil_r. reflexivity.
  - exists [], []. split; [|reflexivity]. rewrite app_nil_r. cbn [app].
    unfold lastI. unfold P. rewrite compile_len. apply compile_nodes.
  - lia.
  - reflexivity.
  - intros b Hb. destruct b; discriminate.
  - exact I.
  - intros Hc. discriminate.
  - reflexivity.
  - intros v f Hf. rewrite Z.add_0_l.
    rewrite (afterD_unflagged P _ _ fnone fnone _ 0 v [] eq_refl eq_refl).
    assert (E : afterD P (run fetch custom P f) (Z.of_nat (size t)) fnone 0 v [] = run fetch custom P f (Z.of_nat (size t)) [v]).
    { unfold afterD, store_next, push. change (lenZ (@nil value)) with 0.
      pose proof (alloc_pos t). fold P in H0. replace (0 <? alloc P) with true by lia.
      destruct v; try reflexivity. destruct b; reflexivity. }
    rewrite E. destruct f as [|f']; [unfold need in Hf; lia|].
    rewrite run_S. unfold psize, P. rewrite compile_len. replace (Z.of_nat (size t) <=? Z.of_nat (size t)) with true by lia.
    reflexivity.
  - unfold need, P. rewrite compile_len. unfold lenZ. fold P. 
    assert (length (nodes P) = size t) by (unfold P; rewrite compile_nodes, map_length, comp_length; reflexivity). lia.
Qed.

Print Assumptions run_compile_correct.
