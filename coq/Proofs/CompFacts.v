(* CompFacts.v — structure of the compiler's output: lengths, where nodes sit. *)
Require Import Base Opcode Tables Ops Tree Opt Flat Run.
From Coq Require Import ZifyBool.
Open Scope Z_scope.
Open Scope list_scope.

Lemma size_pos t : (1 <= size t)%nat.
Proof. destruct t; cbn; lia. Qed.

Lemma lenZ_app {A} (a b : list A) : lenZ (a ++ b) = lenZ a + lenZ b.
Proof. unfold lenZ. rewrite app_length. lia. Qed.
Lemma lenZ_cons {A} (x : A) l : lenZ (x :: l) = lenZ l + 1.
Proof. unfold lenZ. cbn [length]. lia. Qed.
Lemma lenZ_nonneg {A} (l : list A) : 0 <= lenZ l.
Proof. unfold lenZ. lia. Qed.

Section C.
  Variable last : Z.

  Lemma comp_op_unfold name fast cs base h inh anc mf mt pidx r :
    fast_shape fast cs = false ->
    comp last (TOp name fast cs) base h inh anc mf mt pidx r =
      comp_args last (op_kind name) (lenZ cs) (base + Z.of_nat (size (TOp name fast cs)) - 1)
                (if inh then [] else (mf, mt) :: anc) cs base h
      ++ [ (mk last (KOp name) (lenZ cs) mf mt h r, pidx) ].
  Proof.
    intros Hf. cbn [comp]. rewrite Hf.
    f_equal.
    generalize (base + Z.of_nat (size (TOp name fast cs)) - 1) as ridx.
    generalize (if inh then [] else (mf, mt) :: anc) as anc'.
    generalize (lenZ cs) as n. intros n anc' ridx. clear Hf. revert base h.
    induction cs as [|c cs IH]; intros b hh; cbn [comp_args]; cbv zeta; [reflexivity|].
    f_equal. apply IH.
  Qed.

  Lemma comp_fast_unfold name fast a b base h inh anc mf mt pidx r :
    fast_shape fast [a; b] = true ->
    comp last (TOp name fast [a; b]) base h inh anc mf mt pidx r =
      let k := op_kind name in
      let fl := child_flags k false in
      [ (mk last (KFast name) 2 mf mt h r, pidx);
        (mk last (leaf_kind a) 0 fl (if fany fl then base else base + 1) h k, base);
        (mk last (leaf_kind b) 0 fl (if fany fl then base else base + 2) h k, base) ].
  Proof. intros Hf. cbn [comp]. rewrite Hf. reflexivity. Qed.

  Lemma fast_shape_inv fast cs : fast_shape fast cs = true ->
    exists a b, cs = [a; b] /\ is_leaf a = true /\ is_leaf b = true /\ fast = true.
  Proof.
    unfold fast_shape. intros H. apply andb_prop in H. destruct H as [H1 H2].
    destruct cs as [|a [|b [|c cs]]]; try discriminate. apply andb_prop in H2. destruct H2. eauto 8.
  Qed.

  Lemma leaf_size t : is_leaf t = true -> size t = 1%nat.
  Proof. destruct t; cbn; congruence. Qed.

  Lemma comp_length t : forall base h inh anc mf mt pidx r,
    length (comp last t base h inh anc mf mt pidx r) = size t.
  Proof.
    induction t as [v|n k|name fast cs IH|c t f IHc IHt IHf] using tree_ind2; intros.
    - reflexivity.
    - reflexivity.
    - destruct (fast_shape fast cs) eqn:Hf.
      + destruct (fast_shape_inv _ _ Hf) as (a & b & -> & Ha & Hb & ->).
        rewrite comp_fast_unfold by exact Hf. cbn [length size fold_right].
        rewrite (leaf_size a Ha), (leaf_size b Hb). reflexivity.
      + rewrite comp_op_unfold by exact Hf. rewrite app_length. cbn [length size]. clear Hf.
        assert (E : forall k n ridx anc' b hh, length (comp_args last k n ridx anc' cs b hh) = sizes cs).
        { intros k n ridx anc'. induction IH as [|c cs0 Hc _ IHcs]; intros b hh; cbn [comp_args sizes fold_right]; [reflexivity|].
          rewrite app_length, Hc. fold (sizes cs0). rewrite IHcs. reflexivity. }
        rewrite E. fold (sizes cs). lia.
    - cbn [comp]. repeat (rewrite app_length; cbn [length]). rewrite IHc, IHt, IHf. cbn [size]. lia.
  Qed.

  Lemma comp_args_length k n ridx anc' cs b hh : length (comp_args last k n ridx anc' cs b hh) = sizes cs.
  Proof.
    revert b hh. induction cs as [|c cs IH]; intros b hh; cbn [comp_args sizes fold_right]; [reflexivity|].
    rewrite app_length, comp_length. fold (sizes cs). rewrite IH. reflexivity.
  Qed.
End C.

(* ---------- placement of a code fragment inside a program ---------- *)

Definition placed (P : list node) (base : Z) (code : list node) : Prop :=
  exists pre post, P = pre ++ code ++ post /\ lenZ pre = base.

Lemma placed_get P base code k nd :
  placed P base code -> nth_error code k = Some nd -> nthZ P (base + Z.of_nat k) = Some nd.
Proof.
  intros (pre & post & -> & <-) H. unfold nthZ, lenZ.
  replace (Z.of_nat (length pre) + Z.of_nat k <? 0) with false by lia.
  replace (Z.to_nat (Z.of_nat (length pre) + Z.of_nat k)) with (length pre + k)%nat by lia.
  rewrite nth_error_app2 by lia. replace (length pre + k - length pre)%nat with k by lia.
  rewrite nth_error_app1; [assumption|]. apply nth_error_Some. congruence.
Qed.

Lemma placed_app P base a b :
  placed P base (a ++ b) -> placed P base a /\ placed P (base + lenZ a) b.
Proof.
  intros (pre & post & -> & <-). split.
  - exists pre, (b ++ post). now rewrite <- app_assoc.
  - exists (pre ++ a), post. rewrite lenZ_app, <- !app_assoc. split; reflexivity.
Qed.

Lemma placed_bound P base code : placed P base code -> 0 <= base /\ base + lenZ code <= lenZ P.
Proof.
  intros (pre & post & -> & <-). rewrite !lenZ_app. pose proof (lenZ_nonneg pre). pose proof (lenZ_nonneg post). lia.
Qed.

Lemma placed_cons P base x l : placed P base (x :: l) -> nthZ P base = Some x /\ placed P (base + 1) l.
Proof.
  intros H. change (x :: l) with ([x] ++ l) in H. apply placed_app in H. destruct H as [H1 H2]. split.
  - replace base with (base + Z.of_nat 0) by lia. eapply placed_get; [exact H1|reflexivity].
  - exact H2.
Qed.

Lemma nthZ_range {A} (l : list A) i x : nthZ l i = Some x -> 0 <= i < lenZ l.
Proof.
  unfold nthZ, lenZ. destruct (i <? 0) eqn:E; [discriminate|]. intros H.
  assert (Z.to_nat i < length l)%nat by (apply nth_error_Some; congruence). lia.
Qed.

Lemma nthZ_none {A} (l : list A) i : lenZ l <= i -> nthZ l i = None.
Proof.
  unfold nthZ, lenZ. intros H. destruct (i <? 0) eqn:E; [reflexivity|]. apply nth_error_None. lia.
Qed.
