(* GenShape.v — C20: the shape of the trees GenerateRandomExpr builds (the eleven operators, `if`, the given variables,
   integer literals in [-50,50)), hence: the text it returns is read back by the front end as the generated tree, in any
   configuration that registers the given variables; and that tree evaluates to the reported result. *)
Require Import Base Opcode Tables Ops Tree Opt Flat Run CompFacts OpsArith OpsList SemFacts TryFacts Directives Lexer Parser Print
  LexProofs InfixProofs PrefixProofs PrintProofs SourceProofs DumpStruct DumpText Gen GenText GenProofs GenEval GenTextProofs
  OptSound OptValue OptTotal.
From Coq Require Import ZifyBool ZifyN.
Open Scope Z_scope.
Open Scope list_scope.

Local Notation wf_tok := (wf_tok is_letter_tab is_number_tab).

Definition gops : list str :=
  [ss "and"; ss "or"; ss "eq"; ss "not"; ss "+"; ss "-"; ss "*"; ss "/"; ss "%"; ss "="; ss "!="].

Lemma children_Q (P : tree * value -> Prop) h n : (forall k s, (k < n)%nat -> P (fst (h k s))) -> (0 < n)%nat ->
  forall k s, Forall P (fst (children h n k s)) /\ length (fst (children h n k s)) = k.
Proof.
  intros Hh Hn. induction k as [|k IH]; intros s; cbn [children]; [split; [constructor|reflexivity]|].
  unfold draw. destruct s as [|v s'].
  - destruct (h (Z.to_nat 0) []) as [tv s1] eqn:E1. destruct (children h n k s1) as [rest s2] eqn:E2. cbn [fst].
    specialize (IH s1). rewrite E2 in IH. cbn [fst] in IH. destruct IH as [I1 I2]. split; [|cbn [length]; lia].
    constructor; [|exact I1]. specialize (Hh (Z.to_nat 0) [] ltac:(lia)). rewrite E1 in Hh. exact Hh.
  - destruct (h (Z.to_nat (v mod Z.of_nat n)) s') as [tv s1] eqn:E1. destruct (children h n k s1) as [rest s2] eqn:E2. cbn [fst].
    specialize (IH s1). rewrite E2 in IH. cbn [fst] in IH. destruct IH as [I1 I2]. split; [|cbn [length]; lia].
    constructor; [|exact I1].
    assert (Hk : (Z.to_nat (v mod Z.of_nat n) < n)%nat) by (pose proof (Z.mod_pos_bound v (Z.of_nat n) ltac:(lia)); lia).
    specialize (Hh _ s' Hk). rewrite E1 in Hh. exact Hh.
Qed.

Lemma pick_op_in isb r vals : In (pick_op isb r vals) gops.
Proof.
  unfold pick_op, nth_name, gops. destruct isb.
  - pose proof (Z.mod_pos_bound r 3 ltac:(lia)). assert (Hc : r mod 3 = 0 \/ r mod 3 = 1 \/ r mod 3 = 2) by lia.
    destruct Hc as [->|[->| ->]]; cbn; auto 20.
  - destruct (existsb _ (tl vals)).
    + pose proof (Z.mod_pos_bound r 3 ltac:(lia)). assert (Hc : r mod 3 = 0 \/ r mod 3 = 1 \/ r mod 3 = 2) by lia.
      destruct Hc as [->|[->| ->]]; cbn; auto 20.
    + pose proof (Z.mod_pos_bound r 5 ltac:(lia)). assert (Hc : r mod 5 = 0 \/ r mod 5 = 1 \/ r mod 5 = 2 \/ r mod 5 = 3 \/ r mod 5 = 4) by lia.
      destruct Hc as [->|[->|[->|[->| ->]]]]; cbn; auto 20.
Qed.

Section S.
  Variable c : gencfg.
  Definition gnames : list str := map fst (g_nums c ++ g_bools c ++ g_dnes c).

  Fixpoint gshape (t : tree) : Prop :=
    match t with
    | TConst (VInt z) => -50 <= z < 50
    | TConst _ => False
    | TVar n k => k = 0 /\ In n gnames
    | TOp name fast cs =>
      fast = false /\ In name gops /\ cs <> [] /\
      (fix all (l : list tree) : Prop := match l with [] => True | a :: l' => gshape a /\ all l' end) cs
    | TIf a b d => gshape a /\ gshape b /\ gshape d
    end.

  Lemma gshape_op name fast cs : gshape (TOp name fast cs) <-> fast = false /\ In name gops /\ cs <> [] /\ Forall gshape cs.
  Proof.
    cbn [gshape]. assert (E : forall l, (fix all (l : list tree) : Prop := match l with [] => True | a :: l' => gshape a /\ all l' end) l <-> Forall gshape l).
    { induction l as [|a l IH]; [split; auto|]. rewrite IH. split; [intros [H1 H2]; constructor; assumption|intros H; inversion H; auto]. }
    rewrite E. tauto.
  Qed.

  Lemma var_leaf_shape l v : nonempty l = true -> incl (map fst l) gnames -> gshape (fst (var_leaf l v)).
  Proof.
    intros Hne Hin. destruct (var_leaf l v) as [t r] eqn:E. destruct (var_leaf_spec l v t r Hne E) as (name & Hl & ->).
    cbn [fst gshape]. split; [reflexivity|]. apply Hin. apply in_map_iff. exists (name, r). split; [reflexivity|exact Hl].
  Qed.

  Lemma incl_nums : incl (map fst (g_nums c)) gnames.
  Proof. unfold gnames. rewrite !map_app. apply incl_appl. apply incl_refl. Qed.
  Lemma incl_bools : incl (map fst (g_bools c)) gnames.
  Proof. unfold gnames. rewrite !map_app. apply incl_appr. apply incl_appl. apply incl_refl. Qed.
  Lemma incl_dnes : incl (map fst (g_dnes c)) gnames.
  Proof. unfold gnames. rewrite !map_app. apply incl_appr. apply incl_appr. apply incl_refl. Qed.

  Lemma leaf_shape isb r v : 0 <= v < 100 -> gshape (fst (leaf c isb r v)).
  Proof.
    intros Hv. unfold leaf.
    destruct ((r =? 1) && g_try c && nonempty (g_dnes c)) eqn:E1.
    { apply andb_prop in E1. destruct E1 as [_ Hne]. apply var_leaf_shape; [exact Hne|apply incl_dnes]. }
    destruct isb.
    - destruct ((r <? 4) && g_var c && nonempty (g_bools c)) eqn:E2.
      + apply andb_prop in E2. destruct E2 as [_ Hne]. apply var_leaf_shape; [exact Hne|apply incl_bools].
      + destruct (v <? 50); cbn [fst]; apply gshape_op; (split; [reflexivity|split; [cbn; auto 20|split; [discriminate|]]]);
          repeat constructor; cbn; lia.
    - destruct ((r <? 4) && g_var c && nonempty (g_nums c)) eqn:E2.
      + apply andb_prop in E2. destruct E2 as [_ Hne]. apply var_leaf_shape; [exact Hne|apply incl_nums].
      + cbn [fst gshape]. lia.
  Qed.

  Lemma in_nine_gops op : In op [ss "and"; ss "or"; ss "eq"; ss "not"; ss "+"; ss "-"; ss "*"; ss "/"; ss "%"] -> In op gops.
  Proof. intros H. unfold gops. repeat (destruct H as [<-|H]; [cbn; auto 20|]). destruct H. Qed.

  Theorem helper_shape : forall fuel isb n s, (n < fuel)%nat -> gshape (fst (fst (helper c fuel isb n s))).
  Proof.
    induction fuel as [|f IH]; intros isb n s Hn; [lia|]. cbn [helper].
    destruct (draw s 10) as [r s0] eqn:Er. destruct n as [|n'].
    - destruct (draw s0 100) as [v s1] eqn:Ev. cbn [fst]. apply leaf_shape.
      pose proof (draw_fst s0 100 ltac:(lia)) as B. rewrite Ev in B. exact B.
    - destruct (isb && (r <? 3)) eqn:Enot.
      + destruct (helper c f isb n' s0) as [[t res] s1] eqn:Eh. cbn [fst].
        pose proof (IH isb n' s0 ltac:(lia)) as G. rewrite Eh in G. cbn [fst] in G.
        apply gshape_op. split; [reflexivity|split; [cbn; auto 20|split; [discriminate|constructor; [exact G|constructor]]]].
      + destruct (g_cond c && (r =? 3)) eqn:Econd.
        * destruct (draw s0 (Z.of_nat (S n'))) as [k1 s1] eqn:E1.
          destruct (helper c f true (Z.to_nat k1) s1) as [[ct cr] s2] eqn:Eh1.
          destruct (draw s2 (Z.of_nat (S n'))) as [k2 s3] eqn:E2.
          destruct (helper c f isb (Z.to_nat k2) s3) as [[tt' tr] s4] eqn:Eh2.
          destruct (draw s4 (Z.of_nat (S n'))) as [k3 s5] eqn:E3.
          destruct (helper c f isb (Z.to_nat k3) s5) as [[ft fr] s6] eqn:Eh3.
          cbn [fst].
          assert (B1 : (Z.to_nat k1 < f)%nat) by (pose proof (draw_fst s0 (Z.of_nat (S n')) ltac:(lia)) as B; rewrite E1 in B; cbn [fst] in B; lia).
          assert (B2 : (Z.to_nat k2 < f)%nat) by (pose proof (draw_fst s2 (Z.of_nat (S n')) ltac:(lia)) as B; rewrite E2 in B; cbn [fst] in B; lia).
          assert (B3 : (Z.to_nat k3 < f)%nat) by (pose proof (draw_fst s4 (Z.of_nat (S n')) ltac:(lia)) as B; rewrite E3 in B; cbn [fst] in B; lia).
          pose proof (IH true _ s1 B1) as G1. rewrite Eh1 in G1.
          pose proof (IH isb _ s3 B2) as G2. rewrite Eh2 in G2.
          pose proof (IH isb _ s5 B3) as G3. rewrite Eh3 in G3.
          cbn [fst gshape] in *. auto.
        * destruct (draw s0 3) as [l0 s1] eqn:El.
          destruct (children (helper c f isb) (S n') (Z.to_nat (l0 + 2)) s1) as [chs s2] eqn:Ech. cbn [fst].
          assert (Hl0 : 0 <= l0 < 3) by (pose proof (draw_fst s0 3 ltac:(lia)) as B; rewrite El in B; exact B).
          destruct (children_Q (fun tv => gshape (fst tv)) (helper c f isb) (S n') (fun k s' Hk => IH isb k s' ltac:(lia)) ltac:(lia) (Z.to_nat (l0 + 2)) s1) as [Hg Hlen].
          rewrite Ech in Hg, Hlen. cbn [fst] in Hg, Hlen.
          apply gshape_op. split; [reflexivity|split; [|split]].
          -- apply pick_op_in.
          -- intros E. apply (f_equal (@length tree)) in E. rewrite map_length, Hlen in E. cbn in E. lia.
          -- apply Forall_forall. intros x Hx. apply in_map_iff in Hx. destruct Hx as (tv & <- & Htv).
             rewrite Forall_forall in Hg. exact (Hg tv Htv).
  Qed.

  Theorem generate_shape isb level s : gshape (fst (generate c isb level s)).
  Proof. unfold generate. apply helper_shape. lia. Qed.

  (* from level 1 on the result is an operator expression or an `if`, never a bare leaf *)
  Lemma helper_not_leaf f isb n' s : is_leaf (fst (fst (helper c (S f) isb (S n') s))) = false.
  Proof.
    cbn [helper].
    destruct (draw s 10) as [r s0]. destruct (isb && (r <? 3)).
    { destruct (helper c f isb n' s0) as [[t res] s1]. reflexivity. }
    destruct (g_cond c && (r =? 3)).
    { destruct (draw s0 (Z.of_nat (S n'))) as [k1 s1]. destruct (helper c f true (Z.to_nat k1) s1) as [[ct cr] s2].
      destruct (draw s2 (Z.of_nat (S n'))) as [k2 s3]. destruct (helper c f isb (Z.to_nat k2) s3) as [[tt' tr] s4].
      destruct (draw s4 (Z.of_nat (S n'))) as [k3 s5]. destruct (helper c f isb (Z.to_nat k3) s5) as [[ft fr] s6]. reflexivity. }
    destruct (draw s0 3) as [l0 s1]. destruct (children (helper c f isb) (S n') (Z.to_nat (l0 + 2)) s1) as [chs s2]. reflexivity.
  Qed.
  Theorem generate_not_leaf isb level s : (1 <= level)%nat -> is_leaf (fst (generate c isb level s)) = false.
  Proof. intros Hl. unfold generate. destruct level as [|n']; [lia|]. apply helper_not_leaf. Qed.

  (* ---------- a configuration in which the given variables are registered ---------- *)

  Variable pc : pconf.
  Definition registers : Prop :=
    forall n, In n gnames -> builtin_const n = None /\ assoc n (p_consts pc) = None /\ (exists k, assoc n (p_vars pc) = Some k) /\
                             wf_tok false (KIdent n).

  (* the tree with the keys of that configuration (the text does not show keys) *)
  Fixpoint rekey (t : tree) : tree :=
    match t with
    | TVar n _ => TVar n (match assoc n (p_vars pc) with Some k => k | None => 0 end)
    | TOp name fast cs => TOp name fast (map rekey cs)
    | TIf a b d => TIf (rekey a) (rekey b) (rekey d)
    | _ => t
    end.

  Lemma gtext_rekey : forall t, gtext (rekey t) = gtext t.
  Proof.
    induction t as [v|n k|name fast cs IH|a b d IHa IHb IHd] using tree_ind2; try reflexivity.
    - assert (E : map (fun x => 32%N :: gtext x) (map rekey cs) = map (fun x => 32%N :: gtext x) cs).
      { rewrite map_map. induction IH as [|x l Hx _ IHl]; [reflexivity|]. cbn [map]. rewrite Hx, IHl. reflexivity. }
      cbn [rekey gtext]. rewrite E. reflexivity.
    - cbn [rekey gtext]. rewrite IHa, IHb, IHd. reflexivity.
  Qed.

  Lemma gops_wf name : In name gops -> wf_tok false (KIdent name) /\ is_keyword name = false /\ is_operator pc name = true.
  Proof.
    intros H. unfold gops in H.
    repeat (destruct H as [<-|H]; [split; [word_tok|split; vm_compute; reflexivity]|]). destruct H.
  Qed.

  Lemma shape_ok : registers -> forall t, gshape t -> glex (rekey t) /\ twf pc (rekey t) /\ strip (rekey t) = rekey t.
  Proof.
    intros HR. induction t as [v|n k|name fast cs IH|a b d IHa IHb IHd] using tree_ind2; intros Hs.
    - destruct v; cbn [gshape] in Hs; try contradiction. cbn [rekey glex twf vwf strip]. repeat split.
      + unfold in_i64, two63. lia.
      + unfold in_i64, two63. lia.
    - destruct Hs as [-> Hin]. destruct (HR n Hin) as (Hb & Hc & (k & Hk) & Hw). cbn [rekey]. rewrite Hk.
      cbn [glex twf strip]. split; [exact Hw|split; [split; [exact Hb|split; [exact Hc|exact Hk]]|reflexivity]].
    - apply gshape_op in Hs. destruct Hs as (-> & Hop & Hne & Hcs). destruct (gops_wf name Hop) as (Hw & Hk & Ho).
      assert (A : Forall (fun t => glex (rekey t) /\ twf pc (rekey t) /\ strip (rekey t) = rekey t) cs).
      { clear Hne. induction IH as [|x l Hx _ IHl]; [constructor|]. inversion Hcs; subst. constructor; [apply Hx; assumption|apply IHl; assumption]. }
      cbn [rekey]. split; [|split].
      + apply glex_op. split; [exact Hw|]. rewrite Forall_map. eapply Forall_impl; [|exact A]. intros t0 Ht0. cbv beta in Ht0. tauto.
      + apply twf_op. split; [exact Hk|split; [exact Ho|]]. rewrite Forall_map. eapply Forall_impl; [|exact A]. intros t0 Ht0. cbv beta in Ht0. tauto.
      + cbn [strip]. f_equal. rewrite map_map. clear -A. induction A as [|x l (_ & _ & Hx) _ IHl]; [reflexivity|]. cbn [map]. rewrite Hx, IHl. reflexivity.
    - destruct Hs as (Ha & Hb & Hd). destruct (IHa Ha) as (A1 & A2 & A3). destruct (IHb Hb) as (B1 & B2 & B3). destruct (IHd Hd) as (D1 & D2 & D3).
      cbn [rekey glex twf strip]. rewrite A3, B3, D3. repeat split; assumption.
  Qed.

  (* the text GenerateRandomExpr returns is read back - lexer, parser.check, prefix parser - as the generated tree *)
  Theorem generate_text_parses : registers -> forall isb level s, (1 <= level)%nat ->
    let t := fst (generate c isb level s) in parse_source pc false (gtext t) = Some (rekey t).
  Proof.
    intros HR isb level s Hl t. destruct (shape_ok HR t (generate_shape isb level s)) as (G & W & S0).
    transitivity (Some (strip (rekey t))); [|rewrite S0; reflexivity].
    rewrite <- (gtext_rekey t). apply gtext_roundtrip; [exact W|exact G|].
    pose proof (generate_not_leaf isb level s Hl) as L. fold t in L. destruct t; try discriminate; reflexivity.
  Qed.
End S.

(* evaluation does not look at keys when the fetcher does not *)
Section K.
  Variable fetch : str -> Z -> res value.
  Variable custom : str -> list value -> res value.
  Variable pc : pconf.
  Hypothesis fetch_name : forall n k k', fetch n k = fetch n k'.

  Lemma rok_rekey : forall t, rok fetch custom (rekey pc t) = rok fetch custom t.
  Proof.
    induction t as [v|n k|name fast cs IH|a b d IHa IHb IHd] using tree_ind2; try reflexivity.
    - cbn [rekey OptTotal.rok]. rewrite (fetch_name n _ k). reflexivity.
    - cbn [rekey OptTotal.rok]. rewrite map_map.
      assert (E : map (fun x => rok fetch custom (rekey pc x)) cs = map (rok fetch custom) cs).
      { induction IH as [|x l Hx _ IHl]; [reflexivity|]. cbn [map]. rewrite Hx, IHl. reflexivity. }
      rewrite E. reflexivity.
    - cbn [rekey OptTotal.rok]. rewrite IHa, IHb, IHd. reflexivity.
  Qed.

  Variable cached : str -> Z -> bool.
  Hypothesis cached_name : forall n k k', cached n k = cached n k'.

  Lemma kleene_rekey : forall t, kleene fetch custom cached (rekey pc t) = kleene fetch custom cached t.
  Proof.
    induction t as [v|n k|name fast cs IH|a b d IHa IHb IHd] using tree_ind2; try reflexivity.
    - cbn [rekey Tree.kleene]. rewrite (cached_name n _ k), (fetch_name n _ k). reflexivity.
    - cbn [rekey]. rewrite !kleene_op, map_map.
      assert (E : map (fun x => kleene fetch custom cached (rekey pc x)) cs = map (kleene fetch custom cached) cs).
      { induction IH as [|x l Hx _ IHl]; [reflexivity|]. cbn [map]. rewrite Hx, IHl. reflexivity. }
      rewrite E. reflexivity.
    - cbn [rekey Tree.kleene]. rewrite IHa, IHb, IHd. reflexivity.
  Qed.

  Lemma subs_ok_rekey : forall t, subs_ok custom fetch cached t -> subs_ok custom fetch cached (rekey pc t).
  Proof.
    induction t as [v|n k|name fast cs IH|a b d IHa IHb IHd] using tree_ind2; intros H; try exact I.
    - cbn [rekey]. apply subs_ok_op in H. apply subs_ok_op. rewrite Forall_map.
      induction IH as [|x l Hx _ IHl]; [constructor|]. inversion H as [|? ? (H1 & v & H2) H3]; subst.
      constructor; [|apply IHl; exact H3]. split; [apply Hx; exact H1|exists v; rewrite kleene_rekey; exact H2].
    - destruct H as (Ha & Hb & Hd). cbn [rekey TryFacts.subs_ok]. auto.
  Qed.
End K.

Print Assumptions generate_text_parses.
