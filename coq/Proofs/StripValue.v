(* StripValue.v — C13: clearing the fast marks (what Dump + recompile does to a program) never loses a result:
   whenever the original expression returns a value, the expression read back from its Dump returns that value
   (left-to-right, unoptimised). The converse can fail by design: a fast operator fetches both operands first. *)
Require Import Base Opcode Tables Ops Tree Opt Flat Run CompFacts SemFacts OptSound OptValue Directives Lexer Parser PrefixProofs DumpProofs.
From Coq Require Import ZifyBool.
Open Scope Z_scope.
Open Scope list_scope.

Section SV.
  Variable fetch : str -> Z -> res value.
  Variable custom : str -> list value -> res value.
  Notation val := (val fetch custom).
  Notation vargs := (vargs fetch custom).
  Notation wt := (wt fetch custom).
  Notation keeps := (keeps fetch custom).
  Notation apply_op := (apply_op custom).

  Lemma strip_can_be_last t : can_be_last (strip t) = can_be_last t.
  Proof. destruct t; reflexivity. Qed.
  Lemma strip_leaf t : is_leaf t = true -> strip t = t.
  Proof. destruct t; try discriminate; reflexivity. Qed.

  Theorem strip_value : forall t, wt t -> forall v, val t = Ok v -> val (strip t) = Ok v.
  Proof.
    induction t as [v|n k|name fast cs IH|c t f IHc IHt IHf] using tree_ind2; intros Hw v0 H.
    - exact H.
    - exact H.
    - apply wt_op in Hw. destruct Hw as [Hw Hb].
      assert (HK : Forall2 keeps cs (map strip cs)).
      { clear H Hb. induction IH as [|c cs' Hc _ IHl]; [constructor|]. inversion Hw; subst.
        cbn [map]. constructor; [|apply IHl; assumption]. split; [symmetry; apply strip_can_be_last|]. intros v Hv0. apply Hc; assumption. }
      cbn [strip]. rewrite val_op by reflexivity.
      destruct (fast_shape fast cs) eqn:Hfs.
      + (* a fast operator over two leaves *)
        destruct (fast_shape_inv _ _ Hfs) as (a & b & -> & La & Lb & ->).
        rewrite (val_fast fetch custom name a b Hfs) in H.
        cbn [map]. rewrite (strip_leaf a La), (strip_leaf b Lb).
        destruct (val a) as [va|e] eqn:Ea; [|discriminate]. destruct (val b) as [vb|e] eqn:Eb; [|discriminate].
        rewrite !vargs_cons, Ea. unfold lastflag. cbn [lenZ length].
        destruct (op_kind name) as [d|] eqn:Hk.
        * inversion Hw as [|? ? Hwa Hw']; subst. inversion Hw' as [|? ? Hwb _]; subst.
          pose proof (Hb d eq_refl) as Hbb. inversion Hbb as [|? ? Hba Hbb']; subst. inversion Hbb' as [|? ? Hbb2 _]; subst.
          destruct (typed_of_wt fetch custom a Hwa Hba va Ea) as [x ->]. destruct (typed_of_wt fetch custom b Hwb Hbb2 vb Eb) as [y ->].
          rewrite (boolop_two custom name d x y Hk) in H. cbn [operand_result].
          destruct (Bool.eqb x d) eqn:Ex; cbn [orb].
          -- apply eqb_prop in Ex. subst x. exact H.
          -- rewrite vargs_cons, Eb, Hk. assert (Hcl : can_be_last b = true) by (destruct b; try discriminate; reflexivity).
             unfold lastflag. rewrite Hcl. cbn [andb operand_result lenZ length].
             change (2 <=? Z.of_nat 1 + Z.of_nat 1) with true. rewrite orb_true_r.
             rewrite <- H. f_equal. f_equal. destruct (Bool.eqb y d) eqn:Ey; [apply eqb_prop in Ey; subst; reflexivity|destruct y, d; try reflexivity; discriminate].
        * cbn [operand_result]. rewrite vargs_cons, Eb, Hk. cbn [operand_result]. rewrite vargs_nil. exact H.
      + rewrite val_op in H by exact Hfs. eapply vargs_keeps; eassumption.
    - destruct Hw as (Wc & Wt & Wf). cbn [strip]. rewrite val_if in *.
      destruct (val c) as [vc|e] eqn:Ec; [|discriminate]. rewrite (IHc Wc vc eq_refl).
      destruct vc as [z|[]|s|li|ls|si|ss'| | |o]; try discriminate; [apply IHt|apply IHf]; assumption.
  Qed.

  Lemma strip_nofast : forall t, nofast (strip t).
  Proof.
    induction t as [v|n k|name fast cs IH|c t f IHc IHt IHf] using tree_ind2; try exact I.
    - cbn [strip]. apply (proj2 (nofast_op fetch custom name false (map strip cs))). split; [reflexivity|]. apply Forall_forall. intros x Hx. apply in_map_iff in Hx.
      destruct Hx as (y & <- & Hy). rewrite Forall_forall in IH. apply IH. exact Hy.
    - cbn [strip nofast]. auto.
  Qed.

  Lemma vars_ok_strip : forall t, vars_ok fetch t -> vars_ok fetch (strip t).
  Proof.
    induction t as [v|n k|name fast cs IH|c t f IHc IHt IHf] using tree_ind2; intros H; try exact H.
    - cbn [strip]. apply (proj1 (vars_ok_op fetch name fast cs)) in H. apply (proj2 (vars_ok_op fetch name false (map strip cs))). apply Forall_forall. intros x Hx. apply in_map_iff in Hx.
      destruct Hx as (y & <- & Hy). rewrite Forall_forall in IH, H. apply IH; [exact Hy|apply H; exact Hy].
    - destruct H as (?&?&?). cbn [strip OptValue.vars_ok]. auto.
  Qed.

  (* ... and neither does recompiling it under any configuration that does not reorder (all variables bound) *)
  Theorem strip_value_cfg cfg t v : pass_on cfg "reordering" = false -> wt t -> vars_ok fetch t ->
    val t = Ok v -> val (optimize custom cfg (strip t)) = Ok v.
  Proof.
    intros Hr Hw Hv H. apply (no_reorder_value fetch custom cfg (strip t) v Hr (strip_nofast t) (wt_strip fetch custom t Hw) (vars_ok_strip t Hv)).
    apply strip_value; assumption.
  Qed.
End SV.

Print Assumptions strip_value.
