(* GenProofs.v — C20: the result GenerateRandomExpr reports is the three-valued (Kleene) value of the expression it
   generates, no sub-expression of which fails. *)
Require Import Base Opcode Tables Ops Tree Opt Flat Run OpsArith OpsList SemFacts CompFacts TryFacts Gen.
From Coq Require Import ZifyBool.
Open Scope Z_scope.
Open Scope list_scope.

Section GP.
  Variable c : gencfg.

  (* the environment the generator was told about *)
  Definition known : list (str * value) := g_nums c ++ g_bools c.
  Fixpoint lookup (n : str) (l : list (str * value)) : option value :=
    match l with [] => None | (k, v) :: l' => if str_eqb n k then Some v else lookup n l' end.
  Definition gfetch (n : str) (k : Z) : res value := match lookup n known with Some v => Ok v | None => Err (EUnbound n) end.
  Definition gcached (n : str) (k : Z) : bool := match lookup n known with Some _ => true | None => false end.

  Definition wf_cfg : Prop :=
    Forall (fun p => exists z, snd p = VInt z) (g_nums c) /\
    Forall (fun p => exists b, snd p = VBool b) (g_bools c) /\
    Forall (fun p => snd p = VDNE /\ ~ In (fst p) (map fst known)) (g_dnes c) /\
    NoDup (map fst known).
  Hypothesis WF : wf_cfg.

  Notation kleene := (kleene gfetch no_custom gcached).
  Notation subs_ok := (subs_ok no_custom gfetch gcached).
  Notation comb := (comb no_custom).

  Definition typed (isb : bool) (v : value) : Prop :=
    v = VDNE \/ if isb then exists b, v = VBool b else exists z, v = VInt z.

  (* ---------- variables ---------- *)

  Lemma lookup_in n v l : NoDup (map fst l) -> In (n, v) l -> lookup n l = Some v.
  Proof.
    induction l as [|[k w] l IH]; intros Hnd Hin; [destruct Hin|]. cbn [map fst] in Hnd. inversion Hnd; subst. cbn [lookup].
    destruct Hin as [E|Hin].
    - inversion E; subst. replace (str_eqb n n) with true by (symmetry; apply list_eqb_N_eq; reflexivity). reflexivity.
    - destruct (str_eqb n k) eqn:E; [|apply IH; assumption]. apply list_eqb_N_eq in E. subst k.
      exfalso. match goal with H : ~ In n (map fst l) |- _ => apply H end. apply in_map_iff. exists (n, v). auto.
  Qed.

  Lemma lookup_notin n l : ~ In n (map fst l) -> lookup n l = None.
  Proof.
    induction l as [|[k w] l IH]; intros H; [reflexivity|]. cbn [lookup]. destruct (str_eqb n k) eqn:E.
    - apply list_eqb_N_eq in E. subst. exfalso. apply H. left. reflexivity.
    - apply IH. intros Hin. apply H. right. exact Hin.
  Qed.

  Lemma nodup_known : NoDup (map fst known).
  Proof. destruct WF as (_ & _ & _ & Hnd). exact Hnd. Qed.

  Lemma var_leaf_spec l v t r : nonempty l = true -> var_leaf l v = (t, r) ->
    exists name, In (name, r) l /\ t = TVar name 0.
  Proof.
    intros Hne H. unfold var_leaf in H. destruct l as [|p l]; [discriminate|].
    assert (Hlen : 0 < lenZ (p :: l)) by (unfold lenZ; cbn [length]; lia).
    pose proof (Z.mod_pos_bound v _ Hlen) as Hb.
    destruct (nth_error (p :: l) (Z.to_nat (v mod lenZ (p :: l)))) as [[name res]|] eqn:E.
    - inversion H; subst. exists name. split; [eapply nth_error_In; eauto|reflexivity].
    - apply nth_error_None in E. unfold lenZ in *. lia.
  Qed.

  Lemma known_var name r : In (name, r) known -> kleene (TVar name 0) = Ok r.
  Proof. intros H. cbn [Tree.kleene]. unfold gcached, gfetch. rewrite (lookup_in _ _ _ nodup_known H). reflexivity. Qed.

  Lemma dne_var name r : In (name, r) (g_dnes c) -> kleene (TVar name 0) = Ok VDNE /\ r = VDNE.
  Proof.
    intros H. destruct WF as (_ & _ & Hd & _). rewrite Forall_forall in Hd. destruct (Hd _ H) as [Hr Hn]. cbn [fst snd] in *.
    split; [|exact Hr]. cbn [Tree.kleene]. unfold gcached. rewrite (lookup_notin _ _ Hn). reflexivity.
  Qed.

  (* ---------- the generator's own evaluation is the Kleene combination ---------- *)

  Definition ops_bool : list str := [ss "and"; ss "or"; ss "eq"].

  Lemma kind_and : op_kind (ss "and") = Some false. Proof. vm_compute. reflexivity. Qed.
  Lemma kind_or : op_kind (ss "or") = Some true. Proof. vm_compute. reflexivity. Qed.
  Lemma kind_other op : In op [ss "eq"; ss "not"; ss "+"; ss "-"; ss "*"; ss "/"; ss "%"] -> op_kind op = None.
  Proof. intros H. repeat (destruct H as [<-|H]; [vm_compute; reflexivity|]). destruct H. Qed.

  (* exec agrees with comb whenever comb succeeds *)
  Lemma exec_is_comb op vals r : In op [ss "and"; ss "or"; ss "eq"; ss "not"; ss "+"; ss "-"; ss "*"; ss "/"; ss "%"] ->
    comb op vals = Ok r -> exec op vals = r.
  Proof.
    intros Hop H. unfold exec. unfold TryFacts.comb in H.
    destruct Hop as [<-|Hop].
    { rewrite kind_and in H. change (str_eqb (ss "and") (ss "and")) with true. cbn [andb].
      destruct (existsb is_false vals); [inversion H; reflexivity|]. change (str_eqb (ss "and") (ss "or")) with false. cbn [andb].
      destruct (existsb is_dne vals); [inversion H; reflexivity|]. rewrite H. reflexivity. }
    destruct Hop as [<-|Hop].
    { rewrite kind_or in H. change (str_eqb (ss "or") (ss "and")) with false. cbn [andb]. change (str_eqb (ss "or") (ss "or")) with true. cbn [andb].
      destruct (existsb is_true vals); [inversion H; reflexivity|].
      destruct (existsb is_dne vals); [inversion H; reflexivity|]. rewrite H. reflexivity. }
    rewrite (kind_other op Hop) in H.
    assert (E1 : str_eqb op (ss "and") = false) by (repeat (destruct Hop as [<-|Hop]; [reflexivity|]); destruct Hop).
    assert (E2 : str_eqb op (ss "or") = false) by (repeat (destruct Hop as [<-|Hop]; [reflexivity|]); destruct Hop).
    rewrite E1, E2. cbn [andb]. destruct (existsb is_dne vals); [inversion H; reflexivity|]. rewrite H. reflexivity.
  Qed.

  (* ---------- the combination never fails on the values the generator builds ---------- *)

  Lemma typed_bools vals : Forall (typed true) vals -> existsb is_dne vals = false -> exists bs, vals = bools bs.
  Proof.
    induction 1 as [|v vals Hv _ IH]; intros Hd; [exists []; reflexivity|]. cbn [existsb] in Hd. apply orb_false_iff in Hd. destruct Hd as [Hd1 Hd2].
    destruct (IH Hd2) as [bs ->]. destruct Hv as [->|[b ->]]; [discriminate|]. exists (b :: bs). reflexivity.
  Qed.
  Lemma typed_ints vals : Forall (typed false) vals -> existsb is_dne vals = false -> exists zs, vals = ints zs.
  Proof.
    induction 1 as [|v vals Hv _ IH]; intros Hd; [exists []; reflexivity|]. cbn [existsb] in Hd. apply orb_false_iff in Hd. destruct Hd as [Hd1 Hd2].
    destruct (IH Hd2) as [zs ->]. destruct Hv as [->|[z ->]]; [discriminate|]. exists (z :: zs). reflexivity.
  Qed.

  Lemma builtin_of op o : In (op, o) [(ss "and", OLogic LAnd); (ss "or", OLogic LOr); (ss "eq", OEq); (ss "not", ONot);
      (ss "+", OArith AAdd); (ss "-", OArith ASub); (ss "*", OArith AMul); (ss "/", OArith ADiv); (ss "%", OArith AMod)] ->
    builtin op = Some o.
  Proof. intros H. repeat (destruct H as [E|H]; [inversion E; subst; vm_compute; reflexivity|]). destruct H. Qed.

  Lemma comb_bool_ok op vals : In op [ss "and"; ss "or"; ss "eq"] -> Forall (typed true) vals -> (2 <= length vals)%nat ->
    exists r, comb op vals = Ok r /\ typed true r.
  Proof.
    intros Hop Ht Hl. unfold TryFacts.comb.
    assert (Hb : existsb is_dne vals = false -> exists a b bs, vals = bools (a :: b :: bs)).
    { intros Hd. destruct (typed_bools _ Ht Hd) as [bs ->]. unfold bools in Hl. rewrite map_length in Hl.
      destruct bs as [|a [|b bs]]; cbn [length] in Hl; try lia. eauto. }
    destruct Hop as [<-|[<-|[<-|[]]]].
    - rewrite kind_and. destruct (existsb is_false vals); [exists (VBool false); split; [reflexivity|right; eexists; reflexivity]|].
      destruct (existsb is_dne vals) eqn:Hd; [exists VDNE; split; [reflexivity|left; reflexivity]|].
      destruct (Hb eq_refl) as (a & b & bs & ->). unfold Tree.apply_op. rewrite (builtin_of (ss "and") (OLogic LAnd)) by (cbn; auto).
      cbn [apply_opcode]. rewrite logic_and_all. eexists. split; [reflexivity|right; eexists; reflexivity].
    - rewrite kind_or. destruct (existsb is_true vals); [exists (VBool true); split; [reflexivity|right; eexists; reflexivity]|].
      destruct (existsb is_dne vals) eqn:Hd; [exists VDNE; split; [reflexivity|left; reflexivity]|].
      destruct (Hb eq_refl) as (a & b & bs & ->). unfold Tree.apply_op. rewrite (builtin_of (ss "or") (OLogic LOr)) by (cbn; auto 10).
      cbn [apply_opcode]. rewrite logic_or_any. eexists. split; [reflexivity|right; eexists; reflexivity].
    - rewrite (kind_other (ss "eq")) by (cbn; auto).
      destruct (existsb is_dne vals) eqn:Hd; [exists VDNE; split; [reflexivity|left; reflexivity]|].
      destruct (Hb eq_refl) as (a & b & bs & ->). unfold Tree.apply_op. rewrite (builtin_of (ss "eq") OEq) by (cbn; auto 10).
      cbn [apply_opcode bools map]. rewrite eq_nary.
      + eexists. split; [reflexivity|right; eexists; reflexivity].
      + cbn [length]. lia.
      + cbn [forallb comparable andb]. clear. induction bs; cbn; [reflexivity|assumption].
  Qed.

  Lemma comb_not_ok v : typed true v -> exists r, comb (ss "not") [v] = Ok r /\ typed true r.
  Proof.
    intros [->|[b ->]]; unfold TryFacts.comb; rewrite (kind_other (ss "not")) by (cbn; auto 10); cbn [existsb is_dne orb].
    - exists VDNE. split; [reflexivity|left; reflexivity].
    - exists (VBool (negb b)). split; [vm_compute; destruct b; reflexivity|right; eexists; reflexivity].
  Qed.

  Lemma arith_loop_ring_ok m : m = AAdd \/ m = ASub \/ m = AMul -> forall l v, exists z, arith_loop m v (ints l) = Ok (VInt z).
  Proof.
    intros Hm. induction l as [|x l IH]; intros v; cbn [ints map arith_loop]; [eexists; reflexivity|].
    destruct Hm as [->|[->| ->]]; cbn [arith_step bind]; apply IH.
  Qed.

  Lemma arith_ints_ok m zs : (2 <= length zs)%nat -> (m = ADiv \/ m = AMod -> existsb (Z.eqb 0) (tl zs) = false) ->
    exists z, arith m (ints zs) = Ok (VInt z).
  Proof.
    intros Hl Hz. destruct zs as [|v [|w zs]]; cbn [length] in Hl; try lia.
    assert (Hring : m = AAdd \/ m = ASub \/ m = AMul -> exists z, arith m (ints (v :: w :: zs)) = Ok (VInt z)).
    { intros Hm. unfold arith. rewrite ints_length. cbn [length Nat.ltb Nat.leb]. rewrite ints_cons. apply arith_loop_ring_ok. exact Hm. }
    destruct m; try (apply Hring; auto; fail).
    - specialize (Hz (or_introl eq_refl)). cbn [tl] in Hz. rewrite arith_div_fold by auto. rewrite Hz. eexists. reflexivity.
    - specialize (Hz (or_intror eq_refl)). cbn [tl] in Hz. rewrite arith_div_fold by auto. rewrite Hz. eexists. reflexivity.
  Qed.

  (* ---------- the main induction ---------- *)

  Definition good (isb : bool) (tv : tree * value) : Prop :=
    kleene (fst tv) = Ok (snd tv) /\ subs_ok (fst tv) /\ typed isb (snd tv).

  Lemma leaf_good isb r v : good isb (leaf c isb r v).
  Proof.
    destruct WF as (Hn & Hb & Hd & _). unfold leaf.
    destruct ((r =? 1) && g_try c && nonempty (g_dnes c)) eqn:E1.
    - apply andb_prop in E1. destruct E1 as [_ Hne].
      destruct (var_leaf (g_dnes c) v) as [t res] eqn:Ev. destruct (var_leaf_spec _ _ _ _ Hne Ev) as [name [Hin ->]].
      destruct (dne_var _ _ Hin) as [Hk ->]. split; [exact Hk|split; [exact I|left; reflexivity]].
    - destruct isb.
      + destruct ((r <? 4) && g_var c && nonempty (g_bools c)) eqn:E2.
        * apply andb_prop in E2. destruct E2 as [_ Hne].
          destruct (var_leaf (g_bools c) v) as [t res] eqn:Ev. destruct (var_leaf_spec _ _ _ _ Hne Ev) as [name [Hin ->]].
          rewrite Forall_forall in Hb. destruct (Hb _ Hin) as [b Hbv]. cbn [snd] in Hbv. subst res.
          split; [apply known_var; unfold known; apply in_or_app; right; exact Hin|split; [exact I|right; eexists; reflexivity]].
        * destruct (v <? 50); (split; [vm_compute; reflexivity|split; [apply subs_ok_op; repeat (constructor; [split; [exact I|eexists; reflexivity]|]); constructor|right; eexists; reflexivity]]).
      + destruct ((r <? 4) && g_var c && nonempty (g_nums c)) eqn:E2.
        * apply andb_prop in E2. destruct E2 as [_ Hne].
          destruct (var_leaf (g_nums c) v) as [t res] eqn:Ev. destruct (var_leaf_spec _ _ _ _ Hne Ev) as [name [Hin ->]].
          rewrite Forall_forall in Hn. destruct (Hn _ Hin) as [z Hz]. cbn [snd] in Hz. subst res.
          split; [apply known_var; unfold known; apply in_or_app; left; exact Hin|split; [exact I|right; eexists; reflexivity]].
        * split; [reflexivity|split; [exact I|right; eexists; reflexivity]].
  Qed.

  Lemma children_good h isb n : (forall k s, (k < n)%nat -> good isb (fst (h k s))) -> (0 < n)%nat ->
    forall k s, Forall (good isb) (fst (children h n k s)) /\ length (fst (children h n k s)) = k.
  Proof.
    intros Hh Hn. induction k as [|k IH]; intros s; cbn [children]; [split; [constructor|reflexivity]|].
    unfold draw. destruct s as [|v s'].
    - destruct (h (Z.to_nat 0) []) as [tv s1] eqn:E1. destruct (children h n k s1) as [rest s2] eqn:E2. cbn [fst].
      specialize (IH s1). rewrite E2 in IH. cbn [fst] in IH. destruct IH as [I1 I2]. split; [|cbn [length]; lia].
      constructor; [|exact I1]. specialize (Hh (Z.to_nat 0) [] ltac:(lia)). rewrite E1 in Hh. exact Hh.
    - destruct (h (Z.to_nat (v mod Z.of_nat n)) s') as [tv s1] eqn:E1. destruct (children h n k s1) as [rest s2] eqn:E2. cbn [fst].
      specialize (IH s1). rewrite E2 in IH. cbn [fst] in IH. destruct IH as [I1 I2]. split; [|cbn [length]; lia].
      constructor; [|exact I1].
      assert (Hk : (Z.to_nat (v mod Z.of_nat n) < n)%nat) by (pose proof (Z.mod_pos_bound v (Z.of_nat n) ltac:(lia)); lia).
      specialize (Hh _ s' Hk). rewrite E1 in Hh. exact Hh.
  Qed.

  Lemma kleene_children isb chs : Forall (good isb) chs ->
    all_ok (map kleene (map fst chs)) = Ok (map snd chs) /\
    Forall (fun t => subs_ok t /\ exists v, kleene t = Ok v) (map fst chs) /\ Forall (typed isb) (map snd chs).
  Proof.
    induction 1 as [|[t v] chs (Hk & Hs & Ht) _ (I1 & I2 & I3)]; cbn [map fst snd all_ok] in *; [repeat split; constructor|].
    rewrite Hk, I1. cbn [bind]. repeat split; constructor; eauto.
  Qed.

  Lemma pick_op_bool r vals : In (pick_op true r vals) [ss "and"; ss "or"; ss "eq"].
  Proof.
    unfold pick_op, nth_name. pose proof (Z.mod_pos_bound r 3 ltac:(lia)) as H.
    assert (Hc : r mod 3 = 0 \/ r mod 3 = 1 \/ r mod 3 = 2) by lia. destruct Hc as [->|[->| ->]]; cbn; auto.
  Qed.

  Lemma draw_fst s n : 0 < n -> 0 <= fst (draw s n) < n.
  Proof. intros H. unfold draw. destruct s; cbn [fst]; [lia|]. apply Z.mod_pos_bound. exact H. Qed.

  Theorem helper_good : forall fuel isb n s, (n < fuel)%nat -> good isb (fst (helper c fuel isb n s)).
  Proof.
    induction fuel as [|f IH]; intros isb n s Hn; [lia|]. cbn [helper].
    destruct (draw s 10) as [r s0] eqn:Er. destruct n as [|n'].
    - destruct (draw s0 100) as [v s1]. cbn [fst]. apply leaf_good.
    - destruct (isb && (r <? 3)) eqn:Enot.
      + (* not *)
        apply andb_prop in Enot. destruct Enot as [-> _].
        destruct (helper c f true n' s0) as [[t res] s1] eqn:Eh. cbn [fst].
        pose proof (IH true n' s0 ltac:(lia)) as G. rewrite Eh in G. destruct G as (Gk & Gs & Gt). cbn [fst snd] in *.
        destruct (comb_not_ok res Gt) as [rr [Hc Hty]].
        assert (Hkl : kleene (TOp (ss "not") false [t]) = Ok rr).
        { rewrite kleene_op. cbn [map all_ok]. rewrite Gk. cbn [bind]. exact Hc. }
        split; [|split].
        * cbn [fst snd]. rewrite Hkl. f_equal. symmetry. apply (exec_is_comb (ss "not") [res] rr); [cbn; auto 10|exact Hc].
        * cbn [fst]. apply subs_ok_op. constructor; [split; [exact Gs|eauto]|constructor].
        * cbn [snd]. rewrite (exec_is_comb (ss "not") [res] rr ltac:(cbn; auto 10) Hc). exact Hty.
      + destruct (g_cond c && (r =? 3)) eqn:Econd.
        * (* if *)
          destruct (draw s0 (Z.of_nat (S n'))) as [k1 s1] eqn:E1.
          destruct (helper c f true (Z.to_nat k1) s1) as [[ct cr] s2] eqn:Eh1.
          destruct (draw s2 (Z.of_nat (S n'))) as [k2 s3] eqn:E2.
          destruct (helper c f isb (Z.to_nat k2) s3) as [[tt' tr] s4] eqn:Eh2.
          destruct (draw s4 (Z.of_nat (S n'))) as [k3 s5] eqn:E3.
          destruct (helper c f isb (Z.to_nat k3) s5) as [[ft fr] s6] eqn:Eh3.
          cbn [fst].
          assert (B1 : (Z.to_nat k1 < f)%nat) by (pose proof (draw_fst s0 (Z.of_nat (S n')) ltac:(lia)) as B; rewrite E1 in B; cbn [fst] in B; lia).
          assert (B2 : (Z.to_nat k2 < f)%nat) by (pose proof (draw_fst s2 (Z.of_nat (S n')) ltac:(lia)) as B; rewrite E2 in B; cbn [fst] in B; lia).
          assert (B3 : (Z.to_nat k3 < f)%nat) by (pose proof (draw_fst s4 (Z.of_nat (S n')) ltac:(lia)) as B; rewrite E3 in B; cbn [fst] in B; lia).
          pose proof (IH true _ s1 B1) as G1. rewrite Eh1 in G1. destruct G1 as (K1 & S1 & T1).
          pose proof (IH isb _ s3 B2) as G2. rewrite Eh2 in G2. destruct G2 as (K2 & S2 & T2).
          pose proof (IH isb _ s5 B3) as G3. rewrite Eh3 in G3. destruct G3 as (K3 & S3 & T3).
          cbn [fst snd] in *. split; [|split].
          -- cbn [fst snd Tree.kleene]. rewrite K1. cbn [bind]. destruct T1 as [->|[b ->]]; [reflexivity|]. destruct b; assumption.
          -- cbn [fst]. cbn [TryFacts.subs_ok]. auto.
          -- cbn [snd]. destruct T1 as [->|[b ->]]; [left; reflexivity|]. destruct b; assumption.
        * (* operator with 2..4 operands *)
          destruct (draw s0 3) as [l0 s1] eqn:El.
          destruct (children (helper c f isb) (S n') (Z.to_nat (l0 + 2)) s1) as [chs s2] eqn:Ech. cbn [fst].
          assert (Hl0 : 0 <= l0 < 3) by (pose proof (draw_fst s0 3 ltac:(lia)) as B; rewrite El in B; exact B).
          destruct (children_good (helper c f isb) isb (S n') (fun k s' Hk => IH isb k s' ltac:(lia)) ltac:(lia) (Z.to_nat (l0 + 2)) s1) as [Hg Hlen].
          rewrite Ech in Hg, Hlen. cbn [fst] in Hg, Hlen.
          destruct (kleene_children isb chs Hg) as (Hall & Hsub & Hty).
          set (vals := map snd chs) in *. set (op := pick_op isb r vals).
          assert (Hlen2 : (2 <= length vals)%nat) by (unfold vals; rewrite map_length; lia).
          assert (Hcomb : exists rr, comb op vals = Ok rr /\ typed isb rr /\
                          In op [ss "and"; ss "or"; ss "eq"; ss "not"; ss "+"; ss "-"; ss "*"; ss "/"; ss "%"]).
          { destruct isb.
            - pose proof (pick_op_bool r vals) as Hop. fold op in Hop. destruct (comb_bool_ok op vals Hop Hty Hlen2) as [rr [H1 H2]].
              exists rr. split; [exact H1|split; [exact H2|]]. destruct Hop as [<-|[<-|[<-|[]]]]; cbn; auto 10.
            - (* arithmetic *)
              unfold TryFacts.comb.
              assert (Hops : exists m, builtin op = Some (OArith m) /\ op_kind op = None /\
                       In op [ss "and"; ss "or"; ss "eq"; ss "not"; ss "+"; ss "-"; ss "*"; ss "/"; ss "%"] /\
                       (m = ADiv \/ m = AMod -> existsb (fun v => match v with VInt 0 => true | _ => false end) (tl vals) = false)).
              { unfold op, pick_op, nth_name.
                destruct (existsb (fun v => match v with VInt 0 => true | _ => false end) (tl vals)) eqn:Ez.
                - pose proof (Z.mod_pos_bound r 3 ltac:(lia)). assert (Hc : r mod 3 = 0 \/ r mod 3 = 1 \/ r mod 3 = 2) by lia.
                  destruct Hc as [->|[->| ->]]; cbn [Z.to_nat nth_error Pos.to_nat Pos.iter_op Nat.add];
                  [exists AAdd|exists ASub|exists AMul]; (split; [vm_compute; reflexivity|split; [vm_compute; reflexivity|split; [cbn; auto 10|intros [?|?]; discriminate]]]).
                - pose proof (Z.mod_pos_bound r 5 ltac:(lia)). assert (Hc : r mod 5 = 0 \/ r mod 5 = 1 \/ r mod 5 = 2 \/ r mod 5 = 3 \/ r mod 5 = 4) by lia.
                  destruct Hc as [->|[->|[->|[->| ->]]]]; cbn [Z.to_nat nth_error Pos.to_nat Pos.iter_op Nat.add];
                  [exists AAdd|exists ASub|exists AMul|exists ADiv|exists AMod]; (split; [vm_compute; reflexivity|split; [vm_compute; reflexivity|split; [cbn; auto 10|intros _; reflexivity]]]). }
              destruct Hops as (m & Hb & Hk & Hin & Hsafe). rewrite Hk.
              destruct (existsb is_dne vals) eqn:Hd; [exists VDNE; split; [reflexivity|split; [left; reflexivity|exact Hin]]|].
              destruct (typed_ints vals Hty Hd) as [zs Hzs]. unfold Tree.apply_op. rewrite Hb. cbn [apply_opcode]. rewrite Hzs.
              destruct (arith_ints_ok m zs) as [z Hz].
              + rewrite Hzs in Hlen2. rewrite ints_length in Hlen2. exact Hlen2.
              + intros Hm. specialize (Hsafe Hm). rewrite Hzs in Hsafe. clear -Hsafe. destruct zs as [|z0 zs]; [reflexivity|]. cbn [tl ints map] in *.
                induction zs as [|x zs IHz]; [reflexivity|]. cbn [map existsb] in *. apply orb_false_iff in Hsafe. destruct Hsafe as [H1 H2].
                rewrite (IHz H2). destruct x; try discriminate; reflexivity.
              + exists (VInt z). split; [exact Hz|split; [right; eexists; reflexivity|exact Hin]]. }
          destruct Hcomb as (rr & Hc & Htr & Hin).
          assert (Hex : exec op vals = rr) by (apply exec_is_comb; assumption).
          split; [|split].
          -- cbn [fst snd]. rewrite kleene_op, Hall. cbn [bind]. rewrite Hex. exact Hc.
          -- cbn [fst]. apply subs_ok_op. exact Hsub.
          -- cbn [snd]. rewrite Hex. exact Htr.
  Qed.

  (* C20: the reported result is the strong-Kleene value of the generated expression in the environment of the
     recorded variable values (DNE variables unavailable), and no sub-expression fails *)
  Theorem generate_kleene isb level s :
    let r := generate c isb level s in
    kleene (fst r) = Ok (snd r) /\ subs_ok (fst r) /\ typed isb (snd r).
  Proof. unfold generate. apply helper_good. lia. Qed.

  (* hence TryEval's tree-level meaning returns exactly the reported result *)
  Corollary generate_trysem isb level s :
    let r := generate c isb level s in snd (trysem gfetch no_custom gcached (fst r)) = Ok (snd r).
  Proof.
    cbv zeta. destruct (generate_kleene isb level s) as (Hk & Hs & _). rewrite (trysem_is_kleene _ _ _ _ Hs). exact Hk.
  Qed.
End GP.
