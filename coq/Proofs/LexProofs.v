(* LexProofs.v — C14: the token sequence depends on the tokens, not on the layout: the lexer inverts every rendering
   of a token list with arbitrary Unicode white space (and comments) between the tokens, a separator being needed
   only where two adjacent tokens would otherwise fuse. *)
Require Import Base Tables Ops Directives Lexer OpsList.
From Coq Require Import ZifyBool.
Open Scope Z_scope.
Open Scope list_scope.

Section L.
  Variable is_letter is_number : N -> bool.
  Notation next_raw := (next_raw).
  Notation classify := (classify is_letter is_number).
  Notation lex_loop := (lex_loop is_letter is_number).

  Definition all_space (s : str) : Prop := Forall (fun c => is_space c = true) s.
  (* a word character: neither white space nor a delimiter *)
  Definition wordc (c : N) : bool := negb (is_space c || is_delim c).
  (* where a word stops: end of input, white space or a delimiter *)
  Definition stops (s : str) : Prop := match s with [] => True | c :: _ => wordc c = false end.

  Lemma trim_left_spaces ws s : all_space ws -> trim_left (ws ++ s) = trim_left s.
  Proof. induction 1 as [|c ws Hc _ IH]; cbn [app trim_left]; [reflexivity|]. rewrite Hc. exact IH. Qed.

  Lemma next_raw_spaces ws s : all_space ws -> next_raw (ws ++ s) = next_raw s.
  Proof. intros H. unfold Lexer.next_raw. rewrite (trim_left_spaces ws s H). reflexivity. Qed.

  Lemma take_word_app w s : Forall (fun c => wordc c = true) w -> stops s -> take_word (w ++ s) = (w, s).
  Proof.
    induction 1 as [|c w Hc _ IH]; intros Hs; cbn [app].
    - destruct s as [|c s]; [reflexivity|]. cbn [take_word]. cbn in Hs. unfold wordc in Hs. apply negb_false_iff in Hs. rewrite Hs. reflexivity.
    - cbn [take_word]. unfold wordc in Hc. apply negb_true_iff in Hc. rewrite Hc, (IH Hs). reflexivity.
  Qed.

  (* an ordinary word token *)
  Lemma next_raw_word c w s : wordc c = true -> c <> 59%N -> c <> 34%N -> Forall (fun c => wordc c = true) w -> stops s ->
    next_raw (c :: w ++ s) = (RWord (c :: w), s).
  Proof.
    intros Hc H1 H2 Hw Hs. unfold Lexer.next_raw. cbn [trim_left].
    assert (Hsp : is_space c = false) by (unfold wordc in Hc; apply negb_true_iff in Hc; apply orb_false_iff in Hc; tauto).
    assert (Hd : is_delim c = false) by (unfold wordc in Hc; apply negb_true_iff in Hc; apply orb_false_iff in Hc; tauto).
    rewrite Hsp. replace (c =? 59)%N with false by (symmetry; apply N.eqb_neq; exact H1).
    replace (c =? 34)%N with false by (symmetry; apply N.eqb_neq; exact H2). rewrite Hd.
    change (c :: w ++ s) with ((c :: w) ++ s). rewrite take_word_app; [reflexivity| |exact Hs]. constructor; assumption.
  Qed.

  (* a delimiter is a token by itself, whatever follows *)
  Lemma next_raw_delim c s : is_delim c = true -> c <> 59%N -> next_raw (c :: s) = (RWord [c], s).
  Proof.
    intros Hd H1. unfold Lexer.next_raw. cbn [trim_left].
    assert (Hsp : is_space c = false).
    { unfold is_delim in Hd. unfold is_space. destruct (N.eqb_spec c 40); [subst; reflexivity|]. destruct (N.eqb_spec c 41); [subst; reflexivity|].
      destruct (N.eqb_spec c 91); [subst; reflexivity|]. destruct (N.eqb_spec c 93); [subst; reflexivity|].
      destruct (N.eqb_spec c 59); [subst; reflexivity|]. destruct (N.eqb_spec c 44); [subst; reflexivity|]. discriminate. }
    rewrite Hsp. replace (c =? 59)%N with false by (symmetry; apply N.eqb_neq; exact H1).
    assert (c <> 34%N) by (intros ->; discriminate). replace (c =? 34)%N with false by (symmetry; apply N.eqb_neq; assumption).
    rewrite Hd. reflexivity.
  Qed.

  Lemma take_string_app content s : ~ In 34%N content -> take_string (content ++ 34%N :: s) = Some (content, s).
  Proof.
    induction content as [|c content IH]; intros H; cbn [app take_string]; [reflexivity|].
    replace (c =? 34)%N with false by (symmetry; apply N.eqb_neq; intros ->; apply H; left; reflexivity).
    rewrite IH by (intros Hin; apply H; right; exact Hin). reflexivity.
  Qed.

  (* a string literal: everything up to the next quote, verbatim (spaces, parentheses, semicolons, backslashes, line breaks) *)
  Lemma next_raw_string content s : ~ In 34%N content -> next_raw (34%N :: content ++ 34%N :: s) = (RString content, s).
  Proof.
    intros H. unfold Lexer.next_raw. cbn [trim_left]. change (is_space 34%N) with false. cbv iota.
    change (34 =? 59)%N with false. change (34 =? 34)%N with true. cbv iota. rewrite take_string_app by exact H. reflexivity.
  Qed.

  Lemma take_line_app text s : ~ In 10%N text -> take_line (text ++ 10%N :: s) = (text, 10%N :: s).
  Proof.
    induction text as [|c text IH]; intros H; cbn [app take_line]; [reflexivity|].
    replace (c =? 10)%N with false by (symmetry; apply N.eqb_neq; intros ->; apply H; left; reflexivity).
    rewrite IH by (intros Hin; apply H; right; exact Hin). reflexivity.
  Qed.

  Lemma take_line_end text : ~ In 10%N text -> take_line text = (text, []).
  Proof.
    induction text as [|c text IH]; intros H; cbn [take_line]; [reflexivity|].
    replace (c =? 10)%N with false by (symmetry; apply N.eqb_neq; intros ->; apply H; left; reflexivity).
    rewrite IH by (intros Hin; apply H; right; exact Hin). reflexivity.
  Qed.

  (* a comment runs to the end of the line; the line break stays (and is then skipped as white space) *)
  Lemma next_raw_comment text s : ~ In 10%N text -> next_raw (59%N :: text ++ 10%N :: s) = (RComment (59%N :: text), 10%N :: s).
  Proof.
    intros H. unfold Lexer.next_raw. cbn [trim_left]. change (is_space 59%N) with false. cbv iota.
    change (59 =? 59)%N with true. cbv iota.
    change (59%N :: text ++ 10%N :: s) with ((59%N :: text) ++ 10%N :: s).
    rewrite take_line_app; [reflexivity|]. intros [Hc|Hin]; [discriminate|contradiction].
  Qed.

  (* ---------- renderings ---------- *)

  (* the text of a (non-comment) token *)
  Definition tok_text (t : tok) : str :=
    match t with
    | KInt s | KIdent s => s
    | KStr s => 34%N :: s ++ [34%N]
    | KLParen => [40%N] | KRParen => [41%N] | KLBracket => [91%N] | KRBracket => [93%N] | KComma => [44%N]
    | KComment s => s
    end.

  (* a token whose text is a plain word (may fuse with a following word character) *)
  Definition is_word_tok (t : tok) : bool := match t with KInt _ | KIdent _ => true | _ => false end.

  (* well-formed token: its text lexes to itself *)
  Definition wf_tok (infix : bool) (t : tok) : Prop :=
    match t with
    | KInt s | KIdent s =>
      (exists c w, s = c :: w /\ wordc c = true /\ c <> 59%N /\ c <> 34%N /\ Forall (fun c => wordc c = true) w) /\
      classify infix s = Some [t]
    | KStr s => ~ In 34%N s
    | KComment s => exists text, s = 59%N :: text /\ ~ In 10%N text      (* `;` up to, not including, the line break *)
    | _ => True
    end.

  (* separator after a token: white space; it may be empty unless the token is a word and the next text starts
     with a word character *)
  Definition sep_ok (t : tok) (sep : str) (next : str) : Prop :=
    all_space sep /\ (sep = [] -> is_word_tok t = true -> stops next) /\
    (* a comment ends at a line break, or at the end of the input *)
    (is_comment t = true -> (exists sep', sep = 10%N :: sep') \/ (sep = [] /\ next = [])).

  Fixpoint render (items : list (tok * str)) : str :=
    match items with [] => [] | (t, sep) :: rest => tok_text t ++ sep ++ render rest end.

  Fixpoint wf_items (infix : bool) (items : list (tok * str)) : Prop :=
    match items with
    | [] => True
    | (t, sep) :: rest => wf_tok infix t /\ sep_ok t sep (render rest) /\ wf_items infix rest
    end.

  Lemma stops_after_sep sep rest : all_space sep -> (sep = [] -> stops rest) -> (sep <> [] \/ stops rest) -> stops (sep ++ rest).
  Proof.
    intros Ha H1 H2. destruct sep as [|c sep]; [cbn; apply H1; reflexivity|]. cbn. inversion Ha; subst.
    unfold wordc. match goal with H : is_space c = true |- _ => rewrite H end. reflexivity.
  Qed.

  Lemma delim_classify infix c t : In (c, t) [(40%N, KLParen); (41%N, KRParen); (91%N, KLBracket); (93%N, KRBracket); (44%N, KComma)] ->
    classify infix [c] = Some [t].
  Proof. intros H. repeat (destruct H as [E|H]; [inversion E; subst; destruct infix; reflexivity|]). destruct H. Qed.

  Lemma tok_text_nonempty infix t : wf_tok infix t -> (1 <= length (tok_text t))%nat.
  Proof.
    destruct t as [s|s|s| | | | | |s]; cbn [wf_tok tok_text]; intros H;
      try (destruct H as [(c & w & -> & _) _]); try (destruct H as (text & -> & _)); cbn [length]; lia.
  Qed.

  (* the lexer inverts every rendering *)
  Theorem lex_render infix : forall items fuel lead, wf_items infix items -> all_space lead ->
    (length (lead ++ render items) < fuel)%nat ->
    lex_loop fuel infix (lead ++ render items) = Some (map fst items).
  Proof.
    induction items as [|[t sep] rest IH]; intros fuel lead Hwf Hlead Hfuel.
    - cbn [render map]. rewrite app_nil_r. destruct fuel; [cbn in Hfuel; lia|]. cbn [Lexer.lex_loop].
      replace lead with (lead ++ []) by apply app_nil_r. rewrite next_raw_spaces by exact Hlead. reflexivity.
    - cbn [render map fst wf_items] in *. destruct Hwf as (Ht & (Hsp & Hfuse & Hcmt) & Hrest).
      destruct fuel; [cbn in Hfuel; lia|]. cbn [Lexer.lex_loop]. rewrite next_raw_spaces by exact Hlead.
      assert (Hlen : (length (sep ++ render rest) < fuel)%nat).
      { rewrite !app_length in Hfuel. rewrite app_length. pose proof (tok_text_nonempty infix t Ht). lia. }
      destruct t as [s|s|s| | | | | |s]; cbn [tok_text wf_tok is_word_tok] in *.
      + destruct Ht as [(c & w & -> & Hc & H1 & H2 & Hw) Hcl].
        change ((c :: w) ++ sep ++ render rest) with (c :: w ++ (sep ++ render rest)).
        rewrite next_raw_word; try assumption.
        * rewrite Hcl, (IH fuel sep Hrest Hsp Hlen). reflexivity.
        * apply stops_after_sep; [exact Hsp|intros E; apply Hfuse; [exact E|reflexivity]|].
          destruct sep; [right; apply Hfuse; reflexivity|left; discriminate].
      + replace ((34%N :: s ++ [34%N]) ++ sep ++ render rest) with (34%N :: s ++ 34%N :: (sep ++ render rest)) by (cbn [app]; rewrite <- app_assoc; reflexivity).
        rewrite next_raw_string by exact Ht. rewrite (IH fuel sep Hrest Hsp Hlen). reflexivity.
      + destruct Ht as [(c & w & -> & Hc & H1 & H2 & Hw) Hcl].
        change ((c :: w) ++ sep ++ render rest) with (c :: w ++ (sep ++ render rest)).
        rewrite next_raw_word; try assumption.
        * rewrite Hcl, (IH fuel sep Hrest Hsp Hlen). reflexivity.
        * apply stops_after_sep; [exact Hsp|intros E; apply Hfuse; [exact E|reflexivity]|].
          destruct sep; [right; apply Hfuse; reflexivity|left; discriminate].
      + cbn [app]. rewrite next_raw_delim by (try reflexivity; discriminate). rewrite (delim_classify infix 40%N KLParen) by (cbn; auto).
        rewrite (IH fuel sep Hrest Hsp Hlen). reflexivity.
      + cbn [app]. rewrite next_raw_delim by (try reflexivity; discriminate). rewrite (delim_classify infix 41%N KRParen) by (cbn; auto).
        rewrite (IH fuel sep Hrest Hsp Hlen). reflexivity.
      + cbn [app]. rewrite next_raw_delim by (try reflexivity; discriminate). rewrite (delim_classify infix 91%N KLBracket) by (cbn; auto 10).
        rewrite (IH fuel sep Hrest Hsp Hlen). reflexivity.
      + cbn [app]. rewrite next_raw_delim by (try reflexivity; discriminate). rewrite (delim_classify infix 93%N KRBracket) by (cbn; auto 10).
        rewrite (IH fuel sep Hrest Hsp Hlen). reflexivity.
      + cbn [app]. rewrite next_raw_delim by (try reflexivity; discriminate). rewrite (delim_classify infix 44%N KComma) by (cbn; auto 10).
        rewrite (IH fuel sep Hrest Hsp Hlen). reflexivity.
      + (* a comment: up to the line break, or to the end of the input *)
        destruct Ht as (text & -> & Hnl). destruct (Hcmt eq_refl) as [[sep' ->]|[-> Er]].
        * replace ((59%N :: text) ++ (10%N :: sep') ++ render rest) with (59%N :: text ++ 10%N :: (sep' ++ render rest)) by reflexivity.
          rewrite next_raw_comment by exact Hnl.
          change (10%N :: sep' ++ render rest) with ((10%N :: sep') ++ render rest).
          rewrite (IH fuel (10%N :: sep') Hrest Hsp Hlen). reflexivity.
        * rewrite Er, !app_nil_r. unfold Lexer.next_raw. cbn [trim_left]. change (is_space 59%N) with false. cbv iota.
          change (59 =? 59)%N with true. cbv iota. rewrite take_line_end by (intros [E|H]; [discriminate|exact (Hnl H)]).
          assert (Hr : rest = []) by (destruct rest as [|[t0 s0] r0]; [reflexivity|]; exfalso; cbn [render] in Er;
            cbn [wf_items] in Hrest; destruct Hrest as (Ht0 & _ & _); pose proof (tok_text_nonempty infix t0 Ht0) as Hn;
            destruct (tok_text t0); [cbn in Hn; lia|discriminate]).
          subst rest. destruct fuel; [cbn in Hlen; lia|]. reflexivity.
  Qed.

  (* two layouts of the same tokens give the same token sequence *)
  Corollary layout_invariance infix items1 items2 :
    wf_items infix items1 -> wf_items infix items2 -> map fst items1 = map fst items2 ->
    lex is_letter is_number infix (render items1) = lex is_letter is_number infix (render items2).
  Proof.
    intros H1 H2 E. unfold Lexer.lex.
    rewrite (lex_render infix items1 _ [] H1 (Forall_nil _)) by (cbn; lia).
    rewrite (lex_render infix items2 _ [] H2 (Forall_nil _)) by (cbn; lia). rewrite E. reflexivity.
  Qed.

  (* ... and comments may come and go: what the parser sees (the tokens without the comments) is the same *)
  Corollary layout_invariance_comments infix items1 items2 :
    wf_items infix items1 -> wf_items infix items2 -> drop_comments (map fst items1) = drop_comments (map fst items2) ->
    option_map drop_comments (lex is_letter is_number infix (render items1)) =
    option_map drop_comments (lex is_letter is_number infix (render items2)).
  Proof.
    intros H1 H2 E. unfold Lexer.lex.
    rewrite (lex_render infix items1 _ [] H1 (Forall_nil _)) by (cbn; lia).
    rewrite (lex_render infix items2 _ [] H2 (Forall_nil _)) by (cbn; lia). cbn [option_map]. rewrite E. reflexivity.
  Qed.
End L.
