(* GroupSort.v — C16 on the whole pipeline: same-kind and/or groups of variables nested in one another come out of
   `optimize` (all passes on, IN THE GENERATED PASS ORDER) as ONE node whose operands are the stable cost-ascending sort of
   their source order. Flattening has to precede sorting for this: with the passes in another order a nested group would
   be ranked as a unit and spliced in afterwards - the proof below computes with `optimizations_order` as it is regenerated
   from the source, so it checks exactly while the order is constant folding, nesting reduction, fast marking, reordering
   (or any order with nesting reduction before reordering and fast marking not in between for 3+ leaves). *)
Require Import Base Opcode Tables Ops Tree Opt Reorder.
From Coq Require Import ZifyBool.
Open Scope Z_scope.
Open Scope list_scope.

(* a group of kind `a` (true = and-like): variables, or same-kind boolean operators over groups, never empty *)
Fixpoint grp (a : bool) (t : tree) : Prop :=
  match t with
  | TVar _ _ => True
  | TOp n false cs =>
    is_boolop n = true /\ is_and n = a /\ cs <> [] /\
    (fix all (l : list tree) : Prop := match l with [] => True | c :: l' => grp a c /\ all l' end) cs
  | _ => False
  end.

Fixpoint gleaves (t : tree) : list tree :=
  match t with
  | TOp _ _ cs => (fix go (l : list tree) : list tree := match l with [] => [] | c :: l' => gleaves c ++ go l' end) cs
  | _ => [t]
  end.

Fixpoint gleaves_list (l : list tree) : list tree := match l with [] => [] | c :: l' => gleaves c ++ gleaves_list l' end.

Lemma gleaves_op n f cs : gleaves (TOp n f cs) = gleaves_list cs.
Proof. reflexivity. Qed.

Lemma grp_op a n cs : grp a (TOp n false cs) <-> is_boolop n = true /\ is_and n = a /\ cs <> [] /\ Forall (grp a) cs.
Proof.
  cbn [grp].
  assert (E : forall l, (fix all (l : list tree) : Prop := match l with [] => True | c :: l' => grp a c /\ all l' end) l <-> Forall (grp a) l).
  { induction l as [|c l IH]; [split; auto|]. rewrite IH. split; [intros [H1 H2]; constructor; assumption|intros H; inversion H; auto]. }
  rewrite E. tauto.
Qed.

Definition isvar (t : tree) : bool := match t with TVar _ _ => true | _ => false end.

Lemma gleaves_vars a : forall t, grp a t -> Forall (fun x => isvar x = true) (gleaves t).
Proof.
  induction t as [v|n k|n f cs IH|c x y _ _ _] using tree_ind2; intros H; try (cbn [grp] in H; contradiction).
  - repeat constructor.
  - destruct f; [cbn [grp] in H; contradiction|]. apply grp_op in H. destruct H as (_ & _ & _ & Hc). rewrite gleaves_op.
    induction IH as [|c cs' Hc' _ IHl]; [constructor|]. inversion Hc; subst. cbn [gleaves_list]. apply Forall_app. split; [apply Hc'; assumption|apply IHl; assumption].
Qed.

Section G.
  Variable custom : str -> list value -> res value.
  Variable cfg : config.

  (* ---------- constant folding leaves a group alone ---------- *)

  Definition nonconst (t : tree) : bool := match t with TConst _ => false | _ => true end.

  Lemma bool_scan_nonconst d cs : Forall (fun x => nonconst x = true) cs -> bool_scan d cs = Some None.
  Proof. induction 1 as [|c cs Hc _ IH]; [reflexivity|]. destruct c; try discriminate; cbn [bool_scan]; exact IH. Qed.

  Lemma all_consts_nonconst c cs : nonconst c = true -> all_consts (c :: cs) = None.
  Proof. destruct c; try discriminate; reflexivity. Qed.

  Lemma fold_node_keep n cs : cs <> [] -> Forall (fun x => nonconst x = true) cs ->
    fst (fold_node custom cfg n false cs) = TOp n false cs.
  Proof.
    intros Hne Hnc. unfold fold_node. destruct (stateless_fn custom cfg n); [|reflexivity].
    destruct cs as [|c cs]; [contradiction|]. inversion Hnc; subst.
    destruct (op_kind n) as [d|]; [rewrite (bool_scan_nonconst d _ Hnc)|]; rewrite all_consts_nonconst by assumption; reflexivity.
  Qed.

  Lemma grp_nonconst a t : grp a t -> nonconst t = true.
  Proof. destruct t; cbn [grp]; try contradiction; reflexivity. Qed.

  Lemma cfold_grp a : forall t, grp a t -> fst (cfold custom cfg t) = t.
  Proof.
    induction t as [v|n k|n f cs IH|c x y _ _ _] using tree_ind2; intros H; try (cbn [grp] in H; contradiction); [reflexivity|].
    destruct f; [cbn [grp] in H; contradiction|]. apply grp_op in H. destruct H as (Hb & Ha & Hne & Hc).
    cbn [cfold fst]. rewrite map_map.
    assert (E : map (fun x => fst (cfold custom cfg x)) cs = cs).
    { clear Hne. induction IH as [|c cs' Hc' _ IHl]; [reflexivity|]. inversion Hc; subst. cbn [map]. rewrite Hc' by assumption. f_equal. apply IHl. assumption. }
    rewrite E. apply fold_node_keep; [exact Hne|].
    rewrite Forall_forall in *. intros x Hx. apply (grp_nonconst a). apply Hc. exact Hx.
  Qed.

  (* ---------- nesting reduction makes it ONE node over its leaves ---------- *)

  Lemma flatten_vars a l : Forall (fun x => isvar x = true) l -> flatten a l = Some l.
  Proof. induction 1 as [|c l Hc _ IH]; [reflexivity|]. destruct c; try discriminate. cbn [flatten]. rewrite IH. reflexivity. Qed.

  Lemma flatten_app_vars a l r rest : Forall (fun x => isvar x = true) l -> flatten a rest = Some r -> flatten a (l ++ rest) = Some (l ++ r).
  Proof. induction 1 as [|c l Hc _ IH]; intros Hr; [exact Hr|]. destruct c; try discriminate. cbn [app flatten]. rewrite (IH Hr). reflexivity. Qed.

  (* a nested child, already reduced: a variable, or a same-kind node over variables *)
  Lemma nest_grp a : forall t, grp a t ->
    nest t = match t with TOp n _ _ => TOp n false (gleaves t) | _ => t end.
  Proof.
    induction t as [v|n k|n f cs IH|c x y _ _ _] using tree_ind2; intros H; try (cbn [grp] in H; contradiction); [reflexivity|].
    destruct f; [cbn [grp] in H; contradiction|]. pose proof H as H0. apply grp_op in H. destruct H as (Hb & Ha & Hne & Hc).
    cbn [nest]. rewrite Hb, Ha.
    assert (F : flatten a (map nest cs) = Some (gleaves_list cs)).
    { clear Hne H0. induction IH as [|c cs' Hc' _ IHl]; [reflexivity|]. inversion Hc as [|? ? Hgc Hgs]; subst.
      cbn [map gleaves_list]. rewrite (Hc' Hgc).
      destruct c as [v|m k|m fm ms|? ? ?]; try (cbn [grp] in Hgc; contradiction).
      - cbn [flatten gleaves app]. rewrite (IHl Hgs). reflexivity.
      - destruct fm; [cbn [grp] in Hgc; contradiction|]. pose proof Hgc as Hg2. apply grp_op in Hg2. destruct Hg2 as (Hb2 & Ha2 & _ & _).
        cbn [flatten]. rewrite Hb2, Ha2, Bool.eqb_reflx. cbn [andb]. rewrite (IHl Hgs). reflexivity. }
    rewrite F. rewrite gleaves_op. reflexivity.
  Qed.

  (* ---------- fast marking and reordering on a node over variables ---------- *)

  Lemma map_id_vars (f : tree -> tree) l : (forall n k, f (TVar n k) = TVar n k) -> Forall (fun x => isvar x = true) l -> map f l = l.
  Proof. intros Hf. induction 1 as [|c l Hc _ IH]; [reflexivity|]. destruct c; try discriminate. cbn [map]. rewrite Hf, IH. reflexivity. Qed.

  Definition two_leaves (l : list tree) : bool := match l with [a; b] => is_leaf a && is_leaf b | _ => false end.

  Lemma fastp_vars n l : Forall (fun x => isvar x = true) l -> fastp (TOp n false l) = TOp n (two_leaves l) l.
  Proof. intros H. cbn [fastp]. rewrite (map_id_vars fastp l (fun _ _ => eq_refl) H). reflexivity. Qed.

  Lemma reorder_vars n f l : is_boolop n = true -> Forall (fun x => isvar x = true) l ->
    reorder cfg (TOp n f l) = TOp n f (sort_by (cost cfg) l).
  Proof. intros Hb H. unfold reorder. cbn [reorder_with]. rewrite (map_id_vars _ l (fun _ _ => eq_refl) H), Hb. reflexivity. Qed.

  (* ---------- the pipeline ---------- *)

  Hypothesis all_on : forall name, pass_on cfg name = true.

  Theorem optimize_group a n cs : grp a (TOp n false cs) ->
    optimize custom cfg (TOp n false cs) =
    TOp n (two_leaves (gleaves_list cs)) (sort_by (cost cfg) (gleaves_list cs)).
  Proof.
    intros H. pose proof (gleaves_vars a _ H) as Hv. rewrite gleaves_op in Hv.
    pose proof H as H0. apply grp_op in H0. destruct H0 as (Hb & _ & _ & _).
    unfold optimize.
    (* the generated pass order, one pass after the other *)
    assert (O : optimizations_order = ["constant_folding"; "reduce_nesting"; "fast_evaluation"; "reordering"]%string) by reflexivity.
    rewrite O. cbn [fold_left]. rewrite !all_on. unfold run_pass. cbn [String.eqb Ascii.eqb Bool.eqb].
    rewrite (cfold_grp a _ H), (nest_grp a _ H), gleaves_op, (fastp_vars n _ Hv), (reorder_vars n _ _ Hb Hv). reflexivity.
  Qed.
End G.

Print Assumptions optimize_group.
