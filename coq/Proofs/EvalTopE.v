(* EvalTopE.v — C12: the event-mode program `compileE t`, run by the model of Expr.Eval, returns what `sem t` returns
   and makes exactly the fetches and operator applications of `sem t`, in order; LOOP events are the only other
   observations. Together with EvalTop.run_compile_correct: switching events on changes nothing but the LOOP events. *)
Require Import Base Opcode Tables Ops Tree Opt Flat FlatE Run CompFacts CompFactsE EvalDefs EvalInv EvalCorrect EvalTop EvalCorrectE.
From Coq Require Import ZifyBool.
Open Scope Z_scope.
Open Scope list_scope.

(* ---------- the slots of the event program are slots of the plain program ---------- *)

Definition osl (code : list (node * Z)) : list Z := map (fun x => osTop (fst x)) code.

Lemma osl_app a b : osl (a ++ b) = osl a ++ osl b.
Proof. apply map_app. Qed.

Lemma incl_app2 {A} (a b a' b' : list A) : incl a a' -> incl b b' -> incl (a ++ b) (a' ++ b').
Proof. intros Ha Hb. apply incl_app; [apply incl_appl|apply incl_appr]; assumption. Qed.

Lemma incl_dup {A} (x : A) l l' : incl l l' -> incl (x :: x :: l) (x :: l').
Proof. intros H y [->|[->|Hy]]; [left; reflexivity|left; reflexivity|right; apply H; exact Hy]. Qed.

Lemma osl_with_event pos nd nd' pidx rest rest' p : osTop nd = osTop nd' -> incl (osl rest) (osl rest') ->
  incl (osl (with_event pos nd pidx ++ rest)) (osl ((nd', p) :: rest')).
Proof. intros E H. unfold with_event. cbn [app osl map fst osTop event_node]. rewrite E. apply incl_dup. exact H. Qed.

Lemma compE_osl lastE last t : forall base base' h inh inh' anc anc' mf mf' mt mt' pidx pidx' r r',
  incl (osl (compE lastE t base h inh anc mf mt pidx r)) (osl (comp last t base' h inh' anc' mf' mt' pidx' r')).
Proof.
  induction t as [v|n k|name fast cs IH|c t f IHc IHt IHf] using tree_ind2; intros.
  - cbn [compE comp]. rewrite <- (app_nil_r (with_event _ _ _)). apply osl_with_event; [reflexivity|apply incl_refl].
  - cbn [compE comp]. rewrite <- (app_nil_r (with_event _ _ _)). apply osl_with_event; [reflexivity|apply incl_refl].
  - destruct (fast_shape fast cs) eqn:Hfs.
    + destruct (fast_shape_inv _ _ Hfs) as (a & b & -> & Ha & Hb & ->).
      rewrite compE_fast_unfold, comp_fast_unfold by exact Hfs. cbv zeta.
      apply osl_with_event; [reflexivity|]. cbn [osl map fst osTop mk]. apply incl_refl.
    + rewrite compE_op_unfold, comp_op_unfold by exact Hfs. clear Hfs.
      rewrite !osl_app. apply incl_app2.
      * generalize (base + Z.of_nat (esize (TOp name fast cs)) - 1) as ridxE.
        generalize (base' + Z.of_nat (size (TOp name fast cs)) - 1) as ridx.
        generalize (if inh then [] else (mf, mt) :: anc) as ancE.
        generalize (if inh' then [] else (mf', mt') :: anc') as ancP.
        generalize (lenZ cs) at 1 as n1. generalize (lenZ cs) as n2.
        intros n2 n1 ancP ancE ridx ridxE. revert base base' h.
        induction IH as [|c0 cs0 Hc _ IHcs]; intros b b' hh; cbn [compE_args comp_args]; [apply incl_refl|].
        cbv zeta. rewrite !osl_app. apply incl_app2; [apply Hc|apply IHcs].
      * rewrite <- (app_nil_r (with_event _ _ _)). apply osl_with_event; [reflexivity|apply incl_refl].
  - cbn [compE comp]. cbv zeta. rewrite !osl_app. apply incl_app2; [apply IHc|].
    rewrite <- !osl_app. change (?x :: ?l) with ([x] ++ l) at 2. cbn [app].
    apply osl_with_event; [reflexivity|]. rewrite !osl_app. apply incl_app2; [apply IHt|].
    rewrite <- !osl_app. apply osl_with_event; [reflexivity|]. apply IHf.
Qed.

Lemma compileE_nodes t : nodes (compileE t) =
  map fst (compE (Z.of_nat (esize t) - 1) t 0 0 false [] fnone (root_idxE t 0) (-1) None).
Proof. reflexivity. Qed.

Lemma compileE_len t : lenZ (nodes (compileE t)) = Z.of_nat (esize t).
Proof. rewrite compileE_nodes. unfold lenZ. rewrite map_length, compE_length. reflexivity. Qed.

Theorem compileE_alloc t : forall i nd, getn (compileE t) i = Some nd -> osTop nd < alloc (compileE t).
Proof.
  intros i nd G. pose proof (nthZ_range _ _ _ G) as R.
  unfold getn, nthZ in G. replace (i <? 0) with false in G by lia.
  rewrite compileE_nodes in G. rewrite nth_error_map in G.
  destruct (nth_error (compE _ t 0 0 false [] fnone (root_idxE t 0) (-1) None) (Z.to_nat i)) as [[nd' p]|] eqn:E; [|discriminate].
  cbn in G. inversion G; subst nd'. clear G.
  assert (Hin : In (osTop nd) (osl (comp (Z.of_nat (size t) - 1) t 0 0 false [] fnone (root_idx t 0) (-1) None))).
  { eapply compE_osl. unfold osl. apply in_map_iff. exists (nd, p). split; [reflexivity|]. eapply nth_error_In; eauto. }
  unfold osl in Hin. apply in_map_iff in Hin. destruct Hin as ([nd0 p0] & Eo & Hin0). cbn [fst] in Eo.
  assert (Hmax : osTop nd + 1 <= maxStack (compileE t)).
  { unfold compileE, compile. cbn [maxStack]. apply max_list_ge. apply in_map_iff. exists (nd0, p0). split; [cbn [fst]; lia|exact Hin0]. }
  assert (Hos : osTop nd <= i).
  { clear Hmax Hin0 Eo. revert E. generalize (Z.of_nat (esize t) - 1) as lastE. intros lastE E.
    assert (OK : forall lastE t base h inh anc mf mt pidx r, os_ok (compE lastE t base h inh anc mf mt pidx r) h).
    { clear.
      assert (W : forall pos nd pidx hh, osTop nd <= hh -> os_ok (with_event pos nd pidx) hh).
      { intros pos nd pidx hh Hn k nd' p Hk. destruct k as [|[|k]]; cbn [nth_error with_event] in Hk;
          [inversion Hk; subst; cbn [osTop event_node]; lia|inversion Hk; subst; lia|destruct k; discriminate]. }
      intros lastE t. induction t as [v|n k|name fast cs IH|c t f IHc IHt IHf] using tree_ind2; intros.
      - cbn [compE]. apply W. reflexivity.
      - cbn [compE]. apply W. reflexivity.
      - destruct (fast_shape fast cs) eqn:Hfs.
        + destruct (fast_shape_inv _ _ Hfs) as (a & b & -> & Ha & Hb & ->).
          rewrite compE_fast_unfold by exact Hfs. cbv zeta.
          intros k nd p Hk. destruct k as [|[|[|[|k]]]]; cbn [nth_error with_event app] in Hk; try (destruct k; discriminate); inversion Hk; subst; cbn [osTop mk event_node]; lia.
        + rewrite compE_op_unfold by exact Hfs. clear Hfs.
          assert (E : forall kk n ridx anc' b hh, os_ok (compE_args lastE kk n ridx anc' cs b hh) hh).
          { intros kk n ridx anc'. induction IH as [|c0 cs0 Hc _ IHcs]; intros b hh; cbn [compE_args]; [apply os_ok_nil|].
            cbv zeta. apply (os_ok_app _ _ hh (hh + 1)); [apply Hc|apply IHcs|]. rewrite compE_length. pose proof (esize_pos c0). lia. }
          eapply os_ok_app; [apply E|apply W; cbn [osTop mk]; reflexivity|]. lia.
      - cbn [compE]. cbv zeta. pose proof (esize_pos c). pose proof (esize_pos t).
        apply (os_ok_app _ _ h h); [apply IHc| |rewrite compE_length; lia].
        apply (os_ok_app _ _ h h); [apply W; cbn [osTop mk]; lia| |cbn [length with_event]; lia].
        apply (os_ok_app _ _ h h); [apply IHt| |rewrite compE_length; lia].
        apply (os_ok_app _ _ h h); [apply W; cbn [osTop mk]; lia|apply IHf|cbn [length with_event]; lia]. }
    apply OK in E. lia. }
  unfold alloc. destruct (maxStack (compileE t) <=? stack_small) eqn:E8; [lia|].
  destruct (maxStack (compileE t) <=? stack_mid) eqn:E16; [lia|].
  unfold psize. lia.
Qed.

Lemma allocE_pos t : 1 <= alloc (compileE t).
Proof.
  unfold alloc. destruct (_ <=? stack_small); [unfold stack_small; lia|].
  destruct (_ <=? stack_mid); [unfold stack_mid; lia|].
  unfold psize. rewrite compileE_len. pose proof (esize_pos t). lia.
Qed.

(* ---------- T-EVENT ---------- *)

Theorem run_compileE_correct fetch custom t :
  dl (eval fetch custom (compileE t)) = sem_obs (sem fetch custom t).
Proof.
  set (P := compileE t).
  pose proof (sub_okE fetch custom P (compileE_alloc t) t 0 0 false [] [] fnone (root_idxE t 0) (-1) None 0
                (fun v => ([], MVal v)) []) as H.
  unfold eval. rewrite H.
  - unfold sem_obs, bindT. destruct (sem fetch custom t) as [tr [v|e]]; cbn [fst snd]; [|reflexivity].
    unfold preM. cbn [fst snd]. rewrite app_nil_r. reflexivity.
  - exists [], []. split; [|reflexivity]. rewrite app_nil_r. cbn [app].
    unfold lastI. unfold P. rewrite compileE_len. apply compileE_nodes.
  - lia.
  - reflexivity.
  - intros b Hb. destruct b; discriminate.
  - exact I.
  - intros Hc. discriminate.
  - reflexivity.
  - intros v f Hf. rewrite Z.add_0_l.
    rewrite (afterD_unflagged P _ _ fnone fnone _ 0 v [] eq_refl eq_refl).
    assert (E : afterD P (run fetch custom P f) (Z.of_nat (esize t)) fnone 0 v [] = run fetch custom P f (Z.of_nat (esize t)) [v]).
    { unfold afterD, store_next, push. change (lenZ (@nil value)) with 0.
      pose proof (allocE_pos t) as Ha. fold P in Ha. replace (0 <? alloc P) with true by lia.
      destruct v; try reflexivity. destruct b; reflexivity. }
    rewrite E. destruct f as [|f']; [unfold need in Hf; lia|].
    rewrite run_S. unfold psize, P. rewrite compileE_len. replace (Z.of_nat (esize t) <=? Z.of_nat (esize t)) with true by lia.
    reflexivity.
  - unfold need, P. rewrite compileE_len. unfold lenZ. fold P.
    assert (length (nodes P) = esize t) by (unfold P; rewrite compileE_nodes, map_length, compE_length; reflexivity). lia.
Qed.

(* events on or off: same result, same fetches and operator applications in the same order *)
Corollary events_transparent fetch custom t :
  dl (eval fetch custom (compileE t)) = eval fetch custom (compile t).
Proof. rewrite run_compileE_correct, run_compile_correct. reflexivity. Qed.

(* and the plain program emits no LOOP event at all *)
Corollary plain_no_loops fetch custom t : dl (eval fetch custom (compile t)) = eval fetch custom (compile t).
Proof.
  rewrite run_compile_correct. unfold dl, sem_obs. cbn [fst snd]. rewrite drop_loops_e2o. reflexivity.
Qed.

Print Assumptions run_compileE_correct.
