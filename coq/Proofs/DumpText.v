(* DumpText.v — C13: the text Dump prints is a well-formed layout of the tree's tokens (so the proved front end reads it
   back): `fst (show t depth) ++ trail = render (items t depth trail)`, the tokens of `items` are `ttoks show_Z t`, and the
   separators are white space, empty only in front of a parenthesis. *)
Require Import Base Opcode Tables Ops Tree Opt Flat Run CompFacts Directives Lexer Parser Print LexProofs InfixProofs PrefixProofs PrintProofs SourceProofs DumpStruct.
From Coq Require Import ZifyBool ZifyN.
Open Scope Z_scope.
Open Scope list_scope.

Local Notation wf_tok := (wf_tok is_letter_tab is_number_tab).
Local Notation wf_items := (wf_items is_letter_tab is_number_tab).

(* ---------- the decimal text of an integer is one integer token ---------- *)

Lemma digit_wordc d : is_digit d = true -> wordc d = true /\ d <> 59%N /\ d <> 34%N /\ d <> 40%N /\ d <> 41%N /\ d <> 91%N /\ d <> 93%N /\ d <> 44%N /\ d <> 33%N.
Proof.
  intros Hd.
  assert (Hc : (d = 48 \/ d = 49 \/ d = 50 \/ d = 51 \/ d = 52 \/ d = 53 \/ d = 54 \/ d = 55 \/ d = 56 \/ d = 57)%N) by (unfold is_digit in Hd; lia).
  repeat (destruct Hc as [->|Hc]; [repeat split; try reflexivity; discriminate|]). subst d. repeat split; try reflexivity; discriminate.
Qed.

Lemma show_digits_digits fuel : forall n acc, 0 <= n -> Forall (fun d => is_digit d = true) acc ->
  Forall (fun d => is_digit d = true) (show_digits fuel n acc).
Proof.
  induction fuel as [|f IH]; intros n acc Hn Ha; cbn [show_digits]; [exact Ha|].
  destruct (n <? 10) eqn:E.
  - constructor; [|exact Ha]. unfold is_digit. lia.
  - apply IH; [apply Z.div_pos; lia|]. constructor; [|exact Ha]. pose proof (Z.mod_pos_bound n 10). unfold is_digit. lia.
Qed.

Lemma str_eqb_single c w d : c <> d -> str_eqb (c :: w) [d] = false.
Proof. intros H. unfold str_eqb. cbn [list_eqb]. replace (c =? d)%N with false by (symmetry; apply N.eqb_neq; exact H). reflexivity. Qed.

Lemma show_Z_tok z : in_i64 z = true -> wf_tok false (KInt (show_Z z)).
Proof.
  intros Hz. pose proof (parse_show_Z z Hz) as HP.
  assert (Hshape : exists c w, show_Z z = c :: w /\ (c = 45%N \/ is_digit c = true) /\ Forall (fun d => is_digit d = true) w).
  { unfold show_Z. destruct (z <? 0) eqn:E.
    - exists 45%N, (show_digits 25 (- z) []). split; [reflexivity|]. split; [left; reflexivity|]. apply show_digits_digits; [lia|constructor].
    - pose proof (show_digits_digits 25 z [] ltac:(lia) (Forall_nil _)) as H. destruct (show_digits 25 z []) as [|c w] eqn:Es.
      + exfalso. unfold show_Z in HP. rewrite E, Es in HP. discriminate.
      + inversion H; subst. exists c, w. auto. }
  destruct Hshape as (c & w & Es & Hc & Hw).
  assert (Hcw : wordc c = true /\ c <> 59%N /\ c <> 34%N /\ c <> 40%N /\ c <> 41%N /\ c <> 91%N /\ c <> 93%N /\ c <> 44%N /\ c <> 33%N).
  { destruct Hc as [->|Hc]; [repeat split; try reflexivity; discriminate|apply digit_wordc; exact Hc]. }
  destruct Hcw as (W & N59 & N34 & N40 & N41 & N91 & N93 & N44 & N33).
  cbn [LexProofs.wf_tok]. split.
  - exists c, w. repeat split; try assumption. eapply Forall_impl; [|exact Hw]. intros d Hd. apply digit_wordc. exact Hd.
  - rewrite Es. unfold classify.
    change (ss "(") with [40%N]. change (ss ")") with [41%N]. change (ss "[") with [91%N]. change (ss "]") with [93%N]. change (ss ",") with [44%N].
    rewrite !str_eqb_single by assumption. unfold valid_int. rewrite <- Es, HP. rewrite Es.
    replace (c =? 33)%N with false by (symmetry; apply N.eqb_neq; exact N33). reflexivity.
Qed.

(* ---------- the layout Dump uses ---------- *)

Definition lead (depth : nat) (x : str * bool) : str := if snd x then [32%N] else 10%N :: spaces (2 * S depth).

Lemma piece_lead depth x : piece depth x = lead depth x ++ fst x.
Proof. unfold piece, lead. destruct (snd x); reflexivity. Qed.

Fixpoint sepitems (ts : list tok) : list (tok * str) :=
  match ts with [] => [] | [a] => [(a, [])] | a :: ts' => (a, [32%N]) :: sepitems ts' end.

Definition vitems (v : value) (trail : str) : list (tok * str) :=
  match v with
  | VInt z => [(KInt (show_Z z), trail)]
  | VBool true => [(KIdent (ss "true"), trail)]
  | VBool false => [(KIdent (ss "false"), trail)]
  | VStr s => [(KStr s, trail)]
  | VIntL l => (KLParen, []) :: sepitems (map (fun z => KInt (show_Z z)) l) ++ [(KRParen, trail)]
  | VStrL l => (KLParen, []) :: sepitems (map KStr l) ++ [(KRParen, trail)]
  | _ => []
  end.

Definition next_lead (depth : nat) (cs : list tree) : str :=
  match cs with [] => [] | c :: _ => lead depth (show c (S depth)) end.

Fixpoint items (t : tree) (depth : nat) (trail : str) : list (tok * str) :=
  match t with
  | TConst v => vitems v trail
  | TVar n _ => [(KIdent n, trail)]
  | TOp name _ cs =>
    (KLParen, []) :: (KIdent name, next_lead depth cs) ::
      (fix go (cs : list tree) : list (tok * str) :=
         match cs with [] => [] | c :: cs' => items c (S depth) (next_lead depth cs') ++ go cs' end) cs
      ++ [(KRParen, trail)]
  | TIf a b d =>
    (KLParen, []) :: (KIdent (ss keyword_if), lead depth (show a (S depth))) ::
      items a (S depth) (lead depth (show b (S depth))) ++ items b (S depth) (lead depth (show d (S depth))) ++
      items d (S depth) [] ++ [(KRParen, trail)]
  end.

Fixpoint items_list (cs : list tree) (depth : nat) : list (tok * str) :=
  match cs with [] => [] | c :: cs' => items c (S depth) (next_lead depth cs') ++ items_list cs' depth end.

Lemma items_op name fast cs depth trail : items (TOp name fast cs) depth trail =
  (KLParen, []) :: (KIdent name, next_lead depth cs) :: items_list cs depth ++ [(KRParen, trail)].
Proof.
  cbn [items]. do 2 f_equal. f_equal.
  induction cs as [|c cs IH]; [reflexivity|]. cbn [items_list]. f_equal. exact IH.
Qed.

Lemma render_app a b : render (a ++ b) = render a ++ render b.
Proof. induction a as [|[t s] a IH]; [reflexivity|]. cbn [app render]. rewrite IH, <- !app_assoc. reflexivity. Qed.

(* ---------- F1: the rendering of the items is the printed text ---------- *)

Lemma render_sepitems ts : render (sepitems ts) = join_sp (map tok_text ts).
Proof.
  induction ts as [|a [|b ts] IH]; [reflexivity|cbn [sepitems render map join_sp app]; rewrite app_nil_r; reflexivity|].
  change (sepitems (a :: b :: ts)) with ((a, [32%N]) :: sepitems (b :: ts)).
  change (map tok_text (a :: b :: ts)) with (tok_text a :: map tok_text (b :: ts)).
  cbn [render]. rewrite IH. cbn [map join_sp app]. reflexivity.
Qed.

Lemma render_sepitems_ints l : render (sepitems (map (fun z => KInt (show_Z z)) l)) = join_sp (map show_Z l).
Proof. rewrite render_sepitems, map_map. reflexivity. Qed.

Lemma render_sepitems_strs l : render (sepitems (map KStr l)) = join_sp (map quote l).
Proof. rewrite render_sepitems, map_map. reflexivity. Qed.

Definition printable (v : value) : Prop :=
  match v with VInt _ | VBool _ | VStr _ | VIntL _ | VStrL _ => True | _ => False end.

Fixpoint tprintable (t : tree) : Prop :=
  match t with
  | TConst v => printable v
  | TVar _ _ => True
  | TOp _ _ cs => (fix all (l : list tree) : Prop := match l with [] => True | a :: l' => tprintable a /\ all l' end) cs
  | TIf a b d => tprintable a /\ tprintable b /\ tprintable d
  end.

Lemma tprintable_op name fast cs : tprintable (TOp name fast cs) <-> Forall tprintable cs.
Proof.
  cbn [tprintable]. induction cs as [|a l IH]; [split; auto|]. rewrite IH. split; [intros [H1 H2]; constructor; assumption|intros H; inversion H; auto].
Qed.

Lemma render_items : forall t, tprintable t -> forall depth trail, render (items t depth trail) = fst (show t depth) ++ trail.
Proof.
  induction t as [v|n k|name fast cs IH|a b d IHa IHb IHd] using tree_ind2; intros Hp depth trail.
  - destruct v as [z|[]|s|li|ls|si|ss'| | |o]; cbn [tprintable printable] in Hp; try contradiction; cbn [items vitems show fst show_value].
    + cbn [render tok_text]. rewrite app_nil_r. reflexivity.
    + cbn [render tok_text]. rewrite app_nil_r. reflexivity.
    + cbn [render tok_text]. rewrite app_nil_r. reflexivity.
    + cbn [render tok_text]. rewrite app_nil_r. unfold quote. cbn [app]. rewrite <- app_assoc. reflexivity.
    + cbn [render tok_text app]. rewrite render_app, render_sepitems_ints. cbn [render tok_text app]. rewrite app_nil_r, <- app_assoc. reflexivity.
    + cbn [render tok_text app]. rewrite render_app, render_sepitems_strs. cbn [render tok_text app]. rewrite app_nil_r, <- app_assoc. reflexivity.
  - cbn [items show fst render tok_text]. rewrite app_nil_r. reflexivity.
  - apply tprintable_op in Hp. rewrite items_op. cbn [render tok_text app]. rewrite render_app. cbn [render tok_text app]. rewrite app_nil_r.
    assert (G : next_lead depth cs ++ render (items_list cs depth) = concat (map (fun c => piece depth (show c (S depth))) cs)).
    { clear name fast trail. induction IH as [|c cs' Hc _ IHl]; [reflexivity|]. inversion Hp; subst.
      cbn [next_lead items_list map concat]. rewrite render_app, Hc by assumption. rewrite piece_lead, <- !app_assoc. do 2 f_equal. apply IHl. assumption. }
    cbn [show]. destruct cs as [|c0 cs0].
    + cbn [next_lead items_list render app fst]. rewrite <- app_assoc. reflexivity.
    + cbn [fst]. rewrite <- G. cbn [app]. rewrite <- !app_assoc. reflexivity.
  - destruct Hp as (Ha & Hb & Hd). cbn [items]. cbn [render tok_text app]. rewrite !render_app, IHa, IHb, IHd by assumption.
    cbn [render tok_text app show fst concat]. rewrite !piece_lead, !app_nil_r, <- !app_assoc. reflexivity.
Qed.

(* ---------- F2: the tokens ---------- *)

Lemma map_fst_sepitems ts : map fst (sepitems ts) = ts.
Proof. induction ts as [|a [|b ts] IH]; try reflexivity. cbn [sepitems map fst]. f_equal. exact IH. Qed.

Lemma items_tokens : forall t, tprintable t -> forall depth trail, map fst (items t depth trail) = ttoks show_Z t.
Proof.
  induction t as [v|n k|name fast cs IH|a b d IHa IHb IHd] using tree_ind2; intros Hp depth trail.
  - destruct v as [z|[]|s|li|ls|si|ss'| | |o]; cbn [tprintable printable] in Hp; try contradiction; cbn [items vitems ttoks vtoks]; try reflexivity.
    + cbn [map fst]. rewrite map_app, map_fst_sepitems. reflexivity.
    + cbn [map fst]. rewrite map_app, map_fst_sepitems. reflexivity.
  - reflexivity.
  - apply tprintable_op in Hp. rewrite items_op. cbn [map fst ttoks]. rewrite map_app. cbn [map fst]. do 3 f_equal.
    clear name fast trail. induction IH as [|c cs' Hc _ IHl]; [reflexivity|]. inversion Hp; subst.
    cbn [items_list flat_map]. rewrite map_app, Hc by assumption. f_equal. apply IHl. assumption.
  - destruct Hp as (Ha & Hb & Hd). cbn [items ttoks]. cbn [map fst]. rewrite !map_app, IHa, IHb, IHd by assumption. reflexivity.
Qed.

(* ---------- F3: the layout is well formed (separators are white space, empty only before a parenthesis) ---------- *)

Definition vlex (v : value) : Prop :=
  match v with
  | VInt z => in_i64 z = true
  | VBool _ => True
  | VStr s => ~ In 34%N s
  | VIntL l => Forall (fun z => in_i64 z = true) l
  | VStrL l => Forall (fun s => ~ In 34%N s) l
  | _ => False
  end.

(* names are identifiers the lexer accepts, strings contain no double quote (the lexer has no escapes) *)
Fixpoint lexable (t : tree) : Prop :=
  match t with
  | TConst v => vlex v
  | TVar n _ => wf_tok false (KIdent n)
  | TOp name _ cs =>
    wf_tok false (KIdent name) /\
    (fix all (l : list tree) : Prop := match l with [] => True | a :: l' => lexable a /\ all l' end) cs
  | TIf a b d => lexable a /\ lexable b /\ lexable d
  end.

Lemma lexable_op name fast cs : lexable (TOp name fast cs) <-> wf_tok false (KIdent name) /\ Forall lexable cs.
Proof.
  cbn [lexable]. assert (E : forall l, (fix all (l : list tree) : Prop := match l with [] => True | a :: l' => lexable a /\ all l' end) l <-> Forall lexable l).
  { induction l as [|a l IH]; [split; auto|]. rewrite IH. split; [intros [H1 H2]; constructor; assumption|intros H; inversion H; auto]. }
  rewrite E. tauto.
Qed.

Lemma lexable_printable : forall t, lexable t -> tprintable t.
Proof.
  induction t as [v|n k|name fast cs IH|a b d IHa IHb IHd] using tree_ind2; intros H.
  - destruct v; cbn in *; auto.
  - exact I.
  - apply lexable_op in H. destruct H as [_ H]. apply tprintable_op. induction IH as [|c cs' Hc _ IHl]; [constructor|]. inversion H; subst. constructor; auto.
  - destruct H as (?&?&?). cbn [tprintable]. auto.
Qed.

Ltac word_tok := split; [eexists _, _; split; [reflexivity|]; repeat split; try reflexivity; try discriminate; repeat constructor|vm_compute; reflexivity].
Lemma wf_true : wf_tok false (KIdent (ss "true")). Proof. word_tok. Qed.
Lemma wf_false : wf_tok false (KIdent (ss "false")). Proof. word_tok. Qed.
Lemma wf_if : wf_tok false (KIdent (ss keyword_if)). Proof. word_tok. Qed.

Lemma all_space_spaces n : all_space (spaces n).
Proof. induction n; constructor; [reflexivity|assumption]. Qed.
Lemma all_space_lead depth x : all_space (lead depth x) /\ lead depth x <> [].
Proof. unfold lead. destruct (snd x); split; try discriminate; [repeat constructor|constructor; [reflexivity|apply all_space_spaces]]. Qed.
Lemma all_space_next_lead depth cs : all_space (next_lead depth cs) /\ (next_lead depth cs = [] -> cs = []).
Proof. destruct cs as [|c cs]; [split; [constructor|reflexivity]|]. cbn [next_lead]. destruct (all_space_lead depth (show c (S depth))) as [H1 H2]. split; [exact H1|intros E; contradiction]. Qed.

Definition closes (r : list (tok * str)) : Prop := exists tr r', r = (KRParen, tr) :: r'.
Lemma closes_stops r : closes r -> stops (render r).
Proof. intros (tr & r' & ->). reflexivity. Qed.

Lemma wf_open rest : wf_items false rest -> wf_items false ((KLParen, []) :: rest).
Proof. intros H. cbn [LexProofs.wf_items LexProofs.wf_tok]. repeat split; [constructor|discriminate|discriminate|exact H]. Qed.
Lemma wf_close trail rest : all_space trail -> wf_items false rest -> wf_items false ((KRParen, trail) :: rest).
Proof. intros Ht H. cbn [LexProofs.wf_items LexProofs.wf_tok]. repeat split; [exact Ht|discriminate|discriminate|exact H]. Qed.
Lemma wf_word t sep rest : wf_tok false t -> is_comment t = false -> all_space sep -> (sep = [] -> stops (render rest)) -> wf_items false rest ->
  wf_items false ((t, sep) :: rest).
Proof. intros Ht Hc Hs Hn H. cbn [LexProofs.wf_items]. repeat split; [exact Ht|exact Hs|intros E _; apply Hn; exact E|rewrite Hc; discriminate|exact H]. Qed.

Lemma wf_sepitems ts r : Forall (wf_tok false) ts -> Forall (fun t => is_comment t = false) ts -> closes r -> wf_items false r -> wf_items false (sepitems ts ++ r).
Proof.
  intros Hts Hnc0 Hc Hr. induction ts as [|a [|b ts] IH]; [exact Hr| |].
  - inversion Hts; subst. inversion Hnc0 as [|? ? Hnc _]; subst. cbn [sepitems app]. apply wf_word; [assumption|exact Hnc|constructor|intros _; apply closes_stops; exact Hc|exact Hr].
  - inversion Hts; subst. inversion Hnc0 as [|? ? Hnc Hnc']; subst. change (sepitems (a :: b :: ts)) with ((a, [32%N]) :: sepitems (b :: ts)). cbn [app].
    apply wf_word; [assumption|exact Hnc|repeat constructor|discriminate|apply IH; assumption].
Qed.

Lemma wf_items_tree : forall t, lexable t -> forall depth trail rest,
  all_space trail -> (trail = [] -> stops (render rest)) -> wf_items false rest ->
  wf_items false (items t depth trail ++ rest).
Proof.
  induction t as [v|n k|name fast cs IH|a b d IHa IHb IHd] using tree_ind2; intros Hl depth trail rest Hs Hn Hr.
  - destruct v as [z|[]|s|li|ls|si|ss'| | |o]; cbn [lexable vlex] in Hl; try contradiction; cbn [items vitems app].
    + apply wf_word; [apply show_Z_tok; exact Hl|reflexivity|assumption..].
    + apply wf_word; [apply wf_true|reflexivity|assumption..].
    + apply wf_word; [apply wf_false|reflexivity|assumption..].
    + cbn [LexProofs.wf_items LexProofs.wf_tok]. repeat split; [exact Hl|exact Hs|discriminate|discriminate|exact Hr].
    + apply wf_open. rewrite <- app_assoc. apply wf_sepitems.
      * apply Forall_forall. intros x Hx. apply in_map_iff in Hx. destruct Hx as (z & <- & Hz). apply show_Z_tok. rewrite Forall_forall in Hl. apply Hl. exact Hz.
      * apply Forall_forall. intros x Hx. apply in_map_iff in Hx. destruct Hx as (z & <- & _). reflexivity.
      * eexists _, _. reflexivity.
      * cbn [app]. apply wf_close; assumption.
    + apply wf_open. rewrite <- app_assoc. apply wf_sepitems.
      * apply Forall_forall. intros x Hx. apply in_map_iff in Hx. destruct Hx as (z & <- & Hz). cbn [LexProofs.wf_tok]. rewrite Forall_forall in Hl. apply Hl. exact Hz.
      * apply Forall_forall. intros x Hx. apply in_map_iff in Hx. destruct Hx as (z & <- & _). reflexivity.
      * eexists _, _. reflexivity.
      * cbn [app]. apply wf_close; assumption.
  - cbn [items app]. apply wf_word; [assumption|reflexivity|assumption..].
  - apply lexable_op in Hl. destruct Hl as [Hname Hcs]. rewrite items_op. cbn [app]. rewrite <- app_assoc. cbn [app].
    assert (HL : forall r, closes r -> wf_items false r -> wf_items false (items_list cs depth ++ r)).
    { clear Hname name fast. induction IH as [|c cs' Hc _ IHl]; intros r Hcl Hwr; [exact Hwr|]. inversion Hcs; subst.
      cbn [items_list]. rewrite <- app_assoc. destruct (all_space_next_lead depth cs') as [A1 A2]. apply Hc; [assumption|exact A1| |apply IHl; assumption].
      intros E. rewrite (A2 E). cbn [items_list app]. apply closes_stops. exact Hcl. }
    apply wf_open. destruct (all_space_next_lead depth cs) as [A1 A2]. apply wf_word; [exact Hname|reflexivity|exact A1| |].
    + intros E. rewrite (A2 E). reflexivity.
    + apply HL; [eexists _, _; reflexivity|apply wf_close; assumption].
  - destruct Hl as (Ha & Hb & Hd). cbn [items app]. rewrite <- !app_assoc. cbn [app].
    destruct (all_space_lead depth (show a (S depth))) as [La1 La2].
    destruct (all_space_lead depth (show b (S depth))) as [Lb1 Lb2].
    destruct (all_space_lead depth (show d (S depth))) as [Ld1 Ld2].
    apply wf_open. apply wf_word; [apply wf_if|reflexivity|exact La1|intros E; contradiction|].
    apply IHa; [assumption|exact Lb1|intros E; contradiction|].
    apply IHb; [assumption|exact Ld1|intros E; contradiction|].
    apply IHd; [assumption|constructor|intros _; reflexivity|]. apply wf_close; assumption.
Qed.

(* ---------- Dump's output, read back by the whole front end ---------- *)

Theorem dump_roundtrip c t : twf c t -> lexable t -> is_leaf t = false ->
  match dump (compile t) with Some s => parse_source c false s | None => None end = Some (strip t).
Proof.
  intros Hw Hl Hleaf. rewrite dump_compile.
  pose proof (lexable_printable t Hl) as Hp.
  pose proof (render_items t Hp 0%nat []) as R. rewrite app_nil_r in R. rewrite <- R.
  apply (SourceProofs.prefix_source c show_Z parse_show_Z (items t 0 []) t).
  - pose proof (wf_items_tree t Hl 0%nat [] [] (Forall_nil _) (fun _ => I) I) as W. rewrite app_nil_r in W. exact W.
  - rewrite (items_tokens t Hp). apply ttoks_nocomment.
  - exact Hw.
  - exact Hleaf.
Qed.

Print Assumptions dump_roundtrip.

(* dumping the recompiled, unoptimised program reproduces the text exactly *)
Lemma show_strip : forall t depth, show (strip t) depth = show t depth.
Proof.
  induction t as [v|n k|name fast cs IH|a b d IHa IHb IHd] using tree_ind2; intros depth; try reflexivity.
  - assert (E : map (fun c => piece depth (show c (S depth))) (map strip cs) = map (fun c => piece depth (show c (S depth))) cs).
    { rewrite map_map. induction IH as [|c cs' Hc _ IHl]; [reflexivity|]. cbn [map]. rewrite Hc, IHl. reflexivity. }
    cbn [strip show]. rewrite E. destruct cs; reflexivity.
  - cbn [strip show]. rewrite IHa, IHb, IHd. reflexivity.
Qed.

Theorem second_dump t : dump (compile (strip t)) = dump (compile t).
Proof. rewrite !dump_compile, show_strip. reflexivity. Qed.
