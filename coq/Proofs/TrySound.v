(* TrySound.v — C04: a definite TryEval answer is never contradicted.
   try_sound: by Eval under any completion of the unavailable variables;
   try_mono:  by TryEval with more variables available. *)
Require Import Base Opcode Tables Ops Tree Opt Flat Run OpsArith OpsList SemFacts CompFacts TryFacts EvalCorrect.
From Coq Require Import ZifyBool.
Open Scope Z_scope.
Open Scope list_scope.

Definition rel (a b : value) : Prop := a = VDNE \/ a = b.

Lemma rel_refl a : rel a a. Proof. right. reflexivity. Qed.

Lemma tmatches_some d v : tmatches (Some d) v = true -> v = VBool d.
Proof. destruct d, v as [| [] | | | | | | | |]; cbn; congruence. Qed.
Lemma tmatches_none v : tmatches None v = true -> v = VDNE.
Proof. destruct v; cbn; congruence. Qed.
Lemma tmatches_bool d : tmatches (Some d) (VBool d) = true.
Proof. destruct d; reflexivity. Qed.

Lemma rel_no_dne l1 l2 : Forall2 rel l1 l2 -> existsb is_dne l1 = false -> l1 = l2.
Proof.
  induction 1 as [|a b l1 l2 Hab _ IH]; intros H; [reflexivity|]. cbn [existsb] in H. apply orb_false_iff in H. destruct H as [Ha Hl].
  f_equal; [|apply IH; exact Hl]. destruct Hab as [-> | ->]; [discriminate|reflexivity].
Qed.

Lemma rel_exists_bool l1 l2 d : Forall2 rel l1 l2 ->
  existsb (fun v => value_eqb v (VBool d)) l1 = true -> existsb (fun v => value_eqb v (VBool d)) l2 = true.
Proof.
  induction 1 as [|a b l1 l2 Hab _ IH]; intros H; [discriminate|]. cbn [existsb] in *. apply orb_true_iff in H. destruct H as [Ha|Hl].
  - destruct Hab as [-> | ->]; [discriminate|]. rewrite Ha. reflexivity.
  - rewrite (IH Hl). apply orb_true_r.
Qed.

Lemma Forall2_rev {A B} (R : A -> B -> Prop) l1 l2 : Forall2 R l1 l2 -> Forall2 R (rev l1) (rev l2).
Proof. induction 1; cbn; [constructor|]. apply Forall2_app; [assumption|repeat constructor; assumption]. Qed.

Section S.
  Variable custom : str -> list value -> res value.
  Notation apply_op := (apply_op custom).
  Notation comb := (comb custom).

  Lemma comb_some name d vs : op_kind name = Some d ->
    comb name vs = if existsb (fun v => value_eqb v (VBool d)) vs then Ok (VBool d)
                   else if existsb is_dne vs then Ok VDNE else apply_op name vs.
  Proof.
    intros Hk. unfold TryFacts.comb. rewrite Hk. destruct d.
    - rewrite <- existsb_eq_true. reflexivity.
    - rewrite <- existsb_eq_false. reflexivity.
  Qed.
  Lemma comb_none name vs : op_kind name = None ->
    comb name vs = if existsb is_dne vs then Ok VDNE else apply_op name vs.
  Proof. intros Hk. unfold TryFacts.comb. rewrite Hk. reflexivity. Qed.

  (* Kleene combination of less informed operands vs the operator applied to the informed ones *)
  Lemma comb_apply_rel name l1 l2 v v' : Forall2 rel l1 l2 ->
    comb name l1 = Ok v -> apply_op name l2 = Ok v' -> rel v v'.
  Proof.
    intros HR Hc Ha. destruct (op_kind name) as [d|] eqn:Hk.
    - rewrite (comb_some _ _ _ Hk) in Hc. destruct (existsb (fun v => value_eqb v (VBool d)) l1) eqn:E1.
      + inversion Hc; subst. right. rewrite (boolop_result custom _ _ _ _ Hk Ha), (rel_exists_bool _ _ _ HR E1). reflexivity.
      + destruct (existsb is_dne l1) eqn:E2; [inversion Hc; left; reflexivity|].
        rewrite (rel_no_dne _ _ HR E2) in Hc. right. congruence.
    - rewrite (comb_none _ _ Hk) in Hc. destruct (existsb is_dne l1) eqn:E2; [inversion Hc; left; reflexivity|].
      rewrite (rel_no_dne _ _ HR E2) in Hc. right. congruence.
  Qed.

  Lemma comb_rel name l1 l2 v v' : Forall2 rel l1 l2 -> comb name l1 = Ok v -> comb name l2 = Ok v' -> rel v v'.
  Proof.
    intros HR H1 H2. destruct (op_kind name) as [d|] eqn:Hk.
    - rewrite (comb_some _ _ l1 Hk) in H1. rewrite (comb_some _ _ l2 Hk) in H2. destruct (existsb (fun v => value_eqb v (VBool d)) l1) eqn:E1.
      + rewrite (rel_exists_bool _ _ _ HR E1) in H2. right. congruence.
      + destruct (existsb is_dne l1) eqn:E2; [inversion H1; left; reflexivity|].
        rewrite <- (rel_no_dne _ _ HR E2) in H2. rewrite E1, E2 in H2. right. congruence.
    - rewrite (comb_none _ l1 Hk) in H1. rewrite (comb_none _ l2 Hk) in H2. destruct (existsb is_dne l1) eqn:E2; [inversion H1; left; reflexivity|].
      rewrite <- (rel_no_dne _ _ HR E2) in H2. rewrite E2 in H2. right. congruence.
  Qed.

  Variable fetch : str -> Z -> res value.
  Variable cached : str -> Z -> bool.
  Notation trysem := (trysem fetch custom cached).
  Notation trysem_args := (trysem_args fetch custom cached).

  (* once an unknown operand has been passed, an and/or can only come out unknown or as its deciding value *)
  Lemma diverged name d : op_kind name = Some d -> forall cs acc v,
    existsb is_dne acc = true -> snd (trysem_args name cs acc) = Ok v -> v = VDNE \/ v = VBool d.
  Proof.
    intros Hk. induction cs as [|c cs IH]; intros acc v Hd H; cbn [Tree.trysem_args] in H.
    - rewrite proxy_comb, (comb_some _ _ _ Hk) in H.
      destruct (existsb _ (rev acc)); [inversion H; auto|].
      assert (E : existsb is_dne (rev acc) = true).
      { apply existsb_exists in Hd. destruct Hd as [x [Hx Hdx]]. apply existsb_exists. exists x. split; [apply in_rev in Hx|exact Hdx]. rewrite <- in_rev. apply in_rev. exact Hx. }
      rewrite E in H. inversion H; auto.
    - destruct (trysem c) as [tr [vc|e]]; [|discriminate]. rewrite Hk in H.
      destruct (tmatches (Some d) vc) eqn:Hm.
      + cbn [snd] in H. inversion H; subst. right. apply tmatches_some. exact Hm.
      + unfold preR in H. cbn [snd] in H. apply (IH (vc :: acc) v); [cbn [existsb]; rewrite Hd; apply orb_true_r|exact H].
  Qed.

  (* ================= soundness against Eval under a completion ================= *)
  Section Sound.
    Variable fetch' : str -> Z -> res value.
    Hypothesis agree : forall n k, cached n k = true -> fetch' n k = fetch n k.
    Notation sem' := (sem fetch' custom).
    Notation sem_args' := (sem_args fetch' custom).

    Definition sound_at (t : tree) : Prop :=
      forall v v', snd (trysem t) = Ok v -> snd (sem' t) = Ok v' -> rel v v'.

    Lemma leaf_sound t : is_leaf t = true -> forall v v',
      snd (tleaf_val fetch cached t) = Ok v -> snd (leaf_val fetch' t) = Ok v' -> rel v v'.
    Proof.
      destruct t as [c|n k| |]; try discriminate; intros _ v v' H1 H2; cbn in *.
      - right. congruence.
      - destruct (cached n k) eqn:Ec; cbn in H1; [rewrite (agree _ _ Ec) in H2; right; congruence|inversion H1; left; reflexivity].
    Qed.

    Lemma args_sound name : forall cs, Forall sound_at cs -> forall acc_t acc_e v v',
      Forall2 rel acc_t acc_e ->
      Forall (fun a => tmatches (op_kind name) a = false) acc_t ->
      snd (trysem_args name cs acc_t) = Ok v -> snd (sem_args' name cs acc_e) = Ok v' -> rel v v'.
    Proof.
      induction 1 as [|c cs' Hc _ IH]; intros acc_t acc_e v v' HR Hns Ht He.
      - cbn [Tree.trysem_args Tree.sem_args] in *. rewrite proxy_comb in Ht. cbn [snd] in He.
        eapply comb_apply_rel; [apply Forall2_rev; exact HR|exact Ht|exact He].
      - cbn [Tree.trysem_args Tree.sem_args] in Ht, He.
        destruct (trysem c) as [trt [vt|et]] eqn:Et; [|discriminate].
        destruct (sem' c) as [tre [ve|ee]] eqn:Ee; [|discriminate].
        assert (Hrel : rel vt ve) by (apply Hc; [rewrite Et|rewrite Ee]; reflexivity).
        cbv zeta in He.
        set (lastc := match cs' with [] => can_be_last c && (2 <=? lenZ (c :: cs') + lenZ acc_e) | _ :: _ => false end) in *.
        destruct (tmatches (op_kind name) vt) eqn:Hm.
        + (* TryEval stops here *)
          cbn [snd] in Ht. inversion Ht; subst v. destruct (op_kind name) as [d|] eqn:Hk.
          * apply tmatches_some in Hm. subst vt. destruct Hrel as [Hx|<-]; [discriminate|].
            cbn [operand_result] in He. rewrite Bool.eqb_reflx in He. cbn [orb snd] in He. right. congruence.
          * apply tmatches_none in Hm. left. exact Hm.
        + unfold preR in Ht. cbn [snd] in Ht.
          destruct (operand_result (op_kind name) lastc ve) eqn:Hor.
          * (* Eval's operator is decided here (deciding operand, or boolean last operand) *)
            cbn [snd] in He. inversion He; subst v'.
            destruct (op_kind name) as [d|] eqn:Hk; [|discriminate].
            destruct ve as [z|b|s|li|ls|si|ss'| | |o]; try discriminate. cbn [operand_result] in Hor.
            destruct Hrel as [-> | ->].
            -- (* the operand was unknown to TryEval *)
               destruct (Bool.eqb b d) eqn:Ebd.
               ++ apply Bool.eqb_prop in Ebd. subst b.
                  destruct (diverged name d Hk cs' (VDNE :: acc_t) v eq_refl Ht) as [-> | ->]; [left|right]; reflexivity.
               ++ cbn [orb] in Hor. unfold lastc in Hor. destruct cs' as [|c2 cs'']; [|discriminate].
                  cbn [Tree.trysem_args] in Ht. rewrite proxy_comb, (comb_some _ _ _ Hk) in Ht. cbn [rev] in Ht.
                  rewrite existsb_app in Ht. cbn [existsb value_eqb orb] in Ht.
                  assert (Hno : existsb (fun v0 => value_eqb v0 (VBool d)) (rev acc_t) = false).
                  { apply not_true_is_false. intros Hex. apply existsb_exists in Hex. destruct Hex as [x [Hx Hxd]].
                    apply in_rev in Hx. rewrite Forall_forall in Hns. specialize (Hns x Hx).
                    destruct x as [| bb | | | | | | | |]; try discriminate. cbn in Hxd. apply Bool.eqb_prop in Hxd. subst bb.
                    rewrite tmatches_bool in Hns. discriminate. }
                  rewrite Hno in Ht. cbn [orb] in Ht. rewrite existsb_app in Ht. cbn [existsb is_dne] in Ht. rewrite orb_true_r in Ht.
                  inversion Ht. left. reflexivity.
            -- (* known and equal: not deciding, so it is the boolean last operand *)
               assert (Ebd : Bool.eqb b d = false).
               { destruct (Bool.eqb b d) eqn:E; [|reflexivity]. apply Bool.eqb_prop in E. subst b. rewrite tmatches_bool in Hm. discriminate. }
               rewrite Ebd in Hor. cbn [orb] in Hor. unfold lastc in Hor. destruct cs' as [|c2 cs'']; [|discriminate].
               cbn [Tree.trysem_args] in Ht. rewrite proxy_comb, (comb_some _ _ _ Hk) in Ht. cbn [rev] in Ht.
               assert (Hno : existsb (fun v0 => value_eqb v0 (VBool d)) (rev acc_t ++ [VBool b]) = false).
               { rewrite existsb_app. cbn [existsb value_eqb]. rewrite Ebd. cbn [orb]. rewrite orb_false_r.
                 apply not_true_is_false. intros Hex. apply existsb_exists in Hex. destruct Hex as [x [Hx Hxd]].
                 apply in_rev in Hx. rewrite Forall_forall in Hns. specialize (Hns x Hx).
                 destruct x as [| bb | | | | | | | |]; try discriminate. cbn in Hxd. apply Bool.eqb_prop in Hxd. subst bb.
                 rewrite tmatches_bool in Hns. discriminate. }
               rewrite Hno in Ht. destruct (existsb is_dne (rev acc_t ++ [VBool b])); [inversion Ht; left; reflexivity|].
               right. rewrite (boolop_result custom _ _ _ _ Hk Ht), Hno. f_equal.
               destruct b, d; cbn in *; congruence.
          * (* both continue *)
            unfold pre in He. cbn [snd] in He.
            apply (IH (vt :: acc_t) (ve :: acc_e) v v'); [constructor; assumption|constructor; assumption|exact Ht|exact He].
    Qed.

    Theorem try_sound : forall t, sound_at t.
    Proof.
      induction t as [c|n k|name fast cs IH|c t f IHc IHt IHf] using tree_ind2; intros v v' H1 H2.
      - cbn in *. right. congruence.
      - cbn in *. destruct (cached n k) eqn:Ec; cbn in H1; [rewrite (agree _ _ Ec) in H2; right; congruence|inversion H1; left; reflexivity].
      - destruct (fast_shape fast cs) eqn:Hfs.
        + destruct (fast_shape_inv _ _ Hfs) as (a & b & -> & Ha & Hb & ->).
          rewrite (sem_fast_eq _ _ _ _ _ Hfs) in H2. unfold sem_fast in H2.
          cbn [Tree.trysem] in H1. rewrite Hfs in H1.
          destruct (tleaf_val fetch cached a) as [t1 [va|e1]] eqn:Ea; [|discriminate].
          destruct (tleaf_val fetch cached b) as [t2 [vb|e2]] eqn:Eb; [|discriminate].
          destruct (leaf_val fetch' a) as [s1 [wa|e1]] eqn:Fa; [|discriminate].
          destruct (leaf_val fetch' b) as [s2 [wb|e2]] eqn:Fb; [|discriminate].
          unfold preR in H1. cbn [snd] in H1, H2. rewrite proxy_comb in H1.
          eapply comb_apply_rel; [|exact H1|exact H2].
          constructor; [apply (leaf_sound a Ha); [rewrite Ea|rewrite Fa]; reflexivity|].
          constructor; [apply (leaf_sound b Hb); [rewrite Eb|rewrite Fb]; reflexivity|constructor].
        + rewrite (trysem_op _ _ _ _ _ _ Hfs) in H1. rewrite (sem_op _ _ _ _ _ Hfs) in H2.
          eapply args_sound; [exact IH|constructor|constructor|exact H1|exact H2].
      - cbn [Tree.trysem Tree.sem] in H1, H2.
        destruct (trysem c) as [trt [vc|e]] eqn:Ec; [|discriminate].
        destruct (sem' c) as [tre [wc|e]] eqn:Fc; [|discriminate].
        assert (Hr : rel vc wc) by (apply IHc; [rewrite Ec|rewrite Fc]; reflexivity).
        destruct Hr as [-> | ->]; [inversion H1; left; reflexivity|].
        destruct wc as [z|[]|s|li|ls|si|ss'| | |o]; try discriminate; unfold preR, pre in *; cbn [snd] in *.
        * apply IHt; assumption.
        * apply IHf; assumption.
    Qed.
  End Sound.
End S.

(* ================= monotonicity in the set of available variables ================= *)
Section Mono.
  Variable custom : str -> list value -> res value.
  Variable fetch : str -> Z -> res value.
  Variables cached1 cached2 : str -> Z -> bool.
  Hypothesis more : forall n k, cached1 n k = true -> cached2 n k = true.

  Notation try1 := (trysem fetch custom cached1).
  Notation try2 := (trysem fetch custom cached2).
  Notation args1 := (trysem_args fetch custom cached1).
  Notation args2 := (trysem_args fetch custom cached2).
  Notation comb := (comb custom).

  Definition mono_at (t : tree) : Prop :=
    forall v v', snd (try1 t) = Ok v -> snd (try2 t) = Ok v' -> rel v v'.

  Lemma leaf_mono t : is_leaf t = true -> forall v v',
    snd (tleaf_val fetch cached1 t) = Ok v -> snd (tleaf_val fetch cached2 t) = Ok v' -> rel v v'.
  Proof.
    destruct t as [c|n k| |]; try discriminate; intros _ v v' H1 H2; cbn in *.
    - right. congruence.
    - destruct (cached1 n k) eqn:Ec; cbn in H1; [|inversion H1; left; reflexivity].
      rewrite (more _ _ Ec) in H2. cbn in H2. right. congruence.
  Qed.

  Lemma args_mono name : forall cs, Forall mono_at cs -> forall acc1 acc2 v v',
    Forall2 rel acc1 acc2 ->
    snd (args1 name cs acc1) = Ok v -> snd (args2 name cs acc2) = Ok v' -> rel v v'.
  Proof.
    induction 1 as [|c cs' Hc _ IH]; intros acc1 acc2 v v' HR H1 H2.
    - cbn [Tree.trysem_args] in *. rewrite proxy_comb in H1, H2.
      eapply comb_rel; [apply Forall2_rev; exact HR|exact H1|exact H2].
    - cbn [Tree.trysem_args] in H1, H2.
      destruct (try1 c) as [tr1 [v1|e1]] eqn:E1; [|discriminate].
      destruct (try2 c) as [tr2 [v2|e2]] eqn:E2; [|discriminate].
      assert (Hrel : rel v1 v2) by (apply Hc; [rewrite E1|rewrite E2]; reflexivity).
      destruct (tmatches (op_kind name) v1) eqn:Hm1.
      + cbn [snd] in H1. inversion H1; subst v. destruct (op_kind name) as [d|] eqn:Hk.
        * apply tmatches_some in Hm1. subst v1. destruct Hrel as [Hx|<-]; [discriminate|].
          rewrite tmatches_bool in H2. cbn [snd] in H2. right. congruence.
        * apply tmatches_none in Hm1. left. exact Hm1.
      + unfold preR in H1. cbn [snd] in H1.
        destruct (tmatches (op_kind name) v2) eqn:Hm2.
        * cbn [snd] in H2. inversion H2; subst v'. destruct (op_kind name) as [d|] eqn:Hk.
          -- apply tmatches_some in Hm2. subst v2. destruct Hrel as [-> | ->]; [|rewrite tmatches_bool in Hm1; discriminate].
             destruct (diverged custom fetch cached1 name d Hk cs' (VDNE :: acc1) v eq_refl H1) as [-> | ->]; [left|right]; reflexivity.
          -- apply tmatches_none in Hm2. subst v2. destruct Hrel as [-> | ->]; discriminate.
        * unfold preR in H2. cbn [snd] in H2.
          apply (IH (v1 :: acc1) (v2 :: acc2) v v'); [constructor; assumption|exact H1|exact H2].
  Qed.

  Theorem try_mono : forall t, mono_at t.
  Proof.
    induction t as [c|n k|name fast cs IH|c t f IHc IHt IHf] using tree_ind2; intros v v' H1 H2.
    - cbn in *. right. congruence.
    - apply (leaf_mono (TVar n k) eq_refl); assumption.
    - destruct (fast_shape fast cs) eqn:Hfs.
      + destruct (fast_shape_inv _ _ Hfs) as (a & b & -> & Ha & Hb & ->).
        cbn [Tree.trysem] in H1, H2. rewrite Hfs in H1, H2.
        destruct (tleaf_val fetch cached1 a) as [t1 [va|e1]] eqn:Ea; [|discriminate].
        destruct (tleaf_val fetch cached1 b) as [t2 [vb|e2]] eqn:Eb; [|discriminate].
        destruct (tleaf_val fetch cached2 a) as [s1 [wa|e1]] eqn:Fa; [|discriminate].
        destruct (tleaf_val fetch cached2 b) as [s2 [wb|e2]] eqn:Fb; [|discriminate].
        unfold preR in H1, H2. cbn [snd] in H1, H2. rewrite proxy_comb in H1, H2.
        eapply comb_rel; [|exact H1|exact H2].
        constructor; [apply (leaf_mono a Ha); [rewrite Ea|rewrite Fa]; reflexivity|].
        constructor; [apply (leaf_mono b Hb); [rewrite Eb|rewrite Fb]; reflexivity|constructor].
      + rewrite (trysem_op custom fetch cached1 _ _ _ Hfs) in H1. rewrite (trysem_op custom fetch cached2 _ _ _ Hfs) in H2.
        eapply args_mono; [exact IH|constructor|exact H1|exact H2].
    - cbn [Tree.trysem] in H1, H2.
      destruct (try1 c) as [tr1 [vc|e]] eqn:Ec; [|discriminate].
      destruct (try2 c) as [tr2 [wc|e]] eqn:Fc; [|discriminate].
      assert (Hr : rel vc wc) by (apply IHc; [rewrite Ec|rewrite Fc]; reflexivity).
      destruct Hr as [-> | ->]; [inversion H1; left; reflexivity|].
      destruct wc as [z|[]|s|li|ls|si|ss'| | |o]; try discriminate; unfold preR in *; cbn [snd] in *.
      * apply IHt; assumption.
      * apply IHf; assumption.
      * right. congruence.
  Qed.
End Mono.

(* ================= all variables available: a TryEval value is Eval's value ================= *)
Section AllAvailable.
  Variable custom : str -> list value -> res value.
  Variable fetch : str -> Z -> res value.
  Definition all_cached (n : str) (k : Z) : bool := true.

  (* with everything available TryEval never sees DNE from a variable; a value it returns (other than a DNE
     produced by the expression itself) is the value Eval returns whenever Eval succeeds *)
  Theorem try_eval_agree_on_values t v v' :
    snd (trysem fetch custom all_cached t) = Ok v -> snd (sem fetch custom t) = Ok v' -> v = VDNE \/ v = v'.
  Proof. apply (try_sound custom fetch all_cached fetch); reflexivity. Qed.
End AllAvailable.
