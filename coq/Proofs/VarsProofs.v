(* VarsProofs.v — C11: registration never reassigns or duplicates keys; both fetchers return the bound value. *)
Require Import Base Tables Vars OpsList.
From Coq Require Import ZifyBool FinFun.
Open Scope Z_scope.
Open Scope list_scope.

Lemma km_find_app name km1 km2 : km_find name (km1 ++ km2) =
  match km_find name km1 with Some k => Some k | None => km_find name km2 end.
Proof. induction km1 as [|[n k] km1 IH]; cbn [app km_find]; [reflexivity|]. destruct (str_eqb name n); [reflexivity|exact IH]. Qed.

(* existing assignments are never changed; a known name gets its existing key *)
Theorem register_preserves km name : forall n k, km_find n km = Some k -> km_find n (fst (get_or_register km name)) = Some k.
Proof.
  intros n k H. unfold get_or_register. destruct (km_find name km); [exact H|]. cbn [fst]. rewrite km_find_app, H. reflexivity.
Qed.
Theorem register_known km name k : km_find name km = Some k -> get_or_register km name = (km, k).
Proof. intros H. unfold get_or_register. rewrite H. reflexivity. Qed.
Theorem register_returns_assignment km name : km_find name (fst (get_or_register km name)) = Some (snd (get_or_register km name)).
Proof.
  unfold get_or_register. destruct (km_find name km) eqn:E; [exact E|]. cbn [fst snd]. rewrite km_find_app, E. cbn [km_find].
  replace (str_eqb name name) with true by (symmetry; apply list_eqb_N_eq; reflexivity). reflexivity.
Qed.

Lemma first_free_spec keys : forall fuel from i, first_free keys from fuel = Some i ->
  from <= i < from + Z.of_nat fuel /\ ~ In i keys.
Proof.
  induction fuel as [|f IH]; intros from i H; cbn [first_free] in H; [discriminate|].
  destruct (mem_Z from keys) eqn:E.
  - destruct (IH _ _ H). split; [lia|assumption].
  - inversion H; subst. split; [lia|]. intros Hin. apply mem_Z_In in Hin. congruence.
Qed.

Lemma first_free_none keys : forall fuel from, first_free keys from fuel = None ->
  forall i, from <= i < from + Z.of_nat fuel -> In i keys.
Proof.
  induction fuel as [|f IH]; intros from H i Hi; [lia|]. cbn [first_free] in H.
  destruct (mem_Z from keys) eqn:E; [|discriminate].
  destruct (Z.eq_dec i from) as [->|Hne]; [apply mem_Z_In; exact E|]. apply (IH _ H). lia.
Qed.

Lemma seqZ_nodup n : forall from, NoDup (map (fun i => from + Z.of_nat i) (seq 0 n)).
Proof.
  intros from. apply Injective_map_NoDup; [|apply seq_NoDup]. intros a b H. lia.
Qed.

(* the new key is not in use: the first free one of 1..size, or size+1 by a counting argument *)
Theorem register_fresh km name : injective km -> km_find name km = None ->
  ~ In (snd (get_or_register km name)) (km_keys km).
Proof.
  intros Hinj Hn. unfold get_or_register. rewrite Hn. cbn [snd].
  destruct (first_free (km_keys km) 1 (length km)) as [i|] eqn:E.
  - apply first_free_spec in E. tauto.
  - (* every i in 1..size is a key; the size keys are distinct; so the keys are exactly 1..size *)
    pose proof (first_free_none _ _ _ E) as Hall.
    set (range := map (fun i => 1 + Z.of_nat i) (seq 0 (length km))).
    assert (Hincl : incl range (km_keys km)).
    { intros x Hx. unfold range in Hx. apply in_map_iff in Hx. destruct Hx as [j [<- Hj]]. apply in_seq in Hj. apply Hall. lia. }
    assert (Hback : incl (km_keys km) range).
    { apply NoDup_length_incl; [apply seqZ_nodup| |exact Hincl].
      unfold range, km_keys. rewrite !map_length, seq_length. lia. }
    intros Hin. apply Hback in Hin. unfold range in Hin. apply in_map_iff in Hin. destruct Hin as [j [Hj Hjs]].
    apply in_seq in Hjs. unfold lenZ in Hj. lia.
Qed.

Lemma NoDup_snoc {A} (l : list A) x : NoDup l -> ~ In x l -> NoDup (l ++ [x]).
Proof.
  induction l as [|a l IH]; intros Hn Hx; cbn [app]; [constructor; [intros []|constructor]|].
  inversion Hn; subst. constructor.
  - intros Hin. apply in_app_or in Hin. destruct Hin as [Hin|[->|[]]]; [contradiction|]. apply Hx. left. reflexivity.
  - apply IH; [assumption|]. intros Hin. apply Hx. right. exact Hin.
Qed.

Theorem register_injective km name : injective km -> injective (fst (get_or_register km name)).
Proof.
  intros Hinj. unfold get_or_register. destruct (km_find name km) eqn:E; [exact Hinj|]. cbn [fst].
  unfold injective, km_keys. rewrite map_app. cbn [map snd]. apply NoDup_snoc; [exact Hinj|].
  pose proof (register_fresh km name Hinj E) as Hf. unfold get_or_register in Hf. rewrite E in Hf. exact Hf.
Qed.

Lemma km_find_none_notin name km : km_find name km = None -> ~ In name (map fst km).
Proof.
  induction km as [|[n k] km IH]; cbn [km_find map fst]; [intros _ []|].
  destruct (str_eqb name n) eqn:E; [discriminate|]. intros H [->|Hin]; [|apply IH; assumption].
  assert (str_eqb name name = true) by (apply list_eqb_N_eq; reflexivity). congruence.
Qed.

Theorem register_names_distinct km name : names_distinct km -> names_distinct (fst (get_or_register km name)).
Proof.
  intros Hd. unfold get_or_register. destruct (km_find name km) eqn:E; [exact Hd|]. cbn [fst].
  unfold names_distinct. rewrite map_app. cbn [map fst]. apply NoDup_snoc; [exact Hd|apply km_find_none_notin; exact E].
Qed.

(* the new key is between 1 and size+1: inside the int16 range while the map has fewer than 32767 entries *)
Theorem register_key_range km name : km_find name km = None ->
  1 <= snd (get_or_register km name) <= lenZ km + 1.
Proof.
  intros Hn. unfold get_or_register. rewrite Hn. cbn [snd].
  destruct (first_free (km_keys km) 1 (length km)) as [i|] eqn:E; [|unfold lenZ; lia].
  apply first_free_spec in E. unfold lenZ. lia.
Qed.

(* every registration history, from any injective pre-populated map *)
Definition reg_step (st : keymap * list Z) (n : str) : keymap * list Z :=
  let r := get_or_register (fst st) n in (fst r, snd st ++ [snd r]).

Lemma history_aux names : forall st, injective (fst st) -> names_distinct (fst st) ->
  injective (fst (fold_left reg_step names st)) /\ names_distinct (fst (fold_left reg_step names st)) /\
  (forall n k, km_find n (fst st) = Some k -> km_find n (fst (fold_left reg_step names st)) = Some k).
Proof.
  induction names as [|nm names IH]; intros st Hi Hd; cbn [fold_left].
  - auto.
  - destruct (IH (reg_step st nm)) as (H1 & H2 & H3).
    + unfold reg_step. cbn [fst]. apply register_injective. exact Hi.
    + unfold reg_step. cbn [fst]. apply register_names_distinct. exact Hd.
    + split; [exact H1|]. split; [exact H2|]. intros n k Hk. apply H3. unfold reg_step. cbn [fst]. apply register_preserves. exact Hk.
Qed.

Theorem history_injective names km : injective km -> names_distinct km ->
  injective (fst (register_all km names)) /\ names_distinct (fst (register_all km names)) /\
  (forall n k, km_find n km = Some k -> km_find n (fst (register_all km names)) = Some k).
Proof. intros Hi Hd. apply (history_aux names (km, [])); assumption. Qed.

(* ---------- fetching ---------- *)

Lemma arr_get_slice km b key name g : injective km -> names_distinct km ->
  forall acc, (forall k v, In (k, v) acc -> In k (km_keys km) -> False) ->
  In (name, key) km -> b_find name b = Some g ->
  arr_get key (fold_left (fun arr nk => match b_find (fst nk) b with Some g => (snd nk, unify g) :: arr | None => arr end) km acc) = unify g.
Proof.
  unfold injective, names_distinct, km_keys. induction km as [|[n k] km IH]; intros Hi Hd acc Hacc Hin Hb; [destruct Hin|].
  cbn [map fst snd] in Hi, Hd. inversion Hi as [|? ? Hk Hi']; subst. inversion Hd as [|? ? Hn Hd']; subst.
  cbn [fold_left fst snd]. destruct Hin as [E|Hin].
  - inversion E; subst n k. rewrite Hb.
    (* the entry just written is never overwritten: no later entry has this key *)
    assert (G : forall km' acc', ~ In key (map snd km') -> arr_get key acc' = unify g ->
              arr_get key (fold_left (fun arr nk => match b_find (fst nk) b with Some g => (snd nk, unify g) :: arr | None => arr end) km' acc') = unify g).
    { induction km' as [|[n' k'] km' IH']; intros acc' Hk' Ha; [exact Ha|]. cbn [fold_left fst snd]. apply IH'.
      - intros Hx. apply Hk'. right. exact Hx.
      - destruct (b_find n' b); [|exact Ha]. cbn [arr_get]. replace (key =? k') with false; [exact Ha|].
        symmetry. apply Z.eqb_neq. intros ->. apply Hk'. left. reflexivity. }
    apply G; [exact Hk|]. cbn [arr_get]. rewrite Z.eqb_refl. reflexivity.
  - apply IH; try assumption.
    intros k0 v0 Hin0 Hk0. destruct (b_find n b).
    + destruct Hin0 as [E|Hin0]; [inversion E; subst; contradiction|]. eapply Hacc; [exact Hin0|right; exact Hk0].
    + eapply Hacc; [exact Hin0|right; exact Hk0].
Qed.

Lemma fold_max_ge l : forall d x, In x l -> x <= fold_left Z.max l d.
Proof.
  induction l as [|y l IH]; intros d x H; [destruct H|]. cbn [fold_left]. destruct H as [->|H].
  - assert (forall l d, d <= fold_left Z.max l d) by (clear; induction l; intros; cbn; [lia|]; specialize (IHl (Z.max d a)); lia).
    specialize (H l (Z.max d x)). lia.
  - apply IH. exact H.
Qed.

Lemma km_find_in name km k : km_find name km = Some k -> In (name, k) km.
Proof.
  induction km as [|[n k'] km IH]; cbn [km_find]; [discriminate|]. destruct (str_eqb name n) eqn:E.
  - intros H. inversion H; subst. apply list_eqb_N_eq in E. subst. left. reflexivity.
  - intros H. right. apply IH. exact H.
Qed.

(* a variable evaluates to the normalised value bound to its name, whichever fetcher NewCtxFromVars picks:
   undefined-variable mode (map fetcher by name), keys within 0..255 (slice fetcher), anything else (map fetcher) *)
Theorem fetch_correct undefined km b name key g :
  injective km -> names_distinct km ->
  km_find name km = Some key -> b_find name b = Some g ->
  fget (new_ctx undefined km b) key name = Ok (unify g).
Proof.
  intros Hi Hd Hk Hb. unfold new_ctx. destruct undefined; [cbn [fget]; rewrite Hb; reflexivity|].
  destruct ((key_min km <=? key_max km) && (0 <=? key_min km) && (key_max km <? slice_fetcher_limit)) eqn:E;
    [|cbn [fget]; rewrite Hb; reflexivity].
  cbn [fget]. pose proof (km_find_in _ _ _ Hk) as Hin.
  assert (key <= key_max km).
  { unfold key_max. apply fold_max_ge. unfold km_keys. apply in_map_iff. exists (name, key). split; [reflexivity|exact Hin]. }
  replace (key_max km + 1 <=? key) with false by lia.
  f_equal. unfold slice_of. apply (arr_get_slice km b key name g Hi Hd []); try assumption. intros k v [].
Qed.

(* undefined-variable mode always uses the name *)
Theorem fetch_undefined km b name key g : b_find name b = Some g -> fget (new_ctx true km b) key name = Ok (unify g).
Proof. intros Hb. cbn. rewrite Hb. reflexivity. Qed.

(* unifyType on the listed dynamic types *)
Theorem unify_spec :
  (forall z, unify (GInt z) = VInt z) /\ (forall z, unify (GInt8 z) = VInt z) /\ (forall z, unify (GInt16 z) = VInt z) /\
  (forall z, unify (GInt32 z) = VInt z) /\ (forall z, unify (GUint8 z) = VInt z) /\ (forall z, unify (GUint16 z) = VInt z) /\
  (forall z, unify (GUint32 z) = VInt z) /\
  (forall z, 0 <= z < two63 -> unify (GUint64 z) = VInt z) /\
  (forall z, two63 <= z < two64 -> unify (GUint64 z) = VInt (z - two64)) /\
  (forall l, unify (GInts l) = VIntL l) /\ (forall l, unify (GInt32s l) = VIntL l) /\
  (forall u, unify (GTime u) = VInt u) /\ (forall ns, unify (GDuration ns) = VInt (Z.quot ns 1000000000)).
Proof.
  repeat split; try reflexivity.
  - intros z Hz. cbn [unify]. f_equal. unfold wrap64. unfold two63, two64 in *. rewrite Z.mod_small by lia. lia.
  - intros z Hz. cbn [unify]. f_equal. unfold wrap64. unfold two63, two64 in *.
    replace (z + 9223372036854775808) with ((z - 9223372036854775808) + 1 * 18446744073709551616) by lia.
    rewrite Z.mod_add by lia. rewrite Z.mod_small by lia. lia.
Qed.
