(* LoopOrder.v — C12: the LOOP events of one evaluation report strictly increasing positions. The event node in front
   of the real node at index p reports position p; Eval visits the nodes of the event-mode program in increasing order
   (all short-circuit jumps, the if/fi jumps included, go forward). Same induction as EvalCorrectE, with the
   statement "the positions emitted from here on are strictly increasing and greater than the current index". *)
Require Import Base Opcode Tables Ops Tree Opt Flat FlatE Run CompFacts CompFactsE EvalDefs EvalInv EvalCorrect EvalTop EvalCorrectE EvalTopE.
From Coq Require Import ZifyBool.
Open Scope Z_scope.
Open Scope list_scope.

Fixpoint loops (tr : list obs) : list Z :=
  match tr with
  | [] => []
  | OLoop p _ _ :: tr' => p :: loops tr'
  | _ :: tr' => loops tr'
  end.

Fixpoint incr_from (lo : Z) (l : list Z) : bool :=
  match l with [] => true | p :: l' => (lo <? p) && incr_from p l' end.

(* the LOOP positions of an outcome are strictly increasing and all greater than lo *)
Definition lbb (lo : Z) (x : list obs * mres) : bool := incr_from lo (loops (fst x)).

Lemma loops_app a b : loops (a ++ b) = loops a ++ loops b.
Proof. induction a as [|o a IH]; [reflexivity|]. destruct o; cbn [app loops]; rewrite IH; reflexivity. Qed.

Lemma loops_e2o tr : loops (map e2o tr) = [].
Proof. induction tr as [|e tr IH]; [reflexivity|]. destruct e; cbn [map e2o loops]; exact IH. Qed.

Lemma incr_weaken l : forall lo lo', lo <= lo' -> incr_from lo' l = true -> incr_from lo l = true.
Proof. destruct l as [|p l]; intros lo lo' H1 H2; [reflexivity|]. cbn [incr_from] in *. apply andb_prop in H2. destruct H2 as [A B]. rewrite B. replace (lo <? p) with true by lia. reflexivity. Qed.

Lemma lbb_weaken lo lo' x : lo <= lo' -> lbb lo' x = true -> lbb lo x = true.
Proof. unfold lbb. apply incr_weaken. Qed.

Lemma lbb_preM_quiet lo tr x : loops tr = [] -> lbb lo (preM tr x) = lbb lo x.
Proof. intros H. unfold lbb, preM. cbn [fst]. rewrite loops_app, H. reflexivity. Qed.

Lemma lbb_loop lo p k s x : lbb lo (preM [OLoop p k s] x) = (lo <? p) && lbb p x.
Proof. reflexivity. Qed.

Lemma lbb_quiet lo tr r : loops tr = [] -> lbb lo (tr, r) = true.
Proof. intros H. unfold lbb. cbn [fst]. rewrite H. reflexivity. Qed.

(* the boolean packed into an outcome, to instantiate the `post` parameter of the jump lemma *)
Definition postb (lo : Z) (x : list obs * mres) : list obs * mres := ([], MVal (VBool (lbb lo x))).
Definition KT (v : value) : list obs * mres := ([], MVal (VBool true)).

Lemma postb_true lo x : postb lo x = KT VNil <-> lbb lo x = true.
Proof. unfold postb, KT. split; [intros H; inversion H; reflexivity|intros ->; reflexivity]. Qed.

Section M.
  Variable fetch : str -> Z -> res value.
  Variable custom : str -> list value -> res value.
  Variable P : prog.

  Notation L := (lenZ (nodes P)).
  Notation getn := (getn P).
  Notation run := (run fetch custom P).
  Notation fin := (fin P).
  Notation lastI := (lastI P).
  Notation need := (need P).
  Notation afterD := (afterD P).
  Notation RootInv := (RootInv P).
  Notation AncInv := (AncInv P).
  Notation mk_fin := (EvalCorrect.mk_fin P).
  Notation mk_flags := (EvalCorrect.mk_flags P).
  Notation afterD_unflagged := (EvalCorrect.afterD_unflagged P).
  Notation afterD_cases := (EvalCorrect.afterD_cases P).
  Notation fast_leaf_val := (EvalCorrect.fast_leaf_val fetch P).
  Notation after_afterD := (EvalDefs.after_afterD P).
  Notation run_S := (EvalDefs.run_S fetch custom P).
  Notation need_mono := (EvalDefs.need_mono P).
  Notation AncInv_weaken := (EvalInv.AncInv_weaken P).
  Notation with_event_placed := (EvalCorrectE.with_event_placed P).

  Hypothesis SA : forall i nd, getn i = Some nd -> osTop nd < alloc P.

  Definition mono_stmt (t : tree) : Prop :=
    forall base h inh anc aidx mf mt pidx r a0 stk,
      placed (nodes P) base (map fst (compE lastI t base h inh anc mf mt pidx r)) ->
      0 <= h ->
      (base + Z.of_nat (esize t) = L -> h = 0) ->
      RootInv (base + Z.of_nat (esize t)) h mf mt a0 ->
      AncInv (base + Z.of_nat (esize t)) anc aidx ->
      (fany mf = true -> inh = false -> exists rest, aidx = a0 :: rest) ->
      lenZ stk = h ->
      (forall v f, (need (base + Z.of_nat (esize t)) <= f)%nat ->
                   lbb (base + Z.of_nat (esize t)) (afterD (run f) (base + Z.of_nat (esize t)) mf (fin mt) v stk) = true) ->
      forall f, (need base <= f)%nat -> lbb base (run f base stk) = true.

  Lemma event_run f i pos nd stk : nthZ (nodes P) i = Some (event_node pos nd) ->
    run (S f) i stk = preM [OLoop pos (kind nd) stk] (run f (i + 1) stk).
  Proof.
    intros G. pose proof (nthZ_range _ _ _ G) as R. rewrite run_S. unfold psize. replace (L <=? i) with false by lia.
    unfold Run.getn. rewrite G. reflexivity.
  Qed.

  (* ---------- leaves ---------- *)

  Lemma leaf_mono t : is_leaf t = true -> mono_stmt t.
  Proof.
    intros Hl base h inh anc aidx mf mt pidx r a0 stk Hpl Hh HE RI HA Hai Hs Hroot f Hf.
    destruct t as [v|n k| |]; try discriminate; cbn [compE] in Hpl;
    rewrite <- (app_nil_r (with_event _ _ _)) in Hpl; apply with_event_placed in Hpl; destruct Hpl as (G0 & G1 & _);
    pose proof (nthZ_range _ _ _ G1) as R; cbn [esize] in *;
    (destruct f as [|[|f']]; [unfold EvalDefs.need in Hf; lia|unfold EvalDefs.need in Hf; lia|]);
    rewrite (event_run _ _ _ _ _ G0), lbb_loop; replace (base <? base + 1) with true by lia; cbn [andb];
    rewrite run_S; unfold psize; replace (L <=? base + 1) with false by lia;
    unfold Run.getn; rewrite G1; cbn [kind mk].
    - rewrite after_afterD, mk_flags, mk_fin by reflexivity.
      replace (base + 1 + 1) with (base + Z.of_nat 2) by lia. eapply lbb_weaken; [|apply Hroot; unfold EvalDefs.need in *; lia]. lia.
    - rewrite lbb_preM_quiet by reflexivity. destruct (fetch n k) as [v|e]; [|reflexivity].
      rewrite after_afterD, mk_flags, mk_fin by reflexivity.
      replace (base + 1 + 1) with (base + Z.of_nat 2) by lia. eapply lbb_weaken; [|apply Hroot; unfold EvalDefs.need in *; lia]. lia.
  Qed.

  (* ---------- fast operators ---------- *)

  Lemma fast_mono name a b : fast_shape true [a; b] = true -> mono_stmt (TOp name true [a; b]).
  Proof.
    intros Hfs base h inh anc aidx mf mt pidx r a0 stk Hpl Hh HE RI HA Hai Hs Hroot f Hf.
    destruct (fast_shape_inv _ _ Hfs) as (a' & b' & E & Ha & Hb & _). inversion E; subst a' b'. clear E.
    rewrite compE_fast_unfold in Hpl by exact Hfs. cbv zeta in Hpl.
    apply with_event_placed in Hpl. destruct Hpl as (G0 & G1 & Hpl). cbn [map fst] in Hpl.
    apply placed_cons in Hpl. destruct Hpl as [G2 Hpl]. apply placed_cons in Hpl. destruct Hpl as [G3 _].
    pose proof (nthZ_range _ _ _ G3) as R3.
    rewrite (esize_fast name true [a; b] Hfs) in *.
    destruct f as [|[|f']]; [unfold EvalDefs.need in Hf; lia|unfold EvalDefs.need in Hf; lia|].
    rewrite (event_run _ _ _ _ _ G0), lbb_loop. replace (base <? base + 1) with true by lia. cbn [andb].
    rewrite run_S. unfold psize. replace (L <=? base + 1) with false by lia.
    unfold Run.getn. rewrite G1. cbn [kind mk].
    replace (base + 1 + 1) with (base + 2) by lia. replace (base + 1 + 2) with (base + 2 + 1) by lia. rewrite G2, G3.
    rewrite !fast_leaf_val by assumption.
    destruct (leaf_val fetch a) as [tr1 [va|e1]]; cbn [fst snd]; [|apply lbb_quiet; apply loops_e2o].
    destruct (leaf_val fetch b) as [tr2 [vb|e2]]; cbn [fst snd]; [|apply lbb_quiet; rewrite loops_app, !loops_e2o; reflexivity].
    rewrite lbb_preM_quiet by (rewrite !loops_app, !loops_e2o; reflexivity).
    destruct (apply_named custom name [va; vb]) as [v|e]; [|reflexivity].
    rewrite after_afterD, mk_flags, mk_fin by reflexivity.
    replace (base + 1 + 3) with (base + Z.of_nat 4) by lia. eapply lbb_weaken; [|apply Hroot; unfold EvalDefs.need in *; lia]. lia.
  Qed.

  (* ---------- operators ---------- *)

  Lemma args_mono name n ridx h_p pn mf_p mt_p a0p stk0 (inh : bool) anc aidx pos :
    nthZ (nodes P) (ridx - 1) = Some (event_node pos pn) -> pos = ridx ->
    getn ridx = Some pn -> kind pn = KOp name -> childCnt pn = n ->
    nflags pn = mf_p -> scIdx pn = fin mt_p -> osTop pn = h_p ->
    0 <= h_p -> lenZ stk0 = h_p ->
    RootInv (ridx + 1) h_p mf_p mt_p a0p ->
    (ridx + 1 = L -> h_p = 0) ->
    (forall v f, (need (ridx + 1) <= f)%nat -> lbb (ridx + 1) (afterD (run f) (ridx + 1) mf_p (fin mt_p) v stk0) = true) ->
    AncInv (ridx + 1) anc aidx ->
    (fany mf_p = true -> inh = false -> exists rest, aidx = a0p :: rest) ->
    let anc' := if inh then [] else (mf_p, mt_p) :: anc in
    forall cs, Forall mono_stmt cs ->
    forall acc b f,
      placed (nodes P) b (map fst (compE_args lastI (op_kind name) n ridx anc' cs b (h_p + lenZ acc))) ->
      b + Z.of_nat (esizes cs) = ridx - 1 -> 0 <= b ->
      lenZ acc + lenZ cs = n ->
      (need b <= f)%nat ->
      lbb b (run f b (stk0 ++ rev acc)) = true.
  Proof.
    intros Gev Epos Gp Kp Cp NFp STp OSp Hh Hs0 RIp EndH Hroot HA Hai anc' cs HF. subst pos.
    pose proof (nthZ_range _ _ _ Gp) as Rp.
    assert (HrootP : forall v f, (need (ridx + 1) <= f)%nat ->
              postb (ridx + 1) (afterD (run f) (ridx + 1) mf_p (fin mt_p) v stk0) = KT v).
    { intros v f Hf. unfold postb, KT. rewrite Hroot by exact Hf. reflexivity. }
    induction HF as [|c cs' Hc _ IH]; intros acc b f Hpl Hb Hb0 Hlen Hf.
    - cbn [esizes fold_right] in Hb. replace b with (ridx - 1) in * by lia.
      destruct f as [|[|f']]; [unfold EvalDefs.need in Hf; lia|unfold EvalDefs.need in Hf; lia|].
      rewrite (event_run _ _ _ _ _ Gev), lbb_loop. replace (ridx - 1 <? ridx) with true by lia. cbn [andb].
      replace (ridx - 1 + 1) with ridx by lia.
      rewrite run_S. unfold psize. replace (L <=? ridx) with false by lia.
      rewrite Gp, Kp, Cp.
      assert (Hn : n = lenZ acc) by (unfold lenZ in *; cbn [length] in Hlen; lia).
      rewrite lenZ_app. assert (Hra : lenZ (rev acc) = lenZ acc) by (unfold lenZ; rewrite rev_length; reflexivity).
      rewrite Hra. pose proof (lenZ_nonneg acc).
      replace ((n <? 0) || (lenZ stk0 + lenZ acc <? n)) with false by lia.
      replace (Z.to_nat (lenZ stk0 + lenZ acc - n)) with (length stk0) by (unfold lenZ in *; lia).
      rewrite skipn_app, skipn_all, Nat.sub_diag, firstn_app, firstn_all, Nat.sub_diag. cbn [skipn firstn app].
      rewrite app_nil_r. rewrite lbb_preM_quiet by reflexivity.
      destruct (apply_named custom name (rev acc)) as [v|e]; [|reflexivity].
      rewrite after_afterD, NFp, STp. eapply lbb_weaken; [|apply Hroot; unfold EvalDefs.need in *; lia]. lia.
    - cbn [compE_args] in Hpl. cbv zeta in Hpl. rewrite map_app in Hpl.
      cbn [esizes fold_right] in Hb. fold (esizes cs') in Hb.
      apply placed_app in Hpl. destruct Hpl as [Hpc Hprest].
      unfold lenZ in Hprest at 1. rewrite map_length, compE_length in Hprest.
      set (lastc := match cs' with [] => can_be_last c && (2 <=? n) | _ :: _ => false end) in *.
      set (fl := child_flags (op_kind name) lastc) in *.
      set (tg := if fany fl then climb fl anc' ridx else root_idxE c b) in *.
      pose proof (esize_pos c) as Hsz.
      destruct (child_jump fetch custom P SA ridx h_p pn mf_p mt_p a0p KT stk0 (postb (ridx + 1)) Gp NFp STp OSp Hh Hs0 RIp EndH HrootP
                  (ridx + 1) anc aidx inh fl (b + Z.of_nat (esize c)) (h_p + lenZ acc) HA Hai ltac:(lia) ltac:(lia)
                  ltac:(pose proof (lenZ_nonneg acc); lia)) as [RIc Hjump].
      fold anc' in RIc, Hjump.
      assert (RIc' : RootInv (b + Z.of_nat (esize c)) (h_p + lenZ acc) fl tg ridx).
      { unfold tg. destruct (fany fl) eqn:Hfl; [exact RIc|].
        intros bb Hbb. destruct fl as [[] []], bb; cbn in *; discriminate. }
      assert (Hlenstk : lenZ (stk0 ++ rev acc) = h_p + lenZ acc).
      { rewrite lenZ_app. unfold lenZ. rewrite rev_length. unfold lenZ in Hs0. lia. }
      eapply (Hc b (h_p + lenZ acc) false anc' (ridx :: aidx) fl tg ridx (op_kind name) ridx (stk0 ++ rev acc) Hpc).
      + pose proof (lenZ_nonneg acc). lia.
      + intros E. lia.
      + exact RIc'.
      + unfold anc'. destruct inh; [exact I|].
        cbn [EvalInv.AncInv]. split; [lia|]. split; [exists pn; auto|]. split.
        * intros b' Hb'. destruct (RIp b' Hb') as ((Hr1 & Hr2) & Hiff & _). split; [lia|].
          destruct (Hai ltac:(unfold fany; destruct mf_p as [[] []], b'; cbn in *; congruence) eq_refl) as [rest ->].
          exact Hiff.
        * eapply AncInv_weaken; [|exact HA]. lia.
      + intros _ _. eauto.
      + exact Hlenstk.
      + intros v f0 Hf0.
        assert (NEXT : lbb (b + Z.of_nat (esize c)) (store_next P (run f0) (b + Z.of_nat (esize c)) v (stk0 ++ rev acc)) = true).
        { unfold store_next, push.
          assert (Hal : h_p + lenZ acc < alloc P).
          { destruct (compE_first_os lastI c b (h_p + lenZ acc) false anc' fl tg ridx (op_kind name)) as (nd0 & p0 & rest0 & E0 & Ho).
            rewrite E0 in Hpc. cbn [map fst] in Hpc. apply placed_cons in Hpc. destruct Hpc as [G _]. apply SA in G. lia. }
          rewrite Hlenstk. replace (h_p + lenZ acc <? alloc P) with true by lia.
          replace ((stk0 ++ rev acc) ++ [v]) with (stk0 ++ rev (v :: acc)) by (cbn [rev]; now rewrite app_assoc).
          apply IH.
          - rewrite lenZ_cons. replace (h_p + (lenZ acc + 1)) with (h_p + lenZ acc + 1) by lia. exact Hprest.
          - lia.
          - lia.
          - rewrite lenZ_cons in *. rewrite lenZ_cons in Hlen. lia.
          - exact Hf0. }
        unfold EvalDefs.afterD. destruct v as [z|bb|s|li|ls|si|ss'| | |o]; try exact NEXT.
        destruct (fhas fl bb) eqn:Hbb; [|exact NEXT].
        assert (Hfl : fany fl = true) by (destruct fl as [[] []], bb; cbn in *; congruence).
        unfold tg. rewrite Hfl.
        pose proof (Hjump bb Hbb f0 (rev acc) ltac:(eapply Nat.le_trans; [|exact Hf0]; apply need_mono; lia)) as HJ.
        apply (proj1 (postb_true _ _)) in HJ. eapply lbb_weaken; [|exact HJ]. lia.
      + exact Hf.
  Qed.

  Lemma op_mono name fast cs : fast_shape fast cs = false -> Forall mono_stmt cs -> mono_stmt (TOp name fast cs).
  Proof.
    intros Hfs IH base h inh anc aidx mf mt pidx r a0 stk Hpl Hh HE RI HA Hai Hs Hroot f Hf.
    rewrite compE_op_unfold in Hpl by exact Hfs. rewrite map_app in Hpl.
    set (ridx := base + Z.of_nat (esize (TOp name fast cs)) - 1) in *.
    assert (Hsz : Z.of_nat (esize (TOp name fast cs)) = Z.of_nat (esizes cs) + 2) by (rewrite esize_op by exact Hfs; lia).
    pose proof (placed_app _ _ _ _ Hpl) as [Hpa Hpr].
    unfold lenZ in Hpr at 1. rewrite map_length, compE_args_length in Hpr.
    rewrite <- (app_nil_r (with_event _ _ _)) in Hpr. apply with_event_placed in Hpr. destruct Hpr as (Gev & Gr & _).
    replace (base + Z.of_nat (esizes cs)) with (ridx - 1) in Gev by (unfold ridx; lia).
    replace (base + Z.of_nat (esizes cs) + 1) with ridx in Gr by (unfold ridx; lia).
    replace (base + Z.of_nat (esize (TOp name fast cs))) with (ridx + 1) in * by (unfold ridx; lia).
    pose proof (args_mono name (lenZ cs) ridx h (mk lastI (KOp name) (lenZ cs) mf mt h r) mf mt a0 stk inh anc aidx ridx
                  Gev eq_refl Gr eq_refl eq_refl (mk_flags _ _ _ _ _ _) (mk_fin (KOp name) _ _ _ _ _ eq_refl) eq_refl Hh Hs RI HE Hroot HA Hai cs IH [] base f) as A.
    cbn [rev] in A. rewrite app_nil_r in A. apply A.
    - change (lenZ (@nil value)) with 0. rewrite Z.add_0_r. exact Hpa.
    - unfold ridx. lia.
    - apply placed_bound in Hpl. lia.
    - reflexivity.
    - exact Hf.
  Qed.

  (* ---------- if ---------- *)

  Lemma if_mono c t f : mono_stmt c -> mono_stmt t -> mono_stmt f -> mono_stmt (TIf c t f).
  Proof.
    intros IHc IHt IHf base h inh anc aidx mf mt pidx r a0 stk Hpl Hh HE RI HA Hai Hs Hroot fu Hfu.
    cbn [compE] in Hpl. cbv zeta in Hpl.
    set (ifidx := base + Z.of_nat (esize c) + 1) in *.
    set (tb := ifidx + 1) in *.
    set (fiidx := tb + Z.of_nat (esize t) + 1) in *.
    set (fb := fiidx + 1) in *.
    set (endidx := fb + Z.of_nat (esize f) - 1) in *.
    assert (Hnext : base + Z.of_nat (esize (TIf c t f)) = fb + Z.of_nat (esize f)).
    { cbn [esize]. unfold fb, fiidx, tb, ifidx. lia. }
    rewrite Hnext in *.
    rewrite map_app in Hpl.
    apply placed_app in Hpl. destruct Hpl as [Hpc Hpl]. unfold lenZ in Hpl at 1. rewrite map_length, compE_length in Hpl.
    apply with_event_placed in Hpl. destruct Hpl as (Gife & Gif & Hpl).
    replace (base + Z.of_nat (esize c) + 1) with ifidx in Gif by (unfold ifidx; lia).
    replace (base + Z.of_nat (esize c) + 2) with tb in Hpl by (unfold tb, ifidx; lia).
    rewrite map_app in Hpl.
    apply placed_app in Hpl. destruct Hpl as [Hpt Hpl]. unfold lenZ in Hpl at 1. rewrite map_length, compE_length in Hpl.
    apply with_event_placed in Hpl. destruct Hpl as (Gfie & Gfi & Hpf).
    replace (tb + Z.of_nat (esize t) + 1) with fiidx in Gfi by (unfold fiidx; lia).
    replace (tb + Z.of_nat (esize t) + 2) with fb in Hpf by (unfold fb, fiidx; lia).
    replace (tb + Z.of_nat (esize t)) with (fiidx - 1) in Gfie by (unfold fiidx; lia).
    replace (base + Z.of_nat (esize c)) with (ifidx - 1) in Gife by (unfold ifidx; lia).
    pose proof (nthZ_range _ _ _ Gif) as Rif. pose proof (nthZ_range _ _ _ Gfi) as Rfi.
    pose proof (esize_pos c). pose proof (esize_pos t). pose proof (esize_pos f).
    pose proof (placed_bound _ _ _ Hpc) as [Hb0 _].
    destruct (dec_inherit P (fb + Z.of_nat (esize f)) (fiidx - 1) h mf mt a0 ifidx (root_idxE t tb) RI ltac:(unfold fb; lia) ltac:(unfold fb, fiidx, tb; lia))
      as [RIt Eat].
    destruct (dec_inherit P (fb + Z.of_nat (esize f)) (fb + Z.of_nat (esize f)) h mf mt a0 ifidx (root_idxE f fb) RI ltac:(lia) ltac:(unfold fb, fiidx, tb; lia))
      as [RIf Eaf].
    cbv zeta in RIt, Eat, RIf, Eaf.
    set (inherit := negb (mt =? ifidx)) in *.
    set (mf' := if inherit then mf else fnone) in *.
    assert (Hpush : forall v, push P stk v = Some (stk ++ [v])).
    { intros v. apply (push_ok P SA stk v fiidx _ Gfi). cbn [osTop mk]. exact Hs. }
    eapply (IHc base h false [] [] fnone (root_idxE c base) ifidx None 0 stk Hpc Hh).
    - lia.
    - intros b Hb. destruct b; discriminate.
    - exact I.
    - intros Hfa. discriminate.
    - exact Hs.
    - replace (base + Z.of_nat (esize c)) with (ifidx - 1) by (unfold ifidx; lia). intros v f0 Hf0.
      rewrite (afterD_unflagged _ _ fnone fnone _ 0 v stk eq_refl eq_refl).
      assert (Es : afterD (run f0) (ifidx - 1) fnone 0 v stk = run f0 (ifidx - 1) (stk ++ [v])).
      { rewrite afterD_cases. unfold store_next. rewrite Hpush. destruct v; try reflexivity. cbn [fhas fnone fst snd]. destruct b; reflexivity. }
      rewrite Es. destruct f0 as [|[|f1]]; [unfold EvalDefs.need in Hf0; lia|unfold EvalDefs.need in Hf0; lia|].
      rewrite (event_run _ _ _ _ _ Gife), lbb_loop. replace (ifidx - 1 <? ifidx) with true by lia. cbn [andb].
      replace (ifidx - 1 + 1) with ifidx by lia.
      rewrite run_S. unfold psize. replace (L <=? ifidx) with false by lia.
      unfold Run.getn. rewrite Gif. cbn [kind mk]. rewrite rev_app_distr. cbn [rev app].
      destruct v as [z|[]|s|li|ls|si|ss'| | |o]; try reflexivity.
      + rewrite rev_involutive. fold tb. apply (lbb_weaken ifidx tb); [unfold tb; lia|].
        eapply (IHt tb h true [] [] mf' _ ifidx r a0 stk Hpt Hh).
        * lia.
        * replace (tb + Z.of_nat (esize t)) with (fiidx - 1) by (unfold fiidx; lia). exact RIt.
        * exact I.
        * intros _ Hc. discriminate.
        * exact Hs.
        * replace (tb + Z.of_nat (esize t)) with (fiidx - 1) by (unfold fiidx; lia). intros v f2 Hf2. rewrite Eat.
          destruct f2 as [|[|f3]]; [unfold EvalDefs.need in Hf2; lia|unfold EvalDefs.need in Hf2; lia|].
          assert (Hn3 : (need (fb + Z.of_nat (esize f)) <= f3)%nat) by (unfold EvalDefs.need in *; unfold fb in *; lia).
          assert (Hn2 : (need (fb + Z.of_nat (esize f)) <= S (S f3))%nat) by lia.
          assert (Est : forall v', lbb (fiidx - 1) (store_next P (run (S (S f3))) (fiidx - 1) v' stk) = lbb fiidx (store_next P (run f3) (fb + Z.of_nat (esize f)) v' stk)).
          { intros v'. unfold store_next. rewrite !Hpush. rewrite (event_run _ _ _ _ _ Gfie), lbb_loop. replace (fiidx - 1 <? fiidx) with true by lia. cbn [andb].
            replace (fiidx - 1 + 1) with fiidx by lia.
            rewrite run_S. unfold psize. replace (L <=? fiidx) with false by lia.
            unfold Run.getn. rewrite Gfi. cbn [kind mk osTop scIdx is_cond_kind].
            destruct (stk ++ [v']) eqn:Es'; [destruct stk; discriminate|]. rewrite <- Es'.
            rewrite lenZ_app. change (lenZ [v']) with 1.
            replace ((h + 1 <? 0) || (lenZ stk + 1 <? h + 1)) with false by lia.
            replace (h + 1) with (lenZ (stk ++ [v'])) by (rewrite lenZ_app; change (lenZ [v']) with 1; lia).
            rewrite firstnZ_all. unfold endidx. replace (fb + Z.of_nat (esize f) - 1 + 1) with (fb + Z.of_nat (esize f)) by lia.
            reflexivity. }
          assert (Hun : forall v', (match v' with VBool bb => fhas mf bb | _ => false end) = false ->
                    lbb (fiidx - 1) (store_next P (run (S (S f3))) (fiidx - 1) v' stk) = true).
          { intros v' Hv'. rewrite Est. pose proof (Hroot v' f3 Hn3) as HR. rewrite afterD_cases in HR.
            eapply lbb_weaken; [|destruct v'; try exact HR; rewrite Hv' in HR; exact HR]. unfold fb. lia. }
          rewrite afterD_cases. destruct v as [z|bb|s|li|ls|si|ss'| | |o]; try (apply Hun; reflexivity).
          destruct (fhas mf bb) eqn:Hbb.
          -- pose proof (Hroot (VBool bb) (S (S f3)) Hn2) as HR. rewrite afterD_cases, Hbb in HR.
             eapply lbb_weaken; [|exact HR]. unfold fb. lia.
          -- apply Hun. exact Hbb.
        * unfold EvalDefs.need in *. unfold tb. lia.
      + cbn [osTop mk scIdx is_cond_kind]. rewrite rev_involutive.
        assert (Hlr : lenZ (rev stk) = h) by (unfold lenZ in *; rewrite rev_length; exact Hs).
        replace ((h - 1 + 1 <? 0) || (lenZ (rev stk) <? h - 1 + 1)) with false by lia.
        replace (h - 1 + 1) with (lenZ stk) by lia. rewrite firstnZ_all. fold fb.
        apply (lbb_weaken ifidx fb); [unfold fb, fiidx, tb; lia|].
        eapply (IHf fb h true [] [] mf' _ ifidx r a0 stk Hpf Hh).
        * exact HE.
        * exact RIf.
        * exact I.
        * intros _ Hc. discriminate.
        * exact Hs.
        * intros v f2 Hf2. rewrite Eaf. apply Hroot. exact Hf2.
        * unfold EvalDefs.need in *. unfold fb, fiidx, tb in *. lia.
    - exact Hfu.
  Qed.

  Theorem mono_all : forall t, mono_stmt t.
  Proof.
    induction t as [v|n k|name fast cs IH|c t f IHc IHt IHf] using tree_ind2.
    - apply leaf_mono. reflexivity.
    - apply leaf_mono. reflexivity.
    - destruct (fast_shape fast cs) eqn:Hfs.
      + destruct (fast_shape_inv _ _ Hfs) as (a & b & -> & Ha & Hb & ->). apply fast_mono. exact Hfs.
      + apply op_mono; assumption.
    - apply if_mono; assumption.
  Qed.
End M.

(* ---------- LOOP positions of Eval on the event-mode program ---------- *)

Theorem loops_increasing fetch custom t :
  incr_from 0 (loops (fst (eval fetch custom (compileE t)))) = true.
Proof.
  set (P := compileE t).
  pose proof (mono_all fetch custom P (compileE_alloc t) t 0 0 false [] [] fnone (root_idxE t 0) (-1) None 0 []) as H.
  unfold eval. apply H.
  - exists [], []. split; [|reflexivity]. rewrite app_nil_r. cbn [app].
    unfold lastI. unfold P. rewrite compileE_len. apply compileE_nodes.
  - lia.
  - reflexivity.
  - intros b Hb. destruct b; discriminate.
  - exact I.
  - intros Hc. discriminate.
  - reflexivity.
  - intros v f Hf. rewrite Z.add_0_l.
    rewrite (afterD_unflagged P _ _ fnone fnone _ 0 v [] eq_refl eq_refl).
    assert (E : afterD P (run fetch custom P f) (Z.of_nat (esize t)) fnone 0 v [] = run fetch custom P f (Z.of_nat (esize t)) [v]).
    { unfold afterD, store_next, push. change (lenZ (@nil value)) with 0.
      pose proof (allocE_pos t) as Ha. fold P in Ha. replace (0 <? alloc P) with true by lia.
      destruct v; try reflexivity. destruct b; reflexivity. }
    rewrite E. destruct f as [|f']; [unfold need in Hf; lia|].
    rewrite run_S. unfold psize, P. rewrite compileE_len. replace (Z.of_nat (esize t) <=? Z.of_nat (esize t)) with true by lia.
    reflexivity.
  - unfold need, P. rewrite compileE_len. unfold lenZ. fold P.
    assert (length (nodes P) = esize t) by (unfold P; rewrite compileE_nodes, map_length, compE_length; reflexivity). lia.
Qed.

Print Assumptions loops_increasing.
