(* TryCorrectE.v — C12, TryEval: the model of Expr.TryEval run on the event-mode program computes `trysem`, LOOP events
   being the only additional observations; hence ReportEvent/Debug never change the result of TryEval. *)
Require Import Base Opcode Tables Ops Tree Opt Flat FlatE Run CompFacts CompFactsE TryFacts EvalDefs EvalTop EvalCorrectE EvalTopE TryCorrect.
From Coq Require Import ZifyBool.
Open Scope Z_scope.
Open Scope list_scope.

(* the last node of a subtree's event-mode code is a real node writing the subtree's own slot *)
Lemma compE_last_os last t : forall base h inh anc mf mt pidx r,
  exists front nd p, compE last t base h inh anc mf mt pidx r = front ++ [(nd, p)] /\ osTop nd = h.
Proof.
  induction t as [v|n k|name fast cs IH|c t f IHc IHt IHf] using tree_ind2; intros.
  - cbn [compE with_event]. eexists [_], _, _. split; reflexivity.
  - cbn [compE with_event]. eexists [_], _, _. split; reflexivity.
  - destruct (fast_shape fast cs) eqn:Hf.
    + destruct (fast_shape_inv _ _ Hf) as (a & b & -> & Ha & Hb & ->).
      rewrite compE_fast_unfold by exact Hf. cbv zeta. cbn [with_event app]. eexists [_; _; _], _, _. split; reflexivity.
    + rewrite compE_op_unfold by exact Hf. unfold with_event.
      eexists (_ ++ [_]), _, _. split; [rewrite <- app_assoc; reflexivity|reflexivity].
  - cbn [compE]. cbv zeta.
    match goal with |- context [compE last f ?b ?hh ?i ?an ?f0 ?tg ?pp ?rr] => destruct (IHf b hh i an f0 tg pp rr) as (front & nd & p & E & Ho) end.
    rewrite E. eexists _, nd, p. split; [|exact Ho]. rewrite !app_assoc. reflexivity.
Qed.

Section M.
  Variable fetch : str -> Z -> res value.
  Variable custom : str -> list value -> res value.
  Variable cached : str -> Z -> bool.
  Variable P : prog.

  Notation L := (lenZ (nodes P)).
  Notation getn := (getn P).
  Notation tryrun := (tryrun fetch custom cached P).
  Notation tclimb := (tclimb P).
  Notation lastI := (lastI P).
  Notation need := (need P).
  Notation trysem := (trysem fetch custom cached).
  Notation trysem_args := (trysem_args fetch custom cached).
  Notation afterT := (afterT P).
  Notation climbP := (climbP P).
  Notation tclimb_S := (TryCorrect.tclimb_S P).
  Notation tryrun_S := (TryCorrect.tryrun_S fetch custom cached P).
  Notation tleaf_leaf := (TryCorrect.tleaf_leaf fetch cached P).
  Notation tproxy_proxy := (TryCorrect.tproxy_proxy custom).
  Notation go_afterT := (TryCorrect.go_afterT fetch custom cached P).
  Notation bindT_targs_cons := (TryCorrect.bindT_targs_cons fetch custom cached).
  Notation tcond_cont := (TryCorrect.tcond_cont fetch custom cached).
  Notation bindT_tif := (TryCorrect.bindT_tif fetch custom cached).
  Notation need_mono := (EvalDefs.need_mono P).

  Hypothesis SA : forall i nd, getn i = Some nd -> osTop nd < alloc P.

  Notation store_ok := (TryCorrect.store_ok P).

  Definition sub_tryE (t : tree) : Prop :=
    forall base h inh anc mf mt pidx r KR stk (cb : nat),
      placed (nodes P) base (map fst (compE lastI t base h inh anc mf mt pidx r)) ->
      placedZ (parents P) base (map snd (compE lastI t base h inh anc mf mt pidx r)) ->
      0 <= h -> lenZ stk = h -> (cb + esize t <= length (nodes P))%nat ->
      (forall v cf f x, (cb <= cf)%nat -> (need (base + Z.of_nat (esize t)) <= f)%nat ->
         dl (afterT cf (tryrun f) (base + Z.of_nat (esize t)) r pidx v h (stk ++ x)) = KR v) ->
      forall f, (need base <= f)%nat -> dl (tryrun f base stk) = bindT (trysem t) KR.

  Lemma tevent_step f i pos nd stk : nthZ (nodes P) i = Some (event_node pos nd) ->
    dl (tryrun (S f) i stk) = dl (tryrun f (i + 1) stk).
  Proof.
    intros G. pose proof (nthZ_range _ _ _ G) as R. rewrite tryrun_S. unfold psize. replace (L <=? i) with false by lia.
    unfold Run.getn. rewrite G. cbn [kind event_node]. rewrite dl_preM. cbn [drop_loops filter]. rewrite preM_nil. reflexivity.
  Qed.

  Lemma with_event_placedZ base pos nd pidx rest :
    placedZ (parents P) base (map snd (with_event pos nd pidx ++ rest)) ->
    nthZ (parents P) (base + 1) = Some pidx /\ placedZ (parents P) (base + 2) (map snd rest).
  Proof.
    intros H. unfold with_event in H. cbn [app map snd] in H.
    apply placedZ_cons in H. destruct H as [_ H]. apply placedZ_cons in H. destruct H as [G1 H].
    replace (base + 1 + 1) with (base + 2) in H by lia. auto.
  Qed.

  Notation with_event_placed := (EvalCorrectE.with_event_placed P).

  (* ---------- leaves ---------- *)

  Lemma leaf_tryE t : is_leaf t = true -> sub_tryE t.
  Proof.
    intros Hl base h inh anc mf mt pidx r KR stk cb Hpl Hpp Hh Hs Hcb Hroot f Hf.
    assert (Hsz : esize t = 2%nat) by (destruct t; try discriminate; reflexivity). rewrite Hsz in *.
    assert (Hn1 : (1 <= length (nodes P))%nat) by lia.
    destruct t as [v|n k| |]; try discriminate; cbn [compE] in Hpl, Hpp;
      rewrite <- (app_nil_r (with_event _ _ _)) in Hpl, Hpp;
      apply with_event_placed in Hpl; destruct Hpl as (G0 & G & _); apply with_event_placedZ in Hpp; destruct Hpp as [Gp _];
      pose proof (nthZ_range _ _ _ G) as R;
      (destruct f as [|[|f']]; [unfold EvalDefs.need in Hf; lia|unfold EvalDefs.need in Hf; lia|]);
      rewrite (tevent_step _ _ _ _ _ G0);
      rewrite tryrun_S; unfold psize; replace (L <=? base + 1) with false by lia;
      unfold Run.getn; rewrite G; cbn [kind mk]; cbv zeta.
    - rewrite Hs. rewrite (go_afterT f' (base + 1) _ v h stk r pidx (tflag_mk _ _ _ _ _ _ _) Gp Hn1).
      cbn [Tree.trysem tleaf_val bindT map]. rewrite preM_nil.
      rewrite <- (app_nil_r stk) at 1. replace (base + 1 + 1) with (base + Z.of_nat 2) by lia.
      apply Hroot; [lia|unfold EvalDefs.need in *; lia].
    - cbn [Tree.trysem tleaf_val]. unfold tleaf. cbn [kind mk]. destruct (cached n k).
      + destruct (fetch n k) as [v|e]; cbn [bindT map e2o]; [|reflexivity]. rewrite dl_preM. cbn [drop_loops filter]. f_equal.
        rewrite Hs. rewrite (go_afterT f' (base + 1) _ v h stk r pidx (tflag_mk _ _ _ _ _ _ _) Gp Hn1).
        rewrite <- (app_nil_r stk) at 1. replace (base + 1 + 1) with (base + Z.of_nat 2) by lia.
        apply Hroot; [lia|unfold EvalDefs.need in *; lia].
      + cbn [bindT map]. rewrite !preM_nil.
        rewrite Hs. rewrite (go_afterT f' (base + 1) _ VDNE h stk r pidx (tflag_mk _ _ _ _ _ _ _) Gp Hn1).
        rewrite <- (app_nil_r stk) at 1. replace (base + 1 + 1) with (base + Z.of_nat 2) by lia.
        apply Hroot; [lia|unfold EvalDefs.need in *; lia].
  Qed.
End M.
