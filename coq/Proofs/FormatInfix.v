(* FormatInfix.v — C14, the formatter in EITHER notation, for any input. The lexer is a notation-independent
   segmentation of the text into raw pieces (comments, string literals, delimiters, words) followed by a per-word
   classification, and only the classification knows about notation (the `!ident` split of infix notation). The
   segmentation is itself an instance of the proved prefix lexer: under the letter classification L0 "every word
   character except the double quote is a letter" the prefix lexer accepts every quote-free word as one token whose text
   is the word. So  lex infix s = reclassify infix (lex_{L0} false s)  (lex_factor), the theorems of FormatProofs.v and
   FormatReject.v — stated for every letter/number classification under which the quote is neither — apply to lex_{L0},
   and reclassification commutes with the only change the formatter makes to the token list (a comment ending the text
   loses its trailing white space). Hence, for every string and both notations, formatting changes neither the tokens
   nor the rejection. This covers the glued `!ident` spelling that `wf_items` excludes. *)
Require Import Base Opcode Tables Ops Tree Opt Flat Run Directives Lexer Print OpsList LexProofs FormatProofs FormatReject.
From Coq Require Import ZifyBool.
Open Scope Z_scope.
Open Scope list_scope.

Definition L0 (c : N) : bool := wordc c && negb (c =? 34)%N.
Definition N0 (c : N) : bool := false.

Lemma L0_q : L0 34%N = false. Proof. reflexivity. Qed.
Lemma N0_q : N0 34%N = false. Proof. reflexivity. Qed.

Lemma ident_scan_L0 whole : forall s idx pd last, Forall (fun r => L0 r = true) s -> ident_scan L0 N0 whole s idx pd last = true.
Proof.
  induction s as [|r s IH]; intros idx pd last H; [reflexivity|]. cbn [ident_scan]. inversion H; subst.
  match goal with Hr : L0 r = true |- _ => rewrite Hr end. apply IH. assumption.
Qed.

Lemma notin_cons (c : N) w : ~ In 34%N (c :: w) -> c <> 34%N /\ ~ In 34%N w.
Proof. intros H. split; [intros E; apply H; left; exact E|intros Hin; apply H; right; exact Hin]. Qed.

Lemma L0_all c w : wordc c = true -> Forall (fun c => wordc c = true) w -> ~ In 34%N (c :: w) -> Forall (fun r => L0 r = true) (c :: w).
Proof.
  intros Hc Hw Hn. assert (A : Forall (fun c => wordc c = true) (c :: w)) by (constructor; assumption).
  rewrite Forall_forall in *. intros r Hr. unfold L0. rewrite (A r Hr). cbn [andb]. apply negb_true_iff. apply N.eqb_neq.
  intros ->. exact (Hn Hr).
Qed.

Lemma wordc_not_delims c : wordc c = true -> c <> 40%N /\ c <> 41%N /\ c <> 91%N /\ c <> 93%N /\ c <> 44%N.
Proof. intros Hc. repeat split; intros ->; discriminate. Qed.

(* every quote-free word is one token of the raw lexer *)
Lemma L0_word_accept c w : wordc c = true -> Forall (fun c => wordc c = true) w -> ~ In 34%N (c :: w) ->
  classify L0 N0 false (c :: w) = Some [KInt (c :: w)] \/ classify L0 N0 false (c :: w) = Some [KIdent (c :: w)].
Proof.
  intros Hc Hw Hn. unfold classify. rewrite andb_false_r.
  destruct (wordc_not_delims c Hc) as (N40 & N41 & N91 & N93 & N44).
  change (ss "(") with [40%N]. change (ss ")") with [41%N]. change (ss "[") with [91%N].
  change (ss "]") with [93%N]. change (ss ",") with [44%N].
  rewrite !str_eqb_single' by assumption.
  destruct (valid_int (c :: w)); [left; reflexivity|]. right.
  unfold valid_ident. rewrite ident_scan_L0 by (apply L0_all; assumption). reflexivity.
Qed.

Section R.
  Variable il inn : N -> bool.
  Hypothesis letter_q : il 34%N = false.
  Hypothesis number_q : inn 34%N = false.
  Notation cls := (classify il inn).

  (* the classification of infix notation in terms of the plain one *)
  Lemma classify_true w : cls true w =
    match w with
    | c :: rest => if (c =? 33)%N then
                     if valid_ident il inn w then Some [KIdent w]
                     else if valid_ident il inn rest then Some [KIdent (ss "!"); KIdent rest]
                     else cls false w
                   else cls false w
    | [] => cls false w
    end.
  Proof. unfold classify. destruct w as [|c rest]; [reflexivity|]. rewrite andb_true_r, andb_false_r. reflexivity. Qed.

  (* a word with a double quote in it classifies in neither notation *)
  Lemma classify_quote_any infix c w : wordc c = true -> c <> 34%N -> In 34%N (c :: w) -> cls infix (c :: w) = None.
  Proof.
    intros Hc Hq Hin. pose proof (classify_quote_none il inn letter_q number_q c w Hc Hin) as P.
    destruct infix; [|exact P]. rewrite classify_true. destruct (c =? 33)%N; [|exact P].
    destruct (valid_ident il inn (c :: w)) eqn:V1; [exfalso; exact (valid_ident_noq il inn letter_q number_q _ V1 Hin)|].
    destruct (valid_ident il inn w) eqn:V2; [|exact P]. exfalso. apply (valid_ident_noq il inn letter_q number_q _ V2).
    destruct Hin as [E|Hin]; [exfalso; apply Hq; exact E|exact Hin].
  Qed.

  (* ---------- reclassification of the raw tokens ---------- *)

  Definition recl (infix : bool) (t : tok) : option (list tok) :=
    match t with KInt w | KIdent w => cls infix w | _ => Some [t] end.

  Fixpoint recl_all (infix : bool) (l : list tok) : option (list tok) :=
    match l with
    | [] => Some []
    | t :: l' => match recl infix t with
                 | None => None
                 | Some ts => match recl_all infix l' with Some r => Some (ts ++ r) | None => None end
                 end
    end.

  Lemma recl_all_app infix a b : recl_all infix (a ++ b) =
    match recl_all infix a with
    | None => None
    | Some x => match recl_all infix b with Some y => Some (x ++ y) | None => None end
    end.
  Proof.
    induction a as [|t a IH]; cbn [app recl_all].
    - destruct (recl_all infix b); reflexivity.
    - destruct (recl infix t) as [ts|]; [|reflexivity]. rewrite IH. destruct (recl_all infix a) as [x|]; [|reflexivity].
      destruct (recl_all infix b) as [y|]; [|reflexivity]. rewrite app_assoc. reflexivity.
  Qed.

  (* a word: the raw lexer and the real one fail together, and otherwise the raw token reclassifies to the real ones *)
  Lemma word_step infix c w : wordc c = true -> c <> 34%N -> Forall (fun c => wordc c = true) w ->
    match classify L0 N0 false (c :: w) with
    | None => cls infix (c :: w) = None
    | Some ts0 => exists t0, ts0 = [t0] /\ recl infix t0 = cls infix (c :: w)
    end.
  Proof.
    intros Hc Hq Hw. destruct (in_dec N.eq_dec 34%N (c :: w)) as [Hin|Hn].
    - rewrite (classify_quote_none L0 N0 L0_q N0_q c w Hc Hin). apply classify_quote_any; assumption.
    - destruct (L0_word_accept c w Hc Hw Hn) as [E|E]; rewrite E; eexists; (split; [reflexivity|reflexivity]).
  Qed.

  Lemma delim_step infix c : is_delim c = true -> (c =? 59)%N = false ->
    exists t, classify L0 N0 false [c] = Some [t] /\ cls infix [c] = Some [t] /\ recl infix t = Some [t].
  Proof.
    intros Hd H59. unfold is_delim in Hd. rewrite H59 in Hd.
    assert (Hc : c = 40%N \/ c = 41%N \/ c = 91%N \/ c = 93%N \/ c = 44%N) by lia.
    destruct Hc as [->|[->|[->|[->| ->]]]]; eexists; (split; [reflexivity|split; [destruct infix; reflexivity|reflexivity]]).
  Qed.

  (* ---------- the factorisation ---------- *)

  Theorem lex_factor : forall fuel infix s,
    lex_loop il inn fuel infix s =
    match lex_loop L0 N0 fuel false s with Some raws => recl_all infix raws | None => None end.
  Proof.
    induction fuel as [|f IH]; intros infix s; [reflexivity|]. cbn [Lexer.lex_loop]. unfold Lexer.next_raw.
    destruct (trim_left_head s) as [Et|(c & s' & Et & Hc)]; rewrite Et; [reflexivity|].
    destruct (c =? 59)%N eqn:E59.
    { destruct (take_line (c :: s')) as [a b]. rewrite IH. destruct (lex_loop L0 N0 f false b) as [l|]; [|reflexivity].
      cbn [recl_all recl]. destruct (recl_all infix l); reflexivity. }
    destruct (c =? 34)%N eqn:E34.
    { destruct (take_string s') as [[a b]|]; [|reflexivity]. rewrite IH. destruct (lex_loop L0 N0 f false b) as [l|]; [|reflexivity].
      cbn [recl_all recl]. destruct (recl_all infix l); reflexivity. }
    destruct (is_delim c) eqn:Ed.
    { destruct (delim_step infix c Ed E59) as (t & E1 & E2 & E3). rewrite E1, E2, IH.
      destruct (lex_loop L0 N0 f false s') as [l|]; [|reflexivity]. cbn [app recl_all]. rewrite E3. reflexivity. }
    destruct (take_word (c :: s')) as [a b] eqn:Etw.
    destruct (take_word_split _ _ _ Etw) as (_ & E2 & _).
    assert (Hwc : wordc c = true) by (unfold wordc; rewrite Hc, Ed; reflexivity).
    cbn [take_word] in Etw. rewrite Hc, Ed in Etw. cbn [orb] in Etw. destruct (take_word s') as [w b'] eqn:Etw'. inversion Etw; subst a b'. clear Etw.
    pose proof (Forall_inv_tail E2) as Hw.
    assert (Hq : c <> 34%N) by (apply N.eqb_neq; exact E34).
    pose proof (word_step infix c w Hwc Hq Hw) as WS.
    destruct (classify L0 N0 false (c :: w)) as [ts0|].
    - destruct WS as (t0 & -> & Er). rewrite IH. destruct (lex_loop L0 N0 f false b) as [l|].
      + cbn [app recl_all]. rewrite Er. reflexivity.
      + destruct (cls infix (c :: w)); reflexivity.
    - rewrite WS. reflexivity.
  Qed.

  (* ---------- reclassification and the trimmed last comment ---------- *)

  Lemma classify_last infix w ts : cls infix w = Some ts -> exists ts' t, ts = ts' ++ [t] /\ is_comment t = false.
  Proof.
    assert (P : forall w ts, cls false w = Some ts -> exists ts' t, ts = ts' ++ [t] /\ is_comment t = false).
    { clear w ts. intros w ts H. unfold classify in H.
      assert (Q : (if str_eqb w (ss "(") then Some [KLParen] else if str_eqb w (ss ")") then Some [KRParen]
                   else if str_eqb w (ss "[") then Some [KLBracket] else if str_eqb w (ss "]") then Some [KRBracket]
                   else if str_eqb w (ss ",") then Some [KComma]
                   else if valid_int w then Some [KInt w]
                   else if valid_ident il inn w then Some [KIdent w] else None) = Some ts).
      { destruct w as [|c rest]; [exact H|]. rewrite andb_false_r in H. exact H. }
      clear H. exists [].
      destruct (str_eqb w (ss "(")); [inversion Q; eexists; split; reflexivity|].
      destruct (str_eqb w (ss ")")); [inversion Q; eexists; split; reflexivity|].
      destruct (str_eqb w (ss "[")); [inversion Q; eexists; split; reflexivity|].
      destruct (str_eqb w (ss "]")); [inversion Q; eexists; split; reflexivity|].
      destruct (str_eqb w (ss ",")); [inversion Q; eexists; split; reflexivity|].
      destruct (valid_int w); [inversion Q; eexists; split; reflexivity|].
      destruct (valid_ident il inn w); [inversion Q; eexists; split; reflexivity|discriminate]. }
    destruct infix; [|apply P]. rewrite classify_true. destruct w as [|c rest]; [apply P|].
    destruct (c =? 33)%N; [|apply P].
    destruct (valid_ident il inn (c :: rest)); [intros H; inversion H; exists [], (KIdent (c :: rest)); split; reflexivity|].
    destruct (valid_ident il inn rest); [intros H; inversion H; exists [KIdent (ss "!")], (KIdent rest); split; reflexivity|apply P].
  Qed.

  Lemma recl_last infix t ts : is_comment t = false -> recl infix t = Some ts -> exists ts' u, ts = ts' ++ [u] /\ is_comment u = false.
  Proof.
    destruct t as [s|s|s| | | | | |s]; cbn [recl is_comment]; intros Hc H; try discriminate;
      try (apply (classify_last infix s ts H)); inversion H; eexists [], _; (split; [reflexivity|reflexivity]).
  Qed.

  Lemma trim_last_comment a s : trim_last (a ++ [KComment s]) = a ++ [KComment (rtrim s)].
  Proof. unfold trim_last. rewrite rev_app_distr. cbn [rev app]. rewrite rev_involutive. reflexivity. Qed.

  Lemma trim_last_other a t : is_comment t = false -> trim_last (a ++ [t]) = a ++ [t].
  Proof. intros H. unfold trim_last. rewrite rev_app_distr. cbn [rev app]. destruct t; try reflexivity. discriminate. Qed.

  Lemma recl_trim_last infix raws :
    recl_all infix (trim_last raws) = option_map trim_last (recl_all infix raws).
  Proof.
    assert (D : raws = [] \/ exists a t, raws = a ++ [t]).
    { destruct raws as [|x r]; [left; reflexivity|right]. destruct (@exists_last _ (x :: r) ltac:(discriminate)) as (a & t & E).
      exists a, t. exact E. }
    destruct D as [->|(a & t & ->)]; [reflexivity|].
    destruct (is_comment t) eqn:Hc.
    - destruct t; try discriminate. rewrite trim_last_comment, !recl_all_app. destruct (recl_all infix a) as [x|]; [|reflexivity].
      cbn [recl_all recl app option_map]. rewrite trim_last_comment. reflexivity.
    - rewrite (trim_last_other a t Hc), recl_all_app. destruct (recl_all infix a) as [x|]; [|reflexivity].
      cbn [recl_all]. destruct (recl infix t) as [ts|] eqn:Er; [|reflexivity]. cbn [option_map].
      destruct (recl_last infix t ts Hc Er) as (ts' & u & -> & Hu). rewrite app_nil_r, app_assoc, (trim_last_other _ u Hu). reflexivity.
  Qed.

  (* ---------- the formatter, both notations, any input ---------- *)

  Theorem indent_lex_any infix s :
    lex il inn infix (indent_by_parens s) = option_map trim_last (lex il inn infix s).
  Proof.
    unfold lex. rewrite !lex_factor. fold (lex L0 N0 false (indent_by_parens s)). fold (lex L0 N0 false s).
    destruct (lex L0 N0 false s) as [raws|] eqn:E.
    - rewrite (indent_lexable L0 N0 L0_q N0_q s raws E). apply recl_trim_last.
    - rewrite (indent_rejected L0 N0 L0_q N0_q s E). reflexivity.
  Qed.

  Corollary indent_tokens_any infix s toks : lex il inn infix s = Some toks ->
    lex il inn infix (indent_by_parens s) = Some (trim_last toks).
  Proof. intros H. rewrite indent_lex_any, H. reflexivity. Qed.

  Corollary indent_rejected_any infix s : lex il inn infix s = None -> lex il inn infix (indent_by_parens s) = None.
  Proof. intros H. rewrite indent_lex_any, H. reflexivity. Qed.

  Corollary indent_meaning_any infix s :
    option_map drop_comments (lex il inn infix (indent_by_parens s)) = option_map drop_comments (lex il inn infix s).
  Proof. rewrite indent_lex_any. destruct (lex il inn infix s) as [toks|]; [|reflexivity]. cbn [option_map]. rewrite trim_last_drop. reflexivity. Qed.

  (* the segmentation does not depend on the notation: a source is accepted in infix notation exactly when its raw
     pieces reclassify, and the tokens of the two notations are reclassifications of one raw token list *)
  Corollary lex_two_notations s raws : lex L0 N0 false s = Some raws ->
    lex il inn false s = recl_all false raws /\ lex il inn true s = recl_all true raws.
  Proof. intros H. unfold lex in *. rewrite !lex_factor, H. split; reflexivity. Qed.
  (* ---------- comments ---------- *)

  Lemma classify_nocomment infix w ts : cls infix w = Some ts -> drop_comments ts = ts.
  Proof.
    assert (P : forall w ts, cls false w = Some ts -> drop_comments ts = ts).
    { clear w ts. intros w ts H. unfold classify in H.
      assert (Q : (if str_eqb w (ss "(") then Some [KLParen] else if str_eqb w (ss ")") then Some [KRParen]
                   else if str_eqb w (ss "[") then Some [KLBracket] else if str_eqb w (ss "]") then Some [KRBracket]
                   else if str_eqb w (ss ",") then Some [KComma]
                   else if valid_int w then Some [KInt w]
                   else if valid_ident il inn w then Some [KIdent w] else None) = Some ts).
      { destruct w as [|c rest]; [exact H|]. rewrite andb_false_r in H. exact H. }
      clear H.
      destruct (str_eqb w (ss "(")); [inversion Q; reflexivity|].
      destruct (str_eqb w (ss ")")); [inversion Q; reflexivity|].
      destruct (str_eqb w (ss "[")); [inversion Q; reflexivity|].
      destruct (str_eqb w (ss "]")); [inversion Q; reflexivity|].
      destruct (str_eqb w (ss ",")); [inversion Q; reflexivity|].
      destruct (valid_int w); [inversion Q; reflexivity|].
      destruct (valid_ident il inn w); [inversion Q; reflexivity|discriminate]. }
    destruct infix; [|apply P]. rewrite classify_true. destruct w as [|c rest]; [apply P|].
    destruct (c =? 33)%N; [|apply P].
    destruct (valid_ident il inn (c :: rest)); [intros H; inversion H; reflexivity|].
    destruct (valid_ident il inn rest); [intros H; inversion H; reflexivity|apply P].
  Qed.

  (* dropping the comments commutes with reclassification *)
  Lemma recl_drop infix raws : option_map drop_comments (recl_all infix raws) = recl_all infix (drop_comments raws).
  Proof.
    induction raws as [|t l IH]; [reflexivity|].
    destruct (is_comment t) eqn:Hc.
    - destruct t; try discriminate. change (drop_comments (KComment s :: l)) with (drop_comments l). rewrite <- IH.
      cbn [recl_all recl]. destruct (recl_all infix l) as [r|]; reflexivity.
    - assert (Ed : drop_comments (t :: l) = t :: drop_comments l) by (unfold drop_comments; cbn [filter]; rewrite Hc; reflexivity).
      rewrite Ed. cbn [recl_all]. destruct (recl infix t) as [ts|] eqn:Er; [|reflexivity]. rewrite <- IH.
      destruct (recl_all infix l) as [r|]; [|reflexivity]. cbn [option_map]. rewrite drop_comments_app. f_equal. f_equal.
      destruct t as [w|w|w| | | | | |w]; cbn [recl] in Er; try discriminate;
        try (apply (classify_nocomment infix w ts Er)); inversion Er; reflexivity.
  Qed.

  (* ---------- layout invariance for every accepted source, either notation ---------- *)

  (* every source the lexer accepts - in either notation - is white space followed by a well-formed rendering of its raw
     pieces, and its tokens are the reclassification of those pieces *)
  Theorem lex_accepts_rendering infix s toks : lex il inn infix s = Some toks ->
    exists lead items, s = lead ++ render items /\ all_space lead /\ wf_items L0 N0 false items /\
                       recl_all infix (map fst items) = Some toks.
  Proof.
    intros H. unfold lex in H. rewrite lex_factor in H.
    destruct (lex_loop L0 N0 (S (length s)) false s) as [raws|] eqn:E; [|discriminate].
    destruct (lex_complete L0 N0 _ s raws E) as (lead & items & Es & Hl & Hwf & Em).
    exists lead, items. rewrite Em. repeat split; assumption.
  Qed.

  (* two layouts of the same raw pieces - any white space, empty only where two words would fuse - give the same tokens *)
  Theorem layout_invariance_any infix lead1 lead2 items1 items2 :
    all_space lead1 -> all_space lead2 ->
    wf_items L0 N0 false items1 -> wf_items L0 N0 false items2 -> map fst items1 = map fst items2 ->
    lex il inn infix (lead1 ++ render items1) = lex il inn infix (lead2 ++ render items2).
  Proof.
    intros Hl1 Hl2 H1 H2 E. unfold lex. rewrite !lex_factor.
    rewrite (lex_render L0 N0 false items1 _ lead1 H1 Hl1) by lia.
    rewrite (lex_render L0 N0 false items2 _ lead2 H2 Hl2) by lia.
    rewrite E. reflexivity.
  Qed.

  (* comments anywhere between the raw pieces never change what the parser is given *)
  Theorem layout_invariance_comments_any infix lead1 lead2 items1 items2 :
    all_space lead1 -> all_space lead2 ->
    wf_items L0 N0 false items1 -> wf_items L0 N0 false items2 ->
    drop_comments (map fst items1) = drop_comments (map fst items2) ->
    option_map drop_comments (lex il inn infix (lead1 ++ render items1)) =
    option_map drop_comments (lex il inn infix (lead2 ++ render items2)).
  Proof.
    intros Hl1 Hl2 H1 H2 E. unfold lex. rewrite !lex_factor.
    rewrite (lex_render L0 N0 false items1 _ lead1 H1 Hl1) by lia.
    rewrite (lex_render L0 N0 false items2 _ lead2 H2 Hl2) by lia.
    rewrite !recl_drop, E. reflexivity.
  Qed.
End R.

Print Assumptions indent_lex_any.
Print Assumptions layout_invariance_any.
