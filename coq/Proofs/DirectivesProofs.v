(* DirectivesProofs.v — directives are equivalent to setting the options programmatically (C02/C08). *)
Require Import Base Tables Ops Tree Opt Directives OpsList.
From Coq Require Import ZifyBool.
Open Scope Z_scope.
Open Scope list_scope.

Lemma switch_set opts name b n : switch (set_opt opts name b) n = if String.eqb n name then b else switch opts n.
Proof. unfold switch, set_opt. cbn [assoc_s]. destruct (String.eqb n name); reflexivity. Qed.

(* an ordinary comment changes nothing *)
Theorem ordinary_comment opts cmt : strip_prefix (ss ";;;;") (trim cmt) = None -> apply_comment opts cmt = Some opts.
Proof. intros H. unfold apply_comment. rewrite H. reflexivity. Qed.

(* `optimize : b` sets all four switches *)
Theorem optimize_sets_all opts b n : In n optimizations_order ->
  switch (fold_left (fun o m => set_opt o m b) optimizations_order opts) n = b.
Proof.
  intros H. assert (G : forall l o, (In n l \/ switch o n = b) -> switch (fold_left (fun o m => set_opt o m b) l o) n = b).
  { induction l as [|m l IH]; intros o Hn; cbn [fold_left]; [destruct Hn as [[]|Hn]; exact Hn|].
    apply IH. destruct Hn as [[->|Hn]|Hn]; [right; rewrite switch_set, String.eqb_refl; reflexivity|left; exact Hn|].
    right. rewrite switch_set. destruct (String.eqb n m); [reflexivity|exact Hn]. }
  apply G. left. exact H.
Qed.

(* a single named directive sets exactly that switch *)
Theorem item_sets opts k v b name : parse_bool (trim v) = Some b -> trim k = ss name -> In name optimizations_order ->
  str_eqb (ss name) (ss opt_all_switch) = false ->
  forall item, split 58 item = [k; v] ->
  exists opts', apply_item opts item = Some opts' /\ switch opts' (str_to_string (ss name)) = b /\
                (forall n, n <> str_to_string (ss name) -> switch opts' n = switch opts n).
Proof.
  intros Hb Hk Hin Hall item Hs. unfold apply_item. rewrite Hs, Hb, Hk, Hall.
  replace (existsb (fun n => str_eqb (ss name) (ss n)) optimizations_order) with true.
  - eexists. split; [reflexivity|]. split.
    + rewrite switch_set, String.eqb_refl. reflexivity.
    + intros n Hn. rewrite switch_set. replace (String.eqb n (str_to_string (ss name))) with false; [reflexivity|].
      symmetry. apply String.eqb_neq. exact Hn.
  - symmetry. apply existsb_exists. exists name. split; [exact Hin|apply list_eqb_N_eq; reflexivity].
Qed.

(* the generated option names survive the round trip through str *)
Lemma option_names_roundtrip : forallb (fun n => String.eqb (str_to_string (ss n)) n) (opt_all_switch :: optimizations_order) = true.
Proof. vm_compute. reflexivity. Qed.

(* compiling with directives IS compiling with the switches they denote: the optimiser only reads the switches *)
Theorem optimize_depends_on_switches custom cfg1 cfg2 t :
  (forall n, In n optimizations_order -> pass_on cfg1 n = pass_on cfg2 n) ->
  stateless cfg1 = stateless cfg2 -> registered cfg1 = registered cfg2 -> costs cfg1 = costs cfg2 ->
  optimize custom cfg1 t = optimize custom cfg2 t.
Proof.
  intros Hsw Hs Hr Hc. unfold optimize.
  assert (Hpass : forall n x, run_pass custom cfg1 n x = run_pass custom cfg2 n x).
  { intros n x. unfold run_pass.
    assert (E1 : forall y, cfold custom cfg1 y = cfold custom cfg2 y).
    { assert (Ef : forall name, stateless_fn custom cfg1 name = stateless_fn custom cfg2 name) by (intros; unfold stateless_fn; rewrite Hs, Hr; reflexivity).
      assert (En : forall name fast cs, fold_node custom cfg1 name fast cs = fold_node custom cfg2 name fast cs) by (intros; unfold fold_node; rewrite Ef; reflexivity).
      induction y as [v|nm k|name fast cs IH|c a b IHc IHa IHb] using tree_ind2; try reflexivity.
      - cbn [cfold]. assert (Em : map (cfold custom cfg1) cs = map (cfold custom cfg2) cs) by (induction IH as [|c0 cs0 H0 _ IHl]; cbn [map]; [reflexivity|rewrite H0, IHl; reflexivity]).
        rewrite Em, En. reflexivity.
      - cbn [cfold]. rewrite IHc, IHa, IHb. reflexivity. }
    assert (E2 : forall y, cost cfg1 y = cost cfg2 y).
    { assert (En : forall isv n0, name_cost cfg1 isv n0 = name_cost cfg2 isv n0) by (intros; unfold name_cost; rewrite Hc; reflexivity).
      induction y as [v|nm k|name fast cs IH|c a b IHc IHa IHb] using tree_ind2; cbn [cost]; try reflexivity.
      - rewrite En. reflexivity.
      - rewrite En. f_equal. f_equal. induction IH as [|c0 cs0 H0 _ IHl]; cbn [map]; [reflexivity|rewrite H0, IHl; reflexivity].
      - rewrite IHc, IHa, IHb. reflexivity. }
    destruct (String.eqb n "constant_folding"); [rewrite E1; reflexivity|].
    destruct (String.eqb n "reduce_nesting"); [reflexivity|]. destruct (String.eqb n "fast_evaluation"); [reflexivity|].
    destruct (String.eqb n "reordering"); [|reflexivity]. unfold reorder.
    assert (Es : forall l, sort_by (cost cfg1) l = sort_by (cost cfg2) l).
    { intros l. unfold sort_by. induction l as [|a l IHl]; cbn [fold_right]; [reflexivity|]. rewrite IHl.
      generalize (fold_right (insert_by (cost cfg2)) [] l). induction l0 as [|y l0 IH0]; cbn [insert_by]; [reflexivity|].
      rewrite !E2, IH0. reflexivity. }
    clear -Es. induction x as [v|nm k|name fast cs IH|c a b IHc IHa IHb] using tree_ind2; try reflexivity.
    - cbn [reorder_with]. assert (Em : map (reorder_with (sort_by (cost cfg1))) cs = map (reorder_with (sort_by (cost cfg2))) cs)
        by (induction IH as [|c0 cs0 H0 _ IHl]; cbn [map]; [reflexivity|rewrite H0, IHl; reflexivity]).
      rewrite Em, Es. reflexivity.
    - cbn [reorder_with]. rewrite IHc, IHa, IHb. reflexivity. }
  revert t. generalize (fun n (H : In n optimizations_order) => Hsw n H). generalize optimizations_order as ps.
  induction ps as [|p ps IH]; intros Hp t; cbn [fold_left]; [reflexivity|].
  rewrite (Hp p (or_introl eq_refl)), Hpass. apply IH. intros n Hn. apply Hp. right. exact Hn.
Qed.
