(* Reorder.v — C16: reordering is cost-directed, stable and confined to and/or operands. *)
Require Import Base Opcode Tables Ops Tree Opt OpsList.
From Coq Require Import ZifyBool Permutation.
Open Scope Z_scope.
Open Scope list_scope.

(* ---------- `before`: a occurs before b ---------- *)

Inductive before {A} : list A -> A -> A -> Prop :=
  | bf_here a b l : In b l -> before (a :: l) a b
  | bf_later x a b l : before l a b -> before (x :: l) a b.

Lemma before_in {A} (l : list A) a b : before l a b -> In a l /\ In b l.
Proof. induction 1 as [a b l H | x a b l _ [IH1 IH2]]; cbn; auto. Qed.

Lemma before_app_r {A} (l1 l2 : list A) a b : before l2 a b -> before (l1 ++ l2) a b.
Proof. induction l1; cbn; [auto|]. intros H. apply bf_later. auto. Qed.

Lemma before_app_l {A} (l1 l2 : list A) a b : before l1 a b -> before (l1 ++ l2) a b.
Proof. induction 1; cbn; [apply bf_here; apply in_or_app; auto|apply bf_later; assumption]. Qed.

Lemma before_app_cross {A} (l1 l2 : list A) a b : In a l1 -> In b l2 -> before (l1 ++ l2) a b.
Proof.
  induction l1 as [|x l1 IH]; intros Ha Hb; [destruct Ha|]. destruct Ha as [->|Ha].
  - cbn. apply bf_here. apply in_or_app. auto.
  - cbn. apply bf_later. auto.
Qed.

Lemma before_app_inv {A} (l1 l2 : list A) a b : before (l1 ++ l2) a b ->
  before l1 a b \/ before l2 a b \/ (In a l1 /\ In b l2).
Proof.
  induction l1 as [|x l1 IH]; cbn; intros H; [auto|].
  inversion H as [a' b' l' Hin | x' a' b' l' Hb]; subst.
  - apply in_app_or in Hin. destruct Hin as [Hin|Hin].
    + left. apply bf_here. exact Hin.
    + right. right. split; [left; reflexivity|exact Hin].
  - destruct (IH Hb) as [H1|[H1|[H1 H2]]].
    + left. apply bf_later. exact H1.
    + right. left. exact H1.
    + right. right. split; [right; exact H1|exact H2].
Qed.

(* ---------- the stable insertion sort ---------- *)

Section Sort.
  Variable key : tree -> Z.

  (* insert_by splits the list at the first element whose key is not smaller *)
  Lemma insert_split x l : exists l1 l2, l = l1 ++ l2 /\ insert_by key x l = l1 ++ x :: l2 /\
    Forall (fun y => key y < key x) l1 /\ match l2 with [] => True | y :: _ => key x <= key y end.
  Proof.
    induction l as [|y l IH]; cbn [insert_by].
    - exists [], []. repeat split; constructor.
    - destruct (key y <? key x) eqn:E.
      + destruct IH as (l1 & l2 & -> & -> & H1 & H2). exists (y :: l1), l2. repeat split; [constructor; [lia|exact H1]|exact H2].
      + exists [], (y :: l). repeat split; [constructor|lia].
  Qed.

  Definition sorted (l : list tree) : Prop := forall a b, before l a b -> key a <= key b.

  Lemma sorted_tail x l : sorted (x :: l) -> sorted l.
  Proof. intros H a b Hab. apply H. apply bf_later. exact Hab. Qed.

  Lemma sorted_from l y l' : sorted l -> l = y :: l' -> forall z, In z l' -> key y <= key z.
  Proof. intros H -> z Hz. apply H. apply bf_here. exact Hz. Qed.

  Lemma sort_perm l : Permutation (sort_by key l) l.
  Proof.
    unfold sort_by. induction l as [|x l IH]; cbn [fold_right]; [constructor|].
    destruct (insert_split x (fold_right (insert_by key) [] l)) as (l1 & l2 & E & -> & _ & _).
    rewrite E in IH. rewrite <- IH. symmetry. apply Permutation_middle.
  Qed.

  Lemma sort_sorted l : sorted (sort_by key l).
  Proof.
    unfold sort_by. induction l as [|x l IH]; cbn [fold_right]; [intros a b H; inversion H|].
    destruct (insert_split x (fold_right (insert_by key) [] l)) as (l1 & l2 & E & -> & H1 & H2).
    rewrite E in IH. intros a b Hab.
    apply before_app_inv in Hab. destruct Hab as [Hab|[Hab|[Ha Hb]]].
    - apply IH. apply before_app_l. exact Hab.
    - inversion Hab as [a' b' l' Hin | x' a' b' l' Hbf]; subst.
      + destruct l2 as [|y l2']; [destruct Hin|].
        destruct Hin as [<-|Hin]; [exact H2|].
        assert (key y <= key b) by (apply IH; apply before_app_r; apply bf_here; exact Hin). lia.
      + apply IH. apply before_app_r. exact Hbf.
    - rewrite Forall_forall in H1. specialize (H1 a Ha). destruct Hb as [<-|Hb]; [lia|].
      destruct l2 as [|y l2']; [destruct Hb|].
      assert (key y <= key b).
      { destruct Hb as [<-|Hb]; [lia|]. apply IH. apply before_app_r. apply bf_here. exact Hb. }
      lia.
  Qed.

  (* stability, both directions *)
  Lemma sort_stable l a b : before (sort_by key l) a b -> key a = key b -> before l a b.
  Proof.
    unfold sort_by. revert a b. induction l as [|x l IH]; cbn [fold_right]; intros a b Hab Hk; [inversion Hab|].
    destruct (insert_split x (fold_right (insert_by key) [] l)) as (l1 & l2 & E & E2 & H1 & H2).
    rewrite E2 in Hab. rewrite E in IH.
    apply before_app_inv in Hab. destruct Hab as [Hab|[Hab|[Ha Hb]]].
    - apply bf_later. apply IH; [apply before_app_l; exact Hab|exact Hk].
    - inversion Hab as [a' b' l' Hin | x' a' b' l' Hbf]; subst.
      + apply bf_here. apply (Permutation_in _ (sort_perm l)). unfold sort_by. rewrite E. apply in_or_app. right. exact Hin.
      + apply bf_later. apply IH; [apply before_app_r; exact Hbf|exact Hk].
    - rewrite Forall_forall in H1. specialize (H1 a Ha). destruct Hb as [<-|Hb]; [lia|].
      apply bf_later. apply IH; [apply before_app_cross; assumption|exact Hk].
  Qed.

  Lemma sort_keeps_equal l a b : before l a b -> key a = key b -> before (sort_by key l) a b.
  Proof.
    unfold sort_by. revert a b. induction l as [|x l IH]; cbn [fold_right]; intros a b Hab Hk; [inversion Hab|].
    pose proof (sort_sorted l) as Hs. unfold sort_by in Hs.
    destruct (insert_split x (fold_right (insert_by key) [] l)) as (l1 & l2 & E & -> & H1 & H2).
    rewrite E in IH, Hs. inversion Hab as [a' b' l' Hin | x' a' b' l' Hbf]; subst.
    - (* a = x is inserted before every element whose key is not smaller, b among them *)
      apply (Permutation_in _ (Permutation_sym (sort_perm l))) in Hin. unfold sort_by in Hin. rewrite E in Hin.
      apply in_app_or in Hin. destruct Hin as [Hin|Hin].
      + rewrite Forall_forall in H1. specialize (H1 b Hin). lia.
      + apply before_app_r. apply bf_here. exact Hin.
    - specialize (IH a b Hbf Hk).
      apply before_app_inv in IH. destruct IH as [IH|[IH|[Ha Hb]]].
      + apply before_app_l. exact IH.
      + apply before_app_r. apply bf_later. exact IH.
      + apply before_app_cross; [exact Ha|right; exact Hb].
  Qed.

  Lemma sort_orders l a b : In a l -> In b l -> key a < key b -> before (sort_by key l) a b.
  Proof.
    intros Ha Hb Hk. pose proof (sort_sorted l) as Hs.
    apply (Permutation_in _ (Permutation_sym (sort_perm l))) in Ha. apply (Permutation_in _ (Permutation_sym (sort_perm l))) in Hb.
    revert Ha Hb Hs. generalize (sort_by key l) as s. induction s as [|y s IH]; intros Ha Hb Hs; [destruct Ha|].
    destruct Ha as [->|Ha].
    - destruct Hb as [->|Hb]; [lia|]. apply bf_here. exact Hb.
    - destruct Hb as [->|Hb].
      + assert (key b <= key a) by (apply Hs; apply bf_here; exact Ha). lia.
      + apply bf_later. apply IH; [exact Ha|exact Hb|]. eapply sorted_tail; eauto.
  Qed.
End Sort.

(* ---------- reordering only permutes the operands of and/or ---------- *)

Section Confined.
  Variable sorter : list tree -> list tree.
  Hypothesis sorter_perm : forall l, Permutation (sorter l) l.

  Theorem reorder_op name fast cs :
    exists cs', reorder_with sorter (TOp name fast cs) = TOp name fast cs' /\
                Permutation cs' (map (reorder_with sorter) cs) /\
                (is_boolop name = false -> cs' = map (reorder_with sorter) cs).
  Proof.
    cbn [reorder_with]. destruct (is_boolop name).
    - eexists. split; [reflexivity|]. split; [apply sorter_perm|discriminate].
    - eexists. split; [reflexivity|]. split; [apply Permutation_refl|reflexivity].
  Qed.

  Theorem reorder_if c t f :
    reorder_with sorter (TIf c t f) = TIf (reorder_with sorter c) (reorder_with sorter t) (reorder_with sorter f).
  Proof. reflexivity. Qed.

  Theorem reorder_leaf t : is_leaf t = true -> reorder_with sorter t = t.
  Proof. destruct t; try discriminate; reflexivity. Qed.

  (* the cost of a tree does not depend on the order of and/or operands, so sorting children after their own
     subtrees were reordered uses the costs of the reordered children *)
End Confined.

(* ---------- costs: raising one entry ---------- *)

Definition set_cost (cfg : config) (x : str) (c : Z) : config :=
  {| enabled := enabled cfg; stateless := stateless cfg; registered := registered cfg;
     costs := (x, c) :: costs cfg; events := events cfg |}.

Fixpoint mentions (x : str) (t : tree) : bool :=
  match t with
  | TConst _ => false
  | TVar n _ => str_eqb n x
  | TOp name _ cs => str_eqb name x || existsb (mentions x) cs
  | TIf c t f => mentions x c || mentions x t || mentions x f
  end.

Section Mono.
  Variable cfg : config.
  Variable x : str.
  Hypothesis x_not_default : str_eqb x (ss cost_variable_key) = false /\ str_eqb x (ss cost_operator_key) = false.

  Lemma str_eqb_sym a b : str_eqb a b = str_eqb b a.
  Proof.
    apply eq_true_iff_eq. rewrite !list_eqb_N_eq. split; congruence.
  Qed.

  Lemma name_cost_other c isv n : str_eqb n x = false -> name_cost (set_cost cfg x c) isv n = name_cost cfg isv n.
  Proof.
    intros H. unfold name_cost, set_cost. cbn [costs assoc_str]. rewrite H.
    destruct x_not_default as [H1 H2]. rewrite (str_eqb_sym (ss cost_variable_key)), H1, (str_eqb_sym (ss cost_operator_key)), H2. reflexivity.
  Qed.

  Lemma name_cost_self c isv : name_cost (set_cost cfg x c) isv x = c.
  Proof. unfold name_cost, set_cost. cbn [costs assoc_str]. replace (str_eqb x x) with true by (symmetry; apply list_eqb_N_eq; reflexivity). reflexivity. Qed.

  (* raising the cost of x never lowers a cost, and leaves subtrees not mentioning x alone *)
  Theorem cost_monotone c1 c2 : c1 <= c2 -> forall t,
    cost (set_cost cfg x c1) t <= cost (set_cost cfg x c2) t /\
    (mentions x t = false -> cost (set_cost cfg x c1) t = cost (set_cost cfg x c2) t).
  Proof.
    intros Hc. induction t as [v|n k|name fast cs IH|c t f IHc IHt IHf] using tree_ind2.
    - split; reflexivity.
    - cbn [cost mentions]. destruct (str_eqb n x) eqn:E.
      + apply list_eqb_N_eq in E. subst n. rewrite !name_cost_self. split; [lia|discriminate].
      + rewrite !name_cost_other by exact E. split; [lia|reflexivity].
    - cbn [cost mentions].
      assert (Hs : sumZ (map (cost (set_cost cfg x c1)) cs) <= sumZ (map (cost (set_cost cfg x c2)) cs) /\
                   (existsb (mentions x) cs = false -> sumZ (map (cost (set_cost cfg x c1)) cs) = sumZ (map (cost (set_cost cfg x c2)) cs))).
      { induction IH as [|c0 cs0 [H1 H2] _ [IH1 IH2]]; [split; reflexivity|]. cbn [map sumZ fold_right existsb]. split; [unfold sumZ in *; lia|].
        intros E. apply orb_false_iff in E. destruct E as [E1 E2]. unfold sumZ in *. rewrite (H2 E1). specialize (IH2 E2). lia. }
      destruct Hs as [Hs1 Hs2]. destruct (str_eqb name x) eqn:E.
      + apply list_eqb_N_eq in E. subst name. rewrite !name_cost_self. split; [lia|discriminate].
      + rewrite !name_cost_other by exact E. split; [lia|]. cbn [orb]. intros E2. rewrite (Hs2 E2). reflexivity.
    - cbn [cost mentions]. destruct IHc as [C1 C2], IHt as [T1 T2], IHf as [F1 F2]. split; [lia|].
      intros E. apply orb_false_iff in E. destruct E as [E E3]. apply orb_false_iff in E. destruct E as [E1 E2].
      rewrite (C2 E1), (T2 E2), (F2 E3). reflexivity.
  Qed.

  Lemma cost_ge0 c t : 0 <= c -> cost (set_cost cfg x 0) t <= cost (set_cost cfg x c) t.
  Proof. intros Hc. apply cost_monotone. exact Hc. Qed.

  Lemma sum_lower c cs ci : 0 <= c -> In ci cs ->
    sumZ (map (cost (set_cost cfg x 0)) cs) + (cost (set_cost cfg x c) ci - cost (set_cost cfg x 0) ci)
      <= sumZ (map (cost (set_cost cfg x c)) cs).
  Proof.
    intros Hc. induction cs as [|c0 cs IH]; intros Hin; [destruct Hin|]. cbn [map sumZ fold_right].
    assert (Hrest : sumZ (map (cost (set_cost cfg x 0)) cs) <= sumZ (map (cost (set_cost cfg x c)) cs)).
    { clear IH Hin. induction cs as [|d ds IHd]; cbn [map sumZ fold_right]; [lia|]. pose proof (cost_ge0 c d Hc). unfold sumZ in *. lia. }
    destruct Hin as [->|Hin].
    - unfold sumZ in *. lia.
    - specialize (IH Hin). pose proof (cost_ge0 c c0 Hc). unfold sumZ in *. lia.
  Qed.

  (* an operand mentioning x costs at least (cost of x) + something independent of that cost *)
  Theorem cost_grows t : mentions x t = true -> exists m, forall c, 0 <= c -> c + m <= cost (set_cost cfg x c) t.
  Proof.
    induction t as [v|n k|name fast cs IH|c t f IHc IHt IHf] using tree_ind2; cbn [mentions]; intros Hm.
    - discriminate.
    - apply list_eqb_N_eq in Hm. subst n. exists cost_funccall. intros c Hc. cbn [cost]. rewrite name_cost_self. lia.
    - destruct (str_eqb name x) eqn:E.
      + apply list_eqb_N_eq in E. subst name.
        exists ((if fast then cost_funccall else cost_loops * (lenZ cs + 1) + cost_funccall) + sumZ (map (cost (set_cost cfg x 0)) cs)).
        intros c Hc. cbn [cost]. rewrite name_cost_self.
        assert (sumZ (map (cost (set_cost cfg x 0)) cs) <= sumZ (map (cost (set_cost cfg x c)) cs)).
        { clear IH Hm. induction cs as [|d ds IHd]; cbn [map sumZ fold_right]; [lia|]. pose proof (cost_ge0 c d Hc). unfold sumZ in *. lia. }
        lia.
      + cbn [orb] in Hm. apply existsb_exists in Hm. destruct Hm as [ci [Hin Hci]].
        rewrite Forall_forall in IH. destruct (IH ci Hin Hci) as [mi Hmi].
        exists ((if fast then cost_funccall else cost_loops * (lenZ cs + 1) + cost_funccall) + name_cost cfg false name
                + sumZ (map (cost (set_cost cfg x 0)) cs) - cost (set_cost cfg x 0) ci + mi).
        intros c Hc. cbn [cost]. rewrite name_cost_other by exact E.
        pose proof (sum_lower c cs ci Hc Hin). specialize (Hmi c Hc). lia.
    - apply orb_true_iff in Hm. destruct Hm as [Hm|Hm]; [apply orb_true_iff in Hm; destruct Hm as [Hm|Hm]|].
      + destruct (IHc Hm) as [m Hm']. exists (cost_loops * cost_cond_loops + m + Z.max (cost (set_cost cfg x 0) t) (cost (set_cost cfg x 0) f)).
        intros c0 Hc. cbn [cost]. specialize (Hm' c0 Hc). pose proof (cost_ge0 c0 t Hc). pose proof (cost_ge0 c0 f Hc). lia.
      + destruct (IHt Hm) as [m Hm']. exists (cost_loops * cost_cond_loops + cost (set_cost cfg x 0) c + m).
        intros c0 Hc. cbn [cost]. specialize (Hm' c0 Hc). pose proof (cost_ge0 c0 c Hc). lia.
      + destruct (IHf Hm) as [m Hm']. exists (cost_loops * cost_cond_loops + cost (set_cost cfg x 0) c + m).
        intros c0 Hc. cbn [cost]. specialize (Hm' c0 Hc). pose proof (cost_ge0 c0 c Hc). lia.
  Qed.

  (* ---------- consequences for the order of and/or operands ---------- *)

  Notation sort1 c := (sort_by (cost (set_cost cfg x c))).

  Lemma before_in_sort key l a b : before (sort_by key l) a b -> In a l /\ In b l.
  Proof. intros H. apply before_in in H. destruct H. split; eapply Permutation_in; try apply sort_perm; eassumption. Qed.

  (* raising the cost of x never moves an operand mentioning it ahead of a sibling that does not *)
  Theorem raise_never_moves_ahead c1 c2 l a b : c1 <= c2 -> mentions x a = true -> mentions x b = false ->
    before (sort1 c2 l) a b -> before (sort1 c1 l) a b.
  Proof.
    intros Hc Ha Hb H. destruct (before_in_sort _ _ _ _ H) as [Ia Ib].
    pose proof (sort_sorted _ l a b H) as Hk.
    destruct (cost_monotone c1 c2 Hc a) as [Ma _]. destruct (cost_monotone c1 c2 Hc b) as [_ Mb]. specialize (Mb Hb).
    destruct (Z.lt_ge_cases (cost (set_cost cfg x c1) a) (cost (set_cost cfg x c1) b)) as [Hlt|Hge].
    - apply sort_orders; assumption.
    - apply sort_keeps_equal; [|lia]. apply (sort_stable _ l a b H). lia.
  Qed.

  (* siblings that do not mention x keep their relative order *)
  Theorem others_keep_order c1 c2 l a b : c1 <= c2 -> mentions x a = false -> mentions x b = false ->
    (before (sort1 c1 l) a b <-> before (sort1 c2 l) a b).
  Proof.
    intros Hc Ha Hb. destruct (cost_monotone c1 c2 Hc a) as [_ Ma]. destruct (cost_monotone c1 c2 Hc b) as [_ Mb].
    specialize (Ma Ha). specialize (Mb Hb).
    assert (G : forall k k', cost (set_cost cfg x k) a = cost (set_cost cfg x k') a -> cost (set_cost cfg x k) b = cost (set_cost cfg x k') b ->
                before (sort1 k l) a b -> before (sort1 k' l) a b).
    { intros k k' Ea Eb H. destruct (before_in_sort _ _ _ _ H) as [Ia Ib]. pose proof (sort_sorted _ l a b H) as Hk.
      destruct (Z.lt_ge_cases (cost (set_cost cfg x k') a) (cost (set_cost cfg x k') b)) as [Hlt|Hge].
      - apply sort_orders; assumption.
      - apply sort_keeps_equal; [|lia]. apply (sort_stable _ l a b H). lia. }
    split; apply G; congruence.
  Qed.

  (* with a sufficiently large cost an operand mentioning x comes after a sibling that does not *)
  Theorem large_cost_last a b : mentions x a = true -> mentions x b = false ->
    exists C, forall c, C <= c -> forall l, In a l -> In b l -> before (sort1 c l) b a.
  Proof.
    intros Ha Hb. destruct (cost_grows a Ha) as [m Hm].
    exists (Z.max 0 (cost (set_cost cfg x 0) b - m + 1)). intros c Hc l Ia Ib.
    apply sort_orders; try assumption.
    destruct (cost_monotone 0 c ltac:(lia) b) as [_ Mb]. specialize (Mb Hb). specialize (Hm c ltac:(lia)). lia.
  Qed.
End Mono.
