(* GenEval.v — C20, the ordinary-evaluation half: when the generator cannot use a DNE variable (EnableTryEval off or no
   DNE variable given), strict evaluation of the generated expression — every operand of every operator, the taken
   branch of every `if` — succeeds with the reported result. Hence Eval returns the reported result, under every
   optimisation configuration. *)
Require Import Base Opcode Tables Ops Tree Opt Flat Run OpsArith OpsList SemFacts CompFacts TryFacts Gen GenProofs
  OptSound OptValue OptTotal.
From Coq Require Import ZifyBool.
Open Scope Z_scope.
Open Scope list_scope.

Section GE.
  Variable c : gencfg.
  Hypothesis WF : wf_cfg c.
  Hypothesis ND : g_try c && nonempty (g_dnes c) = false.

  Notation rok := (rok (gfetch c) no_custom).
  Notation apply_op := (apply_op no_custom).

  Definition typedE (isb : bool) (v : value) : Prop := if isb then exists b, v = VBool b else exists z, v = VInt z.
  Definition goodE (isb : bool) (tv : tree * value) : Prop := rok (fst tv) = Some (snd tv) /\ typedE isb (snd tv).

  Lemma rok_known name r : In (name, r) (known c) -> rok (TVar name 0) = Some r.
  Proof. intros H. cbn [OptTotal.rok]. unfold gfetch. rewrite (lookup_in _ _ _ (nodup_known c WF) H). reflexivity. Qed.

  Lemma leaf_goodE isb r v : goodE isb (leaf c isb r v).
  Proof.
    destruct WF as (Hn & Hb & Hd & _). unfold leaf.
    replace ((r =? 1) && g_try c && nonempty (g_dnes c)) with false
      by (rewrite <- andb_assoc, ND; symmetry; apply andb_false_r).
    destruct isb.
    - destruct ((r <? 4) && g_var c && nonempty (g_bools c)) eqn:E2.
      + apply andb_prop in E2. destruct E2 as [_ Hne].
        destruct (var_leaf (g_bools c) v) as [t res] eqn:Ev. destruct (var_leaf_spec _ _ _ _ Hne Ev) as [name [Hin ->]].
        rewrite Forall_forall in Hb. destruct (Hb _ Hin) as [b Hbv]. cbn [snd] in Hbv. subst res.
        split; [apply rok_known; unfold known; apply in_or_app; right; exact Hin|eexists; reflexivity].
      + destruct (v <? 50); (split; [vm_compute; reflexivity|eexists; reflexivity]).
    - destruct ((r <? 4) && g_var c && nonempty (g_nums c)) eqn:E2.
      + apply andb_prop in E2. destruct E2 as [_ Hne].
        destruct (var_leaf (g_nums c) v) as [t res] eqn:Ev. destruct (var_leaf_spec _ _ _ _ Hne Ev) as [name [Hin ->]].
        rewrite Forall_forall in Hn. destruct (Hn _ Hin) as [z Hz]. cbn [snd] in Hz. subst res.
        split; [apply rok_known; unfold known; apply in_or_app; left; exact Hin|eexists; reflexivity].
      + split; [reflexivity|eexists; reflexivity].
  Qed.

  Lemma children_P (P : tree * value -> Prop) h n : (forall k s, (k < n)%nat -> P (fst (h k s))) -> (0 < n)%nat ->
    forall k s, Forall P (fst (children h n k s)) /\ length (fst (children h n k s)) = k.
  Proof.
    intros Hh Hn. induction k as [|k IH]; intros s; cbn [children]; [split; [constructor|reflexivity]|].
    unfold draw. destruct s as [|v s'].
    - destruct (h (Z.to_nat 0) []) as [tv s1] eqn:E1. destruct (children h n k s1) as [rest s2] eqn:E2. cbn [fst].
      specialize (IH s1). rewrite E2 in IH. cbn [fst] in IH. destruct IH as [I1 I2]. split; [|cbn [length]; lia].
      constructor; [|exact I1]. specialize (Hh (Z.to_nat 0) [] ltac:(lia)). rewrite E1 in Hh. exact Hh.
    - destruct (h (Z.to_nat (v mod Z.of_nat n)) s') as [tv s1] eqn:E1. destruct (children h n k s1) as [rest s2] eqn:E2. cbn [fst].
      specialize (IH s1). rewrite E2 in IH. cbn [fst] in IH. destruct IH as [I1 I2]. split; [|cbn [length]; lia].
      constructor; [|exact I1].
      assert (Hk : (Z.to_nat (v mod Z.of_nat n) < n)%nat) by (pose proof (Z.mod_pos_bound v (Z.of_nat n) ltac:(lia)); lia).
      specialize (Hh _ s' Hk). rewrite E1 in Hh. exact Hh.
  Qed.

  Lemma rok_children isb chs : Forall (goodE isb) chs ->
    all_some (map rok (map fst chs)) = Some (map snd chs) /\ Forall (typedE isb) (map snd chs).
  Proof.
    induction 1 as [|[t v] chs (Hk & Ht) _ (I1 & I2)]; cbn [map fst snd all_some] in *; [split; [reflexivity|constructor]|].
    rewrite Hk, I1. split; [reflexivity|constructor; assumption].
  Qed.

  Lemma typedE_bools vals : Forall (typedE true) vals -> exists bs, vals = bools bs.
  Proof. induction 1 as [|v vals [b ->] _ [bs ->]]; [exists []; reflexivity|exists (b :: bs); reflexivity]. Qed.
  Lemma typedE_ints vals : Forall (typedE false) vals -> exists zs, vals = ints zs.
  Proof. induction 1 as [|v vals [z ->] _ [zs ->]]; [exists []; reflexivity|exists (z :: zs); reflexivity]. Qed.
  Lemma bools_nodne bs : existsb is_dne (bools bs) = false.
  Proof. induction bs as [|b bs IH]; [reflexivity|exact IH]. Qed.
  Lemma ints_nodne zs : existsb is_dne (ints zs) = false.
  Proof. induction zs as [|z zs IH]; [reflexivity|exact IH]. Qed.

  (* without an unknown operand, the Kleene combination is the operator itself whenever that succeeds *)
  Lemma comb_apply name vs r : existsb is_dne vs = false -> apply_op name vs = Ok r -> comb no_custom name vs = Ok r.
  Proof.
    intros Hd H. unfold comb. rewrite Hd. destruct (op_kind name) as [[]|] eqn:Hk; [| |exact H].
    - pose proof (boolop_result no_custom name true vs r Hk H) as Hr. rewrite existsb_eq_true in Hr.
      destruct (existsb is_true vs); [rewrite Hr; reflexivity|exact H].
    - pose proof (boolop_result no_custom name false vs r Hk H) as Hr. rewrite existsb_eq_false in Hr.
      destruct (existsb is_false vs); [rewrite Hr; reflexivity|exact H].
  Qed.

  Lemma apply_bool_ok op bs : In op [ss "and"; ss "or"; ss "eq"] -> (2 <= length bs)%nat ->
    exists b, apply_op op (bools bs) = Ok (VBool b).
  Proof.
    intros Hop Hl. destruct Hop as [<-|[<-|[<-|[]]]].
    - rewrite (boolop_bools no_custom (ss "and") false bs kind_and Hl). eexists; reflexivity.
    - rewrite (boolop_bools no_custom (ss "or") true bs kind_or Hl). eexists; reflexivity.
    - destruct bs as [|a [|b bs]]; cbn [length] in Hl; try lia.
      unfold Tree.apply_op. rewrite (builtin_of (ss "eq") OEq) by (cbn; auto 10).
      cbn [apply_opcode bools map]. rewrite eq_nary.
      + eexists; reflexivity.
      + cbn [length]. lia.
      + cbn [forallb comparable andb]. clear. induction bs; cbn; [reflexivity|assumption].
  Qed.

  Lemma pick_arith r vals : exists m, builtin (pick_op false r vals) = Some (OArith m) /\
    In (pick_op false r vals) [ss "and"; ss "or"; ss "eq"; ss "not"; ss "+"; ss "-"; ss "*"; ss "/"; ss "%"] /\
    (m = ADiv \/ m = AMod -> existsb (fun v => match v with VInt 0 => true | _ => false end) (tl vals) = false).
  Proof.
    unfold pick_op, nth_name.
    destruct (existsb (fun v => match v with VInt 0 => true | _ => false end) (tl vals)) eqn:Ez.
    - pose proof (Z.mod_pos_bound r 3 ltac:(lia)). assert (Hc : r mod 3 = 0 \/ r mod 3 = 1 \/ r mod 3 = 2) by lia.
      destruct Hc as [->|[->| ->]]; cbn [Z.to_nat nth_error Pos.to_nat Pos.iter_op Nat.add];
      [exists AAdd|exists ASub|exists AMul]; (split; [vm_compute; reflexivity|split; [cbn; auto 10|intros [?|?]; discriminate]]).
    - pose proof (Z.mod_pos_bound r 5 ltac:(lia)). assert (Hc : r mod 5 = 0 \/ r mod 5 = 1 \/ r mod 5 = 2 \/ r mod 5 = 3 \/ r mod 5 = 4) by lia.
      destruct Hc as [->|[->|[->|[->| ->]]]]; cbn [Z.to_nat nth_error Pos.to_nat Pos.iter_op Nat.add];
      [exists AAdd|exists ASub|exists AMul|exists ADiv|exists AMod]; (split; [vm_compute; reflexivity|split; [cbn; auto 10|intros _; reflexivity]]).
  Qed.

  Lemma nozero_ints zs : existsb (fun v => match v with VInt 0 => true | _ => false end) (tl (ints zs)) = false ->
    existsb (Z.eqb 0) (tl zs) = false.
  Proof.
    destruct zs as [|z0 zs]; [reflexivity|]. cbn [tl ints map]. induction zs as [|x zs IH]; [reflexivity|].
    cbn [map existsb]. intros H. apply orb_false_iff in H. destruct H as [H1 H2]. rewrite (IH H2).
    destruct x; try discriminate; reflexivity.
  Qed.

  Theorem helper_goodE : forall fuel isb n s, (n < fuel)%nat -> goodE isb (fst (helper c fuel isb n s)).
  Proof.
    induction fuel as [|f IH]; intros isb n s Hn; [lia|]. cbn [helper].
    destruct (draw s 10) as [r s0] eqn:Er. destruct n as [|n'].
    - destruct (draw s0 100) as [v s1]. cbn [fst]. apply leaf_goodE.
    - destruct (isb && (r <? 3)) eqn:Enot.
      + apply andb_prop in Enot. destruct Enot as [-> _].
        destruct (helper c f true n' s0) as [[t res] s1] eqn:Eh. cbn [fst].
        pose proof (IH true n' s0 ltac:(lia)) as G. rewrite Eh in G. destruct G as (Gk & [b Hb]). cbn [fst snd] in *. subst res.
        split; [|exists (negb b); destruct b; vm_compute; reflexivity].
        cbn [fst snd OptTotal.rok map all_some]. rewrite Gk. destruct b; vm_compute; reflexivity.
      + destruct (g_cond c && (r =? 3)) eqn:Econd.
        * destruct (draw s0 (Z.of_nat (S n'))) as [k1 s1] eqn:E1.
          destruct (helper c f true (Z.to_nat k1) s1) as [[ct cr] s2] eqn:Eh1.
          destruct (draw s2 (Z.of_nat (S n'))) as [k2 s3] eqn:E2.
          destruct (helper c f isb (Z.to_nat k2) s3) as [[tt' tr] s4] eqn:Eh2.
          destruct (draw s4 (Z.of_nat (S n'))) as [k3 s5] eqn:E3.
          destruct (helper c f isb (Z.to_nat k3) s5) as [[ft fr] s6] eqn:Eh3.
          cbn [fst].
          assert (B1 : (Z.to_nat k1 < f)%nat) by (pose proof (draw_fst s0 (Z.of_nat (S n')) ltac:(lia)) as B; rewrite E1 in B; cbn [fst] in B; lia).
          assert (B2 : (Z.to_nat k2 < f)%nat) by (pose proof (draw_fst s2 (Z.of_nat (S n')) ltac:(lia)) as B; rewrite E2 in B; cbn [fst] in B; lia).
          assert (B3 : (Z.to_nat k3 < f)%nat) by (pose proof (draw_fst s4 (Z.of_nat (S n')) ltac:(lia)) as B; rewrite E3 in B; cbn [fst] in B; lia).
          pose proof (IH true _ s1 B1) as G1. rewrite Eh1 in G1. destruct G1 as (K1 & [b Hb]).
          pose proof (IH isb _ s3 B2) as G2. rewrite Eh2 in G2. destruct G2 as (K2 & T2).
          pose proof (IH isb _ s5 B3) as G3. rewrite Eh3 in G3. destruct G3 as (K3 & T3).
          cbn [fst snd] in *. subst cr. split.
          -- cbn [fst snd OptTotal.rok]. rewrite K1. destruct b; assumption.
          -- cbn [snd]. destruct b; assumption.
        * destruct (draw s0 3) as [l0 s1] eqn:El.
          destruct (children (helper c f isb) (S n') (Z.to_nat (l0 + 2)) s1) as [chs s2] eqn:Ech. cbn [fst].
          assert (Hl0 : 0 <= l0 < 3) by (pose proof (draw_fst s0 3 ltac:(lia)) as B; rewrite El in B; exact B).
          destruct (children_P (goodE isb) (helper c f isb) (S n') (fun k s' Hk => IH isb k s' ltac:(lia)) ltac:(lia) (Z.to_nat (l0 + 2)) s1) as [Hg Hlen].
          rewrite Ech in Hg, Hlen. cbn [fst] in Hg, Hlen.
          destruct (rok_children isb chs Hg) as (Hall & Hty).
          set (vals := map snd chs) in *. set (op := pick_op isb r vals).
          assert (Hlen2 : (2 <= length vals)%nat) by (unfold vals; rewrite map_length; lia).
          assert (Happ : exists rr, apply_op op vals = Ok rr /\ typedE isb rr /\ existsb is_dne vals = false /\
                          In op [ss "and"; ss "or"; ss "eq"; ss "not"; ss "+"; ss "-"; ss "*"; ss "/"; ss "%"]).
          { destruct isb.
            - pose proof (pick_op_bool r vals) as Hop. fold op in Hop. destruct (typedE_bools vals Hty) as [bs Hbs].
              rewrite Hbs in Hlen2 |- *. unfold bools in Hlen2. rewrite map_length in Hlen2.
              destruct (apply_bool_ok op bs Hop Hlen2) as [b Hb]. exists (VBool b).
              split; [exact Hb|split; [eexists; reflexivity|split; [apply bools_nodne|]]].
              destruct Hop as [<-|[<-|[<-|[]]]]; cbn; auto 10.
            - destruct (pick_arith r vals) as (m & Hb & Hin & Hsafe). fold op in Hb, Hin.
              destruct (typedE_ints vals Hty) as [zs Hzs]. rewrite Hzs in Hlen2, Hsafe |- *. rewrite ints_length in Hlen2.
              destruct (arith_ints_ok m zs Hlen2) as [z Hz]; [intros Hm; apply nozero_ints; apply Hsafe; exact Hm|].
              exists (VInt z). unfold Tree.apply_op. rewrite Hb. cbn [apply_opcode].
              split; [exact Hz|split; [eexists; reflexivity|split; [apply ints_nodne|exact Hin]]]. }
          destruct Happ as (rr & Ha & Htr & Hd & Hin).
          assert (Hex : exec op vals = rr) by (apply exec_is_comb; [exact Hin|apply comb_apply; assumption]).
          split.
          -- cbn [fst snd OptTotal.rok]. rewrite Hall, Ha, Hex. reflexivity.
          -- cbn [snd]. rewrite Hex. exact Htr.
  Qed.

  (* strict evaluation of the generated expression succeeds with the reported result, which has the requested type *)
  Theorem generate_rok isb level s :
    let r := generate c isb level s in rok (fst r) = Some (snd r) /\ typedE isb (snd r).
  Proof. unfold generate. apply helper_goodE. lia. Qed.

  (* hence ordinary left-to-right evaluation returns it, under every optimisation configuration *)
  Corollary generate_sem cfg isb level s :
    let r := generate c isb level s in
    snd (sem (gfetch c) no_custom (optimize no_custom cfg (fst r))) = Ok (snd r).
  Proof.
    cbv zeta. destruct (generate_rok isb level s) as [H _].
    exact (all_configurations_return (gfetch c) no_custom cfg _ _ H).
  Qed.
  Corollary generate_sem_plain isb level s :
    let r := generate c isb level s in snd (sem (gfetch c) no_custom (fst r)) = Ok (snd r).
  Proof. cbv zeta. destruct (generate_rok isb level s) as [H _]. exact (rok_val (gfetch c) no_custom _ _ H). Qed.
End GE.

Print Assumptions generate_sem.
