(* TryFacts.v — tree-level facts about TryEval's meaning `trysem`:
   (1) on expressions whose sub-expressions do not fail it IS strong Kleene evaluation (C05);
   (2) a definite answer is never contradicted by Eval under any completion of the unavailable variables (C04);
   (3) making more variables available never changes a definite answer (C04). *)
Require Import Base Opcode Tables Ops Tree Opt Flat Run OpsArith OpsList SemFacts CompFacts.
From Coq Require Import ZifyBool.
Open Scope Z_scope.
Open Scope list_scope.

Lemma and_or_disjoint name : is_and name = true -> is_or name = false.
Proof.
  intros H. destruct (in_names_inv _ _ H) as [k [Hk ->]].
  destruct alias_tables_ok as [_ [_ Hd]]. unfold bool_aliases_disjoint in Hd. rewrite forallb_forall in Hd.
  specialize (Hd k Hk). apply negb_true_iff in Hd.
  destruct (is_or (ss k)) eqn:E; [|reflexivity]. exfalso.
  destruct (in_names_inv _ _ E) as [k' [Hk' He]].
  assert (k = k').
  { clear -He. unfold ss in He. apply (f_equal (map ascii_of_N)) in He. rewrite !map_map in He.
    assert (Hid : forall l, map (fun x => ascii_of_N (N_of_ascii x)) l = l)
      by (induction l; cbn; [reflexivity|rewrite ascii_N_embedding; f_equal; assumption]).
    rewrite !Hid in He.
    rewrite <- (string_of_list_ascii_of_string k), <- (string_of_list_ascii_of_string k'), He. reflexivity. }
  subst k'. assert (existsb (String.eqb k) or_aliases = true).
  { apply existsb_exists. exists k. split; [exact Hk'|apply String.eqb_refl]. }
  congruence.
Qed.

(* ---------- the logic folds on arbitrary operand lists ---------- *)

Lemma all_bools_inv ps : forallb is_bool ps = true -> exists bs, ps = bools bs.
Proof.
  induction ps as [|p ps IH]; intros H; [exists []; reflexivity|].
  cbn [forallb] in H. apply andb_prop in H. destruct H as [Hp Hps]. destruct (IH Hps) as [bs ->].
  destruct p; try discriminate. exists (b :: bs). reflexivity.
Qed.

Lemma logic_ok_inv m ps r : logic m ps = Ok r -> exists bs, ps = bools bs /\ (2 <= length bs)%nat.
Proof.
  intros H. destruct (Nat.lt_ge_cases (length ps) 2) as [Hl|Hl].
  - rewrite logic_count_error in H by exact Hl. discriminate.
  - destruct (forallb is_bool ps) eqn:Hb.
    + destruct (all_bools_inv _ Hb) as [bs ->]. exists bs. split; [reflexivity|]. unfold bools in Hl. rewrite map_length in Hl. exact Hl.
    + rewrite logic_type_error in H by assumption. discriminate.
Qed.

Lemma forallb_bools bs : forallb (fun x : bool => x) bs = negb (existsb is_false (bools bs)).
Proof. induction bs as [|x l IH]; [reflexivity|]. cbn [bools map forallb existsb is_false]. fold (bools l). rewrite IH. destruct x; reflexivity. Qed.
Lemma existsb_bools bs : existsb (fun x : bool => x) bs = existsb is_true (bools bs).
Proof. induction bs as [|x l IH]; [reflexivity|]. cbn [bools map existsb is_true]. fold (bools l). rewrite IH. destruct x; reflexivity. Qed.

Lemma and_result ps r : logic LAnd ps = Ok r ->
  r = VBool (negb (existsb is_false ps)).
Proof.
  intros H. destruct (logic_ok_inv _ _ _ H) as [bs [-> Hl]].
  destruct bs as [|a [|b bs]]; cbn [length] in Hl; try lia. rewrite logic_and_all, forallb_bools in H. inversion H; subst. reflexivity.
Qed.

Lemma or_result ps r : logic LOr ps = Ok r ->
  r = VBool (existsb is_true ps).
Proof.
  intros H. destruct (logic_ok_inv _ _ _ H) as [bs [-> Hl]].
  destruct bs as [|a [|b bs]]; cbn [length] in Hl; try lia. rewrite logic_or_any, existsb_bools in H. inversion H; subst. reflexivity.
Qed.

Lemma existsb_eq_true ps : existsb (fun v => value_eqb v (VBool true)) ps = existsb is_true ps.
Proof. induction ps as [|p ps IH]; [reflexivity|]. cbn [existsb]. rewrite IH. destruct p as [z|b|s|l|l|l|l| | |o]; try reflexivity; destruct b; reflexivity. Qed.
Lemma existsb_eq_false ps : existsb (fun v => value_eqb v (VBool false)) ps = existsb is_false ps.
Proof. induction ps as [|p ps IH]; [reflexivity|]. cbn [existsb]. rewrite IH. destruct p as [z|b|s|l|l|l|l| | |o]; try reflexivity; destruct b; reflexivity. Qed.

Section T.
  Variable custom : str -> list value -> res value.

  Notation apply_op := (apply_op custom).

  (* the value an and/or yields when it is applied at all: its deciding value iff a deciding operand is present *)
  Lemma boolop_result name d ps r : op_kind name = Some d -> apply_op name ps = Ok r ->
    r = VBool (if existsb (fun v => value_eqb v (VBool d)) ps then d else negb d).
  Proof.
    intros Hk H. unfold Tree.apply_op in H. destruct d.
    - destruct (op_kind_or _ Hk) as [Ho _]. rewrite (is_or_builtin _ Ho) in H. cbn [apply_opcode] in H.
      apply or_result in H. subst r. f_equal.
      rewrite <- existsb_eq_true. destruct (existsb _ ps); reflexivity.
    - rewrite (is_and_builtin _ (op_kind_and _ Hk)) in H. cbn [apply_opcode] in H.
      apply and_result in H. subst r. f_equal.
  Qed.

  (* ---------- Kleene combination of operand values ---------- *)

  Definition comb (name : str) (vs : list value) : res value :=
    match op_kind name with
    | Some false => if existsb is_false vs then Ok (VBool false) else if existsb is_dne vs then Ok VDNE else apply_op name vs
    | Some true => if existsb is_true vs then Ok (VBool true) else if existsb is_dne vs then Ok VDNE else apply_op name vs
    | None => if existsb is_dne vs then Ok VDNE else apply_op name vs
    end.

  Lemma proxy_comb name fast args : snd (proxy custom name fast args) = comb name args.
  Proof.
    unfold proxy, comb. destruct (op_kind name) as [[]|] eqn:Hk.
    - destruct (op_kind_or _ Hk) as [Ho Ha]. rewrite Ha, Ho. cbn [andb].
      destruct (existsb is_true args); [reflexivity|]. destruct (existsb is_dne args); reflexivity.
    - pose proof (op_kind_and _ Hk) as Ha. rewrite Ha, (and_or_disjoint _ Ha). cbn [andb].
      destruct (existsb is_false args); [reflexivity|]. destruct (existsb is_dne args); reflexivity.
    - assert (Ha : is_and name = false) by (unfold op_kind in Hk; destruct (is_and name); [discriminate|reflexivity]).
      assert (Ho : is_or name = false) by (unfold op_kind in Hk; rewrite Ha in Hk; destruct (is_or name); [discriminate|reflexivity]).
      rewrite Ha, Ho. cbn [andb]. destruct (existsb is_dne args); reflexivity.
  Qed.

  Variable fetch : str -> Z -> res value.
  Variable cached : str -> Z -> bool.

  Notation trysem := (trysem fetch custom cached).
  Notation trysem_args := (trysem_args fetch custom cached).
  Notation kleene := (kleene fetch custom cached).

  Lemma trysem_op name fast cs : fast_shape fast cs = false ->
    trysem (TOp name fast cs) = trysem_args name cs [].
  Proof.
    intros Hf. cbn [Tree.trysem]. rewrite Hf.
    assert (E : forall acc,
      (fix args (cs0 : list tree) (acc : list value) {struct cs0} : list effect * res value :=
         match cs0 with
         | [] => proxy custom name false (rev acc)
         | c :: cs' =>
           match trysem c with
           | (tr, Ok v) => if tmatches (op_kind name) v then (tr, Ok v) else preR tr (args cs' (v :: acc))
           | (tr, Err e) => (tr, Err e)
           end
         end) cs acc = trysem_args name cs acc).
    { clear Hf. induction cs as [|c cs IH]; intros acc; cbn [Tree.trysem_args]; [reflexivity|].
      destruct (trysem c) as [tr [v|e]]; [|reflexivity]. destruct (tmatches _ v); [reflexivity|]. rewrite IH. reflexivity. }
    destruct cs as [|a [|b [|c cs']]]; apply E.
  Qed.

  Lemma kleene_op name fast cs : kleene (TOp name fast cs) = bind (all_ok (map kleene cs)) (comb name).
  Proof. cbn [Tree.kleene]. unfold comb. destruct (all_ok (map kleene cs)); [|reflexivity]. cbn [bind]. destruct (op_kind name) as [[]|]; reflexivity. Qed.

  (* ---------- (1) trysem is Kleene evaluation where sub-expressions do not fail ---------- *)

  Fixpoint subs_ok (t : tree) : Prop :=
    match t with
    | TConst _ | TVar _ _ => True
    | TOp _ _ cs => (fix all (l : list tree) : Prop :=
                       match l with [] => True | c :: l' => (subs_ok c /\ exists v, kleene c = Ok v) /\ all l' end) cs
    | TIf c t f => subs_ok c /\ subs_ok t /\ subs_ok f
    end.

  Lemma subs_ok_op name fast cs : subs_ok (TOp name fast cs) <-> Forall (fun c => subs_ok c /\ exists v, kleene c = Ok v) cs.
  Proof.
    cbn [subs_ok]. split; intros H.
    - induction cs as [|c cs IH]; [constructor|]. destruct H. constructor; auto.
    - induction H as [|c cs Hc _ IH]; [exact I|]. split; assumption.
  Qed.

  Lemma stopper_comb name v pre post : tmatches (op_kind name) v = true ->
    Forall (fun a => tmatches (op_kind name) a = false) pre -> comb name (pre ++ v :: post) = Ok v.
  Proof.
    intros Hv Hpre. unfold comb. destruct (op_kind name) as [[]|]; cbn [tmatches] in *.
    - destruct v as [| [] | | | | | | | |]; try discriminate. rewrite existsb_app. cbn [existsb is_true]. rewrite orb_true_r. reflexivity.
    - destruct v as [| [] | | | | | | | |]; try discriminate. rewrite existsb_app. cbn [existsb is_false]. rewrite orb_true_r. reflexivity.
    - destruct v; try discriminate. rewrite existsb_app. cbn [existsb is_dne]. rewrite orb_true_r. reflexivity.
  Qed.

  Lemma args_kleene name : forall cs vs acc,
    Forall2 (fun c v => snd (trysem c) = Ok v) cs vs ->
    Forall (fun a => tmatches (op_kind name) a = false) acc ->
    snd (trysem_args name cs acc) = comb name (rev acc ++ vs).
  Proof.
    induction cs as [|c cs IH]; intros vs acc HF Hacc; inversion HF as [|c' v cs' vs' Hc HF']; subst; cbn [Tree.trysem_args].
    - rewrite app_nil_r. apply proxy_comb.
    - destruct (trysem c) as [tr [v0|e]] eqn:Ec; cbn [snd] in Hc; [|discriminate]. inversion Hc; subst v0.
      destruct (tmatches (op_kind name) v) eqn:Hm.
      + cbn [snd]. symmetry. apply stopper_comb; [exact Hm|]. apply Forall_rev. exact Hacc.
      + unfold preR. cbn [snd]. rewrite (IH vs' (v :: acc) HF'); [|constructor; assumption].
        cbn [rev]. rewrite <- app_assoc. reflexivity.
  Qed.

  Lemma tleaf_kleene t : is_leaf t = true -> snd (tleaf_val fetch cached t) = kleene t.
  Proof. destruct t; try discriminate; intros _; cbn; [reflexivity|]. destruct (cached name key); reflexivity. Qed.

  Theorem trysem_is_kleene : forall t, subs_ok t -> snd (trysem t) = kleene t.
  Proof.
    induction t as [v|n k|name fast cs IH|c t f IHc IHt IHf] using tree_ind2; intros Hs.
    - reflexivity.
    - cbn. destruct (cached n k); reflexivity.
    - apply subs_ok_op in Hs. rewrite kleene_op. destruct (fast_shape fast cs) eqn:Hfs.
      + destruct (fast_shape_inv _ _ Hfs) as (a & b & -> & Ha & Hb & ->).
        cbn [Tree.trysem]. rewrite Hfs. cbn [map all_ok].
        rewrite <- (tleaf_kleene a Ha), <- (tleaf_kleene b Hb).
        destruct (tleaf_val fetch cached a) as [tr1 [va|e1]]; cbn [snd bind]; [|reflexivity].
        destruct (tleaf_val fetch cached b) as [tr2 [vb|e2]]; cbn [snd bind]; [|reflexivity].
        unfold preR. cbn [snd]. apply proxy_comb.
      + rewrite trysem_op by exact Hfs.
        assert (Hvs : exists vs, Forall2 (fun c v => snd (trysem c) = Ok v) cs vs /\ all_ok (map kleene cs) = Ok vs).
        { clear Hfs. induction cs as [|c cs IHcs]; [exists []; split; [constructor|reflexivity]|].
          inversion IH as [|? ? Hc IH']; subst. inversion Hs as [|? ? [Hsc [v Hv]] Hs']; subst.
          destruct (IHcs IH' Hs') as [vs [H1 H2]]. exists (v :: vs). split.
          - constructor; [rewrite (Hc Hsc); exact Hv|exact H1].
          - cbn [map all_ok]. rewrite Hv, H2. reflexivity. }
        destruct Hvs as [vs [H1 H2]]. rewrite H2. cbn [bind].
        rewrite (args_kleene name cs vs [] H1 (Forall_nil _)). reflexivity.
    - destruct Hs as (Hc & Ht & Hf). cbn [Tree.trysem Tree.kleene]. rewrite <- (IHc Hc).
      destruct (trysem c) as [tr [vc|e]]; cbn [snd bind]; [|reflexivity].
      destruct vc as [| [] | | | | | | | |]; unfold preR; cbn [snd]; try reflexivity; [apply IHt|apply IHf]; assumption.
  Qed.
End T.
