(* EvalDefs.v — vocabulary for the proof that run ∘ compile = sem: landings as a fuel-free relation,
   decoration-indexed continuation `afterD`, binding of semantic results to machine continuations. *)
Require Import Base Opcode Tables Ops Tree Opt Flat Run CompFacts.
From Coq Require Import ZifyBool.
Open Scope Z_scope.
Open Scope list_scope.

Definition e2o (e : effect) : obs :=
  match e with EGet n k => OGet n k | ECall n f a r => OCall n f a r end.

Definition bindT (x : list effect * res value) (K : value -> list obs * mres) : list obs * mres :=
  match x with
  | (tr, Ok v) => preM (map e2o tr) (K v)
  | (tr, Err e) => (map e2o tr, MErr e)
  end.

Lemma preM_nil {A} (x : list obs * A) : preM [] x = x.
Proof. destruct x; reflexivity. Qed.
Lemma preM_app {A} a b (x : list obs * A) : preM a (preM b x) = preM (a ++ b) x.
Proof. destruct x; unfold preM; cbn. now rewrite app_assoc. Qed.

Lemma bindT_pre tr x K : bindT (pre tr x) K = preM (map e2o tr) (bindT x K).
Proof.
  destruct x as [tr2 [v|e]]; unfold pre, bindT; cbn [fst snd]; rewrite map_app.
  - rewrite preM_app. reflexivity.
  - unfold preM. reflexivity.
Qed.

Section M.
  Variable fetch : str -> Z -> res value.
  Variable custom : str -> list value -> res value.
  Variable P : prog.

  Notation L := (lenZ (nodes P)).
  Notation getn := (getn P).
  Notation run := (run fetch custom P).

  Definition lastI : Z := L - 1.
  Definition fin (x : Z) : Z := if x =? lastI then -1 else x.
  Definition need (i : Z) : nat := S (Z.to_nat (L - i)).

  Lemma need_mono i j : i <= j -> (need j <= need i)%nat.
  Proof. unfold need. lia. Qed.

  Lemma run_S f i stk : run (S f) i stk =
    if psize P <=? i then ([], match stk with v :: _ => MVal v | [] => MPanic 1 end) else
    match getn i with
    | None => ([], MPanic 2)
    | Some nd =>
      match kind nd with
      | KFast name =>
        match getn (i + 1), getn (i + 2) with
        | Some a, Some b =>
          match fast_leaf fetch a with
          | (t1, Err e) => (t1, MErr e)
          | (t1, Ok va) =>
            match fast_leaf fetch b with
            | (t2, Err e) => (t1 ++ t2, MErr e)
            | (t2, Ok vb) =>
              let r := apply_named custom name [va; vb] in
              preM (t1 ++ t2 ++ [OCall name true [va; vb] r])
                match r with
                | Err e => ([], MErr e)
                | Ok v => after P (run f) (i + 3) nd v stk
                end
            end
          end
        | _, _ => ([], MPanic 3)
        end
      | KVar n k =>
        preM [OGet n k] match fetch n k with Err e => ([], MErr e) | Ok v => after P (run f) (i + 1) nd v stk end
      | KConst v => after P (run f) (i + 1) nd v stk
      | KOp name =>
        let cnt := childCnt nd in
        if (cnt <? 0) || (lenZ stk <? cnt) then ([], MPanic 4) else
        let keep := Z.to_nat (lenZ stk - cnt) in
        let args := skipn keep stk in
        let r := apply_named custom name args in
        preM [OCall name false args r]
          match r with
          | Err e => ([], MErr e)
          | Ok v => after P (run f) (i + 1) nd v (firstn keep stk)
          end
      | KIf =>
        match rev stk with
        | [] => ([], MPanic 5)
        | c :: below =>
          match c with
          | VBool true => run f (i + 1) (rev below)
          | VBool false =>
            if (osTop nd + 1 <? 0) || (lenZ below <? osTop nd + 1) then ([], MPanic 6)
            else run f (scIdx nd + 1) (firstnZ (osTop nd + 1) (rev below))
          | _ => ([], MErr ECondNotBool)
          end
        end
      | KFi =>
        match stk with
        | [] => ([], MPanic 7)
        | _ =>
          if (osTop nd + 1 <? 0) || (lenZ stk <? osTop nd + 1) then ([], MPanic 8)
          else run f (scIdx nd + 1) (firstnZ (osTop nd + 1) stk)
        end
      | KEvent pos of => preM [OLoop pos of stk] (run f (i + 1) stk)
      end
    end.
  Proof. reflexivity. Qed.

  (* ---------- landings ---------- *)

  Definition landR (k : Z -> list value -> list obs * mres) (l : landing) (v : value) (stk : list value)
    : list obs * mres :=
    match l with
    | LRet => ([], MVal v)
    | LStuck => ([], MPanic 11)
    | LAt j nd' =>
      if (osTop nd' <? 0) || (lenZ stk <? osTop nd') then ([], MPanic 12) else
      match push P (firstnZ (osTop nd') stk) v with Some s => k (j + 1) s | None => ([], MPanic 10) end
    end.

  Definition store_next (k : Z -> list value -> list obs * mres) (next : Z) (v : value) (stk : list value) :=
    match push P stk v with Some s => k next s | None => ([], MPanic 10) end.

  (* `after`, indexed by the decoration (flags, scIdx) instead of the node that carries it *)
  Definition afterD (k : Z -> list value -> list obs * mres) (next : Z) (mf : flags) (sc : Z)
                    (v : value) (stk : list value) : list obs * mres :=
    match v with
    | VBool b => if fhas mf b then landR k (chain P (length (nodes P)) sc b) v stk else store_next k next v stk
    | _ => store_next k next v stk
    end.

  Definition nflags (nd : node) : flags := (scF nd, scT nd).

  Lemma matches_fhas nd b : matches nd b = fhas (nflags nd) b.
  Proof. destruct b; reflexivity. Qed.

  Lemma after_afterD k next nd v stk : after P k next nd v stk = afterD k next (nflags nd) (scIdx nd) v stk.
  Proof.
    unfold after, afterD, store_next, landR. destruct v; reflexivity.
  Qed.

  (* value b, arriving as the result of node j, lands at l: fuel-free, forward steps only *)
  Inductive lands : Z -> bool -> landing -> Prop :=
    | lands_ret b : lands (-1) b LRet
    | lands_at j nd b : getn j = Some nd -> matches nd b = false -> lands j b (LAt j nd)
    | lands_step j nd b l : getn j = Some nd -> matches nd b = true ->
        (scIdx nd = -1 \/ j < scIdx nd) -> lands (scIdx nd) b l -> lands j b l.

  Definition cbound (j : Z) : nat := if j =? -1 then 1%nat else S (Z.to_nat (L - j)).

  Lemma lands_chain j b l : lands j b l -> forall fuel, (cbound j <= fuel)%nat -> chain P fuel j b = l.
  Proof.
    induction 1 as [b | j nd b G M | j nd b l G M Hf Hl IH]; intros fuel Hfuel.
    - destruct fuel; [cbn in Hfuel; lia|]. reflexivity.
    - destruct fuel; [unfold cbound in Hfuel; destruct (j =? -1); lia|].
      cbn [chain]. pose proof (nthZ_range _ _ _ G). replace (j =? -1) with false by lia.
      rewrite G, M. reflexivity.
    - pose proof (nthZ_range _ _ _ G) as R.
      destruct fuel; [unfold cbound in Hfuel; destruct (j =? -1); lia|].
      cbn [chain]. replace (j =? -1) with false by lia. rewrite G, M.
      apply IH. unfold cbound in *. replace (j =? -1) with false in Hfuel by lia.
      destruct Hf as [-> | Hlt]; [cbn; lia|]. replace (scIdx nd =? -1) with false by lia. lia.
  Qed.

  (* top-level chain call: fuel = number of nodes, started at a forward target of node i *)
  Lemma lands_chain_top i sc b l : lands sc b l -> 0 <= i < L -> (sc = -1 \/ i < sc) ->
    chain P (length (nodes P)) sc b = l.
  Proof.
    intros H Hi Hs. apply lands_chain; [exact H|]. unfold cbound, lenZ in *.
    destruct Hs as [-> | Hlt]; [cbn; lia|]. replace (sc =? -1) with false by lia. lia.
  Qed.

  Definition os_le (l : landing) (h : Z) : Prop :=
    match l with LAt _ nd' => 0 <= osTop nd' <= h | _ => True end.

  Lemma os_le_mono l h h' : os_le l h -> h <= h' -> os_le l h'.
  Proof. destruct l; cbn; lia. Qed.

  Definition landsR (x : Z) (b : bool) (l : landing) : Prop := lands (fin x) b l.

  Lemma firstnZ_app {A} (o : Z) (s x : list A) : o <= lenZ s -> firstnZ o (s ++ x) = firstnZ o s.
  Proof.
    intros H. unfold firstnZ, lenZ in *. rewrite firstn_app.
    replace (Z.to_nat o - length s)%nat with 0%nat by lia. cbn. apply app_nil_r.
  Qed.
  Lemma firstnZ_all {A} (s : list A) : firstnZ (lenZ s) s = s.
  Proof. unfold firstnZ, lenZ. rewrite Nat2Z.id. apply firstn_all. Qed.
  Lemma firstnZ_app_all {A} (s x : list A) : firstnZ (lenZ s) (s ++ x) = s.
  Proof. rewrite firstnZ_app by lia. apply firstnZ_all. Qed.

  (* the landing outcome only depends on the stack below the landing slot *)
  Lemma landR_prefix k l v s x h : os_le l h -> h <= lenZ s -> landR k l v (s ++ x) = landR k l v s.
  Proof.
    intros Ho Hh. destruct l as [|j nd'|]; try reflexivity. cbn in Ho. unfold landR.
    rewrite lenZ_app. pose proof (lenZ_nonneg x).
    replace ((osTop nd' <? 0) || (lenZ s + lenZ x <? osTop nd')) with false by lia.
    replace ((osTop nd' <? 0) || (lenZ s <? osTop nd')) with false by lia.
    rewrite firstnZ_app by lia. reflexivity.
  Qed.
End M.
