(* DumpStruct.v — C13: Dump's reconstruction of the tree from the parent-index table. For every tree t,
   `dump (compile t)` is the structural printing `show t`: the children found through the parent table are the
   operands in order (the `fi` marker of an `if` skipped), leaves are printed inline, operators on new lines. *)
Require Import Base Opcode Tables Ops Tree Opt Flat Run CompFacts Directives Print.
From Coq Require Import ZifyBool.
Open Scope Z_scope.
Open Scope list_scope.

(* ---------- the text Dump prints, structurally ---------- *)

Definition piece (depth : nat) (x : str * bool) : str :=
  if snd x then 32%N :: fst x else 10%N :: spaces (2 * S depth) ++ fst x.

Fixpoint show (t : tree) (depth : nat) : str * bool :=
  match t with
  | TConst v => (show_value v, true)
  | TVar n _ => (n, true)
  | TOp name _ cs =>
    match cs with
    | [] => (40%N :: name ++ [41%N], false)
    | _ => (40%N :: name ++ concat (map (fun c => piece depth (show c (S depth))) cs) ++ [41%N], false)
    end
  | TIf c t f =>
    (40%N :: ss "if" ++ concat [piece depth (show c (S depth)); piece depth (show t (S depth)); piece depth (show f (S depth))] ++ [41%N], false)
  end.

(* ---------- indices whose parent is x ---------- *)

Fixpoint hits (x : Z) (start : Z) (ps : list Z) : list Z :=
  match ps with
  | [] => []
  | p :: ps' => (if p =? x then [start] else []) ++ hits x (start + 1) ps'
  end.

Lemma hits_app x : forall a s b, hits x s (a ++ b) = hits x s a ++ hits x (s + lenZ a) b.
Proof.
  induction a as [|p a IH]; intros s b; cbn [app hits].
  - change (lenZ (@nil Z)) with 0. rewrite Z.add_0_r. reflexivity.
  - rewrite IH, lenZ_cons. rewrite <- app_assoc. do 2 f_equal. f_equal. lia.
Qed.

Lemma hits_filter x : forall ps s,
  map fst (filter (fun ip : Z * Z => snd ip =? x) (combine (map Z.of_nat (seq s (length ps))) ps)) = hits x (Z.of_nat s) ps.
Proof.
  induction ps as [|p ps IH]; intros s; [reflexivity|].
  cbn [length seq map combine filter snd hits]. destruct (p =? x).
  - cbn [map fst app]. f_equal. rewrite IH. f_equal. lia.
  - cbn [app]. rewrite IH. f_equal. lia.
Qed.

Lemma lenZ_map {A B} (f : A -> B) l : lenZ (map f l) = lenZ l.
Proof. unfold lenZ. rewrite map_length. reflexivity. Qed.
Lemma lenZ_one {A} (x : A) : lenZ [x] = 1.
Proof. reflexivity. Qed.
Lemma lenZ_comp last t base h inh anc mf mt pidx r : lenZ (comp last t base h inh anc mf mt pidx r) = Z.of_nat (size t).
Proof. unfold lenZ. rewrite comp_length. reflexivity. Qed.
Lemma lenZ_comp_args last k n ridx anc' cs b hh : lenZ (comp_args last k n ridx anc' cs b hh) = Z.of_nat (sizes cs).
Proof. unfold lenZ. rewrite comp_args_length. reflexivity. Qed.

(* ---------- parents produced by the compiler ---------- *)

Section C.
  Variable last : Z.
  Notation comp := (comp last).
  Notation comp_args := (comp_args last).

  Definition outside (x base : Z) (n : nat) : Prop := x < base \/ base + Z.of_nat n <= x.

  (* outside a subtree's index range only the subtree's root can have the parent x *)
  Lemma hits_out : forall t base h inh anc mf mt pidx r x, outside x base (size t) ->
    hits x base (map snd (comp t base h inh anc mf mt pidx r)) = if pidx =? x then [root_idx t base] else [].
  Proof.
    induction t as [v|n k|name fast cs IH|c t f IHc IHt IHf] using tree_ind2; intros base h inh anc mf mt pidx r x Ho.
    - cbn [Flat.comp map snd hits root_idx app]. rewrite app_nil_r. reflexivity.
    - cbn [Flat.comp map snd hits root_idx app]. rewrite app_nil_r. reflexivity.
    - destruct (fast_shape fast cs) eqn:Hfs.
      + destruct (fast_shape_inv _ _ Hfs) as (a & b & -> & Ha & Hb & ->).
        rewrite comp_fast_unfold by exact Hfs. cbv zeta. cbn [map snd hits root_idx]. rewrite Hfs.
        assert (Hsz : size (TOp name true [a; b]) = 3%nat) by (cbn [size fold_right]; rewrite (leaf_size a Ha), (leaf_size b Hb); reflexivity).
        rewrite Hsz in Ho. unfold outside in Ho. replace (base =? x) with false by lia. cbn [app]. rewrite app_nil_r. reflexivity.
      + rewrite comp_op_unfold by exact Hfs. rewrite map_app, hits_app. cbn [root_idx]. rewrite Hfs.
        rewrite lenZ_map, lenZ_comp_args.
        assert (Hsz : Z.of_nat (size (TOp name fast cs)) = Z.of_nat (sizes cs) + 1) by (cbn [size]; fold (sizes cs); lia).
        set (ridx := base + Z.of_nat (size (TOp name fast cs)) - 1) in *.
        assert (Hargs : forall R kk n anc' b hh, R <> x -> outside x b (sizes cs) ->
                  hits x b (map snd (comp_args kk n R anc' cs b hh)) = []).
        { clear Hfs Ho Hsz ridx. intros R kk n anc' b hh HR. revert b hh.
          induction IH as [|c0 cs0 Hc _ IHcs]; intros b hh Hb; cbn [Flat.comp_args]; [reflexivity|].
          cbv zeta. rewrite map_app, hits_app. cbn [sizes fold_right] in Hb. fold (sizes cs0) in Hb.
          rewrite Hc by (unfold outside in *; lia). replace (R =? x) with false by lia. cbn [app].
          rewrite lenZ_map, lenZ_comp. apply IHcs. unfold outside in *. lia. }
        rewrite Hargs by (unfold outside, ridx in *; lia). cbn [app map snd hits]. rewrite app_nil_r.
        replace (base + Z.of_nat (sizes cs)) with ridx by (unfold ridx; lia). reflexivity.
    - cbn [Flat.comp]. cbv zeta. cbn [root_idx size] in *. unfold outside in Ho.
      pose proof (size_pos c). pose proof (size_pos t). pose proof (size_pos f).
      rewrite !map_app. cbn [map snd]. rewrite !hits_app. cbn [hits]. rewrite ?lenZ_app, ?lenZ_cons, ?lenZ_map, ?lenZ_comp. change (lenZ (@nil Z)) with 0.
      rewrite IHc, IHt, IHf by (unfold outside; lia).
      replace (base + Z.of_nat (size c) =? x) with false by lia. cbn [app]. rewrite !app_nil_r. reflexivity.
  Qed.

  Lemma hits_args_out R kk n anc' x : R <> x -> forall cs b hh, outside x b (sizes cs) ->
    hits x b (map snd (comp_args kk n R anc' cs b hh)) = [].
  Proof.
    intros HR. induction cs as [|c0 cs0 IH]; intros b hh Hb; cbn [Flat.comp_args]; [reflexivity|].
    cbv zeta. rewrite map_app, hits_app. cbn [sizes fold_right] in Hb. fold (sizes cs0) in Hb.
    rewrite hits_out by (unfold outside in *; lia). replace (R =? x) with false by lia. cbn [app].
    rewrite lenZ_map, lenZ_comp. apply IH. unfold outside in *. lia.
  Qed.

  (* the operands of an operator, found through the parent table: their roots, in order *)
  Fixpoint roots (cs : list tree) (b : Z) : list Z :=
    match cs with [] => [] | c :: cs' => root_idx c b :: roots cs' (b + Z.of_nat (size c)) end.

  Lemma hits_args_roots R kk n anc' : forall cs b hh, outside R b (sizes cs) ->
    hits R b (map snd (comp_args kk n R anc' cs b hh)) = roots cs b.
  Proof.
    induction cs as [|c0 cs0 IH]; intros b hh Hb; cbn [Flat.comp_args roots]; [reflexivity|].
    cbv zeta. rewrite map_app, hits_app. cbn [sizes fold_right] in Hb. fold (sizes cs0) in Hb.
    rewrite hits_out by (unfold outside in *; lia). rewrite Z.eqb_refl. cbn [app]. f_equal.
    rewrite lenZ_map, lenZ_comp. apply IH. unfold outside in *. lia.
  Qed.
End C.

(* ---------- Dump on a program given with its parent table ---------- *)

Section D.
  Variable last : Z.
  Variable full : list (node * Z).
  Variable m : Z.
  Definition PD : prog := {| nodes := map fst full; parents := map snd full; maxStack := m |}.
  Hypothesis NE : Forall (fun np => is_event (fst np) = false) full.

  Notation comp := (comp last).
  Notation comp_args := (comp_args last).
  Notation roots := (roots).

  Lemma node_at cpre code cpost base k nd p :
    full = cpre ++ code ++ cpost -> lenZ cpre = base -> nth_error code k = Some (nd, p) ->
    nthZ (nodes PD) (base + Z.of_nat k) = Some nd.
  Proof.
    intros E Hb Hk. cbn [nodes PD]. rewrite E, !map_app.
    apply (placed_get _ base (map fst code)); [exists (map fst cpre), (map fst cpost); split; [reflexivity|rewrite lenZ_map; exact Hb]|].
    rewrite nth_error_map, Hk. reflexivity.
  Qed.

  (* getChildIdxes before the if/fi selection *)
  Lemma all_children idx :
    map fst (filter (fun ip : Z * Z => (snd ip =? idx) &&
                 match nthZ (nodes PD) (fst ip) with Some nd => negb (is_event nd) | None => false end)
              (combine (map Z.of_nat (seq 0 (length (parents PD)))) (parents PD))) = hits idx 0 (map snd full).
  Proof.
    change 0 with (Z.of_nat 0). rewrite <- (hits_filter idx (map snd full) 0). cbn [parents PD]. f_equal. apply filter_ext_in.
    intros [i p] Hin. cbn [fst snd]. destruct (p =? idx); [|reflexivity]. cbn [andb].
    apply in_combine_l in Hin. apply in_map_iff in Hin. destruct Hin as (k & <- & Hk). apply in_seq in Hk.
    rewrite map_length in Hk. cbn [nodes PD]. unfold nthZ. replace (Z.of_nat k <? 0) with false by lia. rewrite Nat2Z.id.
    destruct (nth_error (map fst full) k) as [nd|] eqn:E.
    - rewrite nth_error_map in E. destruct (nth_error full k) as [[nd' p']|] eqn:E'; [|discriminate]. cbn in E. inversion E; subst.
      rewrite Forall_forall in NE. pose proof (NE (nd, p') (nth_error_In _ _ E')) as Hn. cbn [fst] in Hn. rewrite Hn. reflexivity.
    - exfalso. apply nth_error_None in E. rewrite map_length in E. lia.
  Qed.

  Lemma child_idxes_eq idx : child_idxes PD idx =
    match nthZ (nodes PD) idx with
    | Some nd =>
      if is_cond_kind (kind nd) then
        match hits idx 0 (map snd full) with a :: b :: _ :: d :: _ => Some [a; b; d] | _ => None end
      else Some (hits idx 0 (map snd full))
    | None => None
    end.
  Proof. unfold child_idxes. rewrite all_children. reflexivity. Qed.

  Definition dump_kids (f : nat) (depth : nat) : list Z -> option str :=
    fix go (cs : list Z) : option str :=
      match cs with
      | [] => Some []
      | ci :: cs' =>
        match dump_node PD f ci (S depth), go cs' with
        | Some (cc, true), Some rest => Some (32%N :: cc ++ rest)
        | Some (cc, false), Some rest => Some (10%N :: spaces (2 * S depth) ++ cc ++ rest)
        | _, _ => None
        end
      end.

  Lemma dump_node_S f idx depth : dump_node PD (S f) idx depth =
    match nthZ (nodes PD) idx with
    | None => None
    | Some nd =>
      if childCnt nd =? 0 then
        match kind nd with
        | KEvent _ _ => Some (ss "eventNode", false)
        | KVar n _ => Some (n, true)
        | KOp n | KFast n => Some (40%N :: n ++ [41%N], false)
        | KConst v => Some (show_value v, true)
        | KIf => Some (ss "if", true)
        | KFi => Some (ss "fi", true)
        end
      else
        match child_idxes PD idx with
        | None => None
        | Some cs =>
          match dump_kids f depth cs with
          | Some body => Some (40%N :: node_head (kind nd) ++ body ++ [41%N], false)
          | None => None
          end
        end
    end.
  Proof. reflexivity. Qed.

  Lemma kids_ok f depth : forall idxs ts,
    Forall2 (fun ci tx => dump_node PD f ci (S depth) = Some tx) idxs ts ->
    dump_kids f depth idxs = Some (concat (map (piece depth) ts)).
  Proof.
    induction 1 as [|ci tx idxs ts H _ IH]; [reflexivity|]. cbn [dump_kids]. fold (dump_kids f depth). rewrite H, IH.
    destruct tx as [cc []]; cbn [map concat piece fst snd app]; rewrite <- ?app_assoc; reflexivity.
  Qed.

  Definition ctx_ok (cpre cpost : list (node * Z)) (base : Z) (n : nat) : Prop :=
    forall x, base <= x < base + Z.of_nat n ->
      hits x 0 (map snd cpre) = [] /\ hits x (base + Z.of_nat n) (map snd cpost) = [].

  (* the children of index x inside a fragment placed at base *)
  Lemma hits_full cpre code cpost base x :
    full = cpre ++ code ++ cpost -> lenZ cpre = base -> ctx_ok cpre cpost base (length code) ->
    base <= x < base + Z.of_nat (length code) ->
    hits x 0 (map snd full) = hits x base (map snd code).
  Proof.
    intros E Hb Hc Hx. rewrite E, !map_app, !hits_app, !lenZ_map, Hb. destruct (Hc x Hx) as [H1 H2].
    change (0 + base) with base. unfold lenZ. rewrite H1, H2. cbn [app]. rewrite app_nil_r. reflexivity.
  Qed.

  Definition dump_ok (t : tree) : Prop :=
    forall base h inh anc mf mt pidx r cpre cpost depth fuel,
      full = cpre ++ comp t base h inh anc mf mt pidx r ++ cpost -> lenZ cpre = base ->
      outside pidx base (size t) -> ctx_ok cpre cpost base (size t) -> (size t <= fuel)%nat ->
      dump_node PD fuel (root_idx t base) depth = Some (show t depth).

  Lemma leaf_dump t : is_leaf t = true -> dump_ok t.
  Proof.
    intros Hl base h inh anc mf mt pidx r cpre cpost depth fuel E Hb Ho Hc Hf.
    destruct fuel as [|f]; [pose proof (size_pos t); lia|]. rewrite dump_node_S.
    destruct t as [v|n k| |]; try discriminate; cbn [root_idx Flat.comp] in *.
    - pose proof (node_at cpre _ cpost base 0%nat _ _ E Hb eq_refl) as G. change (Z.of_nat 0) with 0 in G. rewrite Z.add_0_r in G. rewrite G. reflexivity.
    - pose proof (node_at cpre _ cpost base 0%nat _ _ E Hb eq_refl) as G. change (Z.of_nat 0) with 0 in G. rewrite Z.add_0_r in G. rewrite G. reflexivity.
  Qed.

  Lemma leaf_show t depth : is_leaf t = true ->
    show t depth = (match leaf_kind t with KConst v => show_value v | KVar n _ => n | _ => [] end, true).
  Proof. destruct t; try discriminate; reflexivity. Qed.

  Lemma fast_dump name a b : fast_shape true [a; b] = true -> dump_ok (TOp name true [a; b]).
  Proof.
    intros Hfs base h inh anc mf mt pidx r cpre cpost depth fuel E Hb Ho Hc Hf.
    destruct (fast_shape_inv _ _ Hfs) as (a' & b' & E' & Ha & Hb' & _). inversion E'; subst a' b'. clear E'.
    assert (Hsz : size (TOp name true [a; b]) = 3%nat) by (cbn [size fold_right]; rewrite (leaf_size a Ha), (leaf_size b Hb'); reflexivity).
    rewrite Hsz in *. rewrite comp_fast_unfold in E by exact Hfs. cbv zeta in E.
    destruct fuel as [|[|f]]; try lia. cbn [root_idx]. rewrite Hfs.
    pose proof (node_at cpre _ cpost base 0%nat _ _ E Hb eq_refl) as G0. change (Z.of_nat 0) with 0 in G0. rewrite Z.add_0_r in G0.
    pose proof (node_at cpre _ cpost base 1%nat _ _ E Hb eq_refl) as G1. change (Z.of_nat 1) with 1 in G1.
    pose proof (node_at cpre _ cpost base 2%nat _ _ E Hb eq_refl) as G2. change (Z.of_nat 2) with 2 in G2.
    rewrite dump_node_S, G0. cbn [childCnt mk kind]. change (2 =? 0) with false. cbv iota.
    rewrite child_idxes_eq, G0. cbn [kind mk is_cond_kind].
    rewrite (hits_full cpre _ cpost base base E Hb) by (cbn [length]; try assumption; lia).
    cbn [map snd hits]. unfold outside in Ho. replace (pidx =? base) with false by lia. rewrite Z.eqb_refl. cbn [app].
    rewrite (kids_ok (S f) depth [base + 1; base + 1 + 1] [show a (S depth); show b (S depth)]).
    - cbn [show node_head map concat]. rewrite app_nil_r. reflexivity.
    - constructor; [|constructor; [|constructor]].
      + rewrite dump_node_S, G1. cbn [childCnt mk kind]. rewrite (leaf_show a _ Ha). destruct a; try discriminate; reflexivity.
      + replace (base + 1 + 1) with (base + 2) by lia. rewrite dump_node_S, G2. cbn [childCnt mk kind]. rewrite (leaf_show b _ Hb'). destruct b; try discriminate; reflexivity.
  Qed.

  Lemma args_dump R kk n anc' depth f : forall cs, Forall dump_ok cs ->
    forall b hh cpre cpost, full = cpre ++ comp_args kk n R anc' cs b hh ++ cpost -> lenZ cpre = b ->
      outside R b (sizes cs) -> ctx_ok cpre cpost b (sizes cs) -> (sizes cs <= f)%nat ->
      Forall2 (fun ci tx => dump_node PD f ci (S depth) = Some tx) (roots cs b) (map (fun c => show c (S depth)) cs).
  Proof.
    induction 1 as [|c cs Hc _ IH]; intros b hh cpre cpost E Hb Ho Hctx Hf; cbn [DumpStruct.roots map]; [constructor|].
    cbn [Flat.comp_args] in E. cbv zeta in E. cbn [sizes fold_right] in *. fold (sizes cs) in *.
    pose proof (size_pos c) as Hpos.
    match type of E with full = cpre ++ (?A ++ ?B) ++ cpost => set (A0 := A) in *; set (B0 := B) in * end.
    assert (LA : lenZ A0 = Z.of_nat (size c)) by apply lenZ_comp.
    assert (E1 : full = cpre ++ A0 ++ (B0 ++ cpost)) by (rewrite E, <- app_assoc; reflexivity).
    assert (E2 : full = (cpre ++ A0) ++ B0 ++ cpost) by (rewrite E, <- !app_assoc; reflexivity).
    constructor.
    - eapply (Hc b hh false anc' _ _ R kk cpre _ (S depth) f E1 Hb).
      + unfold outside in *. lia.
      + intros x Hx. destruct (Hctx x ltac:(lia)) as [H1 H2]. split; [exact H1|].
        rewrite map_app, hits_app, lenZ_map. unfold B0 at 2. rewrite lenZ_comp_args.
        unfold B0. rewrite hits_args_out by (unfold outside in *; lia). cbn [app].
        replace (b + Z.of_nat (size c) + Z.of_nat (sizes cs)) with (b + Z.of_nat (size c + sizes cs)) by lia. exact H2.
      + lia.
    - eapply (IH (b + Z.of_nat (size c)) (hh + 1) (cpre ++ A0) cpost).
      + exact E2.
      + rewrite lenZ_app, LA. lia.
      + unfold outside in *. lia.
      + intros x Hx. destruct (Hctx x ltac:(lia)) as [H1 H2]. split.
        * rewrite map_app, hits_app, lenZ_map, Hb, H1. change (0 + b) with b. unfold A0.
          rewrite hits_out by (unfold outside; lia). replace (R =? x) with false by (unfold outside in Ho; lia). reflexivity.
        * replace (b + Z.of_nat (size c) + Z.of_nat (sizes cs)) with (b + Z.of_nat (size c + sizes cs)) by lia. exact H2.
      + lia.
  Qed.

  Lemma op_dump name fast cs : fast_shape fast cs = false -> Forall dump_ok cs -> dump_ok (TOp name fast cs).
  Proof.
    intros Hfs IH base h inh anc mf mt pidx r cpre cpost depth fuel E Hb Ho Hc Hf.
    rewrite comp_op_unfold in E by exact Hfs.
    assert (Hsz : size (TOp name fast cs) = S (sizes cs)) by reflexivity.
    set (ridx := base + Z.of_nat (size (TOp name fast cs)) - 1) in *.
    assert (Er : ridx = base + Z.of_nat (sizes cs)) by (unfold ridx; lia).
    destruct fuel as [|f]; [lia|]. cbn [root_idx]. rewrite Hfs. fold ridx.
    set (args := comp_args (op_kind name) (lenZ cs) ridx (if inh then [] else (mf, mt) :: anc) cs base h) in *.
    assert (G : nthZ (nodes PD) ridx = Some (mk last (KOp name) (lenZ cs) mf mt h r)).
    { rewrite Er. apply (node_at cpre _ cpost base (sizes cs) _ pidx E Hb).
      rewrite nth_error_app2 by (unfold args; rewrite comp_args_length; lia).
      unfold args. rewrite comp_args_length, Nat.sub_diag. reflexivity. }
    rewrite dump_node_S, G. cbn [childCnt mk kind].
    destruct cs as [|c0 cs0].
    - reflexivity.
    - replace (lenZ (c0 :: cs0) =? 0) with false by (rewrite lenZ_cons; pose proof (lenZ_nonneg cs0); lia).
      rewrite child_idxes_eq, G. cbn [kind mk is_cond_kind].
      assert (Hlen : length (args ++ [(mk last (KOp name) (lenZ (c0 :: cs0)) mf mt h r, pidx)]) = size (TOp name fast (c0 :: cs0))).
      { rewrite app_length. unfold args. rewrite comp_args_length. cbn [length]. lia. }
      rewrite (hits_full cpre _ cpost base ridx E Hb) by (rewrite Hlen; try assumption; lia).
      rewrite map_app, hits_app, lenZ_map. unfold args at 2. rewrite lenZ_comp_args. cbn [map snd hits].
      replace (pidx =? ridx) with false by (unfold outside in Ho; lia). cbn [app]. rewrite app_nil_r.
      unfold args. rewrite hits_args_roots by (unfold outside; lia).
      rewrite (kids_ok f depth _ (map (fun c => show c (S depth)) (c0 :: cs0))).
      + cbn [show node_head]. rewrite map_map. reflexivity.
      + apply (args_dump ridx (op_kind name) (lenZ (c0 :: cs0)) (if inh then [] else (mf, mt) :: anc) depth f (c0 :: cs0) IH base h cpre
                 ((mk last (KOp name) (lenZ (c0 :: cs0)) mf mt h r, pidx) :: cpost)).
        * rewrite <- app_assoc in E. exact E.
        * exact Hb.
        * unfold outside. lia.
        * intros x Hx. destruct (Hc x ltac:(lia)) as [H1 H2]. split; [exact H1|]. cbn [map snd hits].
          replace (pidx =? x) with false by (unfold outside in Ho; lia). cbn [app].
          replace (base + Z.of_nat (sizes (c0 :: cs0)) + 1) with (base + Z.of_nat (size (TOp name fast (c0 :: cs0)))) by lia. exact H2.
        * lia.
  Qed.

  Lemma if_dump c t f : dump_ok c -> dump_ok t -> dump_ok f -> dump_ok (TIf c t f).
  Proof.
    intros IHc IHt IHf base h inh anc mf mt pidx r cpre cpost depth fuel E Hb Ho Hc Hf.
    cbn [Flat.comp] in E. cbv zeta in E. cbn [size] in *.
    pose proof (size_pos c) as Pc. pose proof (size_pos t) as Pt. pose proof (size_pos f) as Pf.
    set (ifidx := base + Z.of_nat (size c)) in *.
    set (tb := ifidx + 1) in *.
    set (fiidx := tb + Z.of_nat (size t)) in *.
    set (fb := fiidx + 1) in *.
    match type of E with full = cpre ++ (?A ++ [?I] ++ ?B ++ [?J] ++ ?C) ++ cpost =>
      set (CA := A) in *; set (NI := I) in *; set (CB := B) in *; set (NJ := J) in *; set (CC := C) in * end.
    assert (LA : lenZ CA = Z.of_nat (size c)) by apply lenZ_comp.
    assert (LB : lenZ CB = Z.of_nat (size t)) by apply lenZ_comp.
    assert (LC : lenZ CC = Z.of_nat (size f)) by apply lenZ_comp.
    assert (Ec : full = cpre ++ CA ++ ([NI] ++ CB ++ [NJ] ++ CC ++ cpost)) by (rewrite E, <- !app_assoc; reflexivity).
    assert (Et : full = (cpre ++ CA ++ [NI]) ++ CB ++ ([NJ] ++ CC ++ cpost)) by (rewrite E, <- !app_assoc; reflexivity).
    assert (Ef : full = (cpre ++ CA ++ [NI] ++ CB ++ [NJ]) ++ CC ++ cpost) by (rewrite E, <- !app_assoc; reflexivity).
    unfold outside in Ho.
    (* parents inside the fragment, seen from an index x *)
    assert (HA : forall x, outside x base (size c) -> hits x base (map snd CA) = if ifidx =? x then [root_idx c base] else []).
    { intros x Hx. unfold CA. apply hits_out. exact Hx. }
    assert (HB : forall x, outside x tb (size t) -> hits x tb (map snd CB) = if ifidx =? x then [root_idx t tb] else []).
    { intros x Hx. unfold CB. apply hits_out. exact Hx. }
    assert (HC : forall x, outside x fb (size f) -> hits x fb (map snd CC) = if ifidx =? x then [root_idx f fb] else []).
    { intros x Hx. unfold CC. apply hits_out. exact Hx. }
    destruct fuel as [|fu]; [lia|]. cbn [root_idx]. fold ifidx.
    assert (G : nthZ (nodes PD) ifidx = Some (fst NI)).
    { unfold ifidx. apply (node_at cpre _ cpost base (size c) _ (snd NI) E Hb).
      rewrite nth_error_app2 by (unfold CA; rewrite comp_length; lia). unfold CA. rewrite comp_length, Nat.sub_diag. reflexivity. }
    rewrite dump_node_S, G. unfold NI at 1 2. cbn [fst childCnt mk kind]. change (4 =? 0) with false. cbv iota.
    rewrite child_idxes_eq, G. unfold NI at 1. cbn [fst kind mk is_cond_kind].
    assert (Hlen : length (CA ++ [NI] ++ CB ++ [NJ] ++ CC) = (size c + size t + size f + 2)%nat).
    { rewrite !app_length. cbn [length]. unfold lenZ in LA, LB, LC. lia. }
    rewrite (hits_full cpre _ cpost base ifidx E Hb) by (rewrite Hlen; first [exact Hc | unfold ifidx; lia]).
    rewrite !map_app, !hits_app, !lenZ_map, LA, LB. cbn [map snd hits]. rewrite ?lenZ_one. unfold NI, NJ. cbn [snd].
    fold ifidx. fold tb. fold fiidx.
    fold fb.
    rewrite HA, HB, HC by (unfold outside; lia). rewrite !Z.eqb_refl. replace (pidx =? ifidx) with false by lia. cbn [app].
    rewrite (kids_ok fu depth _ [show c (S depth); show t (S depth); show f (S depth)]).
    - reflexivity.
    - constructor; [|constructor; [|constructor; [|constructor]]].
      + apply (IHc base h false [] fnone (root_idx c base) ifidx None cpre _ (S depth) fu Ec Hb).
        * unfold outside. lia.
        * intros x Hx. destruct (Hc x ltac:(lia)) as [H1 H2]. split; [exact H1|].
          rewrite !map_app, !hits_app, !lenZ_map, LB. cbn [map snd hits]. rewrite ?lenZ_one. unfold NI, NJ. cbn [snd].
          fold ifidx. fold tb. fold fiidx.
          fold fb. rewrite LC.
          rewrite HB, HC by (unfold outside; lia). replace (pidx =? x) with false by lia. replace (ifidx =? x) with false by lia. cbn [app].
          replace (fb + Z.of_nat (size f)) with (base + Z.of_nat (size c + size t + size f + 2)) by (unfold fb, fiidx, tb, ifidx; lia). exact H2.
        * lia.
      + apply (IHt tb h true [] _ _ ifidx r (cpre ++ CA ++ [NI]) _ (S depth) fu Et).
        * rewrite !lenZ_app, LA, Hb, lenZ_one. unfold tb, ifidx. lia.
        * unfold outside. lia.
        * intros x Hx. destruct (Hc x ltac:(unfold tb, ifidx in *; lia)) as [H1 H2]. split.
          -- rewrite !map_app, !hits_app, !lenZ_map, Hb, H1. change (0 + base) with base. cbn [map snd hits]. unfold NI. cbn [snd].
             rewrite HA by (unfold outside, tb, ifidx in *; lia). replace (pidx =? x) with false by (unfold tb, ifidx in *; lia).
             replace (ifidx =? x) with false by (unfold tb in *; lia). reflexivity.
          -- rewrite !map_app, !hits_app, !lenZ_map. cbn [map snd hits]. rewrite ?lenZ_one. unfold NJ. cbn [snd]. fold fiidx.
             fold fb. rewrite LC.
             rewrite HC by (unfold outside, fb in *; lia). replace (ifidx =? x) with false by (unfold tb in *; lia). cbn [app].
             replace (fb + Z.of_nat (size f)) with (base + Z.of_nat (size c + size t + size f + 2)) by (unfold fb, fiidx, tb, ifidx; lia). exact H2.
        * lia.
      + apply (IHf fb h true [] _ _ ifidx r (cpre ++ CA ++ [NI] ++ CB ++ [NJ]) cpost (S depth) fu Ef).
        * rewrite !lenZ_app, LA, LB, Hb, !lenZ_one. unfold fb, fiidx, tb, ifidx. lia.
        * unfold outside. unfold fb, fiidx, tb in *. lia.
        * intros x Hx. destruct (Hc x ltac:(unfold fb, fiidx, tb, ifidx in *; lia)) as [H1 H2]. split.
          -- rewrite !map_app, !hits_app, !lenZ_map, Hb, H1, LA, LB. change (0 + base) with base. cbn [map snd hits]. rewrite ?lenZ_one. unfold NI, NJ. cbn [snd].
             fold ifidx. fold tb.
             rewrite HA, HB by (unfold outside, fb, fiidx, tb, ifidx in *; lia).
             replace (pidx =? x) with false by (unfold fb, fiidx, tb, ifidx in *; lia).
             replace (ifidx =? x) with false by (unfold fb, fiidx, tb in *; lia). reflexivity.
          -- replace (fb + Z.of_nat (size f)) with (base + Z.of_nat (size c + size t + size f + 2)) by (unfold fb, fiidx, tb, ifidx; lia). exact H2.
        * lia.
  Qed.

  Theorem dump_all : forall t, dump_ok t.
  Proof.
    induction t as [v|n k|name fast cs IH|c t f IHc IHt IHf] using tree_ind2.
    - apply leaf_dump. reflexivity.
    - apply leaf_dump. reflexivity.
    - destruct (fast_shape fast cs) eqn:Hfs.
      + destruct (fast_shape_inv _ _ Hfs) as (a & b & -> & Ha & Hb & ->). apply fast_dump. exact Hfs.
      + apply op_dump; assumption.
    - apply if_dump; assumption.
  Qed.
End D.

(* ---------- Dump of a compiled tree ---------- *)

Lemma comp_no_event last : forall t base h inh anc mf mt pidx r,
  Forall (fun np : node * Z => is_event (fst np) = false) (comp last t base h inh anc mf mt pidx r).
Proof.
  assert (Hl : forall t, is_event (mk last (leaf_kind t) 0 fnone 0 0 None) = false) by (destruct t; reflexivity).
  induction t as [v|n k|name fast cs IH|c t f IHc IHt IHf] using tree_ind2; intros.
  - repeat constructor.
  - repeat constructor.
  - destruct (fast_shape fast cs) eqn:Hfs.
    + destruct (fast_shape_inv _ _ Hfs) as (a & b & -> & Ha & Hb & ->). rewrite comp_fast_unfold by exact Hfs. cbv zeta.
      repeat constructor; cbn [fst]; [destruct a; try discriminate; reflexivity|destruct b; try discriminate; reflexivity].
    + rewrite comp_op_unfold by exact Hfs. apply Forall_app. split; [|repeat constructor].
      generalize (op_kind name) (lenZ cs) (base + Z.of_nat (size (TOp name fast cs)) - 1) (if inh then [] else (mf, mt) :: anc).
      intros kk n R anc'. clear Hfs. revert base h. induction IH as [|c0 cs0 Hc _ IHcs]; intros b hh; cbn [comp_args]; [constructor|].
      cbv zeta. apply Forall_app. split; [apply Hc|apply IHcs].
  - cbn [comp]. cbv zeta. repeat (apply Forall_app; split); try apply IHc; try apply IHt; try apply IHf; repeat constructor.
Qed.

Lemma last_cons {A} (x : A) l d : last (x :: l) d = last l x.
Proof. revert x d. induction l as [|y l IH]; intros x d; [reflexivity|]. change (last (x :: y :: l) d) with (last (y :: l) d). rewrite !IH. reflexivity. Qed.

Lemma root_index_hits : forall ps s d,
  fold_left (fun acc (ip : Z * Z) => if snd ip =? -1 then fst ip else acc) (combine (map Z.of_nat (seq s (length ps))) ps) d
  = last (hits (-1) (Z.of_nat s) ps) d.
Proof.
  induction ps as [|p ps IH]; intros s d; [reflexivity|].
  cbn [length seq map combine fold_left fst snd hits]. rewrite IH. replace (Z.of_nat s + 1) with (Z.of_nat (S s)) by lia.
  destruct (p =? -1); cbn [app]; [rewrite last_cons|]; reflexivity.
Qed.

Theorem dump_compile t : dump (compile t) = Some (fst (show t 0)).
Proof.
  set (lastI := Z.of_nat (size t) - 1).
  set (code := comp lastI t 0 0 false [] fnone (root_idx t 0) (-1) None).
  assert (EP : compile t = PD code (maxStack (compile t))) by reflexivity.
  rewrite EP. unfold dump.
  assert (Hroot : root_index (PD code (maxStack (compile t))) = root_idx t 0).
  { unfold root_index. cbn [parents PD]. rewrite (root_index_hits (map snd code) 0 0). change (Z.of_nat 0) with 0.
    unfold code. rewrite hits_out by (unfold outside; lia). reflexivity. }
  rewrite Hroot.
  rewrite (dump_all lastI code (maxStack (compile t)) (comp_no_event lastI t 0 0 false [] fnone (root_idx t 0) (-1) None) t
             0 0 false [] fnone (root_idx t 0) (-1) None [] [] 0%nat).
  - destruct (show t 0). reflexivity.
  - rewrite app_nil_r. reflexivity.
  - reflexivity.
  - unfold outside. lia.
  - intros x _. split; reflexivity.
  - cbn [nodes PD]. unfold code. rewrite map_length, comp_length. lia.
Qed.

Print Assumptions dump_compile.
