(* PrintProofs.v — strconv.ParseInt inverts the decimal printer used by Dump (strconv.FormatInt), on all of int64. *)
Require Import Base Opcode Tables Ops Tree Opt Flat Run Directives Print.
From Coq Require Import ZifyBool ZifyN.
Open Scope Z_scope.
Open Scope list_scope.

Lemma digit_char n : 0 <= n < 10 -> is_digit (Z.to_N (48 + n)) = true /\ digit_val (Z.to_N (48 + n)) = n.
Proof. intros H. unfold is_digit, digit_val. split; lia. Qed.

Lemma show_digits_spec fuel : forall n acc, 0 <= n < 10 ^ Z.of_nat (S fuel) ->
  exists ds p, show_digits (S fuel) n acc = ds ++ acc /\
    (exists d more, ds = d :: more /\ is_digit d = true) /\
    forall a rest, digits_val a (ds ++ rest) = digits_val (a * p + n) rest.
Proof.
  induction fuel as [|f IH]; intros n acc Hn; cbn [show_digits]; destruct (n <? 10) eqn:E.
  1,3: exists [Z.to_N (48 + n)], 10; destruct (digit_char n ltac:(lia)) as [D1 D2]; (split; [reflexivity|]); (split; [eauto|]);
       intros a rest; cbn [app digits_val]; rewrite D1, D2; reflexivity.
  - change (10 ^ Z.of_nat 1) with 10 in Hn. lia.
  - assert (Hq : 0 <= n / 10 < 10 ^ Z.of_nat (S f)).
    { rewrite (Nat2Z.inj_succ (S f)), Z.pow_succ_r in Hn by lia. split; [apply Z.div_pos; lia|]. apply Z.div_lt_upper_bound; lia. }
    destruct (IH (n / 10) (Z.to_N (48 + n mod 10) :: acc) Hq) as (ds & p & E1 & (d & more & E2 & Hd) & Hv).
    exists (ds ++ [Z.to_N (48 + n mod 10)]), (p * 10). split; [cbn [show_digits] in E1; rewrite E1, <- app_assoc; reflexivity|]. split.
    + rewrite E2. cbn [app]. eauto.
    + intros a rest. rewrite <- app_assoc. cbn [app]. rewrite Hv. cbn [digits_val].
      destruct (digit_char (n mod 10) ltac:(pose proof (Z.mod_pos_bound n 10); lia)) as [D1 D2]. rewrite D1, D2.
      f_equal. pose proof (Z.div_mod n 10 ltac:(lia)). lia.
Qed.

Lemma two63_lt : two63 < 10 ^ Z.of_nat 25.
Proof. reflexivity. Qed.

Lemma parse_int_digits d more : is_digit d = true ->
  parse_int (d :: more) = match digits_val 0 (d :: more) with Some v => if in_i64 v then Some v else None | None => None end.
Proof.
  intros Hd.
  assert (Hc : (d = 48 \/ d = 49 \/ d = 50 \/ d = 51 \/ d = 52 \/ d = 53 \/ d = 54 \/ d = 55 \/ d = 56 \/ d = 57)%N) by (unfold is_digit in Hd; lia).
  repeat (destruct Hc as [->|Hc]; [reflexivity|]). subst d. reflexivity.
Qed.

Theorem parse_show_Z z : in_i64 z = true -> parse_int (show_Z z) = Some z.
Proof.
  intros H. pose proof two63_lt as T. unfold in_i64 in H. unfold show_Z.
  destruct (z <? 0) eqn:E.
  - destruct (show_digits_spec 24 (- z) [] ltac:(lia)) as (ds & p & E1 & (d & more & E2 & Hd) & Hv).
    rewrite E1, app_nil_r. unfold parse_int. rewrite E2. rewrite <- E2.
    specialize (Hv 0 []). rewrite app_nil_r in Hv. rewrite Hv. cbn [digits_val].
    replace (- (0 * p + - z)) with z by lia. unfold in_i64. replace ((- two63 <=? z) && (z <? two63)) with true by lia. reflexivity.
  - destruct (show_digits_spec 24 z [] ltac:(lia)) as (ds & p & E1 & (d & more & E2 & Hd) & Hv).
    rewrite E1, app_nil_r.
    rewrite E2, (parse_int_digits d more Hd). rewrite <- E2.
 specialize (Hv 0 []). rewrite app_nil_r in Hv. rewrite Hv. cbn [digits_val].
    replace (0 * p + z) with z by lia. unfold in_i64. replace ((- two63 <=? z) && (z <? two63)) with true by lia. reflexivity.
Qed.
