(* SourceProofs.v — from text to tree: the whole front end (lex, drop comments, check, parse) applied to ANY layout of
   the tokens of an expression yields the expression's tree — prefix notation (what Dump prints) and infix notation. *)
Require Import Base Opcode Tables Ops Tree Opt Flat Run CompFacts Directives Lexer Parser LexProofs InfixProofs PrefixProofs.
From Coq Require Import ZifyBool.
Open Scope Z_scope.
Open Scope list_scope.

Ltac ne := repeat (let H := fresh in intros H; apply app_eq_nil in H; destruct H as [_ H]; revert H); first [discriminate | assumption].

(* ---------- parser.check on printed trees (prefix) ---------- *)

Section Pre.
  Variable c : pconf.
  Variable show : Z -> str.

  Notation ttoks := (ttoks show).
  Notation twf := (twf c).

  Definition plain_tok (t : tok) : bool :=
    match t with KInt _ | KStr _ | KIdent _ => true | _ => false end.

  (* inside an open parenthesis (cnt >= 1) and followed by something, a printed tree passes the check *)
  Lemma check_ttoks : forall t, twf t -> forall rest cnt fst, 1 <= cnt -> rest <> [] ->
    check_loop true (ttoks t ++ rest) cnt false fst = check_loop true rest cnt false false.
  Proof.
    assert (Hopen : forall ts cnt fst, ts <> [] -> 1 <= cnt ->
              check_loop true (KLParen :: ts) cnt false fst = check_loop true ts (cnt + 1) false false).
    { intros ts cnt fst Hr Hc. cbn [check_loop]. replace (cnt + 1 <? 0) with false by lia.
      replace (cnt + 1 =? 0) with false by lia. cbn [andb]. destruct ts; [congruence|]. reflexivity. }
    assert (Hclose : forall rest cnt, rest <> [] -> 1 <= cnt ->
              check_loop true (KRParen :: rest) (cnt + 1) false false = check_loop true rest cnt false false).
    { intros rest cnt Hr Hc. cbn [check_loop]. replace (cnt + 1 - 1) with cnt by lia. replace (cnt <? 0) with false by lia.
      replace (cnt =? 0) with false by lia. cbn [andb]. destruct rest; [congruence|]. reflexivity. }
    assert (Hplain : forall ts rest cnt fst, Forall (fun t => plain_tok t = true) ts -> rest <> [] ->
              check_loop true (ts ++ rest) cnt false fst = check_loop true rest cnt false (match ts with [] => fst | _ => false end)).
    { induction ts as [|t ts IH]; intros rest cnt fst H Hr; [reflexivity|]. inversion H; subst.
      cbn [app check_loop]. destruct t; try discriminate; rewrite IH by assumption; destruct ts; reflexivity. }
    assert (Hfirst : forall rest cnt fst, rest <> [] -> check_loop true rest cnt false fst = check_loop true rest cnt false false).
    { intros rest cnt fst Hr. destruct rest as [|t rest]; [congruence|]. destruct t; reflexivity. }
    induction t as [v|n k|name fast cs IH|a b d IHa IHb IHd] using tree_ind2; intros Hw rest cnt fst Hc Hr.
    - destruct v as [z|[]|s|li|ls|si|ss'| | |o]; cbn [PrefixProofs.twf vwf] in Hw; try contradiction; cbn [PrefixProofs.ttoks vtoks];
        try (cbn [app check_loop]; apply Hfirst; exact Hr).
      + cbn [app]. rewrite <- app_assoc. cbn [app]. rewrite Hopen by (try assumption; destruct (map _ _); discriminate).
        rewrite Hplain; [|apply Forall_forall; intros x Hx; apply in_map_iff in Hx; destruct Hx as (? & <- & _); reflexivity|discriminate].
        rewrite (Hfirst (KRParen :: rest)) by discriminate. apply Hclose; assumption.
      + cbn [app]. rewrite <- app_assoc. cbn [app]. rewrite Hopen by (try assumption; destruct (map _ _); discriminate).
        rewrite Hplain; [|apply Forall_forall; intros x Hx; apply in_map_iff in Hx; destruct Hx as (? & <- & _); reflexivity|discriminate].
        rewrite (Hfirst (KRParen :: rest)) by discriminate. apply Hclose; assumption.
    - cbn [PrefixProofs.ttoks app check_loop]. apply Hfirst. exact Hr.
    - apply twf_op in Hw. destruct Hw as (_ & _ & Hcs). cbn [PrefixProofs.ttoks app]. rewrite <- app_assoc. cbn [app].
      rewrite Hopen by (try assumption; discriminate). cbn [app check_loop].
      assert (E : forall fst0, check_loop true (flat_map ttoks cs ++ KRParen :: rest) (cnt + 1) false fst0
                  = check_loop true (KRParen :: rest) (cnt + 1) false false).
      { clear -IH Hcs Hfirst Hc. induction IH as [|x l Hx _ IHl]; intros fst0.
        - cbn [flat_map app]. apply Hfirst. discriminate.
        - inversion Hcs; subst. cbn [flat_map]. rewrite <- app_assoc. rewrite Hx; [|assumption|lia|ne].
          apply IHl. assumption. }
      rewrite E. apply Hclose; assumption.
    - destruct Hw as (Hwa & Hwb & Hwd). cbn [PrefixProofs.ttoks app]. rewrite <- !app_assoc. cbn [app].
      rewrite Hopen by (try assumption; discriminate). cbn [app check_loop].
      rewrite IHa; [|assumption|lia|ne].
      rewrite IHb; [|assumption|lia|ne].
      rewrite IHd; [|assumption|lia|discriminate].
      apply Hclose; assumption.
  Qed.
End Pre.

(* ---------- prefix notation: any layout of the printed tokens reads back as the tree ---------- *)

Section PreSrc.
  Variable c : pconf.
  Variable show : Z -> str.
  Hypothesis show_ok : forall z, in_i64 z = true -> parse_int (show z) = Some z.

  Notation ttoks := (ttoks show).
  Notation twf := (twf c).

  Lemma check_children cs : Forall twf cs -> forall rest cnt fst, 1 <= cnt -> rest <> [] ->
    check_loop true (flat_map ttoks cs ++ rest) cnt false fst = check_loop true rest cnt false false.
  Proof.
    induction 1 as [|x l Hx _ IH]; intros rest cnt fst Hc Hr.
    - cbn [flat_map app]. destruct rest as [|t rest]; [congruence|]. destruct t; reflexivity.
    - cbn [flat_map]. rewrite <- app_assoc. rewrite (check_ttoks c show x Hx) by (try assumption; ne). apply IH; assumption.
  Qed.

  (* an operator or `if` at the root: the token check of parser.check passes *)
  Lemma check_top t : twf t -> is_leaf t = false -> check_tokens false (ttoks t) = true.
  Proof.
    intros Hw Hl.
    assert (Hshape : exists body, ttoks t = KLParen :: body ++ [KRParen] /\
              forall fst, check_loop true (body ++ [KRParen]) 1 false fst = check_loop true [KRParen] 1 false false).
    { destruct t as [v|n k|name fast cs|a b d]; try discriminate.
      - apply twf_op in Hw. destruct Hw as (_ & _ & Hcs). exists (KIdent name :: flat_map ttoks cs). split; [reflexivity|].
        intros fst. cbn [app check_loop]. apply check_children; [exact Hcs|lia|discriminate].
      - destruct Hw as (Ha & Hb & Hd). exists (KIdent (ss keyword_if) :: ttoks a ++ ttoks b ++ ttoks d). split; [cbn [PrefixProofs.ttoks app]; rewrite <- !app_assoc; reflexivity|].
        intros fst. cbn [app check_loop]. rewrite <- !app_assoc.
        rewrite (check_ttoks c show a Ha) by (try lia; ne). rewrite (check_ttoks c show b Hb) by (try lia; ne).
        rewrite (check_ttoks c show d Hd) by (try lia; ne). reflexivity. }
    destruct Hshape as (body & E & Hb). rewrite E. unfold check_tokens.
    change (KLParen :: body ++ [KRParen]) with ((KLParen :: body) ++ [KRParen]) at 1. rewrite last_last.
    cbn [negb andb]. cbn [check_loop]. change (0 + 1) with 1. change (1 <? 0) with false. change (1 =? 0) with false.
    cbn [andb negb]. rewrite Hb. reflexivity.
  Qed.

  Theorem prefix_source items t :
    wf_items is_letter_tab is_number_tab false items -> drop_comments (map fst items) = ttoks t -> twf t -> is_leaf t = false ->
    parse_source c false (render items) = Some (strip t).
  Proof.
    intros Hi E Hw Hl. unfold parse_source, lex_tab, lex.
    rewrite (lex_render is_letter_tab is_number_tab false items _ [] Hi (Forall_nil _)) by (cbn [app]; lia).
    rewrite E. rewrite (check_top t Hw Hl).
    apply parse_prefix_correct; assumption.
  Qed.

  Theorem prefix_source_any s toks t :
    lex_tab false s = Some toks -> drop_comments toks = ttoks t -> twf t -> is_leaf t = false ->
    parse_source c false s = Some (strip t).
  Proof.
    intros Hl E Hw Hleaf. unfold parse_source. rewrite Hl, E, (check_top t Hw Hleaf).
    apply parse_prefix_correct; assumption.
  Qed.
End PreSrc.

(* ---------- infix notation ---------- *)

Section InSrc.
  Variable c : pconf.

  (* the tokens of a leaf pass parser.check wherever they stand *)
  Definition acheck (ts : list tok) : Prop :=
    forall rest cnt fst, 0 <= cnt -> check_loop false (ts ++ rest) cnt false fst = check_loop false rest cnt false false.

  Fixpoint ichk (e : iexp) : Prop :=
    match e with
    | IAtom ts _ => acheck ts
    | IParen e | INot e => ichk e
    | IBin _ l r => ichk l /\ ichk r
    | ICall _ args => (fix all (l : list iexp) : Prop := match l with [] => True | a :: l' => ichk a /\ all l' end) args
    end.

  Lemma ichk_call f args : ichk (ICall f args) <-> Forall ichk args.
  Proof.
    cbn [ichk]. induction args as [|a l IH]; [split; auto|]. rewrite IH. split; [intros [H1 H2]; constructor; assumption|intros H; inversion H; auto].
  Qed.

  Lemma chk_first rest cnt fst : check_loop false rest cnt false fst = check_loop false rest cnt false false.
  Proof. destruct rest as [|t rest]; [reflexivity|]. destruct t; reflexivity. Qed.

  Lemma chk_open rest cnt fst : 0 <= cnt -> check_loop false (KLParen :: rest) cnt false fst = check_loop false rest (cnt + 1) false false.
  Proof. intros H. cbn [check_loop]. replace (cnt + 1 <? 0) with false by lia. reflexivity. Qed.
  Lemma chk_close rest cnt fst : 0 <= cnt -> check_loop false (KRParen :: rest) (cnt + 1) false fst = check_loop false rest cnt false false.
  Proof. intros H. cbn [check_loop]. replace (cnt + 1 - 1) with cnt by lia. replace (cnt <? 0) with false by lia. reflexivity. Qed.
  Lemma chk_comma rest cnt fst : 0 <= cnt -> check_loop false (KComma :: rest) cnt false fst = check_loop false rest cnt false false.
  Proof. intros H. cbn [check_loop]. replace (cnt <? 0) with false by lia. reflexivity. Qed.
  Lemma chk_ident s rest cnt fst : check_loop false (KIdent s :: rest) cnt false fst = check_loop false rest cnt false false.
  Proof. reflexivity. Qed.

  Lemma check_itoks : forall e, ichk e -> forall rest cnt fst, 0 <= cnt ->
    check_loop false (itoks e ++ rest) cnt false fst = check_loop false rest cnt false false.
  Proof.
    induction e as [ts t|e IH|e IH|op l r IHl IHr|fname args IH] using iexp_ind2; intros Hk rest cnt fst Hc.
    - apply Hk. exact Hc.
    - cbn [itoks app]. rewrite <- app_assoc. cbn [app]. rewrite chk_open by lia. rewrite IH by (try assumption; lia). apply chk_close. lia.
    - cbn [itoks app]. rewrite chk_ident. apply IH; assumption.
    - destruct Hk as [Hl Hr]. cbn [itoks]. rewrite <- app_assoc. cbn [app]. rewrite IHl by assumption. rewrite chk_ident. apply IHr; assumption.
    - apply ichk_call in Hk. rewrite itoks_call. cbn [app]. rewrite chk_ident, chk_open by lia. rewrite <- app_assoc. cbn [app].
      assert (E : forall fst0, check_loop false (isep args ++ KRParen :: rest) (cnt + 1) false fst0 = check_loop false (KRParen :: rest) (cnt + 1) false false).
      { clear -IH Hk Hc. induction IH as [|a l Ha _ IHl]; intros fst0.
        - cbn [isep app]. apply chk_first.
        - inversion Hk; subst. destruct l as [|b l'].
          + cbn [isep]. apply Ha; [assumption|lia].
          + change (isep (a :: b :: l')) with (itoks a ++ KComma :: isep (b :: l')). rewrite <- app_assoc. cbn [app].
            rewrite Ha by (try assumption; lia). rewrite chk_comma by lia. apply IHl. assumption. }
      rewrite E. apply chk_close. lia.
  Qed.

  Theorem infix_source items e :
    wf_items is_letter_tab is_number_tab true items -> drop_comments (map fst items) = itoks e -> iwf c e -> ichk e ->
    parse_source c true (render items) = Some (itree c e).
  Proof.
    intros Hi E Hw Hk. unfold parse_source, lex_tab, lex.
    rewrite (lex_render is_letter_tab is_number_tab true items _ [] Hi (Forall_nil _)) by (cbn [app]; lia).
    rewrite E.
    assert (Hchk : check_tokens true (itoks e) = true).
    { unfold check_tokens. destruct (itoks e) eqn:Et.
      - exfalso. pose proof (parse_infix_correct c e Hw) as P. rewrite Et in P. discriminate.
      - rewrite <- Et. cbn [negb andb]. pose proof (check_itoks e Hk [] 0 true ltac:(lia)) as H. rewrite app_nil_r in H. rewrite H. reflexivity. }
    rewrite Hchk. apply parse_infix_correct. exact Hw.
  Qed.

  (* the same for ANY source text whose tokens (comments dropped) are the expression's - whatever the layout, the glued
     `!ident` spelling of infix notation included: the parsed tree depends on the token sequence only *)
  Theorem infix_source_any s toks e :
    lex_tab true s = Some toks -> drop_comments toks = itoks e -> iwf c e -> ichk e ->
    parse_source c true s = Some (itree c e).
  Proof.
    intros Hl E Hw Hk. unfold parse_source. rewrite Hl, E.
    assert (Hchk : check_tokens true (itoks e) = true).
    { unfold check_tokens. destruct (itoks e) eqn:Et.
      - exfalso. pose proof (parse_infix_correct c e Hw) as P. rewrite Et in P. discriminate.
      - rewrite <- Et. cbn [negb andb]. pose proof (check_itoks e Hk [] 0 true ltac:(lia)) as H. rewrite app_nil_r in H. rewrite H. reflexivity. }
    rewrite Hchk. apply parse_infix_correct. exact Hw.
  Qed.

  (* ----- the leaves an infix expression is built from ----- *)

  Lemma atom_int s z : parse_int s = Some z -> iwf c (IAtom [KInt s] (TConst (VInt z))) /\ acheck [KInt s].
  Proof. intros H. split; [split; [discriminate|]; intros rest; cbn [app leaf]; rewrite H; reflexivity|intros rest cnt fst _; reflexivity]. Qed.

  Lemma atom_str s : iwf c (IAtom [KStr s] (TConst (VStr s))) /\ acheck [KStr s].
  Proof. split; [split; [discriminate|]; intros rest; reflexivity|intros rest cnt fst _; reflexivity]. Qed.

  Lemma atom_var n k : builtin_const n = None -> assoc n (p_consts c) = None -> assoc n (p_vars c) = Some k ->
    iwf c (IAtom [KIdent n] (TVar n k)) /\ acheck [KIdent n].
  Proof. intros H1 H2 H3. split; [split; [discriminate|]; intros rest; cbn [app leaf]; rewrite H1, H2, H3; reflexivity|intros rest cnt fst _; reflexivity]. Qed.

  Lemma atom_bool (b : bool) : iwf c (IAtom [KIdent (ss (if b then "true"%string else "false"%string))] (TConst (VBool b))) /\ acheck [KIdent (ss (if b then "true"%string else "false"%string))].
  Proof. split; [split; [discriminate|]; intros rest; destruct b; reflexivity|intros rest cnt fst _; reflexivity]. Qed.

  Lemma atom_const n v : builtin_const n = None -> assoc n (p_consts c) = Some v ->
    iwf c (IAtom [KIdent n] (TConst v)) /\ acheck [KIdent n].
  Proof. intros H1 H2. split; [split; [discriminate|]; intros rest; cbn [app leaf]; rewrite H1, H2; reflexivity|intros rest cnt fst _; reflexivity]. Qed.

  Lemma collect_b_ints l : forall rest acc,
    collect_list true is_rbracket (map KInt l ++ KRBracket :: rest) acc = Some (rev acc ++ l, Some rest).
  Proof.
    induction l as [|z l IH]; intros rest acc; cbn [map app collect_list is_rbracket].
    - rewrite app_nil_r. reflexivity.
    - rewrite IH. cbn [rev]. rewrite <- app_assoc. reflexivity.
  Qed.
  Lemma collect_b_strs l : forall rest acc,
    collect_list false is_rbracket (map KStr l ++ KRBracket :: rest) acc = Some (rev acc ++ l, Some rest).
  Proof.
    induction l as [|z l IH]; intros rest acc; cbn [map app collect_list is_rbracket].
    - rewrite app_nil_r. reflexivity.
    - rewrite IH. cbn [rev]. rewrite <- app_assoc. reflexivity.
  Qed.

  Lemma chk_bracket (body : list tok) : Forall (fun t => plain_tok t = true) body ->
    acheck (KLBracket :: body ++ [KRBracket]).
  Proof.
    intros Hb rest cnt fst Hc. cbn [app check_loop]. rewrite <- app_assoc. cbn [app].
    replace (cnt <? 0) with false by lia. cbn [andb negb].
    assert (E : forall fst0, check_loop false (body ++ KRBracket :: rest) cnt true fst0 = check_loop false rest cnt false false).
    { induction Hb as [|t body Ht _ IH]; intros fst0.
      - cbn [app check_loop]. replace (cnt <? 0) with false by lia. reflexivity.
      - cbn [app check_loop]. destruct t; try discriminate; apply IH. }
    apply E.
  Qed.

  Lemma atom_int_list (l : list str) zs : l <> [] -> all_parse_int l = Some zs ->
    iwf c (IAtom (KLBracket :: map KInt l ++ [KRBracket]) (TConst (VIntL zs))) /\ acheck (KLBracket :: map KInt l ++ [KRBracket]).
  Proof.
    intros Hn Hp. split; [|apply chk_bracket; apply Forall_forall; intros x Hx; apply in_map_iff in Hx; destruct Hx as (? & <- & _); reflexivity].
    split; [discriminate|]. intros rest. destruct l as [|s l]; [congruence|].
    cbn [map app leaf parse_list is_lbracket is_rbracket tok_is_int]. rewrite <- app_assoc. cbn [app].
    change (KInt s :: map KInt l ++ KRBracket :: rest) with (map KInt (s :: l) ++ KRBracket :: rest).
    rewrite (collect_b_ints (s :: l) rest []). cbn [rev app]. rewrite Hp. reflexivity.
  Qed.

  Lemma atom_str_list (l : list str) :
    iwf c (IAtom (KLBracket :: map KStr l ++ [KRBracket]) (TConst (VStrL l))) /\ acheck (KLBracket :: map KStr l ++ [KRBracket]).
  Proof.
    split; [|apply chk_bracket; apply Forall_forall; intros x Hx; apply in_map_iff in Hx; destruct Hx as (? & <- & _); reflexivity].
    split; [discriminate|]. intros rest. destruct l as [|s l]; [reflexivity|].
    cbn [map app leaf parse_list is_lbracket is_rbracket tok_is_int tok_is_str]. rewrite <- app_assoc. cbn [app].
    change (KStr s :: map KStr l ++ KRBracket :: rest) with (map KStr (s :: l) ++ KRBracket :: rest).
    rewrite (collect_b_strs (s :: l) rest []). reflexivity.
  Qed.
End InSrc.

(* ---------- infix = prefix ---------- *)

Section Same.
  Variable c : pconf.
  Variable show : Z -> str.
  Hypothesis show_ok : forall z, in_i64 z = true -> parse_int (show z) = Some z.

  Fixpoint atoms_leaf (e : iexp) : Prop :=
    match e with
    | IAtom _ t => is_leaf t = true
    | IParen e | INot e => atoms_leaf e
    | IBin _ l r => atoms_leaf l /\ atoms_leaf r
    | ICall _ args => (fix all (l : list iexp) : Prop := match l with [] => True | a :: l' => atoms_leaf a /\ all l' end) args
    end.

  Lemma strip_parent name cs : Forall (fun t => strip t = t) cs -> strip (parent c name cs) = parent c name cs.
  Proof.
    intros H. unfold parent, build_parent. destruct (is_keyword name).
    - destruct (str_eqb name (ss keyword_if)); [|reflexivity].
      destruct cs as [|a [|b [|d [|x cs]]]]; try reflexivity.
      inversion H as [|? ? Ha H1]; subst. inversion H1 as [|? ? Hb H2]; subst. inversion H2 as [|? ? Hd _]; subst.
      cbn [strip]. rewrite Ha, Hb, Hd. reflexivity.
    - destruct (is_operator c name); [|reflexivity]. cbn [strip]. f_equal.
      induction H as [|x l Hx _ IH]; [reflexivity|]. cbn [map]. rewrite Hx, IH. reflexivity.
  Qed.

  Lemma strip_itree : forall e, atoms_leaf e -> strip (itree c e) = itree c e.
  Proof.
    induction e as [ts t|e IH|e IH|op l r IHl IHr|fname args IH] using iexp_ind2; cbn [atoms_leaf itree]; intros Ha.
    - destruct t; try discriminate; reflexivity.
    - apply IH, Ha.
    - apply strip_parent. repeat constructor. apply IH, Ha.
    - apply strip_parent. destruct Ha. repeat constructor; [apply IHl|apply IHr]; assumption.
    - apply strip_parent. induction IH as [|a l Hx _ IHl]; [constructor|]. destruct Ha as [Ha1 Ha2]. cbn [map]. constructor; [apply Hx, Ha1|apply IHl, Ha2].
  Qed.

  (* an infix expression compiles to the tree of its prefix form *)
  Theorem infix_is_prefix e : iwf c e -> atoms_leaf e -> twf c (itree c e) ->
    parse_infix c (itoks e) = parse_prefix c false (ttoks show (itree c e)).
  Proof.
    intros Hw Ha Ht. rewrite (parse_infix_correct c e Hw), (parse_prefix_correct c show show_ok _ Ht), (strip_itree e Ha). reflexivity.
  Qed.
End Same.
