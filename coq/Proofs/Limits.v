(* Limits.v — what an accepted program satisfies (C09): the node count is the tree size and at most 32767,
   every operator has at most 127 operands, and every field of every compiled node fits the narrow integer
   type the Go code stores it in (int8 childCnt, int16 scIdx/osTop/parentIdx/maxStackSize), so the model's
   unbounded integers and Go's fixed-width ones agree on accepted programs. *)
Require Import Base Opcode Tables Ops Tree Opt Flat Run CompFacts EvalTop.
From Coq Require Import ZifyBool.
Open Scope Z_scope.
Open Scope list_scope.

Fixpoint check_list (cs : list tree) (acc : Z) : cerr + Z :=
  match cs with
  | [] => let s := acc + 1 in if max_nodes <? s then inl (CTooManyNodes s) else inr s
  | c :: cs' => match check c with inl e => inl e | inr n => check_list cs' (acc + n) end
  end.

Lemma check_op name fast cs :
  check (TOp name fast cs) = if max_children <? lenZ cs then inl (CTooManyParams (lenZ cs)) else check_list cs 0.
Proof.
  cbn [check]. destruct (max_children <? lenZ cs); [reflexivity|].
  generalize 0 as acc. induction cs as [|c cs IH]; intros acc; cbn [check_list]; [reflexivity|].
  destruct (check c); [reflexivity|]. apply IH.
Qed.

Fixpoint ops_ok (t : tree) : Prop :=
  match t with
  | TConst _ | TVar _ _ => True
  | TOp _ _ cs => lenZ cs <= max_children /\ (fix all (l : list tree) : Prop := match l with [] => True | c :: l' => ops_ok c /\ all l' end) cs
  | TIf c t f => ops_ok c /\ ops_ok t /\ ops_ok f
  end.

Lemma ops_ok_op name fast cs : ops_ok (TOp name fast cs) <-> lenZ cs <= max_children /\ Forall ops_ok cs.
Proof.
  cbn [ops_ok]. split; intros [H1 H2]; (split; [exact H1|]); clear H1.
  - induction cs as [|c cs IH]; [constructor|]. destruct H2. constructor; auto.
  - induction H2 as [|c cs Hc _ IH]; [exact I|]. split; assumption.
Qed.

Theorem check_accepts t : forall n, check t = inr n ->
  n = Z.of_nat (size t) /\ n <= max_nodes /\ ops_ok t.
Proof.
  induction t as [v|nm k|name fast cs IH|c t f IHc IHt IHf] using tree_ind2; intros n H.
  - cbn [check] in H. inversion H; subst. split; [reflexivity|split; [unfold max_nodes; lia|exact I]].
  - cbn [check] in H. inversion H; subst. split; [reflexivity|split; [unfold max_nodes; lia|exact I]].
  - rewrite check_op in H. destruct (max_children <? lenZ cs) eqn:Hw; [discriminate|].
    assert (E : forall acc s, check_list cs acc = inr s ->
                s = acc + Z.of_nat (sizes cs) + 1 /\ s <= max_nodes /\ Forall ops_ok cs).
    { clear H Hw. induction IH as [|c cs0 Hc _ IHcs]; intros acc s Hs; cbn [check_list] in Hs.
      - cbv zeta in Hs. destruct (max_nodes <? acc + 1) eqn:E; [discriminate|]. inversion Hs; subst.
        cbn [sizes fold_right]. repeat split; try lia. constructor.
      - destruct (check c) as [e|m] eqn:Ec; [discriminate|]. destruct (Hc m eq_refl) as (Hm & _ & Ho).
        destruct (IHcs _ _ Hs) as (H1 & H2 & H3). cbn [sizes fold_right]. fold (sizes cs0).
        repeat split; try lia. constructor; assumption. }
    destruct (E 0 n H) as (H1 & H2 & H3). cbn [size]. fold (sizes cs).
    split; [lia|split; [lia|]]. apply ops_ok_op. split; [lia|exact H3].
  - cbn [check] in H. destruct (check c) as [|nc] eqn:Ec; [discriminate|].
    destruct (check t) as [|nt] eqn:Et; [discriminate|]. destruct (check f) as [|nf] eqn:Ef; [discriminate|].
    cbv zeta in H. destruct (max_nodes <? nc + nt + nf + 1 + 1) eqn:E; [discriminate|]. inversion H; subst.
    destruct (IHc _ eq_refl) as (? & ? & ?). destruct (IHt _ eq_refl) as (? & ? & ?). destruct (IHf _ eq_refl) as (? & ? & ?).
    cbn [size ops_ok]. split; [lia|split; [lia|]]. repeat split; assumption.
Qed.

(* rejection is for exactly the two stated reasons, and an accepted child count is small *)
Theorem check_rejects t e : check t = inl e ->
  match e with CTooManyParams n => max_children < n | CTooManyNodes n => max_nodes < n | CTooManyEventNodes _ => False end.
Proof.
  induction t as [v|nm k|name fast cs IH|c t f IHc IHt IHf] using tree_ind2; intros H.
  - discriminate.
  - discriminate.
  - rewrite check_op in H. destruct (max_children <? lenZ cs) eqn:Hw; [inversion H; subst; lia|].
    clear Hw. revert H. generalize 0 as acc. induction IH as [|c cs0 Hc _ IHcs]; intros acc Hs; cbn [check_list] in Hs.
    + cbv zeta in Hs. destruct (max_nodes <? acc + 1) eqn:E; [inversion Hs; subst; lia|discriminate].
    + destruct (check c) as [e'|m] eqn:Ec; [inversion Hs; subst; apply Hc; reflexivity|]. eapply IHcs; eauto.
  - cbn [check] in H. destruct (check c) as [e1|nc] eqn:Ec; [inversion H; subst; apply IHc; reflexivity|].
    destruct (check t) as [e2|nt] eqn:Et; [inversion H; subst; apply IHt; reflexivity|].
    destruct (check f) as [e3|nf] eqn:Ef; [inversion H; subst; apply IHf; reflexivity|].
    cbv zeta in H. destruct (max_nodes <? nc + nt + nf + 1 + 1) eqn:E; [inversion H; subst; lia|discriminate].
Qed.

(* ---------- ranges of the compiled fields ---------- *)

Definition os_lo (code : list (node * Z)) : Prop := forall k nd p, nth_error code k = Some (nd, p) -> -1 <= osTop nd.

Lemma Forall_nth {A} (Q : A -> Prop) l : (forall k x, nth_error l k = Some x -> Q x) <-> Forall Q l.
Proof.
  split.
  - induction l as [|a l IH]; intros H; [constructor|]. constructor; [apply (H 0%nat); reflexivity|].
    apply IH. intros k x Hk. apply (H (S k)). exact Hk.
  - intros H k x Hk. rewrite Forall_forall in H. apply H. eapply nth_error_In; eauto.
Qed.

Lemma comp_os_lo last t : forall base h inh anc mf mt pidx r, 0 <= h ->
  Forall (fun x => -1 <= osTop (fst x)) (comp last t base h inh anc mf mt pidx r).
Proof.
  induction t as [v|nm k|name fast cs IH|c t f IHc IHt IHf] using tree_ind2; intros base h inh anc mf mt pidx r Hh.
  - repeat constructor. cbn. lia.
  - repeat constructor. cbn. lia.
  - destruct (fast_shape fast cs) eqn:Hfs.
    + destruct (fast_shape_inv _ _ Hfs) as (a & b & -> & Ha & Hb & ->).
      rewrite comp_fast_unfold by exact Hfs. cbv zeta. repeat constructor; cbn; lia.
    + rewrite comp_op_unfold by exact Hfs. clear Hfs. apply Forall_app. split; [|repeat constructor; cbn; lia].
      generalize (op_kind name) as kk. generalize (lenZ cs) as n. generalize (base + Z.of_nat (size (TOp name fast cs)) - 1) as ridx.
      generalize (if inh then [] else (mf, mt) :: anc) as anc'. intros anc' ridx n kk. revert base h Hh.
      induction IH as [|c0 cs0 Hc _ IHcs]; intros b hh Hhh; cbn [comp_args]; [constructor|].
      cbv zeta. apply Forall_app. split; [apply Hc; lia|apply IHcs; lia].
  - cbn [comp]. cbv zeta. repeat (apply Forall_app; split); try (repeat constructor; cbn [osTop mk fst]; lia); auto.
Qed.

Definition fits16 (z : Z) : Prop := -32768 <= z <= 32767.
Definition fits8 (z : Z) : Prop := -128 <= z <= 127.

Lemma comp_childcnt last t : ops_ok t -> forall base h inh anc mf mt pidx r,
  Forall (fun x => 0 <= childCnt (fst x) <= max_children) (comp last t base h inh anc mf mt pidx r).
Proof.
  induction t as [v|nm k|name fast cs IH|c t f IHc IHt IHf] using tree_ind2; intros Hok base h inh anc mf mt pidx r.
  - repeat constructor; cbn; unfold max_children; lia.
  - repeat constructor; cbn; unfold max_children; lia.
  - apply ops_ok_op in Hok. destruct Hok as [Hw Hcs]. destruct (fast_shape fast cs) eqn:Hfs.
    + destruct (fast_shape_inv _ _ Hfs) as (a & b & -> & Ha & Hb & ->).
      rewrite comp_fast_unfold by exact Hfs. cbv zeta. repeat constructor; cbn; unfold max_children; lia.
    + rewrite comp_op_unfold by exact Hfs. clear Hfs. apply Forall_app. split.
      * generalize (op_kind name) as kk. generalize (lenZ cs) as n. generalize (base + Z.of_nat (size (TOp name fast cs)) - 1) as ridx.
        generalize (if inh then [] else (mf, mt) :: anc) as anc'. intros anc' ridx n kk. clear Hw. revert base h.
        induction IH as [|c0 cs0 Hc _ IHcs]; intros b hh; cbn [comp_args]; [constructor|].
        inversion Hcs; subst. cbv zeta. apply Forall_app. split; [apply Hc; assumption|apply IHcs; assumption].
      * repeat constructor; cbn [childCnt mk fst]; [apply lenZ_nonneg|exact Hw].
  - destruct Hok as (Hc & Ht & Hf). cbn [comp]. cbv zeta.
    repeat (apply Forall_app; split); try (repeat constructor; cbn [childCnt mk fst]; unfold max_children; lia); auto.
Qed.

(* accepted programs: length, slots, operand counts and the stack size fit the narrow integer types *)
Theorem accepted_in_range t n : check t = inr n ->
  let P := compile t in
  lenZ (nodes P) = n /\ n <= max_nodes /\
  Forall (fun nd => fits16 (osTop nd) /\ fits8 (childCnt nd)) (nodes P) /\
  fits16 (maxStack P).
Proof.
  intros H P. destruct (check_accepts t n H) as (Hn & Hmax & Hok).
  assert (HL : lenZ (nodes P) = n) by (unfold P; rewrite compile_len; lia).
  split; [exact HL|]. split; [exact Hmax|].
  assert (Hos : Forall (fun nd => -1 <= osTop nd <= n - 1 /\ 0 <= childCnt nd <= max_children) (nodes P)).
  { unfold P. rewrite compile_nodes. apply Forall_nth. intros k nd Hk. rewrite nth_error_map in Hk.
    destruct (nth_error (comp _ t 0 0 false [] fnone (root_idx t 0) (-1) None) k) as [[nd' p]|] eqn:E; [|discriminate].
    cbn in Hk. inversion Hk; subst nd'.
    pose proof (comp_os_ok _ _ _ _ _ _ _ _ _ _ _ _ _ E) as Hup.
    assert (k < size t)%nat by (apply nth_error_Some_lt in E || (assert (Hk' : nth_error (comp (Z.of_nat (size t) - 1) t 0 0 false [] fnone (root_idx t 0) (-1) None) k <> None) by congruence; apply nth_error_Some in Hk'; rewrite comp_length in Hk'; exact Hk')).
    pose proof (comp_os_lo (Z.of_nat (size t) - 1) t 0 0 false [] fnone (root_idx t 0) (-1) None ltac:(lia)) as Hlo.
    rewrite Forall_forall in Hlo. specialize (Hlo (nd, p) (nth_error_In _ _ E)). cbn [fst] in Hlo.
    pose proof (comp_childcnt (Z.of_nat (size t) - 1) t Hok 0 0 false [] fnone (root_idx t 0) (-1) None) as Hcc.
    rewrite Forall_forall in Hcc. specialize (Hcc (nd, p) (nth_error_In _ _ E)). cbn [fst] in Hcc.
    split; [lia|exact Hcc]. }
  split.
  - eapply Forall_impl; [|exact Hos]. intros nd [[H1 H2] [H3 H4]]. unfold fits16, fits8, max_nodes, max_children in *. lia.
  - unfold fits16. unfold P, compile. cbn [maxStack].
    assert (Hms : forall l d, d <= n -> Forall (fun x => x <= n) l -> max_list l d <= n).
    { unfold max_list. induction l as [|x l IHl]; intros d Hd Hl; cbn [fold_left]; [exact Hd|]. inversion Hl; subst. apply IHl; [lia|assumption]. }
    pose proof (max_list_le (map (fun nd : node * Z => osTop (fst nd) + 1) (comp (Z.of_nat (size t) - 1) t 0 0 false [] fnone (root_idx t 0) (-1) None)) 1).
    assert (1 <= n) by (pose proof (size_pos t); lia).
    split; [lia|].
    eapply Z.le_trans; [apply Hms; [lia|]|unfold max_nodes in Hmax; lia].
    apply Forall_forall. intros x Hx. apply in_map_iff in Hx. destruct Hx as [[nd p] [<- Hin]]. cbn [fst].
    unfold P in Hos. rewrite compile_nodes in Hos. rewrite Forall_forall in Hos.
    specialize (Hos nd ltac:(apply in_map_iff; exists (nd, p); split; [reflexivity|exact Hin])). lia.
Qed.
