(* OptValue.v — C02, third clause: with Reordering off, every configuration returns the unoptimised value whenever
   plain left-to-right short-circuit evaluation succeeds. Each of the three order-preserving passes (constant folding,
   nesting reduction, fast marking) preserves a successful value of `sem`. *)
Require Import Base Opcode Tables Ops Tree Opt Flat Run CompFacts SemFacts Reorder Fold EvalDefs EvalCorrect OptSound.
From Coq Require Import ZifyBool.
Open Scope Z_scope.
Open Scope list_scope.

Section V.
  Variable fetch : str -> Z -> res value.
  Variable custom : str -> list value -> res value.
  Notation sem := (sem fetch custom).
  Notation sem_args := (sem_args fetch custom).
  Notation apply_op := (apply_op custom).

  (* the value component *)
  Definition val (t : tree) : res value := snd (sem t).
  Definition vargs (name : str) (cs : list tree) (acc : list value) : res value := snd (sem_args name cs acc).

  Definition lastflag (c : tree) (cs' : list tree) (acc : list value) : bool :=
    match cs' with [] => can_be_last c && (2 <=? lenZ (c :: cs') + lenZ acc) | _ => false end.

  Lemma vargs_nil name acc : vargs name [] acc = apply_op name (rev acc).
  Proof. reflexivity. Qed.

  Lemma vargs_cons name c cs' acc : vargs name (c :: cs') acc =
    match val c with
    | Ok v => if operand_result (op_kind name) (lastflag c cs' acc) v then Ok v else vargs name cs' (v :: acc)
    | Err e => Err e
    end.
  Proof.
    unfold vargs, val. cbn [Tree.sem_args]. destruct (sem c) as [tr [v|e]]; [|reflexivity]. cbv zeta. cbn [snd].
    unfold lastflag. destruct (operand_result _ _ v); reflexivity.
  Qed.

  Lemma val_op name fast cs : fast_shape fast cs = false -> val (TOp name fast cs) = vargs name cs [].
  Proof. intros H. unfold val, vargs. rewrite (sem_op fetch custom name fast cs H). reflexivity. Qed.

  Lemma val_if c t f : val (TIf c t f) =
    match val c with
    | Ok (VBool true) => val t
    | Ok (VBool false) => val f
    | Ok _ => Err ECondNotBool
    | Err e => Err e
    end.
  Proof.
    unfold val. cbn [Tree.sem]. destruct (sem c) as [tr [v|e]]; [|reflexivity].
    destruct v as [z|[]|s|li|ls|si|ss'| | |o]; reflexivity.
  Qed.

  Lemma val_const v : val (TConst v) = Ok v. Proof. reflexivity. Qed.

  (* a child is replaced by one that returns the same value whenever the original returns one, and is an `if` exactly
     when the original is *)
  Definition keeps (c c' : tree) : Prop := can_be_last c = can_be_last c' /\ forall v, val c = Ok v -> val c' = Ok v.

  Lemma Forall2_lenZ {A B} (R : A -> B -> Prop) l l' : Forall2 R l l' -> lenZ l = lenZ l'.
  Proof. induction 1; [reflexivity|]. rewrite !lenZ_cons. lia. Qed.

  Lemma vargs_keeps name : forall cs cs', Forall2 keeps cs cs' -> forall acc v,
    vargs name cs acc = Ok v -> vargs name cs' acc = Ok v.
  Proof.
    induction 1 as [|c c' cs cs' [Hl Hk] HF IH]; intros acc v H; [exact H|].
    rewrite vargs_cons in *. destruct (val c) as [v0|e] eqn:Ec; [|discriminate]. rewrite (Hk v0 eq_refl).
    assert (El : lastflag c cs acc = lastflag c' cs' acc).
    { unfold lastflag. rewrite !lenZ_cons, (Forall2_lenZ _ _ _ HF), Hl. inversion HF; reflexivity. }
    rewrite <- El. destruct (operand_result _ _ v0); [exact H|]. apply IH. exact H.
  Qed.

  (* ---------- constant folding ---------- *)
  Variable cfg : config.

  Fixpoint nofast (t : tree) : Prop :=
    match t with
    | TOp _ fast cs => fast = false /\ (fix all (l : list tree) : Prop := match l with [] => True | a :: l' => nofast a /\ all l' end) cs
    | TIf c t f => nofast c /\ nofast t /\ nofast f
    | _ => True
    end.

  Lemma nofast_op name fast cs : nofast (TOp name fast cs) <-> fast = false /\ Forall nofast cs.
  Proof.
    cbn [nofast]. assert (E : forall l, (fix all (l : list tree) : Prop := match l with [] => True | a :: l' => nofast a /\ all l' end) l <-> Forall nofast l).
    { induction l as [|a l IH]; [split; auto|]. rewrite IH. split; [intros [H1 H2]; constructor; assumption|intros H; inversion H; auto]. }
    rewrite E. tauto.
  Qed.

  (* a constant VBool d among the (folded) operands decides the and/or *)
  Lemma scan_decides name d : op_kind name = Some d -> forall cs cs', Forall2 keeps cs cs' -> forall b acc v,
    bool_scan d cs' = Some (Some b) -> vargs name cs acc = Ok v -> v = VBool d.
  Proof.
    intros Hk. induction 1 as [|c c' cs cs' [Hl Hkp] HF IH]; intros b acc v Hs H; [discriminate|].
    rewrite vargs_cons, Hk in H. destruct (val c) as [v0|e] eqn:Ec; [|discriminate].
    pose proof (Hkp v0 eq_refl) as Ec'.
    assert (Hlast : lastflag c cs acc = true -> cs' = []).
    { unfold lastflag. destruct cs; [intros _; inversion HF; reflexivity|discriminate]. }
    destruct (operand_result (Some d) (lastflag c cs acc) v0) eqn:Eo.
    - inversion H; subst v0. clear H. destruct v as [z|b0|s|li|ls|si|ss'| | |o]; try discriminate. cbn [operand_result] in Eo.
      apply orb_prop in Eo. destruct Eo as [Eo|Eo]; [apply eqb_prop in Eo; subst; reflexivity|].
      (* the last operand: then nothing after it could have been the deciding constant *)
      rewrite (Hlast Eo) in Hs. destruct c' as [cv| | |]; cbn [bool_scan] in Hs; try discriminate.
      destruct cv as [z|b1|s|li|ls|si|ss'| | |o]; try discriminate.
      rewrite val_const in Ec'. inversion Ec'; subst b1. destruct (Bool.eqb b0 d) eqn:Eb; [apply eqb_prop in Eb; subst; reflexivity|discriminate].
    - destruct c' as [cv| | |]; cbn [bool_scan] in Hs; try (eapply IH; eassumption).
      destruct cv as [z|b1|s|li|ls|si|ss'| | |o]; try discriminate.
      rewrite val_const in Ec'. inversion Ec'; subst v0. cbn [operand_result] in Eo. apply orb_false_elim in Eo. destruct Eo as [Eo _].
      rewrite Eo in Hs. eapply IH; eassumption.
  Qed.

  (* all (folded) operands are constants and none decides: the evaluation applies the operator to them (or returns the
     last boolean, which is what the operator returns) *)
  Lemma consts_apply name : forall cs cs', Forall2 keeps cs cs' -> forall vs acc v,
    all_consts cs' = Some vs ->
    (forall d, op_kind name = Some d -> bool_scan d cs' = Some None /\ Forall (fun x => x = VBool (negb d)) acc) ->
    vargs name cs acc = Ok v -> apply_op name (rev acc ++ vs) = Ok v.
  Proof.
    induction 1 as [|c c' cs cs' [Hl Hkp] HF IH]; intros vs acc v Ha Hd H.
    - cbn [all_consts] in Ha. inversion Ha; subst vs. rewrite app_nil_r. exact H.
    - destruct c' as [cv| | |]; cbn [all_consts] in Ha; try discriminate.
      destruct (all_consts cs') as [vt|] eqn:Et; [|discriminate]. inversion Ha; subst vs. clear Ha.
      rewrite vargs_cons in H. destruct (val c) as [v0|e] eqn:Ec; [|discriminate].
      pose proof (Hkp v0 eq_refl) as Ec'. rewrite val_const in Ec'. inversion Ec'; subst v0. clear Ec'.
      destruct (op_kind name) as [d|] eqn:Hk.
      + destruct (Hd d eq_refl) as [Hs Hacc]. cbn [bool_scan] in Hs.
        destruct cv as [z|b|s|li|ls|si|ss'| | |o]; try discriminate.
        destruct (Bool.eqb b d) eqn:Eb; [discriminate|].
        assert (Hb : b = negb d) by (destruct b, d; try reflexivity; discriminate).
        cbn [operand_result] in H. rewrite Eb in H. cbn [orb] in H.
        destruct (lastflag c cs acc) eqn:El.
        * clear Hb. inversion H; subst v. clear H. unfold lastflag in El. destruct cs as [|c2 cs2]; [|discriminate].
          inversion HF; subst. cbn [all_consts] in Et. inversion Et; subst vt.
          apply andb_prop in El. destruct El as [_ El]. rewrite lenZ_cons in El. change (lenZ (@nil tree)) with 0 in El.
          replace (rev acc ++ [VBool b]) with (rev (VBool b :: acc)) by reflexivity.
          apply (last_operand_rule custom name d b acc Hk); [destruct acc; [cbn in El; lia|discriminate]|exact Hacc].
        * replace (rev acc ++ VBool b :: vt) with (rev (VBool b :: acc) ++ vt) by (cbn [rev]; rewrite <- app_assoc; reflexivity).
          apply IH; [reflexivity| |exact H]. intros d' Hd'. inversion Hd'; subst d'. split; [exact Hs|]. constructor; [rewrite Hb; reflexivity|exact Hacc].
      + cbn [operand_result] in H.
        replace (rev acc ++ cv :: vt) with (rev (cv :: acc) ++ vt) by (cbn [rev]; rewrite <- app_assoc; reflexivity).
        apply IH; [reflexivity| |exact H]. intros d' Hd'. discriminate.
  Qed.

  Definition keeps_val (f : tree -> tree) (t : tree) : Prop := forall v, val t = Ok v -> val (f t) = Ok v.

  Lemma cfold_can_be_last t : can_be_last (fst (cfold custom cfg t)) = can_be_last t.
  Proof.
    destruct t as [v|n k|name fast cs|c t f]; try reflexivity. cbn [cfold fst can_be_last].
    unfold fold_node. destruct (stateless_fn custom cfg name) as [fn|]; [|reflexivity].
    destruct (op_kind name) as [d|].
    - destruct (bool_scan d _) as [[b|]|]; try reflexivity. destruct (all_consts _) as [vs|]; [|reflexivity]. destruct (fn vs); reflexivity.
    - destruct (all_consts _) as [vs|]; [|reflexivity]. destruct (fn vs); reflexivity.
  Qed.

  Theorem cfold_value : forall t, nofast t -> keeps_val (fun t => fst (cfold custom cfg t)) t.
  Proof.
    induction t as [v|n k|name fast cs IH|c t f IHc IHt IHf] using tree_ind2; intros Hn v0 H.
    - exact H.
    - exact H.
    - apply nofast_op in Hn. destruct Hn as [-> Hn].
      assert (HK : Forall2 keeps cs (map (fun c => fst (cfold custom cfg c)) cs)).
      { clear H. induction IH as [|c cs' Hc _ IHl]; [constructor|]. inversion Hn; subst. constructor; [|apply IHl; assumption].
        split; [symmetry; apply cfold_can_be_last|]. intros v Hv. apply (Hc ltac:(assumption) v Hv). }
      rewrite val_op in H by reflexivity.
      cbn [cfold fst]. rewrite map_map. set (cs' := map (fun c => fst (cfold custom cfg c)) cs) in *.
      assert (Hkeep : val (TOp name false cs') = Ok v0).
      { rewrite val_op by reflexivity. eapply vargs_keeps; eassumption. }
      unfold fold_node. destruct (stateless_fn custom cfg name) as [fn|] eqn:Es; [|exact Hkeep].
      destruct (op_kind name) as [d|] eqn:Hk.
      + destruct (bool_scan d cs') as [[b|]|] eqn:Eb; [| |exact Hkeep].
        * cbn [fst]. rewrite val_const. f_equal. rewrite (scan_decides name d Hk cs cs' HK b [] v0 Eb H).
          destruct (bool_scan_decides _ _ _ Eb) as [-> _]. reflexivity.
        * destruct (all_consts cs') as [vs|] eqn:Ea; [|exact Hkeep]. destruct (fn vs) as [r|e] eqn:Ef; [|exact Hkeep].
          cbn [fst]. rewrite val_const. f_equal.
          pose proof (consts_apply name cs cs' HK vs [] v0 Ea) as A. cbn [rev app] in A.
          rewrite (stateless_fn_apply custom cfg name fn Es) in Ef. rewrite A in Ef; [inversion Ef; reflexivity| |exact H].
          intros d' Hd'. rewrite Hk in Hd'. inversion Hd'; subst d'. split; [exact Eb|constructor].
      + destruct (all_consts cs') as [vs|] eqn:Ea; [|exact Hkeep]. destruct (fn vs) as [r|e] eqn:Ef; [|exact Hkeep].
        cbn [fst]. rewrite val_const. f_equal.
        pose proof (consts_apply name cs cs' HK vs [] v0 Ea) as A. cbn [rev app] in A.
        rewrite (stateless_fn_apply custom cfg name fn Es) in Ef. rewrite A in Ef; [inversion Ef; reflexivity| |exact H].
        intros d' Hd'. rewrite Hk in Hd'. discriminate.
    - destruct Hn as (Hc & Ht & Hf). cbn [cfold fst]. rewrite val_if in *.
      destruct (val c) as [vc|e] eqn:Ec; [|discriminate]. rewrite (IHc Hc vc Ec).
      destruct vc as [z|[]|s|li|ls|si|ss'| | |o]; try discriminate; [apply IHt|apply IHf]; assumption.
  Qed.

  (* ---------- and/or on boolean-valued operands: what a successful evaluation is ---------- *)

  (* the boolean an operand evaluates to, if it does *)
  Definition obool (c : tree) : option bool := match val c with Ok (VBool b) => Some b | _ => None end.

  (* left to right over the operands' booleans; cnt = number of operands already passed *)
  Fixpoint scanb (d : bool) (l : list (option bool)) (cnt : nat) : option bool :=
    match l with
    | [] => if (2 <=? cnt)%nat then Some (negb d) else None
    | None :: _ => None
    | Some b :: l' => if Bool.eqb b d then Some d else scanb d l' (S cnt)
    end.

  Definition all_nd (d : bool) (acc : list value) : Prop := Forall (fun x => x = VBool (negb d)) acc.

  (* every operand that evaluates, evaluates to a boolean *)
  Definition typed_ops (cs : list tree) : Prop := Forall (fun c => forall v, val c = Ok v -> exists b, v = VBool b) cs.

  Lemma apply_few name d acc : op_kind name = Some d -> (length acc < 2)%nat -> forall v, apply_op name (rev acc) <> Ok v.
  Proof.
    intros Hk Hl v. unfold Tree.apply_op.
    assert (Hb : builtin name = Some (OLogic LAnd) \/ builtin name = Some (OLogic LOr)).
    { destruct d; [right; apply is_or_builtin; apply (op_kind_or _ Hk)|left; apply is_and_builtin; apply (op_kind_and _ Hk)]. }
    destruct Hb as [-> | ->]; cbn [apply_opcode]; unfold logic; rewrite rev_length;
      replace (length acc <? 2)%nat with true by (symmetry; apply Nat.ltb_lt; exact Hl); discriminate.
  Qed.

  Lemma apply_all_nd name d acc : op_kind name = Some d -> all_nd d acc -> (2 <= length acc)%nat ->
    apply_op name (rev acc) = Ok (VBool (negb d)).
  Proof.
    intros Hk Ha Hl. destruct acc as [|x acc']; [cbn in Hl; lia|]. inversion Ha; subst.
    apply (last_operand_rule custom name d (negb d) acc' Hk); [destruct acc'; [cbn in Hl; lia|discriminate]|assumption].
  Qed.

  Lemma vargs_scanb name d : op_kind name = Some d -> forall cs, typed_ops cs -> forall acc, all_nd d acc ->
    forall v, vargs name cs acc = Ok v <-> exists b, scanb d (map obool cs) (length acc) = Some b /\ v = VBool b.
  Proof.
    intros Hk. induction cs as [|c cs IH]; intros Ht acc Ha v.
    - rewrite vargs_nil. cbn [map scanb]. destruct (2 <=? length acc)%nat eqn:E.
      + apply Nat.leb_le in E. rewrite (apply_all_nd name d acc Hk Ha E). split.
        * intros H. inversion H. eexists. split; reflexivity.
        * intros (b & Hb & ->). inversion Hb. reflexivity.
      + apply Nat.leb_gt in E. split; [intros H; exfalso; eapply apply_few; eauto|intros (b & Hb & _); discriminate].
    - inversion Ht as [|? ? Hc Hcs]; subst. rewrite vargs_cons, Hk. cbn [map scanb]. unfold obool at 1.
      destruct (val c) as [v0|e] eqn:Ec.
      + destruct (Hc v0 eq_refl) as [b0 ->]. cbn [operand_result].
        destruct (Bool.eqb b0 d) eqn:Eb.
        * cbn [orb]. apply eqb_prop in Eb. subst b0. split; [intros H; inversion H; eexists; split; reflexivity|intros (b & Hb & ->); inversion Hb; reflexivity].
        * cbn [orb]. assert (Hb0 : b0 = negb d) by (destruct b0, d; try reflexivity; discriminate).
          destruct (lastflag c cs acc) eqn:El.
          -- unfold lastflag in El. destruct cs as [|c2 cs2]; [|discriminate]. apply andb_prop in El. destruct El as [_ El].
             rewrite lenZ_cons in El. change (lenZ (@nil tree)) with 0 in El. cbn [map scanb].
             assert (Hl : (2 <=? S (length acc))%nat = true) by (apply Nat.leb_le; unfold lenZ in El; lia). rewrite Hl.
             split; [intros H; inversion H; subst; eexists; split; reflexivity|intros (b & Hb & ->); inversion Hb; subst; reflexivity].
          -- rewrite (IH Hcs (VBool b0 :: acc)) by (constructor; [rewrite Hb0; reflexivity|exact Ha]). cbn [length]. reflexivity.
      + split; [discriminate|intros (b & Hb & _); discriminate].
  Qed.

  (* ---------- nesting reduction ---------- *)

  Notation den := (den fetch custom).
  Notation wt := (wt fetch custom).
  Notation boolish := (boolish fetch custom).

  Lemma typed_of_wt c : wt c -> boolish c -> forall v, val c = Ok v -> exists b, v = VBool b.
  Proof.
    intros Hw Hb v Hv. pose proof (sem_refines_den fetch custom c Hw v Hv) as Hd.
    destruct Hb as [Hn|[b Hb]]; [congruence|]. rewrite Hb in Hd. inversion Hd. eauto.
  Qed.

  Lemma typed_ops_of cs : Forall wt cs -> Forall boolish cs -> typed_ops cs.
  Proof.
    intros Hw. induction Hw as [|c cs Hc _ IH]; intros Hb; [constructor|]. inversion Hb; subst.
    constructor; [apply typed_of_wt; assumption|apply IH; assumption].
  Qed.

  Lemma scanb_decided d : forall g c0, scanb d g c0 = Some d -> forall ys c, scanb d (g ++ ys) c = Some d.
  Proof.
    induction g as [|[b|] g IH]; intros c0 H ys c; cbn [scanb app] in *.
    - destruct (2 <=? c0)%nat; [inversion H; destruct d; discriminate|discriminate].
    - destruct (Bool.eqb b d); [reflexivity|]. eapply IH; eassumption.
    - discriminate.
  Qed.

  Lemma scanb_undecided d : forall g c0, scanb d g c0 = Some (negb d) ->
    (2 <= c0 + length g)%nat /\ forall ys c, scanb d (g ++ ys) c = scanb d ys (c + length g).
  Proof.
    induction g as [|[b|] g IH]; intros c0 H; cbn [scanb app length] in *.
    - destruct (2 <=? c0)%nat eqn:E; [|discriminate]. apply Nat.leb_le in E. split; [lia|]. intros ys c. rewrite Nat.add_0_r. reflexivity.
    - destruct (Bool.eqb b d) eqn:Eb; [inversion H; destruct d; discriminate|].
      destruct (IH (S c0) H) as [H1 H2]. split; [lia|]. intros ys c. rewrite H2. f_equal. lia.
    - discriminate.
  Qed.

  Lemma scanb_mono d : forall ys c c' b, scanb d ys c = Some b -> (c <= c')%nat -> scanb d ys c' = Some b.
  Proof.
    induction ys as [|[b0|] ys IH]; intros c c' b H Hc; cbn [scanb] in *.
    - destruct (2 <=? c)%nat eqn:E; [|discriminate]. apply Nat.leb_le in E. replace (2 <=? c')%nat with true by (symmetry; apply Nat.leb_le; lia). exact H.
    - destruct (Bool.eqb b0 d); [exact H|]. eapply IH; [exact H|lia].
    - discriminate.
  Qed.

  (* splicing the operands of an inner group in place of the group's own result *)
  Lemma scanb_splice d g : forall xs ys cnt b,
    scanb d (xs ++ scanb d g 0 :: ys) cnt = Some b -> scanb d (xs ++ g ++ ys) cnt = Some b.
  Proof.
    induction xs as [|[bx|] xs IH]; intros ys cnt b H; cbn [app scanb] in *.
    - destruct (scanb d g 0) as [x|] eqn:Eg; [|discriminate].
      destruct (Bool.eqb x d) eqn:Ex.
      + apply eqb_prop in Ex. subst x. inversion H; subst b. eapply scanb_decided. exact Eg.
      + assert (Hx : x = negb d) by (destruct x, d; try reflexivity; discriminate). subst x.
        destruct (scanb_undecided d g 0 Eg) as [H1 H2]. rewrite H2. eapply scanb_mono; [exact H|lia].
    - destruct (Bool.eqb bx d); [exact H|]. apply IH. exact H.
    - discriminate.
  Qed.

  Lemma obool_group name d gcs : op_kind name = Some d -> typed_ops gcs ->
    obool (TOp name false gcs) = scanb d (map obool gcs) 0.
  Proof.
    intros Hk Ht. unfold obool at 1. rewrite val_op by reflexivity.
    pose proof (vargs_scanb name d Hk gcs Ht [] (Forall_nil _)) as A. cbn [length] in A.
    destruct (vargs name gcs []) as [v|e] eqn:Ev.
    - destruct (proj1 (A v) eq_refl) as (b & Hb & ->). rewrite Hb. reflexivity.
    - destruct (scanb d (map obool gcs) 0) as [b|] eqn:Es; [|reflexivity].
      pose proof (proj2 (A (VBool b)) (ex_intro _ b (conj eq_refl eq_refl))) as C. discriminate.
  Qed.

  Lemma flatten_scanb ra d : (forall n, is_boolop n = true -> Bool.eqb (is_and n) ra = true -> op_kind n = Some d) ->
    forall cs l, flatten ra cs = Some l -> Forall nofast cs -> Forall wt cs ->
    forall pre cnt b, scanb d (pre ++ map obool cs) cnt = Some b -> scanb d (pre ++ map obool l) cnt = Some b.
  Proof.
    intros Hd. induction cs as [|c cs IH]; intros l Hf Hn Hw pre cnt b H; cbn [flatten] in Hf.
    - inversion Hf; subst. exact H.
    - inversion Hn as [|? ? Hnc Hn']; subst. inversion Hw as [|? ? Hwc Hw']; subst.
      destruct c as [v|n k|n fast gcs|c1 c2 c3].
      + destruct (flatten ra cs) as [l'|] eqn:E; [|discriminate]. inversion Hf; subst. cbn [map] in *.
        replace (pre ++ obool (TConst v) :: map obool l') with ((pre ++ [obool (TConst v)]) ++ map obool l') by (rewrite <- app_assoc; reflexivity).
        apply IH; [reflexivity|assumption|assumption|]. rewrite <- app_assoc. exact H.
      + destruct (flatten ra cs) as [l'|] eqn:E; [|discriminate]. inversion Hf; subst. cbn [map] in *.
        replace (pre ++ obool (TVar n k) :: map obool l') with ((pre ++ [obool (TVar n k)]) ++ map obool l') by (rewrite <- app_assoc; reflexivity).
        apply IH; [reflexivity|assumption|assumption|]. rewrite <- app_assoc. exact H.
      + destruct (is_boolop n && Bool.eqb (is_and n) ra) eqn:Eb; [|discriminate]. apply andb_prop in Eb. destruct Eb as [Eb1 Eb2].
        destruct (flatten ra cs) as [l'|] eqn:E; [|discriminate]. inversion Hf; subst.
        apply nofast_op in Hnc. destruct Hnc as [-> Hng]. apply wt_op in Hwc. destruct Hwc as [Hwg Hbg].
        pose proof (Hd n Eb1 Eb2) as Hk.
        assert (Ht : typed_ops gcs) by (apply typed_ops_of; [exact Hwg|eapply Hbg; exact Hk]).
        cbn [map] in H. rewrite (obool_group n d gcs Hk Ht) in H.
        rewrite map_app. apply scanb_splice.
        replace (pre ++ scanb d (map obool gcs) 0 :: map obool l') with ((pre ++ [scanb d (map obool gcs) 0]) ++ map obool l') by (rewrite <- app_assoc; reflexivity).
        apply IH; [reflexivity|assumption|assumption|]. rewrite <- app_assoc. exact H.
      + discriminate.
  Qed.

  Lemma nest_can_be_last t : can_be_last (nest t) = can_be_last t.
  Proof.
    destruct t as [v|n k|name fast cs|c t f]; try reflexivity. cbn [nest].
    destruct (is_boolop name); [|reflexivity]. destruct (flatten _ _); reflexivity.
  Qed.

  Lemma flatten_nofast ra : forall cs l, flatten ra cs = Some l -> Forall nofast cs -> Forall nofast l.
  Proof.
    induction cs as [|c cs IH]; intros l Hf Hn; cbn [flatten] in Hf.
    - inversion Hf; subst. constructor.
    - inversion Hn as [|? ? Hnc Hn']; subst. destruct c as [v|n k|n fast gcs|c1 c2 c3].
      + destruct (flatten ra cs) as [l'|] eqn:E; [|discriminate]. inversion Hf; subst. constructor; [exact I|auto].
      + destruct (flatten ra cs) as [l'|] eqn:E; [|discriminate]. inversion Hf; subst. constructor; [exact I|auto].
      + destruct (is_boolop n && Bool.eqb (is_and n) ra); [|discriminate].
        destruct (flatten ra cs) as [l'|] eqn:E; [|discriminate]. inversion Hf; subst.
        apply nofast_op in Hnc. destruct Hnc as [_ Hg]. apply Forall_app. split; auto.
      + discriminate.
  Qed.

  Lemma nest_nofast : forall t, nofast t -> nofast (nest t).
  Proof.
    induction t as [v|n k|name fast cs IH|c t f IHc IHt IHf] using tree_ind2; intros Hn; try exact I.
    - apply nofast_op in Hn. destruct Hn as [-> Hn]. cbn [nest].
      assert (N : Forall nofast (map nest cs)).
      { clear -IH Hn. induction IH as [|c cs' Hc _ IHl]; [constructor|]. inversion Hn; subst. cbn [map]. constructor; auto. }
      destruct (is_boolop name); [|apply nofast_op; split; [reflexivity|exact N]].
      destruct (flatten (is_and name) (map nest cs)) as [l|] eqn:Ef; apply nofast_op; (split; [reflexivity|]); [eapply flatten_nofast; eauto|exact N].
    - destruct Hn as (?&?&?). cbn [nest nofast]. auto.
  Qed.

  Theorem nest_value : forall t, nofast t -> wt t -> keeps_val nest t.
  Proof.
    induction t as [v|n k|name fast cs IH|c t f IHc IHt IHf] using tree_ind2; intros Hn Hw v0 H.
    - exact H.
    - exact H.
    - apply nofast_op in Hn. destruct Hn as [-> Hn]. apply wt_op in Hw. destruct Hw as [Hw Hb].
      assert (HK : Forall2 keeps cs (map nest cs)).
      { clear H Hb. induction IH as [|c cs' Hc _ IHl]; [constructor|]. inversion Hn; subst. inversion Hw; subst.
        cbn [map]. constructor; [|apply IHl; assumption]. split; [symmetry; apply nest_can_be_last|]. intros v Hv. apply Hc; assumption. }
      rewrite val_op in H by reflexivity. cbn [nest].
      set (cs' := map nest cs) in *.
      assert (Hkeep : val (TOp name false cs') = Ok v0) by (rewrite val_op by reflexivity; eapply vargs_keeps; eassumption).
      destruct (is_boolop name) eqn:Hbo; [|exact Hkeep].
      destruct (flatten (is_and name) cs') as [l|] eqn:Ef; [|exact Hkeep].
      assert (Hk : op_kind name = Some (negb (is_and name))) by (apply boolop_kind; [exact Hbo|apply Bool.eqb_reflx]).
      set (d := negb (is_and name)) in *.
      assert (W' : Forall wt cs') by (apply Forall_map_wt; [|exact Hw]; apply Forall_forall; intros x _; apply wt_nest).
      assert (B' : Forall boolish cs') by (apply Forall_map_boolish; [apply den_nest|exact (Hb d Hk)]).
      assert (N' : Forall nofast cs').
      { unfold cs'. apply Forall_forall. intros x Hx. apply in_map_iff in Hx. destruct Hx as (y & <- & Hy).
        apply nest_nofast. rewrite Forall_forall in Hn. apply Hn. exact Hy. }
      destruct (flatten_wt fetch custom _ _ _ Ef (fun n Hn0 He => ex_intro _ _ (boolop_kind n _ Hn0 He)) W' B') as [Wl Bl].
      rewrite val_op in Hkeep by reflexivity.
      destruct (proj1 (vargs_scanb name d Hk cs' (typed_ops_of cs' W' B') [] (Forall_nil _) v0) Hkeep) as (b & Hs & ->).
      rewrite val_op by reflexivity.
      apply (proj2 (vargs_scanb name d Hk l (typed_ops_of l Wl Bl) [] (Forall_nil _) (VBool b))).
      exists b. split; [|reflexivity]. cbn [length] in *.
      apply (flatten_scanb (is_and name) d (fun n Hn0 He => boolop_kind n _ Hn0 He) cs' l Ef N' W' [] 0%nat b Hs).
    - destruct Hn as (Hc & Ht & Hf). destruct Hw as (Wc & Wt & Wf). cbn [nest]. rewrite val_if in *.
      destruct (val c) as [vc|e] eqn:Ec; [|discriminate]. rewrite (IHc Hc Wc vc Ec).
      destruct vc as [z|[]|s|li|ls|si|ss'| | |o]; try discriminate; [apply IHt|apply IHf]; assumption.
  Qed.

  (* ---------- fast marking ---------- *)

  (* the binding binds every variable of the expression *)
  Fixpoint vars_ok (t : tree) : Prop :=
    match t with
    | TConst _ => True
    | TVar n k => exists v, fetch n k = Ok v
    | TOp _ _ cs => (fix all (l : list tree) : Prop := match l with [] => True | a :: l' => vars_ok a /\ all l' end) cs
    | TIf c t f => vars_ok c /\ vars_ok t /\ vars_ok f
    end.

  Lemma vars_ok_op name fast cs : vars_ok (TOp name fast cs) <-> Forall vars_ok cs.
  Proof.
    cbn [vars_ok]. induction cs as [|a l IH]; [split; auto|]. rewrite IH. split; [intros [H1 H2]; constructor; assumption|intros H; inversion H; auto].
  Qed.

  Lemma leaf_val_ok t : is_leaf t = true -> vars_ok t -> exists v, val t = Ok v.
  Proof. destruct t as [v|n k| |]; try discriminate; intros _ H; [exists v; reflexivity|]. destruct H as [v Hv]. exists v. unfold val. cbn. exact Hv. Qed.

  Lemma val_fast name a b : fast_shape true [a; b] = true ->
    val (TOp name true [a; b]) = match val a with Ok va => match val b with Ok vb => apply_op name [va; vb] | Err e => Err e end | Err e => Err e end.
  Proof.
    intros Hfs. destruct (fast_shape_inv _ _ Hfs) as (a' & b' & E & Ha & Hb & _). inversion E; subst a' b'.
    unfold val. rewrite (sem_fast_eq fetch custom name a b Hfs). unfold sem_fast.
    assert (La : forall t, is_leaf t = true -> snd (leaf_val fetch t) = snd (sem t)) by (intros t Ht; destruct t; try discriminate; reflexivity).
    rewrite <- (La a Ha), <- (La b Hb).
    destruct (leaf_val fetch a) as [t1 [va|e1]]; cbn [snd]; [|reflexivity].
    destruct (leaf_val fetch b) as [t2 [vb|e2]]; cbn [snd]; reflexivity.
  Qed.

  Lemma boolop_two name d x y : op_kind name = Some d ->
    apply_op name [VBool x; VBool y] = Ok (VBool (if Bool.eqb x d then d else if Bool.eqb y d then d else negb d)).
  Proof.
    intros Hk. unfold Tree.apply_op. destruct d.
    - destruct (op_kind_or _ Hk) as [Ho _]. rewrite (is_or_builtin _ Ho). destruct x, y; reflexivity.
    - rewrite (is_and_builtin _ (op_kind_and _ Hk)). destruct x, y; reflexivity.
  Qed.

  Lemma fastp_is_leaf t : is_leaf (fastp t) = is_leaf t.
  Proof. destruct t; reflexivity. Qed.
  Lemma fastp_leaf t : is_leaf t = true -> fastp t = t.
  Proof. destruct t; try discriminate; reflexivity. Qed.
  Lemma fastp_can_be_last t : can_be_last (fastp t) = can_be_last t.
  Proof. destruct t; reflexivity. Qed.

  Theorem fastp_value : forall t, nofast t -> wt t -> vars_ok t -> keeps_val fastp t.
  Proof.
    induction t as [v|n k|name fast cs IH|c t f IHc IHt IHf] using tree_ind2; intros Hn Hw Hv v0 H.
    - exact H.
    - exact H.
    - apply nofast_op in Hn. destruct Hn as [-> Hn]. apply wt_op in Hw. destruct Hw as [Hw Hb]. apply vars_ok_op in Hv.
      assert (HK : Forall2 keeps cs (map fastp cs)).
      { clear H Hb. induction IH as [|c cs' Hc _ IHl]; [constructor|]. inversion Hn; subst. inversion Hw; subst. inversion Hv; subst.
        cbn [map]. constructor; [|apply IHl; assumption]. split; [symmetry; apply fastp_can_be_last|]. intros v Hv0. apply Hc; assumption. }
      rewrite val_op in H by reflexivity. cbn [fastp orb].
      destruct (map fastp cs) as [|a' [|b' [|x rest]]] eqn:Em;
        try (rewrite val_op by (unfold fast_shape; cbn; try reflexivity; rewrite ?andb_false_r; reflexivity); rewrite <- Em in *; eapply vargs_keeps; eassumption).
      destruct (is_leaf a' && is_leaf b') eqn:El.
      + (* two leaves: marked fast *)
        destruct cs as [|a [|b [|y rest']]]; try discriminate. cbn [map] in Em. inversion Em; subst a' b'. clear Em.
        apply andb_prop in El. destruct El as [La Lb]. rewrite fastp_is_leaf in La, Lb. rewrite (fastp_leaf a La), (fastp_leaf b Lb).
        assert (Hfs : fast_shape true [a; b] = true) by (unfold fast_shape; rewrite La, Lb; reflexivity).
        rewrite (val_fast name a b Hfs).
        inversion Hv as [|? ? Hva Hv']; subst. inversion Hv' as [|? ? Hvb _]; subst.
        destruct (leaf_val_ok a La Hva) as [va Ea]. destruct (leaf_val_ok b Lb Hvb) as [vb Eb]. rewrite Ea, Eb.
        rewrite !vargs_cons, Ea in H. unfold lastflag in H. cbn [lenZ length] in H.
        destruct (op_kind name) as [d|] eqn:Hk.
        * inversion Hw as [|? ? Hwa Hw']; subst. inversion Hw' as [|? ? Hwb _]; subst.
          pose proof (Hb d eq_refl) as Hbb. inversion Hbb as [|? ? Hba Hbb']; subst. inversion Hbb' as [|? ? Hbb2 _]; subst.
          destruct (typed_of_wt a Hwa Hba va Ea) as [x ->]. destruct (typed_of_wt b Hwb Hbb2 vb Eb) as [y ->].
          rewrite (boolop_two name d x y Hk). cbn [operand_result] in H.
          destruct (Bool.eqb x d) eqn:Ex; cbn [orb] in H.
          -- apply eqb_prop in Ex. subst x. exact H.
          -- rewrite vargs_cons, Eb, Hk in H. assert (Hcl : can_be_last b = true) by (destruct b; try discriminate; reflexivity).
             unfold lastflag in H. rewrite Hcl in H. cbn [andb operand_result lenZ length] in H.
             change (2 <=? Z.of_nat 1 + Z.of_nat 1) with true in H. rewrite orb_true_r in H.
             rewrite <- H. f_equal. f_equal. destruct (Bool.eqb y d) eqn:Ey; [apply eqb_prop in Ey; subst; reflexivity|destruct y, d; try reflexivity; discriminate].
        * cbn [operand_result] in H. rewrite vargs_cons, Eb, Hk in H. cbn [operand_result] in H. rewrite vargs_nil in H. exact H.
      + rewrite val_op by (unfold fast_shape; rewrite El; reflexivity). rewrite <- Em in *. eapply vargs_keeps; eassumption.
    - destruct Hn as (Hc & Ht & Hf). destruct Hw as (Wc & Wt & Wf). destruct Hv as (Vc & Vt & Vf). cbn [fastp]. rewrite val_if in *.
      destruct (val c) as [vc|e] eqn:Ec; [|discriminate]. rewrite (IHc Hc Wc Vc vc Ec).
      destruct vc as [z|[]|s|li|ls|si|ss'| | |o]; try discriminate; [apply IHt|apply IHf]; assumption.
  Qed.

  (* ---------- the invariants travel through the passes ---------- *)

  Lemma fold_node_inv (Q : tree -> Prop) name fast cs : (forall v, Q (TConst v)) -> Q (TOp name fast cs) ->
    Q (fst (fold_node custom cfg name fast cs)).
  Proof.
    intros Hc Hk. unfold fold_node. destruct (stateless_fn custom cfg name) as [fn|]; [|exact Hk].
    destruct (op_kind name) as [d|].
    - destruct (bool_scan d cs) as [[b|]|]; [apply Hc| |exact Hk]. destruct (all_consts cs) as [vs|]; [|exact Hk]. destruct (fn vs); [apply Hc|exact Hk].
    - destruct (all_consts cs) as [vs|]; [|exact Hk]. destruct (fn vs); [apply Hc|exact Hk].
  Qed.

  Lemma cfold_nofast : forall t, nofast t -> nofast (fst (cfold custom cfg t)).
  Proof.
    induction t as [v|n k|name fast cs IH|c t f IHc IHt IHf] using tree_ind2; intros Hn; try exact I.
    - apply nofast_op in Hn. destruct Hn as [-> Hn]. cbn [cfold fst]. rewrite map_map. apply fold_node_inv; [intros; exact I|].
      apply nofast_op. split; [reflexivity|]. apply Forall_forall. intros x Hx. apply in_map_iff in Hx. destruct Hx as (y & <- & Hy).
      rewrite Forall_forall in IH, Hn. apply IH; auto.
    - destruct Hn as (?&?&?). cbn [cfold fst nofast]. auto.
  Qed.

  Lemma cfold_vars_ok : forall t, vars_ok t -> vars_ok (fst (cfold custom cfg t)).
  Proof.
    induction t as [v|n k|name fast cs IH|c t f IHc IHt IHf] using tree_ind2; intros Hn; try exact Hn.
    - apply vars_ok_op in Hn. cbn [cfold fst]. rewrite map_map. apply fold_node_inv; [intros; exact I|].
      apply vars_ok_op. apply Forall_forall. intros x Hx. apply in_map_iff in Hx. destruct Hx as (y & <- & Hy).
      rewrite Forall_forall in IH, Hn. apply IH; auto.
    - destruct Hn as (?&?&?). cbn [cfold fst vars_ok]. auto.
  Qed.

  Lemma flatten_vars_ok ra : forall cs l, flatten ra cs = Some l -> Forall vars_ok cs -> Forall vars_ok l.
  Proof.
    induction cs as [|c cs IH]; intros l Hf Hn; cbn [flatten] in Hf.
    - inversion Hf; subst. constructor.
    - inversion Hn as [|? ? Hnc Hn']; subst. destruct c as [v|n k|n fast gcs|c1 c2 c3].
      + destruct (flatten ra cs) as [l'|] eqn:E; [|discriminate]. inversion Hf; subst. constructor; [exact I|auto].
      + destruct (flatten ra cs) as [l'|] eqn:E; [|discriminate]. inversion Hf; subst. constructor; [exact Hnc|auto].
      + destruct (is_boolop n && Bool.eqb (is_and n) ra); [|discriminate].
        destruct (flatten ra cs) as [l'|] eqn:E; [|discriminate]. inversion Hf; subst.
        apply vars_ok_op in Hnc. apply Forall_app. split; auto.
      + discriminate.
  Qed.

  Lemma nest_vars_ok : forall t, vars_ok t -> vars_ok (nest t).
  Proof.
    induction t as [v|n k|name fast cs IH|c t f IHc IHt IHf] using tree_ind2; intros Hn; try exact Hn.
    - apply vars_ok_op in Hn. cbn [nest].
      assert (N : Forall vars_ok (map nest cs)).
      { apply Forall_forall. intros x Hx. apply in_map_iff in Hx. destruct Hx as (y & <- & Hy). rewrite Forall_forall in IH, Hn. apply IH; auto. }
      destruct (is_boolop name); [|apply vars_ok_op; exact N].
      destruct (flatten (is_and name) (map nest cs)) as [l|] eqn:Ef; apply vars_ok_op; [eapply flatten_vars_ok; eauto|exact N].
    - destruct Hn as (?&?&?). cbn [nest vars_ok]. auto.
  Qed.

  (* C02, third clause: Reordering off. Whatever the other three switches, the cost map and the stateless
     declarations are: if plain left-to-right short-circuit evaluation of t returns a value, the optimised expression
     returns that value — for t as the parser produces it (no fast marks), with boolean-valued and/or operands, under a
     binding that binds all its variables *)
  Theorem no_reorder_value t v :
    pass_on cfg "reordering" = false -> nofast t -> wt t -> vars_ok t ->
    val t = Ok v -> val (optimize custom cfg t) = Ok v.
  Proof.
    intros Hr Hn Hw Hv H. unfold optimize, optimizations_order. cbn [fold_left].
    (* constant folding *)
    set (t1 := if pass_on cfg "constant_folding" then run_pass custom cfg "constant_folding" t else t).
    assert (I1 : nofast t1 /\ wt t1 /\ vars_ok t1 /\ val t1 = Ok v).
    { unfold t1. destruct (pass_on cfg "constant_folding"); [|auto]. change (run_pass custom cfg "constant_folding" t) with (fst (cfold custom cfg t)).
      split; [apply cfold_nofast; exact Hn|]. split; [apply wt_cfold; exact Hw|]. split; [apply cfold_vars_ok; exact Hv|]. apply cfold_value; assumption. }
    destruct I1 as (N1 & W1 & V1 & H1).
    set (t2 := if pass_on cfg "reduce_nesting" then run_pass custom cfg "reduce_nesting" t1 else t1).
    assert (I2 : nofast t2 /\ wt t2 /\ vars_ok t2 /\ val t2 = Ok v).
    { unfold t2. destruct (pass_on cfg "reduce_nesting"); [|auto]. change (run_pass custom cfg "reduce_nesting" t1) with (nest t1).
      split; [apply nest_nofast; exact N1|]. split; [apply wt_nest; exact W1|]. split; [apply nest_vars_ok; exact V1|]. apply nest_value; assumption. }
    destruct I2 as (N2 & W2 & V2 & H2).
    set (t3 := if pass_on cfg "fast_evaluation" then run_pass custom cfg "fast_evaluation" t2 else t2).
    assert (H3 : val t3 = Ok v).
    { unfold t3. destruct (pass_on cfg "fast_evaluation"); [|exact H2]. change (run_pass custom cfg "fast_evaluation" t2) with (fastp t2). apply fastp_value; assumption. }
    rewrite Hr. exact H3.
  Qed.
End V.

Print Assumptions no_reorder_value.
