(* ConcProofs.v — C07: the Eval loop is iteration of a step on private state; any interleaving of the steps of
   any number of calls over one shared program gives every call exactly its isolated result. *)
Require Import Base Opcode Tables Ops Tree Opt Flat Run Conc CompFacts EvalDefs EvalTop.
From Coq Require Import ZifyBool.
Open Scope Z_scope.
Open Scope list_scope.

Section S.
  Variable fetch : str -> Z -> res value.
  Variable custom : str -> list value -> res value.
  Variable P : prog.

  Definition resume (k : Z -> list value -> list obs * mres) (s : stepres) : list obs * mres :=
    match s with SNext i stk tr => preM tr (k i stk) | SDone tr r => (tr, r) end.

  Lemma resume_preS k t s : resume k (preS t s) = preM t (resume k s).
  Proof. destruct s; cbn [preS resume]; [rewrite preM_app; reflexivity|reflexivity]. Qed.

  Lemma after_afterS k next nd v stk : after P k next nd v stk = resume k (afterS P next nd v stk).
  Proof.
    unfold after, afterS. destruct v; try (destruct (push P stk _); cbn [resume]; rewrite ?preM_nil; reflexivity).
    destruct (matches nd b).
    - destruct (chain P (length (nodes P)) (scIdx nd) b); try reflexivity.
      destruct ((osTop nd0 <? 0) || (lenZ stk <? osTop nd0)); [reflexivity|].
      destruct (push P (firstnZ (osTop nd0) stk) (VBool b)); cbn [resume]; rewrite ?preM_nil; reflexivity.
    - destruct (push P stk (VBool b)); cbn [resume]; rewrite ?preM_nil; reflexivity.
  Qed.

  (* the loop of Expr.Eval = iterating the step *)
  Theorem run_is_iterated_step f i stk :
    run fetch custom P (S f) i stk = resume (run fetch custom P f) (istep fetch custom P i stk).
  Proof.
    rewrite run_S. unfold istep. destruct (psize P <=? i); [reflexivity|].
    destruct (getn P i) as [nd|]; [|reflexivity]. destruct (kind nd).
    - apply after_afterS.
    - rewrite resume_preS. destruct (fetch name key); [rewrite after_afterS|]; reflexivity.
    - cbv zeta. destruct ((childCnt nd <? 0) || (lenZ stk <? childCnt nd)); [reflexivity|].
      rewrite resume_preS. destruct (apply_named custom name _); [rewrite after_afterS|]; reflexivity.
    - destruct (getn P (i + 1)); [|reflexivity]. destruct (getn P (i + 2)); [|reflexivity].
      destruct (fast_leaf fetch n) as [t1 [va|e1]]; [|reflexivity].
      destruct (fast_leaf fetch n0) as [t2 [vb|e2]]; [|reflexivity].
      cbv zeta. rewrite resume_preS. destruct (apply_named custom name [va; vb]); [rewrite after_afterS|]; reflexivity.
    - destruct (rev stk) as [|c below]; [reflexivity|]. destruct c as [|[]| | | | | | | |]; try reflexivity.
      + cbn [resume]. rewrite preM_nil. reflexivity.
      + destruct ((osTop nd + 1 <? 0) || (lenZ below <? osTop nd + 1)); [reflexivity|]. cbn [resume]. rewrite preM_nil. reflexivity.
    - destruct stk; [reflexivity|]. destruct ((osTop nd + 1 <? 0) || (lenZ (v :: stk) <? osTop nd + 1)); [reflexivity|].
      cbn [resume]. rewrite preM_nil. reflexivity.
    - reflexivity.
  Qed.
End S.

(* ---------- interleavings ---------- *)

Section I.
  Variable custom : str -> list value -> res value.
  Variable P : prog.

  Notation step := (call_step custom P).

  Fixpoint count (n : nat) (sched : list nat) : nat :=
    match sched with [] => 0%nat | m :: s => ((if Nat.eqb m n then 1 else 0) + count n s)%nat end.

  Lemma update_nth {A} (l : list A) n f m :
    nth_error (update l n f) m = if Nat.eqb n m then option_map f (nth_error l m) else nth_error l m.
  Proof.
    revert n m. induction l as [|x l IH]; intros n m; cbn [update].
    - destruct (Nat.eqb n m); destruct m; reflexivity.
    - destruct n as [|n], m as [|m]; cbn [nth_error Nat.eqb option_map]; try reflexivity. apply IH.
  Qed.

  Lemma iter_call_step k c : iter_call custom P k (step c) = step (iter_call custom P k c).
  Proof. revert c. induction k as [|k IH]; intros c; cbn [iter_call]; [reflexivity|]. rewrite IH. reflexivity. Qed.

  (* whatever the schedule: call n has made exactly as many private steps as it was scheduled, nothing else happened to it *)
  Theorem interleaving_isolated : forall sched calls n c,
    nth_error calls n = Some c ->
    nth_error (sys_run custom P calls sched) n = Some (iter_call custom P (count n sched) c).
  Proof.
    unfold sys_run. induction sched as [|m sched IH]; intros calls n c H; cbn [fold_left count iter_call]; [exact H|].
    destruct (Nat.eqb m n) eqn:E.
    - apply Nat.eqb_eq in E. subst m. cbn [Nat.add]. rewrite (IH _ n (step c)).
      + cbn [iter_call]. reflexivity.
      + rewrite update_nth, Nat.eqb_refl, H. reflexivity.
    - cbn [Nat.add]. apply IH. rewrite update_nth, E. exact H.
  Qed.

  (* a finished call stays finished with its result *)
  Lemma step_finished c tr r : c_state c = Finished tr r -> step c = c.
  Proof. intros H. unfold call_step. rewrite H. reflexivity. Qed.

  Lemma iter_finished k f tr r : iter_call custom P k {| c_fetch := f; c_state := Finished tr r |} = {| c_fetch := f; c_state := Finished tr r |}.
  Proof. induction k as [|k IH]; cbn [iter_call]; [reflexivity|]. rewrite (step_finished {| c_fetch := f; c_state := Finished tr r |} tr r eq_refl). exact IH. Qed.

  Lemma iter_add a b c : iter_call custom P (a + b) c = iter_call custom P b (iter_call custom P a c).
  Proof. revert c. induction a as [|a IH]; intros c; cbn [Nat.add iter_call]; [reflexivity|]. apply IH. Qed.

  (* the private run of one call is the Eval loop: after k steps it is where `run` is after k iterations *)
  Lemma iter_run f : forall k i stk tr fuel, (k <= fuel)%nat ->
    match c_state (iter_call custom P k {| c_fetch := f; c_state := Running i stk tr |}) with
    | Finished tr' r => preM tr (run f custom P fuel i stk) = (tr', r)
    | Running i' stk' tr' => preM tr (run f custom P fuel i stk) = preM tr' (run f custom P (fuel - k) i' stk')
    end.
  Proof.
    induction k as [|k IH]; intros i stk tr fuel Hk; cbn [iter_call].
    - cbn [c_state]. rewrite Nat.sub_0_r. reflexivity.
    - destruct fuel as [|fuel]; [lia|]. unfold call_step at 1. cbn [c_state c_fetch].
      rewrite run_is_iterated_step.
      destruct (istep f custom P i stk) as [i' stk' t|t r] eqn:Es; cbn [resume].
      + specialize (IH i' stk' (tr ++ t) fuel ltac:(lia)). rewrite preM_app.
        destruct (c_state (iter_call custom P k {| c_fetch := f; c_state := Running i' stk' (tr ++ t) |})); cbn [Nat.sub]; exact IH.
      + rewrite iter_finished. cbn [c_state]. unfold preM. cbn [fst snd]. reflexivity.
  Qed.

  Lemma iter_fetch k : forall c, c_fetch (iter_call custom P k c) = c_fetch c.
  Proof. induction k as [|k IHk]; intros c; cbn [iter_call]; [reflexivity|]. rewrite IHk. unfold call_step. destruct (c_state c); reflexivity. Qed.

  (* a call that has been given at least len(nodes)+1 iterations has finished with exactly the observation trace
     and outcome of Eval run in isolation (when Eval's own loop bound suffices, which run_compile_correct shows
     for every compiled tree) *)
  Theorem call_finishes_with_eval f k : snd (eval f custom P) <> MFuel -> (S (length (nodes P)) <= k)%nat ->
    iter_call custom P k (new_call f) = {| c_fetch := f; c_state := Finished (fst (eval f custom P)) (snd (eval f custom P)) |}.
  Proof.
    intros Hnf Hk. replace k with (S (length (nodes P)) + (k - S (length (nodes P))))%nat by lia. rewrite iter_add.
    pose proof (iter_run f (S (length (nodes P))) 0 [] [] (S (length (nodes P))) (le_n _)) as H.
    pose proof (iter_fetch (S (length (nodes P))) (new_call f)) as Hf. unfold new_call in *. cbn [c_fetch] in Hf.
    destruct (iter_call custom P (S (length (nodes P))) {| c_fetch := f; c_state := Running 0 [] [] |}) as [f' st] eqn:Ec.
    cbn [c_state c_fetch] in *. subst f'. rewrite preM_nil in H. fold (eval f custom P) in H.
    destruct st as [i' stk' tr'|tr' r].
    - exfalso. rewrite Nat.sub_diag in H. cbn [run] in H. apply Hnf. rewrite H. reflexivity.
    - rewrite iter_finished, H. reflexivity.
  Qed.

  (* C07: every call of a system over one shared program, under ANY interleaving that schedules it at least
     len(nodes)+1 times, ends with what Eval returns in isolation, whatever the other calls do *)
  Theorem concurrent_calls_isolated sched fetches n f :
    nth_error fetches n = Some f -> snd (eval f custom P) <> MFuel ->
    (S (length (nodes P)) <= count n sched)%nat ->
    nth_error (sys_run custom P (map new_call fetches) sched) n =
      Some {| c_fetch := f; c_state := Finished (fst (eval f custom P)) (snd (eval f custom P)) |}.
  Proof.
    intros Hf Hnf Hc.
    assert (Hn : nth_error (map new_call fetches) n = Some (new_call f)) by (rewrite nth_error_map, Hf; reflexivity).
    rewrite (interleaving_isolated sched _ n _ Hn). f_equal. apply call_finishes_with_eval; assumption.
  Qed.
End I.

(* for compiled trees: the isolated result is the reference semantics *)
Theorem concurrent_compiled custom t sched fetches n f :
  nth_error fetches n = Some f -> (S (length (nodes (compile t))) <= count n sched)%nat ->
  nth_error (sys_run custom (compile t) (map new_call fetches) sched) n =
    Some {| c_fetch := f; c_state := Finished (fst (sem_obs (sem f custom t))) (snd (sem_obs (sem f custom t))) |}.
Proof.
  intros Hf Hc. rewrite <- run_compile_correct. apply concurrent_calls_isolated; [exact Hf| |exact Hc].
  rewrite run_compile_correct. unfold sem_obs. destruct (snd (sem f custom t)); discriminate.
Qed.
