(* FormatProofs.v — C14, the formatter: IndentByParentheses (model: Print.indent_loop / indent_by_parens) returns a
   text with the same tokens. Structure:
     A. the loop does not depend on its fuel; `fmt`, the loop with its unfolding equation;
     B. what the loop does on white space, on each kind of token;
     C. the token-level description of the output (`fitems`) and the simulation theorem;
     D. the output is a well-formed rendering of the same tokens, so the lexer reads the same tokens back;
     E. the final trim. *)
Require Import Base Opcode Tables Ops Tree Opt Flat Run Directives Lexer Print OpsList LexProofs.
From Coq Require Import ZifyBool.
Open Scope Z_scope.
Open Scope list_scope.

(* ---------- A. fuel ---------- *)

Definition tstart (b : str) (p : syn) : bool :=
  match b with [] => true | q :: _ => negb (syn_eqb p SNormal) || (q =? 44)%N || (q =? 34)%N end.
Definition pre_rune (i : Z) (p : syn) : str :=
  (if syn_eqb p SComment then indent_str i else []) ++ (if syn_eqb p SSpace || syn_eqb p SRight then [32%N] else []).

(* one iteration, the recursive call abstracted *)
Definition body (rec : str -> str -> str -> Z -> syn -> str) (c : N) (s' b out : str) (i : Z) (p : syn) : str :=
  if (c =? 34)%N && tstart b p then
    let (lit, rest) := copy_through 34 s' in rec rest (rev lit ++ c :: b) (out ++ pre_rune i p ++ c :: lit) i SNormal
  else if is_left c then
    rec s' (c :: b) (out ++ (if syn_eqb p SComment then indent_str i else 10%N :: indent_str i) ++ [c]) (i + 1) SLeft
  else if is_right c then
    rec s' (c :: b) (out ++ (if syn_eqb p SComment then indent_str (i - 1) else []) ++ [c]) (i - 1) SRight
  else if is_space c then
    rec s' (c :: b) out i (if syn_eqb p SComment then SComment else SSpace)
  else if (c =? 59)%N then
    let lead := if syn_eqb p SComment then indent_str i else look_back b i in
    let (cm, rest) := copy_through 10 (c :: s') in rec rest (rev cm ++ b) (out ++ lead ++ cm) i SComment
  else rec s' (c :: b) (out ++ pre_rune i p ++ [c]) i SNormal.

Lemma loop_body f c s' b out i p : indent_loop (S f) (c :: s') b out i p = body (indent_loop f) c s' b out i p.
Proof. reflexivity. Qed.

Lemma copy_through_len stop s : (length (snd (copy_through stop s)) <= length s)%nat.
Proof.
  induction s as [|c s IH]; cbn [copy_through]; [cbn; lia|]. destruct (c =? stop)%N; [cbn; lia|].
  destruct (copy_through stop s) as [a r]. cbn [snd length] in *. lia.
Qed.

Lemma fuel_irrel : forall f1 f2 s b out i p, (length s < f1)%nat -> (length s < f2)%nat ->
  indent_loop f1 s b out i p = indent_loop f2 s b out i p.
Proof.
  induction f1 as [|f1 IH]; intros f2 s b out i p H1 H2; [lia|]. destruct f2 as [|f2]; [lia|].
  destruct s as [|c s']; [reflexivity|]. rewrite !loop_body. unfold body. cbn [length] in H1, H2.
  destruct ((c =? 34)%N && tstart b p).
  { pose proof (copy_through_len 34 s') as L. destruct (copy_through 34 s') as [lit rest]. cbn [snd] in L. apply IH; lia. }
  destruct (is_left c); [apply IH; lia|]. destruct (is_right c); [apply IH; lia|]. destruct (is_space c); [apply IH; lia|].
  destruct (c =? 59)%N eqn:E59; [|apply IH; lia].
  pose proof (copy_through_len 10 s') as L. cbn [copy_through].
  replace (c =? 10)%N with false by (apply N.eqb_eq in E59; subst c; reflexivity).
  destruct (copy_through 10 s') as [cm rest]. cbn [snd length] in L. apply IH; lia.
Qed.

Definition fmt (s b out : str) (i : Z) (p : syn) : str := indent_loop (S (length s)) s b out i p.

Lemma fmt_nil b out i p : fmt [] b out i p = out.
Proof. reflexivity. Qed.

Lemma fmt_cons c s' b out i p : fmt (c :: s') b out i p = body fmt c s' b out i p.
Proof.
  unfold fmt at 1. cbn [length]. rewrite loop_body. unfold body.
  destruct ((c =? 34)%N && tstart b p).
  { pose proof (copy_through_len 34 s') as L. destruct (copy_through 34 s') as [lit rest]. cbn [snd] in L. apply fuel_irrel; lia. }
  destruct (is_left c); [reflexivity|]. destruct (is_right c); [reflexivity|]. destruct (is_space c); [reflexivity|].
  destruct (c =? 59)%N eqn:E59; [|reflexivity].
  pose proof (copy_through_len 10 s') as L. cbn [copy_through].
  replace (c =? 10)%N with false by (apply N.eqb_eq in E59; subst c; reflexivity).
  destruct (copy_through 10 s') as [cm rest]. cbn [snd length] in L. apply fuel_irrel; lia.
Qed.

Lemma indent_by_parens_fmt s : indent_by_parens s = trim (fmt s [] [] 0 SNormal).
Proof. reflexivity. Qed.

(* ---------- B. steps ---------- *)

Lemma space_class c : is_space c = true -> (c =? 34)%N = false /\ is_left c = false /\ is_right c = false /\ is_delim c = false.
Proof.
  intros H. unfold is_left, is_right, is_delim.
  destruct (N.eqb_spec c 34); [subst; discriminate|]. destruct (N.eqb_spec c 91); [subst; discriminate|].
  destruct (N.eqb_spec c 40); [subst; discriminate|]. destruct (N.eqb_spec c 93); [subst; discriminate|].
  destruct (N.eqb_spec c 41); [subst; discriminate|]. destruct (N.eqb_spec c 59); [subst; discriminate|].
  destruct (N.eqb_spec c 44); [subst; discriminate|]. repeat split; reflexivity.
Qed.

Definition sp_prev (sp : str) (p : syn) : syn :=
  match sp with [] => p | _ => if syn_eqb p SComment then SComment else SSpace end.

Lemma fmt_spaces sp : all_space sp -> forall more b out i p,
  fmt (sp ++ more) b out i p = fmt more (rev sp ++ b) out i (sp_prev sp p).
Proof.
  induction 1 as [|c sp Hc _ IH]; intros more b out i p; [reflexivity|].
  cbn [app]. rewrite fmt_cons. unfold body. destruct (space_class c Hc) as (E1 & E2 & E3 & _).
  rewrite E1, E2, E3, Hc. cbn [andb]. rewrite IH. cbn [rev]. rewrite <- app_assoc. cbn [app sp_prev].
  f_equal. destruct sp; cbn [sp_prev]; destruct p; reflexivity.
Qed.

Lemma wordc_class c : wordc c = true ->
  is_left c = false /\ is_right c = false /\ is_space c = false /\ (c =? 59)%N = false /\ (c =? 44)%N = false.
Proof.
  unfold wordc. intros H. apply negb_true_iff in H. apply orb_false_iff in H. destruct H as [Hs Hd].
  unfold is_delim in Hd. unfold is_left, is_right.
  destruct (N.eqb_spec c 40); [subst; discriminate|]. destruct (N.eqb_spec c 41); [subst; discriminate|].
  destruct (N.eqb_spec c 91); [subst; discriminate|]. destruct (N.eqb_spec c 93); [subst; discriminate|].
  destruct (N.eqb_spec c 59); [subst; discriminate|]. destruct (N.eqb_spec c 44); [subst; discriminate|].
  repeat split; try reflexivity. exact Hs.
Qed.

(* the first character of a word *)
Lemma fmt_word_first c more b out i p : wordc c = true -> c <> 34%N ->
  fmt (c :: more) b out i p = fmt more (c :: b) (out ++ pre_rune i p ++ [c]) i SNormal.
Proof.
  intros Hc Hq. rewrite fmt_cons. unfold body. destruct (wordc_class c Hc) as (E1 & E2 & E3 & E4 & _).
  replace (c =? 34)%N with false by (symmetry; apply N.eqb_neq; exact Hq). cbn [andb]. rewrite E1, E2, E3, E4. reflexivity.
Qed.

(* the rest of a word: copied, nothing inserted *)
Lemma fmt_word_run w : Forall (fun c => wordc c = true) w -> ~ In 34%N w -> forall more b out i,
  fmt (w ++ more) b out i SNormal = fmt more (rev w ++ b) (out ++ w) i SNormal.
Proof.
  induction 1 as [|c w Hc _ IH]; intros Hq more b out i; [cbn [app rev]; rewrite app_nil_r; reflexivity|].
  cbn [app]. rewrite fmt_word_first; [|exact Hc|intros ->; apply Hq; left; reflexivity].
  rewrite IH by (intros Hin; apply Hq; right; exact Hin). cbn [rev pre_rune syn_eqb orb app]. rewrite <- !app_assoc. reflexivity.
Qed.

Lemma copy_through_app stop content s : ~ In stop content -> copy_through stop (content ++ stop :: s) = (content ++ [stop], s).
Proof.
  induction content as [|c content IH]; intros H; cbn [app copy_through]; [rewrite N.eqb_refl; reflexivity|].
  replace (c =? stop)%N with false by (symmetry; apply N.eqb_neq; intros ->; apply H; left; reflexivity).
  rewrite IH by (intros Hin; apply H; right; exact Hin). reflexivity.
Qed.
Lemma copy_through_end stop content : ~ In stop content -> copy_through stop content = (content, []).
Proof.
  induction content as [|c content IH]; intros H; cbn [copy_through]; [reflexivity|].
  replace (c =? stop)%N with false by (symmetry; apply N.eqb_neq; intros ->; apply H; left; reflexivity).
  rewrite IH by (intros Hin; apply H; right; exact Hin). reflexivity.
Qed.

(* a string literal at a token start: copied verbatim through its closing quote *)
Lemma fmt_string s more b out i p : ~ In 34%N s -> tstart b p = true ->
  fmt (34%N :: s ++ 34%N :: more) b out i p =
  fmt more (rev (34%N :: s ++ [34%N]) ++ b) (out ++ pre_rune i p ++ 34%N :: s ++ [34%N]) i SNormal.
Proof.
  intros Hs Ht. rewrite fmt_cons. unfold body. rewrite Ht. change ((34 =? 34)%N && true) with true. cbv iota.
  rewrite copy_through_app by exact Hs. cbn [rev]. rewrite <- app_assoc. reflexivity.
Qed.

(* a comment followed by its line break / ending the input *)
Lemma fmt_comment_nl text more b out i p : ~ In 10%N text ->
  fmt (59%N :: text ++ 10%N :: more) b out i p =
  fmt more (rev (59%N :: text ++ [10%N]) ++ b)
      (out ++ (if syn_eqb p SComment then indent_str i else look_back b i) ++ 59%N :: text ++ [10%N]) i SComment.
Proof.
  intros Hn. rewrite fmt_cons. unfold body. change ((59 =? 34)%N) with false. cbn [andb].
  change (is_left 59%N) with false. change (is_right 59%N) with false. change (is_space 59%N) with false.
  change ((59 =? 59)%N) with true. cbv iota.
  change (59%N :: text ++ 10%N :: more) with ((59%N :: text) ++ 10%N :: more).
  rewrite copy_through_app by (intros [E|H]; [discriminate|exact (Hn H)]). reflexivity.
Qed.
Lemma fmt_comment_end text b out i p : ~ In 10%N text ->
  fmt (59%N :: text) b out i p = out ++ (if syn_eqb p SComment then indent_str i else look_back b i) ++ 59%N :: text.
Proof.
  intros Hn. rewrite fmt_cons. unfold body. change ((59 =? 34)%N) with false. cbn [andb].
  change (is_left 59%N) with false. change (is_right 59%N) with false. change (is_space 59%N) with false.
  change ((59 =? 59)%N) with true. cbv iota.
  rewrite copy_through_end by (intros [E|H]; [discriminate|exact (Hn H)]). rewrite fmt_nil. reflexivity.
Qed.

(* delimiters *)
Lemma fmt_left c more b out i p : c = 40%N \/ c = 91%N ->
  fmt (c :: more) b out i p = fmt more (c :: b) (out ++ (if syn_eqb p SComment then indent_str i else 10%N :: indent_str i) ++ [c]) (i + 1) SLeft.
Proof. intros [-> | ->]; rewrite fmt_cons; reflexivity. Qed.
Lemma fmt_right c more b out i p : c = 41%N \/ c = 93%N ->
  fmt (c :: more) b out i p = fmt more (c :: b) (out ++ (if syn_eqb p SComment then indent_str (i - 1) else []) ++ [c]) (i - 1) SRight.
Proof. intros [-> | ->]; rewrite fmt_cons; reflexivity. Qed.
Lemma fmt_comma more b out i p :
  fmt (44%N :: more) b out i p = fmt more (44%N :: b) (out ++ pre_rune i p ++ [44%N]) i SNormal.
Proof. rewrite fmt_cons. reflexivity. Qed.

(* ---------- C. the output, token by token ---------- *)

Definition prefix (t : tok) (b : str) (i : Z) (p : syn) : str :=
  match t with
  | KLParen | KLBracket => if syn_eqb p SComment then indent_str i else 10%N :: indent_str i
  | KRParen | KRBracket => if syn_eqb p SComment then indent_str (i - 1) else []
  | KComment _ => if syn_eqb p SComment then indent_str i else look_back b i
  | _ => pre_rune i p
  end.
Definition tok_indent (t : tok) (i : Z) : Z :=
  match t with KLParen | KLBracket => i + 1 | KRParen | KRBracket => i - 1 | _ => i end.
Definition tok_prev (t : tok) : syn :=
  match t with KLParen | KLBracket => SLeft | KRParen | KRBracket => SRight | KComment _ => SComment | _ => SNormal end.
(* a comment keeps its line break *)
Definition suffix (t : tok) (sep : str) : str :=
  if is_comment t then match sep with [] => [] | _ => [10%N] end else [].

Definition pre_of (items : list (tok * str)) (b : str) (i : Z) (p : syn) : str :=
  match items with [] => [] | (u, _) :: _ => prefix u b i p end.

(* the formatted items: the same tokens, each followed by (its line break and) what the formatter writes before
   the next token; state = consumed input reversed, indent, previous syntax class *)
Fixpoint fitems (items : list (tok * str)) (b : str) (i : Z) (p : syn) : list (tok * str) :=
  match items with
  | [] => []
  | (t, sep) :: rest =>
    let b' := rev (tok_text t ++ sep) ++ b in
    let i' := tok_indent t i in
    let p' := sp_prev sep (tok_prev t) in
    (t, suffix t sep ++ pre_of rest b' i' p') :: fitems rest b' i' p'
  end.

Lemma fitems_toks items : forall b i p, map fst (fitems items b i p) = map fst items.
Proof. induction items as [|[t sep] rest IH]; intros b i p; cbn [fitems map fst]; [reflexivity|]. rewrite IH. reflexivity. Qed.

(* no word token contains a double quote (true of every word the lexer classifies, see `classify_noquote`) *)
Definition noq (items : list (tok * str)) : Prop :=
  Forall (fun it => match fst it with KInt s | KIdent s => ~ In 34%N s | _ => True end) items.

(* a string literal is met at a token start *)
Definition J (items : list (tok * str)) (b : str) (p : syn) : Prop :=
  match items with (KStr _, _) :: _ => tstart b p = true | _ => True end.

Section F.
  Variable is_letter is_number : N -> bool.
  Notation wf_tok := (wf_tok is_letter is_number).
  Notation wf_items := (wf_items is_letter is_number).

  Lemma tok_head infix t : wf_tok infix t -> exists c r, tok_text t = c :: r /\ is_space c = false.
  Proof.
    assert (W : forall s, (exists c w, s = c :: w /\ wordc c = true /\ c <> 59%N /\ c <> 34%N /\ Forall (fun c => wordc c = true) w) ->
                exists c r, s = c :: r /\ is_space c = false).
    { intros s (c & w & -> & Hc & _). exists c, w. split; [reflexivity|]. apply wordc_class in Hc. tauto. }
    destruct t as [s|s|s| | | | | |s]; cbn [LexProofs.wf_tok tok_text]; intros H.
    - apply W. tauto.
    - eexists; eexists; split; reflexivity.
    - apply W. tauto.
    - eexists; eexists; split; reflexivity.
    - eexists; eexists; split; reflexivity.
    - eexists; eexists; split; reflexivity.
    - eexists; eexists; split; reflexivity.
    - eexists; eexists; split; reflexivity.
    - destruct H as (text & -> & _). eexists; eexists; split; reflexivity.
  Qed.

  Lemma render_nil_inv infix items : wf_items infix items -> render items = [] -> items = [].
  Proof.
    destruct items as [|[t sep] rest]; [reflexivity|]. cbn [LexProofs.wf_items render]. intros (Ht & _) E.
    destruct (tok_head infix t Ht) as (c & r & Et & _). rewrite Et in E. discriminate.
  Qed.

  (* the state at the next token start *)
  Lemma J_next infix t sep rest b : wf_tok infix t -> sep_ok t sep (render rest) -> wf_items infix rest ->
    J rest (rev (tok_text t ++ sep) ++ b) (sp_prev sep (tok_prev t)).
  Proof.
    intros Ht (Hsp & Hfuse & Hcmt) Hrest. destruct rest as [|[u sepu] rest']; [exact I|]. destruct u; try exact I. cbn [J].
    destruct sep as [|c sep].
    - rewrite app_nil_r. cbn [sp_prev].
      destruct t as [s0|s0|s0| | | | | |s0]; cbn [tok_text tok_prev rev app tstart syn_eqb negb orb];
        try (destruct (rev _ ++ b); reflexivity); try reflexivity.
      + exfalso. specialize (Hfuse eq_refl eq_refl). cbn in Hfuse. discriminate.
      + rewrite rev_app_distr. cbn [rev app tstart]. rewrite N.eqb_refl. apply orb_true_r.
      + exfalso. specialize (Hfuse eq_refl eq_refl). cbn in Hfuse. discriminate.
    - cbn [sp_prev]. unfold tstart. destruct (rev (tok_text t ++ c :: sep) ++ b); [reflexivity|].
      destruct (tok_prev t); reflexivity.
  Qed.

  Theorem sim infix : forall items b out i p, wf_items infix items -> noq items -> J items b p ->
    fmt (render items) b out i p = out ++ pre_of items b i p ++ render (fitems items b i p).
  Proof.
    induction items as [|[t sep] rest IH]; intros b out i p Hwf Hq HJ.
    - cbn [render pre_of fitems]. rewrite fmt_nil, !app_nil_r. reflexivity.
    - cbn [LexProofs.wf_items] in Hwf. destruct Hwf as (Ht & Hsep & Hrest). inversion Hq as [|? ? Hq1 Hq2]; subst.
      pose proof (J_next infix t sep rest b Ht Hsep Hrest) as HJ'.
      destruct Hsep as (Hsp & Hfuse & Hcmt).
      cbn [render pre_of fitems fst] in *.
      set (b' := rev (tok_text t ++ sep) ++ b) in *. set (p' := sp_prev sep (tok_prev t)) in *.
      assert (Hb' : b' = rev sep ++ rev (tok_text t) ++ b) by (unfold b'; rewrite rev_app_distr, <- app_assoc; reflexivity).
      destruct t as [s|s|s| | | | | |s]; cbn [tok_text LexProofs.wf_tok prefix tok_indent tok_prev suffix is_comment] in *.
      + (* integer *)
        destruct Ht as [(c & w & -> & Hc & H1 & H2 & Hw) _].
        cbn [app]. rewrite fmt_word_first by assumption.
        rewrite fmt_word_run by (try assumption; intros Hin; apply Hq1; right; exact Hin).
        rewrite fmt_spaces by exact Hsp.
        replace (rev sep ++ rev w ++ c :: b) with b' by (rewrite Hb'; cbn [rev]; rewrite <- !app_assoc; reflexivity).
        rewrite (IH b' _ i p' Hrest Hq2 HJ'). fold p'. rewrite <- !app_assoc. reflexivity.
      + (* string *)
        cbn [J] in HJ. replace ((34%N :: s ++ [34%N]) ++ sep ++ render rest) with (34%N :: s ++ 34%N :: (sep ++ render rest))
          by (cbn [app]; rewrite <- app_assoc; reflexivity).
        rewrite fmt_string by assumption. rewrite fmt_spaces by exact Hsp. rewrite <- Hb'.
        rewrite (IH b' _ i p' Hrest Hq2 HJ'). fold p'. rewrite <- !app_assoc. reflexivity.
      + (* identifier *)
        destruct Ht as [(c & w & -> & Hc & H1 & H2 & Hw) _].
        cbn [app]. rewrite fmt_word_first by assumption.
        rewrite fmt_word_run by (try assumption; intros Hin; apply Hq1; right; exact Hin).
        rewrite fmt_spaces by exact Hsp.
        replace (rev sep ++ rev w ++ c :: b) with b' by (rewrite Hb'; cbn [rev]; rewrite <- !app_assoc; reflexivity).
        rewrite (IH b' _ i p' Hrest Hq2 HJ'). fold p'. rewrite <- !app_assoc. reflexivity.
      + cbn [app]. rewrite fmt_left by auto. rewrite fmt_spaces by exact Hsp.
        match goal with |- context [fmt _ ?x _ _ _] => replace x with b' by (rewrite Hb'; reflexivity) end.
        rewrite (IH b' _ _ p' Hrest Hq2 HJ'). fold p'. rewrite <- !app_assoc. reflexivity.
      + cbn [app]. rewrite fmt_right by auto. rewrite fmt_spaces by exact Hsp.
        match goal with |- context [fmt _ ?x _ _ _] => replace x with b' by (rewrite Hb'; reflexivity) end.
        rewrite (IH b' _ _ p' Hrest Hq2 HJ'). fold p'. rewrite <- !app_assoc. reflexivity.
      + cbn [app]. rewrite fmt_left by auto. rewrite fmt_spaces by exact Hsp.
        match goal with |- context [fmt _ ?x _ _ _] => replace x with b' by (rewrite Hb'; reflexivity) end.
        rewrite (IH b' _ _ p' Hrest Hq2 HJ'). fold p'. rewrite <- !app_assoc. reflexivity.
      + cbn [app]. rewrite fmt_right by auto. rewrite fmt_spaces by exact Hsp.
        match goal with |- context [fmt _ ?x _ _ _] => replace x with b' by (rewrite Hb'; reflexivity) end.
        rewrite (IH b' _ _ p' Hrest Hq2 HJ'). fold p'. rewrite <- !app_assoc. reflexivity.
      + cbn [app]. rewrite fmt_comma. rewrite fmt_spaces by exact Hsp.
        match goal with |- context [fmt _ ?x _ _ _] => replace x with b' by (rewrite Hb'; reflexivity) end.
        rewrite (IH b' _ _ p' Hrest Hq2 HJ'). fold p'. rewrite <- !app_assoc. reflexivity.
      + (* comment *)
        destruct Ht as (text & -> & Hnl). destruct (Hcmt eq_refl) as [[sep' Es]|[Es Er]].
        * subst sep. replace ((59%N :: text) ++ (10%N :: sep') ++ render rest) with (59%N :: text ++ 10%N :: (sep' ++ render rest)) by reflexivity.
          rewrite fmt_comment_nl by exact Hnl. inversion Hsp as [|? ? _ Hsp']; subst.
          rewrite (fmt_spaces sep' Hsp').
          replace (rev sep' ++ rev (59%N :: text ++ [10%N]) ++ b) with b'
            by (rewrite Hb'; cbn [rev]; rewrite !rev_app_distr; cbn [rev app]; rewrite <- !app_assoc; reflexivity).
          replace (sp_prev sep' SComment) with p' by (unfold p'; destruct sep'; reflexivity).
          rewrite (IH b' _ _ p' Hrest Hq2 HJ'). rewrite <- !app_assoc. cbn [app]. rewrite <- !app_assoc. reflexivity.
        * subst sep. apply (render_nil_inv infix rest Hrest) in Er. subst rest.
          cbn [render fitems pre_of app]. rewrite !app_nil_r. rewrite fmt_comment_end by exact Hnl. reflexivity.
  Qed.

  (* ---------- D. the output is a well-formed rendering of the same tokens ---------- *)

  Lemma spaces_space n : all_space (spaces n).
  Proof. induction n as [|n IH]; cbn [spaces]; constructor; [reflexivity|exact IH]. Qed.
  Lemma indent_space i : all_space (indent_str i).
  Proof. apply spaces_space. Qed.
  Lemma look_back_space b i : all_space (look_back b i).
  Proof.
    induction b as [|c b IH]; cbn [look_back]; [constructor|]. destruct (negb (is_space c)); [repeat constructor|].
    destruct (c =? 10)%N; [constructor; [reflexivity|apply indent_space]|exact IH].
  Qed.
  Lemma all_space_app a b : all_space a -> all_space b -> all_space (a ++ b).
  Proof. intros Ha Hb. apply Forall_app. split; assumption. Qed.
  Lemma pre_rune_space i p : all_space (pre_rune i p).
  Proof.
    unfold pre_rune. apply all_space_app; [destruct (syn_eqb p SComment); [apply indent_space|constructor]|].
    destruct (syn_eqb p SSpace || syn_eqb p SRight); repeat constructor.
  Qed.
  Lemma prefix_space u b i p : all_space (prefix u b i p).
  Proof.
    destruct u; cbn [prefix]; try apply pre_rune_space; destruct (syn_eqb p SComment);
      try apply indent_space; try apply look_back_space; try constructor; try reflexivity; apply indent_space.
  Qed.
  Lemma pre_of_space items b i p : all_space (pre_of items b i p).
  Proof. destruct items as [|[u su] r]; [constructor|apply prefix_space]. Qed.

  Lemma stops_tok infix u more more' : wf_tok infix u -> stops (tok_text u ++ more) -> stops (tok_text u ++ more').
  Proof. intros Hu. destruct (tok_head infix u Hu) as (c & r & -> & _). cbn [app stops]. tauto. Qed.

  Theorem wf_out infix : forall items b i p, wf_items infix items -> wf_items infix (fitems items b i p).
  Proof.
    induction items as [|[t sep] rest IH]; intros b i p Hwf; [exact I|].
    cbn [LexProofs.wf_items] in Hwf. destruct Hwf as (Ht & (Hsp & Hfuse & Hcmt) & Hrest).
    cbn [fitems LexProofs.wf_items].
    set (b' := rev (tok_text t ++ sep) ++ b). set (i' := tok_indent t i). set (p' := sp_prev sep (tok_prev t)).
    split; [exact Ht|]. split; [|apply IH; exact Hrest].
    split; [|split].
    - apply all_space_app; [|apply pre_of_space]. unfold suffix. destruct (is_comment t); [|constructor].
      destruct sep; [constructor|repeat constructor].
    - intros Enew Hword.
      assert (Esuf : suffix t sep = []) by (destruct t; try discriminate; reflexivity).
      rewrite Esuf in Enew. cbn [app] in Enew.
      destruct rest as [|[u su] r]; [exact I|]. cbn [pre_of] in Enew. cbn [fitems render].
      cbn [LexProofs.wf_items] in Hrest. destruct Hrest as (Hu & _ & _).
      destruct sep as [|c sep].
      + apply (stops_tok infix u (su ++ render r)); [exact Hu|]. apply Hfuse; [reflexivity|exact Hword].
      + assert (Ep : p' = SSpace) by (unfold p'; destruct t; try discriminate; reflexivity).
        rewrite Ep in Enew. destruct u as [s|s|s| | | | | |s]; cbn [prefix pre_rune syn_eqb orb app] in Enew; try discriminate; try exact eq_refl.
        cbn [LexProofs.wf_tok] in Hu. destruct Hu as (text & -> & _). exact eq_refl.
    - intros Hc. destruct (Hcmt Hc) as [[sep' ->]|[-> Er]].
      + left. unfold suffix. rewrite Hc. eexists. reflexivity.
      + right. apply (render_nil_inv infix rest Hrest) in Er. subst rest. unfold suffix. rewrite Hc. split; reflexivity.
  Qed.

  (* the formatter's raw output (before the final trim) is a well-formed rendering of the same tokens *)
  Theorem fmt_render infix lead items : all_space lead -> wf_items infix items -> noq items ->
    exists (lead' : str) (items' : list (tok * str)), fmt (lead ++ render items) [] [] 0 SNormal = lead' ++ render items' /\
      all_space lead' /\ wf_items infix items' /\ map fst items' = map fst items.
  Proof.
    intros Hl Hwf Hq. rewrite (fmt_spaces lead Hl). rewrite app_nil_r.
    exists (pre_of items (rev lead) 0 (sp_prev lead SNormal)), (fitems items (rev lead) 0 (sp_prev lead SNormal)).
    split; [|split; [apply pre_of_space|split; [apply wf_out; exact Hwf|apply fitems_toks]]].
    rewrite (sim infix items _ [] 0 _ Hwf Hq); [reflexivity|].
    destruct items as [|[u su] r]; [exact I|]. destruct u; try exact I. cbn [J].
    destruct lead as [|c lead]; [reflexivity|]. cbn [sp_prev syn_eqb]. unfold tstart. destruct (rev (c :: lead)); reflexivity.
  Qed.

  (* ... so the lexer reads the same tokens (comments included) from it *)
  Corollary lex_fmt infix lead items : all_space lead -> wf_items infix items -> noq items ->
    lex is_letter is_number infix (fmt (lead ++ render items) [] [] 0 SNormal) = Some (map fst items).
  Proof.
    intros Hl Hwf Hq. destruct (fmt_render infix lead items Hl Hwf Hq) as (lead' & items' & E & Hl' & Hwf' & Et).
    rewrite E. unfold Lexer.lex. rewrite (lex_render is_letter is_number infix items' _ lead' Hwf' Hl') by lia. rewrite Et. reflexivity.
  Qed.
End F.

(* ---------- E. the final trim ---------- *)

Definition rtrim (s : str) : str := rev (trim_left (rev s)).

Lemma trim_rtrim s : trim s = rtrim (trim_left s).
Proof. reflexivity. Qed.

Lemma all_space_rev ws : all_space ws -> all_space (rev ws).
Proof. intros H. apply Forall_forall. intros x Hx. apply in_rev in Hx. revert x Hx. apply Forall_forall. exact H. Qed.

Lemma rtrim_app_space s ws : all_space ws -> rtrim (s ++ ws) = rtrim s.
Proof. intros H. unfold rtrim. rewrite rev_app_distr. rewrite trim_left_spaces by (apply all_space_rev; exact H). reflexivity. Qed.

Lemma rtrim_nonspace s c : is_space c = false -> rtrim (s ++ [c]) = s ++ [c].
Proof. intros H. unfold rtrim. rewrite rev_app_distr. cbn [rev app trim_left]. rewrite H. cbn [rev]. rewrite rev_involutive. reflexivity. Qed.

Lemma trim_left_split s : exists ws, s = ws ++ trim_left s /\ all_space ws.
Proof.
  induction s as [|c s (ws & E & H)]; [exists []; split; [reflexivity|constructor]|]. cbn [trim_left].
  destruct (is_space c) eqn:Hc; [|exists []; split; [reflexivity|constructor]].
  exists (c :: ws). split; [cbn [app]; f_equal; exact E|constructor; assumption].
Qed.

Lemma trim_left_head s : trim_left s = [] \/ exists d r, trim_left s = d :: r /\ is_space d = false.
Proof.
  induction s as [|c s IH]; [left; reflexivity|]. cbn [trim_left]. destruct (is_space c) eqn:Hc; [exact IH|].
  right. exists c, s. split; [reflexivity|exact Hc].
Qed.

Lemma rtrim_split t : exists ws, t = rtrim t ++ ws /\ all_space ws.
Proof.
  destruct (trim_left_split (rev t)) as (ws & E & H). exists (rev ws). split; [|apply all_space_rev; exact H].
  unfold rtrim. rewrite <- rev_app_distr, <- E, rev_involutive. reflexivity.
Qed.

Lemma rtrim_last t : rtrim t = [] \/ exists r d, rtrim t = r ++ [d] /\ is_space d = false.
Proof.
  unfold rtrim. destruct (trim_left_head (rev t)) as [E|(d & r & E & H)]; rewrite E; [left; reflexivity|].
  right. exists (rev r), d. split; [reflexivity|exact H].
Qed.

Lemma rtrim_keep s c t : is_space c = false -> rtrim (s ++ c :: t) = s ++ c :: rtrim t.
Proof.
  intros Hc. destruct (rtrim_split t) as (ws & E & Hws). rewrite E at 1.
  replace (s ++ c :: rtrim t ++ ws) with ((s ++ c :: rtrim t) ++ ws) by (rewrite <- app_assoc; reflexivity).
  rewrite rtrim_app_space by exact Hws.
  destruct (rtrim_last t) as [E0|(r & d & E0 & Hd)]; rewrite E0.
  - apply rtrim_nonspace. exact Hc.
  - replace (s ++ c :: r ++ [d]) with ((s ++ c :: r) ++ [d]) by (rewrite <- app_assoc; reflexivity). apply rtrim_nonspace. exact Hd.
Qed.

Lemma rtrim_in x t : In x (rtrim t) -> In x t.
Proof. intros H. destruct (rtrim_split t) as (ws & E & _). rewrite E. apply in_or_app. left. exact H. Qed.

Lemma render_app a b : render (a ++ b) = render a ++ render b.
Proof. induction a as [|[t sep] a IH]; [reflexivity|]. cbn [app render]. rewrite IH, <- !app_assoc. reflexivity. Qed.

(* a comment ending the text loses its trailing white space; nothing else changes *)
Definition trim_last (toks : list tok) : list tok :=
  match rev toks with KComment s :: r => rev r ++ [KComment (rtrim s)] | _ => toks end.

Lemma drop_comments_app a b : drop_comments (a ++ b) = drop_comments a ++ drop_comments b.
Proof. apply filter_app. Qed.

Lemma trim_last_drop toks : drop_comments (trim_last toks) = drop_comments toks.
Proof.
  unfold trim_last. destruct (rev toks) as [|t r] eqn:E; [reflexivity|]. destruct t; try reflexivity.
  assert (Et : toks = rev r ++ [KComment s]) by (rewrite <- (rev_involutive toks), E; reflexivity).
  rewrite Et, !drop_comments_app. reflexivity.
Qed.

Section T.
  Variable is_letter is_number : N -> bool.
  Notation wf_tok := (wf_tok is_letter is_number).
  Notation wf_items := (wf_items is_letter is_number).

  Lemma tok_last infix t : wf_tok infix t -> is_comment t = false -> exists r d, tok_text t = r ++ [d] /\ is_space d = false.
  Proof.
    assert (W : forall s, (exists c w, s = c :: w /\ wordc c = true /\ c <> 59%N /\ c <> 34%N /\ Forall (fun c => wordc c = true) w) ->
                exists r d, s = r ++ [d] /\ is_space d = false).
    { intros s (c & w & -> & Hc & _ & _ & Hw).
      assert (Hall : Forall (fun c => wordc c = true) (c :: w)) by (constructor; assumption).
      destruct (@exists_last _ (c :: w) ltac:(discriminate)) as (r & d & E). rewrite E in *. exists r, d. split; [reflexivity|].
      apply Forall_app in Hall. destruct Hall as [_ Hd]. inversion Hd; subst. apply wordc_class. assumption. }
    destruct t as [s|s|s| | | | | |s]; cbn [LexProofs.wf_tok tok_text is_comment]; intros H Hc; try discriminate.
    - apply W. tauto.
    - exists (34%N :: s), 34%N. split; reflexivity.
    - apply W. tauto.
    - exists [], 40%N. split; reflexivity.
    - exists [], 41%N. split; reflexivity.
    - exists [], 91%N. split; reflexivity.
    - exists [], 93%N. split; reflexivity.
    - exists [], 44%N. split; reflexivity.
  Qed.

  Lemma sep_ok_next u su n1 n2 : sep_ok u su n1 -> n1 <> [] -> hd_error n1 = hd_error n2 -> sep_ok u su n2.
  Proof.
    intros (H1 & H2 & H3) Hn Eh. split; [exact H1|split].
    - intros E Hw. specialize (H2 E Hw). destruct n1 as [|c1 n1]; [contradiction|]. destruct n2 as [|c2 n2]; [exact I|].
      cbn in Eh. inversion Eh; subst. exact H2.
    - intros Hc. destruct (H3 Hc) as [L|[_ E]]; [left; exact L|contradiction].
  Qed.

  Lemma render_head infix its t sep : wf_items infix (its ++ [(t, sep)]) ->
    render (its ++ [(t, sep)]) <> [] /\
    forall t' sep', hd_error (tok_text t') = hd_error (tok_text t) -> tok_text t' <> [] ->
      hd_error (render (its ++ [(t', sep')])) = hd_error (render (its ++ [(t, sep)])).
  Proof.
    destruct its as [|[u su] its]; cbn [app LexProofs.wf_items render]; intros (Hu & _).
    - destruct (tok_head is_letter is_number infix t Hu) as (c & r & E & _). rewrite E. split; [discriminate|].
      intros t' sep' Eh Hne. destruct (tok_text t') as [|c' r']; [contradiction|]. cbn in *. exact Eh.
    - destruct (tok_head is_letter is_number infix u Hu) as (c & r & E & _). rewrite E. split; [discriminate|]. intros; reflexivity.
  Qed.

  (* replacing the last item by one whose token starts with the same character *)
  Lemma wf_replace_last infix t t' sep : wf_tok infix t' -> hd_error (tok_text t') = hd_error (tok_text t) ->
    forall its, wf_items infix (its ++ [(t, sep)]) -> wf_items infix (its ++ [(t', [])]).
  Proof.
    intros Ht' Eh. induction its as [|[u su] its IH]; cbn [app LexProofs.wf_items]; intros (Hu & Hs & Hr).
    - split; [exact Ht'|split; [|exact I]]. split; [constructor|split; [intros; exact I|intros; right; split; reflexivity]].
    - split; [exact Hu|split; [|apply IH; exact Hr]].
      destruct (render_head infix its t sep Hr) as (Hne & Hh).
      apply (sep_ok_next u su _ _ Hs Hne). symmetry. apply Hh; [exact Eh|].
      destruct (tok_head is_letter is_number infix t' Ht') as (c & r & E & _). rewrite E. discriminate.
  Qed.

  Lemma fst_nonspace infix items : wf_items infix items -> trim_left (render items) = render items.
  Proof.
    destruct items as [|[t sep] rest]; [reflexivity|]. cbn [LexProofs.wf_items render]. intros (Ht & _).
    destruct (tok_head is_letter is_number infix t Ht) as (c & r & E & Hc). rewrite E. cbn [app trim_left]. rewrite Hc. reflexivity.
  Qed.

  (* trimming a rendering: again a rendering, of `trim_last` of the tokens *)
  Theorem trim_render infix lead items : all_space lead -> wf_items infix items ->
    exists items', trim (lead ++ render items) = render items' /\ wf_items infix items' /\
                   map fst items' = trim_last (map fst items).
  Proof.
    intros Hl Hwf. rewrite trim_rtrim, (trim_left_spaces lead _ Hl), (fst_nonspace infix items Hwf).
    destruct items as [|it items0] eqn:Ei; [exists []; repeat split|]. rewrite <- Ei in *.
    destruct (@exists_last _ items ltac:(rewrite Ei; discriminate)) as (its & [t sep] & E). clear Ei it items0. subst items.
    assert (Hwt : wf_tok infix t /\ all_space sep).
    { clear -Hwf. induction its as [|[u su] its IH]; cbn [app LexProofs.wf_items] in Hwf.
      - destruct Hwf as (H & (H2 & _) & _). split; assumption.
      - apply IH. tauto. }
    destruct Hwt as [Ht Hsep].
    rewrite render_app. cbn [render]. rewrite app_nil_r.
    replace (render its ++ tok_text t ++ sep) with ((render its ++ tok_text t) ++ sep) by (rewrite <- app_assoc; reflexivity).
    rewrite rtrim_app_space by exact Hsep.
    assert (Hmap : forall t', map fst (its ++ [(t', @nil N)]) = map fst its ++ [t']) by (intros; rewrite map_app; reflexivity).
    destruct (is_comment t) eqn:Hc.
    - destruct t as [s|s|s| | | | | |s]; try discriminate. cbn [LexProofs.wf_tok] in Ht. destruct Ht as (text & -> & Hnl).
      cbn [tok_text]. rewrite rtrim_keep by reflexivity.
      exists (its ++ [(KComment (59%N :: rtrim text), [])]). split; [|split].
      + rewrite render_app. cbn [render tok_text]. rewrite !app_nil_r. reflexivity.
      + apply (wf_replace_last infix (KComment (59%N :: text)) _ sep); [|reflexivity|exact Hwf].
        cbn [LexProofs.wf_tok]. eexists. split; [reflexivity|]. intros Hin. apply Hnl. apply rtrim_in. exact Hin.
      + rewrite Hmap. rewrite map_app. cbn [map fst]. unfold trim_last. rewrite rev_app_distr. cbn [rev app].
        rewrite rev_involutive. do 3 f_equal. change (59%N :: text) with ([] ++ 59%N :: text). rewrite rtrim_keep by reflexivity. reflexivity.
    - destruct (tok_last infix t Ht Hc) as (r & d & Et & Hd). rewrite Et.
      replace (render its ++ r ++ [d]) with ((render its ++ r) ++ [d]) by (rewrite <- app_assoc; reflexivity).
      rewrite rtrim_nonspace by exact Hd.
      exists (its ++ [(t, [])]). split; [|split].
      + rewrite render_app. cbn [render]. rewrite Et, !app_nil_r, <- app_assoc. reflexivity.
      + apply (wf_replace_last infix t t sep); [exact Ht|reflexivity|exact Hwf].
      + rewrite Hmap. rewrite map_app. cbn [map fst]. unfold trim_last. rewrite rev_app_distr. cbn [rev app].
        destruct t; try discriminate; reflexivity.
  Qed.

  (* IndentByParentheses on every rendering of every well-formed token list: the lexer reads the same tokens and
     comments from the result (a comment ending the text loses its trailing white space) *)
  Theorem indent_tokens infix lead items : all_space lead -> wf_items infix items -> noq items ->
    lex is_letter is_number infix (indent_by_parens (lead ++ render items)) = Some (trim_last (map fst items)).
  Proof.
    intros Hl Hwf Hq. rewrite indent_by_parens_fmt.
    destruct (fmt_render is_letter is_number infix lead items Hl Hwf Hq) as (lead' & items' & E & Hl' & Hwf' & Et).
    rewrite E. destruct (trim_render infix lead' items' Hl' Hwf') as (items'' & E2 & Hwf'' & Et'').
    rewrite E2. unfold Lexer.lex.
    rewrite (lex_render is_letter is_number infix items'' _ [] Hwf'' (Forall_nil _)) by (cbn [app]; lia).
    rewrite Et'', Et. reflexivity.
  Qed.

  (* what the parser sees — the tokens without the comments — is unchanged *)
  Corollary indent_meaning infix lead items : all_space lead -> wf_items infix items -> noq items ->
    option_map drop_comments (lex is_letter is_number infix (indent_by_parens (lead ++ render items))) =
    option_map drop_comments (lex is_letter is_number infix (lead ++ render items)).
  Proof.
    intros Hl Hwf Hq. rewrite (indent_tokens infix lead items Hl Hwf Hq). unfold Lexer.lex.
    rewrite (lex_render is_letter is_number infix items _ lead Hwf Hl) by lia. cbn [option_map]. rewrite trim_last_drop. reflexivity.
  Qed.
End T.

(* ---------- F. no word the lexer classifies contains a double quote ---------- *)

Definition pbody (neg : bool) (body : str) : option Z :=
  match body with
  | [] => None
  | _ => match digits_val 0 body with
         | Some v => let v' := if neg then - v else v in if in_i64 v' then Some v' else None
         | None => None
         end
  end.

Lemma parse_int_if s : parse_int s =
  match s with [] => None | c :: r => if (c =? 43)%N then pbody false r else if (c =? 45)%N then pbody true r else pbody false s end.
Proof.
  destruct s as [|c r]; [reflexivity|]. destruct c as [|p]; [reflexivity|].
  do 6 (try (destruct p as [p|p|]); try reflexivity).
Qed.

Lemma digits_val_digits s : forall acc v, digits_val acc s = Some v -> Forall (fun c => is_digit c = true) s.
Proof.
  induction s as [|c s IH]; intros acc v H; [constructor|]. cbn [digits_val] in H. destruct (is_digit c) eqn:E; [|discriminate].
  constructor; [exact E|eapply IH; exact H].
Qed.

Lemma pbody_digits neg body v : pbody neg body = Some v -> Forall (fun c => is_digit c = true) body.
Proof.
  unfold pbody. destruct body as [|c r]; [discriminate|]. destruct (digits_val 0 (c :: r)) as [v0|] eqn:E; [|discriminate].
  intros _. eapply digits_val_digits. exact E.
Qed.

Lemma digits_noq body : Forall (fun c => is_digit c = true) body -> ~ In 34%N body.
Proof. intros H Hin. rewrite Forall_forall in H. specialize (H _ Hin). discriminate. Qed.

Lemma valid_int_noq s : valid_int s = true -> ~ In 34%N s.
Proof.
  unfold valid_int. rewrite parse_int_if. destruct s as [|c r]; [intros _ []|].
  destruct (c =? 43)%N eqn:E1.
  { apply N.eqb_eq in E1. subst c. destruct (pbody false r) eqn:E; [|discriminate]. intros _ [H|H]; [discriminate|].
    exact (digits_noq r (pbody_digits _ _ _ E) H). }
  destruct (c =? 45)%N eqn:E2.
  { apply N.eqb_eq in E2. subst c. destruct (pbody true r) eqn:E; [|discriminate]. intros _ [H|H]; [discriminate|].
    exact (digits_noq r (pbody_digits _ _ _ E) H). }
  destruct (pbody false (c :: r)) eqn:E; [|discriminate]. intros _. exact (digits_noq _ (pbody_digits _ _ _ E)).
Qed.

Lemma lookup_builtin_in name tbl o : lookup_builtin name tbl = Some o -> In name (map (fun p => ss (fst p)) tbl).
Proof.
  induction tbl as [|[k o'] tbl IH]; cbn [lookup_builtin map fst]; [discriminate|].
  destruct (str_eqb name (ss k)) eqn:E; [intros _; left; symmetry; apply list_eqb_N_eq; exact E|intros H; right; exact (IH H)].
Qed.

(* over the regenerated operator table: no built-in name contains a double quote *)
Lemma builtin_names_noq : forallb (fun p => negb (existsb (N.eqb 34) (ss (fst p)))) builtin_table = true.
Proof. vm_compute. reflexivity. Qed.

Lemma builtin_noq w : is_builtin_name w = true -> ~ In 34%N w.
Proof.
  unfold is_builtin_name, builtin. destruct (lookup_builtin w builtin_table) as [o|] eqn:E; [|discriminate]. intros _ Hin.
  apply lookup_builtin_in in E. apply in_map_iff in E. destruct E as (p & <- & Hp).
  pose proof builtin_names_noq as B. rewrite forallb_forall in B. specialize (B p Hp). apply negb_true_iff in B.
  assert (existsb (N.eqb 34) (ss (fst p)) = true) by (apply existsb_exists; exists 34%N; split; [exact Hin|reflexivity]). congruence.
Qed.

Section Q.
  Variable is_letter is_number : N -> bool.
  Hypothesis letter_q : is_letter 34%N = false.
  Hypothesis number_q : is_number 34%N = false.

  Lemma ident_scan_noq whole : forall s idx pd last, ident_scan is_letter is_number whole s idx pd last = true ->
    is_builtin_name whole = true \/ ~ In 34%N s.
  Proof.
    induction s as [|r s IH]; intros idx pd last H; [right; intros []|]. cbn [ident_scan] in H.
    assert (Hr : forall idx' pd', ident_scan is_letter is_number whole s idx' pd' last = true -> r <> 34%N ->
                 is_builtin_name whole = true \/ ~ In 34%N (r :: s)).
    { intros idx' pd' H' Hne. destruct (IH _ _ _ H') as [L|R]; [left; exact L|right]. intros [E|Hin]; [exact (Hne E)|exact (R Hin)]. }
    destruct (is_letter r) eqn:E1; [apply (Hr _ _ H); intros ->; congruence|].
    destruct (r =? 95)%N eqn:E2; [apply (Hr _ _ H); intros ->; discriminate|].
    destruct (is_number r && negb (idx =? 0)) eqn:E3;
      [apply (Hr _ _ H); intros ->; rewrite number_q in E3; discriminate|].
    destruct (r =? 46)%N eqn:E4; [|left; exact H].
    destruct ((idx =? pd + 1) || (idx =? 0) || (idx =? last)); [discriminate|]. apply (Hr _ _ H). intros ->; discriminate.
  Qed.

  Lemma valid_ident_noq w : valid_ident is_letter is_number w = true -> ~ In 34%N w.
  Proof. unfold valid_ident. intros H. destruct (ident_scan_noq w w _ _ _ H) as [B|R]; [apply builtin_noq; exact B|exact R]. Qed.

  Lemma classify_word infix w t : classify is_letter is_number infix w = Some [t] -> t = KInt w \/ t = KIdent w ->
    valid_int w = true \/ valid_ident is_letter is_number w = true.
  Proof.
    intros H Ht. unfold classify in H.
    assert (P : (if str_eqb w (ss "(") then Some [KLParen] else if str_eqb w (ss ")") then Some [KRParen]
                 else if str_eqb w (ss "[") then Some [KLBracket] else if str_eqb w (ss "]") then Some [KRBracket]
                 else if str_eqb w (ss ",") then Some [KComma]
                 else if valid_int w then Some [KInt w]
                 else if valid_ident is_letter is_number w then Some [KIdent w] else None) = Some [t] ->
                valid_int w = true \/ valid_ident is_letter is_number w = true).
    { intros P. destruct (str_eqb w (ss "(")); [inversion P; subst; destruct Ht; discriminate|].
      destruct (str_eqb w (ss ")")); [inversion P; subst; destruct Ht; discriminate|].
      destruct (str_eqb w (ss "[")); [inversion P; subst; destruct Ht; discriminate|].
      destruct (str_eqb w (ss "]")); [inversion P; subst; destruct Ht; discriminate|].
      destruct (str_eqb w (ss ",")); [inversion P; subst; destruct Ht; discriminate|].
      destruct (valid_int w); [left; reflexivity|]. destruct (valid_ident is_letter is_number w); [right; reflexivity|discriminate]. }
    destruct w as [|c rest]; [exact (P H)|]. destruct ((c =? 33)%N && infix); [|exact (P H)].
    destruct (valid_ident is_letter is_number (c :: rest)) eqn:E; [right; reflexivity|].
    destruct (valid_ident is_letter is_number rest); [discriminate|exact (P H)].
  Qed.

  Lemma wf_noq infix items : wf_items is_letter is_number infix items -> noq items.
  Proof.
    induction items as [|[t sep] rest IH]; cbn [LexProofs.wf_items]; intros H; [constructor|]. destruct H as (Ht & _ & Hr).
    constructor; [|apply IH; exact Hr]. cbn [fst].
    destruct t as [s|s|s| | | | | |s]; try exact I; cbn [LexProofs.wf_tok] in Ht; destruct Ht as [_ Hc].
    - destruct (classify_word infix s _ Hc (or_introl eq_refl)) as [V|V]; [apply valid_int_noq|apply valid_ident_noq]; exact V.
    - destruct (classify_word infix s _ Hc (or_intror eq_refl)) as [V|V]; [apply valid_int_noq|apply valid_ident_noq]; exact V.
  Qed.

  (* IndentByParentheses on every rendering of every well-formed token list *)
  Theorem indent_tokens_wf infix lead items : all_space lead -> wf_items is_letter is_number infix items ->
    lex is_letter is_number infix (indent_by_parens (lead ++ render items)) = Some (trim_last (map fst items)).
  Proof. intros Hl Hwf. apply indent_tokens; [exact Hl|exact Hwf|apply (wf_noq infix); exact Hwf]. Qed.
End Q.

Print Assumptions indent_tokens_wf.

(* ---------- G. every source the lexer accepts is a rendering ---------- *)

Lemma take_line_split s : forall a b, take_line s = (a, b) -> s = a ++ b /\ ~ In 10%N a /\ (b = [] \/ exists b', b = 10%N :: b').
Proof.
  induction s as [|c s IH]; intros a b H; cbn [take_line] in H.
  - inversion H; subst. split; [reflexivity|split; [intros []|left; reflexivity]].
  - destruct (c =? 10)%N eqn:E.
    + inversion H; subst. apply N.eqb_eq in E. subst c. split; [reflexivity|split; [intros []|right; eexists; reflexivity]].
    + destruct (take_line s) as [a' b'] eqn:Et. inversion H; subst. destruct (IH a' b eq_refl) as (E1 & E2 & E3).
      split; [cbn [app]; f_equal; exact E1|split; [|exact E3]]. intros [Hc|Hin]; [subst c; discriminate|exact (E2 Hin)].
Qed.

Lemma take_string_split s : forall a b, take_string s = Some (a, b) -> s = a ++ 34%N :: b /\ ~ In 34%N a.
Proof.
  induction s as [|c s IH]; intros a b H; cbn [take_string] in H; [discriminate|].
  destruct (c =? 34)%N eqn:E.
  - inversion H; subst. apply N.eqb_eq in E. subst c. split; [reflexivity|intros []].
  - destruct (take_string s) as [[a' b']|] eqn:Et; [|discriminate]. inversion H; subst. destruct (IH a' b eq_refl) as (E1 & E2).
    split; [cbn [app]; f_equal; exact E1|]. intros [Hc|Hin]; [subst c; discriminate|exact (E2 Hin)].
Qed.

Lemma take_word_split s : forall a b, take_word s = (a, b) -> s = a ++ b /\ Forall (fun c => wordc c = true) a /\ stops b.
Proof.
  induction s as [|c s IH]; intros a b H; cbn [take_word] in H.
  - inversion H; subst. split; [reflexivity|split; [constructor|exact I]].
  - destruct (is_space c || is_delim c) eqn:E.
    + inversion H; subst. split; [reflexivity|split; [constructor|]]. cbn [stops]. unfold wordc. rewrite E. reflexivity.
    + destruct (take_word s) as [a' b'] eqn:Et. inversion H; subst. destruct (IH a' b eq_refl) as (E1 & E2 & E3).
      split; [cbn [app]; f_equal; exact E1|split; [|exact E3]]. constructor; [unfold wordc; rewrite E; reflexivity|exact E2].
Qed.

Lemma str_eqb_single' c w d : c <> d -> str_eqb (c :: w) [d] = false.
Proof. intros H. unfold str_eqb. cbn [list_eqb]. replace (c =? d)%N with false by (symmetry; apply N.eqb_neq; exact H). reflexivity. Qed.

Section C.
  Variable is_letter is_number : N -> bool.
  Notation wf_tok := (wf_tok is_letter is_number).
  Notation wf_items := (wf_items is_letter is_number).
  Notation classify := (classify is_letter is_number).
  Notation lex_loop := (lex_loop is_letter is_number).

  Lemma classify_plain_word c w ts : wordc c = true -> classify false (c :: w) = Some ts ->
    ts = [KInt (c :: w)] \/ ts = [KIdent (c :: w)].
  Proof.
    intros Hc H. unfold Lexer.classify in H. rewrite andb_false_r in H.
    assert (N40 : c <> 40%N) by (intros ->; discriminate). assert (N41 : c <> 41%N) by (intros ->; discriminate).
    assert (N91 : c <> 91%N) by (intros ->; discriminate). assert (N93 : c <> 93%N) by (intros ->; discriminate).
    assert (N44 : c <> 44%N) by (intros ->; discriminate).
    change (ss "(") with [40%N] in H. change (ss ")") with [41%N] in H. change (ss "[") with [91%N] in H.
    change (ss "]") with [93%N] in H. change (ss ",") with [44%N] in H.
    rewrite !str_eqb_single' in H by assumption.
    destruct (valid_int (c :: w)); [left; inversion H; reflexivity|].
    destruct (valid_ident is_letter is_number (c :: w)); [right; inversion H; reflexivity|discriminate].
  Qed.

  Lemma delim_token c ts : is_delim c = true -> (c =? 59)%N = false -> classify false [c] = Some ts ->
    exists t, ts = [t] /\ tok_text t = [c] /\ wf_tok false t /\ is_word_tok t = false /\ is_comment t = false.
  Proof.
    intros Hd H59 H. unfold is_delim in Hd. rewrite H59 in Hd.
    assert (Hc : c = 40%N \/ c = 41%N \/ c = 91%N \/ c = 93%N \/ c = 44%N) by lia.
    destruct Hc as [->|[->|[->|[->| ->]]]]; cbn in H; inversion H; subst; eexists; (split; [reflexivity|repeat split]).
  Qed.

  Theorem lex_complete : forall fuel s toks, lex_loop fuel false s = Some toks ->
    exists lead items, s = lead ++ render items /\ all_space lead /\ wf_items false items /\ map fst items = toks.
  Proof.
    induction fuel as [|f IH]; intros s toks H; [discriminate|]. cbn [Lexer.lex_loop] in H. unfold Lexer.next_raw in H.
    destruct (trim_left_split s) as (ws & Es & Hws). destruct (trim_left_head s) as [Et|(c & s' & Et & Hc)]; rewrite Et in *.
    { injection H as <-. exists ws, []. rewrite app_nil_r in Es. repeat split; try assumption. cbn [render]. rewrite app_nil_r. exact Es. }
    (* what the recursive call gives *)
    assert (REC : forall rest l, lex_loop f false rest = Some l ->
              exists lead items, rest = lead ++ render items /\ all_space lead /\ wf_items false items /\ map fst items = l)
      by (intros; apply IH; assumption).
    destruct (c =? 59)%N eqn:E59.
    { apply N.eqb_eq in E59. subst c. destruct (take_line (59%N :: s')) as [a b] eqn:Etl.
      destruct (lex_loop f false b) as [l|] eqn:El; [|discriminate]. inversion H; subst toks. clear H.
      destruct (take_line_split _ _ _ Etl) as (E1 & E2 & E3).
      cbn [take_line] in Etl. change (59 =? 10)%N with false in Etl. destruct (take_line s') as [a' b'] eqn:Etl'. inversion Etl; subst a b'. clear Etl.
      destruct (REC b l El) as (lead & items & Eb & Hl & Hwf & Em).
      exists ws, ((KComment (59%N :: a'), lead) :: items). split; [|split; [exact Hws|split]].
      - rewrite Es, E1, Eb. cbn [render tok_text]. reflexivity.
      - cbn [LexProofs.wf_items]. split; [|split; [|exact Hwf]].
        + cbn [LexProofs.wf_tok]. exists a'. split; [reflexivity|]. intros Hin. apply E2. right. exact Hin.
        + split; [exact Hl|split; [intros _ Hw; discriminate|]]. intros _.
          destruct E3 as [->|[b' ->]].
          * right. symmetry in Eb. apply app_eq_nil in Eb. exact Eb.
          * left. destruct lead as [|x lead]; [|cbn [app] in Eb; inversion Eb; subst; eexists; reflexivity].
            exfalso. cbn [app] in Eb. destruct items as [|[u su] r]; [discriminate|]. cbn [LexProofs.wf_items render] in *.
            destruct Hwf as (Hu & _). destruct (tok_head is_letter is_number false u Hu) as (x & r' & Ex & Hx). rewrite Ex in Eb.
            inversion Eb; subst x. discriminate.
      - cbn [map fst]. rewrite Em. reflexivity. }
    destruct (c =? 34)%N eqn:E34.
    { apply N.eqb_eq in E34. subst c. destruct (take_string s') as [[a b]|] eqn:Ets; [|discriminate].
      destruct (lex_loop f false b) as [l|] eqn:El; [|discriminate]. inversion H; subst toks. clear H.
      destruct (take_string_split _ _ _ Ets) as (E1 & E2).
      destruct (REC b l El) as (lead & items & Eb & Hl & Hwf & Em).
      exists ws, ((KStr a, lead) :: items). split; [|split; [exact Hws|split]].
      - rewrite Es, E1, Eb. cbn [render tok_text app]. rewrite <- app_assoc. reflexivity.
      - cbn [LexProofs.wf_items]. split; [exact E2|split; [|exact Hwf]].
        split; [exact Hl|split; [intros _ Hw; discriminate|intros Hc'; discriminate]].
      - cbn [map fst]. rewrite Em. reflexivity. }
    destruct (is_delim c) eqn:Ed.
    { destruct (classify false [c]) as [ts|] eqn:Ecl; [|discriminate].
      destruct (lex_loop f false s') as [l|] eqn:El; [|discriminate]. inversion H; subst toks. clear H.
      destruct (delim_token c ts Ed E59 Ecl) as (t & -> & Ett & Hwt & Hnw & Hnc).
      destruct (REC s' l El) as (lead & items & Eb & Hl & Hwf & Em).
      exists ws, ((t, lead) :: items). split; [|split; [exact Hws|split]].
      - rewrite Es, Eb. cbn [render]. rewrite Ett. reflexivity.
      - cbn [LexProofs.wf_items]. split; [exact Hwt|split; [|exact Hwf]].
        split; [exact Hl|split; [intros _ Hw; congruence|intros Hc'; congruence]].
      - cbn [map fst app]. rewrite Em. reflexivity. }
    (* an ordinary word *)
    destruct (take_word (c :: s')) as [a b] eqn:Etw.
    destruct (classify false a) as [ts|] eqn:Ecl; [|discriminate].
    destruct (lex_loop f false b) as [l|] eqn:El; [|discriminate]. inversion H; subst toks. clear H.
    destruct (take_word_split _ _ _ Etw) as (E1 & E2 & E3).
    assert (Hwc : wordc c = true) by (unfold wordc; rewrite Hc, Ed; reflexivity).
    cbn [take_word] in Etw. rewrite Hc, Ed in Etw. cbn [orb] in Etw. destruct (take_word s') as [w b'] eqn:Etw'. inversion Etw; subst a b'. clear Etw.
    pose proof (Forall_inv_tail E2) as Hw.
    destruct (REC b l El) as (lead & items & Eb & Hl & Hwf & Em).
    assert (Hshape : exists c0 w0, c :: w = c0 :: w0 /\ wordc c0 = true /\ c0 <> 59%N /\ c0 <> 34%N /\ Forall (fun c => wordc c = true) w0).
    { exists c, w. split; [reflexivity|split; [exact Hwc|split; [apply N.eqb_neq; exact E59|split; [apply N.eqb_neq; exact E34|exact Hw]]]]. }
    assert (Hsep : forall t, is_word_tok t = true -> is_comment t = false -> sep_ok t lead (render items)).
    { intros t Hw1 Hc1. split; [exact Hl|split; [|intros Hc'; congruence]]. intros -> _. cbn [app] in Eb. rewrite <- Eb. exact E3. }
    destruct (classify_plain_word c w ts Hwc Ecl) as [-> | ->].
    - exists ws, ((KInt (c :: w), lead) :: items). split; [|split; [exact Hws|split]].
      + rewrite Es, E1, Eb. cbn [render tok_text]. reflexivity.
      + cbn [LexProofs.wf_items]. split; [split; [exact Hshape|exact Ecl]|split; [apply Hsep; reflexivity|exact Hwf]].
      + cbn [map fst app]. rewrite Em. reflexivity.
    - exists ws, ((KIdent (c :: w), lead) :: items). split; [|split; [exact Hws|split]].
      + rewrite Es, E1, Eb. cbn [render tok_text]. reflexivity.
      + cbn [LexProofs.wf_items]. split; [split; [exact Hshape|exact Ecl]|split; [apply Hsep; reflexivity|exact Hwf]].
      + cbn [map fst app]. rewrite Em. reflexivity.
  Qed.
End C.

(* ---------- H. the formatter on every source the (prefix-notation) lexer accepts ---------- *)

Theorem indent_lexable is_letter is_number : is_letter 34%N = false -> is_number 34%N = false ->
  forall s toks, lex is_letter is_number false s = Some toks ->
  lex is_letter is_number false (indent_by_parens s) = Some (trim_last toks).
Proof.
  intros HL HN s toks H. unfold lex in H. destruct (lex_complete is_letter is_number _ s toks H) as (lead & items & -> & Hl & Hwf & <-).
  apply (indent_tokens_wf is_letter is_number HL HN false lead items Hl Hwf).
Qed.

Corollary indent_meaning_lexable is_letter is_number : is_letter 34%N = false -> is_number 34%N = false ->
  forall s toks, lex is_letter is_number false s = Some toks ->
  option_map drop_comments (lex is_letter is_number false (indent_by_parens s)) =
  option_map drop_comments (lex is_letter is_number false s).
Proof.
  intros HL HN s toks H. rewrite (indent_lexable is_letter is_number HL HN s toks H), H. cbn [option_map]. rewrite trim_last_drop. reflexivity.
Qed.

(* formatting twice = the tokens of formatting once *)
Corollary indent_twice is_letter is_number : is_letter 34%N = false -> is_number 34%N = false ->
  forall s toks, lex is_letter is_number false s = Some toks ->
  option_map drop_comments (lex is_letter is_number false (indent_by_parens (indent_by_parens s))) = Some (drop_comments toks).
Proof.
  intros HL HN s toks H. pose proof (indent_lexable is_letter is_number HL HN s toks H) as H1.
  rewrite (indent_lexable is_letter is_number HL HN _ _ H1). cbn [option_map]. rewrite !trim_last_drop. reflexivity.
Qed.

(* the comments before the first token (where directives are read) are untouched whenever there is a token at all *)
Lemma leading_app a b : existsb (fun t => negb (is_comment t)) a = true -> leading_comments (a ++ b) = leading_comments a.
Proof.
  induction a as [|t a IH]; intros H; [discriminate|]. cbn [existsb] in H. destruct t; try reflexivity.
  cbn [is_comment negb orb] in H. cbn [app leading_comments]. rewrite (IH H). reflexivity.
Qed.
Lemma trim_last_leading toks : existsb (fun t => negb (is_comment t)) toks = true ->
  leading_comments (trim_last toks) = leading_comments toks.
Proof.
  intros H. unfold trim_last. destruct (rev toks) as [|t r] eqn:E; [reflexivity|]. destruct t; try reflexivity.
  assert (Et : toks = rev r ++ [KComment s]) by (rewrite <- (rev_involutive toks), E; reflexivity).
  rewrite Et in H |- *. rewrite existsb_app in H. cbn [existsb is_comment negb orb] in H. rewrite orb_false_r in H.
  rewrite !leading_app by exact H. reflexivity.
Qed.

Print Assumptions indent_lexable.
