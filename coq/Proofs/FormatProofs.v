(* FormatProofs.v — C14, the formatter: IndentByParentheses (model: Print.indent_loop / indent_by_parens) returns a
   text with the same tokens. Structure:
     A. the loop does not depend on its fuel; `fmt`, the loop with its unfolding equation;
     B. what the loop does on white space, on each kind of token;
     C. the token-level description of the output (`fitems`) and the simulation theorem;
     D. the output is a well-formed rendering of the same tokens, so the lexer reads the same tokens back;
     E. the final trim. *)
Require Import Base Opcode Tables Ops Tree Opt Flat Run Directives Lexer Print OpsList LexProofs.
From Coq Require Import ZifyBool.
Open Scope Z_scope.
Open Scope list_scope.

(* ---------- A. fuel ---------- *)

Definition tstart (b : str) (p : syn) : bool :=
  match b with [] => true | q :: _ => negb (syn_eqb p SNormal) || (q =? 44)%N || (q =? 34)%N end.
Definition pre_rune (i : Z) (p : syn) : str :=
  (if syn_eqb p SComment then indent_str i else []) ++ (if syn_eqb p SSpace || syn_eqb p SRight then [32%N] else []).

(* one iteration, the recursive call abstracted *)
Definition body (rec : str -> str -> str -> Z -> syn -> str) (c : N) (s' b out : str) (i : Z) (p : syn) : str :=
  if (c =? 34)%N && tstart b p then
    let (lit, rest) := copy_through 34 s' in rec rest (rev lit ++ c :: b) (out ++ pre_rune i p ++ c :: lit) i SNormal
  else if is_left c then
    rec s' (c :: b) (out ++ (if syn_eqb p SComment then indent_str i else 10%N :: indent_str i) ++ [c]) (i + 1) SLeft
  else if is_right c then
    rec s' (c :: b) (out ++ (if syn_eqb p SComment then indent_str (i - 1) else []) ++ [c]) (i - 1) SRight
  else if is_space c then
    rec s' (c :: b) out i (if syn_eqb p SComment then SComment else SSpace)
  else if (c =? 59)%N then
    let lead := if syn_eqb p SComment then indent_str i else look_back b i in
    let (cm, rest) := copy_through 10 (c :: s') in rec rest (rev cm ++ b) (out ++ lead ++ cm) i SComment
  else rec s' (c :: b) (out ++ pre_rune i p ++ [c]) i SNormal.

Lemma loop_body f c s' b out i p : indent_loop (S f) (c :: s') b out i p = body (indent_loop f) c s' b out i p.
Proof. reflexivity. Qed.

Lemma copy_through_len stop s : (length (snd (copy_through stop s)) <= length s)%nat.
Proof.
  induction s as [|c s IH]; cbn [copy_through]; [cbn; lia|]. destruct (c =? stop)%N; [cbn; lia|].
  destruct (copy_through stop s) as [a r]. cbn [snd length] in *. lia.
Qed.

Lemma fuel_irrel : forall f1 f2 s b out i p, (length s < f1)%nat -> (length s < f2)%nat ->
  indent_loop f1 s b out i p = indent_loop f2 s b out i p.
Proof.
  induction f1 as [|f1 IH]; intros f2 s b out i p H1 H2; [lia|]. destruct f2 as [|f2]; [lia|].
  destruct s as [|c s']; [reflexivity|]. rewrite !loop_body. unfold body. cbn [length] in H1, H2.
  destruct ((c =? 34)%N && tstart b p).
  { pose proof (copy_through_len 34 s') as L. destruct (copy_through 34 s') as [lit rest]. cbn [snd] in L. apply IH; lia. }
  destruct (is_left c); [apply IH; lia|]. destruct (is_right c); [apply IH; lia|]. destruct (is_space c); [apply IH; lia|].
  destruct (c =? 59)%N eqn:E59; [|apply IH; lia].
  pose proof (copy_through_len 10 s') as L. cbn [copy_through].
  replace (c =? 10)%N with false by (apply N.eqb_eq in E59; subst c; reflexivity).
  destruct (copy_through 10 s') as [cm rest]. cbn [snd length] in L. apply IH; lia.
Qed.

Definition fmt (s b out : str) (i : Z) (p : syn) : str := indent_loop (S (length s)) s b out i p.

Lemma fmt_nil b out i p : fmt [] b out i p = out.
Proof. reflexivity. Qed.

Lemma fmt_cons c s' b out i p : fmt (c :: s') b out i p = body fmt c s' b out i p.
Proof.
  unfold fmt at 1. cbn [length]. rewrite loop_body. unfold body.
  destruct ((c =? 34)%N && tstart b p).
  { pose proof (copy_through_len 34 s') as L. destruct (copy_through 34 s') as [lit rest]. cbn [snd] in L. apply fuel_irrel; lia. }
  destruct (is_left c); [reflexivity|]. destruct (is_right c); [reflexivity|]. destruct (is_space c); [reflexivity|].
  destruct (c =? 59)%N eqn:E59; [|reflexivity].
  pose proof (copy_through_len 10 s') as L. cbn [copy_through].
  replace (c =? 10)%N with false by (apply N.eqb_eq in E59; subst c; reflexivity).
  destruct (copy_through 10 s') as [cm rest]. cbn [snd length] in L. apply fuel_irrel; lia.
Qed.

Lemma indent_by_parens_fmt s : indent_by_parens s = trim (fmt s [] [] 0 SNormal).
Proof. reflexivity. Qed.

(* ---------- B. steps ---------- *)

Lemma space_class c : is_space c = true -> (c =? 34)%N = false /\ is_left c = false /\ is_right c = false /\ is_delim c = false.
Proof.
  intros H. unfold is_left, is_right, is_delim.
  destruct (N.eqb_spec c 34); [subst; discriminate|]. destruct (N.eqb_spec c 91); [subst; discriminate|].
  destruct (N.eqb_spec c 40); [subst; discriminate|]. destruct (N.eqb_spec c 93); [subst; discriminate|].
  destruct (N.eqb_spec c 41); [subst; discriminate|]. destruct (N.eqb_spec c 59); [subst; discriminate|].
  destruct (N.eqb_spec c 44); [subst; discriminate|]. repeat split; reflexivity.
Qed.

Definition sp_prev (sp : str) (p : syn) : syn :=
  match sp with [] => p | _ => if syn_eqb p SComment then SComment else SSpace end.

Lemma fmt_spaces sp : all_space sp -> forall more b out i p,
  fmt (sp ++ more) b out i p = fmt more (rev sp ++ b) out i (sp_prev sp p).
Proof.
  induction 1 as [|c sp Hc _ IH]; intros more b out i p; [reflexivity|].
  cbn [app]. rewrite fmt_cons. unfold body. destruct (space_class c Hc) as (E1 & E2 & E3 & _).
  rewrite E1, E2, E3, Hc. cbn [andb]. rewrite IH. cbn [rev]. rewrite <- app_assoc. cbn [app sp_prev].
  f_equal. destruct sp; cbn [sp_prev]; destruct p; reflexivity.
Qed.

Lemma wordc_class c : wordc c = true ->
  is_left c = false /\ is_right c = false /\ is_space c = false /\ (c =? 59)%N = false /\ (c =? 44)%N = false.
Proof.
  unfold wordc. intros H. apply negb_true_iff in H. apply orb_false_iff in H. destruct H as [Hs Hd].
  unfold is_delim in Hd. unfold is_left, is_right.
  destruct (N.eqb_spec c 40); [subst; discriminate|]. destruct (N.eqb_spec c 41); [subst; discriminate|].
  destruct (N.eqb_spec c 91); [subst; discriminate|]. destruct (N.eqb_spec c 93); [subst; discriminate|].
  destruct (N.eqb_spec c 59); [subst; discriminate|]. destruct (N.eqb_spec c 44); [subst; discriminate|].
  repeat split; try reflexivity. exact Hs.
Qed.

(* the first character of a word *)
Lemma fmt_word_first c more b out i p : wordc c = true -> c <> 34%N ->
  fmt (c :: more) b out i p = fmt more (c :: b) (out ++ pre_rune i p ++ [c]) i SNormal.
Proof.
  intros Hc Hq. rewrite fmt_cons. unfold body. destruct (wordc_class c Hc) as (E1 & E2 & E3 & E4 & _).
  replace (c =? 34)%N with false by (symmetry; apply N.eqb_neq; exact Hq). cbn [andb]. rewrite E1, E2, E3, E4. reflexivity.
Qed.

(* the rest of a word: copied, nothing inserted *)
Lemma fmt_word_run w : Forall (fun c => wordc c = true) w -> ~ In 34%N w -> forall more b out i,
  fmt (w ++ more) b out i SNormal = fmt more (rev w ++ b) (out ++ w) i SNormal.
Proof.
  induction 1 as [|c w Hc _ IH]; intros Hq more b out i; [cbn [app rev]; rewrite app_nil_r; reflexivity|].
  cbn [app]. rewrite fmt_word_first; [|exact Hc|intros ->; apply Hq; left; reflexivity].
  rewrite IH by (intros Hin; apply Hq; right; exact Hin). cbn [rev pre_rune syn_eqb orb app]. rewrite <- !app_assoc. reflexivity.
Qed.

Lemma copy_through_app stop content s : ~ In stop content -> copy_through stop (content ++ stop :: s) = (content ++ [stop], s).
Proof.
  induction content as [|c content IH]; intros H; cbn [app copy_through]; [rewrite N.eqb_refl; reflexivity|].
  replace (c =? stop)%N with false by (symmetry; apply N.eqb_neq; intros ->; apply H; left; reflexivity).
  rewrite IH by (intros Hin; apply H; right; exact Hin). reflexivity.
Qed.
Lemma copy_through_end stop content : ~ In stop content -> copy_through stop content = (content, []).
Proof.
  induction content as [|c content IH]; intros H; cbn [copy_through]; [reflexivity|].
  replace (c =? stop)%N with false by (symmetry; apply N.eqb_neq; intros ->; apply H; left; reflexivity).
  rewrite IH by (intros Hin; apply H; right; exact Hin). reflexivity.
Qed.

(* a string literal at a token start: copied verbatim through its closing quote *)
Lemma fmt_string s more b out i p : ~ In 34%N s -> tstart b p = true ->
  fmt (34%N :: s ++ 34%N :: more) b out i p =
  fmt more (rev (34%N :: s ++ [34%N]) ++ b) (out ++ pre_rune i p ++ 34%N :: s ++ [34%N]) i SNormal.
Proof.
  intros Hs Ht. rewrite fmt_cons. unfold body. rewrite Ht. change ((34 =? 34)%N && true) with true. cbv iota.
  rewrite copy_through_app by exact Hs. cbn [rev]. rewrite <- app_assoc. reflexivity.
Qed.

(* a comment followed by its line break / ending the input *)
Lemma fmt_comment_nl text more b out i p : ~ In 10%N text ->
  fmt (59%N :: text ++ 10%N :: more) b out i p =
  fmt more (rev (59%N :: text ++ [10%N]) ++ b)
      (out ++ (if syn_eqb p SComment then indent_str i else look_back b i) ++ 59%N :: text ++ [10%N]) i SComment.
Proof.
  intros Hn. rewrite fmt_cons. unfold body. change ((59 =? 34)%N) with false. cbn [andb].
  change (is_left 59%N) with false. change (is_right 59%N) with false. change (is_space 59%N) with false.
  change ((59 =? 59)%N) with true. cbv iota.
  change (59%N :: text ++ 10%N :: more) with ((59%N :: text) ++ 10%N :: more).
  rewrite copy_through_app by (intros [E|H]; [discriminate|exact (Hn H)]). reflexivity.
Qed.
Lemma fmt_comment_end text b out i p : ~ In 10%N text ->
  fmt (59%N :: text) b out i p = out ++ (if syn_eqb p SComment then indent_str i else look_back b i) ++ 59%N :: text.
Proof.
  intros Hn. rewrite fmt_cons. unfold body. change ((59 =? 34)%N) with false. cbn [andb].
  change (is_left 59%N) with false. change (is_right 59%N) with false. change (is_space 59%N) with false.
  change ((59 =? 59)%N) with true. cbv iota.
  rewrite copy_through_end by (intros [E|H]; [discriminate|exact (Hn H)]). rewrite fmt_nil. reflexivity.
Qed.

(* delimiters *)
Lemma fmt_left c more b out i p : c = 40%N \/ c = 91%N ->
  fmt (c :: more) b out i p = fmt more (c :: b) (out ++ (if syn_eqb p SComment then indent_str i else 10%N :: indent_str i) ++ [c]) (i + 1) SLeft.
Proof. intros [-> | ->]; rewrite fmt_cons; reflexivity. Qed.
Lemma fmt_right c more b out i p : c = 41%N \/ c = 93%N ->
  fmt (c :: more) b out i p = fmt more (c :: b) (out ++ (if syn_eqb p SComment then indent_str (i - 1) else []) ++ [c]) (i - 1) SRight.
Proof. intros [-> | ->]; rewrite fmt_cons; reflexivity. Qed.
Lemma fmt_comma more b out i p :
  fmt (44%N :: more) b out i p = fmt more (44%N :: b) (out ++ pre_rune i p ++ [44%N]) i SNormal.
Proof. rewrite fmt_cons. reflexivity. Qed.

(* ---------- C. the output, token by token ---------- *)

Definition prefix (t : tok) (b : str) (i : Z) (p : syn) : str :=
  match t with
  | KLParen | KLBracket => if syn_eqb p SComment then indent_str i else 10%N :: indent_str i
  | KRParen | KRBracket => if syn_eqb p SComment then indent_str (i - 1) else []
  | KComment _ => if syn_eqb p SComment then indent_str i else look_back b i
  | _ => pre_rune i p
  end.
Definition tok_indent (t : tok) (i : Z) : Z :=
  match t with KLParen | KLBracket => i + 1 | KRParen | KRBracket => i - 1 | _ => i end.
Definition tok_prev (t : tok) : syn :=
  match t with KLParen | KLBracket => SLeft | KRParen | KRBracket => SRight | KComment _ => SComment | _ => SNormal end.
(* a comment keeps its line break *)
Definition suffix (t : tok) (sep : str) : str :=
  if is_comment t then match sep with [] => [] | _ => [10%N] end else [].

Definition pre_of (items : list (tok * str)) (b : str) (i : Z) (p : syn) : str :=
  match items with [] => [] | (u, _) :: _ => prefix u b i p end.

(* the formatted items: the same tokens, each followed by (its line break and) what the formatter writes before
   the next token; state = consumed input reversed, indent, previous syntax class *)
Fixpoint fitems (items : list (tok * str)) (b : str) (i : Z) (p : syn) : list (tok * str) :=
  match items with
  | [] => []
  | (t, sep) :: rest =>
    let b' := rev (tok_text t ++ sep) ++ b in
    let i' := tok_indent t i in
    let p' := sp_prev sep (tok_prev t) in
    (t, suffix t sep ++ pre_of rest b' i' p') :: fitems rest b' i' p'
  end.

Lemma fitems_toks items : forall b i p, map fst (fitems items b i p) = map fst items.
Proof. induction items as [|[t sep] rest IH]; intros b i p; cbn [fitems map fst]; [reflexivity|]. rewrite IH. reflexivity. Qed.

(* no word token contains a double quote (true of every word the lexer classifies, see `classify_noquote`) *)
Definition noq (items : list (tok * str)) : Prop :=
  Forall (fun it => match fst it with KInt s | KIdent s => ~ In 34%N s | _ => True end) items.

(* a string literal is met at a token start *)
Definition J (items : list (tok * str)) (b : str) (p : syn) : Prop :=
  match items with (KStr _, _) :: _ => tstart b p = true | _ => True end.

Section F.
  Variable is_letter is_number : N -> bool.
  Notation wf_tok := (wf_tok is_letter is_number).
  Notation wf_items := (wf_items is_letter is_number).

  Lemma tok_head infix t : wf_tok infix t -> exists c r, tok_text t = c :: r /\ is_space c = false.
  Proof.
    assert (W : forall s, (exists c w, s = c :: w /\ wordc c = true /\ c <> 59%N /\ c <> 34%N /\ Forall (fun c => wordc c = true) w) ->
                exists c r, s = c :: r /\ is_space c = false).
    { intros s (c & w & -> & Hc & _). exists c, w. split; [reflexivity|]. apply wordc_class in Hc. tauto. }
    destruct t as [s|s|s| | | | | |s]; cbn [LexProofs.wf_tok tok_text]; intros H.
    - apply W. tauto.
    - eexists; eexists; split; reflexivity.
    - apply W. tauto.
    - eexists; eexists; split; reflexivity.
    - eexists; eexists; split; reflexivity.
    - eexists; eexists; split; reflexivity.
    - eexists; eexists; split; reflexivity.
    - eexists; eexists; split; reflexivity.
    - destruct H as (text & -> & _). eexists; eexists; split; reflexivity.
  Qed.

  Lemma render_nil_inv infix items : wf_items infix items -> render items = [] -> items = [].
  Proof.
    destruct items as [|[t sep] rest]; [reflexivity|]. cbn [LexProofs.wf_items render]. intros (Ht & _) E.
    destruct (tok_head infix t Ht) as (c & r & Et & _). rewrite Et in E. discriminate.
  Qed.

  (* the state at the next token start *)
  Lemma J_next infix t sep rest b : wf_tok infix t -> sep_ok t sep (render rest) -> wf_items infix rest ->
    J rest (rev (tok_text t ++ sep) ++ b) (sp_prev sep (tok_prev t)).
  Proof.
    intros Ht (Hsp & Hfuse & Hcmt) Hrest. destruct rest as [|[u sepu] rest']; [exact I|]. destruct u; try exact I. cbn [J].
    destruct sep as [|c sep].
    - rewrite app_nil_r. cbn [sp_prev].
      destruct t as [s0|s0|s0| | | | | |s0]; cbn [tok_text tok_prev rev app tstart syn_eqb negb orb];
        try (destruct (rev _ ++ b); reflexivity); try reflexivity.
      + exfalso. specialize (Hfuse eq_refl eq_refl). cbn in Hfuse. discriminate.
      + rewrite rev_app_distr. cbn [rev app tstart]. rewrite N.eqb_refl. apply orb_true_r.
      + exfalso. specialize (Hfuse eq_refl eq_refl). cbn in Hfuse. discriminate.
    - cbn [sp_prev]. unfold tstart. destruct (rev (tok_text t ++ c :: sep) ++ b); [reflexivity|].
      destruct (tok_prev t); reflexivity.
  Qed.

  Theorem sim infix : forall items b out i p, wf_items infix items -> noq items -> J items b p ->
    fmt (render items) b out i p = out ++ pre_of items b i p ++ render (fitems items b i p).
  Proof.
    induction items as [|[t sep] rest IH]; intros b out i p Hwf Hq HJ.
    - cbn [render pre_of fitems]. rewrite fmt_nil, !app_nil_r. reflexivity.
    - cbn [LexProofs.wf_items] in Hwf. destruct Hwf as (Ht & Hsep & Hrest). inversion Hq as [|? ? Hq1 Hq2]; subst.
      pose proof (J_next infix t sep rest b Ht Hsep Hrest) as HJ'.
      destruct Hsep as (Hsp & Hfuse & Hcmt).
      cbn [render pre_of fitems fst] in *.
      set (b' := rev (tok_text t ++ sep) ++ b) in *. set (p' := sp_prev sep (tok_prev t)) in *.
      assert (Hb' : b' = rev sep ++ rev (tok_text t) ++ b) by (unfold b'; rewrite rev_app_distr, <- app_assoc; reflexivity).
      destruct t as [s|s|s| | | | | |s]; cbn [tok_text LexProofs.wf_tok prefix tok_indent tok_prev suffix is_comment] in *.
      + (* integer *)
        destruct Ht as [(c & w & -> & Hc & H1 & H2 & Hw) _].
        cbn [app]. rewrite fmt_word_first by assumption.
        rewrite fmt_word_run by (try assumption; intros Hin; apply Hq1; right; exact Hin).
        rewrite fmt_spaces by exact Hsp.
        replace (rev sep ++ rev w ++ c :: b) with b' by (rewrite Hb'; cbn [rev]; rewrite <- !app_assoc; reflexivity).
        rewrite (IH b' _ i p' Hrest Hq2 HJ'). fold p'. rewrite <- !app_assoc. reflexivity.
      + (* string *)
        cbn [J] in HJ. replace ((34%N :: s ++ [34%N]) ++ sep ++ render rest) with (34%N :: s ++ 34%N :: (sep ++ render rest))
          by (cbn [app]; rewrite <- app_assoc; reflexivity).
        rewrite fmt_string by assumption. rewrite fmt_spaces by exact Hsp. rewrite <- Hb'.
        rewrite (IH b' _ i p' Hrest Hq2 HJ'). fold p'. rewrite <- !app_assoc. reflexivity.
      + (* identifier *)
        destruct Ht as [(c & w & -> & Hc & H1 & H2 & Hw) _].
        cbn [app]. rewrite fmt_word_first by assumption.
        rewrite fmt_word_run by (try assumption; intros Hin; apply Hq1; right; exact Hin).
        rewrite fmt_spaces by exact Hsp.
        replace (rev sep ++ rev w ++ c :: b) with b' by (rewrite Hb'; cbn [rev]; rewrite <- !app_assoc; reflexivity).
        rewrite (IH b' _ i p' Hrest Hq2 HJ'). fold p'. rewrite <- !app_assoc. reflexivity.
      + cbn [app]. rewrite fmt_left by auto. rewrite fmt_spaces by exact Hsp.
        match goal with |- context [fmt _ ?x _ _ _] => replace x with b' by (rewrite Hb'; reflexivity) end.
        rewrite (IH b' _ _ p' Hrest Hq2 HJ'). fold p'. rewrite <- !app_assoc. reflexivity.
      + cbn [app]. rewrite fmt_right by auto. rewrite fmt_spaces by exact Hsp.
        match goal with |- context [fmt _ ?x _ _ _] => replace x with b' by (rewrite Hb'; reflexivity) end.
        rewrite (IH b' _ _ p' Hrest Hq2 HJ'). fold p'. rewrite <- !app_assoc. reflexivity.
      + cbn [app]. rewrite fmt_left by auto. rewrite fmt_spaces by exact Hsp.
        match goal with |- context [fmt _ ?x _ _ _] => replace x with b' by (rewrite Hb'; reflexivity) end.
        rewrite (IH b' _ _ p' Hrest Hq2 HJ'). fold p'. rewrite <- !app_assoc. reflexivity.
      + cbn [app]. rewrite fmt_right by auto. rewrite fmt_spaces by exact Hsp.
        match goal with |- context [fmt _ ?x _ _ _] => replace x with b' by (rewrite Hb'; reflexivity) end.
        rewrite (IH b' _ _ p' Hrest Hq2 HJ'). fold p'. rewrite <- !app_assoc. reflexivity.
      + cbn [app]. rewrite fmt_comma. rewrite fmt_spaces by exact Hsp.
        match goal with |- context [fmt _ ?x _ _ _] => replace x with b' by (rewrite Hb'; reflexivity) end.
        rewrite (IH b' _ _ p' Hrest Hq2 HJ'). fold p'. rewrite <- !app_assoc. reflexivity.
      + (* comment *)
        destruct Ht as (text & -> & Hnl). destruct (Hcmt eq_refl) as [[sep' Es]|[Es Er]].
        * subst sep. replace ((59%N :: text) ++ (10%N :: sep') ++ render rest) with (59%N :: text ++ 10%N :: (sep' ++ render rest)) by reflexivity.
          rewrite fmt_comment_nl by exact Hnl. inversion Hsp as [|? ? _ Hsp']; subst.
          rewrite (fmt_spaces sep' Hsp').
          replace (rev sep' ++ rev (59%N :: text ++ [10%N]) ++ b) with b'
            by (rewrite Hb'; cbn [rev]; rewrite !rev_app_distr; cbn [rev app]; rewrite <- !app_assoc; reflexivity).
          replace (sp_prev sep' SComment) with p' by (unfold p'; destruct sep'; reflexivity).
          rewrite (IH b' _ _ p' Hrest Hq2 HJ'). rewrite <- !app_assoc. cbn [app]. rewrite <- !app_assoc. reflexivity.
        * subst sep. apply (render_nil_inv infix rest Hrest) in Er. subst rest.
          cbn [render fitems pre_of app]. rewrite !app_nil_r. rewrite fmt_comment_end by exact Hnl. reflexivity.
  Qed.

  (* ---------- D. the output is a well-formed rendering of the same tokens ---------- *)

  Lemma spaces_space n : all_space (spaces n).
  Proof. induction n as [|n IH]; cbn [spaces]; constructor; [reflexivity|exact IH]. Qed.
  Lemma indent_space i : all_space (indent_str i).
  Proof. apply spaces_space. Qed.
  Lemma look_back_space b i : all_space (look_back b i).
  Proof.
    induction b as [|c b IH]; cbn [look_back]; [constructor|]. destruct (negb (is_space c)); [repeat constructor|].
    destruct (c =? 10)%N; [constructor; [reflexivity|apply indent_space]|exact IH].
  Qed.
  Lemma all_space_app a b : all_space a -> all_space b -> all_space (a ++ b).
  Proof. intros Ha Hb. apply Forall_app. split; assumption. Qed.
  Lemma pre_rune_space i p : all_space (pre_rune i p).
  Proof.
    unfold pre_rune. apply all_space_app; [destruct (syn_eqb p SComment); [apply indent_space|constructor]|].
    destruct (syn_eqb p SSpace || syn_eqb p SRight); repeat constructor.
  Qed.
  Lemma prefix_space u b i p : all_space (prefix u b i p).
  Proof.
    destruct u; cbn [prefix]; try apply pre_rune_space; destruct (syn_eqb p SComment);
      try apply indent_space; try apply look_back_space; try constructor; try reflexivity; apply indent_space.
  Qed.
  Lemma pre_of_space items b i p : all_space (pre_of items b i p).
  Proof. destruct items as [|[u su] r]; [constructor|apply prefix_space]. Qed.

  Lemma stops_tok infix u more more' : wf_tok infix u -> stops (tok_text u ++ more) -> stops (tok_text u ++ more').
  Proof. intros Hu. destruct (tok_head infix u Hu) as (c & r & -> & _). cbn [app stops]. tauto. Qed.

  Theorem wf_out infix : forall items b i p, wf_items infix items -> wf_items infix (fitems items b i p).
  Proof.
    induction items as [|[t sep] rest IH]; intros b i p Hwf; [exact I|].
    cbn [LexProofs.wf_items] in Hwf. destruct Hwf as (Ht & (Hsp & Hfuse & Hcmt) & Hrest).
    cbn [fitems LexProofs.wf_items].
    set (b' := rev (tok_text t ++ sep) ++ b). set (i' := tok_indent t i). set (p' := sp_prev sep (tok_prev t)).
    split; [exact Ht|]. split; [|apply IH; exact Hrest].
    split; [|split].
    - apply all_space_app; [|apply pre_of_space]. unfold suffix. destruct (is_comment t); [|constructor].
      destruct sep; [constructor|repeat constructor].
    - intros Enew Hword.
      assert (Esuf : suffix t sep = []) by (destruct t; try discriminate; reflexivity).
      rewrite Esuf in Enew. cbn [app] in Enew.
      destruct rest as [|[u su] r]; [exact I|]. cbn [pre_of] in Enew. cbn [fitems render].
      cbn [LexProofs.wf_items] in Hrest. destruct Hrest as (Hu & _ & _).
      destruct sep as [|c sep].
      + apply (stops_tok infix u (su ++ render r)); [exact Hu|]. apply Hfuse; [reflexivity|exact Hword].
      + assert (Ep : p' = SSpace) by (unfold p'; destruct t; try discriminate; reflexivity).
        rewrite Ep in Enew. destruct u as [s|s|s| | | | | |s]; cbn [prefix pre_rune syn_eqb orb app] in Enew; try discriminate; try exact eq_refl.
        cbn [LexProofs.wf_tok] in Hu. destruct Hu as (text & -> & _). exact eq_refl.
    - intros Hc. destruct (Hcmt Hc) as [[sep' ->]|[-> Er]].
      + left. unfold suffix. rewrite Hc. eexists. reflexivity.
      + right. apply (render_nil_inv infix rest Hrest) in Er. subst rest. unfold suffix. rewrite Hc. split; reflexivity.
  Qed.

  (* the formatter's raw output (before the final trim) is a well-formed rendering of the same tokens *)
  Theorem fmt_render infix lead items : all_space lead -> wf_items infix items -> noq items ->
    exists (lead' : str) (items' : list (tok * str)), fmt (lead ++ render items) [] [] 0 SNormal = lead' ++ render items' /\
      all_space lead' /\ wf_items infix items' /\ map fst items' = map fst items.
  Proof.
    intros Hl Hwf Hq. rewrite (fmt_spaces lead Hl). rewrite app_nil_r.
    exists (pre_of items (rev lead) 0 (sp_prev lead SNormal)), (fitems items (rev lead) 0 (sp_prev lead SNormal)).
    split; [|split; [apply pre_of_space|split; [apply wf_out; exact Hwf|apply fitems_toks]]].
    rewrite (sim infix items _ [] 0 _ Hwf Hq); [reflexivity|].
    destruct items as [|[u su] r]; [exact I|]. destruct u; try exact I. cbn [J].
    destruct lead as [|c lead]; [reflexivity|]. cbn [sp_prev syn_eqb]. unfold tstart. destruct (rev (c :: lead)); reflexivity.
  Qed.

  (* ... so the lexer reads the same tokens (comments included) from it *)
  Corollary lex_fmt infix lead items : all_space lead -> wf_items infix items -> noq items ->
    lex is_letter is_number infix (fmt (lead ++ render items) [] [] 0 SNormal) = Some (map fst items).
  Proof.
    intros Hl Hwf Hq. destruct (fmt_render infix lead items Hl Hwf Hq) as (lead' & items' & E & Hl' & Hwf' & Et).
    rewrite E. unfold Lexer.lex. rewrite (lex_render is_letter is_number infix items' _ lead' Hwf' Hl') by lia. rewrite Et. reflexivity.
  Qed.
End F.
