(* DumpStructE.v — C13/C12: Dump of the event-mode program. Event nodes are skipped by getChildIdxes, the real nodes
   keep their tree structure: `dump (compileE t)` is the same structural printing `show t` as for the plain program,
   so ReportEvent/Debug never change the decompiled program. *)
Require Import Base Opcode Tables Ops Tree Opt Flat FlatE Run CompFacts CompFactsE Directives Print DumpStruct.
From Coq Require Import ZifyBool.
Open Scope Z_scope.
Open Scope list_scope.

(* indices of REAL nodes whose parent is x *)
Fixpoint hitsR (x : Z) (start : Z) (code : list (node * Z)) : list Z :=
  match code with
  | [] => []
  | (nd, p) :: code' => (if (p =? x) && negb (is_event nd) then [start] else []) ++ hitsR x (start + 1) code'
  end.

Lemma hitsR_app x : forall a s b, hitsR x s (a ++ b) = hitsR x s a ++ hitsR x (s + lenZ a) b.
Proof.
  induction a as [|[nd p] a IH]; intros s b; cbn [app hitsR].
  - change (lenZ (@nil (node * Z))) with 0. rewrite Z.add_0_r. reflexivity.
  - rewrite IH, lenZ_cons. rewrite <- app_assoc. do 2 f_equal. f_equal. lia.
Qed.

Lemma lenZ_compE last t base h inh anc mf mt pidx r : lenZ (compE last t base h inh anc mf mt pidx r) = Z.of_nat (esize t).
Proof. unfold lenZ. rewrite compE_length. reflexivity. Qed.
Lemma lenZ_compE_args last k n ridx anc' cs b hh : lenZ (compE_args last k n ridx anc' cs b hh) = Z.of_nat (esizes cs).
Proof. unfold lenZ. rewrite compE_args_length. reflexivity. Qed.

Lemma is_event_mk last k cnt mf mt h r : (forall p o, k <> KEvent p o) -> is_event (mk last k cnt mf mt h r) = false.
Proof. intros H. unfold is_event. cbn [kind mk]. destruct k; try reflexivity. exfalso. eapply H. reflexivity. Qed.

Lemma hitsR_with_event x s pos nd pidx : is_event nd = false ->
  hitsR x s (with_event pos nd pidx) = if pidx =? x then [s + 1] else [].
Proof.
  intros Hn. unfold with_event. cbn [hitsR]. unfold is_event at 1. cbn [kind event_node negb]. rewrite andb_false_r. cbn [app].
  rewrite Hn. cbn [negb]. rewrite andb_true_r, app_nil_r. reflexivity.
Qed.

Section C.
  Variable last : Z.
  Notation compE := (compE last).
  Notation compE_args := (compE_args last).

  Lemma leaf_kind_not_event t p o : leaf_kind t <> KEvent p o.
  Proof. destruct t; discriminate. Qed.

  (* outside a subtree's index range only the subtree's root (a real node) can have the parent x *)
  Lemma hitsR_out : forall t base h inh anc mf mt pidx r x, outside x base (esize t) ->
    hitsR x base (compE t base h inh anc mf mt pidx r) = if pidx =? x then [root_idxE t base] else [].
  Proof.
    induction t as [v|n k|name fast cs IH|c t f IHc IHt IHf] using tree_ind2; intros base h inh anc mf mt pidx r x Ho.
    - cbn [FlatE.compE root_idxE]. apply hitsR_with_event. apply is_event_mk. discriminate.
    - cbn [FlatE.compE root_idxE]. apply hitsR_with_event. apply is_event_mk. discriminate.
    - destruct (fast_shape fast cs) eqn:Hfs.
      + destruct (fast_shape_inv _ _ Hfs) as (a & b & -> & Ha & Hb & ->).
        rewrite compE_fast_unfold by exact Hfs. cbv zeta. cbn [root_idxE]. rewrite Hfs.
        rewrite (esize_fast name true [a; b] Hfs) in Ho. unfold outside in Ho.
        rewrite hitsR_app, hitsR_with_event by (apply is_event_mk; discriminate). cbn [hitsR].
        replace (base + 1 =? x) with false by lia. cbn [andb app]. rewrite app_nil_r. reflexivity.
      + rewrite compE_op_unfold by exact Hfs. rewrite hitsR_app. cbn [root_idxE]. rewrite Hfs.
        rewrite lenZ_compE_args.
        assert (Hsz : Z.of_nat (esize (TOp name fast cs)) = Z.of_nat (esizes cs) + 2) by (rewrite esize_op by exact Hfs; lia).
        set (ridx := base + Z.of_nat (esize (TOp name fast cs)) - 1) in *.
        assert (Hargs : forall R kk n anc' b hh, R <> x -> outside x b (esizes cs) ->
                  hitsR x b (compE_args kk n R anc' cs b hh) = []).
        { clear Hfs Ho Hsz ridx. intros R kk n anc' b hh HR. revert b hh.
          induction IH as [|c0 cs0 Hc _ IHcs]; intros b hh Hb; cbn [FlatE.compE_args]; [reflexivity|].
          cbv zeta. rewrite hitsR_app. cbn [esizes fold_right] in Hb. fold (esizes cs0) in Hb.
          rewrite Hc by (unfold outside in *; lia). replace (R =? x) with false by lia. cbn [app].
          rewrite lenZ_compE. apply IHcs. unfold outside in *. lia. }
        rewrite Hargs by (unfold outside, ridx in *; lia). cbn [app].
        rewrite hitsR_with_event by (apply is_event_mk; discriminate).
        replace (base + Z.of_nat (esizes cs) + 1) with ridx by (unfold ridx; lia). reflexivity.
    - cbn [FlatE.compE]. cbv zeta. cbn [root_idxE esize] in *. unfold outside in Ho.
      pose proof (esize_pos c). pose proof (esize_pos t). pose proof (esize_pos f).
      rewrite !hitsR_app. rewrite !hitsR_with_event by (apply is_event_mk; discriminate).
      rewrite ?lenZ_compE. unfold with_event. rewrite ?lenZ_cons. change (lenZ (@nil (node * Z))) with 0.
      replace (base + Z.of_nat (esize c) + (0 + 1 + 1)) with (base + Z.of_nat (esize c) + 1 + 1) by lia.
      replace (base + Z.of_nat (esize c) + 1 + 1 + Z.of_nat (esize t) + (0 + 1 + 1)) with (base + Z.of_nat (esize c) + 1 + 1 + Z.of_nat (esize t) + 1 + 1) by lia.
      rewrite IHc, IHt, IHf by (unfold outside; lia).
      replace (base + Z.of_nat (esize c) + 1 =? x) with false by lia. cbn [app]. rewrite !app_nil_r. reflexivity.
  Qed.

  Lemma hitsR_args_out R kk n anc' x : R <> x -> forall cs b hh, outside x b (esizes cs) ->
    hitsR x b (compE_args kk n R anc' cs b hh) = [].
  Proof.
    intros HR. induction cs as [|c0 cs0 IH]; intros b hh Hb; cbn [FlatE.compE_args]; [reflexivity|].
    cbv zeta. rewrite hitsR_app. cbn [esizes fold_right] in Hb. fold (esizes cs0) in Hb.
    rewrite hitsR_out by (unfold outside in *; lia). replace (R =? x) with false by lia. cbn [app].
    rewrite lenZ_compE. apply IH. unfold outside in *. lia.
  Qed.

  Fixpoint rootsE (cs : list tree) (b : Z) : list Z :=
    match cs with [] => [] | c :: cs' => root_idxE c b :: rootsE cs' (b + Z.of_nat (esize c)) end.

  Lemma hitsR_args_roots R kk n anc' : forall cs b hh, outside R b (esizes cs) ->
    hitsR R b (compE_args kk n R anc' cs b hh) = rootsE cs b.
  Proof.
    induction cs as [|c0 cs0 IH]; intros b hh Hb; cbn [FlatE.compE_args rootsE]; [reflexivity|].
    cbv zeta. rewrite hitsR_app. cbn [esizes fold_right] in Hb. fold (esizes cs0) in Hb.
    rewrite hitsR_out by (unfold outside in *; lia). rewrite Z.eqb_refl. cbn [app]. f_equal.
    rewrite lenZ_compE. apply IH. unfold outside in *. lia.
  Qed.
End C.

(* ---------- Dump on the event-mode program ---------- *)

Section D.
  Variable last : Z.
  Variable full : list (node * Z).
  Variable m : Z.
  Notation PD := (PD full m).
  Notation compE := (compE last).
  Notation compE_args := (compE_args last).

  Lemma all_childrenR_gen idx : forall suf pre, full = pre ++ suf ->
    map fst (filter (fun ip : Z * Z => (snd ip =? idx) &&
                 match nthZ (nodes PD) (fst ip) with Some nd => negb (is_event nd) | None => false end)
              (combine (map Z.of_nat (seq (length pre) (length suf))) (map snd suf))) = hitsR idx (Z.of_nat (length pre)) suf.
  Proof.
    induction suf as [|[nd p] suf IH]; intros pre E; [reflexivity|].
    cbn [length seq map combine filter fst snd hitsR].
    assert (G : nthZ (nodes PD) (Z.of_nat (length pre)) = Some nd).
    { cbn [nodes DumpStruct.PD]. rewrite E, map_app. unfold nthZ. replace (Z.of_nat (length pre) <? 0) with false by lia.
      rewrite Nat2Z.id, nth_error_app2 by (rewrite map_length; lia). rewrite map_length, Nat.sub_diag. reflexivity. }
    rewrite G.
    assert (IH' := IH (pre ++ [(nd, p)]) ltac:(rewrite <- app_assoc; exact E)).
    rewrite app_length in IH'. cbn [length] in IH'. replace (length pre + 1)%nat with (S (length pre)) in IH' by lia.
    destruct ((p =? idx) && negb (is_event nd)).
    - cbn [map fst app]. f_equal. rewrite IH'. f_equal. lia.
    - cbn [app]. rewrite IH'. f_equal. lia.
  Qed.

  Lemma child_idxesR idx : child_idxes PD idx =
    match nthZ (nodes PD) idx with
    | Some nd =>
      if is_cond_kind (kind nd) then
        match hitsR idx 0 full with a :: b :: _ :: d :: _ => Some [a; b; d] | _ => None end
      else Some (hitsR idx 0 full)
    | None => None
    end.
  Proof.
    unfold child_idxes. cbn [parents DumpStruct.PD]. rewrite map_length.
    pose proof (all_childrenR_gen idx full [] eq_refl) as H. cbn [length] in H. change (Z.of_nat 0) with 0 in H. rewrite H. reflexivity.
  Qed.

  Definition ctx_okR (cpre cpost : list (node * Z)) (base : Z) (n : nat) : Prop :=
    forall x, base <= x < base + Z.of_nat n -> hitsR x 0 cpre = [] /\ hitsR x (base + Z.of_nat n) cpost = [].

  Lemma hitsR_full cpre code cpost base x :
    full = cpre ++ code ++ cpost -> lenZ cpre = base -> ctx_okR cpre cpost base (length code) ->
    base <= x < base + Z.of_nat (length code) -> hitsR x 0 full = hitsR x base code.
  Proof.
    intros E Hb Hc Hx. rewrite E, !hitsR_app, Hb. destruct (Hc x Hx) as [H1 H2].
    change (0 + base) with base. unfold lenZ. rewrite H1, H2. cbn [app]. rewrite app_nil_r. reflexivity.
  Qed.

  Definition dump_okE (t : tree) : Prop :=
    forall base h inh anc mf mt pidx r cpre cpost depth fuel,
      full = cpre ++ compE t base h inh anc mf mt pidx r ++ cpost -> lenZ cpre = base ->
      outside pidx base (esize t) -> ctx_okR cpre cpost base (esize t) -> (esize t <= fuel)%nat ->
      dump_node PD fuel (root_idxE t base) depth = Some (show t depth).

  Lemma leaf_dumpE t : is_leaf t = true -> dump_okE t.
  Proof.
    intros Hl base h inh anc mf mt pidx r cpre cpost depth fuel E Hb Ho Hc Hf.
    destruct fuel as [|f]; [pose proof (esize_pos t); lia|]. rewrite dump_node_S.
    destruct t as [v|n k| |]; try discriminate; cbn [root_idxE FlatE.compE with_event] in *.
    - pose proof (node_at full m cpre _ cpost base 1%nat _ _ E Hb eq_refl) as G. change (Z.of_nat 1) with 1 in G. rewrite G. reflexivity.
    - pose proof (node_at full m cpre _ cpost base 1%nat _ _ E Hb eq_refl) as G. change (Z.of_nat 1) with 1 in G. rewrite G. reflexivity.
  Qed.

  Lemma fast_dumpE name a b : fast_shape true [a; b] = true -> dump_okE (TOp name true [a; b]).
  Proof.
    intros Hfs base h inh anc mf mt pidx r cpre cpost depth fuel E Hb Ho Hc Hf.
    destruct (fast_shape_inv _ _ Hfs) as (a' & b' & E' & Ha & Hb' & _). inversion E'; subst a' b'. clear E'.
    rewrite (esize_fast name true [a; b] Hfs) in *. rewrite compE_fast_unfold in E by exact Hfs. cbv zeta in E. unfold with_event in E.
    destruct fuel as [|[|f]]; try lia. cbn [root_idxE]. rewrite Hfs.
    pose proof (node_at full m cpre _ cpost base 1%nat _ _ E Hb eq_refl) as G1. change (Z.of_nat 1) with 1 in G1.
    pose proof (node_at full m cpre _ cpost base 2%nat _ _ E Hb eq_refl) as G2. change (Z.of_nat 2) with 2 in G2.
    pose proof (node_at full m cpre _ cpost base 3%nat _ _ E Hb eq_refl) as G3. change (Z.of_nat 3) with 3 in G3.
    rewrite dump_node_S, G1. cbn [childCnt mk kind]. change (2 =? 0) with false. cbv iota.
    rewrite child_idxesR, G1. cbn [kind mk is_cond_kind].
    rewrite (hitsR_full cpre _ cpost base (base + 1) E Hb) by (cbn [length app]; try assumption; lia).
    cbn [hitsR app]. unfold outside in Ho.
    change (is_event (event_node (base + 1) (mk last (KFast name) 2 mf mt h r))) with true.
    rewrite !is_event_mk by (try discriminate; intros; apply leaf_kind_not_event).
    cbn [negb]. rewrite andb_false_r, !andb_true_r.
    replace (pidx =? base + 1) with false by lia. rewrite Z.eqb_refl. cbn [app].
    rewrite (kids_ok full m (S f) depth [base + 1 + 1; base + 1 + 1 + 1] [show a (S depth); show b (S depth)]).
    - cbn [show node_head map concat]. rewrite app_nil_r. reflexivity.
    - constructor; [|constructor; [|constructor]].
      + replace (base + 1 + 1) with (base + 2) by lia. rewrite dump_node_S, G2. cbn [childCnt mk kind]. rewrite (leaf_show a _ Ha). destruct a; try discriminate; reflexivity.
      + replace (base + 1 + 1 + 1) with (base + 3) by lia. rewrite dump_node_S, G3. cbn [childCnt mk kind]. rewrite (leaf_show b _ Hb'). destruct b; try discriminate; reflexivity.
  Qed.

  Lemma args_dumpE R kk n anc' depth f : forall cs, Forall dump_okE cs ->
    forall b hh cpre cpost, full = cpre ++ compE_args kk n R anc' cs b hh ++ cpost -> lenZ cpre = b ->
      outside R b (esizes cs) -> ctx_okR cpre cpost b (esizes cs) -> (esizes cs <= f)%nat ->
      Forall2 (fun ci tx => dump_node PD f ci (S depth) = Some tx) (rootsE cs b) (map (fun c => show c (S depth)) cs).
  Proof.
    induction 1 as [|c cs Hc _ IH]; intros b hh cpre cpost E Hb Ho Hctx Hf; cbn [rootsE map]; [constructor|].
    cbn [FlatE.compE_args] in E. cbv zeta in E. cbn [esizes fold_right] in *. fold (esizes cs) in *.
    pose proof (esize_pos c) as Hpos.
    match type of E with full = cpre ++ (?A ++ ?B) ++ cpost => set (A0 := A) in *; set (B0 := B) in * end.
    assert (LA : lenZ A0 = Z.of_nat (esize c)) by apply lenZ_compE.
    assert (E1 : full = cpre ++ A0 ++ (B0 ++ cpost)) by (rewrite E, <- app_assoc; reflexivity).
    assert (E2 : full = (cpre ++ A0) ++ B0 ++ cpost) by (rewrite E, <- !app_assoc; reflexivity).
    constructor.
    - eapply (Hc b hh false anc' _ _ R kk cpre _ (S depth) f E1 Hb).
      + unfold outside in *. lia.
      + intros x Hx. destruct (Hctx x ltac:(lia)) as [H1 H2]. split; [exact H1|].
        rewrite hitsR_app. unfold B0 at 2. rewrite lenZ_compE_args.
        unfold B0. rewrite hitsR_args_out by (unfold outside in *; lia). cbn [app].
        replace (b + Z.of_nat (esize c) + Z.of_nat (esizes cs)) with (b + Z.of_nat (esize c + esizes cs)) by lia. exact H2.
      + lia.
    - eapply (IH (b + Z.of_nat (esize c)) (hh + 1) (cpre ++ A0) cpost).
      + exact E2.
      + rewrite lenZ_app, LA. lia.
      + unfold outside in *. lia.
      + intros x Hx. destruct (Hctx x ltac:(lia)) as [H1 H2]. split.
        * rewrite hitsR_app, Hb, H1. change (0 + b) with b. unfold A0.
          rewrite hitsR_out by (unfold outside; lia). replace (R =? x) with false by (unfold outside in Ho; lia). reflexivity.
        * replace (b + Z.of_nat (esize c) + Z.of_nat (esizes cs)) with (b + Z.of_nat (esize c + esizes cs)) by lia. exact H2.
      + lia.
  Qed.

  Lemma op_dumpE name fast cs : fast_shape fast cs = false -> Forall dump_okE cs -> dump_okE (TOp name fast cs).
  Proof.
    intros Hfs IH base h inh anc mf mt pidx r cpre cpost depth fuel E Hb Ho Hc Hf.
    rewrite compE_op_unfold in E by exact Hfs.
    assert (Hsz : esize (TOp name fast cs) = S (S (esizes cs))) by (apply esize_op; exact Hfs).
    set (ridx := base + Z.of_nat (esize (TOp name fast cs)) - 1) in *.
    assert (Er : ridx = base + Z.of_nat (esizes cs) + 1) by (unfold ridx; lia).
    destruct fuel as [|f]; [lia|]. cbn [root_idxE]. rewrite Hfs. fold ridx.
    set (args := compE_args (op_kind name) (lenZ cs) ridx (if inh then [] else (mf, mt) :: anc) cs base h) in *.
    set (RN := mk last (KOp name) (lenZ cs) mf mt h r) in *.
    assert (G : nthZ (nodes PD) ridx = Some RN).
    { rewrite Er. replace (base + Z.of_nat (esizes cs) + 1) with (base + Z.of_nat (S (esizes cs))) by lia.
      apply (node_at full m cpre _ cpost base (S (esizes cs)) _ pidx E Hb).
      rewrite nth_error_app2 by (unfold args; rewrite compE_args_length; lia).
      unfold args. rewrite compE_args_length. replace (S (esizes cs) - esizes cs)%nat with 1%nat by lia. reflexivity. }
    rewrite dump_node_S, G. unfold RN at 1 2. cbn [childCnt mk kind].
    destruct cs as [|c0 cs0].
    - reflexivity.
    - replace (lenZ (c0 :: cs0) =? 0) with false by (rewrite lenZ_cons; pose proof (lenZ_nonneg cs0); lia).
      rewrite child_idxesR, G. unfold RN at 1. cbn [kind mk is_cond_kind].
      assert (Hlen : length (args ++ with_event ridx RN pidx) = esize (TOp name fast (c0 :: cs0))).
      { rewrite app_length. unfold args. rewrite compE_args_length. cbn [length with_event]. lia. }
      rewrite (hitsR_full cpre _ cpost base ridx E Hb) by (rewrite Hlen; try assumption; lia).
      rewrite hitsR_app. unfold args at 2. rewrite lenZ_compE_args.
      rewrite hitsR_with_event by (apply is_event_mk; discriminate).
      replace (pidx =? ridx) with false by (unfold outside in Ho; lia). rewrite app_nil_r.
      unfold args. rewrite hitsR_args_roots by (unfold outside; lia).
      rewrite (kids_ok full m f depth _ (map (fun c => show c (S depth)) (c0 :: cs0))).
      + cbn [show node_head]. rewrite map_map. reflexivity.
      + apply (args_dumpE ridx (op_kind name) (lenZ (c0 :: cs0)) (if inh then [] else (mf, mt) :: anc) depth f (c0 :: cs0) IH base h cpre
                 (with_event ridx RN pidx ++ cpost)).
        * rewrite <- app_assoc in E. exact E.
        * exact Hb.
        * unfold outside. lia.
        * intros x Hx. destruct (Hc x ltac:(lia)) as [H1 H2]. split; [exact H1|]. rewrite hitsR_app.
          rewrite hitsR_with_event by (apply is_event_mk; discriminate).
          replace (pidx =? x) with false by (unfold outside in Ho; lia). cbn [app]. unfold with_event. rewrite !lenZ_cons. change (lenZ (@nil (node * Z))) with 0.
          replace (base + Z.of_nat (esizes (c0 :: cs0)) + (0 + 1 + 1)) with (base + Z.of_nat (esize (TOp name fast (c0 :: cs0)))) by lia. exact H2.
        * lia.
  Qed.

  Lemma if_dumpE c t f : dump_okE c -> dump_okE t -> dump_okE f -> dump_okE (TIf c t f).
  Proof.
    intros IHc IHt IHf base h inh anc mf mt pidx r cpre cpost depth fuel E Hb Ho Hc Hf.
    cbn [FlatE.compE] in E. cbv zeta in E. cbn [esize] in *.
    pose proof (esize_pos c) as Pc. pose proof (esize_pos t) as Pt. pose proof (esize_pos f) as Pf.
    set (ifidx := base + Z.of_nat (esize c) + 1) in *.
    set (tb := ifidx + 1) in *.
    set (fiidx := tb + Z.of_nat (esize t) + 1) in *.
    set (fb := fiidx + 1) in *.
    match type of E with full = cpre ++ (?A ++ with_event _ ?I _ ++ ?B ++ with_event _ ?J _ ++ ?C) ++ cpost =>
      set (CA := A) in *; set (NI := I) in *; set (CB := B) in *; set (NJ := J) in *; set (CC := C) in * end.
    set (WI := with_event ifidx NI pidx) in *. set (WJ := with_event fiidx NJ ifidx) in *.
    assert (LA : lenZ CA = Z.of_nat (esize c)) by apply lenZ_compE.
    assert (LB : lenZ CB = Z.of_nat (esize t)) by apply lenZ_compE.
    assert (LC : lenZ CC = Z.of_nat (esize f)) by apply lenZ_compE.
    assert (LW : lenZ WI = 2 /\ lenZ WJ = 2) by (split; reflexivity). destruct LW as [LWI LWJ].
    assert (Ec : full = cpre ++ CA ++ (WI ++ CB ++ WJ ++ CC ++ cpost)) by (rewrite E, <- !app_assoc; reflexivity).
    assert (Et : full = (cpre ++ CA ++ WI) ++ CB ++ (WJ ++ CC ++ cpost)) by (rewrite E, <- !app_assoc; reflexivity).
    assert (Ef : full = (cpre ++ CA ++ WI ++ CB ++ WJ) ++ CC ++ cpost) by (rewrite E, <- !app_assoc; reflexivity).
    unfold outside in Ho.
    assert (NIe : is_event NI = false) by (apply is_event_mk; discriminate).
    assert (NJe : is_event NJ = false) by (apply is_event_mk; discriminate).
    assert (HA : forall x, outside x base (esize c) -> hitsR x base CA = if ifidx =? x then [root_idxE c base] else []).
    { intros x Hx. unfold CA. apply hitsR_out. exact Hx. }
    assert (HB : forall x, outside x tb (esize t) -> hitsR x tb CB = if ifidx =? x then [root_idxE t tb] else []).
    { intros x Hx. unfold CB. apply hitsR_out. exact Hx. }
    assert (HC : forall x, outside x fb (esize f) -> hitsR x fb CC = if ifidx =? x then [root_idxE f fb] else []).
    { intros x Hx. unfold CC. apply hitsR_out. exact Hx. }
    assert (HWI : forall x, hitsR x (ifidx - 1) WI = if pidx =? x then [ifidx] else []).
    { intros x. unfold WI. rewrite hitsR_with_event by exact NIe. replace (ifidx - 1 + 1) with ifidx by lia. reflexivity. }
    assert (HWJ : forall x, hitsR x (fiidx - 1) WJ = if ifidx =? x then [fiidx] else []).
    { intros x. unfold WJ. rewrite hitsR_with_event by exact NJe. replace (fiidx - 1 + 1) with fiidx by lia. reflexivity. }
    destruct fuel as [|fu]; [lia|]. cbn [root_idxE]. fold ifidx.
    assert (G : nthZ (nodes PD) ifidx = Some NI).
    { unfold ifidx. replace (base + Z.of_nat (esize c) + 1) with (base + Z.of_nat (S (esize c))) by lia.
      apply (node_at full m cpre _ cpost base (S (esize c)) _ pidx E Hb).
      rewrite nth_error_app2 by (unfold CA; rewrite compE_length; lia). unfold CA. rewrite compE_length.
      replace (S (esize c) - esize c)%nat with 1%nat by lia. reflexivity. }
    rewrite dump_node_S, G. unfold NI at 1 2. cbn [childCnt mk kind]. change (4 =? 0) with false. cbv iota.
    rewrite child_idxesR, G. unfold NI at 1. cbn [kind mk is_cond_kind].
    assert (Hlen : length (CA ++ WI ++ CB ++ WJ ++ CC) = (esize c + esize t + esize f + 4)%nat).
    { rewrite !app_length. unfold lenZ in LA, LB, LC. cbn [length WI WJ with_event]. lia. }
    rewrite (hitsR_full cpre _ cpost base ifidx E Hb) by (rewrite Hlen; first [exact Hc | unfold ifidx; lia]).
    rewrite !hitsR_app, LA, LWI, LB, LWJ.
    replace (base + Z.of_nat (esize c)) with (ifidx - 1) by (unfold ifidx; lia).
    replace (ifidx - 1 + 2) with tb by (unfold tb; lia).
    replace (tb + Z.of_nat (esize t)) with (fiidx - 1) by (unfold fiidx; lia).
    replace (fiidx - 1 + 2) with fb by (unfold fb; lia).
    rewrite HA, HWI, HB, HWJ, HC by (unfold outside; lia).
    rewrite !Z.eqb_refl. replace (pidx =? ifidx) with false by lia. cbn [app].
    rewrite (kids_ok full m fu depth _ [show c (S depth); show t (S depth); show f (S depth)]).
    - reflexivity.
    - constructor; [|constructor; [|constructor; [|constructor]]].
      + apply (IHc base h false [] fnone (root_idxE c base) ifidx None cpre _ (S depth) fu Ec Hb).
        * unfold outside. lia.
        * intros x Hx. destruct (Hc x ltac:(lia)) as [H1 H2]. split; [exact H1|].
          rewrite !hitsR_app, LWI, LB, LWJ, LC.
          replace (base + Z.of_nat (esize c)) with (ifidx - 1) by (unfold ifidx; lia).
          replace (ifidx - 1 + 2) with tb by (unfold tb; lia).
          replace (tb + Z.of_nat (esize t)) with (fiidx - 1) by (unfold fiidx; lia).
          replace (fiidx - 1 + 2) with fb by (unfold fb; lia).
          rewrite HWI, HB, HWJ, HC by (unfold outside; lia).
          replace (pidx =? x) with false by lia. replace (ifidx =? x) with false by lia. cbn [app].
          replace (fb + Z.of_nat (esize f)) with (base + Z.of_nat (esize c + esize t + esize f + 4)) by (unfold fb, fiidx, tb, ifidx; lia). exact H2.
        * lia.
      + apply (IHt tb h true [] _ _ ifidx r (cpre ++ CA ++ WI) _ (S depth) fu Et).
        * rewrite !lenZ_app, LA, Hb, LWI. unfold tb, ifidx. lia.
        * unfold outside. lia.
        * intros x Hx. destruct (Hc x ltac:(unfold tb, ifidx in *; lia)) as [H1 H2]. split.
          -- rewrite !hitsR_app, Hb, H1, LA. change (0 + base) with base.
             replace (base + Z.of_nat (esize c)) with (ifidx - 1) by (unfold ifidx; lia).
             rewrite HA, HWI by (unfold outside, tb, ifidx in *; lia). replace (pidx =? x) with false by (unfold tb, ifidx in *; lia).
             replace (ifidx =? x) with false by (unfold tb in *; lia). reflexivity.
          -- rewrite !hitsR_app, LWJ, LC.
             replace (tb + Z.of_nat (esize t)) with (fiidx - 1) by (unfold fiidx; lia).
             replace (fiidx - 1 + 2) with fb by (unfold fb; lia).
             rewrite HWJ, HC by (unfold outside, fb in *; lia). replace (ifidx =? x) with false by (unfold tb in *; lia). cbn [app].
             replace (fb + Z.of_nat (esize f)) with (base + Z.of_nat (esize c + esize t + esize f + 4)) by (unfold fb, fiidx, tb, ifidx; lia). exact H2.
        * lia.
      + apply (IHf fb h true [] _ _ ifidx r (cpre ++ CA ++ WI ++ CB ++ WJ) cpost (S depth) fu Ef).
        * rewrite !lenZ_app, LA, LB, Hb, LWI, LWJ. unfold fb, fiidx, tb, ifidx. lia.
        * unfold outside. unfold fb, fiidx, tb in *. lia.
        * intros x Hx. destruct (Hc x ltac:(unfold fb, fiidx, tb, ifidx in *; lia)) as [H1 H2]. split.
          -- rewrite !hitsR_app, Hb, H1, LA, LWI, LB. change (0 + base) with base.
             replace (base + Z.of_nat (esize c)) with (ifidx - 1) by (unfold ifidx; lia).
             replace (ifidx - 1 + 2) with tb by (unfold tb; lia).
             replace (tb + Z.of_nat (esize t)) with (fiidx - 1) by (unfold fiidx; lia).
             rewrite HA, HWI, HB, HWJ by (unfold outside, fb, fiidx, tb, ifidx in *; lia).
             replace (pidx =? x) with false by (unfold fb, fiidx, tb, ifidx in *; lia).
             replace (ifidx =? x) with false by (unfold fb, fiidx, tb in *; lia). reflexivity.
          -- replace (fb + Z.of_nat (esize f)) with (base + Z.of_nat (esize c + esize t + esize f + 4)) by (unfold fb, fiidx, tb, ifidx; lia). exact H2.
        * lia.
  Qed.

  Theorem dump_allE : forall t, dump_okE t.
  Proof.
    induction t as [v|n k|name fast cs IH|c t f IHc IHt IHf] using tree_ind2.
    - apply leaf_dumpE. reflexivity.
    - apply leaf_dumpE. reflexivity.
    - destruct (fast_shape fast cs) eqn:Hfs.
      + destruct (fast_shape_inv _ _ Hfs) as (a & b & -> & Ha & Hb & ->). apply fast_dumpE. exact Hfs.
      + apply op_dumpE; assumption.
    - apply if_dumpE; assumption.
  Qed.
End D.

(* ---------- Dump of the event-mode program ---------- *)

(* entries -1 of the parent table: the root and its event node *)
Lemma hits_with_event s pos nd pidx : pidx <> 0 ->
  hits (-1) s (map snd (with_event pos nd pidx)) = if pidx =? -1 then [s; s + 1] else [].
Proof.
  intros Hp. unfold with_event, evp. cbn [map snd hits]. destruct (pidx =? -1) eqn:E.
  - rewrite Z.eqb_refl. reflexivity.
  - replace (pidx - 1 =? -1) with false by lia. reflexivity.
Qed.

Lemma hits_minus1 last : forall t base h inh anc mf mt pidx r, 0 <= base -> pidx <> 0 ->
  hits (-1) base (map snd (compE last t base h inh anc mf mt pidx r)) =
    if pidx =? -1 then [root_idxE t base - 1; root_idxE t base] else [].
Proof.
  induction t as [v|n k|name fast cs IH|c t f IHc IHt IHf] using tree_ind2; intros base h inh anc mf mt pidx r Hb Hp.
  - cbn [compE root_idxE]. rewrite hits_with_event by exact Hp. replace (base + 1 - 1) with base by lia. reflexivity.
  - cbn [compE root_idxE]. rewrite hits_with_event by exact Hp. replace (base + 1 - 1) with base by lia. reflexivity.
  - destruct (fast_shape fast cs) eqn:Hfs.
    + destruct (fast_shape_inv _ _ Hfs) as (a & b & -> & Ha & Hb' & ->).
      rewrite compE_fast_unfold by exact Hfs. cbv zeta. cbn [root_idxE]. rewrite Hfs.
      rewrite map_app, hits_app, hits_with_event by exact Hp. cbn [map snd hits].
      replace (base + 1 =? -1) with false by lia. cbn [app]. rewrite app_nil_r. replace (base + 1 - 1) with base by lia. reflexivity.
    + rewrite compE_op_unfold by exact Hfs. rewrite map_app, hits_app, lenZ_map, lenZ_compE_args. cbn [root_idxE]. rewrite Hfs.
      set (ridx := base + Z.of_nat (esize (TOp name fast cs)) - 1).
      assert (Hsz : Z.of_nat (esize (TOp name fast cs)) = Z.of_nat (esizes cs) + 2) by (rewrite esize_op by exact Hfs; lia).
      assert (Hargs : forall R kk n anc' b hh, 0 <= b -> 1 <= R -> hits (-1) b (map snd (compE_args last kk n R anc' cs b hh)) = []).
      { clear Hfs Hsz. intros R kk n anc' b hh Hb0 HR. revert b hh Hb0.
        induction IH as [|c0 cs0 Hc _ IHcs]; intros b hh Hb0; cbn [compE_args]; [reflexivity|].
        cbv zeta. rewrite map_app, hits_app, lenZ_map, lenZ_compE. rewrite Hc by lia. replace (R =? -1) with false by lia. cbn [app].
        apply IHcs. lia. }
      rewrite Hargs by (unfold ridx; lia). cbn [app]. rewrite hits_with_event by exact Hp.
      replace (base + Z.of_nat (esizes cs) + 1) with ridx by (unfold ridx; lia).
      replace (base + Z.of_nat (esizes cs)) with (ridx - 1) by (unfold ridx; lia). reflexivity.
  - cbn [compE]. cbv zeta. cbn [root_idxE].
    pose proof (esize_pos c). pose proof (esize_pos t). pose proof (esize_pos f).
    assert (LW : forall pos nd p, lenZ (with_event pos nd p) = 2) by reflexivity.
    rewrite !map_app, !hits_app, !lenZ_map, !lenZ_compE, !LW.
    replace (base + Z.of_nat (esize c) + 2) with (base + Z.of_nat (esize c) + 1 + 1) by lia.
    replace (base + Z.of_nat (esize c) + 1 + 1 + Z.of_nat (esize t) + 2) with (base + Z.of_nat (esize c) + 1 + 1 + Z.of_nat (esize t) + 1 + 1) by lia.
    rewrite IHc, IHt, IHf by lia. rewrite !hits_with_event by lia.
    replace (base + Z.of_nat (esize c) + 1 =? -1) with false by lia. cbn [app]. rewrite !app_nil_r.
    replace (base + Z.of_nat (esize c) + 1 - 1) with (base + Z.of_nat (esize c)) by lia. reflexivity.
Qed.

Theorem dump_compileE t : dump (compileE t) = Some (fst (show t 0)).
Proof.
  set (lastI := Z.of_nat (esize t) - 1).
  set (code := compE lastI t 0 0 false [] fnone (root_idxE t 0) (-1) None).
  assert (EP : compileE t = PD code (maxStack (compile t))) by reflexivity.
  rewrite EP. unfold dump.
  assert (Hroot : root_index (PD code (maxStack (compile t))) = root_idxE t 0).
  { unfold root_index. cbn [parents PD]. rewrite (root_index_hits (map snd code) 0 0). change (Z.of_nat 0) with 0.
    unfold code. rewrite hits_minus1 by lia. reflexivity. }
  rewrite Hroot.
  rewrite (dump_allE lastI code (maxStack (compile t)) t 0 0 false [] fnone (root_idxE t 0) (-1) None [] [] 0%nat).
  - destruct (show t 0). reflexivity.
  - rewrite app_nil_r. reflexivity.
  - reflexivity.
  - unfold outside. lia.
  - intros x _. split; reflexivity.
  - cbn [nodes PD]. unfold code. rewrite map_length, compE_length. lia.
Qed.

(* the event options never change the decompiled program *)
Corollary dump_events_transparent t : dump (compileE t) = dump (compile t).
Proof. rewrite dump_compileE, dump_compile. reflexivity. Qed.

Print Assumptions dump_compileE.
