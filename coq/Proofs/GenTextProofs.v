(* GenTextProofs.v — C20: the text GenerateRandomExpr returns (`gtext` of the generated tree) is a well-formed layout of
   the tree's tokens, so the proved front end (lexer, parser.check, prefix parser) reads it back as that tree. *)
Require Import Base Opcode Tables Ops Tree Opt Flat Run CompFacts Directives Lexer Parser Print LexProofs InfixProofs
  PrefixProofs PrintProofs SourceProofs DumpStruct DumpText GenText.
From Coq Require Import ZifyBool ZifyN.
Open Scope Z_scope.
Open Scope list_scope.

Local Notation wf_tok := (wf_tok is_letter_tab is_number_tab).
Local Notation wf_items := (wf_items is_letter_tab is_number_tab).

Definition gsp (cs : list tree) : str := match cs with [] => [] | _ => [32%N] end.

Fixpoint gitems (t : tree) (trail : str) : list (tok * str) :=
  match t with
  | TConst (VInt z) => [(KInt (show_Z z), trail)]
  | TConst _ => []
  | TVar n _ => [(KIdent n, trail)]
  | TOp name _ cs =>
    (KLParen, []) :: (KIdent name, gsp cs) ::
      (fix go (cs : list tree) : list (tok * str) :=
         match cs with [] => [] | c :: cs' => gitems c (gsp cs') ++ go cs' end) cs
      ++ [(KRParen, trail)]
  | TIf a b d =>
    (KLParen, []) :: (KIdent (ss keyword_if), [32%N]) :: gitems a [32%N] ++ gitems b [32%N] ++ gitems d [] ++ [(KRParen, trail)]
  end.

Fixpoint gitems_list (cs : list tree) : list (tok * str) :=
  match cs with [] => [] | c :: cs' => gitems c (gsp cs') ++ gitems_list cs' end.

Lemma gitems_op name fast cs trail : gitems (TOp name fast cs) trail =
  (KLParen, []) :: (KIdent name, gsp cs) :: gitems_list cs ++ [(KRParen, trail)].
Proof.
  reflexivity.
Qed.

(* the trees the generator can print: integer literals in range, names the lexer accepts as identifiers *)
Fixpoint glex (t : tree) : Prop :=
  match t with
  | TConst (VInt z) => in_i64 z = true
  | TConst _ => False
  | TVar n _ => wf_tok false (KIdent n)
  | TOp name _ cs =>
    wf_tok false (KIdent name) /\
    (fix all (l : list tree) : Prop := match l with [] => True | a :: l' => glex a /\ all l' end) cs
  | TIf a b d => glex a /\ glex b /\ glex d
  end.

Lemma glex_op name fast cs : glex (TOp name fast cs) <-> wf_tok false (KIdent name) /\ Forall glex cs.
Proof.
  cbn [glex]. assert (E : forall l, (fix all (l : list tree) : Prop := match l with [] => True | a :: l' => glex a /\ all l' end) l <-> Forall glex l).
  { induction l as [|a l IH]; [split; auto|]. rewrite IH. split; [intros [H1 H2]; constructor; assumption|intros H; inversion H; auto]. }
  rewrite E. tauto.
Qed.

(* ---------- the rendering of the items is the text ---------- *)

Lemma render_gitems : forall t, glex t -> forall trail, render (gitems t trail) = gtext t ++ trail.
Proof.
  induction t as [v|n k|name fast cs IH|a b d IHa IHb IHd] using tree_ind2; intros Hl trail.
  - destruct v; cbn [glex] in Hl; try contradiction. cbn [gitems gtext render tok_text]. rewrite app_nil_r. reflexivity.
  - cbn [gitems gtext render tok_text]. rewrite app_nil_r. reflexivity.
  - apply glex_op in Hl. destruct Hl as [_ Hcs]. rewrite gitems_op. cbn [render tok_text app gtext]. rewrite render_app. cbn [render tok_text app].
    rewrite app_nil_r.
    assert (G : gsp cs ++ render (gitems_list cs) = concat (map (fun c => 32%N :: gtext c) cs)).
    { clear name fast trail. induction IH as [|c cs' Hc _ IHl]; [reflexivity|]. inversion Hcs; subst.
      cbn [gsp gitems_list map concat app]. rewrite render_app, Hc by assumption. rewrite <- app_assoc. do 2 f_equal. apply IHl. assumption. }
    rewrite <- G. rewrite <- !app_assoc. reflexivity.
  - destruct Hl as (Ha & Hb & Hd). cbn [gitems]. cbn [render tok_text app]. rewrite !render_app, IHa, IHb, IHd by assumption.
    cbn [render tok_text app gtext]. change (ss "(if ") with (40%N :: ss keyword_if ++ [32%N]).
    rewrite !app_nil_r, <- !app_assoc. cbn [app]. rewrite <- !app_assoc. cbn [app]. rewrite <- !app_assoc. reflexivity.
Qed.

(* ---------- the tokens ---------- *)

Lemma gitems_tokens : forall t, glex t -> forall trail, map fst (gitems t trail) = ttoks show_Z t.
Proof.
  induction t as [v|n k|name fast cs IH|a b d IHa IHb IHd] using tree_ind2; intros Hl trail.
  - destruct v; cbn [glex] in Hl; try contradiction. reflexivity.
  - reflexivity.
  - apply glex_op in Hl. destruct Hl as [_ Hcs]. rewrite gitems_op. cbn [map fst ttoks]. rewrite map_app. cbn [map fst]. do 3 f_equal.
    clear name fast trail. induction IH as [|c cs' Hc _ IHl]; [reflexivity|]. inversion Hcs; subst.
    cbn [gitems_list flat_map]. rewrite map_app, Hc by assumption. f_equal. apply IHl. assumption.
  - destruct Hl as (Ha & Hb & Hd). cbn [gitems ttoks]. cbn [map fst]. rewrite !map_app, IHa, IHb, IHd by assumption. reflexivity.
Qed.

(* ---------- the layout is well formed ---------- *)

Lemma gsp_space cs : all_space (gsp cs) /\ (gsp cs = [] -> cs = []).
Proof. destruct cs; cbn [gsp]; split; [constructor|reflexivity|repeat constructor|discriminate]. Qed.

Lemma wf_gitems : forall t, glex t -> forall trail rest,
  all_space trail -> (trail = [] -> stops (render rest)) -> wf_items false rest ->
  wf_items false (gitems t trail ++ rest).
Proof.
  induction t as [v|n k|name fast cs IH|a b d IHa IHb IHd] using tree_ind2; intros Hl trail rest Hs Hn Hr.
  - destruct v; cbn [glex] in Hl; try contradiction. cbn [gitems app].
    apply wf_word; [apply show_Z_tok; exact Hl|reflexivity|assumption..].
  - cbn [gitems app]. apply wf_word; [exact Hl|reflexivity|assumption..].
  - apply glex_op in Hl. destruct Hl as [Hname Hcs]. rewrite gitems_op. cbn [app]. rewrite <- app_assoc. cbn [app].
    assert (HL : forall r, closes r -> wf_items false r -> wf_items false (gitems_list cs ++ r)).
    { clear Hname name fast. induction IH as [|c cs' Hc _ IHl]; intros r Hcl Hwr; [exact Hwr|]. inversion Hcs; subst.
      cbn [gitems_list]. rewrite <- app_assoc. destruct (gsp_space cs') as [A1 A2]. apply Hc; [assumption|exact A1| |apply IHl; assumption].
      intros E. rewrite (A2 E). cbn [gitems_list app]. apply closes_stops. exact Hcl. }
    apply wf_open. destruct (gsp_space cs) as [A1 A2]. apply wf_word; [exact Hname|reflexivity|exact A1| |].
    + intros E. rewrite (A2 E). reflexivity.
    + apply HL; [eexists _, _; reflexivity|apply wf_close; assumption].
  - destruct Hl as (Ha & Hb & Hd). cbn [gitems app]. rewrite <- !app_assoc. cbn [app].
    assert (S1 : all_space [32%N]) by (repeat constructor).
    apply wf_open. apply wf_word; [apply wf_if|reflexivity|exact S1|discriminate|].
    apply IHa; [assumption|exact S1|discriminate|].
    apply IHb; [assumption|exact S1|discriminate|].
    apply IHd; [assumption|constructor|intros _; reflexivity|]. apply wf_close; assumption.
Qed.

(* ---------- the generator's text, read back by the whole front end ---------- *)

Theorem gtext_roundtrip c t : twf c t -> glex t -> is_leaf t = false ->
  parse_source c false (gtext t) = Some (strip t).
Proof.
  intros Hw Hl Hleaf.
  pose proof (render_gitems t Hl []) as R. rewrite app_nil_r in R. rewrite <- R.
  apply (SourceProofs.prefix_source c show_Z parse_show_Z (gitems t []) t).
  - pose proof (wf_gitems t Hl [] [] (Forall_nil _) (fun _ => I) I) as W. rewrite app_nil_r in W. exact W.
  - rewrite (gitems_tokens t Hl). apply ttoks_nocomment.
  - exact Hw.
  - exact Hleaf.
Qed.

Print Assumptions gtext_roundtrip.
