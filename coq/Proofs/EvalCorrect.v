(* EvalCorrect.v — run (compile t) = sem t: value, error and observation trace, for every tree,
   every fetcher and every registered-operator function. *)
Require Import Base Opcode Tables Ops Tree Opt Flat Run CompFacts EvalDefs EvalInv.
From Coq Require Import ZifyBool.
Open Scope Z_scope.
Open Scope list_scope.

Lemma sem_op fetch custom name fast cs : fast_shape fast cs = false ->
  sem fetch custom (TOp name fast cs) = sem_args fetch custom name cs [].
Proof.
  intros Hf. cbn [sem]. rewrite Hf.
  assert (E : forall acc,
    (fix args (cs0 : list tree) (acc : list value) {struct cs0} : list effect * res value :=
       match cs0 with
       | [] => let r := apply_op custom name (rev acc) in ([ECall name false (rev acc) r], r)
       | c :: cs' =>
         match sem fetch custom c with
         | (tr, Ok v) =>
           let lastc := match cs' with [] => can_be_last c && (2 <=? lenZ cs0 + lenZ acc) | _ => false end in
           if operand_result (op_kind name) lastc v then (tr, Ok v) else pre tr (args cs' (v :: acc))
         | (tr, Err e) => (tr, Err e)
         end
       end) cs acc = sem_args fetch custom name cs acc).
  { clear Hf. induction cs as [|c cs IH]; intros acc; cbn [sem_args]; [reflexivity|].
    destruct (sem fetch custom c) as [tr [v|e]]; [|reflexivity].
    cbv zeta. destruct (operand_result _ _ v); [reflexivity|]. rewrite IH. reflexivity. }
  destruct cs as [|a [|b [|c cs']]]; apply E.
Qed.

Lemma sem_fast_eq fetch custom name a b : fast_shape true [a; b] = true ->
  sem fetch custom (TOp name true [a; b]) = sem_fast fetch custom name a b.
Proof. intros Hf. cbn [sem]. rewrite Hf. reflexivity. Qed.

Lemma bindT_args_cons fetch custom name c cs' acc K :
  bindT (sem_args fetch custom name (c :: cs') acc) K =
  bindT (sem fetch custom c) (fun v =>
    let lastc := match cs' with [] => can_be_last c && (2 <=? lenZ (c :: cs') + lenZ acc) | _ => false end in
    if operand_result (op_kind name) lastc v then K v else bindT (sem_args fetch custom name cs' (v :: acc)) K).
Proof.
  cbn [sem_args]. destruct (sem fetch custom c) as [tr [v|e]]; [|reflexivity].
  cbv zeta. unfold bindT at 2. cbv beta.
  destruct (operand_result (op_kind name) _ v).
  - reflexivity.
  - rewrite bindT_pre. reflexivity.
Qed.

Section M.
  Variable fetch : str -> Z -> res value.
  Variable custom : str -> list value -> res value.
  Variable P : prog.

  Notation L := (lenZ (nodes P)).
  Notation getn := (getn P).
  Notation run := (run fetch custom P).
  Notation landsR := (landsR P).
  Notation fin := (fin P).
  Notation lastI := (lastI P).
  Notation need := (need P).
  Notation afterD := (afterD P).
  Notation landR := (landR P).
  Notation RootInv := (RootInv P).
  Notation AncInv := (AncInv P).
  Notation sem := (sem fetch custom).
  Notation sem_args := (sem_args fetch custom).

  Hypothesis SA : forall i nd, getn i = Some nd -> osTop nd < alloc P.

  Definition sub_stmt (t : tree) : Prop :=
    forall base h inh anc aidx mf mt pidx r a0 KR stk,
      placed (nodes P) base (map fst (comp lastI t base h inh anc mf mt pidx r)) ->
      0 <= h ->
      (base + Z.of_nat (size t) = L -> h = 0) ->
      RootInv (base + Z.of_nat (size t)) h mf mt a0 ->
      AncInv (base + Z.of_nat (size t)) anc aidx ->
      (fany mf = true -> inh = false -> exists rest, aidx = a0 :: rest) ->
      lenZ stk = h ->
      (forall v f, (need (base + Z.of_nat (size t)) <= f)%nat ->
                   afterD (run f) (base + Z.of_nat (size t)) mf (fin mt) v stk = KR v) ->
      forall f, (need base <= f)%nat -> run f base stk = bindT (sem t) KR.

  Lemma mk_fin k cnt mf mt h r : is_cond_kind k = false -> scIdx (mk lastI k cnt mf mt h r) = fin mt.
  Proof. intros H. unfold mk, EvalDefs.fin. cbn [scIdx]. rewrite H. reflexivity. Qed.
  Lemma mk_flags k cnt mf mt h r : nflags (mk lastI k cnt mf mt h r) = mf.
  Proof. destruct mf; reflexivity. Qed.

  Lemma afterD_unflagged k next mf mf' sc sc' v stk : fany mf = false -> fany mf' = false ->
    afterD k next mf sc v stk = afterD k next mf' sc' v stk.
  Proof.
    intros H H'. unfold EvalDefs.afterD. destruct v; try reflexivity.
    destruct mf as [[] []], mf' as [[] []], b; cbn in *; try discriminate; reflexivity.
  Qed.

  Lemma push_ok stk v i nd : getn i = Some nd -> lenZ stk = osTop nd -> push P stk v = Some (stk ++ [v]).
  Proof. intros G H. unfold push. pose proof (SA _ _ G). replace (lenZ stk <? alloc P) with true by lia. reflexivity. Qed.

  (* ---------- leaves ---------- *)

  Lemma leaf_ok t : is_leaf t = true -> sub_stmt t.
  Proof.
    intros Hl base h inh anc aidx mf mt pidx r a0 KR stk Hpl Hh HE RI HA Hai Hs Hroot f Hf.
    destruct t as [v|n k| |]; try discriminate; cbn [comp map fst] in Hpl; apply placed_cons in Hpl; destruct Hpl as [G _];
    pose proof (nthZ_range _ _ _ G) as R; cbn [size] in *;
    (destruct f as [|f']; [unfold EvalDefs.need in Hf; lia|]);
    rewrite run_S; unfold psize; replace (L <=? base) with false by lia;
    unfold Run.getn; rewrite G; cbn [kind mk].
    - cbn [sem bindT map]. rewrite preM_nil. rewrite after_afterD, mk_flags, mk_fin by reflexivity.
      replace (base + 1) with (base + Z.of_nat 1) by lia. apply Hroot. unfold EvalDefs.need in *. lia.
    - cbn [sem]. destruct (fetch n k) as [v|e]; cbn [bindT map e2o]; [|reflexivity].
      f_equal. rewrite after_afterD, mk_flags, mk_fin by reflexivity.
      replace (base + 1) with (base + Z.of_nat 1) by lia. apply Hroot. unfold EvalDefs.need in *. lia.
  Qed.

  (* ---------- fast operators ---------- *)

  Lemma fast_leaf_val t : is_leaf t = true -> forall cnt fl tg h r,
    fast_leaf fetch (mk lastI (leaf_kind t) cnt fl tg h r) =
      (map e2o (fst (leaf_val fetch t)), snd (leaf_val fetch t)).
  Proof. destruct t; try discriminate; reflexivity. Qed.

  Lemma fast_ok name a b : fast_shape true [a; b] = true -> sub_stmt (TOp name true [a; b]).
  Proof.
    intros Hfs base h inh anc aidx mf mt pidx r a0 KR stk Hpl Hh HE RI HA Hai Hs Hroot f Hf.
    destruct (fast_shape_inv _ _ Hfs) as (a' & b' & E & Ha & Hb & _). inversion E; subst a' b'. clear E.
    rewrite comp_fast_unfold in Hpl by exact Hfs. cbv zeta in Hpl. cbn [map fst] in Hpl.
    apply placed_cons in Hpl. destruct Hpl as [G0 Hpl]. apply placed_cons in Hpl. destruct Hpl as [G1 Hpl].
    apply placed_cons in Hpl. destruct Hpl as [G2 _].
    pose proof (nthZ_range _ _ _ G0) as R0. pose proof (nthZ_range _ _ _ G2) as R2.
    assert (Hsz : Z.of_nat (size (TOp name true [a; b])) = 3).
    { cbn [size fold_right]. rewrite (leaf_size a Ha), (leaf_size b Hb). reflexivity. }
    rewrite Hsz in *.
    destruct f as [|f']; [unfold EvalDefs.need in Hf; lia|].
    rewrite run_S. unfold psize. replace (L <=? base) with false by lia.
    unfold Run.getn. rewrite G0. cbn [kind mk].
    replace (base + 1 + 1) with (base + 2) in G2 by lia. rewrite G1, G2.
    rewrite !fast_leaf_val by assumption.
    rewrite sem_fast_eq by exact Hfs. unfold sem_fast.
    destruct (leaf_val fetch a) as [tr1 [va|e1]]; cbn [fst snd]; [|reflexivity].
    destruct (leaf_val fetch b) as [tr2 [vb|e2]]; cbn [fst snd]; [|cbn [bindT]; rewrite map_app; reflexivity].
    unfold apply_named. destruct (apply_op custom name [va; vb]) as [v|e] eqn:Er; cbn [bindT].
    - rewrite !map_app. cbn [map e2o]. f_equal.
      rewrite after_afterD, mk_flags, mk_fin by reflexivity. apply Hroot. unfold EvalDefs.need in *. lia.
    - rewrite !map_app. cbn [map e2o]. unfold preM. cbn [fst snd]. rewrite app_nil_r. reflexivity.
  Qed.

  (* ---------- operators ---------- *)

  Lemma operand_result_flags k lastc b :
    operand_result k lastc (VBool b) = fhas (child_flags k lastc) b.
  Proof. destruct k as [[]|], lastc, b; reflexivity. Qed.

  Lemma args_ok name n ridx h_p pn mf_p mt_p a0p KR_p stk0 (inh : bool) anc aidx :
    getn ridx = Some pn -> kind pn = KOp name -> childCnt pn = n ->
    nflags pn = mf_p -> scIdx pn = fin mt_p -> osTop pn = h_p ->
    0 <= h_p -> lenZ stk0 = h_p ->
    RootInv (ridx + 1) h_p mf_p mt_p a0p ->
    (ridx + 1 = L -> h_p = 0) ->
    (forall v f, (need (ridx + 1) <= f)%nat -> afterD (run f) (ridx + 1) mf_p (fin mt_p) v stk0 = KR_p v) ->
    AncInv (ridx + 1) anc aidx ->
    (fany mf_p = true -> inh = false -> exists rest, aidx = a0p :: rest) ->
    let anc' := if inh then [] else (mf_p, mt_p) :: anc in
    forall cs, Forall sub_stmt cs ->
    forall acc b f,
      placed (nodes P) b (map fst (comp_args lastI (op_kind name) n ridx anc' cs b (h_p + lenZ acc))) ->
      b + Z.of_nat (sizes cs) = ridx -> 0 <= b ->
      lenZ acc + lenZ cs = n ->
      (need b <= f)%nat ->
      run f b (stk0 ++ rev acc) = bindT (sem_args name cs acc) KR_p.
  Proof.
    intros Gp Kp Cp NFp STp OSp Hh Hs0 RIp EndH Hroot HA Hai anc' cs HF.
    pose proof (nthZ_range _ _ _ Gp) as Rp.
    induction HF as [|c cs' Hc _ IH]; intros acc b f Hpl Hb Hb0 Hlen Hf.
    - (* the operator node itself *)
      cbn [sizes fold_right] in Hb. replace b with ridx in * by lia. cbn [sem_args].
      destruct f as [|f']; [unfold EvalDefs.need in Hf; lia|].
      rewrite run_S. unfold psize. replace (L <=? ridx) with false by lia.
      rewrite Gp, Kp, Cp.
      assert (Hn : n = lenZ acc) by (unfold lenZ in *; cbn [length] in Hlen; lia).
      rewrite lenZ_app. assert (Hra : lenZ (rev acc) = lenZ acc) by (unfold lenZ; rewrite rev_length; reflexivity).
      rewrite Hra. pose proof (lenZ_nonneg acc).
      replace ((n <? 0) || (lenZ stk0 + lenZ acc <? n)) with false by lia.
      replace (Z.to_nat (lenZ stk0 + lenZ acc - n)) with (length stk0) by (unfold lenZ in *; lia).
      rewrite skipn_app, skipn_all, Nat.sub_diag, firstn_app, firstn_all, Nat.sub_diag. cbn [skipn firstn app].
      rewrite app_nil_r. unfold apply_named.
      destruct (apply_op custom name (rev acc)) as [v|e]; cbn [bindT map e2o]; [|reflexivity].
      f_equal. rewrite after_afterD, NFp, STp. apply Hroot. unfold EvalDefs.need in *. lia.
    - cbn [comp_args] in Hpl. cbv zeta in Hpl. rewrite map_app in Hpl.
      cbn [sizes fold_right] in Hb. fold (sizes cs') in Hb.
      apply placed_app in Hpl. destruct Hpl as [Hpc Hprest].
      unfold lenZ in Hprest at 1. rewrite map_length, comp_length in Hprest.
      set (lastc := match cs' with [] => can_be_last c && (2 <=? n) | _ :: _ => false end) in *.
      set (fl := child_flags (op_kind name) lastc) in *.
      set (tg := if fany fl then climb fl anc' ridx else root_idx c b) in *.
      pose proof (size_pos c) as Hsz.
      rewrite bindT_args_cons. cbv zeta.
      assert (Elast : match cs' with [] => can_be_last c && (2 <=? lenZ (c :: cs') + lenZ acc) | _ :: _ => false end = lastc).
      { unfold lastc. destruct cs'; [|reflexivity]. f_equal. f_equal. lia. }
      rewrite Elast.
      (* decoration facts of the operand *)
      destruct (child_jump fetch custom P SA ridx h_p pn mf_p mt_p a0p KR_p stk0 (fun x => x) Gp NFp STp OSp Hh Hs0 RIp EndH Hroot
                  (ridx + 1) anc aidx inh fl (b + Z.of_nat (size c)) (h_p + lenZ acc) HA Hai ltac:(lia) ltac:(lia)
                  ltac:(pose proof (lenZ_nonneg acc); lia)) as [RIc Hjump].
      fold anc' in RIc, Hjump.
      assert (RIc' : RootInv (b + Z.of_nat (size c)) (h_p + lenZ acc) fl tg ridx).
      { unfold tg. destruct (fany fl) eqn:Hfl; [exact RIc|].
        intros bb Hbb. destruct fl as [[] []], bb; cbn in *; discriminate. }
      assert (Hlenstk : lenZ (stk0 ++ rev acc) = h_p + lenZ acc).
      { rewrite lenZ_app. unfold lenZ. rewrite rev_length. unfold lenZ in Hs0. lia. }
      eapply (Hc b (h_p + lenZ acc) false anc' (ridx :: aidx) fl tg ridx (op_kind name) ridx _ (stk0 ++ rev acc) Hpc).
      + pose proof (lenZ_nonneg acc). lia.
      + intros E. lia.
      + exact RIc'.
      + unfold anc'. destruct inh; [exact I|].
        cbn [AncInv]. split; [lia|]. split; [exists pn; auto|]. split.
        * intros b' Hb'. destruct (RIp b' Hb') as ((Hr1 & Hr2) & Hiff & _). split; [lia|].
          destruct (Hai ltac:(unfold fany; destruct mf_p as [[] []], b'; cbn in *; congruence) eq_refl) as [rest ->].
          exact Hiff.
        * eapply AncInv_weaken; [|exact HA]. lia.
      + intros _ _. eauto.
      + exact Hlenstk.
      + (* what the operand's value does *)
        intros v f0 Hf0.
        assert (NEXT : store_next P (run f0) (b + Z.of_nat (size c)) v (stk0 ++ rev acc)
                       = bindT (sem_args name cs' (v :: acc)) KR_p).
        { unfold store_next, push.
          assert (Hal : h_p + lenZ acc < alloc P).
          { (* the slot of this operand is the slot of some node of the operand's code *)
            destruct c as [cv|cn ck|cname cfast ccs|cc ct cf_].
            - cbn [comp map fst] in Hpc. apply placed_cons in Hpc. destruct Hpc as [G _]. apply SA in G. exact G.
            - cbn [comp map fst] in Hpc. apply placed_cons in Hpc. destruct Hpc as [G _]. apply SA in G. exact G.
            - destruct (fast_shape cfast ccs) eqn:Hcf.
              + destruct (fast_shape_inv _ _ Hcf) as (x & y & -> & Hx & Hy & ->).
                rewrite comp_fast_unfold in Hpc by exact Hcf. cbv zeta in Hpc. cbn [map fst] in Hpc.
                apply placed_cons in Hpc. destruct Hpc as [G _]. apply SA in G. exact G.
              + rewrite comp_op_unfold in Hpc by exact Hcf. rewrite map_app in Hpc.
                apply placed_app in Hpc. destruct Hpc as [_ Hpc]. cbn [map fst] in Hpc.
                apply placed_cons in Hpc. destruct Hpc as [G _]. apply SA in G. exact G.
            - cbn [comp] in Hpc. rewrite !map_app in Hpc. apply placed_app in Hpc. destruct Hpc as [_ Hpc].
              apply placed_app in Hpc. destruct Hpc as [_ Hpc]. apply placed_app in Hpc. destruct Hpc as [_ Hpc].
              cbn [map fst app] in Hpc. apply placed_cons in Hpc. destruct Hpc as [G _]. apply SA in G. cbn [osTop mk] in G. exact G. }
          rewrite Hlenstk. replace (h_p + lenZ acc <? alloc P) with true by lia.
          replace ((stk0 ++ rev acc) ++ [v]) with (stk0 ++ rev (v :: acc)) by (cbn [rev]; now rewrite app_assoc).
          apply IH.
          - rewrite lenZ_cons. replace (h_p + (lenZ acc + 1)) with (h_p + lenZ acc + 1) by lia. exact Hprest.
          - lia.
          - lia.
          - rewrite lenZ_cons in *. rewrite lenZ_cons in Hlen. lia.
          - exact Hf0. }
        unfold EvalDefs.afterD. destruct v as [z|bb|s|li|ls|si|ss'| | |o];
          try (replace (operand_result (op_kind name) lastc _) with false by (destruct (op_kind name) as [[]|]; reflexivity); exact NEXT).
        rewrite operand_result_flags. fold fl. destruct (fhas fl bb) eqn:Hbb; [|exact NEXT].
        assert (Hfl : fany fl = true) by (destruct fl as [[] []], bb; cbn in *; congruence).
        unfold tg. rewrite Hfl. apply Hjump; [exact Hbb|].
        eapply Nat.le_trans; [|exact Hf0]. apply need_mono. lia.
      + exact Hf.
  Qed.

  Lemma op_ok name fast cs : fast_shape fast cs = false -> Forall sub_stmt cs -> sub_stmt (TOp name fast cs).
  Proof.
    intros Hfs IH base h inh anc aidx mf mt pidx r a0 KR stk Hpl Hh HE RI HA Hai Hs Hroot f Hf.
    rewrite sem_op by exact Hfs. rewrite comp_op_unfold in Hpl by exact Hfs. rewrite map_app in Hpl.
    set (ridx := base + Z.of_nat (size (TOp name fast cs)) - 1) in *.
    assert (Hsz : Z.of_nat (size (TOp name fast cs)) = Z.of_nat (sizes cs) + 1) by (cbn [size]; fold (sizes cs); lia).
    pose proof (placed_app _ _ _ _ Hpl) as [Hpa Hpr].
    unfold lenZ in Hpr at 1. rewrite map_length, comp_args_length in Hpr. cbn [map fst] in Hpr.
    apply placed_cons in Hpr. destruct Hpr as [Gr _].
    replace (base + Z.of_nat (sizes cs)) with ridx in Gr by (unfold ridx; lia).
    replace (base + Z.of_nat (size (TOp name fast cs))) with (ridx + 1) in * by (unfold ridx; lia).
    pose proof (args_ok name (lenZ cs) ridx h (mk lastI (KOp name) (lenZ cs) mf mt h r) mf mt a0 KR stk inh anc aidx
                  Gr eq_refl eq_refl (mk_flags _ _ _ _ _ _) (mk_fin (KOp name) _ _ _ _ _ eq_refl) eq_refl Hh Hs RI HE Hroot HA Hai cs IH [] base f) as A.
    cbn [rev] in A. rewrite app_nil_r in A. apply A.
    - change (lenZ (@nil value)) with 0. rewrite Z.add_0_r. exact Hpa.
    - unfold ridx. lia.
    - apply placed_bound in Hpl. lia.
    - reflexivity.
    - exact Hf.
  Qed.

  (* ---------- if ---------- *)

  Definition cond_cont (t f : tree) (KR : value -> list obs * mres) (v : value) : list obs * mres :=
    match v with
    | VBool true => bindT (sem t) KR
    | VBool false => bindT (sem f) KR
    | _ => ([], MErr ECondNotBool)
    end.

  Lemma bindT_if c t f KR : bindT (sem (TIf c t f)) KR = bindT (sem c) (cond_cont t f KR).
  Proof.
    cbn [Tree.sem]. destruct (sem c) as [tr [v|e]]; [|reflexivity].
    destruct v as [z|[]|s|li|ls|si|ss'| | |o]; cbn [bindT cond_cont]; try (unfold preM; cbn; rewrite app_nil_r; reflexivity);
      rewrite bindT_pre; reflexivity.
  Qed.

  Lemma fany_false_has mf b : fany mf = false -> fhas mf b = false.
  Proof. destruct mf as [[] []], b; cbn; congruence. Qed.

  (* the decoration the branches of an `if` inherit *)
  Lemma dec_inherit nx nx' h mf mt a0 ifidx X :
    RootInv nx h mf mt a0 -> nx' <= nx -> ifidx < nx ->
    let inherit := negb (mt =? ifidx) in
    let mf' := if inherit then mf else fnone in
    let mt' := if inherit then mt else X in
    RootInv nx' h mf' mt' a0 /\
    (forall k next v stk, afterD k next mf' (fin mt') v stk = afterD k next mf (fin mt) v stk).
  Proof.
    intros RI Hn Hi inherit mf' mt'. destruct (fany mf) eqn:Hfa.
    - assert (Hb : exists b, fhas mf b = true) by (destruct mf as [[] []]; cbn in Hfa; try discriminate; [exists false|exists false|exists true]; reflexivity).
      destruct Hb as [b Hb]. destruct (RI b Hb) as ((H1 & H2) & _).
      assert (Ei : inherit = true) by (unfold inherit; replace (mt =? ifidx) with false by lia; reflexivity).
      unfold mf', mt'. rewrite Ei. split; [|reflexivity].
      intros b' Hb'. destruct (RI b' Hb') as ((H1' & H2') & H3). split; [lia|exact H3].
    - assert (Hfa' : fany mf' = false) by (unfold mf'; destruct inherit; [exact Hfa|reflexivity]).
      split.
      + intros b Hb. rewrite (fany_false_has _ _ Hfa') in Hb. discriminate.
      + intros. apply afterD_unflagged; assumption.
  Qed.

  Lemma afterD_cases k next mf sc v stk :
    afterD k next mf sc v stk =
      match v with
      | VBool b => if fhas mf b then landR k (chain P (length (nodes P)) sc b) v stk else store_next P k next v stk
      | _ => store_next P k next v stk
      end.
  Proof. reflexivity. Qed.

  Lemma if_ok c t f : sub_stmt c -> sub_stmt t -> sub_stmt f -> sub_stmt (TIf c t f).
  Proof.
    intros IHc IHt IHf base h inh anc aidx mf mt pidx r a0 KR stk Hpl Hh HE RI HA Hai Hs Hroot fu Hfu.
    cbn [comp] in Hpl. cbv zeta in Hpl.
    set (ifidx := base + Z.of_nat (size c)) in *.
    set (tb := ifidx + 1) in *.
    set (fiidx := tb + Z.of_nat (size t)) in *.
    set (fb := fiidx + 1) in *.
    set (endidx := fb + Z.of_nat (size f) - 1) in *.
    assert (Hnext : base + Z.of_nat (size (TIf c t f)) = fb + Z.of_nat (size f)).
    { cbn [size]. unfold fb, fiidx, tb, ifidx. lia. }
    rewrite Hnext in *.
    rewrite !map_app in Hpl. cbn [map fst] in Hpl.
    apply placed_app in Hpl. destruct Hpl as [Hpc Hpl]. unfold lenZ in Hpl at 1. rewrite map_length, comp_length in Hpl. fold ifidx in Hpl.
    apply placed_cons in Hpl. destruct Hpl as [Gif Hpl]. fold tb in Hpl.
    apply placed_app in Hpl. destruct Hpl as [Hpt Hpl]. unfold lenZ in Hpl at 1. rewrite map_length, comp_length in Hpl. fold fiidx in Hpl.
    apply placed_cons in Hpl. destruct Hpl as [Gfi Hpf]. fold fb in Hpf.
    pose proof (nthZ_range _ _ _ Gif) as Rif. pose proof (nthZ_range _ _ _ Gfi) as Rfi.
    pose proof (size_pos c). pose proof (size_pos t). pose proof (size_pos f).
    pose proof (placed_bound _ _ _ Hpc) as [Hb0 _].
    (* inherited decoration *)
    destruct (dec_inherit (fb + Z.of_nat (size f)) fiidx h mf mt a0 ifidx (root_idx t tb) RI ltac:(unfold fb; lia) ltac:(unfold fb, fiidx, tb; lia))
      as [RIt Eat].
    destruct (dec_inherit (fb + Z.of_nat (size f)) (fb + Z.of_nat (size f)) h mf mt a0 ifidx (root_idx f fb) RI ltac:(lia) ltac:(unfold fb, fiidx, tb; lia))
      as [RIf Eaf].
    cbv zeta in RIt, Eat, RIf, Eaf.
    set (inherit := negb (mt =? ifidx)) in *.
    set (mf' := if inherit then mf else fnone) in *.
    (* pushing onto stk is within the allocation: the fi node writes slot h *)
    assert (Hpush : forall v, push P stk v = Some (stk ++ [v])).
    { intros v. apply (push_ok stk v fiidx _ Gfi). cbn [osTop mk]. exact Hs. }
    rewrite bindT_if.
    eapply (IHc base h false [] [] fnone (root_idx c base) ifidx None 0 _ stk Hpc Hh).
    - fold ifidx. lia.
    - intros b Hb. destruct b; discriminate.
    - exact I.
    - intros Hfa. discriminate.
    - exact Hs.
    - (* the if node *)
      fold ifidx. intros v f0 Hf0.
      rewrite (afterD_unflagged _ _ fnone fnone _ 0 v stk eq_refl eq_refl).
      assert (Es : afterD (run f0) ifidx fnone 0 v stk = run f0 ifidx (stk ++ [v])).
      { rewrite afterD_cases. unfold store_next. rewrite Hpush. destruct v; try reflexivity. cbn [fhas fnone fst snd]. destruct b; reflexivity. }
      rewrite Es. destruct f0 as [|f1]; [unfold EvalDefs.need in Hf0; lia|].
      rewrite run_S. unfold psize. replace (L <=? ifidx) with false by lia.
      unfold Run.getn. rewrite Gif. cbn [kind mk]. rewrite rev_app_distr. cbn [rev app].
      assert (Hneed1 : (need (ifidx + 1) <= f1)%nat) by (unfold EvalDefs.need in *; lia).
      destruct v as [z|[]|s|li|ls|si|ss'| | |o]; cbn [cond_cont]; try reflexivity.
      + (* condition true: the true branch, then fi jumps over the false branch *)
        rewrite rev_involutive. fold tb.
        eapply (IHt tb h true [] [] mf' _ ifidx r a0 KR stk Hpt Hh).
        * fold fiidx. lia.
        * exact RIt.
        * exact I.
        * intros _ Hc. discriminate.
        * exact Hs.
        * fold fiidx. intros v f2 Hf2. rewrite Eat.
          destruct f2 as [|f3]; [unfold EvalDefs.need in Hf2; lia|].
          assert (Hn3 : (need (fb + Z.of_nat (size f)) <= f3)%nat) by (unfold EvalDefs.need in *; unfold fb in *; lia).
          assert (Hn2 : (need (fb + Z.of_nat (size f)) <= S f3)%nat) by lia.
          assert (Est : store_next P (run (S f3)) fiidx v stk = store_next P (run f3) (fb + Z.of_nat (size f)) v stk).
          { unfold store_next. rewrite Hpush. rewrite run_S. unfold psize. replace (L <=? fiidx) with false by lia.
            unfold Run.getn. rewrite Gfi. cbn [kind mk osTop scIdx is_cond_kind].
            destruct (stk ++ [v]) eqn:Es'; [destruct stk; discriminate|]. rewrite <- Es'.
            rewrite lenZ_app. change (lenZ [v]) with 1.
            replace ((h + 1 <? 0) || (lenZ stk + 1 <? h + 1)) with false by lia.
            replace (h + 1) with (lenZ (stk ++ [v])) by (rewrite lenZ_app; change (lenZ [v]) with 1; lia).
            rewrite firstnZ_all. unfold endidx. replace (fb + Z.of_nat (size f) - 1 + 1) with (fb + Z.of_nat (size f)) by lia.
            reflexivity. }
          rewrite afterD_cases. destruct v as [z|bb|s|li|ls|si|ss'| | |o];
            try (rewrite Est; rewrite <- (Hroot _ f3 Hn3); reflexivity).
          destruct (fhas mf bb) eqn:Hbb.
          -- rewrite <- (Hroot (VBool bb) (S f3) Hn2). rewrite afterD_cases, Hbb. reflexivity.
          -- rewrite Est. rewrite <- (Hroot (VBool bb) f3 Hn3). rewrite afterD_cases, Hbb. reflexivity.
        * unfold EvalDefs.need in *. unfold tb. lia.
      + (* condition false: jump behind fi, the false branch *)
        cbn [osTop mk scIdx is_cond_kind]. rewrite rev_involutive.
        assert (Hlr : lenZ (rev stk) = h) by (unfold lenZ in *; rewrite rev_length; exact Hs).
        replace ((h - 1 + 1 <? 0) || (lenZ (rev stk) <? h - 1 + 1)) with false by lia.
        replace (h - 1 + 1) with (lenZ stk) by lia. rewrite firstnZ_all. fold fb.
        eapply (IHf fb h true [] [] mf' _ ifidx r a0 KR stk Hpf Hh).
        * exact HE.
        * exact RIf.
        * exact I.
        * intros _ Hc. discriminate.
        * exact Hs.
        * intros v f2 Hf2. rewrite Eaf. apply Hroot. exact Hf2.
        * unfold EvalDefs.need in *. unfold fb, fiidx, tb in *. lia.
    - exact Hfu.
  Qed.

  Theorem sub_ok : forall t, sub_stmt t.
  Proof.
    induction t as [v|n k|name fast cs IH|c t f IHc IHt IHf] using tree_ind2.
    - apply leaf_ok. reflexivity.
    - apply leaf_ok. reflexivity.
    - destruct (fast_shape fast cs) eqn:Hfs.
      + destruct (fast_shape_inv _ _ Hfs) as (a & b & -> & Ha & Hb & ->). apply fast_ok. exact Hfs.
      + apply op_ok; assumption.
    - apply if_ok; assumption.
  Qed.
End M.
