(* TableFacts.v — the tables regenerated from the source hang together. The model FOLLOWS these tables, so a change that
   alters one of them consistently in code and model (say, a spelling dropped from the compiler's and/or recognition)
   would otherwise go unnoticed by the comparison of model and code; every check builds this file, and when it no longer
   checks, the run falls back to the accepted tables and searches for a failing input with them. *)
Require Import Base Opcode Tables Ops.
Open Scope Z_scope.
Open Scope list_scope.

Definition is_logic (m : lmode) (o : opcode) : bool := opcode_eqb o (OLogic m).

(* a name short-circuits as `and` (the compiler's isAndOpNode) exactly when the operator table implements it by the boolean
   `and` fold; likewise `or`; and every such name is a built-in *)
Lemma alias_tables_agree :
  forallb (fun p => Bool.eqb (existsb (String.eqb (fst p)) and_aliases) (is_logic LAnd (snd p))) builtin_table = true /\
  forallb (fun p => Bool.eqb (existsb (String.eqb (fst p)) or_aliases) (is_logic LOr (snd p))) builtin_table = true /\
  forallb (fun n => existsb (fun p => String.eqb (fst p) n) builtin_table) (and_aliases ++ or_aliases) = true.
Proof. vm_compute. repeat split. Qed.

Definition infix_of (n : string) : option (Z * Z) :=
  match filter (fun p => String.eqb (fst p) n) infix_table with p :: _ => Some (snd p) | [] => None end.

(* in infix notation every spelling of one operator has one precedence and arity, and the levels are in the conventional
   order: * / % over + - over ! over comparisons over && over || *)
Lemma infix_spellings_same_level :
  infix_of "&" = infix_of "&&" /\ infix_of "|" = infix_of "||" /\ infix_of "=" = infix_of "==" /\
  infix_of "&&" <> None /\ infix_of "||" <> None /\ infix_of "==" <> None /\
  match infix_of "*", infix_of "+", infix_of "!", infix_of "<", infix_of "&&", infix_of "||" with
  | Some (a, _), Some (b, _), Some (c, _), Some (d, _), Some (e, _), Some (f, _) => (a >? b) && (b >? c) && (c >? d) && (d >? e) && (e >? f) = true
  | _, _, _, _, _, _ => False
  end.
Proof. vm_compute. repeat split; discriminate. Qed.

(* the optimiser runs its passes in this order (GroupSort.v and the C16 laws across nesting depend on it) *)
Lemma pass_order : optimizations_order = ["constant_folding"; "reduce_nesting"; "fast_evaluation"; "reordering"]%string.
Proof. reflexivity. Qed.
