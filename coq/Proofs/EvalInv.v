(* EvalInv.v — the decoration invariants carried through the compiler's recursion, the climb lemma
   (the target computed by calAndSetShortCircuit lands where the parent's value would land) and the
   jump lemma (a short-circuiting operand behaves as if its parent had produced the value). *)
Require Import Base Opcode Tables Ops Tree Opt Flat Run CompFacts EvalDefs.
From Coq Require Import ZifyBool.
Open Scope Z_scope.
Open Scope list_scope.

Section M.
  Variable fetch : str -> Z -> res value.
  Variable custom : str -> list value -> res value.
  Variable P : prog.

  Notation L := (lenZ (nodes P)).
  Notation getn := (getn P).
  Notation run := (run fetch custom P).
  Notation lands := (lands P).
  Notation landsR := (landsR P).
  Notation fin := (fin P).
  Notation lastI := (lastI P).
  Notation need := (need P).
  Notation afterD := (afterD P).
  Notation landR := (landR P).

  (* every slot a node writes to exists in the allocated operand stack *)
  Hypothesis SA : forall i nd, getn i = Some nd -> osTop nd < alloc P.

  Definition RootInv (next h : Z) (mf : flags) (mt a0 : Z) : Prop :=
    forall b, fhas mf b = true ->
      next <= mt < L /\ (forall l, landsR mt b l <-> landsR a0 b l) /\ (exists l, landsR mt b l /\ os_le l h).

  Fixpoint AncInv (lo : Z) (anc : list (flags * Z)) (aidx : list Z) : Prop :=
    match anc, aidx with
    | [], _ => True
    | (f, t) :: anc', a :: aidx' =>
        lo <= a /\
        (exists nd, getn a = Some nd /\ nflags nd = f /\ scIdx nd = fin t) /\
        (forall b, fhas f b = true -> a < t < L /\
           match aidx' with a1 :: _ => (forall l, landsR t b l <-> landsR a1 b l) | [] => False end) /\
        AncInv lo anc' aidx'
    | _ :: _, [] => False
    end.

  Lemma AncInv_weaken lo lo' anc : forall aidx, lo' <= lo -> AncInv lo anc aidx -> AncInv lo' anc aidx.
  Proof.
    induction anc as [|[f t] anc IH]; intros [|a aidx] Hl H; cbn in *; try tauto.
    destruct H as (H0 & H1 & H2 & H3). split; [lia|]. split; [assumption|]. split; [assumption|]. now apply IH.
  Qed.

  Lemma fsub_has fl pf b : fsub fl pf = true -> fhas fl b = true -> fhas pf b = true.
  Proof. destruct fl as [[] []], pf as [[] []], b; cbn; congruence. Qed.

  Lemma fin_id x : x <> lastI -> fin x = x.
  Proof. unfold EvalDefs.fin. intros H. replace (x =? lastI) with false by lia. reflexivity. Qed.
  Lemma fin_cases x : fin x = -1 \/ fin x = x.
  Proof. unfold EvalDefs.fin. destruct (x =? lastI); auto. Qed.

  (* arriving at a flagged node = landing from its target *)
  Lemma lands_through a nd b t : getn a = Some nd -> matches nd b = true -> scIdx nd = fin t -> a < t ->
    forall l, lands a b l <-> lands (fin t) b l.
  Proof.
    intros G M S Hlt l. split; intros H.
    - inversion H; subst.
      + apply nthZ_range in G. lia.
      + match goal with H1 : getn a = Some ?n |- _ => rewrite G in H1; inversion H1; subst end. congruence.
      + match goal with H1 : getn a = Some ?n |- _ => rewrite G in H1; inversion H1; subst end. rewrite <- S. assumption.
    - eapply lands_step; [exact G|exact M| |rewrite S; exact H].
      rewrite S. destruct (fin_cases t) as [E|E]; rewrite E; [left; reflexivity|right; exact Hlt].
  Qed.

  Lemma climb_iff fl b : fhas fl b = true -> forall anc lo aidx cur a0 rest,
    AncInv lo anc aidx -> aidx = a0 :: rest -> lo <= cur < L ->
    (forall l, landsR cur b l <-> landsR a0 b l) ->
    (forall l, landsR (climb fl anc cur) b l <-> landsR a0 b l) /\ lo <= climb fl anc cur < L.
  Proof.
    intros Hb. induction anc as [|[pf pt] anc IH]; intros lo aidx cur a0 rest HA -> Hcur HC.
    - cbn. auto.
    - cbn [climb]. cbn [AncInv] in HA. destruct HA as (Hlo0 & (nd & G & NF & ST) & Hfl & HA).
      destruct (fsub fl pf) eqn:S; [|auto].
      pose proof (fsub_has _ _ _ S Hb) as Hpb.
      destruct (Hfl b Hpb) as (Hrange & Hnext).
      assert (E : forall l, landsR a0 b l <-> landsR pt b l).
      { intros l. unfold EvalDefs.landsR. rewrite fin_id by (unfold EvalDefs.lastI; lia).
        apply lands_through with (nd := nd); try assumption; [|lia].
        rewrite matches_fhas, NF. exact Hpb. }
      destruct (feq pf fl).
      + split; [intros l; symmetry; apply E|lia].
      + destruct rest as [|a1 rest']; [contradiction|].
        destruct (IH lo (a1 :: rest') pt a1 rest' HA eq_refl ltac:(lia) Hnext) as [H1 H2].
        split; [|exact H2]. intros l. rewrite H1, <- Hnext. symmetry. apply E.
  Qed.

  (* ---------- the parent of a group of operands ---------- *)

  Section Parent.
    Variables (ridx h_p : Z) (pn : node) (mf_p : flags) (mt_p a0p : Z).
    Variable KR_p : value -> list obs * mres.
    Variable stk0 : list value.
    (* a post-processing of observations (identity for plain programs, dropping LOOP events for event programs) *)
    Variable post : list obs * mres -> list obs * mres.
    Hypothesis Gp : getn ridx = Some pn.
    Hypothesis NFp : nflags pn = mf_p.
    Hypothesis STp : scIdx pn = fin mt_p.
    Hypothesis OSp : osTop pn = h_p.
    Hypothesis Hh : 0 <= h_p.
    Hypothesis Hs0 : lenZ stk0 = h_p.
    Hypothesis RIp : RootInv (ridx + 1) h_p mf_p mt_p a0p.
    Hypothesis EndH : ridx + 1 = L -> h_p = 0.
    Hypothesis Hroot : forall v f, (need (ridx + 1) <= f)%nat ->
      post (afterD (run f) (ridx + 1) mf_p (fin mt_p) v stk0) = KR_p v.

    (* where value b lands when it arrives as the parent's result *)
    Lemma parent_lands b : exists l, landsR ridx b l /\ os_le l h_p /\
      forall f x, (need (ridx + 1) <= f)%nat -> post (landR (run f) l (VBool b) (stk0 ++ x)) = KR_p (VBool b).
    Proof.
      pose proof (nthZ_range _ _ _ Gp) as R.
      destruct (Z.eq_dec ridx lastI) as [El | Nl].
      - (* the parent is the last node of the program: returning directly *)
        exists LRet. split; [unfold EvalDefs.landsR, EvalDefs.fin; replace (ridx =? lastI) with true by lia; constructor|].
        split; [exact I|]. intros f x Hf.
        assert (EL : ridx + 1 = L) by (unfold EvalDefs.lastI in El; lia).
        assert (Hun : fhas mf_p b = false).
        { destruct (fhas mf_p b) eqn:Hm; [|reflexivity]. destruct (RIp b Hm) as ((? & ?) & _). lia. }
        rewrite <- (Hroot (VBool b) f Hf). unfold EvalDefs.afterD. rewrite Hun.
        unfold EvalDefs.store_next, push. specialize (EndH EL). pose proof (SA _ _ Gp) as Ha.
        replace (lenZ stk0 <? alloc P) with true by lia.
        destruct stk0 as [|y ys]; [|unfold lenZ in Hs0; cbn in Hs0; lia].
        destruct f as [|f']; [unfold EvalDefs.need in Hf; lia|].
        rewrite run_S. unfold psize. replace (L <=? ridx + 1) with true by lia. reflexivity.
      - destruct (matches pn b) eqn:M.
        + (* the parent short-circuits b as well *)
          assert (Hm : fhas mf_p b = true) by (rewrite <- NFp, <- matches_fhas; exact M).
          destruct (RIp b Hm) as ((Hr1 & Hr2) & Hiff & (lp & Hlp & Hos)).
          exists lp. split; [|split; [exact Hos|]].
          * unfold EvalDefs.landsR. rewrite fin_id by exact Nl.
            apply (lands_through ridx pn b mt_p Gp M STp ltac:(lia)). exact Hlp.
          * intros f x Hf. rewrite <- (Hroot (VBool b) f Hf). unfold EvalDefs.afterD. rewrite Hm.
            rewrite (lands_chain_top P ridx (fin mt_p) b lp Hlp R).
            -- f_equal. apply landR_prefix with (h := h_p); [exact Hos|lia].
            -- destruct (fin_cases mt_p) as [E|E]; rewrite E; [left; reflexivity|right; lia].
        + exists (LAt ridx pn). split; [|split].
          * unfold EvalDefs.landsR. rewrite fin_id by exact Nl. constructor; assumption.
          * cbn. lia.
          * intros f x Hf. rewrite <- (Hroot (VBool b) f Hf). unfold EvalDefs.afterD.
            replace (fhas mf_p b) with false by (rewrite <- NFp, <- matches_fhas; symmetry; exact M).
            unfold EvalDefs.landR, EvalDefs.store_next. rewrite OSp, lenZ_app. pose proof (lenZ_nonneg x).
            replace ((h_p <? 0) || (lenZ stk0 + lenZ x <? h_p)) with false by lia.
            rewrite <- Hs0, firstnZ_app_all. reflexivity.
    Qed.

    (* an operand with flag fl whose target was computed by climbing from the parent *)
    Lemma child_jump lo anc aidx (inh : bool) fl nextc hc :
      AncInv lo anc aidx ->
      (fany mf_p = true -> inh = false -> exists rest, aidx = a0p :: rest) ->
      ridx + 1 <= lo -> 1 <= nextc <= ridx -> h_p <= hc ->
      let anc' := if inh then [] else (mf_p, mt_p) :: anc in
      let tg := climb fl anc' ridx in
      RootInv nextc hc fl tg ridx /\
      forall b, fhas fl b = true -> forall f x, (need (ridx + 1) <= f)%nat ->
        post (landR (run f) (chain P (length (nodes P)) (fin tg) b) (VBool b) (stk0 ++ x)) = KR_p (VBool b).
    Proof.
      intros HA Haidx Hlo Hnext Hhc anc' tg.
      pose proof (nthZ_range _ _ _ Gp) as R.
      assert (CL : forall b, fhas fl b = true ->
                (forall l, landsR tg b l <-> landsR ridx b l) /\ ridx <= tg < L).
      { intros b Hb. unfold tg, anc'. destruct inh.
        - cbn [climb]. split; [tauto|lia].
        - assert (HA' : AncInv ridx ((mf_p, mt_p) :: anc) (ridx :: aidx)).
          { cbn [AncInv]. split; [lia|]. split; [exists pn; auto|]. split.
            - intros b' Hb'. destruct (RIp b' Hb') as ((Hr1 & Hr2) & Hiff & _). split; [lia|].
              destruct (Haidx ltac:(unfold fany; destruct mf_p as [[] []], b'; cbn in *; congruence) eq_refl) as [rest ->].
              exact Hiff.
            - eapply AncInv_weaken; [|exact HA]. lia. }
          destruct (climb_iff fl b Hb ((mf_p, mt_p) :: anc) ridx (ridx :: aidx) ridx ridx aidx HA' eq_refl ltac:(lia) ltac:(tauto))
            as [H1 H2]. split; [exact H1|lia]. }
      split.
      - intros b Hb. destruct (CL b Hb) as [Hiff Hrange]. split; [lia|]. split; [exact Hiff|].
        destruct (parent_lands b) as (l & Hl & Hos & _). exists l. split; [apply Hiff; exact Hl|].
        eapply os_le_mono; eauto.
      - intros b Hb f x Hf. destruct (CL b Hb) as [Hiff Hrange].
        destruct (parent_lands b) as (l & Hl & Hos & Hrun).
        rewrite (lands_chain_top P 0 (fin tg) b l); [apply Hrun; exact Hf|apply Hiff; exact Hl|lia|].
        destruct (fin_cases tg) as [E|E]; rewrite E; [left; reflexivity|right; lia].
    Qed.
  End Parent.
End M.
