(* DumpProofs.v — C13: what the round trip through Dump and Compile preserves. The tree read back from the printed
   program is the compiled tree with its fast marks cleared (`strip`); clearing them, and optimising again under any
   configuration, preserves the denotation, hence the value whenever both evaluations return one. *)
Require Import Base Opcode Tables Ops Tree Opt Flat Run CompFacts SemFacts OptSound Directives Lexer Parser PrefixProofs.
From Coq Require Import ZifyBool.
Open Scope Z_scope.
Open Scope list_scope.

Lemma strip_idem : forall t, strip (strip t) = strip t.
Proof.
  induction t as [v|n k|name fast cs IH|c t f IHc IHt IHf] using tree_ind2; try reflexivity.
  - cbn [strip]. f_equal. rewrite map_map. induction IH as [|x l Hx _ IHl]; [reflexivity|]. cbn [map]. rewrite Hx, IHl. reflexivity.
  - cbn [strip]. rewrite IHc, IHt, IHf. reflexivity.
Qed.

Section S.
  Variable fetch : str -> Z -> res value.
  Variable custom : str -> list value -> res value.
  Notation den := (den fetch custom).
  Notation wt := (wt fetch custom).
  Notation sem := (sem fetch custom).

  Theorem den_strip : forall t, den (strip t) = den t.
  Proof.
    induction t as [v|n k|name fast cs IH|c t f IHc IHt IHf] using tree_ind2; try reflexivity.
    - cbn [strip OptSound.den]. f_equal. rewrite map_map. induction IH as [|c0 cs0 H0 _ IHl]; cbn [map]; [reflexivity|]. rewrite H0, IHl. reflexivity.
    - cbn [strip OptSound.den]. rewrite IHc, IHt, IHf. reflexivity.
  Qed.

  Lemma wt_strip : forall t, wt t -> wt (strip t).
  Proof.
    induction t as [v|n k|name fast cs IH|c t f IHc IHt IHf] using tree_ind2; intros Hw; try exact I.
    - cbn [strip]. apply wt_op in Hw. destruct Hw as [H1 H2]. apply wt_op. split.
      + apply Forall_map_wt; assumption.
      + intros d Hk. apply Forall_map_boolish; [apply den_strip|eauto].
    - destruct Hw as (?&?&?). cbn [strip OptSound.wt]. auto.
  Qed.

  (* the recompiled program (any configuration cfg' — in particular all optimisations off, or the original
     subset) returns the value the original returned, whenever both return a value *)
  Theorem roundtrip_value cfg' t a b : wt t ->
    snd (sem t) = Ok a -> snd (sem (optimize custom cfg' (strip t))) = Ok b -> a = b.
  Proof.
    intros W HA HB.
    pose proof (sem_refines_den fetch custom t W a HA) as DA.
    pose proof (sem_refines_den fetch custom _ (wt_optimize fetch custom cfg' _ (wt_strip t W)) b HB) as DB.
    rewrite den_optimize, den_strip in DB. congruence.
  Qed.

  (* without fast marks nothing changes at all: same value or error, same effects *)
  Theorem roundtrip_exact t : strip t = t -> sem (strip t) = sem t.
  Proof. intros ->. reflexivity. Qed.
End S.
