(* GenCorr.v — correspondence of GenerateRandomExpr under a scripted random source (C20). *)
Require Import Base Opcode Tables Ops Tree Print Gen GenText TestEnv.
Open Scope Z_scope.
Open Scope list_scope.

Record gcase := {
  gc_cfg : gencfg; gc_bool : bool; gc_level : nat; gc_stream : list Z;
  gc_tree : tree;          (* Go's Expr, parsed (variable keys zeroed) *)
  gc_text : str;           (* Go's Expr, the text itself *)
  gc_res : value           (* Go's reported Res *)
}.

Fixpoint zero_keys (t : tree) : tree :=
  match t with
  | TVar n _ => TVar n 0
  | TOp n f cs => TOp n f (map zero_keys cs)
  | TIf c a b => TIf (zero_keys c) (zero_keys a) (zero_keys b)
  | _ => t
  end.

Definition chk_gen (c : gcase) : list N :=
  let r := generate (gc_cfg c) (gc_bool c) (gc_level c) (gc_stream c) in
  (if tree_eqb (fst r) (zero_keys (gc_tree c)) then [] else [21%N]) ++
  (if value_eqb (snd r) (gc_res c) then [] else [22%N]) ++
  (if str_eqb (gtext (fst r)) (gc_text c) then [] else [23%N]).

Definition diag_gen (c : gcase) := generate (gc_cfg c) (gc_bool c) (gc_level c) (gc_stream c).
