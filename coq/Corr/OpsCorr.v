(* OpsCorr.v — correspondence of the built-in operators: (name, params, observed result). *)
Require Import Base Opcode Tables Ops.

Definition op_case := (str * list value * res value)%type.

Definition out_op (c : op_case) : option (res value) :=
  let '(name, ps, _) := c in
  match builtin name with Some o => Some (apply_opcode o ps) | None => None end.

Definition chk_op (c : op_case) : bool :=
  let '(_, _, obs) := c in
  match out_op c with Some r => res_eqb value_eqb r obs | None => false end.
