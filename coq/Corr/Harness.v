(* Harness.v — helpers for the correspondence check (cases.v files written by the Go harness). *)
Require Import Base TableFacts. (* TableFacts: built by every check, see the file *)

Definition mismatches {C} (chk : C -> bool) (cases : list (nat * C)) : list nat :=
  map fst (filter (fun p => negb (chk (snd p))) cases).

(* checks that report which comparisons failed: (case index, codes) for every case with a non-empty code list *)
Definition failures {C} (chk : C -> list N) (cases : list (nat * C)) : list (nat * list N) :=
  filter (fun p => match snd p with [] => false | _ => true end) (map (fun p => (fst p, chk (snd p))) cases).
