(* Harness.v — helpers for the correspondence check (cases.v files written by the Go harness). *)
Require Import Base.

Definition mismatches {C} (chk : C -> bool) (cases : list (nat * C)) : list nat :=
  map fst (filter (fun p => negb (chk (snd p))) cases).
