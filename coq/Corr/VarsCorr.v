(* VarsCorr.v — correspondence of key registration, fetcher choice and value normalisation (C11). *)
Require Import Base Tables Vars.
Open Scope Z_scope.
Open Scope list_scope.

Record vcase := {
  vc_pre : keymap;                       (* pre-populated VariableKeyMap *)
  vc_names : list str;                   (* GetOrRegisterKey calls, in order *)
  vc_keys : list Z;                      (* keys Go returned *)
  vc_exact : bool;                       (* the registration order is known to the harness (not RegVarAndOp) *)
  vc_final : keymap;                     (* Go's final VariableKeyMap *)
  vc_undefined : bool;
  vc_bind : bindings;
  vc_reads : list (str * res value)      (* Eval of each bound variable *)
}.

Fixpoint nodupZ (l : list Z) : bool := match l with [] => true | x :: l' => negb (mem_Z x l') && nodupZ l' end.

Definition chk_vars (c : vcase) : list N :=
  let m := register_all (vc_pre c) (vc_names c) in
  (* 11: the final map assigns a key twice or changed an existing assignment *)
  (if nodupZ (km_keys (vc_final c)) && forallb (fun nk => match km_find (fst nk) (vc_final c) with Some k => k =? snd nk | None => false end) (vc_pre c)
   then [] else [11%N]) ++
  (* 12: the keys differ from the model's *)
  (if vc_exact c then (if list_eqb Z.eqb (snd m) (vc_keys c) then [] else [12%N]) else []) ++
  (* 13: a variable does not read the normalised value bound to its name *)
  (if forallb (fun nr =>
        let name := fst nr in
        let key := if vc_undefined c then undefined_var_key else match km_find name (vc_final c) with Some k => k | None => 0 end in
        res_eqb value_eqb (fget (new_ctx (vc_undefined c) (vc_final c) (vc_bind c)) key name) (snd nr)) (vc_reads c)
   then [] else [13%N]).

Definition diag_vars (c : vcase) :=
  (register_all (vc_pre c) (vc_names c),
   map (fun nr => let name := fst nr in
        let key := if vc_undefined c then undefined_var_key else match km_find name (vc_final c) with Some k => k | None => 0 end in
        (name, key, fget (new_ctx (vc_undefined c) (vc_final c) (vc_bind c)) key name)) (vc_reads c)).
