(* DirCorr.v — correspondence of parseConfig (C08/C02): (initial switches, leading comment tokens, Go's outcome). *)
Require Import Base Tables Ops Tree Opt Directives.
Open Scope Z_scope.
Open Scope list_scope.

(* Go's outcome: None = Compile error from parseConfig; Some l = the effective switch of each optimisation in the generated order *)
Definition dcase := (list (string * bool) * list str * option (list bool))%type.

Definition out_dir (c : dcase) : option (list bool) :=
  let '(opts, cmts, _) := c in
  match apply_directives opts cmts with
  | Some o => Some (map (switch o) optimizations_order)
  | None => None
  end.

Definition chk_dir (c : dcase) : bool :=
  let '(_, _, obs) := c in
  match out_dir c, obs with
  | Some a, Some b => list_eqb Bool.eqb a b
  | None, None => true
  | _, _ => false
  end.
