(* EvalCorr.v — correspondence of the engine core: optimiser, compiler back end, Eval, TryEval.
   One case = what the harness observed from the Go implementation on one (config, tree, binding). *)
Require Import Base Opcode Tables Ops Tree Opt Flat FlatE Run TestEnv.
Open Scope Z_scope.
Open Scope list_scope.

Record ecase := {
  ec_cfg : config;
  ec_tree : tree;                       (* the tree the harness rendered to source text *)
  ec_env : env;                         (* binding: name -> value or error *)
  ec_avail : list str;                  (* names Cached reports as available (TryEval) *)
  ec_cerr : N;                          (* Go Compile: 0 ok, 1 too many params, 2 too many nodes, 3 too many event nodes *)
  ec_opt : option tree;                 (* Go's tree after optimize (VerifParse) *)
  ec_prog : option prog;                (* Go's program (VerifExport) *)
  ec_eval : option (list obs * list obs * mres);   (* Go's Eval: (fetches + registered-operator calls, events, outcome) *)
  ec_try : option (list obs * list obs * mres);    (* Go's TryEval *)
  ec_ccalls : option (list (str * list value))     (* registered operators invoked during Compile (nil ctx), in order *)
}.

Definition cerr_code (e : cerr) : N :=
  match e with CTooManyParams _ => 1 | CTooManyNodes _ => 2 | CTooManyEventNodes _ => 3 end%N.

Definition only_events (tr : list obs) : list obs :=
  filter (fun o => match o with OGet _ _ => false | _ => true end) tr.

(* model trace/outcome against what the harness observed: the plain projection always, the event stream in event mode *)
Definition obs_match (ev : bool) (loops : bool) (model : list obs * mres) (go : list obs * list obs * mres) : bool :=
  let '(gplain, gev, gout) := go in
  list_eqb obs_eqb (proj_plain (fst model)) gplain
  && (if ev then list_eqb obs_eqb (only_events (fst model)) (if loops then gev else drop_loops gev) else true)
  && mres_eqb (snd model) gout.

(* the event streams, LOOP positions erased *)
Definition erase_pos (o : obs) : obs := match o with OLoop _ k st => OLoop 0 k st | x => x end.
Definition events_match (model : list obs * mres) (go : list obs * list obs * mres) : bool :=
  let '(_, gev, _) := go in
  list_eqb obs_eqb (map erase_pos (only_events (fst model))) (map erase_pos gev).

(* static conditions on a program that the proof of run∘compile needs and compile guarantees *)
Definition stack_ok (P : prog) : bool :=
  forallb (fun nd => (osTop nd + 1 <=? maxStack P)) (nodes P).

(* codes of the comparisons that failed *)
Definition chk_eval (c : ecase) : list N :=
  let cfg := ec_cfg c in
  let t' := optimize test_custom cfg (ec_tree c) in
  let fetch := fetch_of (ec_env c) in
  let cached := cached_of (ec_avail c) in
  let ev := events cfg in
  (* 9: operators invoked at compile time (C10) *)
  (match ec_ccalls c with
   | Some l => if list_eqb (fun a b => str_eqb (fst a) (fst b) && list_eqb value_eqb (snd a) (snd b))
                          (filter (fun x => match builtin (fst x) with None => true | Some _ => false end) (compile_time_calls test_custom cfg (ec_tree c))) l
               then [] else [9%N]
   | None => [] end) ++
  (* 1: optimiser fidelity *)
  (match ec_opt c with Some g => if tree_eqb t' g then [] else [1%N] | None => [] end) ++
  (* 15: when the implementation's optimised tree is not the model's: does the implementation's Eval still return
         what the model-optimised tree means? (C10: a failing fold must stay an error at evaluation time) *)
  (match ec_opt c, ec_eval c with
   | Some g, Some o =>
     if tree_eqb t' g then [] else
     let '(_, _, gout) := o in
     if mres_eqb (res_to_mres (snd (sem fetch test_custom t'))) gout then [] else [15%N]
   | _, _ => [] end) ++
  (* 17: ... and BOTH are values, and they differ: the implementation's optimisation changed the value (C02) *)
  (match ec_opt c, ec_eval c with
   | Some g, Some o =>
     if tree_eqb t' g then [] else
     let '(_, _, gout) := o in
     match res_to_mres (snd (sem fetch test_custom t')), gout with
     | MVal x, MVal y => if value_eqb x y then [] else [17%N]
     | _, _ => []
     end
   | _, _ => [] end) ++
  (* 16: the same for TryEval and its tree-level meaning on the model-optimised tree *)
  (match ec_opt c, ec_try c with
   | Some g, Some o =>
     if tree_eqb t' g then [] else
     let '(_, _, gout) := o in
     match res_to_mres (snd (trysem fetch test_custom cached t')), gout with
     | MVal x, MVal y => if value_eqb x y then [] else [16%N]     (* both answer (a value or DNE) and differ *)
     | _, _ => []
     end
   | _, _ => [] end) ++
  (* 2: capacity decision (of Go's own optimised tree when available) *)
  (let tt := match ec_opt c with Some g => g | None => t' end in
   match compile_checked cfg tt with
   | inl e => if N.eqb (cerr_code e) (ec_cerr c) then [] else [2%N]
   | inr Pm =>
     if negb (N.eqb (ec_cerr c) 0) then [2%N] else
     (* 3: layout fidelity *)
     (match ec_prog c with Some Pg => if prog_eqb Pm Pg then [] else [3%N] | None => [] end) ++
     (* 10: cross-check of the structural event-mode compiler (Pm, the one the C12 theorems are about and the one
            compared with Go's program by code 3) against the transliterated calAndSetEventNode pass *)
     (if ev then (if prog_eqb (eventize (compile tt)) Pm then [] else [10%N]) else []) ++
     (* 8: static validation of Go's program *)
     (match ec_prog c with Some Pg => if stack_ok Pg then [] else [8%N] | None => [] end) ++
     (* 4: the Eval loop model on Go's own program *)
     (match ec_prog c, ec_eval c with
      | Some Pg, Some o => if obs_match ev true (eval fetch test_custom Pg) o then [] else [4%N]
      | _, _ => [] end) ++
     (* 14 (C12): event mode: the events Go emits - OP_EXEC payloads, LOOP node and stack snapshot, in order, the LOOP
            POSITIONS erased (the property only asks them to increase) - differ from those of the proven loop on the
            model's own event-mode program of the same optimised tree (T-EVENT is about that run) *)
     (if ev then
        (match ec_eval c with Some o => if events_match (eval fetch test_custom Pm) o then [] else [14%N] | None => [] end) ++
        (match ec_try c with Some o => if events_match (tryeval fetch test_custom cached Pm) o then [] else [14%N] | None => [] end)
      else []) ++
     (* 5: behaviour against the reference semantics of the optimised tree (C01/C03) *)
     (match ec_eval c with
      | Some o =>
        let s := sem fetch test_custom tt in
        if obs_match ev false (map effect_to_obs (fst s), res_to_mres (snd s)) o then [] else [5%N]
      | None => [] end) ++
     (* 6: the TryEval loop model on Go's own program *)
     (match ec_prog c, ec_try c with
      | Some Pg, Some o => if obs_match ev true (tryeval fetch test_custom cached Pg) o then [] else [6%N]
      | _, _ => [] end) ++
     (* 7: TryEval against its tree-level meaning *)
     (match ec_try c with
      | Some o =>
        let s := trysem fetch test_custom cached tt in
        if obs_match ev false (map effect_to_obs (fst s), res_to_mres (snd s)) o then [] else [7%N]
      | None => [] end)
   end).

(* diagnostics *)
Definition diag_eval (c : ecase) :=
  let cfg := ec_cfg c in
  let t' := optimize test_custom cfg (ec_tree c) in
  let tt := match ec_opt c with Some g => g | None => t' end in
  let fetch := fetch_of (ec_env c) in
  (t', compile_checked cfg tt, sem fetch test_custom tt,
   match ec_prog c with Some Pg => Some (eval fetch test_custom Pg, tryeval fetch test_custom (cached_of (ec_avail c)) Pg) | None => None end,
   trysem fetch test_custom (cached_of (ec_avail c)) tt).

(* capacity decision and result only (huge programs): (config, tree, Go's decision, Go's Eval outcome) *)
Definition chk_capacity (c : config * tree * N * option mres) : list N :=
  let '(cfg, t, code, r) := c in
  let t' := optimize test_custom cfg t in
  match check t' with
  | inl e => if N.eqb (cerr_code e) code then [] else [2%N]
  | inr n =>
    (* number of nodes after event interleaving: two per real node, fast children are not doubled *)
    let P := compile_cfg cfg t' in
    if event_max_nodes <? lenZ (nodes P) then (if N.eqb code 3 then [] else [2%N]) else
    if negb (N.eqb code 0) then [2%N] else
    match r with
    | Some o => if mres_eqb (res_to_mres (snd (sem (fun _ _ => Err (EUnbound [])) test_custom t'))) o then [] else [5%N]
    | None => []
    end
  end.
