(* TestEnv.v — the concrete environment the correspondence runs in: the harness registers exactly these
   custom operators in Go (harness/testops.go) and binds variables by an association list. *)
Require Import Base Opcode Tables Ops Tree Opt Flat Run.
Open Scope Z_scope.
Open Scope list_scope.

Definition all_ints (l : list value) : option (list Z) :=
  fold_right (fun v acc => match v, acc with VInt z, Some r => Some (z :: r) | _, _ => None end) (Some []) l.

Definition test_custom (name : str) (args : list value) : res value :=
  if str_eqb name (ss "c_sum") then
    match all_ints args with Some zs => Ok (VInt (wrap64 (fold_left Z.add zs 0))) | None => Err (EUser 1) end
  else if str_eqb name (ss "c_fail") then Err (EUser 2)
  else if str_eqb name (ss "c_first") then match args with v :: _ => Ok v | [] => Ok VNil end
  else if str_eqb name (ss "c_now") then match args with [] => Ok (VInt 42) | _ => Err (EUser 3) end
  else if str_eqb name (ss "c_not0") then
    if existsb (fun v => match v with VInt 0 => true | _ => false end) args then Err (EUser 4) else Ok (VBool true)
  else if str_eqb name (ss "c_id") then match args with [v] => Ok v | _ => Err (EUser 6) end
  else if str_eqb name (ss "c_opq") then Ok (VOpaque 7)
  else if str_eqb name (ss "c_yes") then Ok (VBool true)
  else if str_eqb name (ss "c_no") then Ok (VBool false)
  else Err (EOther 99).

Definition env := list (str * res value).

Definition fetch_of (e : env) (name : str) (key : Z) : res value :=
  match assoc_str name e with Some r => r | None => Err (EUnbound name) end.
Definition cached_of (avail : list str) (name : str) (key : Z) : bool := mem_str name avail.

(* ---------- equality tests for comparing observations ---------- *)

Fixpoint tree_eqb (a b : tree) : bool :=
  match a, b with
  | TConst x, TConst y => value_eqb x y
  | TVar n k, TVar n' k' => str_eqb n n' && (k =? k')
  | TOp n f cs, TOp n' f' cs' =>
    str_eqb n n' && Bool.eqb f f' &&
    (fix go (l l' : list tree) : bool :=
       match l, l' with [], [] => true | x :: r, y :: r' => tree_eqb x y && go r r' | _, _ => false end) cs cs'
  | TIf c t f, TIf c' t' f' => tree_eqb c c' && tree_eqb t t' && tree_eqb f f'
  | _, _ => false
  end.

Fixpoint nkind_eqb (a b : nkind) : bool :=
  match a, b with
  | KConst x, KConst y => value_eqb x y
  | KVar n k, KVar n' k' => str_eqb n n' && (k =? k')
  | KOp n, KOp n' | KFast n, KFast n' => str_eqb n n'
  | KIf, KIf | KFi, KFi => true
  | KEvent p k, KEvent p' k' => (p =? p') && nkind_eqb k k'
  | _, _ => false
  end.

Definition node_eqb (a b : node) : bool :=
  nkind_eqb (kind a) (kind b) && (childCnt a =? childCnt b) && Bool.eqb (scF a) (scF b) && Bool.eqb (scT a) (scT b)
  && (scIdx a =? scIdx b) && (osTop a =? osTop b) && Bool.eqb (pAnd a) (pAnd b) && Bool.eqb (pOr a) (pOr b).

Definition prog_eqb (a b : prog) : bool :=
  list_eqb node_eqb (nodes a) (nodes b) && list_eqb Z.eqb (parents a) (parents b) && (maxStack a =? maxStack b).

Definition obs_eqb (a b : obs) : bool :=
  match a, b with
  | OGet n k, OGet n' k' => str_eqb n n' && (k =? k')
  | OCall n f args r, OCall n' f' args' r' =>
    str_eqb n n' && Bool.eqb f f' && list_eqb value_eqb args args' && res_eqb value_eqb r r'
  | OLoop p k s, OLoop p' k' s' => (p =? p') && nkind_eqb k k' && list_eqb value_eqb s s'
  | _, _ => false
  end.

Definition mres_eqb (a b : mres) : bool :=
  match a, b with
  | MVal x, MVal y => value_eqb x y
  | MErr x, MErr y => err_eqb x y
  | MPanic _, MPanic _ => true
  | MFuel, MFuel => true
  | _, _ => false
  end.

(* projections of a model trace to what the harness can observe *)
(* plain mode: fetches and calls of registered (non-built-in) operators; the callee cannot see `fast` *)
Definition proj_plain (tr : list obs) : list obs :=
  flat_map (fun o => match o with
    | OGet _ _ => [o]
    | OCall n _ args r => match builtin n with None => [OCall n false args r] | Some _ => [] end
    | OLoop _ _ _ => [] end) tr.
(* event mode: fetches, every operator application (OP_EXEC), LOOP events *)
Definition proj_events (tr : list obs) : list obs := tr.

Definition effect_to_obs (e : effect) : obs :=
  match e with EGet n k => OGet n k | ECall n f a r => OCall n f a r end.

Definition res_to_mres (r : res value) : mres := match r with Ok v => MVal v | Err e => MErr e end.
