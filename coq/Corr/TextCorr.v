(* TextCorr.v — correspondence of the text layer: lexer, parsers, Dump, IndentByParentheses. *)
Require Import Base Opcode Tables Ops Tree Opt Flat Run Directives Lexer Parser Print TestEnv.
Open Scope Z_scope.
Open Scope list_scope.

Definition tok_eqb (a b : tok) : bool :=
  match a, b with
  | KInt x, KInt y | KStr x, KStr y | KIdent x, KIdent y | KComment x, KComment y => str_eqb x y
  | KLParen, KLParen | KRParen, KRParen | KLBracket, KLBracket | KRBracket, KRBracket | KComma, KComma => true
  | _, _ => false
  end.

Definition opt_eqb {A} (eqb : A -> A -> bool) (a b : option A) : bool :=
  match a, b with Some x, Some y => eqb x y | None, None => true | _, _ => false end.

Inductive tcase :=
  | TCClass (tab : list (N * bool * bool * bool))                       (* unicode.IsLetter / IsNumber / IsSpace of the alphabet *)
  | TCLex (infix : bool) (src : str) (obs : option (list tok))          (* VerifLex *)
  | TCParse (c : pconf) (infix : bool) (src : str) (obs : option tree)  (* VerifParse, unoptimised *)
  | TCDump (P : prog) (obs : str)                                       (* Dump *)
  | TCIndent (src : str) (obs : str).                                   (* IndentByParentheses *)

(* codes: 31 classification table, 32 lexer, 33 parser, 34 Dump, 35 IndentByParentheses *)
Definition chk_text (c : tcase) : list N :=
  match c with
  | TCClass tab =>
    if forallb (fun e => let '(cp, l, n, s) := e in
                 Bool.eqb (is_letter_tab cp) l && Bool.eqb (is_number_tab cp) n && Bool.eqb (is_space cp) s) tab then [] else [31%N]
  | TCLex infix src obs => if opt_eqb (list_eqb tok_eqb) (lex_tab infix src) obs then [] else [32%N]
  | TCParse pc infix src obs => if opt_eqb tree_eqb (parse_source pc infix src) obs then [] else [33%N]
  | TCDump P obs => if opt_eqb str_eqb (dump P) (Some obs) then [] else [34%N]
  | TCIndent src obs => if str_eqb (indent_by_parens src) obs then [] else [35%N]
  end.

Definition diag_text (c : tcase) :=
  match c with
  | TCLex infix src _ => (lex_tab infix src, None, None, None)
  | TCParse pc infix src _ => (None, Some (parse_source pc infix src), None, None)
  | TCDump P _ => (None, None, Some (dump P), None)
  | TCIndent src _ => (None, None, None, Some (indent_by_parens src))
  | _ => (None, None, None, None)
  end.
