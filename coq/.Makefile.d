Model/Base.vo Model/Base.glob Model/Base.v.beautified Model/Base.required_vo: Model/Base.v 
Model/Base.vio: Model/Base.v 
Model/Base.vos Model/Base.vok Model/Base.required_vos: Model/Base.v 
Model/Opcode.vo Model/Opcode.glob Model/Opcode.v.beautified Model/Opcode.required_vo: Model/Opcode.v 
Model/Opcode.vio: Model/Opcode.v 
Model/Opcode.vos Model/Opcode.vok Model/Opcode.required_vos: Model/Opcode.v 
Generated/Tables.vo Generated/Tables.glob Generated/Tables.v.beautified Generated/Tables.required_vo: Generated/Tables.v Model/Opcode.vo
Generated/Tables.vio: Generated/Tables.v Model/Opcode.vio
Generated/Tables.vos Generated/Tables.vok Generated/Tables.required_vos: Generated/Tables.v Model/Opcode.vos
Model/Ops.vo Model/Ops.glob Model/Ops.v.beautified Model/Ops.required_vo: Model/Ops.v Model/Base.vo Model/Opcode.vo Generated/Tables.vo
Model/Ops.vio: Model/Ops.v Model/Base.vio Model/Opcode.vio Generated/Tables.vio
Model/Ops.vos Model/Ops.vok Model/Ops.required_vos: Model/Ops.v Model/Base.vos Model/Opcode.vos Generated/Tables.vos
Corr/Harness.vo Corr/Harness.glob Corr/Harness.v.beautified Corr/Harness.required_vo: Corr/Harness.v Model/Base.vo
Corr/Harness.vio: Corr/Harness.v Model/Base.vio
Corr/Harness.vos Corr/Harness.vok Corr/Harness.required_vos: Corr/Harness.v Model/Base.vos
Corr/OpsCorr.vo Corr/OpsCorr.glob Corr/OpsCorr.v.beautified Corr/OpsCorr.required_vo: Corr/OpsCorr.v Model/Base.vo Model/Opcode.vo Generated/Tables.vo Model/Ops.vo
Corr/OpsCorr.vio: Corr/OpsCorr.v Model/Base.vio Model/Opcode.vio Generated/Tables.vio Model/Ops.vio
Corr/OpsCorr.vos Corr/OpsCorr.vok Corr/OpsCorr.required_vos: Corr/OpsCorr.v Model/Base.vos Model/Opcode.vos Generated/Tables.vos Model/Ops.vos
Properties/C17.vo Properties/C17.glob Properties/C17.v.beautified Properties/C17.required_vo: Properties/C17.v Model/Base.vo Model/Opcode.vo Generated/Tables.vo Model/Ops.vo
Properties/C17.vio: Properties/C17.v Model/Base.vio Model/Opcode.vio Generated/Tables.vio Model/Ops.vio
Properties/C17.vos Properties/C17.vok Properties/C17.required_vos: Properties/C17.v Model/Base.vos Model/Opcode.vos Generated/Tables.vos Model/Ops.vos
Properties/C18.vo Properties/C18.glob Properties/C18.v.beautified Properties/C18.required_vo: Properties/C18.v Model/Base.vo Model/Opcode.vo Generated/Tables.vo Model/Ops.vo
Properties/C18.vio: Properties/C18.v Model/Base.vio Model/Opcode.vio Generated/Tables.vio Model/Ops.vio
Properties/C18.vos Properties/C18.vok Properties/C18.required_vos: Properties/C18.v Model/Base.vos Model/Opcode.vos Generated/Tables.vos Model/Ops.vos
Properties/C19.vo Properties/C19.glob Properties/C19.v.beautified Properties/C19.required_vo: Properties/C19.v Model/Base.vo Model/Opcode.vo Generated/Tables.vo Model/Ops.vo
Properties/C19.vio: Properties/C19.v Model/Base.vio Model/Opcode.vio Generated/Tables.vio Model/Ops.vio
Properties/C19.vos Properties/C19.vok Properties/C19.required_vos: Properties/C19.v Model/Base.vos Model/Opcode.vos Generated/Tables.vos Model/Ops.vos
