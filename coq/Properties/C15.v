Require Import Base Opcode Tables Ops Tree Lexer Parser Print.
Example placeholder_C15 : True. Proof. exact I. Qed.
Print Assumptions placeholder_C15.
