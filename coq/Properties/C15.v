(* C15 — Infix notation means the same as the equivalent prefix expression.
   Only statements; proofs in Proofs/InfixProofs.v, PrefixProofs.v, SourceProofs.v, LexProofs.v, PrintProofs.v.

   An infix expression is an `iexp`: leaves (literals, variables, constants, [..] lists), parentheses (needed or
   redundant), `! e`, `l op r` and calls `f(a, b, ...)` / `if(c, a, b)`. `iwf` says that it is written with the
   conventional precedence: the left operand of a binary operator binds at least as tightly as the operator, the
   right operand and the operand of `!` strictly tighter (left associativity), everything else is parenthesised;
   operator names are operators of the configuration. `itree` is the tree of the equivalent prefix expression.
   `parse_infix` / `parse_source` are the models of parseInfixExpression / the whole front end, compared with Go's
   VerifParse on every correspondence case. *)
Require Import Base Opcode Tables Ops Tree Directives Lexer Parser Print LexProofs InfixProofs PrefixProofs PrintProofs SourceProofs.
Open Scope Z_scope.

(* the shunting-yard parser builds the tree of the prefix form — for every well-written infix expression *)
Theorem C15_parse_infix : forall c e, iwf c e -> parse_infix c (itoks e) = Some (itree c e).
Proof. exact parse_infix_correct. Qed.

(* ... which is what the prefix parser builds from the prefix text of that tree (Dump's number printer) *)
Theorem C15_infix_is_prefix : forall c e, iwf c e -> atoms_leaf e -> twf c (itree c e) ->
  parse_infix c (itoks e) = parse_prefix c false (ttoks show_Z (itree c e)).
Proof. intros c e. exact (infix_is_prefix c show_Z parse_show_Z e). Qed.

(* redundant parentheses do not change the tree *)
Theorem C15_parens_irrelevant : forall c e1 e2, iwf c e1 -> iwf c e2 -> strip_parens e1 = strip_parens e2 ->
  parse_infix c (itoks e1) = parse_infix c (itoks e2).
Proof. exact parens_irrelevant. Qed.

(* from text: ANY spacing of the tokens (white-space runs and `;` comments between tokens, a separator empty only
   where two tokens cannot fuse) gives that tree through lexer, token check and parser *)
Theorem C15_source : forall c items e,
  wf_items is_letter_tab is_number_tab true items -> drop_comments (map fst items) = itoks e -> iwf c e -> ichk e ->
  parse_source c true (render items) = Some (itree c e).
Proof. exact infix_source. Qed.

(* ... and for ANY source whose tokens are the expression's, the glued `!ident` spelling included (the lexer splits it):
   spacing never changes the tree *)
Theorem C15_source_any : forall c s toks e,
  lex_tab true s = Some toks -> drop_comments toks = itoks e -> iwf c e -> ichk e ->
  parse_source c true s = Some (itree c e).
Proof. exact infix_source_any. Qed.
Example C15_glued_not :
  option_map drop_comments (lex_tab true (ss "a&&!b")) = None /\
  option_map drop_comments (lex_tab true (ss "a && !b || !  c")) = option_map drop_comments (lex_tab true (ss "a  &&  ! b ||
 !c ; note")).
Proof. vm_compute. split; reflexivity. Qed.

(* the leaves: integer and string literals, variables, constants, bracket lists *)
Theorem C15_atom_int : forall c s z, parse_int s = Some z -> iwf c (IAtom [KInt s] (TConst (VInt z))) /\ acheck [KInt s].
Proof. exact atom_int. Qed.
Theorem C15_atom_str : forall c s, iwf c (IAtom [KStr s] (TConst (VStr s))) /\ acheck [KStr s].
Proof. exact atom_str. Qed.
Theorem C15_atom_var : forall c n k, builtin_const n = None -> assoc n (p_consts c) = None -> assoc n (p_vars c) = Some k ->
  iwf c (IAtom [KIdent n] (TVar n k)) /\ acheck [KIdent n].
Proof. exact atom_var. Qed.
Theorem C15_atom_int_list : forall c (l : list str) zs, l <> [] -> all_parse_int l = Some zs ->
  iwf c (IAtom (KLBracket :: map KInt l ++ [KRBracket]) (TConst (VIntL zs))) /\ acheck (KLBracket :: map KInt l ++ [KRBracket]).
Proof. exact atom_int_list. Qed.
Theorem C15_atom_str_list : forall c (l : list str),
  iwf c (IAtom (KLBracket :: map KStr l ++ [KRBracket]) (TConst (VStrL l))) /\ acheck (KLBracket :: map KStr l ++ [KRBracket]).
Proof. exact atom_str_list. Qed.

(* non-vacuity: a well-written expression with every construct, and the front end on two spacings of it *)
Definition c0 : pconf := {| p_consts := []; p_vars := [(ss "a", 1); (ss "b", 2)]; p_ops := [ss "f"]; p_undefined := false |}.
Definition va := IAtom [KIdent (ss "a")] (TVar (ss "a") 1).
Definition vb := IAtom [KIdent (ss "b")] (TVar (ss "b") 2).
Definition lit (z : Z) := IAtom [KInt (show_Z z)] (TConst (VInt z)).
Definition ex : iexp :=
  IBin (ss "||")
    (IBin (ss "&&") (IBin (ss "<") va (IBin (ss "+") vb (IBin (ss "*") (lit 2) (IParen (IBin (ss "-") va (lit 1))))))
                    (INot (IParen (IBin (ss "==") (ICall (ss "f") [vb; IBin (ss "+") va (lit 2)]) (lit 3)))))
    (ICall (ss "if") [IBin (ss "<") va (lit 2); IAtom [KLBracket; KInt (ss "1"); KInt (ss "2"); KRBracket] (TConst (VIntL [1; 2])); IParen (IParen vb)]).
Example C15_ex_wf : iwf c0 ex.
Proof.
  cbn [iwf ex va vb lit]. repeat split; try discriminate; try (intros rest; reflexivity); try reflexivity; try (cbv; congruence).
Qed.
Example C15_ex_text :
  parse_source c0 true (ss "a < b + 2 * (a - 1) && !(f(b, a + 2) == 3) || if(a < 2, [1 2], ((b)))") = Some (itree c0 ex) /\
  parse_source c0 true (ss "a   < b + 2 *(a - 1)&& !(f(b,a + 2)== 3)|| if(a < 2,[1 2],(	(b)))") = Some (itree c0 ex) /\
  parse_source c0 false (ss "(|| (&& (< a (+ b (* 2 (- a 1)))) (! (== (f b (+ a 2)) 3))) (if (< a 2) (1 2) b))") = Some (itree c0 ex).
Proof. vm_compute. repeat split. Qed.

Print Assumptions C15_parse_infix.
Print Assumptions C15_infix_is_prefix.
Print Assumptions C15_source.
Print Assumptions C15_source_any.
