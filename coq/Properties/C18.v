Require Import Base Opcode Tables Ops.
Example placeholder_C18 : True. Proof. exact I. Qed.
Print Assumptions placeholder_C18.
