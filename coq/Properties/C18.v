(* C18 — Scalar operators obey their algebra on the whole int64/bool domain.
   Only statements here; each is closed by `exact <lemma>` (proofs in Proofs/OpsArith.v). *)
Require Import Base Opcode Tables Ops OpsArith TableFacts.
Open Scope Z_scope.

(* arithmetic: exact left fold over Z, wrapped into int64 (two's complement) *)
Theorem C18_arith_ring_fold : forall m v w vs,
  m = AAdd \/ m = ASub \/ m = AMul -> in_i64 v = true ->
  arith m (ints (v :: w :: vs)) = Ok (VInt (wrap64 (fold_left (zop m) (w :: vs) v))).
Proof. exact arith_ring_fold. Qed.

(* division / modulo: truncated left fold; a zero divisor anywhere is an error (the model has no panic outcome:
   MinInt64 / -1 wraps to MinInt64) *)
Theorem C18_arith_div_fold : forall m v w vs, m = ADiv \/ m = AMod ->
  arith m (ints (v :: w :: vs)) =
    if existsb (Z.eqb 0) (w :: vs) then Err (EExec (div_name m)) else Ok (VInt (divfold m v (w :: vs))).
Proof. exact arith_div_fold. Qed.
Theorem C18_div_zero_anywhere : forall m v pre post, m = ADiv \/ m = AMod ->
  arith m (ints (v :: pre ++ 0 :: post)) = Err (EExec (div_name m)).
Proof. exact arith_div_zero_anywhere. Qed.
Theorem C18_arith_in_range : forall m v vs z, in_i64 v = true -> arith m (ints (v :: vs)) = Ok (VInt z) -> in_i64 z = true.
Proof. exact arith_result_in_range. Qed.
Theorem C18_arith_count : forall m ps, (length ps < 2)%nat -> arith m ps = Err (ECount (mname (amode_key m))).
Proof. exact arith_count_error. Qed.
Theorem C18_arith_ok_needs_ints : forall m ps r, arith m ps = Ok r -> (2 <= length ps)%nat /\ forallb is_int ps = true.
Proof. exact arith_ok_needs_ints. Qed.
Theorem C18_arith_errors_only : forall m ps e, arith m ps = Err e ->
  e = ECount (mname (amode_key m)) \/ e = EType (mname (amode_key m)) \/ e = EExec (div_name m).
Proof. exact arith_never_other_error. Qed.

(* boolean folds *)
Theorem C18_and_all : forall a b bs, logic LAnd (bools (a :: b :: bs)) = Ok (VBool (forallb (fun x => x) (a :: b :: bs))).
Proof. exact logic_and_all. Qed.
Theorem C18_or_any : forall a b bs, logic LOr (bools (a :: b :: bs)) = Ok (VBool (existsb (fun x => x) (a :: b :: bs))).
Proof. exact logic_or_any. Qed.
Theorem C18_xor_parity : forall a b bs, logic LXor (bools (a :: b :: bs)) = Ok (VBool (fold_left xorb (b :: bs) a)).
Proof. exact logic_xor_parity. Qed.
Theorem C18_logic_count : forall m ps, (length ps < 2)%nat -> logic m ps = Err (ECount (mname (lmode_key m))).
Proof. exact logic_count_error. Qed.
Theorem C18_logic_type : forall m ps, (2 <= length ps)%nat -> forallb is_bool ps = false -> logic m ps = Err (EType (mname (lmode_key m))).
Proof. exact logic_type_error. Qed.
Theorem C18_not : forall ps, logic_not ps =
  match ps with [VBool b] => Ok (VBool (negb b)) | [_] => Err (EType (ss "not")) | _ => Err (ECount (ss "not")) end.
Proof. exact not_spec. Qed.

(* comparisons agree with the int64 order and with each other *)
Theorem C18_cmp_order : forall m i j, cmp m [VInt i; VInt j] = Ok (VBool (
  match m with CGt => Z.gtb i j | CLt => Z.ltb i j | CGe => Z.geb i j | CLe => Z.leb i j end)).
Proof. exact cmp_order. Qed.
Theorem C18_le_not_gt : forall i j, cmp CLe [VInt i; VInt j] = Ok (VBool (negb (i >? j))).
Proof. exact cmp_le_not_gt. Qed.
Theorem C18_ge_not_lt : forall i j, cmp CGe [VInt i; VInt j] = Ok (VBool (negb (i <? j))).
Proof. exact cmp_ge_not_lt. Qed.
Theorem C18_cmp_errors : forall m ps,
  match ps with
  | [VInt _; VInt _] => True
  | [_; _] => cmp m ps = Err (EType (mname (cmode_key m)))
  | _ => cmp m ps = Err (ECount (mname (cmode_key m)))
  end.
Proof. exact cmp_errors. Qed.
Theorem C18_ne_is_not_eq : forall a b, comparable a = true -> comparable b = true ->
  exists r, cmp_eq [a; b] = Ok (VBool r) /\ cmp_ne [a; b] = Ok (VBool (negb r)).
Proof. exact ne_is_not_eq. Qed.
Theorem C18_eq_int : forall i j, cmp_eq [VInt i; VInt j] = Ok (VBool (i =? j)).
Proof. exact eq_int_spec. Qed.
Theorem C18_eq_nary : forall a ps, (1 <= length ps)%nat -> forallb comparable (a :: ps) = true ->
  cmp_eq (a :: ps) = Ok (VBool (forallb (go_eq a) ps)).
Proof. exact eq_nary. Qed.
Theorem C18_eq_count : forall ps, (length ps < 2)%nat -> cmp_eq ps = Err (ECount (mname "equals")).
Proof. exact eq_count_error. Qed.
Theorem C18_ne_count : forall ps, length ps <> 2%nat -> cmp_ne ps = Err (ECount (mname "notEquals")).
Proof. exact ne_count_error. Qed.
Theorem C18_between : forall v a b,
  cmp_between [VInt v; VInt a; VInt b] = Ok (VBool ((a <=? v) && (v <=? b))) /\
  (exists x y, cmp CGe [VInt v; VInt a] = Ok (VBool x) /\ cmp CLe [VInt v; VInt b] = Ok (VBool y) /\
               cmp_between [VInt v; VInt a; VInt b] = Ok (VBool (x && y))).
Proof. exact between_spec. Qed.
Theorem C18_between_errors : forall ps,
  match ps with
  | [VInt _; VInt _; VInt _] => True
  | [_; _; _] => cmp_between ps = Err (EType (mname "between"))
  | _ => cmp_between ps = Err (ECount (ss "between"))
  end.
Proof. exact between_errors. Qed.

(* aliases: in the table regenerated from /repo/operator.go every alias has the opcode (= the same model function)
   of its named form, every named form has its canonical opcode, and there is no other built-in name *)
Theorem C18_alias_same : aliases_ok = true /\ canonical_ok = true /\ table_functional = true /\ no_other_names = true.
Proof. exact alias_same. Qed.

(* non-vacuity: concrete instances at the int64 extremes *)
Example C18_ex_wrap : arith AAdd (ints [9223372036854775807; 1]) = Ok (VInt (-9223372036854775808)).
Proof. reflexivity. Qed.
Example C18_ex_minint_div : arith ADiv (ints [-9223372036854775808; -1]) = Ok (VInt (-9223372036854775808)).
Proof. reflexivity. Qed.
Example C18_ex_div0_late : arith AMod (ints [7; 3; 0; 2]) = Err (EExec (ss "mod")).
Proof. reflexivity. Qed.
Example C18_ex_between_inverted : cmp_between [VInt 15; VInt 10; VInt 1] = Ok (VBool false).
Proof. reflexivity. Qed.

(* the alias tables regenerated from the source hang together: a name short-circuits as `and` (is recognised by the
   compiler's isAndOpNode) exactly when the operator table implements it by the boolean `and` fold, likewise `or`; and in
   infix notation every spelling of one operator has the same precedence and arity, so an alias behaves like its named
   form there too *)
Theorem C18_alias_tables_agree :
  forallb (fun p => Bool.eqb (existsb (String.eqb (fst p)) and_aliases) (is_logic LAnd (snd p))) builtin_table = true /\
  forallb (fun p => Bool.eqb (existsb (String.eqb (fst p)) or_aliases) (is_logic LOr (snd p))) builtin_table = true /\
  forallb (fun n => existsb (fun p => String.eqb (fst p) n) builtin_table) (and_aliases ++ or_aliases) = true.
Proof. exact alias_tables_agree. Qed.
Theorem C18_infix_spellings_same_level :
  infix_of "&" = infix_of "&&" /\ infix_of "|" = infix_of "||" /\ infix_of "=" = infix_of "==" /\
  infix_of "&&" <> None /\ infix_of "||" <> None /\ infix_of "==" <> None /\
  match infix_of "*", infix_of "+", infix_of "!", infix_of "<", infix_of "&&", infix_of "||" with
  | Some (a, _), Some (b, _), Some (c, _), Some (d, _), Some (e, _), Some (f, _) => (a >? b) && (b >? c) && (c >? d) && (d >? e) && (e >? f) = true
  | _, _, _, _, _, _ => False
  end.
Proof. exact infix_spellings_same_level. Qed.

Print Assumptions C18_arith_ring_fold.
Print Assumptions C18_arith_div_fold.
Print Assumptions C18_eq_nary.
Print Assumptions C18_between.
Print Assumptions C18_alias_same.
