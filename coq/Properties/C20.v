(* C20 — GenerateRandomExpr reports the true value of the expression it generates.
   Statements about `generate`, the model of GenerateRandomExpr as a function of the raw random draws (every seed
   is some stream of draws; tied to the Go function by a scripted rand.Source on every run). Proofs: GenProofs.v.
   Both evaluation clauses are theorems: three-valued evaluation (TryEval) for every option set, ordinary evaluation
   (Eval, under every optimisation configuration) when no DNE variable can be used; and the TEXT the generator
   returns (model `gtext`, compared with Go's string on every run) is read back by lexer, parser.check and prefix
   parser as the generated tree, in every configuration that registers the given variables, from level 1 on. Limits of
   the statement: (a) "compiles" is proved up to the capacity check (an expression of more than 32767 nodes, reachable
   only at high levels, is rejected by design - C09); (b) at level 0 the generated text is a bare leaf that prefix
   Compile rejects - a recorded finding (known_findings.json). *)
Require Import Base Opcode Tables Ops Tree Opt Flat Run TryFacts Parser Gen GenText GenProofs GenEval GenTextProofs GenShape
  OptTotal EvalDefs EvalTop TryCorrect.
Open Scope Z_scope.

(* for every level, every stream of draws, both result types, every option combination and variable lists whose
   recorded values have the declared type (distinct names): the reported result is the strong-Kleene value of the
   generated expression under the recorded values (DNE variables unavailable); no sub-expression fails; the result
   has the requested type or is DNE *)
Theorem C20_reported_is_kleene : forall c, wf_cfg c -> forall isb level s,
  let r := generate c isb level s in
  kleene (gfetch c) no_custom (gcached c) (fst r) = Ok (snd r) /\
  subs_ok no_custom (gfetch c) (gcached c) (fst r) /\ typed isb (snd r).
Proof. exact generate_kleene. Qed.

(* hence the tree-level meaning of TryEval returns exactly the reported result *)
Theorem C20_reported_is_trysem : forall c, wf_cfg c -> forall isb level s,
  let r := generate c isb level s in snd (trysem (gfetch c) no_custom (gcached c) (fst r)) = Ok (snd r).
Proof. exact generate_trysem. Qed.

(* machine level: TryEval of the compiled generated expression (model of Expr.TryEval on the flat program) returns the
   reported result *)
Theorem C20_reported_is_tryeval : forall c, wf_cfg c -> forall isb level s,
  let r := generate c isb level s in
  snd (tryeval (gfetch c) no_custom (gcached c) (compile (fst r))) = MVal (snd r).
Proof.
  intros c Hc isb level s r. rewrite tryrun_compile_correct. unfold sem_obs. cbn [snd].
  unfold r. rewrite (generate_trysem c Hc isb level s). reflexivity.
Qed.

(* ordinary evaluation: when the generator cannot use a DNE variable (EnableTryEval off, or no DNE variable given),
   strict evaluation of the generated expression - every operand of every operator, the taken branch of every `if` -
   succeeds with the reported result, which is of the requested type (never DNE) *)
Theorem C20_reported_is_strict : forall c, wf_cfg c -> g_try c && nonempty (g_dnes c) = false -> forall isb level s,
  let r := generate c isb level s in
  rok (gfetch c) no_custom (fst r) = Some (snd r) /\ typedE isb (snd r).
Proof. exact generate_rok. Qed.
(* hence Eval of the compiled generated expression returns the reported result, under every optimisation
   configuration (any subset of the passes, any cost map) *)
Theorem C20_reported_is_eval : forall c, wf_cfg c -> g_try c && nonempty (g_dnes c) = false -> forall cfg isb level s,
  let r := generate c isb level s in
  snd (eval (gfetch c) no_custom (compile (optimize no_custom cfg (fst r)))) = MVal (snd r).
Proof.
  intros c Hc Hn cfg isb level s r. rewrite run_compile_correct. unfold sem_obs. cbn [snd].
  unfold r. rewrite (generate_sem c Hc Hn cfg isb level s). reflexivity.
Qed.
Theorem C20_reported_is_eval_plain : forall c, wf_cfg c -> g_try c && nonempty (g_dnes c) = false -> forall isb level s,
  let r := generate c isb level s in snd (eval (gfetch c) no_custom (compile (fst r))) = MVal (snd r).
Proof.
  intros c Hc Hn isb level s r. rewrite run_compile_correct. unfold sem_obs. cbn [snd].
  unfold r. rewrite (generate_sem_plain c Hc Hn isb level s). reflexivity.
Qed.

(* ---------- the text ---------- *)

(* in any parser configuration `pc` that registers the given variables (each name an identifier the lexer accepts,
   not a constant), from level 1 on: the returned text goes through lexer, parser.check and the prefix parser and
   yields the generated tree (with that configuration's variable keys) *)
Theorem C20_text_parses : forall c pc, registers c pc -> forall isb level s, (1 <= level)%nat ->
  let t := fst (generate c isb level s) in parse_source pc false (gtext t) = Some (rekey pc t).
Proof. exact generate_text_parses. Qed.

(* and that parsed tree evaluates to the reported result: Eval under every optimisation configuration when no DNE
   variable can be used, TryEval in general *)
Theorem C20_text_eval : forall c pc, wf_cfg c -> g_try c && nonempty (g_dnes c) = false -> forall cfg isb level s,
  let r := generate c isb level s in
  snd (eval (gfetch c) no_custom (compile (optimize no_custom cfg (rekey pc (fst r))))) = MVal (snd r).
Proof.
  intros c pc Hc Hn cfg isb level s r. rewrite run_compile_correct. unfold sem_obs. cbn [snd].
  destruct (generate_rok c Hc Hn isb level s) as [H _]. fold r in H.
  rewrite <- (rok_rekey (gfetch c) no_custom pc (fun n k k' => eq_refl)) in H.
  pose proof (all_configurations_return (gfetch c) no_custom cfg _ _ H) as A. unfold OptValue.val in A. rewrite A. reflexivity.
Qed.
Theorem C20_text_tryeval : forall c pc, wf_cfg c -> forall isb level s,
  let r := generate c isb level s in
  snd (tryeval (gfetch c) no_custom (gcached c) (compile (rekey pc (fst r)))) = MVal (snd r).
Proof.
  intros c pc Hc isb level s r. rewrite tryrun_compile_correct. unfold sem_obs. cbn [snd].
  destruct (generate_kleene c Hc isb level s) as (Hk & Hs & _). fold r in Hk, Hs.
  rewrite (trysem_is_kleene _ _ _ _ (subs_ok_rekey (gfetch c) no_custom pc (fun n k k' => eq_refl) (gcached c) (fun n k k' => eq_refl) _ Hs)).
  rewrite (kleene_rekey (gfetch c) no_custom pc (fun n k k' => eq_refl) (gcached c) (fun n k k' => eq_refl)). rewrite Hk. reflexivity.
Qed.

(* the generator's own operator evaluation is the Kleene combination whenever that is defined *)
Theorem C20_exec_is_comb : forall op vals r,
  In op [ss "and"; ss "or"; ss "eq"; ss "not"; ss "+"; ss "-"; ss "*"; ss "/"; ss "%"] ->
  comb no_custom op vals = Ok r -> exec op vals = r.
Proof. exact exec_is_comb. Qed.

(* non-vacuity *)
Definition c0 : gencfg := {| g_var := true; g_cond := true; g_try := true;
  g_nums := [(ss "n", VInt 3)]; g_bools := [(ss "b", VBool true)]; g_dnes := [(ss "d", VDNE)] |}.
Example C20_ex_wf : wf_cfg c0.
Proof.
  unfold wf_cfg, known. cbn. repeat split; repeat constructor; cbn; try (eexists; reflexivity); try reflexivity;
    intros H; repeat (destruct H as [H|H]; [discriminate|]); try destruct H.
Qed.
Example C20_ex : snd (generate c0 true 3 [5; 3; 2; 7; 1; 4; 9; 1; 60; 2; 0; 8; 1; 30; 4; 2; 40; 6; 3; 1; 1; 0; 2; 7]) <> VNil.
Proof. vm_compute. discriminate. Qed.

Definition c1 : gencfg := {| g_var := true; g_cond := true; g_try := false;
  g_nums := [(ss "n", VInt 3)]; g_bools := [(ss "b", VBool true)]; g_dnes := [(ss "d", VDNE)] |}.
Example C20_ex_wf1 : wf_cfg c1 /\ g_try c1 && nonempty (g_dnes c1) = false.
Proof. split; [exact C20_ex_wf|reflexivity]. Qed.
Example C20_ex1 : exists b, snd (generate c1 true 3 [5; 3; 2; 7; 1; 4; 9; 1; 60; 2; 0; 8; 1; 30; 4; 2; 40; 6; 3; 1; 1; 0; 2; 7]) = VBool b.
Proof. vm_compute. eexists. reflexivity. Qed.

(* non-vacuity of `registers`: the three variables of c0 registered with keys 1..3 *)
Definition pc0 : pconf := {| p_consts := []; p_vars := [(ss "n", 1); (ss "b", 2); (ss "d", 3)]; p_ops := []; p_undefined := false |}.
Example C20_ex_registers : registers c0 pc0.
Proof.
  intros n Hn. cbn in Hn. destruct Hn as [<-|[<-|[<-|[]]]]; (split; [reflexivity|split; [reflexivity|split; [eexists; reflexivity|]]]);
    (split; [eexists _, _; split; [reflexivity|]; repeat split; try reflexivity; try discriminate; repeat constructor|vm_compute; reflexivity]).
Qed.
Example C20_ex_text : gtext (fst (generate c0 true 2 [5; 3; 2; 7; 1; 4; 9; 1; 60; 2; 0; 8; 1; 30; 4; 2; 40; 6; 3; 1; 1; 0; 2; 7])) <> [].
Proof. vm_compute. discriminate. Qed.

Print Assumptions C20_reported_is_kleene.
Print Assumptions C20_text_parses.
Print Assumptions C20_text_eval.
Print Assumptions C20_reported_is_eval.
Print Assumptions C20_reported_is_tryeval.
