Require Import Base Opcode Tables Ops Tree Gen.
Example placeholder_C20 : True. Proof. exact I. Qed.
Print Assumptions placeholder_C20.
