(* C16 — Reordering is cost-directed, stable and confined to and/or operands.
   Only statements; proofs in Proofs/Reorder.v. The Go side (sort.SliceStable over float64 costs) is tied to
   `reorder` by comparing Go's optimised tree with the model's on every run (integer-valued costs). *)
Require Import GroupSort Base Opcode Tables Ops Tree Opt Reorder.
From Coq Require Import Permutation.
Open Scope Z_scope.

(* confined: an operator keeps its name, its fast mark and the multiset of its operands; only and/or aliases are
   permuted; `if` and leaves are untouched — for ANY sorting function that returns a permutation (which covers
   NaN/Inf costs, where the float comparator is inconsistent) *)
Theorem C16_confined : forall sorter, (forall l, Permutation (sorter l) l) -> forall name fast cs,
  exists cs', reorder_with sorter (TOp name fast cs) = TOp name fast cs' /\
              Permutation cs' (map (reorder_with sorter) cs) /\
              (is_boolop name = false -> cs' = map (reorder_with sorter) cs).
Proof. exact reorder_op. Qed.
Theorem C16_if_untouched : forall sorter c t f,
  reorder_with sorter (TIf c t f) = TIf (reorder_with sorter c) (reorder_with sorter t) (reorder_with sorter f).
Proof. exact reorder_if. Qed.

(* the sort used (stable insertion sort by cost; the stable sorted permutation is unique for a total preorder):
   a permutation, ascending in cost, operands of equal cost keep source order *)
Theorem C16_sort_perm : forall key l, Permutation (sort_by key l) l.
Proof. exact sort_perm. Qed.
Theorem C16_sort_ascending : forall key l a b, before (sort_by key l) a b -> key a <= key b.
Proof. exact sort_sorted. Qed.
Theorem C16_sort_stable : forall key l a b, before (sort_by key l) a b -> key a = key b -> before l a b.
Proof. exact sort_stable. Qed.
Theorem C16_equal_cost_keeps_order : forall key l a b, before l a b -> key a = key b -> before (sort_by key l) a b.
Proof. exact sort_keeps_equal. Qed.
Theorem C16_cheaper_first : forall key l a b, In a l -> In b l -> key a < key b -> before (sort_by key l) a b.
Proof. exact sort_orders. Qed.

(* raising the configured cost of a name x (not one of the two default keys) *)
Theorem C16_cost_monotone : forall cfg x,
  str_eqb x (ss cost_variable_key) = false /\ str_eqb x (ss cost_operator_key) = false ->
  forall c1 c2, c1 <= c2 -> forall t,
    cost (set_cost cfg x c1) t <= cost (set_cost cfg x c2) t /\
    (mentions x t = false -> cost (set_cost cfg x c1) t = cost (set_cost cfg x c2) t).
Proof. exact cost_monotone. Qed.
(* ... never moves an operand mentioning x ahead of a sibling that does not *)
Theorem C16_raise_never_moves_ahead : forall cfg x,
  str_eqb x (ss cost_variable_key) = false /\ str_eqb x (ss cost_operator_key) = false ->
  forall c1 c2 l a b, c1 <= c2 -> mentions x a = true -> mentions x b = false ->
  before (sort_by (cost (set_cost cfg x c2)) l) a b -> before (sort_by (cost (set_cost cfg x c1)) l) a b.
Proof. exact raise_never_moves_ahead. Qed.
(* ... leaves the relative order of siblings not mentioning x alone *)
Theorem C16_others_keep_order : forall cfg x,
  str_eqb x (ss cost_variable_key) = false /\ str_eqb x (ss cost_operator_key) = false ->
  forall c1 c2 l a b, c1 <= c2 -> mentions x a = false -> mentions x b = false ->
  (before (sort_by (cost (set_cost cfg x c1)) l) a b <-> before (sort_by (cost (set_cost cfg x c2)) l) a b).
Proof. exact others_keep_order. Qed.
(* ... and with a sufficiently large cost every operand mentioning x comes after every sibling that does not *)
Theorem C16_large_cost_last : forall cfg x,
  str_eqb x (ss cost_variable_key) = false /\ str_eqb x (ss cost_operator_key) = false ->
  forall a b, mentions x a = true -> mentions x b = false ->
  exists C, forall c, C <= c -> forall l, In a l -> In b l -> before (sort_by (cost (set_cost cfg x c)) l) b a.
Proof. exact large_cost_last. Qed.

(* non-vacuity *)
Definition cfg0 : config := {| enabled := []; stateless := []; registered := []; costs := []; events := false |}.
Example C16_ex :
  reorder cfg0 (TOp (ss "and") false [TOp (ss "=") false [TVar (ss "a") 1; TConst (VInt 1)]; TVar (ss "b") 2; TConst (VBool true); TVar (ss "c") 3])
  = TOp (ss "and") false [TConst (VBool true); TVar (ss "b") 2; TVar (ss "c") 3; TOp (ss "=") false [TVar (ss "a") 1; TConst (VInt 1)]]
  /\ reorder (set_cost cfg0 (ss "b") 1000) (TOp (ss "and") false [TVar (ss "b") 2; TVar (ss "c") 3; TVar (ss "a") 1])
  = TOp (ss "and") false [TVar (ss "c") 3; TVar (ss "a") 1; TVar (ss "b") 2]
  /\ reorder cfg0 (TOp (ss "+") false [TOp (ss "*") false [TVar (ss "a") 1; TConst (VInt 2)]; TConst (VInt 1)])
  = TOp (ss "+") false [TOp (ss "*") false [TVar (ss "a") 1; TConst (VInt 2)]; TConst (VInt 1)].
Proof. vm_compute. repeat split. Qed.

(* the whole pipeline, all passes on, in the pass order regenerated from the source: same-kind and/or groups of variables
   nested in one another (any depth, any mix of spellings of the one kind) come out as ONE node whose operands are the
   stable cost-ascending sort (C16_sort_* above) of their SOURCE order - so "equal cost keeps source order" and "cheaper
   first" hold across the nesting, which needs flattening to run before sorting *)
Theorem C16_groups_flatten_then_sort : forall custom cfg a n cs,
  (forall name, pass_on cfg name = true) -> grp a (TOp n false cs) ->
  optimize custom cfg (TOp n false cs) = TOp n (two_leaves (gleaves_list cs)) (sort_by (cost cfg) (gleaves_list cs)).
Proof. intros custom cfg a n cs H. exact (optimize_group custom cfg H a n cs). Qed.

(* the whole pipeline in its generated pass order (optimizations_order is regenerated from the source) on same-kind groups
   nested in one another: ONE node whose operands are the stable cost-ascending sort of their source order - flattening
   must come before sorting, or a nested group would be ranked as a unit and spliced in afterwards *)
Definition cfg_on : config := {| enabled := []; stateless := []; registered := []; costs := []; events := false |}.
Definition vx := TVar (ss "x") 1. Definition vc := TVar (ss "c") 2. Definition vb := TVar (ss "b") 3. Definition vd := TVar (ss "d") 4.
Definition noc (n : str) (a : list value) : res value := Err (EOther 0).
Example C16_nested_groups :
  optimize noc cfg_on (TOp (ss "and") false [TOp (ss "and") false [vx; vc]; vb]) = TOp (ss "and") false [vx; vc; vb] /\
  optimize noc (set_cost (set_cost (set_cost cfg_on (ss "c") 1) (ss "b") 50) (ss "x") 100)
    (TOp (ss "and") false [TOp (ss "and") false [vx; vc]; vb]) = TOp (ss "and") false [vc; vb; vx] /\
  optimize noc (set_cost cfg_on (ss "x") 1000)
    (TOp (ss "or") false [TOp (ss "or") false [vx; vc]; vb; vd]) = TOp (ss "or") false [vc; vb; vd; vx].
Proof. vm_compute. repeat split. Qed.

Print Assumptions C16_sort_stable.
Print Assumptions C16_groups_flatten_then_sort.
Print Assumptions C16_raise_never_moves_ahead.
Print Assumptions C16_large_cost_last.
