(* C17 — `in` / `overlap` are set membership / non-empty intersection for lists of any size.
   Only statements here; proofs in Proofs/OpsList.v. *)
Require Import Base Opcode Tables Ops OpsList.
Open Scope Z_scope.

Theorem C17_in_int_list : forall x l, exists b, list_in [VInt x; VIntL l] = Ok (VBool b) /\ (b = true <-> In x l).
Proof. exact in_int_list. Qed.
Theorem C17_in_str_list : forall x l, exists b, list_in [VStr x; VStrL l] = Ok (VBool b) /\ (b = true <-> In x l).
Proof. exact in_str_list. Qed.
Theorem C17_in_int_set : forall x l, exists b, list_in [VInt x; VIntSet l] = Ok (VBool b) /\ (b = true <-> In x l).
Proof. exact in_int_set. Qed.
Theorem C17_in_str_set : forall x l, exists b, list_in [VStr x; VStrSet l] = Ok (VBool b) /\ (b = true <-> In x l).
Proof. exact in_str_set. Qed.
Theorem C17_in_empty_literal : forall p, (exists x, p = VInt x) \/ (exists s, p = VStr s) -> list_in [p; VStrL []] = Ok (VBool false).
Proof. exact in_empty_literal. Qed.
Theorem C17_in_type_mismatch :
  (forall x s l, list_in [VInt x; VStrL (s :: l)] = Err (EType (ss "in"))) /\
  (forall x l, list_in [VStr x; VIntL l] = Err (EType (ss "in"))) /\
  (forall x l, list_in [VInt x; VStrSet l] = Err (EType (ss "in"))) /\
  (forall x l, list_in [VStr x; VIntSet l] = Err (EType (ss "in"))).
Proof. exact in_type_mismatch. Qed.

(* overlap = non-empty intersection, for every pair of lengths (the scan path below the generated threshold,
   the hash-the-shorter-list path above it) *)
Theorem C17_overlap_int : forall a b, exists r, list_overlap [VIntL a; VIntL b] = Ok (VBool r) /\ (r = true <-> exists x, In x a /\ In x b).
Proof. exact overlap_int. Qed.
Theorem C17_overlap_str : forall a b, exists r, list_overlap [VStrL a; VStrL b] = Ok (VBool r) /\ (r = true <-> exists x, In x a /\ In x b).
Proof. exact overlap_str. Qed.
Theorem C17_scan_eq_hash : forall (a b : list Z), ov_scan Z.eqb a b = ov_hash Z.eqb a b.
Proof. exact (scan_eq_hash Z.eqb Z.eqb_eq). Qed.
Theorem C17_overlap_symmetric : forall p q, is_list p = true -> is_list q = true -> list_overlap [p; q] = list_overlap [q; p].
Proof. exact overlap_symmetric. Qed.
Theorem C17_overlap_empty_literal : forall q, is_list q = true ->
  list_overlap [VStrL []; q] = Ok (VBool false) /\ list_overlap [q; VStrL []] = Ok (VBool false).
Proof. exact overlap_empty_literal. Qed.
Theorem C17_overlap_type_mismatch :
  (forall s a b, list_overlap [VStrL (s :: a); VIntL b] = Err (EType (ss "overlap"))) /\
  (forall s a b, list_overlap [VIntL b; VStrL (s :: a)] = Err (EType (ss "overlap"))) /\
  (forall p q, is_list p = false -> list_overlap [p; q] = Err (EType (ss "overlap"))) /\
  (forall p q, is_list p = true -> is_list q = false -> list_overlap [p; q] = Err (EType (ss "overlap"))).
Proof. exact overlap_type_mismatch. Qed.
Theorem C17_counts : (forall ps, length ps <> 2%nat -> list_overlap ps = Err (ECount (mname "overlap"))) /\
                     (forall ps, length ps <> 2%nat -> list_in ps = Err (ECount (mname "in"))).
Proof. exact (conj overlap_count in_count). Qed.

(* non-vacuity: a disjoint pair on the hashing side of the switch with the longer list first *)
Example C17_ex_hash_disjoint :
  list_overlap [VIntL (map Z.of_nat (seq 0 120)); VIntL [500; 501]] = Ok (VBool false) /\
  list_overlap [VIntL [500; 501]; VIntL (map Z.of_nat (seq 0 120))] = Ok (VBool false) /\
  list_overlap [VIntL (map Z.of_nat (seq 0 120)); VIntL [500; 7]] = Ok (VBool true).
Proof. vm_compute. repeat split. Qed.

Print Assumptions C17_overlap_int.
Print Assumptions C17_overlap_symmetric.
Print Assumptions C17_overlap_empty_literal.
Print Assumptions C17_in_int_list.
