Require Import Base Opcode Tables Ops.
Example placeholder_C17 : True. Proof. exact I. Qed.
Print Assumptions placeholder_C17.
