(* C06 — Compile and evaluation are total: result or error, never panic or hang.
   PARTIAL: the evaluation half (Eval, TryEval and Dump on every compiled tree) is proved; the text half (lexer,
   parsers on arbitrary strings) is explored under recover() — see DESIGN.md. *)
Require Import Base Opcode Tables Ops Tree Opt Flat Run CompFacts EvalDefs EvalTop TryCorrect DumpStruct Print Limits.
Open Scope Z_scope.

(* the model of Expr.Eval has an explicit MPanic outcome at every Go expression that can panic (index out of
   range, stale slot, negative count) and MFuel for a loop that does not end within len(nodes)+1 iterations;
   neither ever happens on a compiled tree, for any fetcher and any operator functions *)
Theorem C06_eval_total : forall fetch custom t,
  exists tr, eval fetch custom (compile t) = (tr, MVal (match snd (sem fetch custom t) with Ok v => v | Err _ => VNil end))
          \/ exists e, eval fetch custom (compile t) = (tr, MErr e).
Proof.
  intros. rewrite run_compile_correct. unfold sem_obs. destruct (sem fetch custom t) as [tr [v|e]]; cbn [fst snd].
  - exists (map e2o tr). left. reflexivity.
  - exists (map e2o tr). right. exists e. reflexivity.
Qed.

Theorem C06_eval_no_panic : forall fetch custom t site,
  snd (eval fetch custom (compile t)) <> MPanic site /\ snd (eval fetch custom (compile t)) <> MFuel.
Proof.
  intros. rewrite run_compile_correct. unfold sem_obs. destruct (snd (sem fetch custom t)); cbn [snd]; split; discriminate.
Qed.

(* the same for TryEval: the model of Expr.TryEval (explicit panic outcomes at every index expression, explicit fuel
   for the climbing loop) ends in a value or an error on every compiled tree, for every availability predicate *)
Theorem C06_tryeval_no_panic : forall fetch custom cached t site,
  snd (tryeval fetch custom cached (compile t)) <> MPanic site /\ snd (tryeval fetch custom cached (compile t)) <> MFuel.
Proof.
  intros. rewrite tryrun_compile_correct. unfold sem_obs. destruct (snd (trysem fetch custom cached t)); cbn [snd]; split; discriminate.
Qed.

(* Dump of a compiled program always produces a text (the model returns None where Go would index out of range) *)
Theorem C06_dump_total : forall t, dump (compile t) <> None.
Proof. intros t. rewrite dump_compile. discriminate. Qed.

(* the capacity check is total and its decision is one of the stated three *)
Theorem C06_check_total : forall t, (exists n, check t = inr n) \/ (exists e, check t = inl e).
Proof. intros t. destruct (check t); eauto. Qed.

(* The text half — Compile never panics on ANY string — has no theorem: the models of lexer and parsers are total
   functions by construction, which says nothing about the Go functions; that half is explored under recover()
   on every run (DESIGN.md section 5, C06). *)

Print Assumptions C06_eval_no_panic.
Print Assumptions C06_tryeval_no_panic.
