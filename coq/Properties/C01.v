(* C01 — Eval computes the documented left-to-right short-circuit semantics.
   Only statements; proofs in Proofs/EvalCorrect.v, EvalTop.v, SemFacts.v. *)
Require Import Base Opcode Tables Ops Tree Opt Flat Run CompFacts EvalDefs EvalTop SemFacts.
Open Scope Z_scope.

(* The compiled flat program, run by the model of Expr.Eval, returns exactly the value or the very error of the
   reference semantics `sem`, with exactly its fetches and operator applications in order — for EVERY tree
   (all operators and aliases of the generated table, `if`, every literal and constant, registered operators),
   EVERY fetcher function and EVERY registered-operator function (so every binding, including failing ones). *)
Theorem C01_eval_is_sem : forall fetch custom t,
  eval fetch custom (compile t) = sem_obs (sem fetch custom t).
Proof. exact run_compile_correct. Qed.

(* with the optimisations disabled the compiled tree is the parsed tree *)
Theorem C01_unoptimised : forall custom cfg t,
  (forall name, In name optimizations_order -> pass_on cfg name = false) -> optimize custom cfg t = t.
Proof. exact optimize_off. Qed.

(* `sem` lets the value of the last of two or more and/or operands be the operator's result without applying
   the operator (what the engine does). On the property's domain — operands of and/or are booleans — that IS
   the operator's result: *)
Theorem C01_last_operand_rule : forall custom name d b acc,
  op_kind name = Some d -> acc <> [] -> Forall (fun v => v = VBool (negb d)) acc ->
  apply_op custom name (rev (VBool b :: acc)) = Ok (VBool b).
Proof. exact last_operand_rule. Qed.

(* errors are passed through unchanged: the first failing operand's error is the result *)
Theorem C01_error_identity : forall fetch custom name c cs' acc tr e,
  sem fetch custom c = (tr, Err e) -> sem_args fetch custom name (c :: cs') acc = (tr, Err e).
Proof. exact failing_operand_stops. Qed.
Theorem C01_if_not_bool : forall fetch custom c t f tr v, sem fetch custom c = (tr, Ok v) -> (forall b, v <> VBool b) ->
  sem fetch custom (TIf c t f) = (tr, Err ECondNotBool).
Proof. exact if_cond_not_bool. Qed.

(* non-vacuity: an `if` under `or` under `and`, a failing variable behind a deciding operand, a landing two levels up *)
Definition ex_fetch (n : str) (k : Z) : res value :=
  if str_eqb n (ss "a") then Ok (VBool true) else if str_eqb n (ss "b") then Ok (VBool false)
  else if str_eqb n (ss "z") then Ok (VInt 0) else Err (EUser 7).
Definition ex_custom (n : str) (a : list value) : res value := Err (EUser 9).
Definition ex_tree : tree :=
  TOp (ss "and") false
    [TVar (ss "a") 1;
     TOp (ss "or") false [TVar (ss "b") 2; TIf (TVar (ss "a") 1) (TVar (ss "b") 2) (TVar (ss "boom") 3)];
     TOp (ss "=") false [TConst (VInt 1); TOp (ss "/") false [TConst (VInt 1); TVar (ss "z") 4]]].
Example C01_ex : eval ex_fetch ex_custom (compile ex_tree) =
  ([OGet (ss "a") 1; OGet (ss "b") 2; OGet (ss "a") 1; OGet (ss "b") 2;
    OCall (ss "or") false [VBool false; VBool false] (Ok (VBool false))], MVal (VBool false)).
Proof. vm_compute. reflexivity. Qed.
Example C01_ex_error : snd (eval ex_fetch ex_custom (compile
    (TOp (ss "and") false [TVar (ss "a") 1; TVar (ss "boom") 3; TVar (ss "b") 2]))) = MErr (EUser 7).
Proof. vm_compute. reflexivity. Qed.

Print Assumptions C01_eval_is_sem.
Print Assumptions C01_last_operand_rule.
