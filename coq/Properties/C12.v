(* C12 — Event reporting observes evaluation faithfully without changing it.
   Only statements; proofs in Proofs/EvalCorrectE.v, EvalTopE.v (and EvalTop.v for the plain program).

   `compileE t` is the program with event nodes (ReportEvent / Debug): every node except the leaf operands of a
   fast operator is preceded by its event node, jump targets and parents are those of the interleaved layout.
   It is compared with the transliterated calAndSetEventNode pass (`eventize (compile t)`) and with Go's own
   event-mode program on every correspondence case (codes 10 and 3). In the model an OP_EXEC event IS the
   observation `OCall name fast args result` made when the operator is applied; a LOOP event is `OLoop`. *)
Require Import Base Opcode Tables Ops Tree Opt Flat FlatE Run CompFacts EvalDefs EvalTop EvalCorrectE EvalTopE TryCorrect TryCorrectE Print DumpStruct DumpStructE LoopOrder LoopOrderT.
From Coq Require Import Sorted.
Open Scope Z_scope.

(* Eval of the event program: the result (value or the very error), the fetches and the OP_EXEC events —
   operator name, fast flag, arguments at call time, result or error — in order, are exactly those of the
   reference semantics, for EVERY tree, fetcher and registered-operator function; the LOOP events are the only
   other observations. *)
Theorem C12_event_program_is_sem : forall fetch custom t,
  dl (eval fetch custom (compileE t)) = sem_obs (sem fetch custom t).
Proof. exact run_compileE_correct. Qed.

(* switching events on changes neither the result nor the operator applications nor the fetches *)
Theorem C12_events_transparent : forall fetch custom t,
  dl (eval fetch custom (compileE t)) = eval fetch custom (compile t).
Proof. exact events_transparent. Qed.

(* the same for TryEval: on the event program it computes `trysem` — value or error, fetches of available variables,
   operator applications (OP_EXEC) in order — LOOP events being the only addition; so the event options never change
   the result of TryEval either *)
Theorem C12_tryeval_event_program_is_trysem : forall fetch custom cached t,
  dl (tryeval fetch custom cached (compileE t)) = sem_obs (trysem fetch custom cached t).
Proof. exact tryrun_compileE_correct. Qed.
Theorem C12_tryeval_events_transparent : forall fetch custom cached t,
  dl (tryeval fetch custom cached (compileE t)) = tryeval fetch custom cached (compile t).
Proof. exact try_events_transparent. Qed.

(* ... nor the decompiled program *)
Theorem C12_dump_unchanged : forall t, dump (compileE t) = dump (compile t).
Proof. exact dump_events_transparent. Qed.

(* LOOP events report strictly increasing positions (the event node in front of the real node at index p reports p;
   every jump of the evaluator goes forward): 0 followed by the reported positions is strictly increasing, for Eval
   and for TryEval, on every tree, fetcher, operator table and availability predicate *)
Theorem C12_loop_positions_increase : forall fetch custom t,
  LocallySorted Z.lt (0 :: loops (fst (eval fetch custom (compileE t)))).
Proof. exact loops_sorted. Qed.
Theorem C12_try_loop_positions_increase : forall fetch custom cached t,
  LocallySorted Z.lt (0 :: loops (fst (tryeval fetch custom cached (compileE t)))).
Proof. exact try_loops_sorted. Qed.

(* without event nodes no LOOP event is ever emitted *)
Theorem C12_plain_no_loops : forall fetch custom t,
  dl (eval fetch custom (compile t)) = eval fetch custom (compile t).
Proof. exact plain_no_loops. Qed.

(* the event program never writes outside the operand stack the engine allocates for it *)
Theorem C12_event_alloc : forall t i nd, getn (compileE t) i = Some nd -> osTop nd < alloc (compileE t).
Proof. exact compileE_alloc. Qed.

(* non-vacuity: a short-circuit landing two levels up across event nodes, an `if`, a fast operator *)
Definition ex_fetch (n : str) (k : Z) : res value :=
  if str_eqb n (ss "a") then Ok (VBool true) else if str_eqb n (ss "b") then Ok (VBool false)
  else if str_eqb n (ss "n") then Ok (VInt 4) else Err (EUser 7).
Definition ex_custom (n : str) (a : list value) : res value := Err (EUser 9).
Definition ex_tree : tree :=
  TOp (ss "and") false
    [TVar (ss "a") 1;
     TOp (ss "or") false [TVar (ss "b") 2; TIf (TVar (ss "a") 1) (TOp (ss "<") true [TVar (ss "n") 3; TConst (VInt 5)]) (TVar (ss "boom") 4)];
     TOp (ss "=") false [TConst (VInt 1); TVar (ss "boom") 4]].
Example C12_ex_layout : compileE ex_tree = eventize (compile ex_tree).
Proof. vm_compute. reflexivity. Qed.
Example C12_ex_loops : length (fst (eval ex_fetch ex_custom (compileE ex_tree))) = 13%nat /\
  fst (dl (eval ex_fetch ex_custom (compileE ex_tree))) =
    [OGet (ss "a") 1; OGet (ss "b") 2; OGet (ss "a") 1; OGet (ss "n") 3;
     OCall (ss "<") true [VInt 4; VInt 5] (Ok (VBool true)); OGet (ss "boom") 4].
Proof. vm_compute. split; reflexivity. Qed.

Print Assumptions C12_event_program_is_sem.
Print Assumptions C12_events_transparent.
Print Assumptions C12_tryeval_events_transparent.
Print Assumptions C12_loop_positions_increase.
Print Assumptions C12_try_loop_positions_increase.
