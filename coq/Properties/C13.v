(* C13 — Dump decompiles to an equivalent, re-compilable expression.
   Only statements; proofs in Proofs/DumpStruct.v, DumpText.v, PrefixProofs.v, PrintProofs.v, SourceProofs.v,
   LexProofs.v, DumpProofs.v, OptSound.v.

   Proved, for EVERY tree t and every configuration:
     (0) `dump (compile t)` — the model of util.go Dump run on the compiled program: children found through the
         parent-index table, the `fi` marker of an `if` skipped — is the structural printing `show t`;
     (1) for every t the compiler can hold (`twf`: int64 integers, strings, booleans, non-empty integer lists, string
         lists; variables registered under their names; operators of the configuration) whose names are identifiers
         and whose strings contain no double quote (`lexable`: the lexer has no escapes, so these are exactly the
         literals the lexer can produce), that text goes through lexer, parser.check and the prefix parser and
         yields t with its fast marks cleared (`strip t`): Dump's output compiles under the same names;
     (2) strconv.ParseInt inverts the integer printer on all of int64; string literals are verbatim (C14_lex_render:
         spaces, parentheses, semicolons, backslashes, line breaks, non-ASCII are content);
     (3) the recompiled program — under any optimisation subset — returns the value the original returned whenever
         both return one (on expressions whose and/or operands are boolean); it is the very same tree when the
         original carries no fast marks (all effects and errors equal);
     (4) dumping the recompiled unoptimised program reproduces the text exactly.
     (5) the same text is printed for the program WITH event nodes (ReportEvent/Debug).
   PARTIAL only in this: "same result on every binding" is proved as "whenever both return a value" (a fast and/or
   operator evaluates both leaves, so an erroring second operand behind a deciding first one is an error before and
   a value after the round trip). *)
Require Import Base Opcode Tables Ops Tree Opt Flat Run Directives Lexer Parser Print LexProofs PrefixProofs PrintProofs SourceProofs OptSound DumpProofs OptValue StripValue EvalDefs EvalTop DumpStruct DumpText FlatE DumpStructE.
Open Scope Z_scope.

(* (0) Dump of a compiled program is the structural printing of its tree *)
Theorem C13_dump_is_show : forall t, dump (compile t) = Some (fst (show t 0)).
Proof. exact dump_compile. Qed.

(* (1) Dump's text compiles, under the same names, to the same expression *)
Theorem C13_dump_roundtrip : forall c t, twf c t -> lexable t -> is_leaf t = false ->
  match dump (compile t) with Some s => parse_source c false s | None => None end = Some (strip t).
Proof. exact dump_roundtrip. Qed.

(* (4) the second Dump reproduces the text exactly *)
Theorem C13_second_dump_text : forall t, dump (compile (strip t)) = dump (compile t).
Proof. exact second_dump. Qed.

(* (1) from text: any layout of the printed tokens — white space and `;` comments between them — reads back as the tree *)
Theorem C13_reparse : forall c items t,
  wf_items is_letter_tab is_number_tab false items -> drop_comments (map fst items) = ttoks show_Z t -> twf c t -> is_leaf t = false ->
  parse_source c false (render items) = Some (strip t).
Proof. intros c. exact (prefix_source c show_Z parse_show_Z). Qed.

Theorem C13_reparse_tokens : forall c t, twf c t -> parse_prefix c false (ttoks show_Z t) = Some (strip t).
Proof. intros c. exact (parse_prefix_correct c show_Z parse_show_Z). Qed.

(* (2) integers: ParseInt inverts FormatInt on all of int64 *)
Theorem C13_int_roundtrip : forall z, in_i64 z = true -> parse_int (show_Z z) = Some z.
Proof. exact parse_show_Z. Qed.

(* (3) same result *)
Theorem C13_same_value : forall fetch custom cfg' t a b, wt fetch custom t ->
  snd (sem fetch custom t) = Ok a -> snd (sem fetch custom (optimize custom cfg' (strip t))) = Ok b -> a = b.
Proof. exact roundtrip_value. Qed.
Theorem C13_same_everything_without_fast_marks : forall fetch custom t, strip t = t ->
  sem fetch custom (strip t) = sem fetch custom t.
Proof. exact roundtrip_exact. Qed.
(* the round trip never LOSES a result: whenever the original expression returns a value, the expression read back
   from its Dump returns that value — evaluated as it stands, or recompiled under any configuration that does not
   reorder, when all variables are bound (StripValue.v). The converse can fail by design: a fast operator of the
   original fetches both operands before it looks at the first *)
Theorem C13_recompiled_keeps_value : forall fetch custom t v, wt fetch custom t ->
  snd (sem fetch custom t) = Ok v -> snd (sem fetch custom (strip t)) = Ok v.
Proof. intros fetch custom t v W H. exact (strip_value fetch custom t W v H). Qed.
Theorem C13_recompiled_keeps_value_cfg : forall fetch custom cfg t v, pass_on cfg "reordering" = false ->
  wt fetch custom t -> OptValue.vars_ok fetch t ->
  snd (sem fetch custom t) = Ok v -> snd (sem fetch custom (optimize custom cfg (strip t))) = Ok v.
Proof. exact strip_value_cfg. Qed.
Theorem C13_recompiled_keeps_value_compiled : forall fetch custom t v, wt fetch custom t ->
  snd (eval fetch custom (compile t)) = MVal v -> snd (eval fetch custom (compile (strip t))) = MVal v.
Proof.
  intros fetch custom t v W H. rewrite run_compile_correct in *. unfold sem_obs in *. cbn [snd] in *.
  destruct (snd (sem fetch custom t)) as [v0|e] eqn:E; [|discriminate]. inversion H; subst v0.
  pose proof (strip_value fetch custom t W v E) as S. unfold OptValue.val in S. rewrite S. reflexivity.
Qed.

(* (4) the second round trip is the identity *)
Theorem C13_second_dump : forall c t, twf c (strip t) ->
  parse_prefix c false (ttoks show_Z (strip t)) = Some (strip t).
Proof. intros c t H. rewrite (parse_prefix_correct c show_Z parse_show_Z _ H). rewrite strip_idem. reflexivity. Qed.

(* regardless of event/debug mode: Dump of the event-mode program is the same text (event nodes are skipped, the
   real nodes keep their structure), so everything above holds for it too *)
Theorem C13_dump_event_mode : forall t, dump (compileE t) = dump (compile t).
Proof. exact dump_events_transparent. Qed.

(* non-vacuity: a program with a string full of delimiters, a list, a fast operator; its Dump in the model; the
   round trip through the whole front end *)
Definition c0 : pconf := {| p_consts := []; p_vars := [(ss "a", 1); (ss "b.c", 2)]; p_ops := [ss "f"]; p_undefined := false |}.
Definition ex : tree :=
  TOp (ss "and") false
    [TOp (ss "=") true [TVar (ss "a") 1; TConst (VStr (ss "x (y); z\ [1]
 λ"))];
     TIf (TOp (ss "in") false [TVar (ss "b.c") 2; TConst (VIntL [1; -2; 3])]) (TOp (ss "f") false []) (TConst (VBool false))].
Example C13_ex_wf : twf c0 ex /\ is_leaf ex = false.
Proof. cbn [twf ex vwf c0]. repeat split; try reflexivity; [discriminate|repeat constructor]. Qed.
Example C13_ex_lexable : lexable ex.
Proof.
  cbn [lexable ex vlex]. repeat split;
    try (eexists _, _; split; [reflexivity|]; repeat split; try reflexivity; try discriminate; repeat constructor; fail).
  - intros H. vm_compute in H. repeat (destruct H as [H|H]; [discriminate|]). exact H.
  - repeat constructor.
Qed.
Example C13_ex_dump : option_map (parse_source c0 false) (dump (compile ex)) = Some (Some (strip ex)).
Proof. vm_compute. reflexivity. Qed.
Example C13_ex_dump_events : dump (eventize (compile ex)) = dump (compile ex) /\ compileE ex = eventize (compile ex).
Proof. vm_compute. split; reflexivity. Qed.

Print Assumptions C13_dump_is_show.
Print Assumptions C13_dump_event_mode.
Print Assumptions C13_dump_roundtrip.
Print Assumptions C13_reparse.
Print Assumptions C13_same_value.
Print Assumptions C13_second_dump.
