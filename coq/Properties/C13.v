(* C13 — Dump decompiles to an equivalent, re-compilable expression.
   Only statements; proofs in Proofs/PrefixProofs.v, PrintProofs.v, SourceProofs.v, LexProofs.v, DumpProofs.v, OptSound.v.

   PARTIAL. Proved, for every tree t the compiler can hold (`twf`: literals the lexer can produce — int64 integers,
   strings, booleans, non-empty integer lists, string lists —, variables registered under their names, operators
   of the configuration) and every configuration:
     (1) the text that prints t's tokens — operator heads, variables by name, literals, lists — in ANY white-space
         layout goes through lexer, parser.check and the prefix parser and yields t with its fast marks cleared
         (`strip t`): it compiles under the same names to the same expression;
     (2) strconv.ParseInt inverts the integer printer on all of int64; string literals are taken verbatim
         (C14_lex_render: spaces, parentheses, semicolons, backslashes, line breaks, non-ASCII are content);
     (3) the recompiled program — under any optimisation subset — returns the value the original returned whenever
         both return one (on expressions whose and/or operands are boolean), and is the very same tree when the
         original carries no fast marks (all effects and errors equal);
     (4) reading back is idempotent: the recompiled unoptimised tree prints and reads back as itself.
   NOT proved: that Dump's reconstruction from the parent-index table (`Print.dump`, the model of util.go Dump)
   prints exactly those tokens for every compiled program, with or without event nodes. That step is tied on every
   run: the model `dump` is compared with Go's Dump on Go's own exported program, and Go's Compile(Dump(e)),
   its results on bindings and the second Dump are compared directly. *)
Require Import Base Opcode Tables Ops Tree Opt Flat Run Directives Lexer Parser Print LexProofs PrefixProofs PrintProofs SourceProofs OptSound DumpProofs.
Open Scope Z_scope.

(* (1) from text: any layout of the printed tokens reads back as the tree *)
Theorem C13_reparse : forall c items t,
  wf_items is_letter_tab is_number_tab false items -> map fst items = ttoks show_Z t -> twf c t -> is_leaf t = false ->
  parse_source c false (render items) = Some (strip t).
Proof. intros c. exact (prefix_source c show_Z parse_show_Z). Qed.

Theorem C13_reparse_tokens : forall c t, twf c t -> parse_prefix c false (ttoks show_Z t) = Some (strip t).
Proof. intros c. exact (parse_prefix_correct c show_Z parse_show_Z). Qed.

(* (2) integers: ParseInt inverts FormatInt on all of int64 *)
Theorem C13_int_roundtrip : forall z, in_i64 z = true -> parse_int (show_Z z) = Some z.
Proof. exact parse_show_Z. Qed.

(* (3) same result *)
Theorem C13_same_value : forall fetch custom cfg' t a b, wt fetch custom t ->
  snd (sem fetch custom t) = Ok a -> snd (sem fetch custom (optimize custom cfg' (strip t))) = Ok b -> a = b.
Proof. exact roundtrip_value. Qed.
Theorem C13_same_everything_without_fast_marks : forall fetch custom t, strip t = t ->
  sem fetch custom (strip t) = sem fetch custom t.
Proof. exact roundtrip_exact. Qed.

(* (4) the second round trip is the identity *)
Theorem C13_second_dump : forall c t, twf c (strip t) ->
  parse_prefix c false (ttoks show_Z (strip t)) = Some (strip t).
Proof. intros c t H. rewrite (parse_prefix_correct c show_Z parse_show_Z _ H). rewrite strip_idem. reflexivity. Qed.

(* the unproved step, kept visible: Dump of the compiled program prints t's tokens in some layout *)
Definition C13_dump_statement : Prop :=
  forall t, is_leaf t = false -> exists items, dump (compile t) = Some (render items) /\ map fst items = ttoks show_Z t.

(* non-vacuity: a program with a string full of delimiters, a list, a fast operator; its Dump in the model; the
   round trip through the whole front end *)
Definition c0 : pconf := {| p_consts := []; p_vars := [(ss "a", 1); (ss "b.c", 2)]; p_ops := [ss "f"]; p_undefined := false |}.
Definition ex : tree :=
  TOp (ss "and") false
    [TOp (ss "=") true [TVar (ss "a") 1; TConst (VStr (ss "x (y); z\ [1]
 λ"))];
     TIf (TOp (ss "in") false [TVar (ss "b.c") 2; TConst (VIntL [1; -2; 3])]) (TOp (ss "f") false []) (TConst (VBool false))].
Example C13_ex_wf : twf c0 ex /\ is_leaf ex = false.
Proof. cbn [twf ex vwf c0]. repeat split; try reflexivity; [discriminate|repeat constructor]. Qed.
Example C13_ex_dump : option_map (parse_source c0 false) (dump (compile ex)) = Some (Some (strip ex)).
Proof. vm_compute. reflexivity. Qed.
Example C13_ex_dump_events : dump (eventize (compile ex)) = dump (compile ex).
Proof. vm_compute. reflexivity. Qed.

Print Assumptions C13_reparse.
Print Assumptions C13_same_value.
Print Assumptions C13_second_dump.
