Require Import Base Opcode Tables Ops Tree Lexer Parser Print.
Example placeholder_C13 : True. Proof. exact I. Qed.
Print Assumptions placeholder_C13.
