(* C05 — TryEval is at least as informative as three-valued (Kleene) evaluation.
   `tryeval` is the model of Expr.TryEval run on the compiled program (compared with Go's TryEval on Go's own
   programs on every run), `trysem` its tree-level meaning; proofs in Proofs/TryCorrect.v, TryFacts.v. *)
Require Import Base Opcode Tables Ops Tree Opt Flat Run TryFacts EvalDefs EvalTop TryCorrect.
Open Scope Z_scope.

(* machine level: on every expression whose sub-expressions do not fail, TryEval of the compiled program returns
   the strong Kleene value (VDNE = unknown, reported as ErrDNE by TryEvalBool) — never an error, a panic or a default *)
Theorem C05_tryeval_is_kleene : forall custom fetch cached t v,
  subs_ok custom fetch cached t -> kleene fetch custom cached t = Ok v ->
  snd (tryeval fetch custom cached (compile t)) = MVal v.
Proof.
  intros custom fetch cached t v Hs Hk. rewrite tryrun_compile_correct. unfold sem_obs. cbn [snd].
  rewrite (trysem_is_kleene custom fetch cached t Hs), Hk. reflexivity.
Qed.

(* on every expression whose sub-expressions do not fail (subs_ok), TryEval's result IS strong Kleene evaluation
   with VDNE as "unknown": `and` with any false operand is false, `or` with any true operand is true wherever the
   unknown operands sit and however deep the deciding operand is nested, `if` follows the chosen branch when the
   condition is known, every other operator is definite when all operands are; otherwise the result is VDNE
   (which TryEvalBool reports as ErrDNE) — not an error, not a default value *)
Theorem C05_trysem_is_kleene : forall custom fetch cached t,
  subs_ok custom fetch cached t -> snd (trysem fetch custom cached t) = kleene fetch custom cached t.
Proof. exact trysem_is_kleene. Qed.

(* the Kleene combination is order-insensitive for and/or: a deciding operand decides wherever it sits *)
Theorem C05_and_any_false : forall custom name vs, op_kind name = Some false -> existsb is_false vs = true ->
  comb custom name vs = Ok (VBool false).
Proof. intros custom name vs Hk H. unfold comb. rewrite Hk, H. reflexivity. Qed.
Theorem C05_or_any_true : forall custom name vs, op_kind name = Some true -> existsb is_true vs = true ->
  comb custom name vs = Ok (VBool true).
Proof. intros custom name vs Hk H. unfold comb. rewrite Hk, H. reflexivity. Qed.

(* the executeOperatorProxy of the engine computes exactly that combination *)
Theorem C05_proxy_is_comb : forall custom name fast args, snd (proxy custom name fast args) = comb custom name args.
Proof. exact proxy_comb. Qed.

(* non-vacuity: deciding operand after two unavailable ones, nested under or/if *)
Definition ex_fetch (n : str) (k : Z) : res value := Ok (VBool (str_eqb n (ss "t"))).
Definition ex_cached (n : str) (k : Z) : bool := str_eqb n (ss "t") || str_eqb n (ss "f").
Definition nocustom (n : str) (a : list value) : res value := Err (EOther 0).
Definition ex_tree : tree :=
  TOp (ss "or") false [TVar (ss "u1") 1; TOp (ss "and") false [TVar (ss "u2") 2; TVar (ss "f") 3];
                       TIf (TVar (ss "t") 4) (TOp (ss "||") false [TVar (ss "u3") 5; TVar (ss "t") 4]) (TVar (ss "u1") 1)].
Example C05_ex : snd (trysem ex_fetch nocustom ex_cached ex_tree) = Ok (VBool true)
                 /\ kleene ex_fetch nocustom ex_cached ex_tree = Ok (VBool true)
                 /\ snd (trysem ex_fetch nocustom ex_cached (TOp (ss "+") false [TVar (ss "u1") 1; TConst (VInt 1)])) = Ok VDNE.
Proof. vm_compute. repeat split. Qed.
Example C05_ex_subs_ok : subs_ok nocustom ex_fetch ex_cached ex_tree.
Proof. cbn. repeat split; eexists; vm_compute; reflexivity. Qed.

Print Assumptions C05_trysem_is_kleene.
Print Assumptions C05_tryeval_is_kleene.
