(* C03 — Skipped and/or operands and untaken if-branches are never evaluated.
   Only statements; proofs in Proofs/EvalTop.v, SemFacts.v. *)
Require Import Base Opcode Tables Ops Tree Opt Flat Run CompFacts EvalDefs EvalTop SemFacts.
Open Scope Z_scope.

(* the observation stream of the compiled program (every VariableFetcher.Get and every operator application with
   its arguments and result, in order, including the failing one) is exactly the effect trace of the left-to-right
   short-circuit semantics of the optimised tree t' — for every tree, so in particular for optimize cfg t under
   every option subset and cost map *)
Theorem C03_effects_are_sem : forall fetch custom t',
  fst (eval fetch custom (compile t')) = map e2o (fst (sem fetch custom t')).
Proof. intros. rewrite run_compile_correct. reflexivity. Qed.

(* what `sem` evaluates: nothing after a deciding operand, nothing after a failing one, exactly one branch *)
Theorem C03_deciding_operand_stops : forall fetch custom name d c cs' acc tr,
  op_kind name = Some d -> sem fetch custom c = (tr, Ok (VBool d)) ->
  sem_args fetch custom name (c :: cs') acc = (tr, Ok (VBool d)).
Proof. exact deciding_operand_stops. Qed.
Theorem C03_failing_operand_stops : forall fetch custom name c cs' acc tr e,
  sem fetch custom c = (tr, Err e) -> sem_args fetch custom name (c :: cs') acc = (tr, Err e).
Proof. exact failing_operand_stops. Qed.
Theorem C03_if_true : forall fetch custom c t f tr, sem fetch custom c = (tr, Ok (VBool true)) ->
  sem fetch custom (TIf c t f) = pre tr (sem fetch custom t).
Proof. exact if_true_branch. Qed.
Theorem C03_if_false : forall fetch custom c t f tr, sem fetch custom c = (tr, Ok (VBool false)) ->
  sem fetch custom (TIf c t f) = pre tr (sem fetch custom f).
Proof. exact if_false_branch. Qed.

(* the only liberty: a fast operator fetches both leaves (in order) before it is applied *)
Theorem C03_fast_liberty : forall fetch custom name a b, fast_shape true [a; b] = true ->
  sem fetch custom (TOp name true [a; b]) = sem_fast fetch custom name a b.
Proof. exact fast_meaning. Qed.

(* non-vacuity: the failing variable behind the deciding operand is not fetched; the untaken branch neither *)
Definition ex_fetch (n : str) (k : Z) : res value :=
  if str_eqb n (ss "t") then Ok (VBool true) else if str_eqb n (ss "f") then Ok (VBool false) else Err (EUser 7).
Definition ex_custom (n : str) (a : list value) : res value := Ok (VInt 42).
Example C03_ex :
  eval ex_fetch ex_custom (compile (TOp (ss "or") false
     [TVar (ss "f") 1; TIf (TVar (ss "t") 2) (TVar (ss "t") 2) (TVar (ss "boom") 3); TVar (ss "boom") 3; TOp (ss "c") false []]))
  = ([OGet (ss "f") 1; OGet (ss "t") 2; OGet (ss "t") 2], MVal (VBool true)).
Proof. vm_compute. reflexivity. Qed.

Print Assumptions C03_effects_are_sem.
