(* C19 — Version and date encodings preserve order. Only statements; proofs in Proofs/OpsVersion.v, Proofs/OpsDate.v. *)
Require Import Base Opcode Tables Ops OpsVersion OpsDate.
Open Scope Z_scope.

(* the operator on a string whose dot-separated components parse (strconv.ParseInt model) to numbers 0..9999
   returns the base-10000 numeral of the components padded with zeros to the valid length *)
Theorem C19_version_encodes : forall m dl s vs n,
  parses (split 46 s) vs -> Forall digit vs -> valid_len n ->
  version_conv m dl [VStr s; VInt n] = Ok (VInt (value_of (pad (Z.to_nat n) vs) 0)) /\
  (valid_len dl -> version_conv m dl [VStr s] = Ok (VInt (value_of (pad (Z.to_nat dl) vs) 0))).
Proof. exact version_encodes. Qed.

(* comparing the encodings = comparing the padded component lists lexicographically; no wrap-around *)
Theorem C19_version_order : forall n va vb, (n <= 4)%nat -> Forall digit va -> Forall digit vb ->
  (value_of (pad n va) 0 ?= value_of (pad n vb) 0) = lexcmp (pad n va) (pad n vb) /\
  0 <= value_of (pad n va) 0 < B ^ Z.of_nat n /\ B ^ Z.of_nat n <= B ^ 4 /\ B ^ 4 < two63.
Proof. exact version_order. Qed.
Theorem C19_lexcmp_eq : forall n va vb, lexcmp (pad n va) (pad n vb) = Eq <-> pad n va = pad n vb.
Proof. exact lexcmp_pad_spec. Qed.

(* components of 10000 or more, non-numeric components and valid lengths outside 1..4 are rejected *)
Theorem C19_version_rejects : forall m dl s n,
  (valid_len n -> Exists bad_component (firstn (Z.to_nat n) (split 46 s)) ->
     version_conv m dl [VStr s; VInt n] = Err (EExec (mname (vmode_key m)))) /\
  (~ valid_len n -> version_conv m dl [VStr s; VInt n] = Err (EExec (mname (vmode_key m)))) /\
  (forall ps, length ps <> 1%nat -> length ps <> 2%nat -> version_conv m dl ps = Err (ECount (mname (vmode_key m)))).
Proof. exact version_rejects. Qed.

Theorem C19_split_join : forall sep l, l <> [] -> Forall (fun a => ~ In sep a) l -> split sep (join sep l) = l.
Proof. exact split_join. Qed.

(* dates: chronological order of valid civil dates/times = order of the encoded UTC Unix seconds *)
Theorem C19_civil_monotone : forall y1 m1 d1 y2 m2 d2,
  valid_date y1 m1 d1 -> valid_date y2 m2 d2 -> date_lt y1 m1 d1 y2 m2 d2 ->
  days_from_civil y1 m1 d1 < days_from_civil y2 m2 d2.
Proof. exact civil_monotone. Qed.
Theorem C19_unix_monotone : forall a b, valid_tm a -> valid_tm b -> tm_lt a b -> unix_of a < unix_of b.
Proof. exact unix_monotone. Qed.

(* non-vacuity *)
Example C19_ex_versions :
  version_conv VVersion 3 [VStr (ss "1.9999.3")] = Ok (VInt 199990003) /\
  version_conv VVersion 3 [VStr (ss "2.0.0")] = Ok (VInt 200000000) /\
  version_conv VVersion 3 [VStr (ss "1.10000.0")] = Err (EExec (ss "version")) /\
  version_conv VVersion 3 [VStr (ss "1.2"); VInt 4] = Ok (VInt 1000200000000) /\
  version_conv VVersion 3 [VStr (ss "1.2"); VInt 5] = Err (EExec (ss "version")).
Proof. vm_compute. repeat split. Qed.
Example C19_ex_parses : parses (split 46 (ss "1.9999.3")) [1; 9999; 3] /\ Forall digit [1; 9999; 3].
Proof. split; [repeat constructor | repeat constructor; unfold B, version_base; lia]. Qed.
Example C19_ex_dates :
  parse_time (ss "2006-01-02") (ss "2024-02-29") = Some 1709164800 /\
  parse_time (ss "2006-01-02") (ss "2023-02-29") = None /\
  parse_time (ss "2006-01-02 15:04:05") (ss "1970-01-01 00:00:01") = Some 1.
Proof. vm_compute. repeat split. Qed.

Print Assumptions C19_version_order.
Print Assumptions C19_version_encodes.
Print Assumptions C19_version_rejects.
Print Assumptions C19_unix_monotone.
