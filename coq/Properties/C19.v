Require Import Base Opcode Tables Ops.
Example placeholder_C19 : True. Proof. exact I. Qed.
Print Assumptions placeholder_C19.
