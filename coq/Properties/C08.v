(* C08 — Compile is a pure, deterministic function of config contents and source.
   PARTIAL BY NATURE. In the model Compile is a Gallina function of (switches, stateless list, registered names,
   costs, tree): purity and determinism hold by construction, and what IS proved is the part with content: the
   in-source directives denote exactly a setting of the switches, affect only the compilation's own copy
   (`apply_directives` returns a new option list), and the optimiser reads nothing but the switches, the stateless
   list, the registered names and the costs. That the Go Compile never writes the caller's Config, that CopyConfig /
   ExtendConf share no mutable state, and determinism under concurrent compilation are memory-level facts: they are
   checked on every run by histories over shared configs with deep snapshots, mutation of copies and sources, and
   concurrent compilation under the race detector. Proofs: Proofs/DirectivesProofs.v. *)
Require Import Base Tables Ops Tree Opt Directives DirectivesProofs.
Open Scope Z_scope.

Theorem C08_ordinary_comment : forall opts cmt, strip_prefix (ss ";;;;") (trim cmt) = None -> apply_comment opts cmt = Some opts.
Proof. exact ordinary_comment. Qed.

Theorem C08_optimize_sets_all : forall opts b n, In n optimizations_order ->
  switch (fold_left (fun o m => set_opt o m b) optimizations_order opts) n = b.
Proof. exact optimize_sets_all. Qed.

Theorem C08_item_sets : forall opts k v b name, parse_bool (trim v) = Some b -> trim k = ss name -> In name optimizations_order ->
  str_eqb (ss name) (ss opt_all_switch) = false ->
  forall item, split 58 item = [k; v] ->
  exists opts', apply_item opts item = Some opts' /\ switch opts' (str_to_string (ss name)) = b /\
                (forall n, n <> str_to_string (ss name) -> switch opts' n = switch opts n).
Proof. exact item_sets. Qed.

(* the optimised tree is a function of the switches, the stateless list, the registered names and the costs only:
   equal config contents give equal programs, in any order, whatever happened before *)
Theorem C08_optimize_depends_on_contents : forall custom cfg1 cfg2 t,
  (forall n, In n optimizations_order -> pass_on cfg1 n = pass_on cfg2 n) ->
  stateless cfg1 = stateless cfg2 -> registered cfg1 = registered cfg2 -> costs cfg1 = costs cfg2 ->
  optimize custom cfg1 t = optimize custom cfg2 t.
Proof. exact optimize_depends_on_switches. Qed.

(* non-vacuity *)
Example C08_ex :
  option_map (fun o => map (switch o) optimizations_order)
    (apply_directives [("reordering", true)]%string [ss ";;;; constant_folding : false , reordering:0"; ss "; plain"; ss ";;;;fast_evaluation:T"])
  = Some [false; true; true; false] /\
  apply_directives [] [ss ";;;; nonsense:true"] = None /\
  apply_directives [] [ss ";;;; optimize:false"] <> None.
Proof. vm_compute. repeat split; discriminate. Qed.

Print Assumptions C08_optimize_depends_on_contents.
Print Assumptions C08_item_sets.
