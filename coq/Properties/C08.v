Require Import Base Opcode Tables Ops Tree Opt Flat Run.
Example placeholder_C08 : True. Proof. exact I. Qed.
Print Assumptions placeholder_C08.
