(* C10 — Constant folding respects operator purity and defers failures to run time.
   Only statements; proofs in Proofs/Fold.v, EvalTop.v. *)
Require Import Base Opcode Tables Ops Tree Opt Flat Run Fold EvalDefs EvalTop.
Open Scope Z_scope.

(* (a) every operator invoked while compiling (the constant-folding log of the model, compared with the calls Go
   makes with a nil context on every run) is stateless: in the generated built-in stateless list, or listed in
   Config.StatelessOperators AND registered *)
Theorem C10_only_stateless_at_compile_time : forall custom cfg t c,
  In c (snd (cfold custom cfg t)) -> is_stateless cfg (fst c).
Proof. exact cfold_calls_stateless. Qed.

(* the generated stateless list only names operators of the generated table (the folding function exists) *)
Theorem C10_stateless_names_are_builtin :
  forallb (fun n => match assoc_s n builtin_table with Some _ => true | None => false end) builtin_stateless = true.
Proof. vm_compute. reflexivity. Qed.

(* (b) a failing constant sub-expression is left in place: Compile succeeds, and by C01's theorem the error comes
   out of Eval exactly when the left-to-right semantics reaches that sub-expression *)
Theorem C10_fold_failure_kept : forall custom cfg name fast cs fn vs e,
  stateless_fn custom cfg name = Some fn -> all_consts cs = Some vs -> fn vs = Err e ->
  (forall d, op_kind name = Some d -> bool_scan d cs = Some None) ->
  fst (fold_node custom cfg name fast cs) = TOp name fast cs.
Proof. exact fold_failure_kept. Qed.
Theorem C10_failure_surfaces_from_eval : forall fetch custom t,
  eval fetch custom (compile t) = sem_obs (sem fetch custom t).
Proof. exact run_compile_correct. Qed.

(* (c) an operator that is not stateless is never folded, whatever its operands: its call stays in the program
   and (C03's theorem) is made in every evaluation that reaches it *)
Theorem C10_impure_never_folded : forall custom cfg name fast cs, stateless_fn custom cfg name = None ->
  fst (cfold custom cfg (TOp name fast cs)) = TOp name fast (map (fun c => fst (cfold custom cfg c)) cs).
Proof. exact cfold_impure_node. Qed.

(* (d) a node with a non-constant operand is replaced by a constant only when a constant operand of an and/or
   already decides it *)
Theorem C10_fold_var_only_if_decided : forall custom cfg name fast cs v,
  fst (fold_node custom cfg name fast cs) = TConst v -> ~ Forall (fun c => exists w, c = TConst w) cs ->
  exists d, op_kind name = Some d /\ v = VBool d /\ In (TConst (VBool d)) cs.
Proof. exact fold_var_only_if_decided. Qed.

(* non-vacuity *)
Definition cfg1 : config := {| enabled := []; stateless := [ss "pure"]; registered := [ss "pure"; ss "now"]; costs := []; events := false |}.
Definition cust (n : str) (a : list value) : res value := if str_eqb n (ss "pure") then Ok (VInt 7) else Ok (VInt 42).
Example C10_ex :
  fst (cfold cust cfg1 (TOp (ss "+") false [TOp (ss "pure") false []; TOp (ss "now") false []; TOp (ss "/") false [TConst (VInt 1); TConst (VInt 0)]]))
  = TOp (ss "+") false [TConst (VInt 7); TOp (ss "now") false []; TOp (ss "/") false [TConst (VInt 1); TConst (VInt 0)]]
  /\ snd (cfold cust cfg1 (TOp (ss "+") false [TOp (ss "pure") false []; TOp (ss "now") false []; TOp (ss "/") false [TConst (VInt 1); TConst (VInt 0)]]))
  = [(ss "pure", []); (ss "/", [VInt 1; VInt 0])]
  /\ fst (cfold cust cfg1 (TOp (ss "and") false [TVar (ss "x") 1; TConst (VBool false); TOp (ss "now") false []])) = TConst (VBool false).
Proof. vm_compute. repeat split. Qed.

Print Assumptions C10_only_stateless_at_compile_time.
Print Assumptions C10_fold_var_only_if_decided.
